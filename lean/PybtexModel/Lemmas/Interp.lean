/-
Helper lemmas for C03 (the BST interpreter model `Model/Interp.lean`).
-/
import PybtexModel.Spec.BstSem
import PybtexModel.Lemmas.CIMap

namespace Pybtex.Interp
open Pybtex.BstSem

/-! ### values -/

theorem valToStr_cases {v : Val} {x : Str} (h : valToStr v = some x) :
    v = .str x ∨ ∃ m, v = .missing m ∧ x = [] := by
  cases v <;> simp [valToStr] at h
  · exact .inl (by rw [h])
  · exact .inr ⟨_, rfl, h⟩

theorem valToStr_isStr {v : Val} : (∃ x, valToStr v = some x) ↔ isStr v = true := by
  cases v <;> simp [valToStr, isStr]

theorem valToStr_none {v : Val} (h : isStr v = false) : valToStr v = none := by
  cases v <;> simp [valToStr, isStr] at h ⊢

/-- `stack$` prints every value of a stack that holds no function values -/
theorem printAll_eq (vs : List Val) (h : ∀ v ∈ vs, isExec v = false) :
    runBuiltin.printAll vs = some (vs.map shown) := by
  induction vs with
  | nil => rfl
  | cons v vs ih =>
    have := ih (fun w hw => h w (List.mem_cons_of_mem _ hw))
    have hv := h v List.mem_cons_self
    cases v <;> simp_all [runBuiltin.printAll, shown, isExec, intToStr]

/-! ### fuel -/

/-- more fuel never changes a finished run: all six mutually recursive functions at once -/
theorem fuel_mono_all (n : Nat) : ∀ m, n ≤ m →
    (∀ v s, Finished (execVal n v s) → execVal m v s = execVal n v s) ∧
    (∀ o s, Finished (execObj n o s) → execObj m o s = execObj n o s) ∧
    (∀ t s, Finished (execTok n t s) → execTok m t s = execTok n t s) ∧
    (∀ b s, Finished (execBody n b s) → execBody m b s = execBody n b s) ∧
    (∀ p f s, Finished (whileLoop n p f s) → whileLoop m p f s = whileLoop n p f s) ∧
    (∀ b s, Finished (runBuiltin n b s) → runBuiltin m b s = runBuiltin n b s) := by
  induction n with
  | zero =>
    intro m _
    refine ⟨?_, ?_, ?_, ?_, ?_, ?_⟩ <;> intros <;> rename_i h <;> exact absurd rfl h
  | succ n ih =>
    intro m hm
    obtain ⟨m, rfl⟩ : ∃ m', m = m' + 1 := ⟨m - 1, by omega⟩
    obtain ⟨ihV, ihO, ihT, ihB, ihW, ihR⟩ := ih m (by omega)
    refine ⟨?_, ?_, ?_, ?_, ?_, ?_⟩
    · intro v s h
      cases v with
      | fn body => exact ihB body s h
      | ref name =>
        simp only [execVal] at h ⊢
        split
        · rename_i o ho; rw [ho] at h; exact ihO _ _ h
        · rfl
      | _ => rfl
    · intro o s h
      cases o with
      | builtin b => exact ihR b s h
      | func body => exact ihB body s h
      | _ => rfl
    · intro t s h
      cases t with
      | name nm =>
        simp only [execTok] at h ⊢
        split
        · rfl
        · rename_i o ho; rw [ho] at h; exact ihO _ _ h
      | _ => rfl
    · intro b s h
      cases b with
      | nil => rfl
      | cons t ts =>
        simp only [execBody] at h ⊢
        cases ht : execTok n t s with
        | error e =>
          rw [ht] at h
          have : Finished (execTok n t s) := by rw [ht]; exact h
          rw [ihT t s this, ht]
        | ok s1 =>
          rw [ht] at h
          have : Finished (execTok n t s) := by rw [ht]; intro hh; cases hh
          rw [ihT t s this, ht]
          exact ihB ts s1 h
    · intro p f s h
      simp only [whileLoop] at h ⊢
      cases hp : execVal n p s with
      | error e =>
        rw [hp] at h
        have : Finished (execVal n p s) := by rw [hp]; exact h
        rw [ihV p s this, hp]
      | ok s1 =>
        rw [hp] at h
        have : Finished (execVal n p s) := by rw [hp]; intro hh; cases hh
        rw [ihV p s this, hp]
        simp only at h ⊢
        cases hq : popInt s1 with
        | error e => rfl
        | ok q =>
          obtain ⟨k, s2⟩ := q
          rw [hq] at h
          simp only at h ⊢
          by_cases hk : k ≤ 0
          · simp only [if_pos hk]
          · simp only [if_neg hk] at h ⊢
            cases hf : execVal n f s2 with
            | error e =>
              rw [hf] at h
              have : Finished (execVal n f s2) := by rw [hf]; exact h
              rw [ihV f s2 this, hf]
            | ok s3 =>
              rw [hf] at h
              have : Finished (execVal n f s2) := by rw [hf]; intro hh; cases hh
              rw [ihV f s2 this, hf]
              exact ihW p f s3 h
    · intro b s h
      cases b with
      | callType =>
        simp only [runBuiltin] at h ⊢
        cases hc : curEntry s with
        | error e => rfl
        | ok q =>
          obtain ⟨k, e, db⟩ := q
          rw [hc] at h
          simp only at h ⊢
          cases hv : s.vars.getItem e.type with
          | some o => rw [hv] at h; exact ihO _ _ h
          | none =>
            rw [hv] at h
            simp only at h ⊢
            split
            · rename_i o ho; rw [ho] at h; exact ihO _ _ h
            · rfl
      | if_ =>
        simp only [runBuiltin] at h ⊢
        cases h1 : pop s with
        | error e => rfl
        | ok q1 =>
          obtain ⟨f1, s1⟩ := q1
          rw [h1] at h; simp only at h ⊢
          cases h2 : pop s1 with
          | error e => rfl
          | ok q2 =>
            obtain ⟨f2, s2⟩ := q2
            rw [h2] at h; simp only at h ⊢
            cases h3 : popInt s2 with
            | error e => rfl
            | ok q3 =>
              obtain ⟨p, s3⟩ := q3
              rw [h3] at h; simp only at h ⊢
              split
              · rename_i hp; rw [if_pos hp] at h; exact ihV _ _ h
              · rename_i hp; rw [if_neg hp] at h; exact ihV _ _ h
      | while_ =>
        simp only [runBuiltin] at h ⊢
        cases h1 : pop s with
        | error e => rfl
        | ok q1 =>
          obtain ⟨f1, s1⟩ := q1
          rw [h1] at h; simp only at h ⊢
          cases h2 : pop s1 with
          | error e => rfl
          | ok q2 =>
            obtain ⟨f2, s2⟩ := q2
            rw [h2] at h; simp only at h ⊢
            exact ihW _ _ _ h
      | _ => rfl

/-! ### `add.period$` -/

theorem dropWhile_replicate_append {α} (p : α → Bool) (k : Nat) (a : α) (c : α) (l : List α) (ha : p a = true) (hc : p c = false) :
    (List.replicate k a ++ c :: l).dropWhile p = c :: l := by
  induction k with
  | zero => simp [hc]
  | succ k ih => simp [List.replicate_succ, ha, ih]

theorem dropWhile_replicate_all {α} (p : α → Bool) (k : Nat) (a : α) (ha : p a = true) :
    (List.replicate k a).dropWhile p = [] := by
  induction k with
  | zero => rfl
  | succ k ih => simp [List.replicate_succ, ha, ih]

theorem addPeriod_nil : addPeriod [] = [] := rfl

/-- a string that ends in `c` followed by closing braces only -/
theorem addPeriod_core (core : Str) (c : Char) (k : Nat) (hc : c ≠ '}') :
    addPeriod (core ++ c :: List.replicate k '}') =
      if EndsSentence c then core ++ c :: List.replicate k '}' else core ++ c :: List.replicate k '}' ++ ['.'] := by
  have hne : core ++ c :: List.replicate k '}' ≠ [] := by simp
  have hrev : (core ++ c :: List.replicate k '}').reverse = List.replicate k '}' ++ c :: core.reverse := by
    simp [List.reverse_append, List.reverse_cons]
  unfold addPeriod
  rw [if_neg hne]
  simp only [hrev]
  rw [dropWhile_replicate_append _ k '}' c core.reverse (by simp) (by simp [hc])]
  simp only [List.reverse_cons, List.reverse_reverse, List.getLast?_append, List.getLast?_singleton, EndsSentence]
  simp

theorem addPeriod_braces (k : Nat) :
    addPeriod (List.replicate (k + 1) '}') = List.replicate (k + 1) '}' ++ ['.'] := by
  have hne : List.replicate (k + 1) '}' ≠ [] := by simp [List.replicate_succ]
  unfold addPeriod
  rw [if_neg hne]
  have : (List.replicate (k + 1) '}').reverse.dropWhile (· = '}') = [] := by
    rw [List.reverse_replicate]
    exact dropWhile_replicate_all _ _ _ (by simp)
  simp only [this]
  rfl

/-! ### `format.name$`: the name number -/

theorem pyIndex_pos {α} (l : List α) (n : Int) (h1 : 1 ≤ n) (h2 : n ≤ l.length) :
    pyIndex l (n - 1) = l[(n - 1).toNat]? := by
  unfold pyIndex
  simp only
  have h3 : ¬ (n - 1 < 0) := by omega
  rw [if_neg h3, if_neg (by omega)]

theorem finished_ok {s : St} : Finished (.ok s) := fun h => nomatch h

theorem evalVal_mono {n m v s s'} (h : execVal n v s = .ok s') (hm : n ≤ m) : execVal m v s = .ok s' := by
  rw [(fuel_mono_all n m hm).1 v s (by rw [h]; exact finished_ok), h]
theorem evalObj_mono {n m o s s'} (h : execObj n o s = .ok s') (hm : n ≤ m) : execObj m o s = .ok s' := by
  rw [(fuel_mono_all n m hm).2.1 o s (by rw [h]; exact finished_ok), h]
theorem evalTok_mono {n m t s s'} (h : execTok n t s = .ok s') (hm : n ≤ m) : execTok m t s = .ok s' := by
  rw [(fuel_mono_all n m hm).2.2.1 t s (by rw [h]; exact finished_ok), h]
theorem evalBody_mono {n m b s s'} (h : execBody n b s = .ok s') (hm : n ≤ m) : execBody m b s = .ok s' := by
  rw [(fuel_mono_all n m hm).2.2.2.1 b s (by rw [h]; exact finished_ok), h]
theorem evalWhile_mono {n m p f s s'} (h : whileLoop n p f s = .ok s') (hm : n ≤ m) : whileLoop m p f s = .ok s' := by
  rw [(fuel_mono_all n m hm).2.2.2.2.1 p f s (by rw [h]; exact finished_ok), h]
theorem evalBuiltin_mono {n m b s s'} (h : runBuiltin n b s = .ok s') (hm : n ≤ m) : runBuiltin m b s = .ok s' := by
  rw [(fuel_mono_all n m hm).2.2.2.2.2 b s (by rw [h]; exact finished_ok), h]

theorem evalBuiltin_while (p f : Val) (s s' : St) (r : List Val) :
    EvalBuiltin .while_ { s with stack := f :: p :: r } s' ↔ EvalWhile p f { s with stack := r } s' := by
  constructor
  · rintro ⟨n, h⟩
    cases n with
    | zero => cases h
    | succ n => exact ⟨n, h⟩
  · rintro ⟨n, h⟩
    exact ⟨n + 1, h⟩

theorem evalWhile_unfold (p f : Val) (s s' : St) :
    EvalWhile p f s s' ↔
      ∃ s1 k s2, EvalVal p s s1 ∧ popInt s1 = .ok (k, s2) ∧
        ((k ≤ 0 ∧ s' = s2) ∨ (0 < k ∧ ∃ s3, EvalVal f s2 s3 ∧ EvalWhile p f s3 s')) := by
  constructor
  · rintro ⟨n, h⟩
    cases n with
    | zero => cases h
    | succ n =>
      simp only [whileLoop] at h
      cases hp : execVal n p s with
      | error e => rw [hp] at h; cases h
      | ok s1 =>
        rw [hp] at h; simp only at h
        cases hq : popInt s1 with
        | error e => rw [hq] at h; cases h
        | ok q =>
          obtain ⟨k, s2⟩ := q
          rw [hq] at h; simp only at h
          refine ⟨s1, k, s2, ⟨n, hp⟩, hq, ?_⟩
          by_cases hk : k ≤ 0
          · rw [if_pos hk] at h; cases h; exact .inl ⟨hk, rfl⟩
          · rw [if_neg hk] at h
            cases hf : execVal n f s2 with
            | error e => rw [hf] at h; cases h
            | ok s3 =>
              rw [hf] at h
              exact .inr ⟨by omega, s3, ⟨n, hf⟩, ⟨n, h⟩⟩
  · rintro ⟨s1, k, s2, ⟨n1, hp⟩, hq, hcase⟩
    rcases hcase with ⟨hk, rfl⟩ | ⟨hk, s3, ⟨n2, hf⟩, ⟨n3, hw⟩⟩
    · refine ⟨n1 + 1, ?_⟩
      simp only [whileLoop, hp, hq, if_pos hk]
    · refine ⟨max n1 (max n2 n3) + 1, ?_⟩
      have h1 := evalVal_mono hp (Nat.le_max_left n1 (max n2 n3))
      have h2 := evalVal_mono hf (Nat.le_trans (Nat.le_max_left n2 n3) (Nat.le_max_right n1 (max n2 n3)))
      have h3 := evalWhile_mono hw (Nat.le_trans (Nat.le_max_right n2 n3) (Nat.le_max_right n1 (max n2 n3)))
      have hk' : ¬ k ≤ 0 := by omega
      simp only [whileLoop, h1, hq, if_neg hk', h2, h3]

/-! ### `strLt`: code-point lexicographic order -/

theorem char_eq_of_toNat_eq {a b : Char} (h : a.toNat = b.toNat) : a = b := by
  apply Char.ext
  apply UInt32.toNat_inj.1
  exact h

theorem strLt_iff_lexLt (a b : Str) : strLt a b = true ↔ LexLt a b := by
  constructor
  · intro h
    induction a generalizing b with
    | nil =>
      cases b with
      | nil => simp [strLt] at h
      | cons c t => exact .nil
    | cons x r ih =>
      cases b with
      | nil => simp [strLt] at h
      | cons y t =>
        simp only [strLt] at h
        by_cases h1 : x.toNat < y.toNat
        · exact .lt h1
        · rw [if_neg h1] at h
          by_cases h2 : x.toNat > y.toNat
          · rw [if_pos h2] at h; cases h
          · rw [if_neg h2] at h
            have : x = y := char_eq_of_toNat_eq (by omega)
            subst this
            exact .eq (ih t h)
  · intro h
    induction h with
    | nil => rfl
    | lt h1 => simp only [strLt, if_pos h1]
    | eq _ ih => simp only [strLt, Nat.lt_irrefl, if_false, gt_iff_lt, ih]

theorem strLt_irrefl (a : Str) : strLt a a = false := by
  induction a with
  | nil => rfl
  | cons x r ih => simp only [strLt, Nat.lt_irrefl, if_false, gt_iff_lt, ih]

theorem strLt_trans {a b c : Str} (h1 : strLt a b = true) (h2 : strLt b c = true) : strLt a c = true := by
  induction a generalizing b c with
  | nil =>
    cases c with
    | nil => cases b <;> simp [strLt] at h1 h2
    | cons z u => rfl
  | cons x r ih =>
    cases b with
    | nil => simp [strLt] at h1
    | cons y t =>
      cases c with
      | nil => simp [strLt] at h2
      | cons z u =>
        simp only [strLt] at h1 h2 ⊢
        by_cases hxy : x.toNat < y.toNat
        · by_cases hyz : y.toNat < z.toNat
          · rw [if_pos (by omega)]
          · rw [if_neg hyz] at h2
            by_cases hyz' : y.toNat > z.toNat
            · rw [if_pos hyz'] at h2; cases h2
            · rw [if_pos (by omega)]
        · rw [if_neg hxy] at h1
          by_cases hxy' : x.toNat > y.toNat
          · rw [if_pos hxy'] at h1; cases h1
          · rw [if_neg hxy'] at h1
            by_cases hyz : y.toNat < z.toNat
            · rw [if_pos (by omega)]
            · rw [if_neg hyz] at h2
              by_cases hyz' : y.toNat > z.toNat
              · rw [if_pos hyz'] at h2; cases h2
              · rw [if_neg hyz'] at h2
                rw [if_neg (by omega), if_neg (by omega)]
                exact ih h1 h2

theorem strLt_asymm {a b : Str} (h : strLt a b = true) : strLt b a = false := by
  cases hb : strLt b a with
  | false => rfl
  | true => have := strLt_trans h hb; rw [strLt_irrefl] at this; cases this

/-- trichotomy: the order is total -/
theorem strLt_total (a b : Str) : strLt a b = true ∨ a = b ∨ strLt b a = true := by
  induction a generalizing b with
  | nil =>
    cases b with
    | nil => exact .inr (.inl rfl)
    | cons y t => exact .inl rfl
  | cons x r ih =>
    cases b with
    | nil => exact .inr (.inr rfl)
    | cons y t =>
      simp only [strLt]
      by_cases h1 : x.toNat < y.toNat
      · exact .inl (by rw [if_pos h1])
      · by_cases h2 : y.toNat < x.toNat
        · exact .inr (.inr (by rw [if_pos h2]))
        · have : x = y := char_eq_of_toNat_eq (by omega)
          subst this
          rcases ih t with h | h | h
          · exact .inl (by rw [if_neg h1, if_neg h1]; exact h)
          · exact .inr (.inl (by rw [h]))
          · exact .inr (.inr (by rw [if_neg h1, if_neg h1]; exact h))

/-- `¬ b < a` and `¬ a < b` only for equal strings -/
theorem strLt_antisymm {a b : Str} (h1 : strLt a b = false) (h2 : strLt b a = false) : a = b := by
  rcases strLt_total a b with h | h | h
  · rw [h] at h1; cases h1
  · exact h
  · rw [h] at h2; cases h2

/-- `a ≤ b < c → a < c` -/
theorem strLt_of_le_of_lt {a b c : Str} (h1 : strLt b a = false) (h2 : strLt b c = true) : strLt a c = true := by
  rcases strLt_total a b with h | h | h
  · exact strLt_trans h h2
  · rw [h]; exact h2
  · rw [h] at h1; cases h1

/-! ### the stable insertion sort of `SORT` -/

/-- sortedness on the Boolean order -/
def SortedB (l : List (Str × Str)) : Prop := l.Pairwise fun a b => strLt b.1 a.1 = false

theorem insertSorted_perm (x : Str × Str) (l : List (Str × Str)) : (insertSorted x l).Perm (x :: l) := by
  induction l with
  | nil => exact List.Perm.refl _
  | cons y r ih =>
    simp only [insertSorted]
    split
    · exact List.Perm.refl _
    · exact (List.Perm.cons y ih).trans (List.Perm.swap x y r)

theorem insertSorted_sorted (x : Str × Str) (l : List (Str × Str)) (h : SortedB l) : SortedB (insertSorted x l) := by
  induction l with
  | nil => simp [insertSorted, SortedB]
  | cons y r ih =>
    simp only [insertSorted]
    have hy := List.pairwise_cons.1 h
    split
    · rename_i hlt
      refine List.pairwise_cons.2 ⟨?_, h⟩
      intro z hz
      rcases List.mem_cons.1 hz with rfl | hz
      · exact strLt_asymm hlt
      · have := hy.1 z hz
        -- y ≤ z, x < y ⇒ ¬ z < x
        cases hzx : strLt z.1 x.1 with
        | false => rfl
        | true =>
          have := strLt_trans hzx hlt
          rw [hy.1 z hz] at this; cases this
    · rename_i hlt
      refine List.pairwise_cons.2 ⟨?_, ih hy.2⟩
      intro z hz
      have hz' := (insertSorted_perm x r).subset hz
      rcases List.mem_cons.1 hz' with rfl | hz'
      · simpa using hlt
      · exact hy.1 z hz'

/-- stability of one insertion into a sorted list: the new element goes behind all elements
with the same key -/
theorem insertSorted_filter (x : Str × Str) (l : List (Str × Str)) (h : SortedB l) (k : Str) :
    (insertSorted x l).filter (fun p => p.1 = k) = l.filter (fun p => p.1 = k) ++ (if x.1 = k then [x] else []) := by
  induction l with
  | nil => by_cases hk : x.1 = k <;> simp [insertSorted, hk]
  | cons y r ih =>
    have hy := List.pairwise_cons.1 h
    simp only [insertSorted]
    split
    · rename_i hlt
      by_cases hk : x.1 = k
      · -- nothing in y :: r has key k
        have hnone : (y :: r).filter (fun p => p.1 = k) = [] := by
          rw [List.filter_eq_nil_iff]
          intro z hz
          have hzlt : strLt x.1 z.1 = true := by
            rcases List.mem_cons.1 hz with rfl | hz
            · exact hlt
            · -- x < y ≤ z
              rcases strLt_total x.1 z.1 with h' | h' | h'
              · exact h'
              · rw [h'] at hlt; rw [hy.1 z hz] at hlt; cases hlt
              · have := strLt_trans h' hlt; rw [hy.1 z hz] at this; cases this
          intro hzk
          have : z.1 = x.1 := by simpa [hk] using hzk
          rw [this, strLt_irrefl] at hzlt; cases hzlt
        rw [List.filter_cons, if_pos (by simpa using hk), hnone, if_pos hk]; rfl
      · rw [List.filter_cons, if_neg (by simpa using hk), if_neg hk, List.append_nil]
    · rw [List.filter_cons, List.filter_cons, ih hy.2]
      split <;> simp

theorem foldl_insertSorted (l acc : List (Str × Str)) (h : SortedB acc) :
    SortedB (l.foldl (fun acc x => insertSorted x acc) acc) ∧
    (l.foldl (fun acc x => insertSorted x acc) acc).Perm (acc ++ l) ∧
    ∀ k, (l.foldl (fun acc x => insertSorted x acc) acc).filter (fun p => p.1 = k) =
      acc.filter (fun p => p.1 = k) ++ l.filter (fun p => p.1 = k) := by
  induction l generalizing acc with
  | nil => simp [h]
  | cons x l ih =>
    simp only [List.foldl_cons]
    obtain ⟨h1, h2, h3⟩ := ih (insertSorted x acc) (insertSorted_sorted x acc h)
    refine ⟨h1, ?_, ?_⟩
    · refine h2.trans ?_
      refine ((insertSorted_perm x acc).append_right l).trans ?_
      simp only [List.cons_append]
      exact List.perm_middle.symm
    · intro k
      rw [h3 k, insertSorted_filter x acc h k, List.filter_cons]
      by_cases hk : x.1 = k <;> simp [hk]

theorem sortByKey_spec (l : List (Str × Str)) :
    SortedB (sortByKey l) ∧ (sortByKey l).Perm l ∧
    ∀ k, (sortByKey l).filter (fun p => p.1 = k) = l.filter (fun p => p.1 = k) := by
  have := foldl_insertSorted l [] List.Pairwise.nil
  simpa [sortByKey] using this

/-! ### the variable table -/

theorem getItem_setItem_same (d : CIDict VarObj) (k : Str) (v : VarObj) : (d.setItem k v).getItem k = some v := by
  simp only [CIDict.getItem, CIDict.setItem]; exact dget_dset_same _ _ _

theorem getItem_setItem_eq (d : CIDict VarObj) (k k' : Str) (v : VarObj) (h : lower k' = lower k) :
    (d.setItem k v).getItem k' = some v := by
  simp only [CIDict.getItem, CIDict.setItem, h]; exact dget_dset_same _ _ _

theorem getItem_setItem_ne (d : CIDict VarObj) (k k' : Str) (v : VarObj) (h : lower k' ≠ lower k) :
    (d.setItem k v).getItem k' = d.getItem k' := by
  simp only [CIDict.getItem, CIDict.setItem]; exact dget_dset_ne _ _ _ _ h

theorem getItem_congr (d : CIDict VarObj) (k k' : Str) (h : lower k' = lower k) : d.getItem k' = d.getItem k := by
  simp only [CIDict.getItem, h]

theorem contains_eq_isSome (d : CIDict VarObj) (k : Str) : d.contains k = (d.getItem k).isSome := rfl

theorem _root_.Pybtex.BstSem.VarsPersist.refl (v : CIDict VarObj) : VarsPersist v v := fun _ => .inl rfl

theorem _root_.Pybtex.BstSem.VarsPersist.trans {a b c : CIDict VarObj} (h1 : VarsPersist a b) (h2 : VarsPersist b c) : VarsPersist a c := by
  intro n
  rcases h1 n with e1 | ⟨x, y, e1, e1'⟩ | ⟨x, y, e1, e1'⟩ <;> rcases h2 n with e2 | ⟨x', y', e2, e2'⟩ | ⟨x', y', e2, e2'⟩
  · exact .inl (e2.trans e1)
  · exact .inr (.inl ⟨x', y', e1 ▸ e2, e2'⟩)
  · exact .inr (.inr ⟨x', y', e1 ▸ e2, e2'⟩)
  · exact .inr (.inl ⟨x, y, e1, e2.trans e1'⟩)
  · exact .inr (.inl ⟨x, y', e1, e2'⟩)
  · rw [e1'] at e2; cases e2
  · exact .inr (.inr ⟨x, y, e1, e2.trans e1'⟩)
  · rw [e1'] at e2; cases e2
  · exact .inr (.inr ⟨x, y', e1, e2'⟩)

theorem varsPersist_set_gint {v : CIDict VarObj} {name : Str} {a : Int} (b : Int)
    (h : v.getItem name = some (.gint a)) : VarsPersist v (v.setItem name (.gint b)) := by
  intro n
  by_cases hn : lower n = lower name
  · exact .inr (.inl ⟨a, b, by rw [getItem_congr v name n hn, h], getItem_setItem_eq v name n _ hn⟩)
  · exact .inl (getItem_setItem_ne v name n _ hn)

theorem varsPersist_set_gstr {v : CIDict VarObj} {name : Str} {a : Val} (b : Val)
    (h : v.getItem name = some (.gstr a)) : VarsPersist v (v.setItem name (.gstr b)) := by
  intro n
  by_cases hn : lower n = lower name
  · exact .inr (.inr ⟨a, b, by rw [getItem_congr v name n hn, h], getItem_setItem_eq v name n _ hn⟩)
  · exact .inl (getItem_setItem_ne v name n _ hn)

/-! ### frames -/

theorem _root_.Pybtex.BstSem.Frame.refl (s : St) : Frame s s :=
  ⟨rfl, rfl, rfl, rfl, rfl, fun _ _ => rfl, VarsPersist.refl _, ⟨[], rfl⟩, List.prefix_refl _, List.prefix_refl _⟩

theorem _root_.Pybtex.BstSem.Frame.trans {a b c : St} (h1 : Frame a b) (h2 : Frame b c) : Frame a c := by
  refine ⟨h2.cur.trans h1.cur, h2.db.trans h1.db, h2.citations.trans h1.citations, h2.macros.trans h1.macros,
    h2.preamble.trans h1.preamble, ?_, VarsPersist.trans h1.vars h2.vars, ?_, h1.reports.trans h2.reports, h1.printed.trans h2.printed⟩
  · intro k hk
    rw [h2.entry k (by rw [h1.cur]; exact hk), h1.entry k hk]
  · obtain ⟨e1, he1⟩ := h1.out
    obtain ⟨e2, he2⟩ := h2.out
    exact ⟨e1 ++ e2, by rw [he2, he1, List.foldl_append]⟩

theorem pop_eq {s s1 : St} {v : Val} (h : pop s = .ok (v, s1)) : s1 = { s with stack := s1.stack } ∧ s.stack = v :: s1.stack := by
  unfold pop at h
  split at h
  · cases h
  · rename_i hs; cases h; exact ⟨rfl, hs⟩

theorem pop_frame {s s1 : St} {v : Val} (h : pop s = .ok (v, s1)) : Frame s s1 := by
  rw [(pop_eq h).1]
  exact ⟨rfl, rfl, rfl, rfl, rfl, fun _ _ => rfl, VarsPersist.refl _, ⟨[], rfl⟩, List.prefix_refl _, List.prefix_refl _⟩

theorem popInt_frame {s s1 : St} {n : Int} (h : popInt s = .ok (n, s1)) : Frame s s1 := by
  unfold popInt at h
  split at h
  · cases h
  · rename_i hp; cases h; exact pop_frame hp
  · cases h

theorem popStr_frame {s s1 : St} {x : Str} (h : popStr s = .ok (x, s1)) : Frame s s1 := by
  unfold popStr at h
  split at h
  · cases h
  · rename_i hp; cases h; exact pop_frame hp
  · rename_i hp; cases h; exact pop_frame hp
  · cases h

theorem _root_.Pybtex.BstSem.Frame.setEntryVar (s : St) (k n : Str) (v : Val) (hk : s.cur = some k) : Frame s (setEntryVar s k n v) := by
  refine ⟨rfl, rfl, rfl, rfl, rfl, ?_, VarsPersist.refl _, ⟨[], rfl⟩, List.prefix_refl _, List.prefix_refl _⟩
  intro k' hk'
  show dget (dset s.entryVars k _) k' = _
  exact dget_dset_ne _ _ _ _ (by rintro rfl; exact hk' hk)

/-- close a goal `Frame s X` where `X` is an explicit update of `s` -/
macro "frame_leaf" : tactic => `(tactic| first
  | exact Frame.refl _
  | exact ⟨rfl, rfl, rfl, rfl, rfl, fun _ _ => rfl, VarsPersist.refl _, ⟨[], rfl⟩, List.prefix_refl _, List.prefix_refl _⟩
  | exact ⟨rfl, rfl, rfl, rfl, rfl, fun _ _ => rfl, VarsPersist.refl _, ⟨[], rfl⟩, List.prefix_append _ _, List.prefix_refl _⟩
  | exact ⟨rfl, rfl, rfl, rfl, rfl, fun _ _ => rfl, VarsPersist.refl _, ⟨[], rfl⟩, List.prefix_refl _, List.prefix_append _ _⟩
  | exact ⟨rfl, rfl, rfl, rfl, rfl, fun _ _ => rfl, VarsPersist.refl _, ⟨[.write _], rfl⟩, List.prefix_refl _, List.prefix_refl _⟩
  | exact ⟨rfl, rfl, rfl, rfl, rfl, fun _ _ => rfl, VarsPersist.refl _, ⟨[.newline], rfl⟩, List.prefix_refl _, List.prefix_refl _⟩)

/-- walk along the pops recorded in the context -/
macro "frame_chain" : tactic => `(tactic| repeat (first
  | refine Frame.trans (pop_frame (by assumption)) ?_
  | refine Frame.trans (popInt_frame (by assumption)) ?_
  | refine Frame.trans (popStr_frame (by assumption)) ?_))

/-- every built-in other than the three that execute code (`call.type$`, `if$`, `while$`) -/
theorem prim_frame (f : Nat) (b : Builtin) (s s' : St) (hb : b ≠ .callType ∧ b ≠ .if_ ∧ b ≠ .while_)
    (h : runBuiltin (f+1) b s = .ok s') : Frame s s' := by
  cases b
  case callType => exact absurd rfl hb.1
  case if_ => exact absurd rfl hb.2.1
  case while_ => exact absurd rfl hb.2.2
  case assign =>
    simp only [runBuiltin] at h
    split at h
    · cases h
    · rename_i var s1 h1
      split at h
      · cases h
      · rename_i value s2 h2
        have f12 : Frame s s2 := (pop_frame h1).trans (pop_frame h2)
        refine f12.trans ?_
        repeat' (split at h)
        all_goals first
          | (cases h; done)
          | (cases h
             exact ⟨rfl, rfl, rfl, rfl, rfl, fun _ _ => rfl, varsPersist_set_gint _ (by assumption), ⟨[], rfl⟩, List.prefix_refl _, List.prefix_refl _⟩)
          | (cases h
             exact ⟨rfl, rfl, rfl, rfl, rfl, fun _ _ => rfl, varsPersist_set_gstr _ (by assumption), ⟨[], rfl⟩, List.prefix_refl _, List.prefix_refl _⟩)
          | (cases h; exact Frame.setEntryVar _ _ _ _ (by assumption))
  all_goals
    simp only [runBuiltin] at h
    repeat' (split at h)
    all_goals first
      | (cases h; done)
      | (cases h; frame_chain; frame_leaf)

theorem frame_warn (s : St) (m : Str) : Frame s (warn s m) :=
  ⟨rfl, rfl, rfl, rfl, rfl, fun _ _ => rfl, VarsPersist.refl _, ⟨[], rfl⟩, List.prefix_append _ _, List.prefix_refl _⟩

/-- what any execution preserves (all six mutually recursive functions) -/
theorem exec_frame (n : Nat) :
    (∀ v s s', execVal n v s = .ok s' → Frame s s') ∧
    (∀ o s s', execObj n o s = .ok s' → Frame s s') ∧
    (∀ t s s', execTok n t s = .ok s' → Frame s s') ∧
    (∀ b s s', execBody n b s = .ok s' → Frame s s') ∧
    (∀ p f s s', whileLoop n p f s = .ok s' → Frame s s') ∧
    (∀ b s s', runBuiltin n b s = .ok s' → Frame s s') := by
  induction n with
  | zero => refine ⟨?_, ?_, ?_, ?_, ?_, ?_⟩ <;> intros <;> rename_i h <;> cases h
  | succ n ih =>
    obtain ⟨ihV, ihO, ihT, ihB, ihW, ihR⟩ := ih
    refine ⟨?_, ?_, ?_, ?_, ?_, ?_⟩
    · intro v s s' h
      cases v with
      | fn body => exact ihB body s s' h
      | ref name =>
        simp only [execVal] at h
        split at h
        · exact ihO _ _ _ h
        · cases h
      | _ => cases h
    · intro o s s' h
      cases o with
      | builtin b => exact ihR b s s' h
      | func body => exact ihB body s s' h
      | gint v => cases h; frame_leaf
      | gstr v => cases h; frame_leaf
      | eint nm =>
        simp only [execObj] at h
        split at h
        · cases h
        · cases h; frame_leaf
      | estr nm =>
        simp only [execObj] at h
        split at h
        · cases h
        · cases h; frame_leaf
      | field nm =>
        simp only [execObj] at h
        split at h
        · cases h
        · cases h; frame_leaf
      | crossref =>
        simp only [execObj] at h
        split at h
        · cases h
        · cases h; frame_leaf
    · intro t s s' h
      cases t with
      | name nm =>
        simp only [execTok] at h
        split at h
        · cases h
        · exact ihO _ _ _ h
      | quoted nm =>
        simp only [execTok] at h
        split at h
        · cases h; frame_leaf
        · cases h
      | _ => cases h; frame_leaf
    · intro b s s' h
      cases b with
      | nil => cases h; exact Frame.refl _
      | cons t ts =>
        simp only [execBody] at h
        split at h
        · cases h
        · rename_i s1 h1
          exact (ihT _ _ _ h1).trans (ihB _ _ _ h)
    · intro p f s s' h
      simp only [whileLoop] at h
      split at h
      · cases h
      · rename_i s1 h1
        split at h
        · cases h
        · rename_i k s2 h2
          have f2 : Frame s s2 := (ihV _ _ _ h1).trans (popInt_frame h2)
          split at h
          · cases h; exact f2
          · split at h
            · cases h
            · rename_i s3 h3
              exact f2.trans ((ihV _ _ _ h3).trans (ihW _ _ _ _ h))
    · intro b s s' h
      by_cases hb : b ≠ .callType ∧ b ≠ .if_ ∧ b ≠ .while_
      · exact prim_frame n b s s' hb h
      · cases b
        case callType =>
          simp only [runBuiltin] at h
          split at h
          · cases h
          · split at h
            · exact ihO _ _ _ h
            · split at h
              · exact (frame_warn _ _).trans (ihO _ _ _ h)
              · cases h; exact frame_warn _ _
        case if_ =>
          simp only [runBuiltin] at h
          split at h
          · cases h
          · rename_i f1 s1 h1
            split at h
            · cases h
            · rename_i f2 s2 h2
              split at h
              · cases h
              · rename_i p s3 h3
                have f3 : Frame s s3 := (pop_frame h1).trans ((pop_frame h2).trans (popInt_frame h3))
                split at h
                · exact f3.trans (ihV _ _ _ h)
                · exact f3.trans (ihV _ _ _ h)
        case while_ =>
          simp only [runBuiltin] at h
          split at h
          · cases h
          · rename_i f1 s1 h1
            split at h
            · cases h
            · rename_i f2 s2 h2
              exact (pop_frame h1).trans ((pop_frame h2).trans (ihW _ _ _ _ h))
        all_goals exact absurd (by decide) hb

end Pybtex.Interp
