/-
Helper lemmas for C03 (the BST interpreter model `Model/Interp.lean`).
-/
import PybtexModel.Spec.BstSem
import PybtexModel.Lemmas.CIMap
import PybtexModel.Lemmas.Citations

namespace Pybtex.Interp
open Pybtex.BstSem
open Pybtex.Bst (Command Program)

/-! ### values -/

theorem valToStr_cases {v : Val} {x : Str} (h : valToStr v = some x) :
    v = .str x ∨ ∃ m, v = .missing m ∧ x = [] := by
  cases v <;> simp [valToStr] at h
  · exact .inl (by rw [h])
  · exact .inr ⟨_, rfl, h⟩

theorem valToStr_isStr {v : Val} : (∃ x, valToStr v = some x) ↔ isStr v = true := by
  cases v <;> simp [valToStr, isStr]

theorem valToStr_none {v : Val} (h : isStr v = false) : valToStr v = none := by
  cases v <;> simp [valToStr, isStr] at h ⊢

/-- the model's print-out of a value is the documented one -/
theorem printVal_eq_shown (v : Val) : printVal v = shown v := by
  cases v <;> rfl

theorem map_printVal (vs : List Val) : vs.map printVal = vs.map shown :=
  List.map_congr_left (fun v _ => printVal_eq_shown v)

/-! ### fuel -/

/-- more fuel never changes a finished run: all six mutually recursive functions at once -/
theorem fuel_mono_all (n : Nat) : ∀ m, n ≤ m →
    (∀ v s, Finished (execVal n v s) → execVal m v s = execVal n v s) ∧
    (∀ o s, Finished (execObj n o s) → execObj m o s = execObj n o s) ∧
    (∀ t s, Finished (execTok n t s) → execTok m t s = execTok n t s) ∧
    (∀ b s, Finished (execBody n b s) → execBody m b s = execBody n b s) ∧
    (∀ p f s, Finished (whileLoop n p f s) → whileLoop m p f s = whileLoop n p f s) ∧
    (∀ b s, Finished (runBuiltin n b s) → runBuiltin m b s = runBuiltin n b s) := by
  induction n with
  | zero =>
    intro m _
    refine ⟨?_, ?_, ?_, ?_, ?_, ?_⟩ <;> intros <;> rename_i h <;> exact absurd rfl h
  | succ n ih =>
    intro m hm
    obtain ⟨m, rfl⟩ : ∃ m', m = m' + 1 := ⟨m - 1, by omega⟩
    obtain ⟨ihV, ihO, ihT, ihB, ihW, ihR⟩ := ih m (by omega)
    refine ⟨?_, ?_, ?_, ?_, ?_, ?_⟩
    · intro v s h
      cases v with
      | fn body => exact ihB body s h
      | ref name =>
        simp only [execVal] at h ⊢
        split
        · rename_i o ho; rw [ho] at h; exact ihO _ _ h
        · rfl
      | _ => rfl
    · intro o s h
      cases o with
      | builtin b => exact ihR b s h
      | func body => exact ihB body s h
      | _ => rfl
    · intro t s h
      cases t with
      | name nm =>
        simp only [execTok] at h ⊢
        split
        · rfl
        · rename_i o ho; rw [ho] at h; exact ihO _ _ h
      | _ => rfl
    · intro b s h
      cases b with
      | nil => rfl
      | cons t ts =>
        simp only [execBody] at h ⊢
        cases ht : execTok n t s with
        | error e =>
          rw [ht] at h
          have : Finished (execTok n t s) := by rw [ht]; exact h
          rw [ihT t s this, ht]
        | ok s1 =>
          rw [ht] at h
          have : Finished (execTok n t s) := by rw [ht]; intro hh; cases hh
          rw [ihT t s this, ht]
          exact ihB ts s1 h
    · intro p f s h
      simp only [whileLoop] at h ⊢
      cases hp : execVal n p s with
      | error e =>
        rw [hp] at h
        have : Finished (execVal n p s) := by rw [hp]; exact h
        rw [ihV p s this, hp]
      | ok s1 =>
        rw [hp] at h
        have : Finished (execVal n p s) := by rw [hp]; intro hh; cases hh
        rw [ihV p s this, hp]
        simp only at h ⊢
        cases hq : popInt s1 with
        | error e => rfl
        | ok q =>
          obtain ⟨k, s2⟩ := q
          rw [hq] at h
          simp only at h ⊢
          by_cases hk : k ≤ 0
          · simp only [if_pos hk]
          · simp only [if_neg hk] at h ⊢
            cases hf : execVal n f s2 with
            | error e =>
              rw [hf] at h
              have : Finished (execVal n f s2) := by rw [hf]; exact h
              rw [ihV f s2 this, hf]
            | ok s3 =>
              rw [hf] at h
              have : Finished (execVal n f s2) := by rw [hf]; intro hh; cases hh
              rw [ihV f s2 this, hf]
              exact ihW p f s3 h
    · intro b s h
      cases b with
      | callType =>
        simp only [runBuiltin] at h ⊢
        cases hc : curEntry s with
        | error e => rfl
        | ok q =>
          obtain ⟨k, e, db⟩ := q
          rw [hc] at h
          simp only at h ⊢
          cases hv : s.vars.getItem e.type with
          | some o => rw [hv] at h; exact ihO _ _ h
          | none =>
            rw [hv] at h
            simp only at h ⊢
            split
            · rename_i o ho; rw [ho] at h; exact ihO _ _ h
            · rfl
      | if_ =>
        simp only [runBuiltin] at h ⊢
        cases h1 : pop s with
        | error e => rfl
        | ok q1 =>
          obtain ⟨f1, s1⟩ := q1
          rw [h1] at h; simp only at h ⊢
          cases h2 : pop s1 with
          | error e => rfl
          | ok q2 =>
            obtain ⟨f2, s2⟩ := q2
            rw [h2] at h; simp only at h ⊢
            cases h3 : popInt s2 with
            | error e => rfl
            | ok q3 =>
              obtain ⟨p, s3⟩ := q3
              rw [h3] at h; simp only at h ⊢
              split
              · rename_i hp; rw [if_pos hp] at h; exact ihV _ _ h
              · rename_i hp; rw [if_neg hp] at h; exact ihV _ _ h
      | while_ =>
        simp only [runBuiltin] at h ⊢
        cases h1 : pop s with
        | error e => rfl
        | ok q1 =>
          obtain ⟨f1, s1⟩ := q1
          rw [h1] at h; simp only at h ⊢
          cases h2 : pop s1 with
          | error e => rfl
          | ok q2 =>
            obtain ⟨f2, s2⟩ := q2
            rw [h2] at h; simp only at h ⊢
            exact ihW _ _ _ h
      | _ => rfl

/-! ### `add.period$` -/

theorem dropWhile_replicate_append {α} (p : α → Bool) (k : Nat) (a : α) (c : α) (l : List α) (ha : p a = true) (hc : p c = false) :
    (List.replicate k a ++ c :: l).dropWhile p = c :: l := by
  induction k with
  | zero => simp [hc]
  | succ k ih => simp [List.replicate_succ, ha, ih]

theorem dropWhile_replicate_all {α} (p : α → Bool) (k : Nat) (a : α) (ha : p a = true) :
    (List.replicate k a).dropWhile p = [] := by
  induction k with
  | zero => rfl
  | succ k ih => simp [List.replicate_succ, ha, ih]

theorem addPeriod_nil : addPeriod [] = [] := rfl

/-- a string that ends in `c` followed by closing braces only -/
theorem addPeriod_core (core : Str) (c : Char) (k : Nat) (hc : c ≠ '}') :
    addPeriod (core ++ c :: List.replicate k '}') =
      if EndsSentence c then core ++ c :: List.replicate k '}' else core ++ c :: List.replicate k '}' ++ ['.'] := by
  have hne : core ++ c :: List.replicate k '}' ≠ [] := by simp
  have hrev : (core ++ c :: List.replicate k '}').reverse = List.replicate k '}' ++ c :: core.reverse := by
    simp [List.reverse_append, List.reverse_cons]
  unfold addPeriod
  rw [if_neg hne]
  simp only [hrev]
  rw [dropWhile_replicate_append _ k '}' c core.reverse (by simp) (by simp [hc])]
  simp only [List.reverse_cons, List.reverse_reverse, List.getLast?_append, List.getLast?_singleton, EndsSentence]
  simp

theorem addPeriod_braces (k : Nat) :
    addPeriod (List.replicate (k + 1) '}') = List.replicate (k + 1) '}' ++ ['.'] := by
  have hne : List.replicate (k + 1) '}' ≠ [] := by simp [List.replicate_succ]
  unfold addPeriod
  rw [if_neg hne]
  have : (List.replicate (k + 1) '}').reverse.dropWhile (· = '}') = [] := by
    rw [List.reverse_replicate]
    exact dropWhile_replicate_all _ _ _ (by simp)
  simp only [this]
  rfl

/-! ### `format.name$`: the name number -/

theorem pyIndex_pos {α} (l : List α) (n : Int) (h1 : 1 ≤ n) (h2 : n ≤ l.length) :
    pyIndex l (n - 1) = l[(n - 1).toNat]? := by
  unfold pyIndex
  simp only
  have h3 : ¬ (n - 1 < 0) := by omega
  rw [if_neg h3, if_neg (by omega)]

theorem finished_ok {s : St} : Finished (.ok s) := fun h => nomatch h

theorem evalVal_mono {n m v s s'} (h : execVal n v s = .ok s') (hm : n ≤ m) : execVal m v s = .ok s' := by
  rw [(fuel_mono_all n m hm).1 v s (by rw [h]; exact finished_ok), h]
theorem evalObj_mono {n m o s s'} (h : execObj n o s = .ok s') (hm : n ≤ m) : execObj m o s = .ok s' := by
  rw [(fuel_mono_all n m hm).2.1 o s (by rw [h]; exact finished_ok), h]
theorem evalTok_mono {n m t s s'} (h : execTok n t s = .ok s') (hm : n ≤ m) : execTok m t s = .ok s' := by
  rw [(fuel_mono_all n m hm).2.2.1 t s (by rw [h]; exact finished_ok), h]
theorem evalBody_mono {n m b s s'} (h : execBody n b s = .ok s') (hm : n ≤ m) : execBody m b s = .ok s' := by
  rw [(fuel_mono_all n m hm).2.2.2.1 b s (by rw [h]; exact finished_ok), h]
theorem evalWhile_mono {n m p f s s'} (h : whileLoop n p f s = .ok s') (hm : n ≤ m) : whileLoop m p f s = .ok s' := by
  rw [(fuel_mono_all n m hm).2.2.2.2.1 p f s (by rw [h]; exact finished_ok), h]
theorem evalBuiltin_mono {n m b s s'} (h : runBuiltin n b s = .ok s') (hm : n ≤ m) : runBuiltin m b s = .ok s' := by
  rw [(fuel_mono_all n m hm).2.2.2.2.2 b s (by rw [h]; exact finished_ok), h]

theorem evalBuiltin_while (p f : Val) (s s' : St) (r : List Val) :
    EvalBuiltin .while_ { s with stack := f :: p :: r } s' ↔ EvalWhile p f { s with stack := r } s' := by
  constructor
  · rintro ⟨n, h⟩
    cases n with
    | zero => cases h
    | succ n => exact ⟨n, h⟩
  · rintro ⟨n, h⟩
    exact ⟨n + 1, h⟩

theorem evalWhile_unfold (p f : Val) (s s' : St) :
    EvalWhile p f s s' ↔
      ∃ s1 k s2, EvalVal p s s1 ∧ popInt s1 = .ok (k, s2) ∧
        ((k ≤ 0 ∧ s' = s2) ∨ (0 < k ∧ ∃ s3, EvalVal f s2 s3 ∧ EvalWhile p f s3 s')) := by
  constructor
  · rintro ⟨n, h⟩
    cases n with
    | zero => cases h
    | succ n =>
      simp only [whileLoop] at h
      cases hp : execVal n p s with
      | error e => rw [hp] at h; cases h
      | ok s1 =>
        rw [hp] at h; simp only at h
        cases hq : popInt s1 with
        | error e => rw [hq] at h; cases h
        | ok q =>
          obtain ⟨k, s2⟩ := q
          rw [hq] at h; simp only at h
          refine ⟨s1, k, s2, ⟨n, hp⟩, hq, ?_⟩
          by_cases hk : k ≤ 0
          · rw [if_pos hk] at h; cases h; exact .inl ⟨hk, rfl⟩
          · rw [if_neg hk] at h
            cases hf : execVal n f s2 with
            | error e => rw [hf] at h; cases h
            | ok s3 =>
              rw [hf] at h
              exact .inr ⟨by omega, s3, ⟨n, hf⟩, ⟨n, h⟩⟩
  · rintro ⟨s1, k, s2, ⟨n1, hp⟩, hq, hcase⟩
    rcases hcase with ⟨hk, rfl⟩ | ⟨hk, s3, ⟨n2, hf⟩, ⟨n3, hw⟩⟩
    · refine ⟨n1 + 1, ?_⟩
      simp only [whileLoop, hp, hq, if_pos hk]
    · refine ⟨max n1 (max n2 n3) + 1, ?_⟩
      have h1 := evalVal_mono hp (Nat.le_max_left n1 (max n2 n3))
      have h2 := evalVal_mono hf (Nat.le_trans (Nat.le_max_left n2 n3) (Nat.le_max_right n1 (max n2 n3)))
      have h3 := evalWhile_mono hw (Nat.le_trans (Nat.le_max_right n2 n3) (Nat.le_max_right n1 (max n2 n3)))
      have hk' : ¬ k ≤ 0 := by omega
      simp only [whileLoop, h1, hq, if_neg hk', h2, h3]

/-! ### `strLt`: code-point lexicographic order -/

theorem char_eq_of_toNat_eq {a b : Char} (h : a.toNat = b.toNat) : a = b := by
  apply Char.ext
  apply UInt32.toNat_inj.1
  exact h

theorem strLt_iff_lexLt (a b : Str) : strLt a b = true ↔ LexLt a b := by
  constructor
  · intro h
    induction a generalizing b with
    | nil =>
      cases b with
      | nil => simp [strLt] at h
      | cons c t => exact .nil
    | cons x r ih =>
      cases b with
      | nil => simp [strLt] at h
      | cons y t =>
        simp only [strLt] at h
        by_cases h1 : x.toNat < y.toNat
        · exact .lt h1
        · rw [if_neg h1] at h
          by_cases h2 : x.toNat > y.toNat
          · rw [if_pos h2] at h; cases h
          · rw [if_neg h2] at h
            have : x = y := char_eq_of_toNat_eq (by omega)
            subst this
            exact .eq (ih t h)
  · intro h
    induction h with
    | nil => rfl
    | lt h1 => simp only [strLt, if_pos h1]
    | eq _ ih => simp only [strLt, Nat.lt_irrefl, if_false, gt_iff_lt, ih]

theorem strLt_irrefl (a : Str) : strLt a a = false := by
  induction a with
  | nil => rfl
  | cons x r ih => simp only [strLt, Nat.lt_irrefl, if_false, gt_iff_lt, ih]

theorem strLt_trans {a b c : Str} (h1 : strLt a b = true) (h2 : strLt b c = true) : strLt a c = true := by
  induction a generalizing b c with
  | nil =>
    cases c with
    | nil => cases b <;> simp [strLt] at h1 h2
    | cons z u => rfl
  | cons x r ih =>
    cases b with
    | nil => simp [strLt] at h1
    | cons y t =>
      cases c with
      | nil => simp [strLt] at h2
      | cons z u =>
        simp only [strLt] at h1 h2 ⊢
        by_cases hxy : x.toNat < y.toNat
        · by_cases hyz : y.toNat < z.toNat
          · rw [if_pos (by omega)]
          · rw [if_neg hyz] at h2
            by_cases hyz' : y.toNat > z.toNat
            · rw [if_pos hyz'] at h2; cases h2
            · rw [if_pos (by omega)]
        · rw [if_neg hxy] at h1
          by_cases hxy' : x.toNat > y.toNat
          · rw [if_pos hxy'] at h1; cases h1
          · rw [if_neg hxy'] at h1
            by_cases hyz : y.toNat < z.toNat
            · rw [if_pos (by omega)]
            · rw [if_neg hyz] at h2
              by_cases hyz' : y.toNat > z.toNat
              · rw [if_pos hyz'] at h2; cases h2
              · rw [if_neg hyz'] at h2
                rw [if_neg (by omega), if_neg (by omega)]
                exact ih h1 h2

theorem strLt_asymm {a b : Str} (h : strLt a b = true) : strLt b a = false := by
  cases hb : strLt b a with
  | false => rfl
  | true => have := strLt_trans h hb; rw [strLt_irrefl] at this; cases this

/-- trichotomy: the order is total -/
theorem strLt_total (a b : Str) : strLt a b = true ∨ a = b ∨ strLt b a = true := by
  induction a generalizing b with
  | nil =>
    cases b with
    | nil => exact .inr (.inl rfl)
    | cons y t => exact .inl rfl
  | cons x r ih =>
    cases b with
    | nil => exact .inr (.inr rfl)
    | cons y t =>
      simp only [strLt]
      by_cases h1 : x.toNat < y.toNat
      · exact .inl (by rw [if_pos h1])
      · by_cases h2 : y.toNat < x.toNat
        · exact .inr (.inr (by rw [if_pos h2]))
        · have : x = y := char_eq_of_toNat_eq (by omega)
          subst this
          rcases ih t with h | h | h
          · exact .inl (by rw [if_neg h1, if_neg h1]; exact h)
          · exact .inr (.inl (by rw [h]))
          · exact .inr (.inr (by rw [if_neg h1, if_neg h1]; exact h))

/-- `¬ b < a` and `¬ a < b` only for equal strings -/
theorem strLt_antisymm {a b : Str} (h1 : strLt a b = false) (h2 : strLt b a = false) : a = b := by
  rcases strLt_total a b with h | h | h
  · rw [h] at h1; cases h1
  · exact h
  · rw [h] at h2; cases h2

/-- `a ≤ b < c → a < c` -/
theorem strLt_of_le_of_lt {a b c : Str} (h1 : strLt b a = false) (h2 : strLt b c = true) : strLt a c = true := by
  rcases strLt_total a b with h | h | h
  · exact strLt_trans h h2
  · rw [h]; exact h2
  · rw [h] at h1; cases h1

/-! ### the stable insertion sort of `SORT` -/

/-- sortedness on the Boolean order -/
def SortedB (l : List (Str × Str)) : Prop := l.Pairwise fun a b => strLt b.1 a.1 = false

theorem insertSorted_perm (x : Str × Str) (l : List (Str × Str)) : (insertSorted x l).Perm (x :: l) := by
  induction l with
  | nil => exact List.Perm.refl _
  | cons y r ih =>
    simp only [insertSorted]
    split
    · exact List.Perm.refl _
    · exact (List.Perm.cons y ih).trans (List.Perm.swap x y r)

theorem insertSorted_sorted (x : Str × Str) (l : List (Str × Str)) (h : SortedB l) : SortedB (insertSorted x l) := by
  induction l with
  | nil => simp [insertSorted, SortedB]
  | cons y r ih =>
    simp only [insertSorted]
    have hy := List.pairwise_cons.1 h
    split
    · rename_i hlt
      refine List.pairwise_cons.2 ⟨?_, h⟩
      intro z hz
      rcases List.mem_cons.1 hz with rfl | hz
      · exact strLt_asymm hlt
      · have := hy.1 z hz
        -- y ≤ z, x < y ⇒ ¬ z < x
        cases hzx : strLt z.1 x.1 with
        | false => rfl
        | true =>
          have := strLt_trans hzx hlt
          rw [hy.1 z hz] at this; cases this
    · rename_i hlt
      refine List.pairwise_cons.2 ⟨?_, ih hy.2⟩
      intro z hz
      have hz' := (insertSorted_perm x r).subset hz
      rcases List.mem_cons.1 hz' with rfl | hz'
      · simpa using hlt
      · exact hy.1 z hz'

/-- stability of one insertion into a sorted list: the new element goes behind all elements
with the same key -/
theorem insertSorted_filter (x : Str × Str) (l : List (Str × Str)) (h : SortedB l) (k : Str) :
    (insertSorted x l).filter (fun p => p.1 = k) = l.filter (fun p => p.1 = k) ++ (if x.1 = k then [x] else []) := by
  induction l with
  | nil => by_cases hk : x.1 = k <;> simp [insertSorted, hk]
  | cons y r ih =>
    have hy := List.pairwise_cons.1 h
    simp only [insertSorted]
    split
    · rename_i hlt
      by_cases hk : x.1 = k
      · -- nothing in y :: r has key k
        have hnone : (y :: r).filter (fun p => p.1 = k) = [] := by
          rw [List.filter_eq_nil_iff]
          intro z hz
          have hzlt : strLt x.1 z.1 = true := by
            rcases List.mem_cons.1 hz with rfl | hz
            · exact hlt
            · -- x < y ≤ z
              rcases strLt_total x.1 z.1 with h' | h' | h'
              · exact h'
              · rw [h'] at hlt; rw [hy.1 z hz] at hlt; cases hlt
              · have := strLt_trans h' hlt; rw [hy.1 z hz] at this; cases this
          intro hzk
          have : z.1 = x.1 := by simpa [hk] using hzk
          rw [this, strLt_irrefl] at hzlt; cases hzlt
        rw [List.filter_cons, if_pos (by simpa using hk), hnone, if_pos hk]; rfl
      · rw [List.filter_cons, if_neg (by simpa using hk), if_neg hk, List.append_nil]
    · rw [List.filter_cons, List.filter_cons, ih hy.2]
      split <;> simp

theorem foldl_insertSorted (l acc : List (Str × Str)) (h : SortedB acc) :
    SortedB (l.foldl (fun acc x => insertSorted x acc) acc) ∧
    (l.foldl (fun acc x => insertSorted x acc) acc).Perm (acc ++ l) ∧
    ∀ k, (l.foldl (fun acc x => insertSorted x acc) acc).filter (fun p => p.1 = k) =
      acc.filter (fun p => p.1 = k) ++ l.filter (fun p => p.1 = k) := by
  induction l generalizing acc with
  | nil => simp [h]
  | cons x l ih =>
    simp only [List.foldl_cons]
    obtain ⟨h1, h2, h3⟩ := ih (insertSorted x acc) (insertSorted_sorted x acc h)
    refine ⟨h1, ?_, ?_⟩
    · refine h2.trans ?_
      refine ((insertSorted_perm x acc).append_right l).trans ?_
      simp only [List.cons_append]
      exact List.perm_middle.symm
    · intro k
      rw [h3 k, insertSorted_filter x acc h k, List.filter_cons]
      by_cases hk : x.1 = k <;> simp [hk]

theorem sortByKey_spec (l : List (Str × Str)) :
    SortedB (sortByKey l) ∧ (sortByKey l).Perm l ∧
    ∀ k, (sortByKey l).filter (fun p => p.1 = k) = l.filter (fun p => p.1 = k) := by
  have := foldl_insertSorted l [] List.Pairwise.nil
  simpa [sortByKey] using this

/-! ### the variable table -/

theorem getItem_setItem_same (d : CIDict VarObj) (k : Str) (v : VarObj) : (d.setItem k v).getItem k = some v := by
  simp only [CIDict.getItem, CIDict.setItem]; exact dget_dset_same _ _ _

theorem getItem_setItem_eq (d : CIDict VarObj) (k k' : Str) (v : VarObj) (h : lower k' = lower k) :
    (d.setItem k v).getItem k' = some v := by
  simp only [CIDict.getItem, CIDict.setItem, h]; exact dget_dset_same _ _ _

theorem getItem_setItem_ne (d : CIDict VarObj) (k k' : Str) (v : VarObj) (h : lower k' ≠ lower k) :
    (d.setItem k v).getItem k' = d.getItem k' := by
  simp only [CIDict.getItem, CIDict.setItem]; exact dget_dset_ne _ _ _ _ h

theorem getItem_congr (d : CIDict VarObj) (k k' : Str) (h : lower k' = lower k) : d.getItem k' = d.getItem k := by
  simp only [CIDict.getItem, h]

theorem contains_eq_isSome (d : CIDict VarObj) (k : Str) : d.contains k = (d.getItem k).isSome := rfl

theorem _root_.Pybtex.BstSem.VarsPersist.refl (v : CIDict VarObj) : VarsPersist v v := fun _ => .inl rfl

theorem _root_.Pybtex.BstSem.VarsPersist.trans {a b c : CIDict VarObj} (h1 : VarsPersist a b) (h2 : VarsPersist b c) : VarsPersist a c := by
  intro n
  rcases h1 n with e1 | ⟨x, y, e1, e1'⟩ | ⟨x, y, e1, e1'⟩ <;> rcases h2 n with e2 | ⟨x', y', e2, e2'⟩ | ⟨x', y', e2, e2'⟩
  · exact .inl (e2.trans e1)
  · exact .inr (.inl ⟨x', y', e1 ▸ e2, e2'⟩)
  · exact .inr (.inr ⟨x', y', e1 ▸ e2, e2'⟩)
  · exact .inr (.inl ⟨x, y, e1, e2.trans e1'⟩)
  · exact .inr (.inl ⟨x, y', e1, e2'⟩)
  · rw [e1'] at e2; cases e2
  · exact .inr (.inr ⟨x, y, e1, e2.trans e1'⟩)
  · rw [e1'] at e2; cases e2
  · exact .inr (.inr ⟨x, y', e1, e2'⟩)

theorem varsPersist_set_gint {v : CIDict VarObj} {name : Str} {a : Int} (b : Int)
    (h : v.getItem name = some (.gint a)) : VarsPersist v (v.setItem name (.gint b)) := by
  intro n
  by_cases hn : lower n = lower name
  · exact .inr (.inl ⟨a, b, by rw [getItem_congr v name n hn, h], getItem_setItem_eq v name n _ hn⟩)
  · exact .inl (getItem_setItem_ne v name n _ hn)

theorem varsPersist_set_gstr {v : CIDict VarObj} {name : Str} {a : Val} (b : Val)
    (h : v.getItem name = some (.gstr a)) : VarsPersist v (v.setItem name (.gstr b)) := by
  intro n
  by_cases hn : lower n = lower name
  · exact .inr (.inr ⟨a, b, by rw [getItem_congr v name n hn, h], getItem_setItem_eq v name n _ hn⟩)
  · exact .inl (getItem_setItem_ne v name n _ hn)

/-! ### frames -/

theorem _root_.Pybtex.BstSem.Frame.refl (s : St) : Frame s s :=
  ⟨rfl, rfl, rfl, rfl, rfl, fun _ _ => rfl, VarsPersist.refl _, ⟨[], (List.append_nil _).symm, rfl⟩, List.prefix_refl _, List.prefix_refl _⟩

theorem _root_.Pybtex.BstSem.Frame.trans {a b c : St} (h1 : Frame a b) (h2 : Frame b c) : Frame a c := by
  refine ⟨h2.cur.trans h1.cur, h2.db.trans h1.db, h2.citations.trans h1.citations, h2.macros.trans h1.macros,
    h2.preamble.trans h1.preamble, ?_, VarsPersist.trans h1.vars h2.vars, ?_, h1.reports.trans h2.reports, h1.printed.trans h2.printed⟩
  · intro k hk
    rw [h2.entry k (by rw [h1.cur]; exact hk), h1.entry k hk]
  · obtain ⟨e1, ht1, he1⟩ := h1.out
    obtain ⟨e2, ht2, he2⟩ := h2.out
    exact ⟨e1 ++ e2, by rw [ht2, ht1, List.append_assoc], by rw [he2, he1, List.foldl_append]⟩

theorem pop_eq {s s1 : St} {v : Val} (h : pop s = .ok (v, s1)) : s1 = { s with stack := s1.stack } ∧ s.stack = v :: s1.stack := by
  unfold pop at h
  split at h
  · cases h
  · rename_i hs; cases h; exact ⟨rfl, hs⟩

theorem pop_frame {s s1 : St} {v : Val} (h : pop s = .ok (v, s1)) : Frame s s1 := by
  rw [(pop_eq h).1]
  exact ⟨rfl, rfl, rfl, rfl, rfl, fun _ _ => rfl, VarsPersist.refl _, ⟨[], (List.append_nil _).symm, rfl⟩, List.prefix_refl _, List.prefix_refl _⟩

theorem popInt_frame {s s1 : St} {n : Int} (h : popInt s = .ok (n, s1)) : Frame s s1 := by
  unfold popInt at h
  split at h
  · cases h
  · rename_i hp; cases h; exact pop_frame hp
  · cases h

theorem popStr_frame {s s1 : St} {x : Str} (h : popStr s = .ok (x, s1)) : Frame s s1 := by
  unfold popStr at h
  split at h
  · cases h
  · rename_i hp; cases h; exact pop_frame hp
  · rename_i hp; cases h; exact pop_frame hp
  · cases h

theorem _root_.Pybtex.BstSem.Frame.setEntryVar (s : St) (k n : Str) (v : Val) (hk : s.cur = some k) : Frame s (setEntryVar s k n v) := by
  refine ⟨rfl, rfl, rfl, rfl, rfl, ?_, VarsPersist.refl _, ⟨[], (List.append_nil _).symm, rfl⟩, List.prefix_refl _, List.prefix_refl _⟩
  intro k' hk'
  show dget (dset s.entryVars k _) k' = _
  exact dget_dset_ne _ _ _ _ (by rintro rfl; exact hk' hk)

/-- close a goal `Frame s X` where `X` is an explicit update of `s` -/
macro "frame_leaf" : tactic => `(tactic| first
  | exact Frame.refl _
  | exact ⟨rfl, rfl, rfl, rfl, rfl, fun _ _ => rfl, VarsPersist.refl _, ⟨[], (List.append_nil _).symm, rfl⟩, List.prefix_refl _, List.prefix_refl _⟩
  | exact ⟨rfl, rfl, rfl, rfl, rfl, fun _ _ => rfl, VarsPersist.refl _, ⟨[], (List.append_nil _).symm, rfl⟩, List.prefix_append _ _, List.prefix_refl _⟩
  | exact ⟨rfl, rfl, rfl, rfl, rfl, fun _ _ => rfl, VarsPersist.refl _, ⟨[], (List.append_nil _).symm, rfl⟩, List.prefix_refl _, List.prefix_append _ _⟩
  | exact ⟨rfl, rfl, rfl, rfl, rfl, fun _ _ => rfl, VarsPersist.refl _, ⟨[.write _], rfl, rfl⟩, List.prefix_refl _, List.prefix_refl _⟩
  | exact ⟨rfl, rfl, rfl, rfl, rfl, fun _ _ => rfl, VarsPersist.refl _, ⟨[.newline], rfl, rfl⟩, List.prefix_refl _, List.prefix_refl _⟩)

/-- walk along the pops recorded in the context -/
macro "frame_chain" : tactic => `(tactic| repeat (first
  | refine Frame.trans (pop_frame (by assumption)) ?_
  | refine Frame.trans (popInt_frame (by assumption)) ?_
  | refine Frame.trans (popStr_frame (by assumption)) ?_))

/-- every built-in other than the three that execute code (`call.type$`, `if$`, `while$`) -/
theorem prim_frame (f : Nat) (b : Builtin) (s s' : St) (hb : b ≠ .callType ∧ b ≠ .if_ ∧ b ≠ .while_)
    (h : runBuiltin (f+1) b s = .ok s') : Frame s s' := by
  cases b
  case callType => exact absurd rfl hb.1
  case if_ => exact absurd rfl hb.2.1
  case while_ => exact absurd rfl hb.2.2
  case assign =>
    simp only [runBuiltin] at h
    split at h
    · cases h
    · rename_i var s1 h1
      split at h
      · cases h
      · rename_i value s2 h2
        have f12 : Frame s s2 := (pop_frame h1).trans (pop_frame h2)
        refine f12.trans ?_
        repeat' (split at h)
        all_goals first
          | (cases h; done)
          | (cases h
             exact ⟨rfl, rfl, rfl, rfl, rfl, fun _ _ => rfl, varsPersist_set_gint _ (by assumption), ⟨[], (List.append_nil _).symm, rfl⟩, List.prefix_refl _, List.prefix_refl _⟩)
          | (cases h
             exact ⟨rfl, rfl, rfl, rfl, rfl, fun _ _ => rfl, varsPersist_set_gstr _ (by assumption), ⟨[], (List.append_nil _).symm, rfl⟩, List.prefix_refl _, List.prefix_refl _⟩)
          | (cases h; exact Frame.setEntryVar _ _ _ _ (by assumption))
  all_goals
    simp only [runBuiltin] at h
    repeat' (split at h)
    all_goals first
      | (cases h; done)
      | (cases h; frame_chain; frame_leaf)

theorem frame_warn (s : St) (m : Str) : Frame s (warn s m) :=
  ⟨rfl, rfl, rfl, rfl, rfl, fun _ _ => rfl, VarsPersist.refl _, ⟨[], (List.append_nil _).symm, rfl⟩, List.prefix_append _ _, List.prefix_refl _⟩

/-- what any execution preserves (all six mutually recursive functions) -/
theorem exec_frame (n : Nat) :
    (∀ v s s', execVal n v s = .ok s' → Frame s s') ∧
    (∀ o s s', execObj n o s = .ok s' → Frame s s') ∧
    (∀ t s s', execTok n t s = .ok s' → Frame s s') ∧
    (∀ b s s', execBody n b s = .ok s' → Frame s s') ∧
    (∀ p f s s', whileLoop n p f s = .ok s' → Frame s s') ∧
    (∀ b s s', runBuiltin n b s = .ok s' → Frame s s') := by
  induction n with
  | zero => refine ⟨?_, ?_, ?_, ?_, ?_, ?_⟩ <;> intros <;> rename_i h <;> cases h
  | succ n ih =>
    obtain ⟨ihV, ihO, ihT, ihB, ihW, ihR⟩ := ih
    refine ⟨?_, ?_, ?_, ?_, ?_, ?_⟩
    · intro v s s' h
      cases v with
      | fn body => exact ihB body s s' h
      | ref name =>
        simp only [execVal] at h
        split at h
        · exact ihO _ _ _ h
        · cases h
      | _ => cases h
    · intro o s s' h
      cases o with
      | builtin b => exact ihR b s s' h
      | func body => exact ihB body s s' h
      | gint v => cases h; frame_leaf
      | gstr v => cases h; frame_leaf
      | eint nm =>
        simp only [execObj] at h
        split at h
        · cases h
        · cases h; frame_leaf
      | estr nm =>
        simp only [execObj] at h
        split at h
        · cases h
        · cases h; frame_leaf
      | field nm =>
        simp only [execObj] at h
        split at h
        · cases h
        · cases h; frame_leaf
      | crossref =>
        simp only [execObj] at h
        split at h
        · cases h
        · cases h; frame_leaf
    · intro t s s' h
      cases t with
      | name nm =>
        simp only [execTok] at h
        split at h
        · cases h
        · exact ihO _ _ _ h
      | quoted nm =>
        simp only [execTok] at h
        split at h
        · cases h; frame_leaf
        · cases h
      | _ => cases h; frame_leaf
    · intro b s s' h
      cases b with
      | nil => cases h; exact Frame.refl _
      | cons t ts =>
        simp only [execBody] at h
        split at h
        · cases h
        · rename_i s1 h1
          exact (ihT _ _ _ h1).trans (ihB _ _ _ h)
    · intro p f s s' h
      simp only [whileLoop] at h
      split at h
      · cases h
      · rename_i s1 h1
        split at h
        · cases h
        · rename_i k s2 h2
          have f2 : Frame s s2 := (ihV _ _ _ h1).trans (popInt_frame h2)
          split at h
          · cases h; exact f2
          · split at h
            · cases h
            · rename_i s3 h3
              exact f2.trans ((ihV _ _ _ h3).trans (ihW _ _ _ _ h))
    · intro b s s' h
      by_cases hb : b ≠ .callType ∧ b ≠ .if_ ∧ b ≠ .while_
      · exact prim_frame n b s s' hb h
      · cases b
        case callType =>
          simp only [runBuiltin] at h
          split at h
          · cases h
          · split at h
            · exact ihO _ _ _ h
            · split at h
              · exact (frame_warn _ _).trans (ihO _ _ _ h)
              · cases h; exact frame_warn _ _
        case if_ =>
          simp only [runBuiltin] at h
          split at h
          · cases h
          · rename_i f1 s1 h1
            split at h
            · cases h
            · rename_i f2 s2 h2
              split at h
              · cases h
              · rename_i p s3 h3
                have f3 : Frame s s3 := (pop_frame h1).trans ((pop_frame h2).trans (popInt_frame h3))
                split at h
                · exact f3.trans (ihV _ _ _ h)
                · exact f3.trans (ihV _ _ _ h)
        case while_ =>
          simp only [runBuiltin] at h
          split at h
          · cases h
          · rename_i f1 s1 h1
            split at h
            · cases h
            · rename_i f2 s2 h2
              exact (pop_frame h1).trans ((pop_frame h2).trans (ihW _ _ _ _ h))
        all_goals exact absurd (by decide) hb

/-! ### unfolding `runCommand` -/

/-- the key `SORT` pairs a citation with (`none`: `sort.key$` holds a non-string) -/
def sortPair (s : St) (c : Str) : Option (Str × Str) :=
  match dget (frameOf s c) "sort.key$".toList with
  | some v => (valToStr v).map fun k => (k, c)
  | none => some ([], c)

theorem runCommand_sort (fuel : Nat) (inp : Input) (c : Command) (s : St) (h : upper c.name = "SORT".toList) :
    runCommand fuel inp c s =
      match s.citations.mapM (sortPair s) with
      | none => .error (.internal "sort.key$ is not a string")
      | some l => .ok { s with citations := (sortByKey l).map (·.2) } := by
  unfold runCommand
  simp only [h]
  rw [if_pos trivial]
  rfl

theorem runCommand_iterate (fuel : Nat) (inp : Input) (c : Command) (s : St) (t : BTok) (ts : List BTok) (f : Str) (o : VarObj)
    (h : upper c.name = "ITERATE".toList) (hg : c.groups = [t :: ts]) (ht : tokName t = .ok f)
    (ho : s.vars.getItem f = some o) :
    runCommand fuel inp c s = iterate fuel o s.citations s := by
  unfold runCommand
  simp only [h, hg, ht, ho]
  rfl

theorem runCommand_reverse (fuel : Nat) (inp : Input) (c : Command) (s : St) (t : BTok) (ts : List BTok) (f : Str) (o : VarObj)
    (h : upper c.name = "REVERSE".toList) (hg : c.groups = [t :: ts]) (ht : tokName t = .ok f)
    (ho : s.vars.getItem f = some o) :
    runCommand fuel inp c s = iterate fuel o s.citations.reverse s := by
  unfold runCommand
  simp only [h, hg, ht, ho]
  rfl

theorem runCommand_execute (fuel : Nat) (inp : Input) (c : Command) (s : St) (t : BTok) (ts : List BTok)
    (h : upper c.name = "EXECUTE".toList) (hg : c.groups = [t :: ts]) :
    runCommand fuel inp c s = execTok fuel t s := by
  unfold runCommand
  simp only [h, hg]
  rfl

theorem runCommand_function (fuel : Nat) (inp : Input) (c : Command) (s : St) (n : Str) (ts body : List BTok)
    (h : upper c.name = "FUNCTION".toList) (hg : c.groups = [.name n :: ts, body]) :
    runCommand fuel inp c s = addVariable s n (.func body) := by
  unfold runCommand
  simp only [h, hg, tokName]
  rfl

theorem runCommand_integers (fuel : Nat) (inp : Input) (c : Command) (s : St) (ids : List BTok)
    (h : upper c.name = "INTEGERS".toList) (hg : c.groups = [ids]) :
    runCommand fuel inp c s = overwrite (.gint 0) ids s := by
  unfold runCommand
  simp only [h, hg]
  rfl

theorem runCommand_strings (fuel : Nat) (inp : Input) (c : Command) (s : St) (ids : List BTok)
    (h : upper c.name = "STRINGS".toList) (hg : c.groups = [ids]) :
    runCommand fuel inp c s = overwrite (.gstr (.str [])) ids s := by
  unfold runCommand
  simp only [h, hg]
  rfl

theorem runCommand_macro (fuel : Nat) (inp : Input) (c : Command) (s : St) (n v : BTok) (ns vs : List BTok) (name value : Str)
    (h : upper c.name = "MACRO".toList) (hg : c.groups = [n :: ns, v :: vs])
    (hn : tokName n = .ok name) (hv : tokName v = .ok value) :
    runCommand fuel inp c s = .ok { s with macros := dset s.macros name value } := by
  unfold runCommand
  simp only [h, hg, hn, hv]
  rfl

theorem runCommand_entry (fuel : Nat) (inp : Input) (c : Command) (s : St) (fields ints strings : List BTok)
    (h : upper c.name = "ENTRY".toList) (hg : c.groups = [fields, ints, strings]) :
    runCommand fuel inp c s =
      match declare (fun n => .field n) fields s with
      | .error e => .error e
      | .ok s =>
        match addVariable s "crossref".toList .crossref with
        | .error e => .error e
        | .ok s =>
          match declare (fun n => .eint n) ints s with
          | .error e => .error e
          | .ok s => declare (fun n => .estr n) strings s := by
  unfold runCommand
  simp only [h, hg]
  rfl

/-! ### `ITERATE` / `REVERSE` -/

theorem iterate_eq_fold (fuel : Nat) (o : VarObj) (db : BibData) (ks : List Str) (s : St)
    (hdb : s.db = some db) (hks : ∀ k ∈ ks, db.entries.contains k = true) :
    iterate fuel o ks s = foldEntries (execObj fuel o) ks s := by
  induction ks generalizing s with
  | nil => rfl
  | cons k ks ih =>
    have hk := hks k List.mem_cons_self
    cases hx : execObj fuel o { s with cur := some k } with
    | error e =>
      have hx' := hx; simp only [hdb] at hx'
      simp only [iterate, foldEntries, hdb, hk, hx', Bool.not_true, Bool.false_eq_true, if_false]
    | ok s1 =>
      have hx' := hx; simp only [hdb] at hx'
      simp only [iterate, foldEntries, hdb, hk, hx', Bool.not_true, Bool.false_eq_true, if_false]
      have := (exec_frame fuel).2.1 o _ _ hx
      exact ih { s1 with cur := none } (by show s1.db = _; rw [this.db]; exact hdb) (fun k' hk' => hks k' (List.mem_cons_of_mem _ hk'))

/-- the checks `_iterate` makes on the way (`self.bib_data.entries[key]`) when they do not hold -/
theorem iterate_no_db (fuel : Nat) (o : VarObj) (k : Str) (ks : List Str) (s : St) (hdb : s.db = none) :
    iterate fuel o (k :: ks) s = .error (.internal "AttributeError: bib_data") := by
  simp only [iterate, hdb]

/-- the frame of a whole iteration: like `Frame`, except that the current entry moves and the
entry variables of the listed entries may change -/
theorem iterate_frame (fuel : Nat) (o : VarObj) (ks : List Str) (s s' : St) (h : iterate fuel o ks s = .ok s') :
    s'.db = s.db ∧ s'.citations = s.citations ∧ s'.macros = s.macros ∧ s'.preamble = s.preamble ∧
    VarsPersist s.vars s'.vars ∧ (∀ k, k ∉ ks → dget s'.entryVars k = dget s.entryVars k) ∧
    (∃ evs : List OutEv, s'.trace = s.trace ++ evs ∧ (s'.lines, s'.buffer) = evs.foldl emit (s.lines, s.buffer)) ∧
    s.reports <+: s'.reports ∧ s.printed <+: s'.printed := by
  induction ks generalizing s with
  | nil =>
    cases h
    exact ⟨rfl, rfl, rfl, rfl, VarsPersist.refl _, fun _ _ => rfl, ⟨[], (List.append_nil _).symm, rfl⟩, List.prefix_refl _, List.prefix_refl _⟩
  | cons k ks ih =>
    simp only [iterate] at h
    split at h
    · cases h
    · split at h
      · cases h
      · split at h
        · cases h
        · rename_i s1 h1
          have fr := (exec_frame fuel).2.1 o _ _ h1
          obtain ⟨a1, a2, a3, a4, a5, a6, a7, a8, a9⟩ := ih { s1 with cur := none } h
          refine ⟨a1.trans fr.db, a2.trans fr.citations, a3.trans fr.macros, a4.trans fr.preamble,
            VarsPersist.trans fr.vars a5, ?_, ?_, fr.reports.trans a8, fr.printed.trans a9⟩
          · intro k' hk'
            rw [a6 k' (fun hm => hk' (List.mem_cons_of_mem _ hm))]
            exact fr.entry k' (by
              show some k ≠ some k'
              intro he; cases he; exact hk' List.mem_cons_self)
          · obtain ⟨e1, ht1, he1⟩ := fr.out
            obtain ⟨e2, ht2, he2⟩ := a7
            exact ⟨e1 ++ e2, by rw [ht2]; show s1.trace ++ _ = _; rw [ht1, List.append_assoc],
              by rw [he2]; show e2.foldl emit (s1.lines, s1.buffer) = _; rw [he1, List.foldl_append]⟩

/-! ### `SORT` -/

theorem mapM_sortPair (s : St) (cs : List Str) (l : List (Str × Str)) (h : cs.mapM (sortPair s) = some l) :
    l = cs.map (fun c => (sortKey s c, c)) := by
  induction cs generalizing l with
  | nil => simp at h; subst h; rfl
  | cons c cs ih =>
    rw [List.mapM_cons] at h
    cases hp : sortPair s c with
    | none => rw [hp] at h; cases h
    | some p =>
      rw [hp] at h
      cases hr : cs.mapM (sortPair s) with
      | none => rw [hr] at h; cases h
      | some r =>
        rw [hr] at h
        cases h
        rw [ih r hr, List.map_cons]
        congr 1
        unfold sortPair at hp
        unfold sortKey
        split at hp
        · rename_i v hv
          rw [hv]
          cases v <;> simp [valToStr] at hp <;> rw [← hp]
        · rename_i hv
          rw [hv]; cases hp; rfl

theorem lexLt_iff (a b : Str) : LexLt a b ↔ strLt a b = true := (strLt_iff_lexLt a b).symm

/-- what `SORT` does to the citation list -/
theorem sort_spec (s : St) (l : List (Str × Str)) (h : s.citations.mapM (sortPair s) = some l) :
    ((sortByKey l).map (·.2)).Perm s.citations ∧
    SortedBy (sortKey s) ((sortByKey l).map (·.2)) ∧
    StableWrt (sortKey s) s.citations ((sortByKey l).map (·.2)) := by
  have hl := mapM_sortPair s _ l h
  obtain ⟨h1, h2, h3⟩ := sortByKey_spec l
  have hkey : ∀ p ∈ l, p.1 = sortKey s p.2 := by
    intro p hp; rw [hl] at hp
    obtain ⟨c, _, rfl⟩ := List.mem_map.1 hp; rfl
  have hkey' : ∀ p ∈ sortByKey l, p.1 = sortKey s p.2 := fun p hp => hkey p (h2.subset hp)
  have hmap : l.map (·.2) = s.citations := by
    rw [hl, List.map_map]; exact List.map_id' _
  refine ⟨?_, ?_, ?_⟩
  · rw [← hmap]; exact h2.map _
  · unfold SortedBy
    rw [List.pairwise_map]
    refine List.Pairwise.imp_of_mem ?_ h1
    intro a b ha hb hab
    rw [lexLt_iff, ← hkey' a ha, ← hkey' b hb, hab]
    exact Bool.false_ne_true
  · intro k
    rw [← hmap, List.filter_map, List.filter_map]
    have e1 : (sortByKey l).filter ((fun a => decide (sortKey s a = k)) ∘ fun x => x.2) = (sortByKey l).filter (fun p => p.1 = k) :=
      List.filter_congr (fun p hp => by simp [Function.comp, hkey' p hp])
    have e2 : l.filter ((fun a => decide (sortKey s a = k)) ∘ fun x => x.2) = l.filter (fun p => p.1 = k) :=
      List.filter_congr (fun p hp => by simp [Function.comp, hkey p hp])
    rw [e1, e2, h3 k]

/-- `SORT` fails only when some `sort.key$` holds a non-string (which `:=` never stores) -/
theorem mapM_sortPair_isSome (s : St) (cs : List Str)
    (h : ∀ c ∈ cs, ∀ v, dget (frameOf s c) "sort.key$".toList = some v → isStr v = true) :
    ∃ l, cs.mapM (sortPair s) = some l := by
  induction cs with
  | nil => exact ⟨[], rfl⟩
  | cons c cs ih =>
    obtain ⟨r, hr⟩ := ih (fun c' hc' => h c' (List.mem_cons_of_mem _ hc'))
    have : ∃ p, sortPair s c = some p := by
      unfold sortPair
      split
      · rename_i v hv
        have := h c List.mem_cons_self v hv
        cases v <;> first | exact ⟨_, rfl⟩ | cases this
      · exact ⟨_, rfl⟩
    obtain ⟨p, hp⟩ := this
    exact ⟨p :: r, by rw [List.mapM_cons, hp, hr]; rfl⟩

/-! ### declarations -/

theorem contains_congr (d : CIDict VarObj) (k k' : Str) (h : lower k' = lower k) : d.contains k' = d.contains k := by
  simp only [CIDict.contains, h]

theorem contains_setItem_ne (d : CIDict VarObj) (k k' : Str) (v : VarObj) (h : lower k' ≠ lower k) :
    (d.setItem k v).contains k' = d.contains k' := by
  rw [contains_eq_isSome, contains_eq_isSome, getItem_setItem_ne d k k' v h]

theorem contains_setItem_same (d : CIDict VarObj) (k : Str) (v : VarObj) : (d.setItem k v).contains k = true := by
  rw [contains_eq_isSome, getItem_setItem_same]; rfl

theorem Declares.nil (s : St) : Declares [] s s :=
  ⟨rfl, (fun _ h => nomatch h), fun _ _ => rfl⟩

/-- one `add_variable` -/
theorem addVariable_ok (s : St) (n : Str) (v : VarObj) (h : s.vars.contains n = false) :
    addVariable s n v = .ok { s with vars := s.vars.setItem n v } := by
  simp only [addVariable, h, Bool.false_eq_true, if_false]

theorem addVariable_dup (s : St) (n : Str) (v : VarObj) (h : s.vars.contains n = true) :
    addVariable s n v = .error (.bibtex "variable already declared") := by
  simp only [addVariable, h, if_true]

theorem declares_add (s : St) (n : Str) (v : VarObj) : Declares [(n, v)] s { s with vars := s.vars.setItem n v } := by
  refine ⟨rfl, ?_, ?_⟩
  · intro p hp
    rcases List.mem_singleton.1 hp with rfl
    exact getItem_setItem_same _ _ _
  · intro m hm
    exact getItem_setItem_ne _ _ _ _ (fun e => hm (n, v) (List.mem_singleton.2 rfl) e.symm)

/-- composing declarations; the later ones must not re-bind a name of the earlier ones -/
theorem Declares.append {d1 d2 : List (Str × VarObj)} {s s1 s2 : St} (h1 : Declares d1 s s1) (h2 : Declares d2 s1 s2)
    (hd : ∀ p ∈ d1, ∀ q ∈ d2, lower q.1 ≠ lower p.1) : Declares (d1 ++ d2) s s2 := by
  refine ⟨?_, ?_, ?_⟩
  · rw [h2.frame]; rw [h1.frame]
  · intro p hp
    rcases List.mem_append.1 hp with hp | hp
    · rw [h2.others p.1 (fun q hq => hd p hp q hq)]; exact h1.declared p hp
    · exact h2.declared p hp
  · intro n hn
    rw [h2.others n (fun q hq => hn q (List.mem_append_right _ hq)),
        h1.others n (fun q hq => hn q (List.mem_append_left _ hq))]

theorem declare_spec (mk : Str → VarObj) (ns : List Str) (s : St) :
    (Fresh ns s → ∃ s', declare mk (ns.map Bst.Tok.name) s = .ok s' ∧ Declares (ns.map fun n => (n, mk n)) s s' ∧
        ∀ m, s'.vars.contains m = (s.vars.contains m || ns.any fun n => lower n == lower m)) ∧
    (¬ Fresh ns s → declare mk (ns.map Bst.Tok.name) s = .error (.bibtex "variable already declared")) := by
  induction ns generalizing s with
  | nil =>
    refine ⟨fun _ => ⟨s, rfl, Declares.nil s, fun m => by simp⟩, fun h => absurd ⟨(fun _ hn => nomatch hn), List.Pairwise.nil⟩ h⟩
  | cons n ns ih =>
    constructor
    · rintro ⟨hf, hp⟩
      have hn : s.vars.contains n = false := hf n List.mem_cons_self
      have hp' := List.pairwise_cons.1 hp
      let s1 : St := { s with vars := s.vars.setItem n (mk n) }
      have hfresh1 : Fresh ns s1 := by
        refine ⟨?_, hp'.2⟩
        intro m hm
        show (s.vars.setItem n (mk n)).contains m = false
        rw [contains_setItem_ne _ _ _ _ (fun e => hp'.1 m hm e.symm)]
        exact hf m (List.mem_cons_of_mem _ hm)
      obtain ⟨s', hs', hd, hc⟩ := (ih s1).1 hfresh1
      refine ⟨s', ?_, ?_, ?_⟩
      · simp only [List.map_cons, declare, tokName, addVariable_ok s n (mk n) hn]
        exact hs'
      · have := Declares.append (declares_add s n (mk n)) hd (by
          intro p hp q hq
          rcases List.mem_singleton.1 hp with rfl
          obtain ⟨m, hm, rfl⟩ := List.mem_map.1 hq
          exact fun e => hp'.1 m hm e.symm)
        simpa using this
      · intro m
        rw [hc m]
        show ((s.vars.setItem n (mk n)).contains m || _) = _
        by_cases hm : lower m = lower n
        · rw [contains_congr _ n m hm, contains_setItem_same]
          simp [hm]
        · rw [contains_setItem_ne _ _ _ _ hm]
          have : (lower n == lower m) = false := by simp; exact fun e => hm e.symm
          simp [List.any_cons, this]
    · intro hnf
      simp only [List.map_cons, declare, tokName]
      by_cases hn : s.vars.contains n = true
      · rw [addVariable_dup s n (mk n) hn]
      · have hn' : s.vars.contains n = false := by simpa using hn
        rw [addVariable_ok s n (mk n) hn']
        simp only
        apply (ih _).2
        rintro ⟨hf, hp⟩
        apply hnf
        refine ⟨?_, List.pairwise_cons.2 ⟨?_, hp⟩⟩
        · intro m hm
          rcases List.mem_cons.1 hm with rfl | hm
          · exact hn'
          · have := hf m hm
            by_cases hmn : lower m = lower n
            · rw [show ({ s with vars := s.vars.setItem n (mk n) } : St).vars.contains m = true from by
                show (s.vars.setItem n (mk n)).contains m = true
                rw [contains_congr _ n m hmn, contains_setItem_same]] at this
              cases this
            · rw [show ({ s with vars := s.vars.setItem n (mk n) } : St).vars.contains m = s.vars.contains m from
                contains_setItem_ne _ _ _ _ hmn] at this
              exact this
        · intro m hm e
          have := hf m hm
          rw [show ({ s with vars := s.vars.setItem n (mk n) } : St).vars.contains m = true from by
            show (s.vars.setItem n (mk n)).contains m = true
            rw [contains_congr _ n m e.symm, contains_setItem_same]] at this
          cases this

theorem overwrite_spec (v : VarObj) (ns : List Str) (s : St) :
    ∃ s', overwrite v (ns.map Bst.Tok.name) s = .ok s' ∧ Declares (ns.map fun n => (n, v)) s s' := by
  induction ns generalizing s with
  | nil => exact ⟨s, rfl, Declares.nil s⟩
  | cons n ns ih =>
    obtain ⟨s', hs', hd⟩ := ih { s with vars := s.vars.setItem n v }
    refine ⟨s', by simp only [List.map_cons, overwrite, tokName]; exact hs', ?_⟩
    refine ⟨?_, ?_, ?_⟩
    · rw [hd.frame]
    · intro p hp
      rcases List.mem_cons.1 hp with rfl | hp
      · by_cases hin : ∃ q ∈ ns.map (fun n => (n, v)), lower q.1 = lower n
        · obtain ⟨q, hq, hql⟩ := hin
          rw [getItem_congr _ q.1 n hql.symm, hd.declared q hq]
          obtain ⟨m, _, rfl⟩ := List.mem_map.1 hq; rfl
        · rw [hd.others n (fun q hq e => hin ⟨q, hq, e⟩)]
          exact getItem_setItem_same _ _ _
      · exact hd.declared p hp
    · intro m hm
      rw [hd.others m (fun q hq => hm q (List.mem_cons_of_mem _ hq))]
      exact getItem_setItem_ne _ _ _ _ (fun e => hm (n, v) List.mem_cons_self e.symm)

/-! ### output -/

theorem render_spec (evs : List OutEv) (ls buf : List Str) :
    (evs.foldl emit (ls, buf)).1.flatten = ls.flatten ++ render buf.flatten evs := by
  induction evs generalizing ls buf with
  | nil => simp [render]
  | cons e evs ih =>
    cases e with
    | write x =>
      simp only [List.foldl_cons, emit, render]
      rw [ih]; simp
    | newline =>
      simp only [List.foldl_cons, emit, render]
      rw [ih]; simp

/-! ### `READ` -/

theorem removeMissing_contains (db : BibData) (l : List Str) : ∀ k ∈ (db.removeMissing l).1, db.entries.contains k = true := by
  induction l with
  | nil => intro k hk; cases hk
  | cons c r ih =>
    intro k hk
    simp only [BibData.removeMissing] at hk
    split at hk
    · rename_i hc
      rcases List.mem_cons.1 hk with rfl | hk
      · exact hc
      · exact ih k hk
    · exact ih k hk

theorem runCommand_read (fuel : Nat) (inp : Input) (c : Command) (s s' : St) (h : upper c.name = "READ".toList)
    (hr : runCommand fuel inp c s = .ok s') :
    (∃ db, s'.db = some db ∧ ∀ k ∈ s'.citations, db.entries.contains k = true) ∧
    s'.vars = s.vars ∧ s'.macros = s.macros ∧ s'.entryVars = s.entryVars ∧ s'.stack = s.stack ∧
    s'.lines = s.lines ∧ s'.buffer = s.buffer ∧ s'.cur = s.cur ∧ s'.printed = s.printed ∧ s.reports <+: s'.reports := by
  unfold runCommand at hr
  simp only [h] at hr
  rw [if_pos trivial] at hr
  cases hr
  refine ⟨⟨_, rfl, removeMissing_contains _ _⟩, rfl, rfl, rfl, rfl, rfl, rfl, rfl, rfl, ?_⟩
  simp only [List.append_assoc]
  exact List.prefix_append _ _

/-! ### what a command may change -/

theorem addVariable_eq {s s' : St} {n : Str} {v : VarObj} (h : addVariable s n v = .ok s') : s' = { s with vars := s'.vars } := by
  unfold addVariable at h
  split at h
  · cases h
  · cases h; rfl

theorem declare_eq (mk : Str → VarObj) (ts : List BTok) (s s' : St) (h : declare mk ts s = .ok s') :
    s' = { s with vars := s'.vars } := by
  induction ts generalizing s with
  | nil => cases h; rfl
  | cons t ts ih =>
    simp only [declare] at h
    split at h
    · cases h
    · split at h
      · cases h
      · rename_i s1 h1
        rw [ih s1 h, addVariable_eq h1]

theorem overwrite_eq (v : VarObj) (ts : List BTok) (s s' : St) (h : overwrite v ts s = .ok s') :
    s' = { s with vars := s'.vars } := by
  induction ts generalizing s with
  | nil => cases h; rfl
  | cons t ts ih =>
    simp only [overwrite] at h
    split at h
    · cases h
    · rw [ih _ h]

theorem _root_.Pybtex.BstSem.CmdFrame.of_vars {c : Command} {s s' : St} (h : s' = { s with vars := s'.vars }) : CmdFrame c s s' := by
  rw [h]
  exact ⟨⟨[], (List.append_nil _).symm, rfl⟩, List.prefix_refl _, List.prefix_refl _, fun _ => rfl, fun _ => List.Perm.refl _⟩

theorem _root_.Pybtex.BstSem.CmdFrame.of_frame {c : Command} {s s' : St} (h : Frame s s') : CmdFrame c s s' :=
  ⟨h.out, h.reports, h.printed, fun _ => h.db, fun _ => by rw [h.citations]⟩

theorem _root_.Pybtex.BstSem.CmdFrame.of_iterate {c : Command} {fuel : Nat} {o : VarObj} {ks : List Str} {s s' : St}
    (h : iterate fuel o ks s = .ok s') : CmdFrame c s s' := by
  obtain ⟨a1, a2, _, _, _, _, a7, a8, a9⟩ := iterate_frame fuel o ks s s' h
  exact ⟨a7, a8, a9, fun _ => a1, fun _ => by rw [a2]⟩

theorem runCommand_frame (fuel : Nat) (inp : Input) (c : Command) (s s' : St) (h : runCommand fuel inp c s = .ok s') :
    CmdFrame c s s' := by
  unfold runCommand at h
  simp only at h
  split at h
  · -- ENTRY
    split at h
    · split at h
      · cases h
      · rename_i s1 h1
        split at h
        · cases h
        · rename_i s2 h2
          split at h
          · cases h
          · rename_i s3 h3
            refine CmdFrame.of_vars ?_
            rw [declare_eq _ _ _ _ h, declare_eq _ _ _ _ h3, addVariable_eq h2, declare_eq _ _ _ _ h1]
    · cases h
  · split at h
    · -- EXECUTE
      split at h
      · exact CmdFrame.of_frame ((exec_frame fuel).2.2.1 _ _ _ h)
      · cases h
    · split at h
      · -- FUNCTION
        split at h
        · split at h
          · cases h
          · exact CmdFrame.of_vars (addVariable_eq h)
        · cases h
      · split at h
        · -- INTEGERS
          split at h
          · exact CmdFrame.of_vars (overwrite_eq _ _ _ _ h)
          · cases h
        · split at h
          · -- STRINGS
            split at h
            · exact CmdFrame.of_vars (overwrite_eq _ _ _ _ h)
            · cases h
          · split at h
            · -- MACRO
              split at h
              · split at h
                · cases h
                  exact ⟨⟨[], (List.append_nil _).symm, rfl⟩, List.prefix_refl _, List.prefix_refl _, fun _ => rfl, fun _ => List.Perm.refl _⟩
                · cases h
              · cases h
            · split at h
              · -- READ
                rename_i hread
                cases h
                refine ⟨⟨[], (List.append_nil _).symm, rfl⟩, ?_, List.prefix_refl _, fun hn => absurd hread hn, fun hn => absurd hread hn⟩
                simp only [List.append_assoc]
                exact List.prefix_append _ _
              · split at h
                · -- ITERATE / REVERSE
                  split at h
                  · split at h
                    · cases h
                    · split at h
                      · cases h
                      · exact CmdFrame.of_iterate h
                  · cases h
                · split at h
                  · -- SORT
                    split at h
                    · cases h
                    · rename_i l hl
                      cases h
                      exact ⟨⟨[], (List.append_nil _).symm, rfl⟩, List.prefix_refl _, List.prefix_refl _, fun _ => rfl,
                        fun _ => (sort_spec s l hl).1⟩
                  · cases h

theorem runProgram_frame (fuel : Nat) (inp : Input) (prog : Program) (s s' : St) (h : runProgram fuel inp prog s = .ok s') :
    (∃ evs : List OutEv, s'.trace = s.trace ++ evs ∧ (s'.lines, s'.buffer) = evs.foldl emit (s.lines, s.buffer)) ∧
    s.reports <+: s'.reports ∧ s.printed <+: s'.printed := by
  induction prog generalizing s with
  | nil => cases h; exact ⟨⟨[], (List.append_nil _).symm, rfl⟩, List.prefix_refl _, List.prefix_refl _⟩
  | cons c cs ih =>
    simp only [runProgram] at h
    split at h
    · cases h
    · rename_i s1 h1
      have f1 := runCommand_frame fuel inp c s s1 h1
      obtain ⟨⟨e2, ht2, he2⟩, r2, p2⟩ := ih s1 h
      obtain ⟨e1, ht1, he1⟩ := f1.out
      exact ⟨⟨e1 ++ e2, by rw [ht2, ht1, List.append_assoc], by rw [he2, he1, List.foldl_append]⟩,
        f1.reports.trans r2, f1.printed.trans p2⟩

theorem ready_of_read (fuel : Nat) (inp : Input) (c : Command) (s s' : St) (h : upper c.name = "READ".toList)
    (hr : runCommand fuel inp c s = .ok s') : Ready s' := (runCommand_read fuel inp c s s' h hr).1

theorem ready_preserved (fuel : Nat) (inp : Input) (c : Command) (s s' : St) (hs : Ready s)
    (hr : runCommand fuel inp c s = .ok s') : Ready s' := by
  by_cases h : upper c.name = "READ".toList
  · exact ready_of_read fuel inp c s s' h hr
  · obtain ⟨db, hdb, hc⟩ := hs
    have f := runCommand_frame fuel inp c s s' hr
    exact ⟨db, by rw [f.db h]; exact hdb, fun k hk => hc k ((f.citations h).subset hk)⟩

/-! ### only `write$` and `newline$` touch the output -/

def SameOut (s s' : St) : Prop := s'.lines = s.lines ∧ s'.buffer = s.buffer ∧ s'.trace = s.trace

theorem SameOut.trans {a b c : St} (h1 : SameOut a b) (h2 : SameOut b c) : SameOut a c :=
  ⟨h2.1.trans h1.1, h2.2.1.trans h1.2.1, h2.2.2.trans h1.2.2⟩

theorem pop_sameOut {s s1 : St} {v : Val} (h : pop s = .ok (v, s1)) : SameOut s s1 := by
  rw [(pop_eq h).1]; exact ⟨rfl, rfl, rfl⟩

theorem popInt_sameOut {s s1 : St} {n : Int} (h : popInt s = .ok (n, s1)) : SameOut s s1 := by
  unfold popInt at h
  split at h
  · cases h
  · rename_i hp; cases h; exact pop_sameOut hp
  · cases h

theorem popStr_sameOut {s s1 : St} {x : Str} (h : popStr s = .ok (x, s1)) : SameOut s s1 := by
  unfold popStr at h
  split at h
  · cases h
  · rename_i hp; cases h; exact pop_sameOut hp
  · rename_i hp; cases h; exact pop_sameOut hp
  · cases h

macro "out_chain" : tactic => `(tactic| repeat (first
  | refine SameOut.trans (pop_sameOut (by assumption)) ?_
  | refine SameOut.trans (popInt_sameOut (by assumption)) ?_
  | refine SameOut.trans (popStr_sameOut (by assumption)) ?_))

theorem prim_sameOut (f : Nat) (b : Builtin) (s s' : St)
    (hb : b ≠ .callType ∧ b ≠ .if_ ∧ b ≠ .while_ ∧ b ≠ .write ∧ b ≠ .newline)
    (h : runBuiltin (f+1) b s = .ok s') : SameOut s s' := by
  cases b
  case callType => exact absurd rfl hb.1
  case if_ => exact absurd rfl hb.2.1
  case while_ => exact absurd rfl hb.2.2.1
  case write => exact absurd rfl hb.2.2.2.1
  case newline => exact absurd rfl hb.2.2.2.2
  all_goals
    simp only [runBuiltin] at h
    repeat' (split at h)
    all_goals first
      | (cases h; done)
      | (cases h; out_chain; exact ⟨rfl, rfl, rfl⟩)

/-! ### sequences of declarations (`ENTRY`) -/

/-- `run` declares exactly `ds` when their names are fresh and fails with `BibTeXError`
otherwise -/
def DeclStep (ds : List (Str × VarObj)) (run : St → Except IErr St) : Prop :=
  ∀ s, (Fresh (ds.map (·.1)) s → ∃ s', run s = .ok s' ∧ Declares ds s s' ∧
          ∀ m, s'.vars.contains m = (s.vars.contains m || (ds.map (·.1)).any fun n => lower n == lower m)) ∧
       (¬ Fresh (ds.map (·.1)) s → run s = .error (.bibtex "variable already declared"))

theorem declStep_declare (mk : Str → VarObj) (ns : List Str) :
    DeclStep (ns.map fun n => (n, mk n)) (declare mk (ns.map Bst.Tok.name)) := by
  intro s
  have hmap : (ns.map fun n => (n, mk n)).map (·.1) = ns := by rw [List.map_map]; exact List.map_id' _
  rw [hmap]
  exact declare_spec mk ns s

theorem declStep_add (n : Str) (v : VarObj) : DeclStep [(n, v)] (fun s => addVariable s n v) := by
  intro s
  constructor
  · rintro ⟨hf, _⟩
    have hn := hf n (List.mem_singleton.2 rfl)
    refine ⟨_, addVariable_ok s n v hn, declares_add s n v, ?_⟩
    intro m
    show (s.vars.setItem n v).contains m = _
    by_cases hm : lower m = lower n
    · rw [contains_congr _ n m hm, contains_setItem_same]; simp [hm]
    · rw [contains_setItem_ne _ _ _ _ hm]
      have : (lower n == lower m) = false := by simp; exact fun e => hm e.symm
      simp [this]
  · intro hnf
    apply addVariable_dup
    cases hc : s.vars.contains n with
    | true => rfl
    | false =>
      exact absurd ⟨fun m hm => by rcases List.mem_singleton.1 hm with rfl; exact hc, List.pairwise_singleton _ _⟩ hnf

theorem fresh_append (a b : List Str) (s s1 : St)
    (hc : ∀ m, s1.vars.contains m = (s.vars.contains m || a.any fun n => lower n == lower m)) :
    Fresh (a ++ b) s ↔ Fresh a s ∧ Fresh b s1 := by
  unfold Fresh
  rw [List.pairwise_append]
  constructor
  · rintro ⟨hf, hpa, hpb, hx⟩
    refine ⟨⟨fun n hn => hf n (List.mem_append_left _ hn), hpa⟩, ?_, hpb⟩
    intro n hn
    rw [hc n, hf n (List.mem_append_right _ hn), Bool.false_or]
    rw [Bool.eq_false_iff]
    intro hany
    obtain ⟨m, hm, hml⟩ := List.any_eq_true.1 hany
    exact hx m hm n hn (by simpa using hml)
  · rintro ⟨⟨hfa, hpa⟩, hfb, hpb⟩
    refine ⟨?_, hpa, hpb, ?_⟩
    · intro n hn
      rcases List.mem_append.1 hn with hn | hn
      · exact hfa n hn
      · have := hfb n hn
        rw [hc n] at this
        exact (Bool.or_eq_false_iff.1 this).1
    · intro m hm n hn e
      have := hfb n hn
      rw [hc n] at this
      have h2 := (Bool.or_eq_false_iff.1 this).2
      have : (a.any fun x => lower x == lower n) = true := List.any_eq_true.2 ⟨m, hm, by simpa using e⟩
      rw [this] at h2; cases h2

theorem DeclStep.seq {d1 d2 : List (Str × VarObj)} {r1 r2 : St → Except IErr St} (h1 : DeclStep d1 r1) (h2 : DeclStep d2 r2) :
    DeclStep (d1 ++ d2) (fun s => match r1 s with | .error e => .error e | .ok s1 => r2 s1) := by
  intro s
  by_cases hf1 : Fresh (d1.map (·.1)) s
  · obtain ⟨s1, hr1, hd1, hc1⟩ := (h1 s).1 hf1
    have hiff := fresh_append (d1.map (·.1)) (d2.map (·.1)) s s1 hc1
    rw [← List.map_append] at hiff
    constructor
    · intro hf
      have hf2 := (hiff.1 hf).2
      obtain ⟨s2, hr2, hd2, hc2⟩ := (h2 s1).1 hf2
      refine ⟨s2, by simp only [hr1]; exact hr2, ?_, ?_⟩
      · refine Declares.append hd1 hd2 ?_
        intro p hp q hq e
        have hx := (List.pairwise_append.1 (by rw [← List.map_append]; exact hf.2)).2.2
        exact hx p.1 (List.mem_map_of_mem hp) q.1 (List.mem_map_of_mem hq) e.symm
      · intro m
        rw [hc2 m, hc1 m, List.map_append, List.any_append, Bool.or_assoc]
    · intro hnf
      have hnf2 : ¬ Fresh (d2.map (·.1)) s1 := fun h => hnf (hiff.2 ⟨hf1, h⟩)
      simp only [hr1]
      exact (h2 s1).2 hnf2
  · have hr1 := (h1 s).2 hf1
    constructor
    · intro hf
      refine absurd ⟨fun n hn => hf.1 n ?_, ?_⟩ hf1
      · rw [List.map_append]; exact List.mem_append_left _ hn
      · have := hf.2; rw [List.map_append] at this; exact (List.pairwise_append.1 this).1
    · intro _
      simp only [hr1]

theorem declStep_entry (fields ints strings : List Str) :
    DeclStep (entryDecls fields ints strings) (fun s =>
      match declare (fun n => .field n) (fields.map Bst.Tok.name) s with
      | .error e => .error e
      | .ok s =>
        match addVariable s "crossref".toList .crossref with
        | .error e => .error e
        | .ok s =>
          match declare (fun n => .eint n) (ints.map Bst.Tok.name) s with
          | .error e => .error e
          | .ok s => declare (fun n => .estr n) (strings.map Bst.Tok.name) s) := by
  have h := (declStep_declare (fun n => .field n) fields).seq
    ((declStep_add "crossref".toList .crossref).seq
      ((declStep_declare (fun n => .eint n) ints).seq (declStep_declare (fun n => .estr n) strings)))
  have e : entryDecls fields ints strings =
      (fields.map fun n => (n, VarObj.field n)) ++ ([("crossref".toList, VarObj.crossref)] ++
        ((ints.map fun n => (n, VarObj.eint n)) ++ (strings.map fun n => (n, VarObj.estr n)))) := by
    simp [entryDecls, List.append_assoc]
  rw [e]
  exact h

/-! ### sortedness and stability determine the sorted list -/

theorem lexLt_total (a b : Str) : LexLt a b ∨ a = b ∨ LexLt b a := by
  simp only [lexLt_iff]; exact strLt_total a b

theorem sorted_stable_unique {α : Type} [DecidableEq α] (key : α → Str) (l1 l2 : List α)
    (h1 : SortedBy key l1) (h2 : SortedBy key l2)
    (hf : ∀ k, l1.filter (fun a => key a = k) = l2.filter (fun a => key a = k)) : l1 = l2 := by
  induction l1 generalizing l2 with
  | nil =>
    cases l2 with
    | nil => rfl
    | cons b r2 => have := hf (key b); simp at this
  | cons a r1 ih =>
    cases l2 with
    | nil => have := hf (key a); simp at this
    | cons b r2 =>
      have p1 := List.pairwise_cons.1 h1
      have p2 := List.pairwise_cons.1 h2
      have hb : b ∈ a :: r1 := by
        have : b ∈ (a :: r1).filter (fun x => key x = key b) := by rw [hf (key b)]; simp
        exact (List.mem_filter.1 this).1
      have ha : a ∈ b :: r2 := by
        have : a ∈ (b :: r2).filter (fun x => key x = key a) := by rw [← hf (key a)]; simp
        exact (List.mem_filter.1 this).1
      have hab : ¬ LexLt (key b) (key a) := by
        rcases List.mem_cons.1 hb with rfl | hb
        · intro h; exact absurd h (by rw [lexLt_iff, strLt_irrefl]; exact Bool.false_ne_true)
        · exact p1.1 b hb
      have hba : ¬ LexLt (key a) (key b) := by
        rcases List.mem_cons.1 ha with rfl | ha
        · intro h; exact absurd h (by rw [lexLt_iff, strLt_irrefl]; exact Bool.false_ne_true)
        · exact p2.1 a ha
      have hk : key a = key b := by
        rcases lexLt_total (key a) (key b) with h | h | h
        · exact absurd h hba
        · exact h
        · exact absurd h hab
      have hhead : a = b := by
        have := hf (key a)
        rw [List.filter_cons, List.filter_cons, if_pos (by simp), if_pos (by simp [hk])] at this
        exact (List.cons.inj this).1
      subst hhead
      congr 1
      apply ih r2 p1.2 p2.2
      intro k
      have := hf k
      rw [List.filter_cons, List.filter_cons] at this
      split at this
      · exact (List.cons.inj this).2
      · exact this

/-! ### which commands touch the variable table -/

theorem runCommand_vars_same (fuel : Nat) (inp : Input) (c : Command) (s s' : St) (h : runCommand fuel inp c s = .ok s')
    (hc : upper c.name = "SORT".toList ∨ upper c.name = "READ".toList ∨ upper c.name = "MACRO".toList) :
    s'.vars = s.vars := by
  rcases hc with hc | hc | hc
  · rw [runCommand_sort fuel inp c s hc] at h
    split at h
    · cases h
    · cases h; rfl
  · exact (runCommand_read fuel inp c s s' hc h).2.1
  · unfold runCommand at h
    simp +decide only [hc, ↓reduceIte] at h
    repeat' (split at h)
    all_goals first | (cases h; done) | (cases h; rfl)

theorem runCommand_vars_persist (fuel : Nat) (inp : Input) (c : Command) (s s' : St) (h : runCommand fuel inp c s = .ok s')
    (hc : upper c.name = "ITERATE".toList ∨ upper c.name = "REVERSE".toList ∨ upper c.name = "EXECUTE".toList) :
    VarsPersist s.vars s'.vars := by
  rcases hc with hc | hc | hc
  · unfold runCommand at h
    simp +decide only [hc, ↓reduceIte] at h
    repeat' (split at h)
    all_goals first | (cases h; done) | exact (iterate_frame _ _ _ _ _ h).2.2.2.2.1
  · unfold runCommand at h
    simp +decide only [hc, ↓reduceIte] at h
    repeat' (split at h)
    all_goals first | (cases h; done) | exact (iterate_frame _ _ _ _ _ h).2.2.2.2.1
  · unfold runCommand at h
    simp +decide only [hc, ↓reduceIte] at h
    repeat' (split at h)
    all_goals first | (cases h; done) | exact ((exec_frame _).2.2.1 _ _ _ h).vars

/-! ### only `:=` touches variables -/

def SameVars (s s' : St) : Prop := s'.vars = s.vars ∧ s'.entryVars = s.entryVars

theorem SameVars.trans {a b c : St} (h1 : SameVars a b) (h2 : SameVars b c) : SameVars a c :=
  ⟨h2.1.trans h1.1, h2.2.trans h1.2⟩

theorem pop_sameVars {s s1 : St} {v : Val} (h : pop s = .ok (v, s1)) : SameVars s s1 := by
  rw [(pop_eq h).1]; exact ⟨rfl, rfl⟩

theorem popInt_sameVars {s s1 : St} {n : Int} (h : popInt s = .ok (n, s1)) : SameVars s s1 := by
  unfold popInt at h
  split at h
  · cases h
  · rename_i hp; cases h; exact pop_sameVars hp
  · cases h

theorem popStr_sameVars {s s1 : St} {x : Str} (h : popStr s = .ok (x, s1)) : SameVars s s1 := by
  unfold popStr at h
  split at h
  · cases h
  · rename_i hp; cases h; exact pop_sameVars hp
  · rename_i hp; cases h; exact pop_sameVars hp
  · cases h

macro "vars_chain" : tactic => `(tactic| repeat (first
  | refine SameVars.trans (pop_sameVars (by assumption)) ?_
  | refine SameVars.trans (popInt_sameVars (by assumption)) ?_
  | refine SameVars.trans (popStr_sameVars (by assumption)) ?_))

theorem prim_sameVars (f : Nat) (b : Builtin) (s s' : St)
    (hb : b ≠ .callType ∧ b ≠ .if_ ∧ b ≠ .while_ ∧ b ≠ .assign)
    (h : runBuiltin (f+1) b s = .ok s') : SameVars s s' := by
  cases b
  case callType => exact absurd rfl hb.1
  case if_ => exact absurd rfl hb.2.1
  case while_ => exact absurd rfl hb.2.2.1
  case assign => exact absurd rfl hb.2.2.2
  all_goals
    simp only [runBuiltin] at h
    repeat' (split at h)
    all_goals first
      | (cases h; done)
      | (cases h; vars_chain; exact ⟨rfl, rfl⟩)

/-! ### `==` on function bodies is structural equality -/

mutual
theorem tokEq_iff : ∀ (a b : BTok), tokEq a b = true ↔ a = b
  | .int x, b => by cases b <;> simp [tokEq]
  | .str x, b => by cases b <;> simp [tokEq]
  | .quoted x, b => by cases b <;> simp [tokEq]
  | .name x, b => by cases b <;> simp [tokEq]
  | .fn x, b => by
    cases b with
    | fn y => simp only [tokEq, toksEq_iff x y, Bst.Tok.fn.injEq]
    | _ => simp [tokEq]
theorem toksEq_iff : ∀ (x y : List BTok), toksEq x y = true ↔ x = y
  | [], y => by cases y <;> simp [toksEq]
  | a :: r, y => by
    cases y with
    | nil => simp [toksEq]
    | cons b t => simp only [toksEq, Bool.and_eq_true, tokEq_iff a b, toksEq_iff r t, List.cons.injEq]
end

/-! ### `READ`: the database it builds is well formed (the hypothesis of the C05 / C14 theorems) -/

theorem omap_set_mem {V : Type} (m : OMap V) (k : Str) (v : V) (t : Str × Str × V) (h : t ∈ OMap.set m k v) :
    t ∈ m ∨ t = (lower k, k, v) := by
  induction m with
  | nil => simp only [OMap.set, List.mem_singleton] at h; exact .inr h
  | cons e m ih =>
    obtain ⟨l, sp, w⟩ := e
    simp only [OMap.set] at h
    split at h
    · rename_i hl
      rcases List.mem_cons.1 h with rfl | h
      · exact .inr (by rw [hl])
      · exact .inl (List.mem_cons_of_mem _ h)
    · rcases List.mem_cons.1 h with rfl | h
      · exact .inl List.mem_cons_self
      · rcases ih h with h | h
        · exact .inl (List.mem_cons_of_mem _ h)
        · exact .inr h

/-- the entry `convertDb` stores for a parsed entry -/
def convEntry (e : Bib.Entry) : Pybtex.Entry :=
  { key := e.key, type := e.type, fields := CIDict.ofPairs e.fields, persons := personsToStr e.persons }

theorem convertDb_fold_wf (es : List Bib.Entry) (d : CIDict Pybtex.Entry) (hi : CIDict.Inv d)
    (hk : ∀ t ∈ CIDict.abs d, t.2.2.key = t.2.1) (he : ∀ t ∈ CIDict.abs d, EntryWF t.2.2) :
    let d' := es.foldl (fun d e => d.setItem e.key (convEntry e)) d
    CIDict.Inv d' ∧ (∀ t ∈ CIDict.abs d', t.2.2.key = t.2.1) ∧ (∀ t ∈ CIDict.abs d', EntryWF t.2.2) := by
  induction es generalizing d with
  | nil => exact ⟨hi, hk, he⟩
  | cons e es ih =>
    simp only [List.foldl_cons]
    apply ih
    · exact CIDict.inv_setItem hi _ _
    · intro t ht
      rw [CIDict.abs_setItem hi] at ht
      rcases omap_set_mem _ _ _ _ ht with h | rfl
      · exact hk t h
      · rfl
    · intro t ht
      rw [CIDict.abs_setItem hi] at ht
      rcases omap_set_mem _ _ _ _ ht with h | rfl
      · exact he t h
      · exact ⟨(CIDict.ofPairs_spec _).1, (CIDict.ofPairs_spec _).1⟩

/-- whatever the reader delivered, the database the interpreter works on is well formed -/
theorem convertDb_wf (b : Bib.Db) : DbWF (convertDb b) := by
  have := convertDb_fold_wf b.entries CIDict.empty CIDict.inv_empty (by intro t ht; cases ht) (by intro t ht; cases ht)
  exact ⟨this.1, this.2.1, this.2.2⟩

/-- the state `READ` leaves behind -/
def afterRead (inp : Input) (s : St) : St :=
  let P := readerResult inp s
  let db := convertDb P.db
  let x := BibData.addExtraCitations db s.citations inp.minCrossrefs
  let m := BibData.removeMissing db x.1
  { s with db := some db, preamble := P.db.preamble.flatten, citations := m.1,
           reports := s.reports ++ P.errs.map Report.bib ++ x.2.map Report.data ++ m.2.map Report.data }

theorem runCommand_read_eq (fuel : Nat) (inp : Input) (c : Command) (s : St) (h : upper c.name = "READ".toList) :
    runCommand fuel inp c s = .ok (afterRead inp s) := by
  unfold runCommand
  simp only [h]
  rw [if_pos trivial]
  simp only [afterRead, readerResult, readerStart]
  cases inp.alt with
  | none => rfl
  | some x => rfl

/-! ### the current entry and the output outside `EXECUTE` / `ITERATE` / `REVERSE` -/

theorem iterate_cur (fuel : Nat) (o : VarObj) (ks : List Str) (s s' : St) (h : iterate fuel o ks s = .ok s') :
    (ks = [] ∧ s' = s) ∨ s'.cur = none := by
  induction ks generalizing s with
  | nil => cases h; exact .inl ⟨rfl, rfl⟩
  | cons k ks ih =>
    right
    simp only [iterate] at h
    split at h
    · cases h
    · split at h
      · cases h
      · split at h
        · cases h
        · rcases ih _ h with ⟨_, rfl⟩ | h'
          · rfl
          · exact h'

/-- a command leaves no entry current if none was current before, and every command other than
`EXECUTE` / `ITERATE` / `REVERSE` leaves the output (lines, buffer, trace of output calls) alone -/
theorem runCommand_cur_out (fuel : Nat) (inp : Input) (c : Command) (s s' : St) (h : runCommand fuel inp c s = .ok s') :
    (s.cur = none → s'.cur = none) ∧
    (upper c.name ≠ "EXECUTE".toList → upper c.name ≠ "ITERATE".toList → upper c.name ≠ "REVERSE".toList → SameOut s s') := by
  have ofv : ∀ {s s' : St}, s' = { s with vars := s'.vars } → (s.cur = none → s'.cur = none) ∧ SameOut s s' := by
    intro s s' e; rw [e]; exact ⟨fun h => h, rfl, rfl, rfl⟩
  unfold runCommand at h
  simp only at h
  split at h
  · -- ENTRY
    split at h
    · split at h
      · cases h
      · rename_i s1 h1
        split at h
        · cases h
        · rename_i s2 h2
          split at h
          · cases h
          · rename_i s3 h3
            have := ofv (s := s) (s' := s') (by
              rw [declare_eq _ _ _ _ h, declare_eq _ _ _ _ h3, addVariable_eq h2, declare_eq _ _ _ _ h1])
            exact ⟨this.1, fun _ _ _ => this.2⟩
    · cases h
  · split at h
    · -- EXECUTE
      rename_i hex
      split at h
      · exact ⟨fun hc => by rw [((exec_frame fuel).2.2.1 _ _ _ h).cur]; exact hc, fun hn => absurd hex hn⟩
      · cases h
    · split at h
      · -- FUNCTION
        split at h
        · split at h
          · cases h
          · have := ofv (addVariable_eq h); exact ⟨this.1, fun _ _ _ => this.2⟩
        · cases h
      · split at h
        · -- INTEGERS
          split at h
          · have := ofv (overwrite_eq _ _ _ _ h); exact ⟨this.1, fun _ _ _ => this.2⟩
          · cases h
        · split at h
          · -- STRINGS
            split at h
            · have := ofv (overwrite_eq _ _ _ _ h); exact ⟨this.1, fun _ _ _ => this.2⟩
            · cases h
          · split at h
            · -- MACRO
              split at h
              · split at h
                · cases h; exact ⟨fun hc => hc, fun _ _ _ => ⟨rfl, rfl, rfl⟩⟩
                · cases h
              · cases h
            · split at h
              · -- READ
                cases h; exact ⟨fun hc => hc, fun _ _ _ => ⟨rfl, rfl, rfl⟩⟩
              · split at h
                · -- ITERATE / REVERSE
                  rename_i hit
                  split at h
                  · split at h
                    · cases h
                    · split at h
                      · cases h
                      · refine ⟨fun hc => ?_, fun _ h2 h3 => (hit.elim (fun e => absurd e h2) (fun e => absurd e h3))⟩
                        rcases iterate_cur _ _ _ _ _ h with ⟨_, rfl⟩ | h'
                        · exact hc
                        · exact h'
                  · cases h
                · split at h
                  · -- SORT
                    split at h
                    · cases h
                    · cases h; exact ⟨fun hc => hc, fun _ _ _ => ⟨rfl, rfl, rfl⟩⟩
                  · cases h

theorem runProgram_cur_none (fuel : Nat) (inp : Input) (prog : Program) (s s' : St) (hs : s.cur = none)
    (h : runProgram fuel inp prog s = .ok s') : s'.cur = none := by
  induction prog generalizing s with
  | nil => cases h; exact hs
  | cons c cs ih =>
    simp only [runProgram] at h
    split at h
    · cases h
    · rename_i s1 h1
      exact ih s1 ((runCommand_cur_out fuel inp c s s1 h1).1 hs) h

end Pybtex.Interp
