/-
Helper lemmas for C03 (the BST interpreter model `Model/Interp.lean`).
-/
import PybtexModel.Spec.BstSem
import PybtexModel.Lemmas.CIMap

namespace Pybtex.Interp
open Pybtex.BstSem

/-! ### values -/

theorem valToStr_cases {v : Val} {x : Str} (h : valToStr v = some x) :
    v = .str x ∨ ∃ m, v = .missing m ∧ x = [] := by
  cases v <;> simp [valToStr] at h
  · exact .inl (by rw [h])
  · exact .inr ⟨_, rfl, h⟩

theorem valToStr_isStr {v : Val} : (∃ x, valToStr v = some x) ↔ isStr v = true := by
  cases v <;> simp [valToStr, isStr]

theorem valToStr_none {v : Val} (h : isStr v = false) : valToStr v = none := by
  cases v <;> simp [valToStr, isStr] at h ⊢

/-! ### fuel -/

/-- more fuel never changes a finished run: all six mutually recursive functions at once -/
theorem fuel_mono_all (n : Nat) : ∀ m, n ≤ m →
    (∀ v s, Finished (execVal n v s) → execVal m v s = execVal n v s) ∧
    (∀ o s, Finished (execObj n o s) → execObj m o s = execObj n o s) ∧
    (∀ t s, Finished (execTok n t s) → execTok m t s = execTok n t s) ∧
    (∀ b s, Finished (execBody n b s) → execBody m b s = execBody n b s) ∧
    (∀ p f s, Finished (whileLoop n p f s) → whileLoop m p f s = whileLoop n p f s) ∧
    (∀ b s, Finished (runBuiltin n b s) → runBuiltin m b s = runBuiltin n b s) := by
  induction n with
  | zero =>
    intro m _
    refine ⟨?_, ?_, ?_, ?_, ?_, ?_⟩ <;> intros <;> rename_i h <;> exact absurd rfl h
  | succ n ih =>
    intro m hm
    obtain ⟨m, rfl⟩ : ∃ m', m = m' + 1 := ⟨m - 1, by omega⟩
    obtain ⟨ihV, ihO, ihT, ihB, ihW, ihR⟩ := ih m (by omega)
    refine ⟨?_, ?_, ?_, ?_, ?_, ?_⟩
    · intro v s h
      cases v with
      | fn body => exact ihB body s h
      | ref name =>
        simp only [execVal] at h ⊢
        split
        · rename_i o ho; rw [ho] at h; exact ihO _ _ h
        · rfl
      | _ => rfl
    · intro o s h
      cases o with
      | builtin b => exact ihR b s h
      | func body => exact ihB body s h
      | _ => rfl
    · intro t s h
      cases t with
      | name nm =>
        simp only [execTok] at h ⊢
        split
        · rfl
        · rename_i o ho; rw [ho] at h; exact ihO _ _ h
      | _ => rfl
    · intro b s h
      cases b with
      | nil => rfl
      | cons t ts =>
        simp only [execBody] at h ⊢
        cases ht : execTok n t s with
        | error e =>
          rw [ht] at h
          have : Finished (execTok n t s) := by rw [ht]; exact h
          rw [ihT t s this, ht]
        | ok s1 =>
          rw [ht] at h
          have : Finished (execTok n t s) := by rw [ht]; intro hh; cases hh
          rw [ihT t s this, ht]
          exact ihB ts s1 h
    · intro p f s h
      simp only [whileLoop] at h ⊢
      cases hp : execVal n p s with
      | error e =>
        rw [hp] at h
        have : Finished (execVal n p s) := by rw [hp]; exact h
        rw [ihV p s this, hp]
      | ok s1 =>
        rw [hp] at h
        have : Finished (execVal n p s) := by rw [hp]; intro hh; cases hh
        rw [ihV p s this, hp]
        simp only at h ⊢
        cases hq : popInt s1 with
        | error e => rfl
        | ok q =>
          obtain ⟨k, s2⟩ := q
          rw [hq] at h
          simp only at h ⊢
          by_cases hk : k ≤ 0
          · simp only [if_pos hk]
          · simp only [if_neg hk] at h ⊢
            cases hf : execVal n f s2 with
            | error e =>
              rw [hf] at h
              have : Finished (execVal n f s2) := by rw [hf]; exact h
              rw [ihV f s2 this, hf]
            | ok s3 =>
              rw [hf] at h
              have : Finished (execVal n f s2) := by rw [hf]; intro hh; cases hh
              rw [ihV f s2 this, hf]
              exact ihW p f s3 h
    · intro b s h
      cases b with
      | callType =>
        simp only [runBuiltin] at h ⊢
        cases hc : curEntry s with
        | error e => rfl
        | ok q =>
          obtain ⟨k, e, db⟩ := q
          rw [hc] at h
          simp only at h ⊢
          cases hv : s.vars.getItem e.type with
          | some o => rw [hv] at h; exact ihO _ _ h
          | none =>
            rw [hv] at h
            simp only at h ⊢
            split
            · rename_i o ho; rw [ho] at h; exact ihO _ _ h
            · rfl
      | if_ =>
        simp only [runBuiltin] at h ⊢
        cases h1 : pop s with
        | error e => rfl
        | ok q1 =>
          obtain ⟨f1, s1⟩ := q1
          rw [h1] at h; simp only at h ⊢
          cases h2 : pop s1 with
          | error e => rfl
          | ok q2 =>
            obtain ⟨f2, s2⟩ := q2
            rw [h2] at h; simp only at h ⊢
            cases h3 : popInt s2 with
            | error e => rfl
            | ok q3 =>
              obtain ⟨p, s3⟩ := q3
              rw [h3] at h; simp only at h ⊢
              split
              · rename_i hp; rw [if_pos hp] at h; exact ihV _ _ h
              · rename_i hp; rw [if_neg hp] at h; exact ihV _ _ h
      | while_ =>
        simp only [runBuiltin] at h ⊢
        cases h1 : pop s with
        | error e => rfl
        | ok q1 =>
          obtain ⟨f1, s1⟩ := q1
          rw [h1] at h; simp only at h ⊢
          cases h2 : pop s1 with
          | error e => rfl
          | ok q2 =>
            obtain ⟨f2, s2⟩ := q2
            rw [h2] at h; simp only at h ⊢
            exact ihW _ _ _ h
      | _ => rfl

end Pybtex.Interp
