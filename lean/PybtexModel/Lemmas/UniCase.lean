import PybtexModel.Model.UniCase

namespace Pybtex

abbrev Run := Nat × Nat × Nat × Nat

/-- the code points of a run, enumerated -/
def runPoints (r : Run) : List Nat := List.range' r.1 ((r.2.1 - r.1) / r.2.2.1 + 1) r.2.2.1

theorem caseLookup_mem {n m : Nat} {tbl : List Run} (h : caseLookup n tbl = some m) :
    ∃ r ∈ tbl, n ∈ runPoints r := by
  induction tbl with
  | nil => simp [caseLookup] at h
  | cons r tbl ih =>
    obtain ⟨s, e, st, t⟩ := r
    simp only [caseLookup] at h
    split at h
    · next hc =>
      simp only [Bool.and_eq_true, Nat.ble_eq] at hc
      obtain ⟨⟨h1, h2⟩, h3⟩ := hc
      have h3 : (n - s) % st = 0 := by simpa using h3
      refine ⟨_, List.mem_cons_self .., ?_⟩
      simp only [runPoints, List.mem_range']
      refine ⟨(n - s) / st, ?_, ?_⟩
      · have := Nat.div_le_div_right (c := st) (show n - s ≤ e - s by omega)
        omega
      · have := Nat.div_add_mod (n - s) st
        omega
    · obtain ⟨r, hr, h1⟩ := ih h
      exact ⟨r, List.mem_cons_of_mem _ hr, h1⟩

theorem caseLookupG_mem {n m : Nat} {tbl : List (Nat × Nat × List Run)} (h : caseLookupG n tbl = some m) :
    ∃ g ∈ tbl, ∃ r ∈ g.2.2, n ∈ runPoints r := by
  induction tbl with
  | nil => simp [caseLookupG] at h
  | cons g tbl ih =>
    obtain ⟨lo, hi, rs⟩ := g
    simp only [caseLookupG] at h
    split at h
    · obtain ⟨r, hr, h1⟩ := caseLookup_mem h
      exact ⟨_, List.mem_cons_self .., r, hr, h1⟩
    · obtain ⟨g, hg, h1⟩ := ih h
      exact ⟨g, List.mem_cons_of_mem _ hg, h1⟩

/-- the table-level fact behind idempotence: every image is a valid scalar value that the table leaves alone
(checked by kernel evaluation over every code point of every run) -/
def imagesFixed (tbl : List (Nat × Nat × List Run)) : Bool :=
  tbl.all fun g => g.2.2.all fun r => (runPoints r).all fun n =>
    match caseLookupG n tbl with
    | none => true
    | some m => (caseLookupG m tbl).isNone && m.isValidChar

theorem lowerRuns_imagesFixed : imagesFixed Gen.lowerRuns = true := by decide +kernel

theorem caseLookupG_image {n m : Nat} (h : caseLookupG n Gen.lowerRuns = some m) :
    caseLookupG m Gen.lowerRuns = none ∧ m.isValidChar := by
  obtain ⟨g, hg, r, hr, hn⟩ := caseLookupG_mem h
  have := lowerRuns_imagesFixed
  simp only [imagesFixed, List.all_eq_true] at this
  have h3 := this g hg r hr n hn
  rw [h] at h3
  simpa [Option.isNone_iff_eq_none] using h3

theorem lowerUC_idem (c : Char) : lowerUC (lowerUC c) = lowerUC c := by
  unfold lowerUC
  cases h : caseLookupG c.toNat Gen.lowerRuns with
  | none => simp [h]
  | some m =>
    obtain ⟨h1, h2⟩ := caseLookupG_image h
    have : (Char.ofNat m).toNat = m := by
      simp [Char.ofNat, h2, Char.toNat, Char.ofNatAux]
    simp [this, h1]

@[simp] theorem lowerU_idem (s : Str) : lowerU (lowerU s) = lowerU s := by
  induction s with
  | nil => rfl
  | cons c s ih => simp only [lowerU, List.map_cons, List.map_map] at ih ⊢; simp [lowerUC_idem, ih]

end Pybtex

namespace Pybtex

/-- on ASCII the Unicode lower-casing absorbs the ASCII case changes (kernel evaluation over the 128 code points) -/
theorem lowerUC_ascii_absorbs :
    (List.range 128).all (fun n =>
      lowerUC (lowerC (Char.ofNat n)) == lowerUC (Char.ofNat n) &&
      lowerUC (upperC (Char.ofNat n)) == lowerUC (Char.ofNat n) &&
      lowerUC (Char.ofNat n) == lowerC (Char.ofNat n)) = true := by
  decide +kernel

theorem lowerC_of_ge128 (c : Char) (h : ¬ c.toNat < 128) : lowerC c = c := by
  unfold lowerC Char.toLower
  split
  · next h' =>
    exfalso
    have := UInt32.le_iff_toNat_le.1 h'.2
    simp only [Char.toNat] at h
    have h2 : 'Z'.val.toNat = 90 := by decide
    omega
  · rfl

theorem upperC_of_ge128 (c : Char) (h : ¬ c.toNat < 128) : upperC c = c := by
  unfold upperC Char.toUpper
  split
  · next h' =>
    exfalso
    have := UInt32.le_iff_toNat_le.1 h'.2
    simp only [Char.toNat] at h
    have h2 : 'z'.val.toNat = 122 := by decide
    omega
  · rfl

theorem lowerUC_lowerC (c : Char) : lowerUC (lowerC c) = lowerUC c := by
  by_cases h : c.toNat < 128
  · have := lowerUC_ascii_absorbs
    simp only [List.all_eq_true, List.mem_range, Bool.and_eq_true, beq_iff_eq] at this
    have h1 := (this c.toNat h).1.1
    rwa [Char.ofNat_toNat] at h1
  · rw [lowerC_of_ge128 c h]

theorem lowerUC_upperC (c : Char) : lowerUC (upperC c) = lowerUC c := by
  by_cases h : c.toNat < 128
  · have := lowerUC_ascii_absorbs
    simp only [List.all_eq_true, List.mem_range, Bool.and_eq_true, beq_iff_eq] at this
    have h1 := (this c.toNat h).1.2
    rwa [Char.ofNat_toNat] at h1
  · rw [upperC_of_ge128 c h]

/-- on ASCII characters the two lower-casings agree -/
theorem lowerUC_ascii (c : Char) (h : c.toNat < 128) : lowerUC c = lowerC c := by
  have := lowerUC_ascii_absorbs
  simp only [List.all_eq_true, List.mem_range, Bool.and_eq_true, beq_iff_eq] at this
  have h1 := (this c.toNat h).2
  rwa [Char.ofNat_toNat] at h1

@[simp] theorem lowerU_nil : lowerU [] = [] := rfl
@[simp] theorem lowerU_cons (c : Char) (s : Str) : lowerU (c :: s) = lowerUC c :: lowerU s := rfl
@[simp] theorem lowerU_append (a b : Str) : lowerU (a ++ b) = lowerU a ++ lowerU b := by simp [lowerU]
@[simp] theorem lowerU_length (s : Str) : (lowerU s).length = s.length := by simp [lowerU]

@[simp] theorem lowerU_lower (s : Str) : lowerU (lower s) = lowerU s := by
  induction s with
  | nil => rfl
  | cons c s ih => simp only [lower_cons, lowerU_cons, lowerUC_lowerC, ih]

@[simp] theorem lowerU_upper (s : Str) : lowerU (upper s) = lowerU s := by
  induction s with
  | nil => rfl
  | cons c s ih => simp only [upper, List.map_cons, lowerU_cons, lowerUC_upperC] at ih ⊢; rw [ih]

/-- strings equal up to ASCII case are equal up to Unicode case -/
theorem lowerU_of_lower {a b : Str} (h : lower a = lower b) : lowerU a = lowerU b := by
  rw [← lowerU_lower a, h, lowerU_lower]

end Pybtex

/-! ### `lowerPy` (the whole-string `str.lower()`) is idempotent

Every character `lowerPy` emits is *stable*: it is not U+03A3, has no multi-character form and is
not in the per-character table; a string of stable characters is left alone in every context.  The
table-level facts are checked by kernel evaluation over every entry of the regenerated tables. -/
namespace Pybtex

/-- code points that `lower()` leaves alone in every context -/
def stableN (n : Nat) : Bool :=
  !Nat.beq n 0x3A3 && (lookupMulti n Gen.lowerMultiMap).isNone && (caseLookupG n Gen.lowerRuns).isNone

theorem stableN_spec {c : Char} (h : stableN c.toNat = true) :
    isCapitalSigma c = false ∧ lowerFullC c = [c] := by
  simp only [stableN, Bool.and_eq_true, Bool.not_eq_true', Option.isNone_iff_eq_none] at h
  obtain ⟨⟨h1, h2⟩, h3⟩ := h
  refine ⟨h1, ?_⟩
  simp [lowerFullC, h2, lowerUC, h3]

theorem lowerPyAux_stable (s b : Str) (h : ∀ c ∈ s, stableN c.toNat = true) : lowerPyAux b s = s := by
  induction s generalizing b with
  | nil => rfl
  | cons c r ih =>
    obtain ⟨h1, h2⟩ := stableN_spec (h c (List.mem_cons_self ..))
    simp only [lowerPyAux, h1, h2, Bool.false_eq_true, if_false]
    rw [ih _ (fun x hx => h x (List.mem_cons_of_mem _ hx))]
    rfl

def imagesStable (tbl : List (Nat × Nat × List Run)) : Bool :=
  tbl.all fun g => g.2.2.all fun r => (runPoints r).all fun n =>
    match caseLookupG n tbl with
    | none => true
    | some m => m.isValidChar && stableN m

theorem lowerRuns_imagesStable : imagesStable Gen.lowerRuns = true := by decide +kernel

theorem multiStable :
    (Gen.lowerMultiMap.all fun p => p.2.all fun m => m.isValidChar && stableN m) = true := by decide +kernel

theorem sigmaFormsStable : stableN 0x3C2 = true ∧ stableN 0x3C3 = true := by decide +kernel

theorem lookupMulti_mem {n : Nat} {l : List Nat} {tbl : List (Nat × List Nat)} (h : lookupMulti n tbl = some l) :
    ∃ k, (k, l) ∈ tbl := by
  induction tbl with
  | nil => simp [lookupMulti] at h
  | cons p tbl ih =>
    obtain ⟨k, l'⟩ := p
    simp only [lookupMulti] at h
    split at h
    · cases h; exact ⟨k, List.mem_cons_self ..⟩
    · obtain ⟨k', hk'⟩ := ih h; exact ⟨k', List.mem_cons_of_mem _ hk'⟩

theorem toNat_ofNat_valid {m : Nat} (h : m.isValidChar) : (Char.ofNat m).toNat = m := by
  simp [Char.ofNat, h, Char.toNat, Char.ofNatAux]

theorem lowerFullC_stable {c : Char} (hc : isCapitalSigma c = false) :
    ∀ x ∈ lowerFullC c, stableN x.toNat = true := by
  intro x hx
  unfold lowerFullC at hx
  cases hm : lookupMulti c.toNat Gen.lowerMultiMap with
  | some l =>
    rw [hm] at hx
    obtain ⟨m, hml, rfl⟩ := List.mem_map.1 hx
    obtain ⟨k, hk⟩ := lookupMulti_mem hm
    have := multiStable
    simp only [List.all_eq_true, Bool.and_eq_true, decide_eq_true_eq] at this
    obtain ⟨hv, hs⟩ := this (k, l) hk m hml
    rw [toNat_ofNat_valid hv]; exact hs
  | none =>
    rw [hm] at hx
    simp only [List.mem_singleton] at hx
    subst hx
    unfold lowerUC
    cases ht : caseLookupG c.toNat Gen.lowerRuns with
    | some m =>
      obtain ⟨g, hg, r, hr, hn⟩ := caseLookupG_mem ht
      have := lowerRuns_imagesStable
      simp only [imagesStable, List.all_eq_true] at this
      have h3 := this g hg r hr c.toNat hn
      rw [ht] at h3
      simp only [Bool.and_eq_true, decide_eq_true_eq] at h3
      simp only
      rw [toNat_ofNat_valid h3.1]; exact h3.2
    | none =>
      simp only [stableN, hm, ht, Option.isNone_none, Bool.and_true, Bool.not_eq_true']
      exact hc

theorem lowerPyAux_all_stable (s b : Str) : ∀ x ∈ lowerPyAux b s, stableN x.toNat = true := by
  induction s generalizing b with
  | nil => intro x hx; simp [lowerPyAux] at hx
  | cons c r ih =>
    intro x hx
    simp only [lowerPyAux, List.mem_append] at hx
    rcases hx with hx | hx
    · by_cases hc : isCapitalSigma c = true
      · simp only [hc, if_true, List.mem_singleton] at hx
        subst hx
        split
        · exact sigmaFormsStable.1
        · exact sigmaFormsStable.2
      · have hc' : isCapitalSigma c = false := by simpa using hc
        simp only [hc', Bool.false_eq_true, if_false] at hx
        exact lowerFullC_stable hc' x hx
    · exact ih _ x hx

/-- `s.lower().lower() == s.lower()` for every string: the only fact about `str.lower()` the C13 proofs use -/
theorem lowerPy_idem (s : Str) : lowerPy (lowerPy s) = lowerPy s :=
  lowerPyAux_stable _ _ (lowerPyAux_all_stable s [])

end Pybtex
