import PybtexModel.Model.UniCase

namespace Pybtex

abbrev Run := Nat × Nat × Nat × Nat

/-- the code points of a run, enumerated -/
def runPoints (r : Run) : List Nat := List.range' r.1 ((r.2.1 - r.1) / r.2.2.1 + 1) r.2.2.1

theorem caseLookup_mem {n m : Nat} {tbl : List Run} (h : caseLookup n tbl = some m) :
    ∃ r ∈ tbl, n ∈ runPoints r := by
  induction tbl with
  | nil => simp [caseLookup] at h
  | cons r tbl ih =>
    obtain ⟨s, e, st, t⟩ := r
    simp only [caseLookup] at h
    split at h
    · next hc =>
      simp only [Bool.and_eq_true, Nat.ble_eq] at hc
      obtain ⟨⟨h1, h2⟩, h3⟩ := hc
      have h3 : (n - s) % st = 0 := by simpa using h3
      refine ⟨_, List.mem_cons_self .., ?_⟩
      simp only [runPoints, List.mem_range']
      refine ⟨(n - s) / st, ?_, ?_⟩
      · have := Nat.div_le_div_right (c := st) (show n - s ≤ e - s by omega)
        omega
      · have := Nat.div_add_mod (n - s) st
        omega
    · obtain ⟨r, hr, h1⟩ := ih h
      exact ⟨r, List.mem_cons_of_mem _ hr, h1⟩

theorem caseLookupG_mem {n m : Nat} {tbl : List (Nat × Nat × List Run)} (h : caseLookupG n tbl = some m) :
    ∃ g ∈ tbl, ∃ r ∈ g.2.2, n ∈ runPoints r := by
  induction tbl with
  | nil => simp [caseLookupG] at h
  | cons g tbl ih =>
    obtain ⟨lo, hi, rs⟩ := g
    simp only [caseLookupG] at h
    split at h
    · obtain ⟨r, hr, h1⟩ := caseLookup_mem h
      exact ⟨_, List.mem_cons_self .., r, hr, h1⟩
    · obtain ⟨g, hg, h1⟩ := ih h
      exact ⟨g, List.mem_cons_of_mem _ hg, h1⟩

/-- the table-level fact behind idempotence: every image is a valid scalar value that the table leaves alone
(checked by kernel evaluation over every code point of every run) -/
def imagesFixed (tbl : List (Nat × Nat × List Run)) : Bool :=
  tbl.all fun g => g.2.2.all fun r => (runPoints r).all fun n =>
    match caseLookupG n tbl with
    | none => true
    | some m => (caseLookupG m tbl).isNone && m.isValidChar

theorem lowerRuns_imagesFixed : imagesFixed Gen.lowerRuns = true := by decide +kernel

theorem caseLookupG_image {n m : Nat} (h : caseLookupG n Gen.lowerRuns = some m) :
    caseLookupG m Gen.lowerRuns = none ∧ m.isValidChar := by
  obtain ⟨g, hg, r, hr, hn⟩ := caseLookupG_mem h
  have := lowerRuns_imagesFixed
  simp only [imagesFixed, List.all_eq_true] at this
  have h3 := this g hg r hr n hn
  rw [h] at h3
  simpa [Option.isNone_iff_eq_none] using h3

theorem lowerUC_idem (c : Char) : lowerUC (lowerUC c) = lowerUC c := by
  unfold lowerUC
  cases h : caseLookupG c.toNat Gen.lowerRuns with
  | none => simp [h]
  | some m =>
    obtain ⟨h1, h2⟩ := caseLookupG_image h
    have : (Char.ofNat m).toNat = m := by
      simp [Char.ofNat, h2, Char.toNat, Char.ofNatAux]
    simp [this, h1]

@[simp] theorem lowerU_idem (s : Str) : lowerU (lowerU s) = lowerU s := by
  induction s with
  | nil => rfl
  | cons c s ih => simp only [lowerU, List.map_cons, List.map_map] at ih ⊢; simp [lowerUC_idem, ih]

end Pybtex
