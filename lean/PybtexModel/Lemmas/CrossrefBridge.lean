/-
Helper material for C14 (`Props/C14y.lean`): the bridge between the two models of the
cross-reference lookup.

* `Model/Crossref.lean` / `Model/CrossrefLoop.lean`: `findField` / `findFieldLoop` over the ASCII
  containers of `Model/CIMap.lean` (`lower` built in), databases `BibData`;
* `Model/CrossrefU.lean`: `Uni.findFieldLoop norm` over the containers of `Model/CIMapU.lean`
  (key normaliser a parameter), databases `Uni.UDb`.

`Entry.toU` / `BibData.toU` translate an ASCII-model entry / database into the Unicode-generic
types: the two tables of every container are taken over unchanged (same lower-cased keys, same
order, same spellings); what the Unicode types do not have is dropped (`Entry.type`,
`BibData.wanted`, `BibData.citations` — none of them is read by the lookup).  `UEntry.toA` /
`UDb.toA` go back (type `[]`, no filter, no citations), and `toU ∘ toA = id`: every value of the
Unicode types is the translation of a value of the ASCII types.

Also here: the loop of `Model/CrossrefU.lean` instrumented with a counter of the
`_find_crossref_entry` steps it takes (`Uni.findFieldLoopHops`), so that the hop bound of round 1
(`findFieldHops`, recursive model) can be stated about the loop.
-/
import PybtexModel.Lemmas.CrossrefLoop
import PybtexModel.Lemmas.CrossrefU

namespace Pybtex

/-! ### the translation -/

/-- a container of `Model/CIMap.lean` read as a container of `Model/CIMapU.lean`: the same two tables -/
def CIDict.toU {V : Type} (d : CIDict V) : Uni.CIDict V := ⟨d.dict, d.keys⟩

/-- `Entry` → `UEntry`: key, fields, persons taken over; `type` dropped -/
def Entry.toU (e : Entry) : Uni.UEntry := ⟨e.key, e.fields.toU, e.persons.toU⟩

/-- `BibData` → `UDb`: the table of entries, every entry translated; the key table unchanged;
`wanted` / `citations` dropped -/
def BibData.toU (db : BibData) : Uni.UDb :=
  ⟨db.entries.dict.map fun p => (p.1, p.2.toU), db.entries.keys⟩

/-- back: a container of `Model/CIMapU.lean` read as a container of `Model/CIMap.lean` -/
def Uni.CIDict.toA {V : Type} (d : Uni.CIDict V) : Pybtex.CIDict V := ⟨d.dict, d.keys⟩

/-- `UEntry` → `Entry` with the empty type -/
def Uni.UEntry.toA (e : Uni.UEntry) : Entry := ⟨e.key, [], e.fields.toA, e.persons.toA⟩

/-- `UDb` → `BibData` that reads everything and has no citations -/
def Uni.UDb.toA (db : Uni.UDb) : BibData :=
  ⟨⟨db.dict.map fun p => (p.1, p.2.toA), db.keys⟩, none, _root_.Pybtex.CISet.empty⟩

theorem Uni.UEntry.toU_toA (e : Uni.UEntry) : e.toA.toU = e := rfl

theorem Uni.UDb.toU_toA (db : Uni.UDb) : (Uni.UDb.toA db).toU = db := by
  obtain ⟨dict, keys⟩ := db
  simp only [Uni.UDb.toA, BibData.toU, List.map_map]
  congr 1
  induction dict with
  | nil => rfl
  | cons a r ih => simp only [List.map_cons, ih]; rfl

/-! ### lookups commute with the translation -/

theorem dget_mapVal {K V W : Type} [DecidableEq K] (f : V → W) (l : List (K × V)) (k : K) :
    dget (l.map fun p => (p.1, f p.2)) k = (dget l k).map f := by
  induction l with
  | nil => rfl
  | cons a r ih =>
    obtain ⟨k', v'⟩ := a
    simp only [List.map_cons, dget]
    split
    · rfl
    · exact ih

theorem CIDict.getItem_toU {V : Type} (d : CIDict V) (k : Str) :
    Uni.CIDict.getItem lower d.toU k = d.getItem k := rfl

theorem BibData.getItem_toU (db : BibData) (x : Str) :
    Uni.CIDict.getItem lower db.toU x = (db.entries.getItem x).map Entry.toU := by
  simp only [Uni.CIDict.getItem, BibData.toU, CIDict.getItem]
  exact dget_mapVal Entry.toU db.entries.dict (lower x)

theorem BibData.len_toU (db : BibData) : Uni.CIDict.len db.toU = db.entries.len := by
  simp [Uni.CIDict.len, BibData.toU, CIDict.len]

theorem Entry.own_toU (e : Entry) (name : Str) : e.toU.own lower name = e.own name := rfl

theorem Entry.xref_toU (e : Entry) :
    Uni.CIDict.getItem lower e.toU.fields Uni.xrefName = e.fields.getItem xrefName := rfl

/-- the step function commutes with the translation -/
theorem findCrossrefEntry_toU (bibData : Option BibData) (visited : List Str) (e : Entry) :
    Uni.findCrossrefEntry lower (bibData.map BibData.toU) visited e.toU =
      (findCrossrefEntry bibData visited e).map fun r => (r.1.toU, r.2) := by
  rw [Uni.findCrossrefEntry_eq, findCrossrefEntry_eq]
  cases bibData with
  | none => rfl
  | some db =>
    simp only [Option.map_some, Entry.xref_toU]
    cases e.fields.getItem xrefName with
    | none => rfl
    | some x =>
      dsimp only
      by_cases hv : visited.contains (lower x) = true
      · rw [if_pos hv, if_pos hv]; rfl
      · rw [if_neg hv, if_neg hv, BibData.getItem_toU]
        cases db.entries.getItem x <;> rfl

/-- the loop commutes with the translation: every database (or none), visited set, entry, name -/
theorem findFieldLoop_toU (bibData : Option BibData) (visited : List Str) (e : Entry) (name : Str) :
    Uni.findFieldLoop lower (bibData.map BibData.toU) visited e.toU name =
      findFieldLoop bibData visited e name := by
  fun_induction findFieldLoop bibData visited e name with
  | case1 V e v h =>
    rw [Uni.findFieldLoop_eq, Entry.own_toU]; simp [Entry.own, h]
  | case2 V e h1 v h2 =>
    rw [Uni.findFieldLoop_eq, Entry.own_toU]; simp [Entry.own, h1, h2]
  | case3 V e h1 h2 hstep =>
    rw [Uni.findFieldLoop_eq, Entry.own_toU, findCrossrefEntry_toU, hstep]; simp [Entry.own, h1, h2]
  | case4 V e h1 h2 p V' hstep ih =>
    rw [Uni.findFieldLoop_eq, Entry.own_toU, findCrossrefEntry_toU, hstep]
    simp only [Entry.own, h1, h2, Option.map_some]
    exact ih

/-! ### the loop with a counter -/

namespace Uni
variable (norm : Str → Str)

set_option linter.unusedVariables false in
/-- `findFieldLoop` with a counter: the same loop, and the number of turns that took a
`_find_crossref_entry` step (= cross-references followed = iterations of `while True:` minus one
when a value is returned). -/
def findFieldLoopHops (bibData : Option UDb) (visited : List Str) (e : UEntry) (name : Str) : Option Str × Nat :=
  match CIDict.getItem norm e.fields name with
  | some v => (some v, 0)
  | none =>
    match findPersonField norm e name with
    | some v => (some v, 0)
    | none =>
      match h : findCrossrefEntry norm bibData visited e with
      | none => (none, 0)
      | some (p, visited') =>
        ((findFieldLoopHops bibData visited' p name).1, (findFieldLoopHops bibData visited' p name).2 + 1)
termination_by
  match bibData with
  | none => 0
  | some db => unvisited db.dict visited
decreasing_by
  obtain ⟨db, x, rfl, -, hv, hp, rfl⟩ := findCrossrefEntry_some norm h
  exact unvisited_lt _ _ _ p hp hv

theorem findFieldLoopHops_eq (bibData : Option UDb) (visited : List Str) (e : UEntry) (name : Str) :
    findFieldLoopHops norm bibData visited e name =
      match e.own norm name with
      | some v => (some v, 0)
      | none =>
        match findCrossrefEntry norm bibData visited e with
        | none => (none, 0)
        | some (p, visited') =>
          ((findFieldLoopHops norm bibData visited' p name).1, (findFieldLoopHops norm bibData visited' p name).2 + 1) := by
  rw [findFieldLoopHops.eq_def]
  unfold UEntry.own
  cases CIDict.getItem norm e.fields name with
  | some v => rfl
  | none =>
    dsimp only
    cases findPersonField norm e name with
    | some v => rfl
    | none =>
      dsimp only
      split <;> simp_all

/-- the instrumented loop is the loop -/
theorem findFieldLoopHops_fst (bibData : Option UDb) (visited : List Str) (e : UEntry) (name : Str) :
    (findFieldLoopHops norm bibData visited e name).1 = findFieldLoop norm bibData visited e name := by
  fun_induction findFieldLoopHops norm bibData visited e name <;> rw [findFieldLoop_eq] <;> simp_all [UEntry.own]

theorem unvisited_le_length {V : Type} (dict : List (Str × V)) (visited : List Str) :
    unvisited dict visited ≤ dict.length := by
  induction dict with
  | nil => simp [unvisited]
  | cons a r ih =>
    simp only [unvisited, List.length_cons]
    split <;> omega

/-- the number of steps taken is at most the number of database slots not followed before -/
theorem findFieldLoopHops_le (bibData : Option UDb) (visited : List Str) (e : UEntry) (name : Str) :
    (findFieldLoopHops norm bibData visited e name).2 ≤
      match bibData with
      | none => 0
      | some db => unvisited db.dict visited := by
  fun_induction findFieldLoopHops norm bibData visited e name with
  | case1 => simp
  | case2 => simp
  | case3 => simp
  | case4 V e h1 h2 p V' hstep ih =>
    obtain ⟨db, x, rfl, -, hv, hp, rfl⟩ := findCrossrefEntry_some norm hstep
    have hlt := unvisited_lt db.dict V (norm x) p hp hv
    simp only at ih ⊢
    omega

end Uni

/-- the counter of the loop model is the counter of the recursive model -/
theorem findFieldLoopHops_toU (bibData : Option BibData) (visited : List Str) (e : Entry) (name : Str) :
    Uni.findFieldLoopHops lower (bibData.map BibData.toU) visited e.toU name =
      findFieldHops bibData visited e name := by
  fun_induction findFieldHops bibData visited e name
  all_goals
    rw [Uni.findFieldLoopHops_eq, Entry.own_toU, findCrossrefEntry_toU, findCrossrefEntry_eq]
    simp_all [Entry.own]

end Pybtex
