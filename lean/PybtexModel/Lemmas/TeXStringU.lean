/-
Helper lemmas for the character-class generic primitives of `Model/TeXStringU.lean`
(`bibtexPurifyG`, `changeCaseG`, `bibtexFirstLetterG` …).  Everything is proved once from a few
laws of the character operations (`CaseLaws`: a canonical form `fold` "up to case" that absorbs
the two case mappings, idempotence of the mappings, structural characters untouched) and then
instantiated with the ASCII operations (`asciiLaws`, `fold = lowerC`) and with the tables of the
running interpreter (`uniLaws`, `fold = caseFoldC`; the laws come from `Lemmas/UniCaseUp.lean`).
The proofs follow the ASCII ones of `Lemmas/TeXString.lean`.
-/
import PybtexModel.Lemmas.TeXString
import PybtexModel.Lemmas.UniCaseUp

namespace Pybtex.TeXU
open Spec

/-! ### purify -/

theorem purifyTokG_range (o : CharOps) (t : Tok) : ∀ c ∈ purifyTokG o t, o.alnum c = true ∨ c = ' ' := by
  intro c hc
  unfold purifyTokG at hc
  split at hc
  · exact Or.inl (List.mem_filter.1 hc).2
  · split at hc
    · rename_i h; exact Or.inl (List.all_eq_true.1 h.2 c hc)
    · split at hc
      · simp at hc; exact Or.inr hc
      · simp at hc

theorem purifyTokG_single (o : CharOps) {c : Char} (h : o.alnum c = true ∨ c = ' ') :
    purifyTokG o ([c], 0) = [c] := by
  rcases h with h | rfl
  · simp [purifyTokG, h]
  · cases h : o.alnum ' ' with
    | true => simp [purifyTokG, h]
    | false =>
      have : isWs ' ' = true := by decide
      simp [purifyTokG, h, this]

/-- a string of alphanumerics and blanks is a fixed point of purify, provided the braces are
not alphanumeric -/
theorem purifyG_fixed (o : CharOps) (h1 : o.alnum '{' = false) (h2 : o.alnum '}' = false) (p : Str)
    (hp : ∀ c ∈ p, o.alnum c = true ∨ c = ' ') : bibtexPurifyG o p = some p := by
  have hb : ∀ c ∈ p, c ≠ '{' ∧ c ≠ '}' := by
    intro c hc
    rcases hp c hc with h | rfl
    · constructor <;> rintro rfl
      · rw [h1] at h; cases h
      · rw [h2] at h; cases h
    · decide
  unfold bibtexPurifyG scan
  rw [scanM_plain p 0 hb]
  simp only [Option.map_some, Option.some.injEq, List.map_map]
  clear hb
  induction p with
  | nil => rfl
  | cons c r ih =>
    have := ih (fun x hx => hp x (List.mem_cons_of_mem _ hx))
    simp only [List.map_cons, List.flatten_cons, Function.comp_apply, purifyTokG_single o (hp c (by simp)), this]
    rfl

theorem isAlnumU_braces : isAlnumU '{' = false ∧ isAlnumU '}' = false := by decide +kernel

theorem uniOps_alnum_braces : uniOps.alnum '{' = false ∧ uniOps.alnum '}' = false := by decide +kernel

theorem purifyTokG_ascii (t : Tok) : purifyTokG asciiOps t = purifyTok t := rfl

theorem bibtexPurifyG_ascii (s : Str) : bibtexPurifyG asciiOps s = bibtexPurify s := rfl

/-! ### the laws of the character operations -/

/-- what the case-change proofs need to know about the character operations: `fold` is a
canonical form up to case -/
structure CaseLaws (o : CharOps) (fold : Char → Char) : Prop where
  fold_lo : ∀ c, fold (o.lo c) = fold c
  fold_up : ∀ c, fold (o.up c) = fold c
  lo_lo : ∀ c, o.lo (o.lo c) = o.lo c
  up_up : ∀ c, o.up (o.up c) = o.up c
  fold_struct : ∀ c x, isStruct x = true → (fold c = x ↔ c = x)

theorem isStruct_of_not_alpha_ascii {x : Char} (h : isStruct x = true) : isAlpha x = false := by
  simp only [isStruct, structCodes, wsCodes, List.contains_eq_mem, List.cons_append, List.nil_append,
    List.mem_cons, List.not_mem_nil, or_false, decide_eq_true_eq] at h
  simp only [isAlpha, Bool.or_eq_false_iff, Bool.and_eq_false_iff, decide_eq_false_iff_not]
  omega

theorem asciiLaws : CaseLaws asciiOps lowerC where
  fold_lo c := Char.toLower_toLower_eq_toLower c
  fold_up c := lowerC_upperC c
  lo_lo c := Char.toLower_toLower_eq_toLower c
  up_up c := upperC_upperC c
  fold_struct _ _ hx := lowerC_eq_iff (isStruct_of_not_alpha_ascii hx)

theorem uniLaws : CaseLaws uniOps caseFoldC where
  fold_lo c := caseFoldC_lowerUC c
  fold_up c := caseFoldC_upperUC c
  lo_lo c := lowerUC_idem c
  up_up c := upperUC_idem c
  fold_struct _ _ hx := caseFoldC_struct hx

theorem struct_chars : isStruct '{' = true ∧ isStruct '}' = true ∧ isStruct '\\' = true ∧
    isStruct ' ' = true ∧ isStruct ':' = true := by decide

theorem isStruct_of_isWs {x : Char} (h : isWs x = true) : isStruct x = true := by
  simp only [isWs, List.contains_eq_mem, decide_eq_true_eq] at h
  simp only [isStruct, structCodes, List.contains_eq_mem, decide_eq_true_eq, List.mem_append]
  exact Or.inr h

section generic
variable {o : CharOps} {fold : Char → Char} (L : CaseLaws o fold)
include L

theorem CaseLaws.fold_self {x : Char} (hx : isStruct x = true) : fold x = x :=
  (L.fold_struct x x hx).2 rfl

theorem CaseLaws.eq_iff {a b x : Char} (h : fold a = fold b) (hx : isStruct x = true) : a = x ↔ b = x := by
  rw [← L.fold_struct a x hx, h, L.fold_struct b x hx]

theorem CaseLaws.isWs_eq {a b : Char} (h : fold a = fold b) : isWs a = isWs b := by
  cases ha : isWs a with
  | true =>
    have := (L.eq_iff h (isStruct_of_isWs ha)).1 rfl
    rw [this, ha]
  | false =>
    cases hb : isWs b with
    | false => rfl
    | true =>
      have := (L.eq_iff h (isStruct_of_isWs hb)).2 rfl
      rw [this, hb] at ha; cases ha

/-! strings -/

theorem CaseLaws.map_lo (s : Str) : (s.map o.lo).map fold = s.map fold := by
  simp only [List.map_map]; apply List.map_congr_left; intro c _; exact L.fold_lo c

theorem CaseLaws.map_up (s : Str) : (s.map o.up).map fold = s.map fold := by
  simp only [List.map_map]; apply List.map_congr_left; intro c _; exact L.fold_up c

theorem CaseLaws.map_lo_lo (s : Str) : (s.map o.lo).map o.lo = s.map o.lo := by
  simp only [List.map_map]; apply List.map_congr_left; intro c _; exact L.lo_lo c

theorem CaseLaws.map_up_up (s : Str) : (s.map o.up).map o.up = s.map o.up := by
  simp only [List.map_map]; apply List.map_congr_left; intro c _; exact L.up_up c

omit L in
theorem fold_eq_cons {fold : Char → Char} {s' : Str} {c : Char} {r : Str} (h : s'.map fold = (c :: r).map fold) :
    ∃ c' r', s' = c' :: r' ∧ fold c' = fold c ∧ r'.map fold = r.map fold := by
  cases s' with
  | nil => simp at h
  | cons c' r' =>
    simp only [List.map_cons, List.cons.injEq] at h
    exact ⟨c', r', rfl, h.1, h.2⟩

omit L in
theorem fold_eq_nil {fold : Char → Char} {s' : Str} (h : s'.map fold = ([] : Str).map fold) : s' = [] := by
  cases s' with
  | nil => rfl
  | cons c' r' => simp at h

omit L in
theorem length_eq_of_fold_eq {fold : Char → Char} {a b : Str} (h : a.map fold = b.map fold) : a.length = b.length := by
  have := congrArg List.length h
  simpa using this

theorem CaseLaws.head_iff {a b : Str} (h : a.map fold = b.map fold) {x : Char} (hx : isStruct x = true) :
    a.head? = some x ↔ b.head? = some x := by
  cases a with
  | nil => rw [fold_eq_nil h.symm]
  | cons c r =>
    obtain ⟨c', r', rfl, h1, _⟩ := fold_eq_cons h.symm
    simp only [List.head?_cons, Option.some.injEq]
    exact L.eq_iff h1.symm hx

/-! ### case conversion of one token -/

theorem CaseLaws.fold_convertStr (m : CaseMode) (st : CaseState) (w : Str) :
    (convertStrG o m st w).map fold = w.map fold := by
  cases m with
  | l => simp only [convertStrG, L.map_lo]
  | u => simp only [convertStrG, L.map_up]
  | t => simp only [convertStrG]; split <;> simp only [L.map_lo]

theorem CaseLaws.convertStr_idem (m : CaseMode) (st : CaseState) (w : Str) :
    convertStrG o m st (convertStrG o m st w) = convertStrG o m st w := by
  cases m with
  | l => simp only [convertStrG, L.map_lo_lo]
  | u => simp only [convertStrG, L.map_up_up]
  | t => simp only [convertStrG]; split <;> simp only [L.map_lo_lo]

omit L in
theorem fold_joinWith_map {fold : Char → Char} (f : Str → Str) (hf : ∀ w, (f w).map fold = w.map fold) (ws : List Str) :
    (joinWith [' '] (ws.map f)).map fold = (joinWith [' '] ws).map fold := by
  induction ws with
  | nil => rfl
  | cons x r ih =>
    cases r with
    | nil => simp [joinWith, hf]
    | cons y r' =>
      simp only [List.map_cons, joinWith, List.map_append, hf] at ih ⊢
      rw [ih]

/-- the word map of `convertSpecialG` -/
def specialWordG (o : CharOps) (m : CaseMode) (st : CaseState) (w : Str) : Str :=
  if startsWithBackslash w then w else convertStrG o m st w

omit L in
theorem convertSpecialG_eq (o : CharOps) (m : CaseMode) (st : CaseState) (t : Str) :
    convertSpecialG o m st t = joinWith [' '] ((splitSpace t).map (specialWordG o m st)) := rfl

theorem CaseLaws.fold_specialWord (m : CaseMode) (st : CaseState) (w : Str) :
    (specialWordG o m st w).map fold = w.map fold := by
  simp only [specialWordG]; split
  · rfl
  · exact L.fold_convertStr m st w

theorem CaseLaws.fold_convertSpecial (m : CaseMode) (st : CaseState) (t : Str) :
    (convertSpecialG o m st t).map fold = t.map fold := by
  rw [convertSpecialG_eq, fold_joinWith_map _ (L.fold_specialWord m st), joinWith_splitSpace]

theorem CaseLaws.startsWithBackslash_eq {a b : Str} (h : a.map fold = b.map fold) :
    startsWithBackslash a = startsWithBackslash b := by
  have := L.head_iff h struct_chars.2.2.1
  simp only [startsWithBackslash]
  by_cases hb : b.head? = some '\\'
  · simp [hb, this.2 hb]
  · have : ¬ a.head? = some '\\' := fun ha => hb (this.1 ha)
    simp [hb, this]

theorem CaseLaws.mem_iff {a b : Str} (h : a.map fold = b.map fold) {x : Char} (hx : isStruct x = true) :
    x ∈ a ↔ x ∈ b := by
  induction a generalizing b with
  | nil => rw [fold_eq_nil h.symm]
  | cons c r ih =>
    obtain ⟨c', r', rfl, h1, h2⟩ := fold_eq_cons h.symm
    simp only [List.mem_cons]
    rw [ih h2.symm, eq_comm, L.eq_iff h1.symm hx, eq_comm]

theorem CaseLaws.specialWord_idem (m : CaseMode) (st : CaseState) (w : Str) :
    specialWordG o m st (specialWordG o m st w) = specialWordG o m st w := by
  have h := L.startsWithBackslash_eq (L.fold_specialWord m st w)
  cases hw : startsWithBackslash w with
  | true => simp [specialWordG, hw]
  | false =>
    rw [hw] at h
    have e : specialWordG o m st w = convertStrG o m st w := by simp [specialWordG, hw]
    rw [e] at h ⊢
    simp [specialWordG, h, L.convertStr_idem]

theorem CaseLaws.convertSpecial_idem (m : CaseMode) (st : CaseState) (t : Str) :
    convertSpecialG o m st (convertSpecialG o m st t) = convertSpecialG o m st t := by
  rw [convertSpecialG_eq o m st t]
  rw [convertSpecialG_eq, splitSpace_joinWith]
  · rw [List.map_map]
    congr 1
    apply List.map_congr_left
    intro w _
    exact L.specialWord_idem m st w
  · simpa using splitSpace_ne_nil t
  · intro w hw
    obtain ⟨w0, hw0, rfl⟩ := List.mem_map.1 hw
    rw [L.mem_iff (L.fold_specialWord m st w0) struct_chars.2.2.2.1]
    exact splitSpace_no_space t w0 hw0

/-! ### case conversion token by token -/

omit L in
/-- one token -/
def caseTokG (o : CharOps) (m : CaseMode) (st : CaseState) (t : Tok) : Str :=
  match t with
  | (t, 0) => convertStrG o m st t
  | (t, l + 1) => if l + 1 = 1 ∧ startsWithBackslash t then convertSpecialG o m st t else t

omit L in
def caseToksG (o : CharOps) (m : CaseMode) : CaseState → List Tok → List Tok
  | _, [] => []
  | st, (t, 0) :: r => (caseTokG o m st (t, 0), 0) :: caseToksG o m (caseNext st t) r
  | st, (t, l + 1) :: r => (caseTokG o m st (t, l + 1), l + 1) :: caseToksG o m st r

omit L in
theorem changeCaseAuxG_eq (o : CharOps) (m : CaseMode) (toks : List Tok) : ∀ st,
    changeCaseAuxG o m st toks = tokText (caseToksG o m st toks) := by
  induction toks with
  | nil => intro st; rfl
  | cons t r ih =>
    intro st
    obtain ⟨t, l⟩ := t
    cases l with
    | zero => simp only [changeCaseAuxG, caseToksG, tokText_cons, caseTokG, caseNext, ih]
    | succ l => simp only [changeCaseAuxG, caseToksG, tokText_cons, caseTokG, ih]

theorem CaseLaws.fold_caseTok (m : CaseMode) (st : CaseState) (t : Tok) :
    (caseTokG o m st t).map fold = t.1.map fold := by
  obtain ⟨t, l⟩ := t
  cases l with
  | zero => simp only [caseTokG, L.fold_convertStr]
  | succ l =>
    simp only [caseTokG]; split
    · exact L.fold_convertSpecial m st t
    · rfl

theorem CaseLaws.fold_caseToks (m : CaseMode) (toks : List Tok) : ∀ st,
    (tokText (caseToksG o m st toks)).map fold = (tokText toks).map fold := by
  induction toks with
  | nil => intro st; rfl
  | cons t r ih =>
    intro st
    obtain ⟨t, l⟩ := t
    cases l with
    | zero => simp only [caseToksG, tokText_cons, List.map_append, L.fold_caseTok, ih]
    | succ l => simp only [caseToksG, tokText_cons, List.map_append, L.fold_caseTok, ih]

/-! ### scanning strings with the same skeleton -/

theorem CaseLaws.endsInSpecial_eq (s : Str) : ∀ (s' : Str) (sp : Bool) (d : Nat), s'.map fold = s.map fold →
    endsInSpecial sp d s' = endsInSpecial sp d s := by
  induction s with
  | nil => intro s' sp d h; rw [fold_eq_nil h]
  | cons c r ih =>
    intro s' sp d h
    obtain ⟨c', r', rfl, h1, h2⟩ := fold_eq_cons h
    have e1 := L.eq_iff h1 struct_chars.1
    have e2 := L.eq_iff h1 struct_chars.2.1
    have e3 := L.head_iff h2 struct_chars.2.2.1
    simp only [endsInSpecial, e1, e2, e3, ih r' _ _ h2]

omit L in
def SkelGoalG (fold : Char → Char) (s : Str) (toks : List Tok) : ScanMode → Prop
  | .norm d => ∀ s', s'.map fold = s.map fold → ∃ toks', scanM (.norm d) s' = some toks' ∧ Shape toks toks'
  | .spec k acc => ∀ s' acc', s'.map fold = s.map fold → acc'.map fold = acc.map fold →
      ∃ toks', scanM (.spec k acc') s' = some toks' ∧ Shape toks toks'

theorem CaseLaws.scanM_skel (m : ScanMode) (s : Str) (toks : List Tok) (h : scanM m s = some toks) :
    SkelGoalG fold s toks m := by
  fun_induction scanM m s generalizing toks with
  | case1 d =>
    cases h
    simp only [SkelGoalG]
    intro s' hs
    rw [fold_eq_nil hs]
    exact ⟨[], by simp [scanM], List.Forall₂.nil⟩
  | case2 k acc =>
    cases h
    simp only [SkelGoalG]
    intro s' acc' hs hacc
    rw [fold_eq_nil hs]
    exact ⟨[(acc', 1), (['}'], 0)], by simp [scanM],
      Shape.cons' (length_eq_of_fold_eq hacc.symm) rfl (Shape.cons' rfl rfl List.Forall₂.nil)⟩
  | case3 d r hs ih =>
    obtain ⟨t, ht, rfl⟩ := Option.map_eq_some_iff.1 h
    obtain ⟨rfl, hr⟩ := hs
    have := ih t ht
    simp only [SkelGoalG] at this ⊢
    intro s' hs'
    obtain ⟨c', r', rfl, h1, h2⟩ := fold_eq_cons hs'
    have hc' : c' = '{' := (L.eq_iff h1 struct_chars.1).2 rfl
    subst hc'
    have hr' := (L.head_iff h2 struct_chars.2.2.1).2 hr
    obtain ⟨toks', h3, h4⟩ := this r' [] h2 rfl
    exact ⟨(['{'], 1) :: toks', by rw [scanM_norm_open_special hr', h3]; rfl, Shape.cons' rfl rfl h4⟩
  | case4 => simp at h
  | case5 d r hs hd' ih =>
    obtain ⟨t, ht, rfl⟩ := Option.map_eq_some_iff.1 h
    have := ih t ht
    simp only [SkelGoalG] at this ⊢
    intro s' hs'
    obtain ⟨c', r', rfl, h1, h2⟩ := fold_eq_cons hs'
    have hc' : c' = '{' := (L.eq_iff h1 struct_chars.1).2 rfl
    subst hc'
    have hr' : ¬ (d = 0 ∧ r'.head? = some '\\') := fun hh =>
      hs ⟨hh.1, (L.head_iff h2 struct_chars.2.2.1).1 hh.2⟩
    obtain ⟨toks', h3, h4⟩ := this r' h2
    exact ⟨(['{'], d + 1) :: toks', by rw [scanM_norm_open hr' hd', h3]; rfl, Shape.cons' rfl rfl h4⟩
  | case6 d c r hc hcd ih =>
    obtain ⟨t, ht, rfl⟩ := Option.map_eq_some_iff.1 h
    have := ih t ht
    simp only [SkelGoalG] at this ⊢
    intro s' hs'
    obtain ⟨c', r', rfl, h1, h2⟩ := fold_eq_cons hs'
    have hc' : c' = '}' := (L.eq_iff h1 struct_chars.2.1).2 hcd.1
    subst hc'
    obtain ⟨toks', h3, h4⟩ := this r' h2
    exact ⟨(['}'], d - 1) :: toks', by rw [scanM_norm_close hcd.2, h3]; rfl, Shape.cons' rfl rfl h4⟩
  | case7 d c r hc hcd ih =>
    obtain ⟨t, ht, rfl⟩ := Option.map_eq_some_iff.1 h
    have := ih t ht
    simp only [SkelGoalG] at this ⊢
    intro s' hs'
    obtain ⟨c', r', rfl, h1, h2⟩ := fold_eq_cons hs'
    have hc1 : ¬ c' = '{' := fun hh => hc ((L.eq_iff h1 struct_chars.1).1 hh)
    have hc2 : ¬ (c' = '}' ∧ d > 0) := fun hh =>
      hcd ⟨(L.eq_iff h1 struct_chars.2.1).1 hh.1, hh.2⟩
    obtain ⟨toks', h3, h4⟩ := this r' h2
    exact ⟨([c'], d) :: toks', by rw [scanM_norm_char hc1 hc2, h3]; rfl, Shape.cons' rfl rfl h4⟩
  | case8 => simp at h
  | case9 k acc r hk ih =>
    have := ih toks h
    simp only [SkelGoalG] at this ⊢
    intro s' acc' hs' hacc
    obtain ⟨c', r', rfl, h1, h2⟩ := fold_eq_cons hs'
    have hc' : c' = '{' := (L.eq_iff h1 struct_chars.1).2 rfl
    subst hc'
    obtain ⟨toks', h3, h4⟩ := this r' (acc' ++ ['{']) h2 (by simp [hacc])
    exact ⟨toks', by rw [scanM_spec_open hk, h3], h4⟩
  | case10 k acc r hk hne ih =>
    obtain ⟨t, ht, rfl⟩ := Option.map_eq_some_iff.1 h
    have := ih t ht
    simp only [SkelGoalG] at this ⊢
    intro s' acc' hs' hacc
    obtain ⟨c', r', rfl, h1, h2⟩ := fold_eq_cons hs'
    have hc' : c' = '}' := (L.eq_iff h1 struct_chars.2.1).2 rfl
    subst hc'
    obtain ⟨toks', h3, h4⟩ := this r' h2
    exact ⟨(acc', 1) :: (['}'], 0) :: toks', by rw [scanM_spec_close1 hk, h3]; rfl,
      Shape.cons' (length_eq_of_fold_eq hacc.symm) rfl (Shape.cons' rfl rfl h4)⟩
  | case11 k acc r hk hne ih =>
    have := ih toks h
    simp only [SkelGoalG] at this ⊢
    intro s' acc' hs' hacc
    obtain ⟨c', r', rfl, h1, h2⟩ := fold_eq_cons hs'
    have hc' : c' = '}' := (L.eq_iff h1 struct_chars.2.1).2 rfl
    subst hc'
    obtain ⟨toks', h3, h4⟩ := this r' (acc' ++ ['}']) h2 (by simp [hacc])
    exact ⟨toks', by rw [scanM_spec_close hk, h3], h4⟩
  | case12 k acc c r hc hc2 ih =>
    have := ih toks h
    simp only [SkelGoalG] at this ⊢
    intro s' acc' hs' hacc
    obtain ⟨c', r', rfl, h1, h2⟩ := fold_eq_cons hs'
    have hc1 : ¬ c' = '{' := fun hh => hc ((L.eq_iff h1 struct_chars.1).1 hh)
    have hc2' : ¬ c' = '}' := fun hh => hc2 ((L.eq_iff h1 struct_chars.2.1).1 hh)
    obtain ⟨toks', h3, h4⟩ := this r' (acc' ++ [c']) h2 (by simp [hacc, h1])
    exact ⟨toks', by rw [scanM_spec_char hc1 hc2', h3], h4⟩

/-! ### case conversion is idempotent on token lists -/

theorem CaseLaws.eq_singleton_iff {a b : Str} (h : a.map fold = b.map fold) {x : Char} (hx : isStruct x = true) :
    a = [x] ↔ b = [x] := by
  cases a with
  | nil => rw [fold_eq_nil h.symm]
  | cons c r =>
    obtain ⟨c', r', rfl, h1, h2⟩ := fold_eq_cons h.symm
    have e := L.eq_iff h1 hx
    cases r with
    | nil => rw [fold_eq_nil h2]; simp [e]
    | cons c2 r2 =>
      obtain ⟨c2', r2', rfl, _, _⟩ := fold_eq_cons h2
      simp

theorem CaseLaws.all_isWs_eq {a b : Str} (h : a.map fold = b.map fold) : a.all isWs = b.all isWs := by
  induction a generalizing b with
  | nil => rw [fold_eq_nil h.symm]
  | cons c r ih =>
    obtain ⟨c', r', rfl, h1, h2⟩ := fold_eq_cons h.symm
    simp only [List.all_cons, ih h2.symm, L.isWs_eq h1]

theorem CaseLaws.caseNext_eq (st : CaseState) {a b : Str} (h : a.map fold = b.map fold) :
    caseNext st a = caseNext st b := by
  have e1 := L.eq_singleton_iff h struct_chars.2.2.2.2
  have e2 := L.all_isWs_eq h
  have e3 : a = [] ↔ b = [] := by
    constructor
    · intro ha; subst ha; exact fold_eq_nil h.symm
    · intro hb; subst hb; exact fold_eq_nil h
  have e4 : a ≠ [] ↔ b ≠ [] := not_congr e3
  simp only [caseNext, e1, e2, e4]

theorem CaseLaws.caseTok_idem (m : CaseMode) (st : CaseState) (t : Str) (l : Nat) :
    caseTokG o m st (caseTokG o m st (t, l), l) = caseTokG o m st (t, l) := by
  cases l with
  | zero => simp only [caseTokG, L.convertStr_idem]
  | succ l =>
    simp only [caseTokG]
    split
    · rename_i hc
      have := L.startsWithBackslash_eq (L.fold_convertSpecial m st t)
      rw [if_pos ⟨hc.1, by rw [this]; exact hc.2⟩, L.convertSpecial_idem]
    · rfl

theorem CaseLaws.caseToks_idem (m : CaseMode) (toks : List Tok) : ∀ st,
    caseToksG o m st (caseToksG o m st toks) = caseToksG o m st toks := by
  induction toks with
  | nil => intro st; rfl
  | cons t r ih =>
    intro st
    obtain ⟨t, l⟩ := t
    cases l with
    | zero =>
      simp only [caseToksG, L.caseTok_idem]
      have : caseNext st (caseTokG o m st (t, 0)) = caseNext st t :=
        L.caseNext_eq st (L.fold_caseTok m st (t, 0))
      rw [this, ih]
    | succ l => simp only [caseToksG, L.caseTok_idem, ih]

theorem CaseLaws.caseToks_shape (m : CaseMode) (toks : List Tok) : ∀ st, Shape toks (caseToksG o m st toks) := by
  induction toks with
  | nil => intro st; exact List.Forall₂.nil
  | cons t r ih =>
    intro st
    obtain ⟨t, l⟩ := t
    cases l with
    | zero =>
      exact Shape.cons' (length_eq_of_fold_eq (L.fold_caseTok m st (t, 0)).symm) rfl (ih _)
    | succ l =>
      exact Shape.cons' (length_eq_of_fold_eq (L.fold_caseTok m st (t, l + 1)).symm) rfl (ih _)

/-! ### what case conversion leaves alone -/

omit L in
/-- relation between a token and its case-converted form: same level; a token inside braces that
is not a special character is unchanged; in a special character the words (split at spaces) that
start with a backslash are unchanged and the others keep their letters up to case -/
def CaseTokRelG (fold : Char → Char) (t t' : Tok) : Prop :=
  t'.2 = t.2 ∧
  (1 ≤ t.2 → ¬ (t.2 = 1 ∧ startsWithBackslash t.1 = true) → t'.1 = t.1) ∧
  (t.2 = 1 → startsWithBackslash t.1 = true →
    ∃ ws', t'.1 = joinWith [' '] ws' ∧
      List.Forall₂ (fun w w' => (startsWithBackslash w = true → w' = w) ∧ w'.map fold = w.map fold)
        (splitSpace t.1) ws')

theorem CaseLaws.caseTokRel (m : CaseMode) (st : CaseState) (t : Str) (l : Nat) :
    CaseTokRelG fold (t, l) (caseTokG o m st (t, l), l) := by
  refine ⟨rfl, ?_, ?_⟩
  · intro h1 h2
    cases l with
    | zero => simp at h1
    | succ l => simp only [caseTokG]; rw [if_neg h2]
  · intro h1 h2
    simp only at h1 h2
    subst h1
    have e : caseTokG o m st (t, 1) = convertSpecialG o m st t := by simp [caseTokG, h2]
    rw [e]
    refine ⟨_, convertSpecialG_eq o m st t, forall₂_map_self _ _ ?_ _⟩
    intro w
    exact ⟨fun hw => by simp [specialWordG, hw], L.fold_specialWord m st w⟩

theorem CaseLaws.caseToks_rel (m : CaseMode) (toks : List Tok) : ∀ st,
    List.Forall₂ (CaseTokRelG fold) toks (caseToksG o m st toks) := by
  induction toks with
  | nil => intro st; exact List.Forall₂.nil
  | cons t r ih =>
    intro st
    obtain ⟨t, l⟩ := t
    cases l with
    | zero => exact List.Forall₂.cons (L.caseTokRel m st t 0) (ih _)
    | succ l => exact List.Forall₂.cons (L.caseTokRel m st t (l + 1)) (ih _)

/-! ### the three case-change laws, generically -/

/-- letters up to case (and every other character) are kept when every special character is closed -/
theorem CaseLaws.case_letters (s r : Str) (m : CaseMode) (hs : specialsClosed s = true)
    (h : changeCaseG o s m = some r) : r.map fold = s.map fold := by
  obtain ⟨toks, ht, rfl⟩ := Option.map_eq_some_iff.1 h
  rw [changeCaseAuxG_eq, L.fold_caseToks]
  have h1 := scanM_text _ _ _ ht
  simp only [ScanMode.acc, ScanMode.sp, ScanMode.depth, List.nil_append] at h1
  simp only [specialsClosed, Bool.not_eq_true'] at hs
  rw [h1, hs]; simp [closeIf]

theorem CaseLaws.case_idem (s r : Str) (m : CaseMode) (hs : specialsClosed s = true)
    (h : changeCaseG o s m = some r) : changeCaseG o r m = some r := by
  have hlow := L.case_letters s r m hs h
  obtain ⟨toks, ht, rfl⟩ := Option.map_eq_some_iff.1 h
  rw [changeCaseAuxG_eq] at hlow ⊢
  obtain ⟨toks', h1, h2⟩ := L.scanM_skel _ _ _ ht _ hlow
  have hsp : endsInSpecial false 0 s = false := by simpa [specialsClosed] using hs
  have htxt := scanM_text _ _ _ h1
  simp only [ScanMode.acc, ScanMode.sp, ScanMode.depth, List.nil_append,
    L.endsInSpecial_eq s _ false 0 hlow, hsp, closeIf, List.append_nil] at htxt
  have heq : toks' = caseToksG o m .start toks := shape_eq h2 (L.caseToks_shape m toks .start) htxt
  subst heq
  simp only [changeCaseG, scan, h1, Option.map_some, changeCaseAuxG_eq, L.caseToks_idem]

end generic

/-! ### at the ASCII operations the generic primitives are those of `Model/TeXString.lean` -/

theorem convertStrG_ascii (m : CaseMode) (st : CaseState) (w : Str) : convertStrG asciiOps m st w = convertStr m st w := by
  cases m <;> rfl

theorem convertSpecialG_ascii (m : CaseMode) (st : CaseState) (t : Str) :
    convertSpecialG asciiOps m st t = convertSpecial m st t := by
  simp only [convertSpecialG, convertSpecial, convertStrG_ascii]

theorem changeCaseAuxG_ascii (m : CaseMode) (toks : List Tok) : ∀ st,
    changeCaseAuxG asciiOps m st toks = changeCaseAux m st toks := by
  induction toks with
  | nil => intro st; rfl
  | cons t r ih =>
    intro st
    obtain ⟨t, l⟩ := t
    cases l with
    | zero => simp only [changeCaseAuxG, changeCaseAux, convertStrG_ascii, ih]
    | succ l => simp only [changeCaseAuxG, changeCaseAux, convertSpecialG_ascii, ih]

theorem changeCaseG_ascii (s : Str) (m : CaseMode) : changeCaseG asciiOps s m = changeCase s m := by
  simp only [changeCaseG, changeCase]
  congr 1
  funext toks
  exact changeCaseAuxG_ascii m toks .start

theorem firstLetterAuxG_ascii (toks : List Tok) : firstLetterAuxG asciiOps toks = firstLetterAux toks := by
  induction toks with
  | nil => rfl
  | cons t r ih =>
    obtain ⟨t, l⟩ := t
    simp only [firstLetterAuxG, firstLetterAux, ih]
    rfl

theorem bibtexFirstLetterG_ascii (s : Str) : bibtexFirstLetterG asciiOps s = bibtexFirstLetter s := by
  simp only [bibtexFirstLetterG, bibtexFirstLetter]
  congr 1
  funext toks
  exact firstLetterAuxG_ascii toks

/-! ### first letter, abbreviation, width -/

theorem firstLetterOf_cons (alpha : Char → Bool) (t : Tok) (r : List Tok) :
    Spec.firstLetterOf alpha (t :: r) =
      if Spec.firstLetterStops alpha t.1 = true then
        (if t.1.head? = some '\\' ∧ t.1 ≠ ['\\'] then ['{'] ++ t.1 ++ ['}'] else t.1)
      else Spec.firstLetterOf alpha r := by
  simp only [Spec.firstLetterOf, List.find?_cons]
  cases h : Spec.firstLetterStops alpha t.1 <;> simp

theorem firstLetterStops_iff (alpha : Char → Bool) (t : Str) : Spec.firstLetterStops alpha t = true ↔
    ¬ isBraceTok t = true ∧ ((startsWithBackslash t = true ∧ t ≠ ['\\']) ∨ (t ≠ [] ∧ t.all alpha = true)) := by
  simp [Spec.firstLetterStops, isBraceTok, startsWithBackslash]

theorem firstLetterAuxG_eq_spec (o : CharOps) (toks : List Tok) :
    firstLetterAuxG o toks = Spec.firstLetterOf o.alpha toks := by
  induction toks with
  | nil => rfl
  | cons t r ih =>
    obtain ⟨t, l⟩ := t
    rw [firstLetterOf_cons]
    simp only [firstLetterAuxG]
    by_cases hb : isBraceTok t = true
    · have : ¬ Spec.firstLetterStops o.alpha t = true := by rw [firstLetterStops_iff]; exact fun h => h.1 hb
      rw [if_pos hb, if_neg this, ih]
    · rw [if_neg hb]
      by_cases hs : startsWithBackslash t = true ∧ t ≠ ['\\']
      · have : Spec.firstLetterStops o.alpha t = true := (firstLetterStops_iff _ _).2 ⟨hb, Or.inl hs⟩
        have h2 : t.head? = some '\\' ∧ t ≠ ['\\'] := by simpa [startsWithBackslash] using hs
        rw [if_pos hs, if_pos this, if_pos h2]
      · have h2 : ¬ (t.head? = some '\\' ∧ t ≠ ['\\']) := by simpa [startsWithBackslash] using hs
        rw [if_neg hs]
        by_cases ha : t ≠ [] ∧ t.all o.alpha = true
        · have : Spec.firstLetterStops o.alpha t = true := (firstLetterStops_iff _ _).2 ⟨hb, Or.inr ha⟩
          rw [if_pos ha, if_pos this, if_neg h2]
        · have : ¬ Spec.firstLetterStops o.alpha t = true := by
            rw [firstLetterStops_iff]; rintro ⟨_, h | h⟩
            · exact hs h
            · exact ha h
          rw [if_neg ha, if_neg this, ih]

theorem firstLetterAuxG_plain (o : CharOps) (s : Str) (d : Nat) (hs : ∀ c ∈ s, c ≠ '{' ∧ c ≠ '}' ∧ c ≠ '\\') :
    firstLetterAuxG o (s.map fun c => ([c], d)) = (match s.find? o.alpha with | some c => [c] | none => []) := by
  induction s with
  | nil => rfl
  | cons c r ih =>
    have hc := hs c (by simp)
    have := ih (fun x hx => hs x (List.mem_cons_of_mem _ hx))
    have h1 : isBraceTok [c] = false := by simp [isBraceTok, hc.1, hc.2.1]
    have h2 : startsWithBackslash [c] = false := by simp [startsWithBackslash, hc.2.2]
    simp only [List.map_cons, firstLetterAuxG, h1, h2, Bool.false_eq_true, if_false, false_and, List.find?_cons]
    cases ha : o.alpha c with
    | true => simp [ha]
    | false => simp [ha, this]

theorem mapM_some_forall₂ {α β} (f : α → Option β) : ∀ (l : List α) (r : List β), l.mapM f = some r →
    List.Forall₂ (fun a b => f a = some b) l r := by
  intro l
  induction l with
  | nil => intro r h; simp at h; subst h; exact List.Forall₂.nil
  | cons a l ih =>
    intro r h
    rw [List.mapM_cons] at h
    cases ha : f a with
    | none => simp [ha] at h
    | some b =>
      cases hl : l.mapM f with
      | none => simp [ha, hl] at h
      | some bs =>
        simp [ha, hl] at h
        subst h
        exact List.Forall₂.cons ha (ih bs hl)

/-- width of the inner text of a special character: everything after its first character, braces
not counted -/
def specialWidth (w : Char → Int) (body : Str) : Int :=
  ((body.drop 1).filter fun c => c ≠ '{' ∧ c ≠ '}').foldl (fun a c => a + w c) 0

theorem width_plain_toks (w : Char → Int) (s : Str) (d : Nat) (hs : ∀ c ∈ s, c ≠ '{') (b : Bool)
    (hb : b = false ∨ d ≠ 1) :
    widthToks w b (s.map fun c => (([c], d) : Tok)) = (s.map w).sum := by
  induction s generalizing b with
  | nil => rfl
  | cons c r ih =>
    have hc : c ≠ '{' := hs c (by simp)
    have hflag : decide ((([c], d) : Tok) = (['{'], 1)) = false := by simp [hc]
    have hr := ih (fun x hx => hs x (List.mem_cons_of_mem _ hx)) false (Or.inl rfl)
    have h1 : widthTok w b ([c], d) = w c := by
      simp only [widthTok]
      rw [if_neg]
      rintro ⟨h1, _, h3⟩
      rcases hb with hb | hb
      · rw [hb] at h3; cases h3
      · exact hb h1
    simp only [List.map_cons, widthToks, List.sum_cons, hflag, hr, h1]

end Pybtex.TeXU
