/-
Helper lemmas for the second part of the C05 model (`Model/CitationsX.lean`).
-/
import PybtexModel.Lemmas.Filtered
import PybtexModel.Lemmas.CitationSpelling
import PybtexModel.Model.CitationsX

namespace Pybtex
open Spec

/-- the reader's `SkipEntry` test is the first test of `add_entry` once more -/
theorem parseEntry_eq_addEntry (d : BibData) (k : Str) (e : Entry) : d.parseEntry k e = d.addEntry k e := by
  unfold BibData.parseEntry
  split
  · rename_i h
    unfold BibData.addEntry
    simp [h]
  · rfl

theorem addEntries_eq_readEntries (file : List (Str × Entry)) :
    ∀ d : BibData, d.addEntries file = d.readEntries file := by
  induction file with
  | nil => intro d; rfl
  | cons p file ih =>
    intro d
    obtain ⟨k, e⟩ := p
    simp only [BibData.addEntries, BibData.readEntries, parseEntry_eq_addEntry]
    cases h : d.addEntry k e with
    | none => rfl
    | some r =>
      obtain ⟨d1, rep1⟩ := r
      simp only [ih d1]
      cases d1.readEntries file with
      | none => rfl
      | some r => rfl

/-- the entries looked up for the present keys carry the DATABASE's spelling of each key -/
theorem lookupAll_present_exact {db : BibData} (hdb : DbWF db) (l : List Str) :
    ∃ es, db.lookupAll (present db.toS l) = some es ∧
      es.map (·.key) = (present db.toS l).filterMap (fun c => (find db.toS c).map (·.key)) := by
  induction l with
  | nil => exact ⟨[], rfl, rfl⟩
  | cons c l ih =>
    obtain ⟨es, h1, h2⟩ := ih
    simp only [present, List.filter_cons]
    cases h : (find db.toS c).isSome with
    | false => simp only [Bool.false_eq_true, if_false]; exact ⟨es, h1, h2⟩
    | true =>
      simp only [if_true]
      have hg := getItem_entries hdb c
      cases hgc : db.entries.getItem c with
      | none => rw [hgc] at hg; simp [← hg] at h
      | some e =>
        rw [hgc] at hg
        refine ⟨e :: es, ?_, ?_⟩
        · simp only [BibData.lookupAll, hgc]
          show Option.map _ (db.lookupAll (present db.toS l)) = _
          rw [h1]; rfl
        · simp only [List.map_cons, List.filterMap_cons, ← hg, Option.map_some]
          congr 1

/-- only `max min_crossrefs 1` matters -/
theorem extraFrom_floor (sdb : SDb) (m : Int) (hm : m ≤ 1) (l : List Str) :
    ∀ suf pre, extraFrom sdb m l pre suf = extraFrom sdb 1 l pre suf := by
  have hmax : max m 1 = max (1 : Int) 1 := by omega
  intro suf
  induction suf with
  | nil => intro pre; rfl
  | cons c suf ih => intro pre; simp only [extraFrom, hmax, ih]

/-! ### citing every database key = citing `*` -/

theorem dedupFrom_all_seen {seen l : List Str} (h : ∀ x ∈ l, seen.any (keq x) = true) : dedupFrom seen l = [] := by
  induction l with
  | nil => rfl
  | cons k l ih =>
    simp only [dedupFrom, h k (by simp), if_true]
    exact ih (fun x hx => h x (List.mem_cons_of_mem _ hx))

theorem mem_substStar {sdb : SDb} {l : List Str} {x : Str} (h : x ∈ substStar sdb l) : x ∈ keys sdb ∨ x ∈ l := by
  unfold substStar at h
  rw [List.mem_flatMap] at h
  obtain ⟨c, hc, hx⟩ := h
  split at hx
  · left; exact hx
  · right
    simp only [List.mem_singleton] at hx
    subst hx; exact hc

/-- the database keys, cited in database order, resolve to themselves — even when one of them is `*` -/
theorem dedup_substStar_keys_aux (sdb : SDb) (hwf : (keys sdb).Pairwise fun a b => keq a b = false) :
    ∀ (l P seen : List Str), keys sdb = P ++ l → (∀ k, seen.any (keq k) = P.any (keq k)) →
      dedupFrom seen (substStar sdb l) = l := by
  intro l
  induction l with
  | nil => intro P seen _ _; rfl
  | cons c l ih =>
    intro P seen hK hseen
    have hpw := hwf
    rw [hK, List.pairwise_append] at hpw
    obtain ⟨-, -, hcross⟩ := hpw
    have hunseen : ∀ x ∈ c :: l, seen.any (keq x) = false := by
      intro x hx
      rw [hseen, Bool.eq_false_iff]
      intro h
      obtain ⟨p, hp, hk⟩ := List.any_eq_true.1 h
      have := hcross p hp x hx
      rw [keq_comm] at hk
      rw [hk] at this
      cases this
    rw [substStar_cons]
    by_cases hs : c = Spec.star
    · rw [if_pos hs, dedupFrom_append, dedupFrom_filter hwf]
      have h1 : (keys sdb).filter (fun k => !seen.any (keq k)) = c :: l := by
        rw [hK, List.filter_append]
        have ha : P.filter (fun k => !seen.any (keq k)) = [] := by
          rw [List.filter_eq_nil_iff]
          intro p hp
          have : seen.any (keq p) = true := by
            rw [hseen]; exact List.any_eq_true.2 ⟨p, hp, keq_refl p⟩
          simp [this]
        have hb : (c :: l).filter (fun k => !seen.any (keq k)) = c :: l := by
          rw [List.filter_eq_self]
          intro x hx
          simp [hunseen x hx]
        rw [ha, hb]; rfl
      rw [h1, dedupFrom_all_seen, List.append_nil]
      intro x hx
      rw [List.any_append, Bool.or_eq_true]
      have hkeys : x ∈ keys sdb → ((c :: l).reverse.any (keq x) = true ∨ seen.any (keq x) = true) := by
        intro hx
        rw [hK] at hx
        rcases List.mem_append.1 hx with hx | hx
        · right; rw [hseen]; exact List.any_eq_true.2 ⟨x, hx, keq_refl x⟩
        · left; exact List.any_eq_true.2 ⟨x, List.mem_reverse.2 hx, keq_refl x⟩
      rcases mem_substStar hx with hx | hx
      · exact hkeys hx
      · exact hkeys (by rw [hK]; exact List.mem_append_right _ (List.mem_cons_of_mem _ hx))
    · rw [if_neg hs]
      simp only [List.singleton_append, dedupFrom, hunseen c (by simp), Bool.false_eq_true, if_false]
      congr 1
      apply ih (P ++ [c]) (c :: seen) (by rw [hK]; simp)
      intro k
      simp [List.any_cons, List.any_append, hseen k, Bool.or_comm]

theorem expanded_keys (sdb : SDb) (hwf : Spec.WF sdb) : expanded sdb (keys sdb) = keys sdb :=
  dedup_substStar_keys_aux sdb (nodup_pairwise_keq hwf) (keys sdb) [] [] rfl (fun _ => rfl)

/-- when every database key is cited no entry is left to be appended -/
theorem extra_keys_nil (sdb : SDb) (m : Int) : extra sdb (keys sdb) m = [] := by
  rw [List.eq_nil_iff_forall_not_mem]
  intro x hx
  obtain ⟨hnc, -, -, c, -, P, hP, hk⟩ := mem_extraFrom hx
  have hmem : P ∈ sdb := by
    unfold parentOf at hP
    cases hf : find sdb c with
    | none => simp [hf] at hP
    | some e =>
      simp only [hf, Option.bind_some] at hP
      cases hx' : e.crossref with
      | none => simp [hx'] at hP
      | some x' =>
        simp only [hx', Option.bind_some] at hP
        exact List.mem_of_find?_eq_some hP
  have : cited (keys sdb) x = true :=
    List.any_eq_true.2 ⟨P.key, List.mem_map.2 ⟨P, hmem, rfl⟩, by rw [hk]; exact keq_refl x⟩
  rw [hnc] at this
  cases this

theorem find_key_of_mem {sdb : SDb} (hwf : Spec.WF sdb) {k : Str} (hk : k ∈ keys sdb) :
    (find sdb k).map (·.key) = some k := by
  obtain ⟨e0, he0, hke0⟩ := List.mem_map.1 hk
  cases hf : find sdb k with
  | none =>
    unfold find at hf
    rw [List.find?_eq_none] at hf
    have := hf e0 he0
    simp [hke0, keq_refl] at this
  | some e =>
    have hmem : e ∈ sdb := List.mem_of_find?_eq_some hf
    have hkeq : keq e.key k = true := by
      have := List.find?_some hf
      exact this
    simp only [Option.map_some, Option.some.injEq]
    exact eq_of_nodup_lower hwf (List.mem_map.2 ⟨e, hmem, rfl⟩) hk hkeq

/-! ### key folding -/

theorem lowerPyAux_of_foldDomain (s : Str) (h : foldDomain s = true) : ∀ rb, lowerPyAux rb s = lower s := by
  induction s with
  | nil => intro rb; rfl
  | cons c r ih =>
    intro rb
    simp only [foldDomain, List.all_cons, Bool.and_eq_true] at h
    obtain ⟨hc, hr⟩ := h
    simp only [foldDomainC, Bool.and_eq_true, Bool.not_eq_true', beq_iff_eq] at hc
    simp only [lowerPyAux, hc.1, hc.2, lower_cons, Bool.false_eq_true, if_false]
    rw [ih hr]; rfl

theorem foldDomainC_ascii_table : ∀ n, n < 128 → foldDomainC (Char.ofNat n) = true := by decide +kernel

theorem foldDomainC_ascii (c : Char) (h : c.toNat < 128) : foldDomainC c = true := by
  have := foldDomainC_ascii_table c.toNat h
  rwa [Char.ofNat_toNat] at this

end Pybtex
