/-
Helper lemmas for C05 / C14: abstraction of the model database (C13 containers) to the plain
lists of `Spec/Citations.lean`, well-formedness, and the refinement lemmas
model function = specification function.
-/
import PybtexModel.Model.Citations
import PybtexModel.Model.Crossref
import PybtexModel.Spec.Citations
import PybtexModel.Lemmas.CIMap

namespace Pybtex
open Spec

/-! ### `keq` -/

theorem keq_iff (a b : Str) : keq a b = true ↔ lower a = lower b := by simp [keq]
theorem keq_refl (a : Str) : keq a a = true := by simp [keq]
theorem keq_comm (a b : Str) : keq a b = keq b a := by
  unfold keq; rw [Bool.eq_iff_iff]; simp only [beq_iff_eq]; exact eq_comm
theorem keq_congr_left {a a' : Str} (h : lower a = lower a') (b : Str) : keq a b = keq a' b := by
  simp [keq, h]
theorem keq_congr_right (a : Str) {b b' : Str} (h : lower b = lower b') : keq a b = keq a b' := by
  simp [keq, h]
theorem keq_lower_left (a b : Str) : keq (lower a) b = keq a b := by simp [keq]
theorem keq_lower_right (a b : Str) : keq a (lower b) = keq a b := by simp [keq]

theorem any_keq_congr {k k' : Str} (h : lower k = lower k') (l : List Str) :
    l.any (keq k) = l.any (keq k') := by
  induction l with
  | nil => rfl
  | cons x l ih => simp [List.any_cons, keq_congr_left h, ih]

theorem cited_congr {k k' : Str} (h : lower k = lower k') (l : List Str) : cited l k = cited l k' :=
  any_keq_congr h l

/-! ### abstraction -/

/-- items of a container in the spec's form -/
def itemsOf {V : Type} (d : CIDict V) : List (Str × V) := (CIDict.abs d).map fun t => (t.2.1, t.2.2)

def Entry.toS (e : Entry) : SEntry :=
  { key := e.key, fields := itemsOf e.fields, persons := itemsOf e.persons }

def BibData.toS (d : BibData) : SDb := (CIDict.abs d.entries).map fun t => t.2.2.toS

structure EntryWF (e : Entry) : Prop where
  fields : CIDict.Inv e.fields
  persons : CIDict.Inv e.persons

/-- Well-formed database: the containers satisfy their lock-step invariant (C13) and every entry
is stored under its own key (what `add_entry` does). -/
structure DbWF (d : BibData) : Prop where
  inv : CIDict.Inv d.entries
  keyEq : ∀ t ∈ CIDict.abs d.entries, t.2.2.key = t.2.1
  entries : ∀ t ∈ CIDict.abs d.entries, EntryWF t.2.2

theorem omap_get_find {V : Type} (m : OMap V) (hw : ∀ e ∈ m, e.1 = lower e.2.1) (k : Str) :
    OMap.get m k = ((m.map fun t => (t.2.1, t.2.2)).find? fun p => keq p.1 k).map (·.2) := by
  induction m with
  | nil => simp [OMap.get]
  | cons e m ih =>
    obtain ⟨l, sp, v⟩ := e
    have hl : l = lower sp := hw (l, sp, v) (by simp)
    have ih' := ih (fun e he => hw e (List.mem_cons_of_mem _ he))
    simp only [OMap.get, List.map_cons, List.find?_cons]
    by_cases h : l = lower k
    · have : keq sp k = true := by rw [keq_iff, ← hl, h]
      simp [h, this]
    · have : keq sp k = false := by
        rw [Bool.eq_false_iff]; intro hk; rw [keq_iff, ← hl] at hk; exact h hk
      simp [h, this, ih']

theorem getItem_field {V : Type} {d : CIDict V} (h : CIDict.Inv d) (k : Str) :
    d.getItem k = ((itemsOf d).find? fun p => keq p.1 k).map (·.2) := by
  rw [CIDict.getItem_abs h, omap_get_find _ (CIDict.abs_wf h).1]
  rfl

theorem Entry.field_toS {e : Entry} (h : EntryWF e) (n : Str) : e.fields.getItem n = e.toS.field n :=
  getItem_field h.fields n

theorem Entry.role_toS {e : Entry} (h : EntryWF e) (n : Str) : e.persons.getItem n = e.toS.role n :=
  getItem_field h.persons n

theorem Entry.crossref_toS {e : Entry} (h : EntryWF e) : e.fields.getItem Pybtex.xrefName = e.toS.crossref :=
  getItem_field h.fields _

theorem getItem_lower_congr {V : Type} (d : CIDict V) {x y : Str} (h : lower x = lower y) : d.getItem x = d.getItem y := by
  simp [CIDict.getItem, h]

theorem omap_get_mem {V : Type} {m : OMap V} {k : Str} {v : V} (h : OMap.get m k = some v) :
    ∃ t ∈ m, t.2.2 = v ∧ t.1 = lower k := by
  induction m with
  | nil => simp [OMap.get] at h
  | cons e m ih =>
    obtain ⟨l, sp, w⟩ := e
    simp only [OMap.get] at h
    split at h
    · rename_i hl
      exact ⟨(l, sp, w), by simp, Option.some.inj h, hl⟩
    · obtain ⟨t, ht, hv⟩ := ih h
      exact ⟨t, List.mem_cons_of_mem _ ht, hv⟩

theorem getItem_entries {d : BibData} (h : DbWF d) (c : Str) :
    (d.entries.getItem c).map Entry.toS = find d.toS c := by
  rw [CIDict.getItem_abs h.inv]
  have hw := (CIDict.abs_wf h.inv).1
  have hk := h.keyEq
  unfold BibData.toS find
  generalize CIDict.abs d.entries = m at hw hk
  induction m with
  | nil => simp [OMap.get]
  | cons e m ih =>
    obtain ⟨l, sp, v⟩ := e
    have hl : l = lower sp := hw (l, sp, v) (by simp)
    have hkey : v.key = sp := hk (l, sp, v) (by simp)
    have ih' := ih (fun e he => hw e (List.mem_cons_of_mem _ he)) (fun e he => hk e (List.mem_cons_of_mem _ he))
    simp only [OMap.get, List.map_cons, List.find?_cons]
    by_cases hc : l = lower c
    · have : keq v.toS.key c = true := by
        show keq v.key c = true
        rw [keq_iff, hkey, ← hl, hc]
      simp [hc, this]
    · have : keq v.toS.key c = false := by
        show keq v.key c = false
        rw [Bool.eq_false_iff]; intro hk'; rw [keq_iff, hkey, ← hl] at hk'; exact hc hk'
      simp [hc, this, ih']

theorem getItem_entries_wf {d : BibData} (h : DbWF d) {c : Str} {e : Entry} (he : d.entries.getItem c = some e) :
    EntryWF e ∧ lower e.key = lower c := by
  rw [CIDict.getItem_abs h.inv] at he
  obtain ⟨t, ht, hv, hl⟩ := omap_get_mem he
  subst hv
  refine ⟨h.entries t ht, ?_⟩
  rw [h.keyEq t ht, ← (CIDict.abs_wf h.inv).1 t ht, hl]

theorem iter_entries {d : BibData} (h : DbWF d) : CIDict.iter d.entries = keys d.toS := by
  rw [CIDict.iter_abs h.inv]
  unfold BibData.toS keys OMap.keys
  rw [List.map_map]
  apply List.map_congr_left
  intro t ht
  exact (h.keyEq t ht).symm

theorem toS_wf {d : BibData} (h : DbWF d) : Spec.WF d.toS := by
  unfold Spec.WF
  rw [← iter_entries h, CIDict.iter_abs h.inv]
  have hwf := CIDict.abs_wf h.inv
  have : (OMap.keys (CIDict.abs d.entries)).map lower = (CIDict.abs d.entries).map (·.1) := by
    unfold OMap.keys
    rw [List.map_map]
    apply List.map_congr_left
    intro t ht
    exact (hwf.1 t ht).symm
  rw [this]
  exact hwf.2

theorem contains_entries {d : BibData} (h : DbWF d) (c : Str) :
    d.entries.contains c = (find d.toS c).isSome := by
  rw [← getItem_entries h c]
  simp [CIDict.contains, CIDict.getItem, dhas]

/-! ### the running `CaseInsensitiveSet` against a plain list of keys seen -/

/-- the set answers membership like the list `seen` (up to case) -/
def SetRel (s : CISet) (seen : List Str) : Prop := ∀ k, s.contains k = seen.any (keq k)

theorem contains_add (s : CISet) (c k : Str) : (s.add c).contains k = (keq k c || s.contains k) := by
  simp only [CISet.add, CISet.contains, keq]
  by_cases h : s.set.contains (lower c)
  · rw [if_pos h]
    by_cases hk : lower k = lower c
    · rw [hk, h]; simp
    · simp [hk]
  · rw [if_neg h]
    rw [Bool.eq_iff_iff]
    simp only [List.contains_append, List.contains_cons, List.contains_nil, Bool.or_false, Bool.or_eq_true,
      beq_iff_eq]
    exact or_comm

theorem SetRel.empty : SetRel CISet.empty [] := by
  intro k; simp [CISet.empty, CISet.contains]

theorem SetRel.add {s : CISet} {seen : List Str} (h : SetRel s seen) (c : Str) : SetRel (s.add c) (c :: seen) := by
  intro k
  rw [contains_add, h k, List.any_cons]

theorem SetRel.ofList_aux (l : List Str) {s : CISet} {seen : List Str} (h : SetRel s seen) :
    SetRel (l.foldl CISet.add s) (l.reverse ++ seen) := by
  induction l generalizing s seen with
  | nil => simpa using h
  | cons c l ih =>
    have := ih (h.add c)
    simpa [List.foldl_cons, List.reverse_cons, List.append_assoc] using this

theorem contains_ofList (l : List Str) (k : Str) : (CISet.ofList l).contains k = cited l k := by
  have := SetRel.ofList_aux l SetRel.empty k
  rw [List.append_nil, List.any_reverse] at this
  exact this

/-! ### `dedupFrom` -/

theorem dedupFrom_congr {seen seen' : List Str} (h : ∀ k, seen.any (keq k) = seen'.any (keq k)) (l : List Str) :
    dedupFrom seen l = dedupFrom seen' l := by
  induction l generalizing seen seen' with
  | nil => rfl
  | cons k l ih =>
    simp only [dedupFrom, h k]
    split
    · exact ih h
    · congr 1
      apply ih
      intro k'
      simp [List.any_cons, h k']

theorem dedupFrom_append (seen a b : List Str) :
    dedupFrom seen (a ++ b) = dedupFrom seen a ++ dedupFrom ((dedupFrom seen a).reverse ++ seen) b := by
  induction a generalizing seen with
  | nil => simp [dedupFrom]
  | cons k a ih =>
    simp only [List.cons_append, dedupFrom]
    split
    · exact ih seen
    · rw [ih (k :: seen)]
      simp [List.reverse_cons, List.append_assoc]

theorem mem_dedupFrom {seen l : List Str} {x : Str} (h : x ∈ dedupFrom seen l) :
    x ∈ l ∧ seen.any (keq x) = false := by
  induction l generalizing seen with
  | nil => simp [dedupFrom] at h
  | cons k l ih =>
    simp only [dedupFrom] at h
    split at h
    · obtain ⟨h1, h2⟩ := ih h
      exact ⟨List.mem_cons_of_mem _ h1, h2⟩
    · rename_i hk
      rcases List.mem_cons.1 h with h | h
      · subst h; exact ⟨by simp, by simpa using hk⟩
      · obtain ⟨h1, h2⟩ := ih h
        refine ⟨List.mem_cons_of_mem _ h1, ?_⟩
        rw [List.any_cons, Bool.or_eq_false_iff] at h2
        exact h2.2

/-- no two elements of the de-duplicated list are equal up to case -/
theorem dedupFrom_pairwise (seen l : List Str) :
    (dedupFrom seen l).Pairwise fun a b => keq a b = false := by
  induction l generalizing seen with
  | nil => simp [dedupFrom]
  | cons k l ih =>
    simp only [dedupFrom]
    split
    · exact ih seen
    · refine List.Pairwise.cons ?_ (ih _)
      intro x hx
      have := (mem_dedupFrom hx).2
      rw [List.any_cons, Bool.or_eq_false_iff] at this
      rw [keq_comm]; exact this.1

theorem pairwise_keq_nodup {l : List Str} (h : l.Pairwise fun a b => keq a b = false) : (l.map lower).Nodup := by
  induction l with
  | nil => simp
  | cons a l ih =>
    obtain ⟨h1, h2⟩ := List.pairwise_cons.1 h
    simp only [List.map_cons, List.nodup_cons]
    refine ⟨?_, ih h2⟩
    intro hm
    obtain ⟨b, hb, hab⟩ := List.mem_map.1 hm
    have := h1 b hb
    rw [Bool.eq_false_iff] at this
    exact this ((keq_iff a b).2 hab.symm)

theorem nodup_pairwise_keq {l : List Str} (h : (l.map lower).Nodup) : l.Pairwise fun a b => keq a b = false := by
  induction l with
  | nil => simp
  | cons a l ih =>
    simp only [List.map_cons, List.nodup_cons] at h
    refine List.Pairwise.cons ?_ (ih h.2)
    intro b hb
    rw [Bool.eq_false_iff]
    intro hk
    apply h.1
    rw [(keq_iff a b).1 hk]
    exact List.mem_map.2 ⟨b, hb, rfl⟩

/-- every element of the input is represented (up to case) in `seen` or in the result -/
theorem dedupFrom_complete (seen l : List Str) {x : Str} (hx : x ∈ l) :
    seen.any (keq x) = true ∨ (dedupFrom seen l).any (keq x) = true := by
  induction l generalizing seen with
  | nil => simp at hx
  | cons k l ih =>
    simp only [dedupFrom]
    rcases List.mem_cons.1 hx with h | h
    · subst h
      split
      · left; assumption
      · right; simp [List.any_cons, keq_refl]
    · split
      · exact ih seen h
      · rcases ih (k :: seen) h with h' | h'
        · rw [List.any_cons, Bool.or_eq_true] at h'
          rcases h' with h' | h'
          · right; simp [List.any_cons, h']
          · left; exact h'
        · right; simp [List.any_cons, h']

/-- on a list without case-duplicates `dedupFrom` only filters out what was seen -/
theorem dedupFrom_filter {seen l : List Str} (h : l.Pairwise fun a b => keq a b = false) :
    dedupFrom seen l = l.filter fun k => !seen.any (keq k) := by
  induction l generalizing seen with
  | nil => rfl
  | cons k l ih =>
    obtain ⟨h1, h2⟩ := List.pairwise_cons.1 h
    simp only [dedupFrom, List.filter_cons]
    by_cases hk : seen.any (keq k) = true
    · simp [hk, ih h2]
    · simp only [hk, Bool.false_eq_true, if_false, Bool.not_false, if_true]
      congr 1
      rw [ih h2]
      apply List.filter_congr
      intro x hx
      have := h1 x hx
      rw [keq_comm] at this
      simp [List.any_cons, this]

/-! ### `_expand_wildcard_citations` = `expanded` -/

theorem expandStar_spec {s : CISet} {seen : List Str} (h : SetRel s seen) (ks : List Str) :
    (BibData.expandStar s ks).2 = dedupFrom seen ks ∧
    SetRel (BibData.expandStar s ks).1 ((dedupFrom seen ks).reverse ++ seen) := by
  induction ks generalizing s seen with
  | nil => simpa [BibData.expandStar, dedupFrom] using h
  | cons k ks ih =>
    simp only [BibData.expandStar, dedupFrom, h k]
    split
    · exact ih h
    · obtain ⟨h1, h2⟩ := ih (h.add k)
      refine ⟨by simp [h1], ?_⟩
      simpa [List.reverse_cons, List.append_assoc] using h2

theorem substStar_cons (db : SDb) (c : Str) (r : List Str) :
    substStar db (c :: r) = (if c = Spec.star then keys db else [c]) ++ substStar db r := by
  simp [substStar]

theorem expandAux_spec {db : BibData} (hdb : DbWF db) {s : CISet} {seen : List Str} (h : SetRel s seen) (cits : List Str) :
    BibData.expandAux db s cits = dedupFrom seen (substStar db.toS cits) := by
  induction cits generalizing s seen with
  | nil => simp [BibData.expandAux, substStar, dedupFrom]
  | cons c r ih =>
    rw [substStar_cons]
    simp only [BibData.expandAux]
    by_cases hc : c = Pybtex.star
    · have hc' : c = Spec.star := hc
      rw [if_pos hc, if_pos hc', dedupFrom_append, iter_entries hdb]
      obtain ⟨h1, h2⟩ := expandStar_spec h (keys db.toS)
      rw [h1, ih h2]
    · have hc' : ¬ c = Spec.star := hc
      rw [if_neg hc, if_neg hc']
      simp only [List.cons_append, List.nil_append, dedupFrom, h c]
      split
      · exact ih h
      · rw [ih (h.add c)]

theorem expandWildcard_spec {db : BibData} (hdb : DbWF db) (cits : List Str) :
    db.expandWildcard cits = expanded db.toS cits :=
  expandAux_spec hdb SetRel.empty cits

/-! ### the counter -/

theorem getItemDefault_setItem (d : CIDict Int) (k k' : Str) (v : Int) :
    (d.setItem k v).getItemDefault k' 0 = if lower k' = lower k then v else d.getItemDefault k' 0 := by
  simp only [CIDict.getItemDefault, CIDict.getItem, CIDict.setItem]
  by_cases h : lower k' = lower k
  · rw [if_pos h, h, dget_dset_same]; rfl
  · rw [if_neg h, dget_dset_ne _ _ _ _ h]

theorem getItemDefault_congr (d : CIDict Int) {k k' : Str} (h : lower k = lower k') :
    d.getItemDefault k 0 = d.getItemDefault k' 0 := by
  simp [CIDict.getItemDefault, CIDict.getItem, h]

theorem refCount_append (db : SDb) (p : Str) (a b : List Str) :
    refCount db p (a ++ b) = refCount db p a + refCount db p b := by
  simp [refCount, List.filter_append]

theorem refCount_single (db : SDb) (p c : Str) : refCount db p [c] = if refers db p c then 1 else 0 := by
  simp only [refCount, List.filter_cons, List.filter_nil]
  split <;> rfl

theorem refers_congr {p p' : Str} (h : lower p = lower p') (db : SDb) (c : Str) : refers db p c = refers db p' c := by
  unfold refers
  split
  · exact keq_congr_right _ h
  · rfl

theorem refCount_congr {p p' : Str} (h : lower p = lower p') (db : SDb) (l : List Str) :
    refCount db p l = refCount db p' l := by
  unfold refCount
  congr 1
  apply List.filter_congr
  intro c _
  exact refers_congr h db c

theorem refers_of_parent {db : SDb} {c : Str} {P : SEntry} (h : parentOf db c = some P) (k : Str) :
    refers db k c = keq P.key k := by
  simp [refers, h]

theorem refers_of_no_parent {db : SDb} {c : Str} (h : parentOf db c = none) (k : Str) : refers db k c = false := by
  simp [refers, h]

/-! ### `_get_crossreferenced_citations` = `extra` + `dangling` -/

/-- invariant of the loop: `pre` = citations passed, `Y` = parents yielded so far -/
structure XInv (sdb : SDb) (m : Int) (L : List Str) (st : BibData.XState) (pre Y : List Str) : Prop where
  count : ∀ k, st.count.getItemDefault k 0 = (refCount sdb k pre : Int)
  cset : ∀ k, st.cset.contains k = (cited L k || Y.any (keq k))
  yielded : ∀ k, Y.any (keq k) = true ↔ (cited L k = false ∧ max m 1 ≤ (refCount sdb k pre : Int))

theorem XInv.skip {sdb : SDb} {m : Int} {L : List Str} {st : BibData.XState} {pre Y : List Str} {c : Str}
    (h : XInv sdb m L st pre Y) (hp : parentOf sdb c = none) : XInv sdb m L st (pre ++ [c]) Y := by
  have hr : ∀ k, refCount sdb k (pre ++ [c]) = refCount sdb k pre := by
    intro k; rw [refCount_append, refCount_single, refers_of_no_parent hp]; simp
  exact ⟨fun k => by rw [hr]; exact h.count k, h.cset, fun k => by rw [hr]; exact h.yielded k⟩

/-- the dangling reference of one citation, if any -/
def danglingAt (sdb : SDb) (c : Str) : Option (Str × Str) :=
  (find sdb c).bind fun e => e.crossref.bind fun x =>
    match find sdb x with
    | none => some (c, x)
    | some _ => none

theorem dangling_eq (sdb : SDb) (l : List Str) : dangling sdb l = l.filterMap (danglingAt sdb) := rfl

theorem dangling_cons_none {sdb : SDb} {c : Str} (h : danglingAt sdb c = none) (suf : List Str) :
    dangling sdb (c :: suf) = dangling sdb suf := by
  simp [dangling_eq, h]

theorem dangling_cons_some {sdb : SDb} {c : Str} {b : Str × Str} (h : danglingAt sdb c = some b) (suf : List Str) :
    dangling sdb (c :: suf) = b :: dangling sdb suf := by
  simp [dangling_eq, h]

theorem crossrefAux_spec {db : BibData} (hdb : DbWF db) (m : Int) (L : List Str) :
    ∀ (suf : List Str) (st : BibData.XState) (pre Y : List Str), XInv db.toS m L st pre Y →
      BibData.crossrefAux db m st suf =
        (extraFrom db.toS m L pre suf, (dangling db.toS suf).map fun p => Report.badCrossref p.1 p.2) := by
  intro suf
  induction suf with
  | nil => intro st pre Y _; simp [BibData.crossrefAux, extraFrom, dangling]
  | cons c suf ih =>
    intro st pre Y hinv
    simp only [BibData.crossrefAux, extraFrom]
    have hfc := getItem_entries hdb c
    cases hgc : db.entries.getItem c with
    | none =>
      dsimp only
      rw [hgc] at hfc
      have hf : find db.toS c = none := by simpa using hfc.symm
      have hp : parentOf db.toS c = none := by simp [parentOf, hf]
      have hd : danglingAt db.toS c = none := by simp [danglingAt, hf]
      rw [dangling_cons_none hd]
      simp only [hp, List.nil_append]
      exact ih st _ Y (hinv.skip hp)
    | some e =>
      dsimp only
      rw [hgc] at hfc
      have hf : find db.toS c = some e.toS := by simpa using hfc.symm
      obtain ⟨hwe, _⟩ := getItem_entries_wf hdb hgc
      have hx := Entry.crossref_toS hwe
      cases hgx : e.fields.getItem Pybtex.xrefName with
      | none =>
        dsimp only
        rw [hgx] at hx
        have hp : parentOf db.toS c = none := by simp [parentOf, hf, ← hx]
        have hd : danglingAt db.toS c = none := by simp [danglingAt, hf, ← hx]
        rw [dangling_cons_none hd]
        simp only [hp, List.nil_append]
        exact ih st _ Y (hinv.skip hp)
      | some x =>
        dsimp only
        rw [hgx] at hx
        have hfx := getItem_entries hdb x
        cases hgp : db.entries.getItem x with
        | none =>
          dsimp only
          rw [hgp] at hfx
          have hfx' : find db.toS x = none := by simpa using hfx.symm
          have hp : parentOf db.toS c = none := by simp [parentOf, hf, ← hx, hfx']
          have hd : danglingAt db.toS c = some (c, x) := by simp [danglingAt, hf, ← hx, hfx']
          rw [dangling_cons_some hd]
          simp only [hp, List.nil_append]
          rw [ih st _ Y (hinv.skip hp)]
          simp
        | some p =>
          dsimp only
          rw [hgp] at hfx
          have hfx' : find db.toS x = some p.toS := by simpa using hfx.symm
          have hp : parentOf db.toS c = some p.toS := by simp [parentOf, hf, ← hx, hfx']
          have hd : danglingAt db.toS c = none := by simp [danglingAt, hf, ← hx, hfx']
          rw [dangling_cons_none hd]
          simp only [hp]
          have hkey : p.toS.key = p.key := rfl
          rw [hkey]
          -- reference counts after this citation
          have hr : ∀ k, (refCount db.toS k (pre ++ [c]) : Int) =
              (refCount db.toS k pre : Int) + (if lower k = lower p.key then 1 else 0) := by
            intro k
            rw [refCount_append, refCount_single, refers_of_parent hp, hkey]
            by_cases hk : lower k = lower p.key
            · have : keq p.key k = true := (keq_iff _ _).2 hk.symm
              simp [this, hk]
            · have : keq p.key k = false := by
                rw [Bool.eq_false_iff]; intro h'; exact hk ((keq_iff _ _).1 h').symm
              simp [this, hk]
          have hcount : ∀ k, (st.count.setItem p.key (st.count.getItemDefault p.key 0 + 1)).getItemDefault k 0 =
              (refCount db.toS k (pre ++ [c]) : Int) := by
            intro k
            rw [getItemDefault_setItem, hr k]
            by_cases hk : lower k = lower p.key
            · rw [if_pos hk, if_pos hk, hinv.count, refCount_congr hk]
            · rw [if_neg hk, if_neg hk, hinv.count]; simp
          have hself := hr p.key
          simp only [if_true] at hself
          have hyp := hinv.yielded p.key
          have hcs := hinv.cset p.key
          -- the two tests agree
          have hcond : (decide ((st.count.setItem p.key (st.count.getItemDefault p.key 0 + 1)).getItemDefault p.key 0 ≥ m)
                && !st.cset.contains p.key) =
              (!cited L p.key && ((refCount db.toS p.key (pre ++ [c]) : Int) == max m 1)) := by
            rw [hcount p.key, hcs, hself, Bool.eq_iff_iff]
            simp only [Bool.and_eq_true, decide_eq_true_eq, Bool.not_eq_true', Bool.or_eq_false_iff, beq_iff_eq]
            cases hcit : cited L p.key with
            | true => simp
            | false =>
              simp only [hcit, true_and] at hyp
              constructor
              · rintro ⟨h1, -, h3⟩
                refine ⟨rfl, ?_⟩
                have : ¬ (max m 1 ≤ (refCount db.toS p.key pre : Int)) := by
                  intro h'; rw [hyp.2 h'] at h3; cases h3
                omega
              · rintro ⟨-, h2⟩
                refine ⟨by omega, rfl, ?_⟩
                cases hY : Y.any (keq p.key) with
                | false => rfl
                | true => have := hyp.1 hY; omega
          rw [hcond]
          by_cases hy : (!cited L p.key && ((refCount db.toS p.key (pre ++ [c]) : Int) == max m 1)) = true
          · rw [if_pos hy, if_pos hy]
            simp only [Bool.and_eq_true, Bool.not_eq_true', beq_iff_eq] at hy
            have hinv' : XInv db.toS m L ⟨st.count.setItem p.key (st.count.getItemDefault p.key 0 + 1), st.cset.add p.key⟩
                (pre ++ [c]) (p.key :: Y) := by
              refine ⟨hcount, ?_, ?_⟩
              · intro k
                show (st.cset.add p.key).contains k = _
                rw [contains_add, hinv.cset k, List.any_cons]
                cases keq k p.key <;> cases cited L k <;> simp
              · intro k
                rw [List.any_cons, hr k]
                by_cases hk : lower k = lower p.key
                · have hk1 : keq k p.key = true := (keq_iff _ _).2 hk
                  rw [hk1, if_pos hk, cited_congr hk, refCount_congr hk]
                  simp only [Bool.true_or, true_iff]
                  exact ⟨hy.1, by omega⟩
                · have hk1 : keq k p.key = false := by
                    rw [Bool.eq_false_iff]; intro h'; exact hk ((keq_iff _ _).1 h')
                  rw [hk1, if_neg hk]
                  simpa using hinv.yielded k
            rw [ih _ _ _ hinv']
            simp
          · rw [if_neg hy, if_neg hy]
            have hinv' : XInv db.toS m L ⟨st.count.setItem p.key (st.count.getItemDefault p.key 0 + 1), st.cset⟩
                (pre ++ [c]) Y := by
              refine ⟨hcount, hinv.cset, ?_⟩
              intro k
              rw [hr k]
              by_cases hk : lower k = lower p.key
              · rw [if_pos hk, any_keq_congr hk, cited_congr hk, refCount_congr hk]
                simp only [Bool.and_eq_true, Bool.not_eq_true', beq_iff_eq, not_and] at hy
                constructor
                · intro h'; have := hyp.1 h'; exact ⟨this.1, by omega⟩
                · rintro ⟨h1, h2⟩
                  apply hyp.2
                  refine ⟨h1, ?_⟩
                  have := hy h1
                  omega
              · rw [if_neg hk]
                simpa using hinv.yielded k
            rw [ih _ _ _ hinv']
            simp

theorem xinv_init (sdb : SDb) (m : Int) (L : List Str) :
    XInv sdb m L ⟨CIDict.empty, CISet.ofList L⟩ [] [] := by
  refine ⟨?_, ?_, ?_⟩
  · intro k; simp [CIDict.getItemDefault, CIDict.getItem, CIDict.empty, dget, refCount]
  · intro k; simp [contains_ofList]
  · intro k
    simp only [List.any_nil, Bool.false_eq_true, refCount, List.filter_nil, List.length_nil, false_iff, not_and]
    intro _
    omega

/-- the second loop: the dangling references of the appended entries -/
theorem danglingExtras_spec {db : BibData} (hdb : DbWF db) (X : List Str) :
    db.danglingExtras X = (dangling db.toS X).map fun p => Report.badCrossref p.1 p.2 := by
  induction X with
  | nil => simp [BibData.danglingExtras, dangling]
  | cons c X ih =>
    simp only [BibData.danglingExtras]
    have hfc := getItem_entries hdb c
    cases hgc : db.entries.getItem c with
    | none =>
      dsimp only
      rw [hgc] at hfc
      have hf : find db.toS c = none := by simpa using hfc.symm
      have hd : danglingAt db.toS c = none := by simp [danglingAt, hf]
      rw [dangling_cons_none hd, ih]
    | some e =>
      dsimp only
      rw [hgc] at hfc
      have hf : find db.toS c = some e.toS := by simpa using hfc.symm
      obtain ⟨hwe, _⟩ := getItem_entries_wf hdb hgc
      have hx := Entry.crossref_toS hwe
      cases hgx : e.fields.getItem Pybtex.xrefName with
      | none =>
        dsimp only
        rw [hgx] at hx
        have hd : danglingAt db.toS c = none := by simp [danglingAt, hf, ← hx]
        rw [dangling_cons_none hd, ih]
      | some x =>
        dsimp only
        rw [hgx] at hx
        rw [contains_entries hdb x]
        cases hfx : find db.toS x with
        | none =>
          have hd : danglingAt db.toS c = some (c, x) := by simp [danglingAt, hf, ← hx, hfx]
          rw [dangling_cons_some hd, ih]
          simp
        | some P =>
          have hd : danglingAt db.toS c = none := by simp [danglingAt, hf, ← hx, hfx]
          rw [dangling_cons_none hd, ih]
          simp

theorem dangling_append (sdb : SDb) (a b : List Str) : dangling sdb (a ++ b) = dangling sdb a ++ dangling sdb b := by
  simp [dangling_eq, List.filterMap_append]

/-- `_get_crossreferenced_citations` over the cited list `L`: the appended keys, and the dangling
cross-references of everything that goes into the bibliography — `L` and the appended keys. -/
theorem crossreferenced_spec {db : BibData} (hdb : DbWF db) (L : List Str) (m : Int) :
    db.crossreferenced L m =
      (extra db.toS L m, (dangling db.toS (L ++ extra db.toS L m)).map fun p => Report.badCrossref p.1 p.2) := by
  unfold BibData.crossreferenced
  rw [crossrefAux_spec hdb m L L _ [] [] (xinv_init _ m L)]
  simp only [danglingExtras_spec hdb, dangling_append, List.map_append]
  rfl

/-! ### consequences of the specification of `extra` -/

theorem refCount_le_append (db : SDb) (p : Str) (a b : List Str) : refCount db p a ≤ refCount db p (a ++ b) := by
  rw [refCount_append]; omega

theorem refCount_snoc_le (db : SDb) (p : Str) (a : List Str) (c : Str) :
    refCount db p (a ++ [c]) ≤ refCount db p a + 1 := by
  rw [refCount_append, refCount_single]; split <;> omega

theorem mem_extraFrom {sdb : SDb} {m : Int} {L : List Str} {x : Str} :
    ∀ {suf pre : List Str}, x ∈ extraFrom sdb m L pre suf →
      cited L x = false ∧ (refCount sdb x pre : Int) < max m 1 ∧ max m 1 ≤ (refCount sdb x (pre ++ suf) : Int) ∧
      ∃ c ∈ suf, ∃ P, parentOf sdb c = some P ∧ P.key = x := by
  intro suf
  induction suf with
  | nil => intro pre h; simp [extraFrom] at h
  | cons c suf ih =>
    intro pre h
    simp only [extraFrom, List.mem_append] at h
    rcases h with h | h
    · cases hp : parentOf sdb c with
      | none => simp [hp] at h
      | some P =>
        simp only [hp] at h
        split at h
        · rename_i hc
          simp only [List.mem_singleton] at h
          subst h
          simp only [Bool.and_eq_true, Bool.not_eq_true', beq_iff_eq] at hc
          have h1 : refCount sdb P.key (pre ++ [c]) = refCount sdb P.key pre + 1 := by
            rw [refCount_append, refCount_single, refers_of_parent hp, keq_refl]; rfl
          have h2 := refCount_le_append sdb P.key (pre ++ [c]) suf
          rw [List.append_assoc] at h2
          refine ⟨hc.1, by omega, ?_, c, by simp, P, hp, rfl⟩
          simp only [List.singleton_append] at h2
          omega
        · simp at h
    · obtain ⟨h1, h2, h3, c', hc', hP⟩ := ih h
      have := refCount_le_append sdb x pre [c]
      rw [List.append_assoc] at h3
      exact ⟨h1, by omega, h3, c', List.mem_cons_of_mem _ hc', hP⟩

theorem extraFrom_complete {sdb : SDb} {m : Int} {L : List Str} {k : Str} (hc : cited L k = false) :
    ∀ {suf pre : List Str}, (refCount sdb k pre : Int) < max m 1 → max m 1 ≤ (refCount sdb k (pre ++ suf) : Int) →
      (extraFrom sdb m L pre suf).any (keq k) = true := by
  intro suf
  induction suf with
  | nil => intro pre h1 h2; simp at h2; omega
  | cons c suf ih =>
    intro pre h1 h2
    simp only [extraFrom, List.any_append, Bool.or_eq_true]
    by_cases hr : max m 1 ≤ (refCount sdb k (pre ++ [c]) : Int)
    · left
      have hle := refCount_snoc_le sdb k pre c
      have hrc : refCount sdb k (pre ++ [c]) = refCount sdb k pre + 1 := by omega
      have href : refers sdb k c = true := by
        rw [refCount_append, refCount_single] at hrc
        split at hrc
        · assumption
        · omega
      unfold refers at href
      split at href
      · rename_i P hp
        have hk : lower P.key = lower k := (keq_iff _ _).1 href
        have h3 : (!cited L P.key && ((refCount sdb P.key (pre ++ [c]) : Int) == max m 1)) = true := by
          rw [cited_congr hk, refCount_congr hk, hc]
          simp only [Bool.not_false, Bool.true_and, beq_iff_eq]
          omega
        simp only [h3, if_true, List.any_cons, List.any_nil, Bool.or_false]
        rw [keq_comm]; exact href
      · cases href
    · right
      apply ih (by omega)
      rw [List.append_assoc]; exact h2

theorem extraFrom_pairwise {sdb : SDb} {m : Int} {L : List Str} :
    ∀ {suf pre : List Str}, (extraFrom sdb m L pre suf).Pairwise fun a b =>
      ∃ n, max m 1 ≤ (refCount sdb a ((pre ++ suf).take n) : Int) ∧ (refCount sdb b ((pre ++ suf).take n) : Int) < max m 1 := by
  intro suf
  induction suf with
  | nil => intro pre; simp [extraFrom]
  | cons c suf ih =>
    intro pre
    simp only [extraFrom]
    have hassoc : pre ++ c :: suf = (pre ++ [c]) ++ suf := by simp
    rw [List.pairwise_append]
    refine ⟨?_, ?_, ?_⟩
    · cases parentOf sdb c with
      | none => simp
      | some P => dsimp only; split <;> simp
    · rw [hassoc]; exact ih
    · intro a ha b hb
      obtain ⟨-, hb2, -, -⟩ := mem_extraFrom hb
      refine ⟨(pre ++ [c]).length, ?_, ?_⟩
      · rw [hassoc, List.take_left']
        · cases hp : parentOf sdb c with
          | none => simp [hp] at ha
          | some P =>
            simp only [hp] at ha
            split at ha
            · rename_i hc
              simp only [List.mem_singleton] at ha
              subst ha
              simp only [Bool.and_eq_true, Bool.not_eq_true', beq_iff_eq] at hc
              omega
            · simp at ha
        · rfl
      · rw [hassoc, List.take_left' rfl]; exact hb2

/-! ### what `add_entry` / the reader preserve -/

theorem omap_set_mem {V : Type} {m : OMap V} {k : Str} {v : V} {t : Str × Str × V} (h : t ∈ OMap.set m k v) :
    t ∈ m ∨ t = (lower k, k, v) := by
  induction m with
  | nil => simp [OMap.set] at h; exact Or.inr h
  | cons e m ih =>
    obtain ⟨l, sp, w⟩ := e
    simp only [OMap.set] at h
    split at h
    · rename_i hl
      rcases List.mem_cons.1 h with h | h
      · right; rw [h, hl]
      · left; exact List.mem_cons_of_mem _ h
    · rcases List.mem_cons.1 h with h | h
      · left; rw [h]; exact List.mem_cons_self
      · rcases ih h with h | h
        · left; exact List.mem_cons_of_mem _ h
        · right; exact h

theorem DbWF.init (w : Option (List Str)) : DbWF (BibData.init w) := by
  cases w <;> exact ⟨CIDict.inv_empty, by simp [BibData.init, CIDict.abs, CIDict.empty], by simp [BibData.init, CIDict.abs, CIDict.empty]⟩

theorem DbWF.setEntry {d : BibData} (h : DbWF d) {e : Entry} (he : EntryWF e) (ck : Str) (w : Option CISet) :
    DbWF { d with entries := d.entries.setItem ck { e with key := ck }, wanted := w } := by
  refine ⟨CIDict.inv_setItem h.inv _ _, ?_, ?_⟩
  · intro t ht
    rw [CIDict.abs_setItem h.inv] at ht
    rcases omap_set_mem ht with ht | ht
    · exact h.keyEq t ht
    · subst ht; rfl
  · intro t ht
    rw [CIDict.abs_setItem h.inv] at ht
    rcases omap_set_mem ht with ht | ht
    · exact h.entries t ht
    · subst ht; exact ⟨he.fields, he.persons⟩

theorem canonical_of_contains {s : CISet} (h : CISet.Inv s) {k : Str} (hk : s.contains k = true) :
    ∃ x, s.canonical k = some x := by
  simp only [CISet.contains, h.1] at hk
  simp only [CISet.canonical]
  cases hg : dget s.keys (lower k) with
  | some x => exact ⟨x, rfl⟩
  | none =>
    have := (dget_none_iff _ _).1 hg
    simp at hk
    exact absurd hk (by simpa using this)

/-- `add_entry` never raises, keeps the database well formed and does not touch `citations` -/
theorem addEntry_spec {d : BibData} (h : DbWF d) (hc : CISet.Inv d.citations) (key : Str) {e : Entry} (he : EntryWF e) :
    ∃ d' rep, d.addEntry key e = some (d', rep) ∧ DbWF d' ∧ d'.citations = d.citations := by
  unfold BibData.addEntry
  split
  · exact ⟨d, [], rfl, h, rfl⟩
  · split
    · exact ⟨d, _, rfl, h, rfl⟩
    · have hck : ∃ ck, d.getCanonicalKey key = some ck := by
        unfold BibData.getCanonicalKey
        split
        · rename_i hk; exact canonical_of_contains hc hk
        · exact ⟨key, rfl⟩
      obtain ⟨ck, hck⟩ := hck
      rw [hck]
      dsimp only
      split
      · exact ⟨_, [], rfl, h.setEntry he ck d.wanted, rfl⟩
      · split
        · rename_i hw
          refine ⟨_, [], rfl, ?_, rfl⟩
          have := h.setEntry he ck d.wanted
          exact this
        · rename_i w hw
          exact ⟨_, [], rfl, h.setEntry he ck (some (w.add _)), rfl⟩

theorem parseEntry_spec {d : BibData} (h : DbWF d) (hc : CISet.Inv d.citations) (key : Str) {e : Entry} (he : EntryWF e) :
    ∃ d' rep, d.parseEntry key e = some (d', rep) ∧ DbWF d' ∧ d'.citations = d.citations := by
  unfold BibData.parseEntry
  split
  · exact ⟨d, [], rfl, h, rfl⟩
  · exact addEntry_spec h hc key he

theorem readEntries_spec (file : List (Str × Entry)) (hf : ∀ p ∈ file, EntryWF p.2) :
    ∀ {d : BibData}, DbWF d → CISet.Inv d.citations →
      ∃ d' rep, d.readEntries file = some (d', rep) ∧ DbWF d' ∧ d'.citations = d.citations := by
  induction file with
  | nil => intro d h _; exact ⟨d, [], rfl, h, rfl⟩
  | cons p file ih =>
    intro d h hc
    obtain ⟨k, e⟩ := p
    obtain ⟨d1, rep1, h1, hw1, hc1⟩ := parseEntry_spec h hc k (hf (k, e) (by simp))
    obtain ⟨d2, rep2, h2, hw2, hc2⟩ := ih (fun p hp => hf p (List.mem_cons_of_mem _ hp)) hw1 (hc1 ▸ hc)
    refine ⟨d2, rep1 ++ rep2, ?_, hw2, hc2.trans hc1⟩
    simp [BibData.readEntries, h1, h2]

theorem init_citations_inv (w : Option (List Str)) : CISet.Inv (BibData.init w).citations := by
  cases w with
  | none => exact CISet.inv_empty
  | some l => exact (CISet.ofList_spec l).1

/-- Reading a file never raises and yields a well-formed database. -/
theorem readFile_spec (w : Option (List Str)) (file : List (Str × Entry)) (hf : ∀ p ∈ file, EntryWF p.2) :
    ∃ d rep, BibData.readFile w file = some (d, rep) ∧ DbWF d ∧ d.citations = (BibData.init w).citations :=
  readEntries_spec file hf (DbWF.init w) (init_citations_inv w)

/-- an entry of the raw file as the specification sees it -/
def rawToS (p : Str × Entry) : SEntry := { p.2.toS with key := p.1 }

/-! ### the two engines' last step -/

theorem removeMissing_spec {db : BibData} (hdb : DbWF db) (l : List Str) :
    (db.removeMissing l).1 = present db.toS l ∧
    (db.removeMissing l).2 = (missing db.toS l).map Report.missingEntry := by
  induction l with
  | nil => simp [BibData.removeMissing, present, missing]
  | cons c l ih =>
    simp only [BibData.removeMissing, present, missing, List.filter_cons, contains_entries hdb c]
    cases h : (find db.toS c).isSome with
    | true =>
      have : (find db.toS c).isNone = false := by
        cases hf : find db.toS c <;> simp_all
      simp only [if_true, this, Bool.false_eq_true, if_false]
      exact ⟨by rw [ih.1]; rfl, by rw [ih.2]; rfl⟩
    | false =>
      have : (find db.toS c).isNone = true := by
        cases hf : find db.toS c <;> simp_all
      simp only [Bool.false_eq_true, if_false, this, if_true, List.map_cons]
      exact ⟨by rw [ih.1]; rfl, by rw [ih.2]; rfl⟩

theorem lookupAll_present {db : BibData} (hdb : DbWF db) (l : List Str) :
    ∃ es, db.lookupAll (present db.toS l) = some es ∧
      (es.map (·.key)).map lower = (present db.toS l).map lower := by
  induction l with
  | nil => exact ⟨[], rfl, rfl⟩
  | cons c l ih =>
    obtain ⟨es, h1, h2⟩ := ih
    simp only [present, List.filter_cons]
    cases h : (find db.toS c).isSome with
    | false => simp only [Bool.false_eq_true, if_false]; exact ⟨es, h1, h2⟩
    | true =>
      simp only [if_true]
      have hg := getItem_entries hdb c
      cases hgc : db.entries.getItem c with
      | none => rw [hgc] at hg; simp [← hg] at h
      | some e =>
        obtain ⟨-, hk⟩ := getItem_entries_wf hdb hgc
        refine ⟨e :: es, ?_, ?_⟩
        · simp only [BibData.lookupAll, hgc]
          show Option.map _ (db.lookupAll (present db.toS l)) = _
          rw [h1]; rfl
        · simp only [List.map_cons, hk]
          congr 1

/-! ### spelling of the keys stored by the filtered reading -/

theorem dget_mem {α : Type} {ks : List (Str × α)} {k : Str} {v : α} (h : dget ks k = some v) : (k, v) ∈ ks := by
  induction ks with
  | nil => simp [dget] at h
  | cons a ks ih =>
    obtain ⟨k', v'⟩ := a
    simp only [dget] at h
    split at h
    · rename_i hk; cases h; subst hk; simp
    · exact List.mem_cons_of_mem _ (ih h)

theorem foldl_add_keys (l : List Str) (s : CISet) :
    ∀ p ∈ (l.foldl CISet.add s).keys, p ∈ s.keys ∨ p.2 ∈ l := by
  induction l generalizing s with
  | nil => intro p hp; exact Or.inl hp
  | cons c l ih =>
    intro p hp
    rcases ih (s.add c) p hp with h | h
    · rcases dset_mem h with h | h
      · exact Or.inl h
      · right; rw [h]; simp
    · right; exact List.mem_cons_of_mem _ h

theorem canonical_ofList_mem {l : List Str} {k x : Str} (h : (CISet.ofList l).canonical k = some x) : x ∈ l := by
  have := dget_mem h
  rcases foldl_add_keys l CISet.empty _ this with h' | h'
  · simp [CISet.empty] at h'
  · exact h'

/-- keys stored in the database that match a citation are spelled as in the citation list -/
def SpelledAsCited (cits : List Str) (d : BibData) : Prop :=
  ∀ k ∈ CIDict.iter d.entries, cited cits k = true → k ∈ cits

theorem iter_setItem_mem {V : Type} {d : CIDict V} {k : Str} {v : V} {x : Str} (h : x ∈ CIDict.iter (d.setItem k v)) :
    x ∈ CIDict.iter d ∨ x = k := by
  simp only [CIDict.iter, CIDict.setItem, List.mem_map] at h ⊢
  obtain ⟨p, hp, hx⟩ := h
  rcases dset_mem hp with hp | hp
  · exact Or.inl ⟨p, hp, hx⟩
  · right; rw [← hx, hp]

theorem addEntry_spelling {cits : List Str} {d d' : BibData} {key : Str} {e : Entry} {rep : List Report}
    (hc : d.citations = CISet.ofList cits) (hs : SpelledAsCited cits d) (h : d.addEntry key e = some (d', rep)) :
    d'.citations = CISet.ofList cits ∧ SpelledAsCited cits d' := by
  unfold BibData.addEntry at h
  split at h
  · cases h; exact ⟨hc, hs⟩
  · split at h
    · cases h; exact ⟨hc, hs⟩
    · cases hck : d.getCanonicalKey key with
      | none => simp [hck] at h
      | some ck =>
        have hsp : SpelledAsCited cits { d with entries := d.entries.setItem ck { e with key := ck } } := by
          intro k hk hcit
          rcases iter_setItem_mem hk with hk | hk
          · exact hs k hk hcit
          · subst hk
            unfold BibData.getCanonicalKey at hck
            rw [hc] at hck
            split at hck
            · exact canonical_ofList_mem hck
            · rename_i hnc
              cases hck
              rw [contains_ofList] at hnc
              exact absurd hcit hnc
        simp only [hck] at h
        split at h
        · cases h; exact ⟨hc, hsp⟩
        · split at h
          · cases h; exact ⟨hc, hsp⟩
          · cases h; exact ⟨hc, hsp⟩

theorem readEntries_spelling {cits : List Str} (file : List (Str × Entry)) :
    ∀ {d d' : BibData} {rep : List Report}, d.citations = CISet.ofList cits → SpelledAsCited cits d →
      d.readEntries file = some (d', rep) → SpelledAsCited cits d' := by
  induction file with
  | nil => intro d d' rep _ hs h; simp only [BibData.readEntries] at h; cases h; exact hs
  | cons p file ih =>
    intro d d' rep hc hs h
    obtain ⟨k, e⟩ := p
    simp only [BibData.readEntries] at h
    cases h1 : d.parseEntry k e with
    | none => simp [h1] at h
    | some r1 =>
      obtain ⟨d1, rep1⟩ := r1
      simp only [h1] at h
      cases h2 : d1.readEntries file with
      | none => simp [h2] at h
      | some r2 =>
        obtain ⟨d2, rep2⟩ := r2
        simp only [h2, Option.some.injEq, Prod.mk.injEq] at h
        obtain ⟨rfl, -⟩ := h
        have h1' : d1.citations = CISet.ofList cits ∧ SpelledAsCited cits d1 := by
          unfold BibData.parseEntry at h1
          split at h1
          · cases h1; exact ⟨hc, hs⟩
          · exact addEntry_spelling hc hs h1
        exact ih h1'.1 h1'.2 h2

theorem readFile_spelling (cits : List Str) (file : List (Str × Entry)) {db : BibData} {rep : List Report}
    (h : BibData.readFile (some cits) file = some (db, rep)) : SpelledAsCited cits db :=
  readEntries_spelling file (d := BibData.init (some cits)) rfl
    (by intro k hk; simp [BibData.init, CIDict.iter, CIDict.empty] at hk) h

/-! ### the well-formedness predicates are decidable -/

instance instDecidableCIDictInv {V : Type} (d : CIDict V) : Decidable (CIDict.Inv d) := by
  unfold CIDict.Inv Lock; exact inferInstance

instance instDecidableEntryWF (e : Entry) : Decidable (EntryWF e) :=
  decidable_of_iff (CIDict.Inv e.fields ∧ CIDict.Inv e.persons) ⟨fun h => ⟨h.1, h.2⟩, fun h => ⟨h.fields, h.persons⟩⟩

instance instDecidableDbWF (d : BibData) : Decidable (DbWF d) :=
  decidable_of_iff (CIDict.Inv d.entries ∧ (∀ t ∈ CIDict.abs d.entries, t.2.2.key = t.2.1) ∧
      ∀ t ∈ CIDict.abs d.entries, CIDict.Inv t.2.2.fields ∧ CIDict.Inv t.2.2.persons)
    ⟨fun h => ⟨h.1, h.2.1, fun t ht => ⟨(h.2.2 t ht).1, (h.2.2 t ht).2⟩⟩,
     fun h => ⟨h.inv, h.keyEq, fun t ht => ⟨(h.entries t ht).fields, (h.entries t ht).persons⟩⟩⟩

end Pybtex
