/-
Helper lemmas for C05 / C14: abstraction of the model database (C13 containers) to the plain
lists of `Spec/Citations.lean`, well-formedness, and the refinement lemmas
model function = specification function.
-/
import PybtexModel.Model.Citations
import PybtexModel.Model.Crossref
import PybtexModel.Spec.Citations
import PybtexModel.Lemmas.CIMap

namespace Pybtex
open Spec

/-! ### `keq` -/

theorem keq_iff (a b : Str) : keq a b = true ↔ lower a = lower b := by simp [keq]
theorem keq_refl (a : Str) : keq a a = true := by simp [keq]
theorem keq_comm (a b : Str) : keq a b = keq b a := by
  unfold keq; rw [Bool.eq_iff_iff]; simp only [beq_iff_eq]; exact eq_comm
theorem keq_congr_left {a a' : Str} (h : lower a = lower a') (b : Str) : keq a b = keq a' b := by
  simp [keq, h]
theorem keq_congr_right (a : Str) {b b' : Str} (h : lower b = lower b') : keq a b = keq a b' := by
  simp [keq, h]
theorem keq_lower_left (a b : Str) : keq (lower a) b = keq a b := by simp [keq]
theorem keq_lower_right (a b : Str) : keq a (lower b) = keq a b := by simp [keq]

theorem any_keq_congr {k k' : Str} (h : lower k = lower k') (l : List Str) :
    l.any (keq k) = l.any (keq k') := by
  induction l with
  | nil => rfl
  | cons x l ih => simp [List.any_cons, keq_congr_left h, ih]

theorem cited_congr {k k' : Str} (h : lower k = lower k') (l : List Str) : cited l k = cited l k' :=
  any_keq_congr h l

/-! ### abstraction -/

/-- items of a container in the spec's form -/
def itemsOf {V : Type} (d : CIDict V) : List (Str × V) := (CIDict.abs d).map fun t => (t.2.1, t.2.2)

def Entry.toS (e : Entry) : SEntry :=
  { key := e.key, fields := itemsOf e.fields, persons := itemsOf e.persons }

def BibData.toS (d : BibData) : SDb := (CIDict.abs d.entries).map fun t => t.2.2.toS

structure EntryWF (e : Entry) : Prop where
  fields : CIDict.Inv e.fields
  persons : CIDict.Inv e.persons

/-- Well-formed database: the containers satisfy their lock-step invariant (C13) and every entry
is stored under its own key (what `add_entry` does). -/
structure DbWF (d : BibData) : Prop where
  inv : CIDict.Inv d.entries
  keyEq : ∀ t ∈ CIDict.abs d.entries, t.2.2.key = t.2.1
  entries : ∀ t ∈ CIDict.abs d.entries, EntryWF t.2.2

theorem omap_get_find {V : Type} (m : OMap V) (hw : ∀ e ∈ m, e.1 = lower e.2.1) (k : Str) :
    OMap.get m k = ((m.map fun t => (t.2.1, t.2.2)).find? fun p => keq p.1 k).map (·.2) := by
  induction m with
  | nil => simp [OMap.get]
  | cons e m ih =>
    obtain ⟨l, sp, v⟩ := e
    have hl : l = lower sp := hw (l, sp, v) (by simp)
    have ih' := ih (fun e he => hw e (List.mem_cons_of_mem _ he))
    simp only [OMap.get, List.map_cons, List.find?_cons]
    by_cases h : l = lower k
    · have : keq sp k = true := by rw [keq_iff, ← hl, h]
      simp [h, this]
    · have : keq sp k = false := by
        rw [Bool.eq_false_iff]; intro hk; rw [keq_iff, ← hl] at hk; exact h hk
      simp [h, this, ih']

theorem getItem_field {V : Type} {d : CIDict V} (h : CIDict.Inv d) (k : Str) :
    d.getItem k = ((itemsOf d).find? fun p => keq p.1 k).map (·.2) := by
  rw [CIDict.getItem_abs h, omap_get_find _ (CIDict.abs_wf h).1]
  rfl

theorem Entry.field_toS {e : Entry} (h : EntryWF e) (n : Str) : e.fields.getItem n = e.toS.field n :=
  getItem_field h.fields n

theorem Entry.role_toS {e : Entry} (h : EntryWF e) (n : Str) : e.persons.getItem n = e.toS.role n :=
  getItem_field h.persons n

theorem Entry.crossref_toS {e : Entry} (h : EntryWF e) : e.fields.getItem Pybtex.xrefName = e.toS.crossref :=
  getItem_field h.fields _

theorem omap_get_mem {V : Type} {m : OMap V} {k : Str} {v : V} (h : OMap.get m k = some v) :
    ∃ t ∈ m, t.2.2 = v ∧ t.1 = lower k := by
  induction m with
  | nil => simp [OMap.get] at h
  | cons e m ih =>
    obtain ⟨l, sp, w⟩ := e
    simp only [OMap.get] at h
    split at h
    · rename_i hl
      exact ⟨(l, sp, w), by simp, Option.some.inj h, hl⟩
    · obtain ⟨t, ht, hv⟩ := ih h
      exact ⟨t, List.mem_cons_of_mem _ ht, hv⟩

theorem getItem_entries {d : BibData} (h : DbWF d) (c : Str) :
    (d.entries.getItem c).map Entry.toS = find d.toS c := by
  rw [CIDict.getItem_abs h.inv]
  have hw := (CIDict.abs_wf h.inv).1
  have hk := h.keyEq
  unfold BibData.toS find
  generalize CIDict.abs d.entries = m at hw hk
  induction m with
  | nil => simp [OMap.get]
  | cons e m ih =>
    obtain ⟨l, sp, v⟩ := e
    have hl : l = lower sp := hw (l, sp, v) (by simp)
    have hkey : v.key = sp := hk (l, sp, v) (by simp)
    have ih' := ih (fun e he => hw e (List.mem_cons_of_mem _ he)) (fun e he => hk e (List.mem_cons_of_mem _ he))
    simp only [OMap.get, List.map_cons, List.find?_cons]
    by_cases hc : l = lower c
    · have : keq v.toS.key c = true := by
        show keq v.key c = true
        rw [keq_iff, hkey, ← hl, hc]
      simp [hc, this]
    · have : keq v.toS.key c = false := by
        show keq v.key c = false
        rw [Bool.eq_false_iff]; intro hk'; rw [keq_iff, hkey, ← hl] at hk'; exact hc hk'
      simp [hc, this, ih']

theorem getItem_entries_wf {d : BibData} (h : DbWF d) {c : Str} {e : Entry} (he : d.entries.getItem c = some e) :
    EntryWF e ∧ lower e.key = lower c := by
  rw [CIDict.getItem_abs h.inv] at he
  obtain ⟨t, ht, hv, hl⟩ := omap_get_mem he
  subst hv
  refine ⟨h.entries t ht, ?_⟩
  rw [h.keyEq t ht, ← (CIDict.abs_wf h.inv).1 t ht, hl]

theorem iter_entries {d : BibData} (h : DbWF d) : CIDict.iter d.entries = keys d.toS := by
  rw [CIDict.iter_abs h.inv]
  unfold BibData.toS keys OMap.keys
  rw [List.map_map]
  apply List.map_congr_left
  intro t ht
  exact (h.keyEq t ht).symm

theorem toS_wf {d : BibData} (h : DbWF d) : Spec.WF d.toS := by
  unfold Spec.WF
  rw [← iter_entries h, CIDict.iter_abs h.inv]
  have hwf := CIDict.abs_wf h.inv
  have : (OMap.keys (CIDict.abs d.entries)).map lower = (CIDict.abs d.entries).map (·.1) := by
    unfold OMap.keys
    rw [List.map_map]
    apply List.map_congr_left
    intro t ht
    exact (hwf.1 t ht).symm
  rw [this]
  exact hwf.2

theorem contains_entries {d : BibData} (h : DbWF d) (c : Str) :
    d.entries.contains c = (find d.toS c).isSome := by
  rw [← getItem_entries h c]
  simp [CIDict.contains, CIDict.getItem, dhas]

/-! ### the running `CaseInsensitiveSet` against a plain list of keys seen -/

/-- the set answers membership like the list `seen` (up to case) -/
def SetRel (s : CISet) (seen : List Str) : Prop := ∀ k, s.contains k = seen.any (keq k)

theorem contains_add (s : CISet) (c k : Str) : (s.add c).contains k = (keq k c || s.contains k) := by
  simp only [CISet.add, CISet.contains, keq]
  by_cases h : s.set.contains (lower c)
  · rw [if_pos h]
    by_cases hk : lower k = lower c
    · rw [hk, h]; simp
    · simp [hk]
  · rw [if_neg h]
    rw [Bool.eq_iff_iff]
    simp only [List.contains_append, List.contains_cons, List.contains_nil, Bool.or_false, Bool.or_eq_true,
      beq_iff_eq]
    exact or_comm

theorem SetRel.empty : SetRel CISet.empty [] := by
  intro k; simp [CISet.empty, CISet.contains]

theorem SetRel.add {s : CISet} {seen : List Str} (h : SetRel s seen) (c : Str) : SetRel (s.add c) (c :: seen) := by
  intro k
  rw [contains_add, h k, List.any_cons]

theorem SetRel.ofList_aux (l : List Str) {s : CISet} {seen : List Str} (h : SetRel s seen) :
    SetRel (l.foldl CISet.add s) (l.reverse ++ seen) := by
  induction l generalizing s seen with
  | nil => simpa using h
  | cons c l ih =>
    have := ih (h.add c)
    simpa [List.foldl_cons, List.reverse_cons, List.append_assoc] using this

theorem contains_ofList (l : List Str) (k : Str) : (CISet.ofList l).contains k = cited l k := by
  have := SetRel.ofList_aux l SetRel.empty k
  rw [List.append_nil, List.any_reverse] at this
  exact this

/-! ### `dedupFrom` -/

theorem dedupFrom_congr {seen seen' : List Str} (h : ∀ k, seen.any (keq k) = seen'.any (keq k)) (l : List Str) :
    dedupFrom seen l = dedupFrom seen' l := by
  induction l generalizing seen seen' with
  | nil => rfl
  | cons k l ih =>
    simp only [dedupFrom, h k]
    split
    · exact ih h
    · congr 1
      apply ih
      intro k'
      simp [List.any_cons, h k']

theorem dedupFrom_append (seen a b : List Str) :
    dedupFrom seen (a ++ b) = dedupFrom seen a ++ dedupFrom ((dedupFrom seen a).reverse ++ seen) b := by
  induction a generalizing seen with
  | nil => simp [dedupFrom]
  | cons k a ih =>
    simp only [List.cons_append, dedupFrom]
    split
    · exact ih seen
    · rw [ih (k :: seen)]
      simp [List.reverse_cons, List.append_assoc]

theorem mem_dedupFrom {seen l : List Str} {x : Str} (h : x ∈ dedupFrom seen l) :
    x ∈ l ∧ seen.any (keq x) = false := by
  induction l generalizing seen with
  | nil => simp [dedupFrom] at h
  | cons k l ih =>
    simp only [dedupFrom] at h
    split at h
    · obtain ⟨h1, h2⟩ := ih h
      exact ⟨List.mem_cons_of_mem _ h1, h2⟩
    · rename_i hk
      rcases List.mem_cons.1 h with h | h
      · subst h; exact ⟨by simp, by simpa using hk⟩
      · obtain ⟨h1, h2⟩ := ih h
        refine ⟨List.mem_cons_of_mem _ h1, ?_⟩
        rw [List.any_cons, Bool.or_eq_false_iff] at h2
        exact h2.2

/-- no two elements of the de-duplicated list are equal up to case -/
theorem dedupFrom_pairwise (seen l : List Str) :
    (dedupFrom seen l).Pairwise fun a b => keq a b = false := by
  induction l generalizing seen with
  | nil => simp [dedupFrom]
  | cons k l ih =>
    simp only [dedupFrom]
    split
    · exact ih seen
    · refine List.Pairwise.cons ?_ (ih _)
      intro x hx
      have := (mem_dedupFrom hx).2
      rw [List.any_cons, Bool.or_eq_false_iff] at this
      rw [keq_comm]; exact this.1

theorem pairwise_keq_nodup {l : List Str} (h : l.Pairwise fun a b => keq a b = false) : (l.map lower).Nodup := by
  induction l with
  | nil => simp
  | cons a l ih =>
    obtain ⟨h1, h2⟩ := List.pairwise_cons.1 h
    simp only [List.map_cons, List.nodup_cons]
    refine ⟨?_, ih h2⟩
    intro hm
    obtain ⟨b, hb, hab⟩ := List.mem_map.1 hm
    have := h1 b hb
    rw [Bool.eq_false_iff] at this
    exact this ((keq_iff a b).2 hab.symm)

theorem nodup_pairwise_keq {l : List Str} (h : (l.map lower).Nodup) : l.Pairwise fun a b => keq a b = false := by
  induction l with
  | nil => simp
  | cons a l ih =>
    simp only [List.map_cons, List.nodup_cons] at h
    refine List.Pairwise.cons ?_ (ih h.2)
    intro b hb
    rw [Bool.eq_false_iff]
    intro hk
    apply h.1
    rw [(keq_iff a b).1 hk]
    exact List.mem_map.2 ⟨b, hb, rfl⟩

/-- every element of the input is represented (up to case) in `seen` or in the result -/
theorem dedupFrom_complete (seen l : List Str) {x : Str} (hx : x ∈ l) :
    seen.any (keq x) = true ∨ (dedupFrom seen l).any (keq x) = true := by
  induction l generalizing seen with
  | nil => simp at hx
  | cons k l ih =>
    simp only [dedupFrom]
    rcases List.mem_cons.1 hx with h | h
    · subst h
      split
      · left; assumption
      · right; simp [List.any_cons, keq_refl]
    · split
      · exact ih seen h
      · rcases ih (k :: seen) h with h' | h'
        · rw [List.any_cons, Bool.or_eq_true] at h'
          rcases h' with h' | h'
          · right; simp [List.any_cons, h']
          · left; exact h'
        · right; simp [List.any_cons, h']

/-- on a list without case-duplicates `dedupFrom` only filters out what was seen -/
theorem dedupFrom_filter {seen l : List Str} (h : l.Pairwise fun a b => keq a b = false) :
    dedupFrom seen l = l.filter fun k => !seen.any (keq k) := by
  induction l generalizing seen with
  | nil => rfl
  | cons k l ih =>
    obtain ⟨h1, h2⟩ := List.pairwise_cons.1 h
    simp only [dedupFrom, List.filter_cons]
    by_cases hk : seen.any (keq k) = true
    · simp [hk, ih h2]
    · simp only [hk, Bool.false_eq_true, if_false, Bool.not_false, if_true]
      congr 1
      rw [ih h2]
      apply List.filter_congr
      intro x hx
      have := h1 x hx
      rw [keq_comm] at this
      simp [List.any_cons, this]

/-! ### `_expand_wildcard_citations` = `expanded` -/

theorem expandStar_spec {s : CISet} {seen : List Str} (h : SetRel s seen) (ks : List Str) :
    (BibData.expandStar s ks).2 = dedupFrom seen ks ∧
    SetRel (BibData.expandStar s ks).1 ((dedupFrom seen ks).reverse ++ seen) := by
  induction ks generalizing s seen with
  | nil => simpa [BibData.expandStar, dedupFrom] using h
  | cons k ks ih =>
    simp only [BibData.expandStar, dedupFrom, h k]
    split
    · exact ih h
    · obtain ⟨h1, h2⟩ := ih (h.add k)
      refine ⟨by simp [h1], ?_⟩
      simpa [List.reverse_cons, List.append_assoc] using h2

theorem substStar_cons (db : SDb) (c : Str) (r : List Str) :
    substStar db (c :: r) = (if c = Spec.star then keys db else [c]) ++ substStar db r := by
  simp [substStar]

theorem expandAux_spec {db : BibData} (hdb : DbWF db) {s : CISet} {seen : List Str} (h : SetRel s seen) (cits : List Str) :
    BibData.expandAux db s cits = dedupFrom seen (substStar db.toS cits) := by
  induction cits generalizing s seen with
  | nil => simp [BibData.expandAux, substStar, dedupFrom]
  | cons c r ih =>
    rw [substStar_cons]
    simp only [BibData.expandAux]
    by_cases hc : c = Pybtex.star
    · have hc' : c = Spec.star := hc
      rw [if_pos hc, if_pos hc', dedupFrom_append, iter_entries hdb]
      obtain ⟨h1, h2⟩ := expandStar_spec h (keys db.toS)
      rw [h1, ih h2]
    · have hc' : ¬ c = Spec.star := hc
      rw [if_neg hc, if_neg hc']
      simp only [List.cons_append, List.nil_append, dedupFrom, h c]
      split
      · exact ih h
      · rw [ih (h.add c)]

theorem expandWildcard_spec {db : BibData} (hdb : DbWF db) (cits : List Str) :
    db.expandWildcard cits = expanded db.toS cits :=
  expandAux_spec hdb SetRel.empty cits

end Pybtex
