/-
Round trip on clean text, stages "group → command → program".
-/
import PybtexModel.Lemmas.BstGroup

namespace Pybtex.Bst
open Pybtex.Scanner

/-- the token lemma for an arbitrary pattern list -/
theorem required_text {κ : Type} (pats : List (κ × Pattern)) (k : κ) (text rest w : Str)
    (hne : text ≠ []) (hhead : headSat isWs text = false) (hw : White w)
    (hfm : firstMatch pats (text ++ rest) = some (k, text, rest)) (d : Option Str) (a : Bool)
    (ln : Nat) :
    required pats d a ⟨w ++ (text ++ rest), ln⟩ = .ok ((k, text), ⟨rest, ln + w.count '\n'⟩) := by
  rw [required_eq]
  have hh : headSat isWs (text ++ rest) = false := by
    rw [headSat_append_of_ne_nil _ _ _ hne]; exact hhead
  rw [eatWs_append w (text ++ rest) ln (fun c hc => (hw c hc).1) hh, hw.countNewlines]
  simp only []
  cases htext : text ++ rest with
  | nil => simp at htext; exact absurd htext.1 hne
  | cons c r =>
    simp only []
    rw [← htext, hfm]

theorem renderW_length (ls : List Lex) (hok : ∀ l ∈ ls, LexOK l) (W : List Str) :
    ls.length ≤ (renderW ls W).length := by
  induction ls generalizing W with
  | nil => simp
  | cons l ls ih =>
    have h1 := ih (fun x hx => hok x (by simp [hx])) W.tail
    have h2 : 0 < l.text.length := List.length_pos_iff.mpr (lex_text_ne_nil l (hok l (by simp)))
    simp only [renderW, List.length_append, List.length_cons]
    omega

theorem renderWT_length (T : Str) (ls : List Lex) (hok : ∀ l ∈ ls, LexOK l) (W : List Str) :
    ls.length ≤ (renderWT T ls W).length := by
  rw [renderWT_eq, List.length_append]
  have := renderW_length ls hok W
  omega

theorem groupLexemes_ok (g : List Tok) (h : wfToks g = true) : ∀ l ∈ groupLexemes g, LexOK l := by
  intro l hl
  simp only [groupLexemes, List.mem_cons, List.mem_append, List.not_mem_nil, or_false] at hl
  rcases hl with rfl | hl | rfl
  · trivial
  · exact lexemesList_ok g h l hl
  · trivial

theorem groupsLexemes_ok (gs : List (List Tok)) (h : gs.all wfToks = true) :
    ∀ l ∈ groupsLexemes gs, LexOK l := by
  induction gs with
  | nil => intro l hl; simp [groupsLexemes] at hl
  | cons g gs ih =>
    simp only [List.all_cons, Bool.and_eq_true] at h
    intro l hl
    simp only [groupsLexemes, List.mem_append] at hl
    rcases hl with hl | hl
    · exact groupLexemes_ok g h.1 l hl
    · exact ih h.2 l hl

/-- **stage "argument groups"** -/
theorem groups_rtT (T : Str) (hT : TailOK T) : ∀ (gs : List (List Tok)) (prev : Option Lex) (more : List Lex) (W : List Str)
    (ln : Nat), gs.all wfToks = true → (∀ x ∈ more, LexOK x) →
    GoodW prev (groupsLexemes gs ++ more) W →
    ∃ W' ln', parseGroups gs.length ⟨renderWT T (groupsLexemes gs ++ more) W, ln⟩
        = .ok (gs, ⟨renderWT T more W', ln'⟩) ∧
      GoodW (if gs = [] then prev else some .rb) more W' ∧
      ln' + nl (renderWT T more W') = ln + nl (renderWT T (groupsLexemes gs ++ more) W) ∧
      W' = W.drop (groupsLexemes gs).length := by
  intro gs
  induction gs with
  | nil =>
    intro prev more W ln _ _ hg
    exact ⟨W, ln, by simp [parseGroups, groupsLexemes], by simpa [groupsLexemes] using hg,
      by simp [groupsLexemes], by simp [groupsLexemes]⟩
  | cons g gs ih =>
    intro prev more W ln hwf hmore hg
    simp only [List.all_cons, Bool.and_eq_true] at hwf
    have hlex : groupsLexemes (g :: gs) ++ more
        = .lb :: (lexemesList g ++ .rb :: (groupsLexemes gs ++ more)) := by
      simp [groupsLexemes, groupLexemes]
    rw [hlex] at hg ⊢
    obtain ⟨hw, _, hg'⟩ := hg
    have hmore' : ∀ x ∈ groupsLexemes gs ++ more, LexOK x := by
      intro x hx
      simp only [List.mem_append] at hx
      rcases hx with hx | hx
      · exact groupsLexemes_ok gs hwf.2 x hx
      · exact hmore x hx
    have hreq := required_text [(TokKind.lbrace, lbracePat)] .lbrace ['{']
      (renderWT T (lexemesList g ++ .rb :: (groupsLexemes gs ++ more)) W.tail) (W.headD [])
      (by simp) (by simp [headSat, isWs, wsCodes]) hw
      (by simp [firstMatch, lbracePat, litPat, matchLit]) none false ln
    have hallok : ∀ x ∈ lexemesList g ++ .rb :: (groupsLexemes gs ++ more), LexOK x := by
      intro x hx
      simp only [List.mem_append, List.mem_cons] at hx
      rcases hx with hx | rfl | hx
      · exact lexemesList_ok g hwf.1 x hx
      · trivial
      · exact hmore' x (by simpa using hx)
    have hfuel : (lexemesList g).length + 1 ≤
        (renderWT T (lexemesList g ++ .rb :: (groupsLexemes gs ++ more)) W.tail).length + 1 := by
      have := renderWT_length T _ hallok W.tail
      simp only [List.length_append, List.length_cons] at this
      omega
    obtain ⟨W1, ln1, hp1, hgood1, hcons1, hdrop1⟩ :=
      group_rtT T hT g (some .lb) (groupsLexemes gs ++ more) W.tail (ln + (W.headD []).count '\n') _
        hwf.1 hmore' hg' hfuel
    obtain ⟨W2, ln2, hp2, hgood2, hcons2, hdrop2⟩ := ih (some .rb) more W1 ln1 hwf.2 hmore hgood1
    refine ⟨W2, ln2, ?_, ?_, ?_, ?_⟩
    rotate_left 3
    · rw [hdrop2, hdrop1, tail_drop, List.drop_drop]
      congr 1
      simp [groupsLexemes, groupLexemes]; omega
    · simp only [List.length_cons, parseGroups, renderWT]
      simp only [Lex.text, List.singleton_append] at hreq ⊢
      rw [hreq]
      simp only [parseGroup, hp1, hp2]
    · simp only [reduceCtorEq, if_false]
      by_cases hgs : gs = []
      · simpa [hgs] using hgood2
      · simpa [hgs] using hgood2
    · rw [hcons2, hcons1]
      simp only [renderWT, nl_append, Lex.text]
      simp only [nl]; simp; omega

theorem groups_rt : ∀ (gs : List (List Tok)) (prev : Option Lex) (more : List Lex) (W : List Str)
    (ln : Nat), gs.all wfToks = true → (∀ x ∈ more, LexOK x) →
    GoodW prev (groupsLexemes gs ++ more) W →
    ∃ W' ln', parseGroups gs.length ⟨renderW (groupsLexemes gs ++ more) W, ln⟩
        = .ok (gs, ⟨renderW more W', ln'⟩) ∧
      GoodW (if gs = [] then prev else some .rb) more W' ∧
      ln' + nl (renderW more W') = ln + nl (renderW (groupsLexemes gs ++ more) W) ∧
      W' = W.drop (groupsLexemes gs).length := by
  simpa only [renderWT_nil] using groups_rtT [] TailOK.nil

theorem cmdArity_of_wf {c : Command} (h : wfCommand c = true) :
    wfName c.name = true ∧ cmdArity c.name = some c.groups.length ∧ c.groups.all wfToks = true := by
  simp only [wfCommand, Bool.and_eq_true, beq_iff_eq] at h
  exact ⟨h.1.1, h.1.2, h.2⟩

theorem command_lexemes_ok (c : Command) (h : wfCommand c = true) : ∀ l ∈ c.lexemes, LexOK l := by
  obtain ⟨h1, _, h3⟩ := cmdArity_of_wf h
  obtain ⟨n1, n2, _⟩ := wfName_ok h1
  intro l hl
  simp only [Command.lexemes, List.mem_cons] at hl
  rcases hl with rfl | hl
  · exact ⟨n1, n2⟩
  · exact groupsLexemes_ok _ h3 l hl

theorem program_lexemes_ok (p : Program) (h : WFProg p) : ∀ l ∈ Program.lexemes p, LexOK l := by
  induction p with
  | nil => intro l hl; simp [Program.lexemes] at hl
  | cons c p ih =>
    unfold WFProg at h ih
    simp only [List.all_cons, Bool.and_eq_true] at h
    intro l hl
    simp only [Program.lexemes, List.mem_append] at hl
    rcases hl with hl | hl
    · exact command_lexemes_ok c h.1 l hl
    · exact ih h.2 l hl

/-- **stage "command"** -/
theorem command_rtT (T : Str) (hT : TailOK T) (c : Command) (prev : Option Lex) (more : List Lex) (W : List Str) (ln : Nat)
    (hwf : wfCommand c = true) (hmore : ∀ x ∈ more, LexOK x)
    (hg : GoodW prev (c.lexemes ++ more) W) :
    ∃ W' ln' prev', parseCommand ⟨renderWT T (c.lexemes ++ more) W, ln⟩
        = .ok (c, ⟨renderWT T more W', ln'⟩) ∧ GoodW prev' more W' ∧
      ln' + nl (renderWT T more W') = ln + nl (renderWT T (c.lexemes ++ more) W) ∧
      W' = W.drop c.lexemes.length := by
  obtain ⟨h1, h2, h3⟩ := cmdArity_of_wf hwf
  obtain ⟨n1, n2, _⟩ := wfName_ok h1
  have hlex : c.lexemes ++ more = .word c.name :: (groupsLexemes c.groups ++ more) := by
    simp [Command.lexemes]
  rw [hlex] at hg ⊢
  obtain ⟨hw, _, hg'⟩ := hg
  have hfol := follows_of_goodT T hT (.word c.name) _ _ hg'
  have hok : LexOK (.word c.name) := ⟨n1, n2⟩
  have hreq := required_text [(TokKind.name, namePat)] .name c.name
    (renderWT T (groupsLexemes c.groups ++ more) W.tail) (W.headD []) n1 (lex_text_head _ hok) hw
    (by
      cases hn : c.name with
      | nil => exact absurd hn n1
      | cons ch r =>
        have := matchRun1_append isNameChar ch r _ (by rw [← hn]; exact n2) hfol
        simp only [List.cons_append] at this
        simp only [firstMatch, namePat, runPat, List.cons_append, this])
    (some "BST command".toList) true ln
  obtain ⟨W1, ln1, hp1, hgood1, hcons1, hdrop1⟩ :=
    groups_rtT T hT c.groups (some (.word c.name)) more W.tail (ln + (W.headD []).count '\n') h3 hmore hg'
  refine ⟨W1, ln1, _, ?_, hgood1, ?_, by rw [hdrop1, tail_drop]; simp [Command.lexemes]⟩
  · simp only [parseCommand, renderWT, Lex.text]
    rw [hreq]
    simp only [cmdArityM_eq, h2, hp1]
  · rw [hcons1]
    simp only [renderWT, nl_append, lex_text_no_nl _ hok]
    simp only [nl]; omega

theorem command_rt (c : Command) (prev : Option Lex) (more : List Lex) (W : List Str) (ln : Nat)
    (hwf : wfCommand c = true) (hmore : ∀ x ∈ more, LexOK x)
    (hg : GoodW prev (c.lexemes ++ more) W) :
    ∃ W' ln' prev', parseCommand ⟨renderW (c.lexemes ++ more) W, ln⟩
        = .ok (c, ⟨renderW more W', ln'⟩) ∧ GoodW prev' more W' ∧
      ln' + nl (renderW more W') = ln + nl (renderW (c.lexemes ++ more) W) ∧
      W' = W.drop c.lexemes.length := by
  simpa only [renderWT_nil] using command_rtT [] TailOK.nil c prev more W ln hwf hmore hg

/-- at the end of the text `parse_command` signals `EOFError` -/
theorem parseCommand_eof (w : Str) (hw : White w) (ln : Nat) :
    parseCommand ⟨w, ln⟩ = .error .eof := by
  have h := eatWs_append w [] ln (fun c hc => (hw c hc).1) (by simp [headSat])
  simp only [List.append_nil] at h
  simp only [parseCommand, required_eq, h, if_true]

/-- **stage "program"** -/
theorem program_rt : ∀ (p : Program) (prev : Option Lex) (W : List Str) (ln fuel : Nat),
    WFProg p → GoodW prev (Program.lexemes p) W → p.length + 1 ≤ fuel →
    parseF fuel ⟨renderW (Program.lexemes p) W, ln⟩ = .ok p := by
  intro p
  induction p with
  | nil =>
    intro prev W ln fuel _ hg hfuel
    cases fuel with
    | zero => simp at hfuel
    | succ fuel =>
      simp only [Program.lexemes, renderW, parseF]
      rw [parseCommand_eof _ hg]
  | cons c p ih =>
    intro prev W ln fuel hwf hg hfuel
    have hwf' := hwf
    unfold WFProg at hwf'
    simp only [List.all_cons, Bool.and_eq_true] at hwf'
    have hwfp : WFProg p := hwf'.2
    cases fuel with
    | zero => simp at hfuel
    | succ fuel =>
      obtain ⟨W1, ln1, prev1, hp1, hgood1, _, _⟩ :=
        command_rt c prev (Program.lexemes p) W ln hwf'.1 (program_lexemes_ok p hwfp) hg
      simp only [Program.lexemes, parseF, hp1]
      rw [ih prev1 W1 ln1 fuel hwfp hgood1 (by simp at hfuel; omega)]

/-- **stage "program", with a continuation**: the commands of a well-formed program are read
one by one; parsing goes on behind them with the white strings that are left and the line
number advanced by the `\n`s passed -/
theorem program_prefix_rtT (T : Str) (hT : TailOK T) : ∀ (p : Program) (prev : Option Lex) (more : List Lex) (W : List Str)
    (ln fuel : Nat), WFProg p → (∀ x ∈ more, LexOK x) → GoodW prev (Program.lexemes p ++ more) W →
    ∃ ln' prev', parseF (fuel + p.length) ⟨renderWT T (Program.lexemes p ++ more) W, ln⟩
        = (match parseF fuel ⟨renderWT T more (W.drop (Program.lexemes p).length), ln'⟩ with
           | .error e => .error e
           | .ok q => .ok (p ++ q)) ∧
      GoodW prev' more (W.drop (Program.lexemes p).length) ∧
      ln' + nl (renderWT T more (W.drop (Program.lexemes p).length))
        = ln + nl (renderWT T (Program.lexemes p ++ more) W) := by
  intro p
  induction p with
  | nil =>
    intro prev more W ln fuel _ _ hg
    refine ⟨ln, prev, ?_, by simpa [Program.lexemes] using hg, by simp [Program.lexemes]⟩
    simp only [Program.lexemes, List.nil_append, List.length_nil, Nat.add_zero, List.drop_zero]
    cases parseF fuel ⟨renderWT T more W, ln⟩ <;> rfl
  | cons c p ih =>
    intro prev more W ln fuel hwf hmore hg
    have hwf' := hwf
    unfold WFProg at hwf'
    simp only [List.all_cons, Bool.and_eq_true] at hwf'
    have hwfp : WFProg p := hwf'.2
    have hlex : Program.lexemes (c :: p) ++ more = c.lexemes ++ (Program.lexemes p ++ more) := by
      simp [Program.lexemes]
    have hmore' : ∀ x ∈ Program.lexemes p ++ more, LexOK x := by
      intro x hx
      simp only [List.mem_append] at hx
      rcases hx with hx | hx
      · exact program_lexemes_ok p hwfp x hx
      · exact hmore x hx
    rw [hlex] at hg ⊢
    obtain ⟨W1, ln1, prev1, hp1, hgood1, hcons1, hdrop1⟩ :=
      command_rtT T hT c prev (Program.lexemes p ++ more) W ln hwf'.1 hmore' hg
    obtain ⟨ln2, prev2, hp2, hgood2, hcons2⟩ := ih prev1 more W1 ln1 fuel hwfp hmore hgood1
    have hd : W1.drop (Program.lexemes p).length = W.drop (Program.lexemes (c :: p)).length := by
      rw [hdrop1, List.drop_drop]; congr 1; simp [Program.lexemes]
    rw [hd] at hp2 hgood2 hcons2
    refine ⟨ln2, prev2, ?_, hgood2, by rw [hcons2, hcons1]⟩
    have hf : fuel + (c :: p).length = (fuel + p.length) + 1 := by simp; omega
    rw [hf]
    simp only [parseF, hp1, hp2]
    cases parseF fuel ⟨renderWT T more (W.drop (Program.lexemes (c :: p)).length), ln2⟩ <;> rfl

theorem program_prefix_rt : ∀ (p : Program) (prev : Option Lex) (more : List Lex) (W : List Str)
    (ln fuel : Nat), WFProg p → (∀ x ∈ more, LexOK x) → GoodW prev (Program.lexemes p ++ more) W →
    ∃ ln' prev', parseF (fuel + p.length) ⟨renderW (Program.lexemes p ++ more) W, ln⟩
        = (match parseF fuel ⟨renderW more (W.drop (Program.lexemes p).length), ln'⟩ with
           | .error e => .error e
           | .ok q => .ok (p ++ q)) ∧
      GoodW prev' more (W.drop (Program.lexemes p).length) ∧
      ln' + nl (renderW more (W.drop (Program.lexemes p).length))
        = ln + nl (renderW (Program.lexemes p ++ more) W) := by
  simpa only [renderWT_nil] using program_prefix_rtT [] TailOK.nil

theorem program_length_le (p : Program) : p.length ≤ (Program.lexemes p).length := by
  induction p with
  | nil => simp
  | cons c p ih => simp [Program.lexemes, Command.lexemes]; omega

/-- clean text of a well-formed program parses back to the program -/
theorem parseText_renderW (p : Program) (W : List Str) (hwf : WFProg p)
    (hg : GoodW none (Program.lexemes p) W) : parseText (renderW (Program.lexemes p) W) = .ok p := by
  unfold parseText St.init
  apply program_rt p none W 1 _ hwf hg
  have h1 := program_length_le p
  have h2 := renderW_length _ (program_lexemes_ok p hwf) W
  omega

end Pybtex.Bst
