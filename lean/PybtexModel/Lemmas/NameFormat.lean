/-
Helper lemmas for C11 (`Props/C11.lean`): the model of `NameFormatParser` / `NamePart`
(`Model/NameFormat.lean`) against the reference grammar and formatting rule of
`Spec/NameFormat.lean`.

Plan.
* `closed1` / `closed2`: closed forms of the `parse_name_part` loop (before / after the letter
  run) in terms of the reference notion `verbatim`; `namePartLoop_some`, `namePartLoop_none`
  show that the loop computes them whenever the fuel exceeds the input length (so the fuel is
  never exhausted).
* from the closed forms: the parser against `Spec.wellformed` and against `Spec.parse`.
* the formatting functions against the reference rule, clause by clause.
-/
import PybtexModel.Model.NameFormat
import PybtexModel.Spec.NameFormat
import PybtexModel.Lemmas.Names

namespace Pybtex
open Spec Spec.NameFormat

namespace NameFormat

/-! ### character classes -/

theorem isAlpha_not_verb {c : Char} (h : isAlpha c = true) : isVerbChar c = false := by
  simp [isVerbChar, h]

theorem isAlpha_ne_open {c : Char} (h : isAlpha c = true) : c ≠ '{' := by
  rintro rfl; revert h; decide

theorem isAlpha_ne_close {c : Char} (h : isAlpha c = true) : c ≠ '}' := by
  rintro rfl; revert h; decide

theorem isAlpha_ne_us {c : Char} (h : isAlpha c = true) : c ≠ '_' := by
  rintro rfl; revert h; decide

theorem isDigit_verb {c : Char} (h : isDigit c = true) : isVerbChar c = true := by
  simp only [isDigit, Bool.and_eq_true, decide_eq_true_eq] at h
  have h1 : c ≠ '{' := by rintro rfl; revert h; decide
  have h2 : c ≠ '}' := by rintro rfl; revert h; decide
  have h3 : c ≠ '_' := by rintro rfl; revert h; decide
  have h4 : isAlpha c = false := by
    simp only [isAlpha, Bool.or_eq_false_iff, Bool.and_eq_false_iff, decide_eq_false_iff_not]
    omega
  simp [isVerbChar, h1, h2, h3, h4]

/-- the first test of the loop after `{`: `[^{}\w]` -/
theorem nonword_verb {c : Char} (h1 : c ≠ '{') (h2 : c ≠ '}') (h3 : isWordChar c = false) :
    isVerbChar c = true := by
  simp only [isWordChar, isAlnum, Bool.or_eq_false_iff, decide_eq_false_iff_not] at h3
  simp [isVerbChar, h1, h2, h3.1.1, h3.2]

theorem word_cases {c : Char} (h : isWordChar c = true) (hd : isDigit c = false) (ha : isAlpha c = false) :
    c = '_' := by
  simpa [isWordChar, isAlnum, hd, ha] using h

/-! ### `verbatim`, `group`, `takeBraced` -/

theorem verbatim_nil (d : Nat) : verbatim d [] = ([], []) := by
  cases d <;> rfl

theorem verbatim_zero_open (r : Str) :
    verbatim 0 ('{' :: r) = ('{' :: (verbatim 1 r).1, (verbatim 1 r).2) := by
  simp [verbatim]

theorem verbatim_zero_verb {c : Char} (r : Str) (h : isVerbChar c = true) :
    verbatim 0 (c :: r) = (c :: (verbatim 0 r).1, (verbatim 0 r).2) := by
  have : c ≠ '{' := by rintro rfl; revert h; decide
  simp [verbatim, this, h]

theorem verbatim_zero_stop {c : Char} (r : Str) (h1 : c ≠ '{') (h : isVerbChar c = false) :
    verbatim 0 (c :: r) = ([], c :: r) := by
  simp [verbatim, h1, h]

theorem verbatim_succ (d : Nat) (c : Char) (r : Str) :
    verbatim (d + 1) (c :: r) =
      (c :: (verbatim (if c = '{' then d + 2 else if c = '}' then d else d + 1) r).1,
       (verbatim (if c = '{' then d + 2 else if c = '}' then d else d + 1) r).2) := by
  simp [verbatim]

theorem group_eq_takeBraced (d : Nat) (s : Str) : group d s = takeBraced d s := by
  induction s generalizing d with
  | nil => simp [group, takeBraced]
  | cons c r ih =>
    simp only [group, takeBraced]
    split
    · cases d with
      | zero => simp
      | succ d' => simp [ih]
    · split <;> simp [ih]

/-- a group inside verbatim text: its content, the closing brace, then more verbatim text -/
theorem verbatim_takeBraced (d : Nat) (r : Str) :
    verbatim (d + 1) r =
      match takeBraced d r with
      | none => (r, [])
      | some (g, rest) => (g ++ '}' :: (verbatim 0 rest).1, (verbatim 0 rest).2) := by
  induction r generalizing d with
  | nil => simp [verbatim, takeBraced]
  | cons c r ih =>
    rw [verbatim_succ]
    simp only [takeBraced]
    by_cases hc : c = '}'
    · subst hc
      simp only [if_true, show ('}' : Char) ≠ '{' by decide, if_false]
      cases d with
      | zero => simp
      | succ d' =>
        simp only [Nat.add_one_ne_zero, if_false, Nat.add_sub_cancel]
        rw [ih d']
        cases takeBraced d' r with
        | none => simp
        | some p => simp
    · simp only [hc, if_false]
      by_cases ho : c = '{'
      · subst ho
        simp only [if_true]
        rw [ih (d + 1)]
        cases takeBraced (d + 1) r with
        | none => simp
        | some p => simp
      · simp only [ho, if_false]
        rw [ih d]
        cases takeBraced d r with
        | none => simp
        | some p => simp

theorem takeBraced_length {d : Nat} {s g rest : Str} (h : takeBraced d s = some (g, rest)) :
    rest.length < s.length := by
  rw [← group_eq_takeBraced] at h; exact group_length h

/-- verbatim characters in front -/
theorem verbatim_append_verb (l r : Str) (h : ∀ c ∈ l, isVerbChar c = true) :
    verbatim 0 (l ++ r) = (l ++ (verbatim 0 r).1, (verbatim 0 r).2) := by
  induction l with
  | nil => simp
  | cons c l ih =>
    rw [List.cons_append, verbatim_zero_verb _ (h c (by simp)), ih (fun x hx => h x (by simp [hx]))]
    simp

/-- what `verbatim` stops at -/
theorem verbatim_stop (d : Nat) (s : Str) :
    (verbatim d s).2 = [] ∨
      ∃ c r, (verbatim d s).2 = c :: r ∧ c ≠ '{' ∧ isVerbChar c = false := by
  induction s generalizing d with
  | nil => simp [verbatim_nil]
  | cons c r ih =>
    cases d with
    | zero =>
      by_cases ho : c = '{'
      · subst ho; rw [verbatim_zero_open]; exact ih 1
      · by_cases hv : isVerbChar c = true
        · rw [verbatim_zero_verb _ hv]; exact ih 0
        · have hv' : isVerbChar c = false := by simpa using hv
          rw [verbatim_zero_stop _ ho hv']
          exact Or.inr ⟨c, r, rfl, ho, hv'⟩
    | succ d => rw [verbatim_succ]; exact ih _

theorem stop_cases {c : Char} (h1 : c ≠ '{') (h : isVerbChar c = false) :
    c = '}' ∨ c = '_' ∨ isAlpha c = true := by
  simp only [isVerbChar, Bool.and_eq_false_iff, Bool.not_eq_false', decide_eq_false_iff_not,
    Decidable.not_not] at h
  rcases h with ((h | h) | h) | h
  · exact absurd h h1
  · exact Or.inl h
  · exact Or.inr (Or.inl h)
  · exact Or.inr (Or.inr h)

/-- closed form of the `parse_name_part` loop once the letter run `f` has been read -/
def closed2 (s pre f : Str) (delim : Option Str) (post : Str) : Except FmtErr (FmtPart × Str) :=
  match (verbatim 0 s).2 with
  | [] => .error .unbalanced
  | c :: rest =>
    if c = '}' then .ok (.part pre (some f) delim (post ++ (verbatim 0 s).1), rest)
    else if isAlpha c then .error .illegalLetters
    else .error .tokenRequired

theorem closed2_stop {c : Char} (r pre f : Str) (delim : Option Str) (post : Str)
    (h1 : c ≠ '{') (h : isVerbChar c = false) :
    closed2 (c :: r) pre f delim post =
      if c = '}' then .ok (.part pre (some f) delim post, r)
      else if isAlpha c then .error .illegalLetters
      else .error .tokenRequired := by
  simp [closed2, verbatim_zero_stop r h1 h]

theorem closed2_verb (l r pre f : Str) (delim : Option Str) (post : Str)
    (h : ∀ c ∈ l, isVerbChar c = true) :
    closed2 (l ++ r) pre f delim post = closed2 r pre f delim (post ++ l) := by
  simp [closed2, verbatim_append_verb l r h]

theorem closed2_group (r pre f : Str) (delim : Option Str) (post : Str) :
    closed2 ('{' :: r) pre f delim post =
      match takeBraced 0 r with
      | none => .error .unbalanced
      | some (g, rest) => closed2 rest pre f delim (post ++ ['{'] ++ g ++ ['}']) := by
  simp only [closed2, verbatim_zero_open, verbatim_takeBraced]
  cases takeBraced 0 r with
  | none => simp
  | some p => simp

theorem mem_takeWhile {α} {p : α → Bool} {l : List α} {x : α} (h : x ∈ l.takeWhile p) : p x = true := by
  induction l with
  | nil => simp at h
  | cons a l ih =>
    simp only [List.takeWhile_cons] at h
    split at h
    · rename_i ha
      rcases List.mem_cons.1 h with rfl | h'
      · exact ha
      · exact ih h'
    · simp at h

theorem dropWhile_length_lt {α} {p : α → Bool} {c : α} {r : List α} (h : p c = true) :
    ((c :: r).dropWhile p).length ≤ r.length := by
  simp only [List.dropWhile_cons, h, if_true]
  exact (List.dropWhile_sublist p).length_le

theorem namePartLoop_some (fuel : Nat) (s pre f : Str) (delim : Option Str) (post : Str)
    (h : s.length < fuel) :
    namePartLoop fuel s pre (some f) delim post = closed2 s pre f delim post := by
  induction fuel generalizing s post with
  | zero => omega
  | succ fuel ih =>
    cases s with
    | nil => simp [namePartLoop, closed2, verbatim_nil]
    | cons c r =>
      rw [namePartLoop]
      simp only [List.length_cons] at h
      split
      · rename_i ho
        subst ho
        rw [closed2_group]
        cases hb : takeBraced 0 r with
        | none => simp
        | some p =>
          obtain ⟨g, rest⟩ := p
          have := takeBraced_length hb
          simp only [Option.isSome_some, if_true]
          rw [ih _ _ (by omega)]
          simp
      · rename_i ho
        split
        · rename_i hnw
          have hv := nonword_verb ho hnw.1 (by simpa using hnw.2)
          simp only [Option.isSome_some, if_true]
          rw [ih _ _ (by omega)]
          exact (closed2_verb [c] r pre f delim post (by simpa using hv)).symm
        · rename_i hnw
          split
          · rename_i hd
            have hlen := dropWhile_length_lt (r := r) hd
            simp only [Option.isSome_some, if_true]
            rw [ih _ _ (by omega)]
            conv => rhs; rw [← List.takeWhile_append_dropWhile (p := isDigit) (l := c :: r)]
            rw [closed2_verb]
            intro x hx
            exact isDigit_verb (mem_takeWhile hx)
          · rename_i hd
            split
            · rename_i ha
              have : formatCharsOk true (List.takeWhile isAlpha (c :: r)) = false := by
                simp [formatCharsOk]
              simp only [Option.isSome_some, this, Bool.not_false, if_true]
              rw [closed2_stop _ _ _ _ _ ho (isAlpha_not_verb ha)]
              simp [isAlpha_ne_close ha, ha]
            · rename_i ha
              have ha' : isAlpha c = false := by simpa using ha
              have hd' : isDigit c = false := by simpa using hd
              split
              · rename_i hc
                subst hc
                rw [closed2_stop _ _ _ _ _ ho (by decide)]
                simp
              · rename_i hc
                have hw : isWordChar c = true := by simpa [hc] using hnw
                have := word_cases hw hd' ha'
                subst this
                rw [closed2_stop _ _ _ _ _ ho (by decide)]
                simp [ha']

/-- closed form of the `parse_name_part` loop before any letter run -/
def closed1 (s pre : Str) (delim : Option Str) (post : Str) : Except FmtErr (FmtPart × Str) :=
  match (verbatim 0 s).2 with
  | [] => .error .unbalanced
  | c :: rest =>
    if c = '}' then .ok (.part (pre ++ (verbatim 0 s).1) none delim post, rest)
    else if isAlpha c then
      if !formatCharsOk false ((c :: rest).takeWhile isAlpha) then .error .illegalLetters
      else
        match (c :: rest).dropWhile isAlpha with
        | [] => .error .prematureEOF
        | '{' :: x =>
          match takeBraced 0 x with
          | none => .error .unbalanced
          | some (d, y) =>
            closed2 y (pre ++ (verbatim 0 s).1) ((c :: rest).takeWhile isAlpha) (some d) post
        | s2 => closed2 s2 (pre ++ (verbatim 0 s).1) ((c :: rest).takeWhile isAlpha) delim post
    else .error .tokenRequired

theorem closed1_verb (l r pre : Str) (delim : Option Str) (post : Str)
    (h : ∀ c ∈ l, isVerbChar c = true) :
    closed1 (l ++ r) pre delim post = closed1 r (pre ++ l) delim post := by
  simp [closed1, verbatim_append_verb l r h]

theorem closed1_group (r pre : Str) (delim : Option Str) (post : Str) :
    closed1 ('{' :: r) pre delim post =
      match takeBraced 0 r with
      | none => .error .unbalanced
      | some (g, rest) => closed1 rest (pre ++ ['{'] ++ g ++ ['}']) delim post := by
  simp only [closed1, verbatim_zero_open, verbatim_takeBraced]
  cases takeBraced 0 r with
  | none => simp
  | some p => simp

theorem closed1_stop {c : Char} (r pre : Str) (delim : Option Str) (post : Str)
    (h1 : c ≠ '{') (h : isVerbChar c = false) :
    closed1 (c :: r) pre delim post =
      if c = '}' then .ok (.part pre none delim post, r)
      else if isAlpha c then
        if !formatCharsOk false ((c :: r).takeWhile isAlpha) then .error .illegalLetters
        else
          match (c :: r).dropWhile isAlpha with
          | [] => .error .prematureEOF
          | '{' :: x =>
            match takeBraced 0 x with
            | none => .error .unbalanced
            | some (d, y) => closed2 y pre ((c :: r).takeWhile isAlpha) (some d) post
          | s2 => closed2 s2 pre ((c :: r).takeWhile isAlpha) delim post
      else .error .tokenRequired := by
  simp [closed1, verbatim_zero_stop r h1 h]

theorem namePartLoop_none (fuel : Nat) (s pre : Str) (delim : Option Str) (post : Str)
    (h : s.length < fuel) :
    namePartLoop fuel s pre none delim post = closed1 s pre delim post := by
  induction fuel generalizing s pre with
  | zero => omega
  | succ fuel ih =>
    cases s with
    | nil => simp [namePartLoop, closed1, verbatim_nil]
    | cons c r =>
      rw [namePartLoop]
      simp only [List.length_cons] at h
      split
      · rename_i ho
        subst ho
        rw [closed1_group]
        cases hb : takeBraced 0 r with
        | none => simp
        | some p =>
          obtain ⟨g, rest⟩ := p
          have := takeBraced_length hb
          simp only [Option.isSome_none, Bool.false_eq_true, if_false]
          rw [ih _ _ (by omega)]
          simp
      · rename_i ho
        split
        · rename_i hnw
          have hv := nonword_verb ho hnw.1 (by simpa using hnw.2)
          simp only [Option.isSome_none, Bool.false_eq_true, if_false]
          rw [ih _ _ (by omega)]
          exact (closed1_verb [c] r pre delim post (by simpa using hv)).symm
        · rename_i hnw
          split
          · rename_i hd
            have hlen := dropWhile_length_lt (r := r) hd
            simp only [Option.isSome_none, Bool.false_eq_true, if_false]
            rw [ih _ _ (by omega)]
            conv => rhs; rw [← List.takeWhile_append_dropWhile (p := isDigit) (l := c :: r)]
            rw [closed1_verb]
            intro x hx
            exact isDigit_verb (mem_takeWhile hx)
          · rename_i hd
            split
            · rename_i ha
              rw [closed1_stop _ _ _ _ ho (isAlpha_not_verb ha)]
              simp only [isAlpha_ne_close ha, if_false, ha, if_true, Option.isSome_none]
              have hlen := dropWhile_length_lt (r := r) ha
              split
              · rfl
              · generalize hs2 : List.dropWhile isAlpha (c :: r) = s2 at hlen
                rcases s2 with _ | ⟨a, x⟩
                · rfl
                · by_cases ha2 : a = '{'
                  · subst ha2
                    simp only [List.length_cons] at hlen
                    cases hb : takeBraced 0 x with
                    | none => simp [hb]
                    | some p =>
                      obtain ⟨d, y⟩ := p
                      have := takeBraced_length hb
                      simp only [hb]
                      rw [namePartLoop_some _ _ _ _ _ _ (by omega)]
                  · simp only [List.length_cons] at hlen
                    split
                    · rename_i h; cases h
                    · rename_i h; cases h; exact absurd rfl ha2
                    · split
                      · rename_i h; cases h
                      · rename_i h; cases h; exact absurd rfl ha2
                      · rw [namePartLoop_some _ _ _ _ _ _ (by simp; omega)]
            · rename_i ha
              have ha' : isAlpha c = false := by simpa using ha
              have hd' : isDigit c = false := by simpa using hd
              split
              · rename_i hc
                subst hc
                rw [closed1_stop _ _ _ _ ho (by decide)]
                simp
              · rename_i hc
                have hw : isWordChar c = true := by simpa [hc] using hnw
                have := word_cases hw hd' ha'
                subst this
                rw [closed1_stop _ _ _ _ ho (by decide)]
                simp [ha']

/-! ### what the parser returns -/

/-- invariant of the parts the parser produces -/
def PartOk : FmtPart → Prop
  | .text _ => True
  | .part _ none delim post => delim = none ∧ post = []
  | .part _ (some run) _ _ => formatCharsOk false run = true

theorem closed2_ok {s pre f : Str} {delim : Option Str} {post : Str} {p : FmtPart} {rest : Str}
    (h : closed2 s pre f delim post = .ok (p, rest)) :
    p = .part pre (some f) delim (post ++ (verbatim 0 s).1) ∧ rest.length < s.length := by
  unfold closed2 at h
  have hl := verbatim_length 0 s
  split at h
  · cases h
  · rename_i c rest' hv
    rw [hv] at hl
    split at h
    · cases h; simp at hl; exact ⟨rfl, by omega⟩
    · split at h <;> cases h

theorem closed2_error {s pre f : Str} {delim : Option Str} {post : Str} {e : FmtErr}
    (h : closed2 s pre f delim post = .error e) : e ≠ .internal ∧ e ≠ .tooDeep := by
  unfold closed2 at h
  split at h
  · cases h; simp
  · split at h
    · cases h
    · split at h <;> cases h <;> simp

theorem closed1_ok {s pre : Str} {p : FmtPart} {rest : Str}
    (h : closed1 s pre none [] = .ok (p, rest)) :
    PartOk p ∧ rest.length < s.length ∧ ∃ a b c d, p = .part a b c d := by
  unfold closed1 at h
  have hl := verbatim_length 0 s
  split at h
  · cases h
  · rename_i c rest' hv
    rw [hv] at hl
    split at h
    · cases h; simp at hl; exact ⟨⟨rfl, rfl⟩, by omega, _, _, _, _, rfl⟩
    · split at h
      · rename_i ha
        split at h
        · cases h
        · rename_i hf
          have hf' : formatCharsOk false (List.takeWhile isAlpha (c :: rest')) = true := by simpa using hf
          have hlen := dropWhile_length_lt (r := rest') ha
          generalize List.dropWhile isAlpha (c :: rest') = s2 at h hlen
          split at h
          · cases h
          · rename_i x
            split at h
            · cases h
            · rename_i d y hb
              have := takeBraced_length hb
              obtain ⟨h1, h2⟩ := closed2_ok h
              simp at hl hlen
              exact ⟨by rw [h1]; exact hf', by omega, _, _, _, _, h1⟩
          · obtain ⟨h1, h2⟩ := closed2_ok h
            simp at hl
            exact ⟨by rw [h1]; exact hf', by omega, _, _, _, _, h1⟩
      · cases h

theorem closed1_error {s pre : Str} {delim : Option Str} {post : Str} {e : FmtErr}
    (h : closed1 s pre delim post = .error e) : e ≠ .internal ∧ e ≠ .tooDeep := by
  unfold closed1 at h
  split at h
  · cases h; simp
  · split at h
    · cases h
    · split at h
      · split at h
        · cases h; simp
        · split at h
          · cases h; simp
          · split at h
            · cases h; simp
            · exact closed2_error h
          · exact closed2_error h
      · cases h; simp

/-! ### the top level -/

theorem parseFormatAux_nil (fuel : Nat) : parseFormatAux (fuel + 1) [] = .ok [] := rfl

theorem parseFormatAux_open (fuel : Nat) (r : Str) :
    parseFormatAux (fuel + 1) ('{' :: r) =
      match closed1 r [] none [] with
      | .error e => .error e
      | .ok (p, rest) =>
        match parseFormatAux fuel rest with
        | .error e => .error e
        | .ok ps => .ok (p :: ps) := by
  rw [parseFormatAux]
  simp only [if_true]
  rw [namePartLoop_none _ _ _ _ _ (by omega)]
  cases closed1 r [] none [] with
  | error e => rfl
  | ok pr => rfl

theorem parseFormatAux_close (fuel : Nat) (r : Str) :
    parseFormatAux (fuel + 1) ('}' :: r) = .error .unbalanced := by
  rw [parseFormatAux]; simp

def notBrace (x : Char) : Bool := decide (x ≠ '{' ∧ x ≠ '}')

theorem parseFormatAux_text (fuel : Nat) (c : Char) (r : Str) (h1 : c ≠ '{') (h2 : c ≠ '}') :
    parseFormatAux (fuel + 1) (c :: r) =
      match parseFormatAux fuel (r.dropWhile notBrace) with
      | .error e => .error e
      | .ok ps => .ok (.text (c :: r.takeWhile notBrace) :: ps) := by
  rw [parseFormatAux]
  simp only [h1, h2, if_false]
  have hc : (decide (c ≠ '{' ∧ c ≠ '}')) = true := by simp [h1, h2]
  simp only [List.takeWhile_cons, List.dropWhile_cons, hc, if_true]
  rfl

/-- the fuel of `parse` is never exhausted, and more fuel changes nothing -/
theorem parseFormatAux_fuel (fuel : Nat) (s : Str) (h : s.length < fuel) :
    parseFormatAux fuel s = parseFormat s := by
  unfold parseFormat
  induction fuel using Nat.strongRecOn generalizing s with
  | _ fuel ih =>
    cases fuel with
    | zero => omega
    | succ fuel =>
      cases s with
      | nil => rfl
      | cons c r =>
        simp only [List.length_cons] at h ⊢
        by_cases ho : c = '{'
        · subst ho
          rw [parseFormatAux_open, parseFormatAux_open]
          cases hc : closed1 r [] none [] with
          | error e => rfl
          | ok pr =>
            obtain ⟨p, rest⟩ := pr
            have := (closed1_ok hc).2.1
            simp only
            rw [ih fuel (by omega) rest (by omega), ih (r.length + 1) (by omega) rest (by omega)]
        · by_cases hc : c = '}'
          · subst hc; rw [parseFormatAux_close, parseFormatAux_close]
          · rw [parseFormatAux_text _ _ _ ho hc, parseFormatAux_text _ _ _ ho hc]
            have := (List.dropWhile_sublist (l := r) notBrace).length_le
            rw [ih fuel (by omega) _ (by omega), ih (r.length + 1) (by omega) _ (by omega)]

theorem parseFormat_nil : parseFormat [] = .ok [] := rfl

theorem parseFormat_open (r : Str) :
    parseFormat ('{' :: r) =
      match closed1 r [] none [] with
      | .error e => .error e
      | .ok (p, rest) =>
        match parseFormat rest with
        | .error e => .error e
        | .ok ps => .ok (p :: ps) := by
  unfold parseFormat
  simp only [List.length_cons]
  rw [parseFormatAux_open]
  cases hc : closed1 r [] none [] with
  | error e => rfl
  | ok pr =>
    obtain ⟨p, rest⟩ := pr
    have := (closed1_ok hc).2.1
    simp only
    rw [parseFormatAux_fuel _ _ (by omega)]; rfl

theorem parseFormat_close (r : Str) : parseFormat ('}' :: r) = .error .unbalanced := by
  unfold parseFormat; simp only [List.length_cons]; rw [parseFormatAux_close]

theorem parseFormat_text (c : Char) (r : Str) (h1 : c ≠ '{') (h2 : c ≠ '}') :
    parseFormat (c :: r) =
      match parseFormat (r.dropWhile notBrace) with
      | .error e => .error e
      | .ok ps => .ok (.text (c :: r.takeWhile notBrace) :: ps) := by
  unfold parseFormat
  simp only [List.length_cons]
  rw [parseFormatAux_text _ _ _ h1 h2]
  have := (List.dropWhile_sublist (l := r) notBrace).length_le
  rw [parseFormatAux_fuel _ _ (by omega)]; rfl

/-- induction principle following the parser -/
theorem parseFormat_induct {motive : Str → Prop}
    (nil : motive [])
    (close : ∀ r, motive ('}' :: r))
    (openErr : ∀ r e, closed1 r [] none [] = .error e → motive ('{' :: r))
    (openOk : ∀ r p rest, closed1 r [] none [] = .ok (p, rest) → motive rest → motive ('{' :: r))
    (text : ∀ c r, c ≠ '{' → c ≠ '}' → motive (r.dropWhile notBrace) → motive (c :: r))
    (s : Str) : motive s := by
  induction h : s.length using Nat.strongRecOn generalizing s with
  | _ n ih =>
    cases s with
    | nil => exact nil
    | cons c r =>
      subst h
      by_cases ho : c = '{'
      · subst ho
        cases hc : closed1 r [] none [] with
        | error e => exact openErr r e hc
        | ok pr =>
          obtain ⟨p, rest⟩ := pr
          have := (closed1_ok hc).2.1
          exact openOk r p rest hc (ih rest.length (by simp; omega) rest rfl)
      · by_cases hc : c = '}'
        · subst hc; exact close r
        · have := (List.dropWhile_sublist (l := r) notBrace).length_le
          exact text c r ho hc (ih _ (by simp; omega) _ rfl)

theorem parseFormat_not_internal (s : Str) : parseFormat s ≠ .error .internal ∧ parseFormat s ≠ .error .tooDeep := by
  induction s using parseFormat_induct with
  | nil => simp [parseFormat_nil]
  | close r => simp [parseFormat_close]
  | openErr r e he => rw [parseFormat_open, he]; have := closed1_error he; simp [this]
  | openOk r p rest hc ih =>
    rw [parseFormat_open, hc]
    simp only
    cases hp : parseFormat rest with
    | error e => rw [hp] at ih; simpa using ih
    | ok ps => simp
  | text c r h1 h2 ih =>
    rw [parseFormat_text _ _ h1 h2]
    cases hp : parseFormat (r.dropWhile notBrace) with
    | error e => rw [hp] at ih; simpa using ih
    | ok ps => simp

theorem parseFormat_partOk {s : Str} {ps : List FmtPart} (h : parseFormat s = .ok ps) :
    ∀ p ∈ ps, PartOk p := by
  induction s using parseFormat_induct generalizing ps with
  | nil => cases h; simp
  | close r => rw [parseFormat_close] at h; cases h
  | openErr r e he => rw [parseFormat_open, he] at h; cases h
  | openOk r p rest hc ih =>
    rw [parseFormat_open, hc] at h
    simp only at h
    cases hp : parseFormat rest with
    | error e => rw [hp] at h; cases h
    | ok ps' =>
      rw [hp] at h; cases h
      intro q hq
      rcases List.mem_cons.1 hq with rfl | hq
      · exact (closed1_ok hc).1
      · exact ih hp q hq
  | text c r h1 h2 ih =>
    rw [parseFormat_text _ _ h1 h2] at h
    cases hp : parseFormat (r.dropWhile notBrace) with
    | error e => rw [hp] at h; cases h
    | ok ps' =>
      rw [hp] at h; cases h
      intro q hq
      rcases List.mem_cons.1 hq with rfl | hq
      · trivial
      · exact ih hp q hq

/-! ### the parser against `Spec.wellformed` -/

theorem wf_zero (seen prev : Bool) (s : Str) :
    wellformedAux 0 seen prev s = wellformedAux 0 false false s := by
  induction s generalizing seen prev with
  | nil => simp [wellformedAux]
  | cons c r ih =>
    simp only [wellformedAux]
    split
    · simp
    · split
      · simp
      · simp only [Nat.zero_ne_one, false_and, if_false]
        rw [ih seen false, ih false false]

theorem wf_prev {d : Nat} {seen : Bool} {s : Str} (h : ∀ c r, s = c :: r → isAlpha c = false) :
    wellformedAux d seen true s = wellformedAux d seen false s := by
  cases s with
  | nil => simp [wellformedAux]
  | cons c r =>
    have := h c r rfl
    simp [wellformedAux, this]

theorem wf_verbatim (d : Nat) (seen prev : Bool) (r : Str) :
    wellformedAux (d + 1) seen (if d = 0 then false else prev) r =
      wellformedAux 1 seen false (verbatim d r).2 := by
  induction r generalizing d prev with
  | nil => simp [verbatim_nil, wellformedAux]
  | cons c r ih =>
    cases d with
    | zero =>
      simp only [if_true]
      by_cases ho : c = '{'
      · subst ho
        rw [verbatim_zero_open]
        simp only [wellformedAux, if_true]
        have := ih 1 false
        simpa using this
      · by_cases hv : isVerbChar c = true
        · rw [verbatim_zero_verb _ hv]
          have h2 : c ≠ '}' := by rintro rfl; revert hv; decide
          have h3 : c ≠ '_' := by rintro rfl; revert hv; decide
          have h4 : isAlpha c = false := by
            cases h : isAlpha c
            · rfl
            · rw [isAlpha_not_verb h] at hv; cases hv
          simp only [wellformedAux, ho, h2, h3, h4, if_false, and_false, Bool.false_eq_true]
          have := ih 0 false
          simpa using this
        · have hv' : isVerbChar c = false := by simpa using hv
          rw [verbatim_zero_stop _ ho hv']
    | succ d =>
      rw [verbatim_succ]
      simp only [Nat.add_one_ne_zero, if_false]
      by_cases ho : c = '{'
      · subst ho
        simp only [wellformedAux, if_true]
        have := ih (d + 2) false
        simpa using this
      · by_cases hc : c = '}'
        · subst hc
          simp only [wellformedAux, ho, if_false, if_true]
          have := ih d false
          simp only [Bool.if_false_right] at this
          simp only [Nat.add_sub_cancel]
          rw [← this]
          cases d <;> simp
        · simp only [wellformedAux, ho, hc, if_false]
          have h1 : ¬ (d + 1 + 1 = 1) := by omega
          simp only [h1, false_and, if_false]
          have := ih (d + 1) false
          simpa using this

theorem wf_letters (l r : Str) (h : ∀ c ∈ l, isAlpha c = true) :
    wellformedAux 1 true true (l ++ r) = wellformedAux 1 true true r := by
  induction l with
  | nil => rfl
  | cons c l ih =>
    have hc := h c (by simp)
    simp only [List.cons_append, wellformedAux, isAlpha_ne_open hc, isAlpha_ne_close hc, if_false,
      hc, and_self, if_true, Bool.true_or, Bool.true_and]
    exact ih (fun x hx => h x (by simp [hx]))

theorem formatCharsOk_true (run : Str) : formatCharsOk true run = false := by
  simp [formatCharsOk]

theorem formatCharsOk_eq (run : Str) : formatCharsOk false run = legalLetters run := by
  unfold formatCharsOk legalLetters
  generalize lower run = v
  match v with
  | [] => decide
  | [a] =>
    simp only [List.length_cons, List.length_nil, List.head?_cons, List.getLast?_singleton]
    by_cases h1 : a = 'f'
    · subst h1; decide
    · by_cases h2 : a = 'l'
      · subst h2; decide
      · by_cases h3 : a = 'v'
        · subst h3; decide
        · by_cases h4 : a = 'j'
          · subst h4; decide
          · simp [h1, h2, h3, h4]
  | [a, b] =>
    simp only [List.length_cons, List.length_nil, List.head?_cons]
    have : [a, b].getLast? = some b := by simp
    rw [this]
    by_cases hab : a = b
    · subst hab
      by_cases h1 : a = 'f'
      · subst h1; decide
      · by_cases h2 : a = 'l'
        · subst h2; decide
        · by_cases h3 : a = 'v'
          · subst h3; decide
          · by_cases h4 : a = 'j'
            · subst h4; decide
            · simp [h1, h2, h3, h4]
    · simp [hab]
      refine ⟨?_, ?_, ?_, ?_⟩ <;> (intro h1 h2; exact hab (h1.trans h2.symm))
  | a :: b :: c :: r =>
    simp

theorem dropWhile_head {α} {p : α → Bool} {l : List α} {a : α} {x : List α}
    (h : l.dropWhile p = a :: x) : p a = false := by
  induction l with
  | nil => simp at h
  | cons b l ih =>
    simp only [List.dropWhile_cons] at h
    split at h
    · exact ih h
    · rename_i hb; cases h; simpa using hb

def okRest : Except FmtErr (FmtPart × Str) → Bool
  | .ok (_, rest) => wellformed rest
  | .error _ => false

theorem wf_closed2 (s pre f : Str) (delim : Option Str) (post : Str) :
    wellformedAux 1 true false s = okRest (closed2 s pre f delim post) := by
  have h := wf_verbatim 0 true false s
  simp only [if_true] at h
  rw [h]
  unfold closed2
  rcases verbatim_stop 0 s with h0 | ⟨c, r, h0, h1, h2⟩
  · rw [h0]; simp [wellformedAux, okRest]
  · rw [h0]
    simp only
    rcases stop_cases h1 h2 with rfl | rfl | ha
    · simp [wellformedAux, okRest, wellformed, wf_zero true false]
    · simp [wellformedAux, okRest]; decide
    · simp [wellformedAux, okRest, isAlpha_ne_open ha, isAlpha_ne_close ha, ha]

theorem wf_closed1 (s pre : Str) (delim : Option Str) (post : Str) :
    wellformedAux 1 false false s = okRest (closed1 s pre delim post) := by
  have h := wf_verbatim 0 false false s
  simp only [if_true] at h
  rw [h]
  unfold closed1
  rcases verbatim_stop 0 s with h0 | ⟨c, r, h0, h1, h2⟩
  · rw [h0]; simp [wellformedAux, okRest]
  · rw [h0]
    simp only
    rcases stop_cases h1 h2 with rfl | rfl | ha
    · simp [wellformedAux, okRest, wellformed]
    · have : isAlpha '_' = false := by decide
      simp [wellformedAux, okRest, this]
    · simp only [wellformedAux, isAlpha_ne_open ha, isAlpha_ne_close ha, ha, if_false, and_self,
        if_true, Bool.false_or, Bool.not_false, Bool.true_and, formatCharsOk_eq]
      cases hl : legalLetters (List.takeWhile isAlpha (c :: r))
      · simp [okRest]
      · simp only [Bool.true_and, Bool.not_true, Bool.false_eq_true, if_false]
        have e : r = (r.takeWhile isAlpha) ++ (c :: r).dropWhile isAlpha := by
          simp [ha]
        have hw : wellformedAux 1 true true r =
            wellformedAux 1 true true ((c :: r).dropWhile isAlpha) := by
          conv => lhs; rw [e]
          exact wf_letters _ _ (fun x hx => mem_takeWhile hx)
        rw [hw]
        have hhead : ∀ a x, (c :: r).dropWhile isAlpha = a :: x → isAlpha a = false := by
          intro a x hax
          exact dropWhile_head hax
        generalize (c :: r).dropWhile isAlpha = s2 at hhead
        rcases s2 with _ | ⟨a, x⟩
        · simp [wellformedAux, okRest]
        · by_cases hao : a = '{'
          · subst hao
            simp only [wellformedAux, if_true]
            have hv := wf_verbatim 1 true false x
            simp only [Nat.add_one_ne_zero, if_false] at hv
            simp only [Nat.reduceAdd, Nat.one_ne_zero, ne_eq, not_false_eq_true, decide_true, Bool.true_and]
            rw [hv, verbatim_takeBraced]
            cases hb : takeBraced 0 x with
            | none => simp [wellformedAux, okRest]
            | some p =>
              obtain ⟨g, y⟩ := p
              simp only
              have h2 := wf_verbatim 0 true false y
              simp only [if_true] at h2
              rw [← h2]
              exact wf_closed2 _ _ _ _ _
          · rw [wf_prev (fun a' x' h' => by cases h'; exact hhead a x rfl)]
            split
            · rename_i h'; cases h'
            · rename_i h'; cases h'; exact absurd rfl hao
            · exact wf_closed2 _ _ _ _ _

theorem okRest_wellformed (s : Str) :
    wellformed s = match parseFormat s with | .ok _ => true | .error _ => false := by
  induction s using parseFormat_induct with
  | nil => rfl
  | close r => rw [parseFormat_close]; simp [wellformed, wellformedAux]
  | openErr r e he =>
    rw [parseFormat_open, he]
    simp only [wellformed, wellformedAux, if_true]
    have := wf_closed1 r [] none []
    simp only [he, okRest] at this
    simpa using this
  | openOk r p rest hc ih =>
    rw [parseFormat_open, hc]
    simp only [wellformed, wellformedAux, if_true]
    have := wf_closed1 r [] none []
    simp only [hc, okRest] at this
    simp only [ne_eq, not_true_eq_false, decide_false, Bool.false_and, Nat.zero_add]
    rw [this, ih]
    cases parseFormat rest <;> rfl
  | text c r h1 h2 ih =>
    rw [parseFormat_text _ _ h1 h2]
    have e : c :: r = (c :: r.takeWhile notBrace) ++ r.dropWhile notBrace := by simp
    have hw : wellformed (c :: r) = wellformed (r.dropWhile notBrace) := by
      rw [e]
      generalize hl : c :: r.takeWhile notBrace = l
      have hl' : ∀ x ∈ l, x ≠ '{' ∧ x ≠ '}' := by
        intro x hx
        rw [← hl] at hx
        rcases List.mem_cons.1 hx with rfl | hx
        · exact ⟨h1, h2⟩
        · simpa [notBrace] using mem_takeWhile hx
      clear hl e
      induction l with
      | nil => rfl
      | cons a l ihl =>
        have ha := hl' a (by simp)
        simp only [wellformed, List.cons_append, wellformedAux, ha.1, ha.2, if_false,
          Nat.zero_ne_one, false_and]
        exact ihl (fun x hx => hl' x (by simp [hx]))
    rw [hw, ih]
    cases parseFormat (r.dropWhile notBrace) <;> rfl

/-! ### the parser against the reference grammar `Spec.NameFormat.parse` -/

def toSpecPart (pre : Str) (fc : Option Str) (delim : Option Str) (post : Str) : Option Part :=
  match fc with
  | none => some ⟨pre, none, delim, post⟩
  | some run => (decodeLetters run).map fun l => ⟨pre, some l, delim, post⟩

def toSpecPieces : List FmtPart → Option (List Piece)
  | [] => some []
  | .text t :: r => (toSpecPieces r).map fun ps => t.map Piece.ch ++ ps
  | .part pre fc delim post :: r =>
    (toSpecPart pre fc delim post).bind fun p => (toSpecPieces r).map fun ps => Piece.part p :: ps

/-- the parser's result on one part, read as a reference part -/
def toSpecRes : Except FmtErr (FmtPart × Str) → Option (Part × Str)
  | .ok (.part pre fc delim post, rest) => (toSpecPart pre fc delim post).map fun p => (p, rest)
  | _ => none

theorem ofLetter_isSome (a : Char) :
    (Slot.ofLetter a).isSome = (a = 'f' || a = 'l' || a = 'v' || a = 'j') := by
  unfold Slot.ofLetter
  by_cases h1 : a = 'f'
  · simp [h1]
  · by_cases h2 : a = 'v'
    · simp [h2]
    · by_cases h3 : a = 'l'
      · simp [h3]
      · by_cases h4 : a = 'j' <;> simp [h1, h2, h3, h4]

theorem decodeLetters_isSome (run : Str) : (decodeLetters run).isSome = formatCharsOk false run := by
  unfold decodeLetters formatCharsOk
  generalize lower run = v
  match v with
  | [] => rfl
  | [a] => simp [ofLetter_isSome]
  | [a, b] =>
    have : [a, b].getLast? = some b := by simp
    simp only [List.length_cons, List.length_nil, List.head?_cons, this]
    by_cases hab : a = b
    · subst hab; simp [ofLetter_isSome]
    · simp [hab]
  | a :: b :: c :: r => simp

theorem toSpecRes_closed2 (s pre run : Str) (sep : Option Str) (l : Letters)
    (hl : decodeLetters run = some l) :
    toSpecRes (closed2 s pre run sep []) =
      match (verbatim 0 s).2 with
      | '}' :: rest => some (⟨pre, some l, sep, (verbatim 0 s).1⟩, rest)
      | _ => none := by
  unfold closed2
  rcases verbatim_stop 0 s with h0 | ⟨c, r, h0, h1, h2⟩
  · rw [h0]; rfl
  · rw [h0]
    by_cases hc : c = '}'
    · subst hc; simp [toSpecRes, toSpecPart, hl]
    · simp only [hc, if_false]
      have : toSpecRes (if isAlpha c = true then Except.error FmtErr.illegalLetters
          else Except.error FmtErr.tokenRequired) = none := by split <;> rfl
      rw [this]
      split
      · rename_i h; cases h; exact absurd rfl hc
      · rfl

theorem parsePart_eq (s : Str) : parsePart s = toSpecRes (closed1 s [] none []) := by
  unfold parsePart closed1
  rcases hv : verbatim 0 s with ⟨pre, s1⟩
  have hstop := verbatim_stop 0 s
  rw [hv] at hstop
  simp only [List.nil_append] at hstop ⊢
  rcases hstop with h0 | ⟨c, r, h0, h1, h2⟩
  · subst h0; rfl
  · subst h0
    simp only
    rcases stop_cases h1 h2 with rfl | rfl | ha
    · simp [toSpecRes, toSpecPart]
    · have : isAlpha '_' = false := by decide
      simp [this, toSpecRes]
    · simp only [isAlpha_ne_close ha, if_false, ha, if_true]
      cases hd : decodeLetters (List.takeWhile isAlpha (c :: r)) with
      | none =>
        have : formatCharsOk false (List.takeWhile isAlpha (c :: r)) = false := by
          rw [← decodeLetters_isSome, hd]; rfl
        simp [this, toSpecRes]
      | some l =>
        have : formatCharsOk false (List.takeWhile isAlpha (c :: r)) = true := by
          rw [← decodeLetters_isSome, hd]; rfl
        simp only [this, Bool.not_true, Bool.false_eq_true, if_false]
        have hhead : ∀ a x, (c :: r).dropWhile isAlpha = a :: x → isAlpha a = false :=
          fun a x hax => dropWhile_head hax
        generalize (c :: r).dropWhile isAlpha = s2 at hhead
        rcases s2 with _ | ⟨a, x⟩
        · simp [verbatim_nil, toSpecRes]
        · by_cases hao : a = '{'
          · subst hao
            simp only [group_eq_takeBraced]
            cases hb : takeBraced 0 x with
            | none => simp [toSpecRes]
            | some p =>
              obtain ⟨g, y⟩ := p
              simp only [Option.map_some]
              rw [toSpecRes_closed2 _ _ _ _ l hd]
              rcases verbatim 0 y with ⟨post, s4⟩
              simp only
              split
              · rfl
              · rename_i hne
                split
                · exact absurd rfl (hne _)
                · rfl
          · split
            · rename_i heq
              split at heq
              · rename_i h; cases h; exact absurd rfl hao
              · cases heq
            · rename_i sep s3 heq
              split at heq
              · rename_i h; cases h; exact absurd rfl hao
              · cases heq
                generalize hR : toSpecRes _ = R
                split at hR
                · rename_i h; cases h
                · rename_i h; cases h; exact absurd rfl hao
                · rw [toSpecRes_closed2 _ _ _ _ l hd] at hR
                  subst hR
                  rcases verbatim 0 (a :: x) with ⟨post, s4⟩
                  simp only
                  split
                  · rfl
                  · rename_i hne
                    split
                    · exact absurd rfl (hne _)
                    · rfl

theorem parse_nil : parse [] = some [] := by rw [parse]

theorem parse_open (r : Str) :
    parse ('{' :: r) =
      match parsePart r with
      | none => none
      | some (p, rest) => (parse rest).map fun ps => Piece.part p :: ps := by
  rw [parse]
  simp only [if_true]
  split <;> simp_all

theorem parse_close (r : Str) : parse ('}' :: r) = none := by
  rw [parse]; simp

theorem parse_text (c : Char) (r : Str) (h1 : c ≠ '{') (h2 : c ≠ '}') :
    parse (c :: r) = (parse r).map fun ps => Piece.ch c :: ps := by
  rw [parse]; simp [h1, h2]

theorem parse_text_append (l r : Str) (h : ∀ c ∈ l, c ≠ '{' ∧ c ≠ '}') :
    parse (l ++ r) = (parse r).map fun ps => l.map Piece.ch ++ ps := by
  induction l with
  | nil => simp
  | cons c l ih =>
    have hc := h c (by simp)
    rw [List.cons_append, parse_text _ _ hc.1 hc.2, ih (fun x hx => h x (by simp [hx]))]
    cases parse r <;> simp

/-- the reference grammar accepts exactly what the parser accepts, with the same reading -/
theorem parse_eq (s : Str) :
    parse s = match parseFormat s with
      | .ok ps => toSpecPieces ps
      | .error _ => none := by
  induction s using parseFormat_induct with
  | nil => rw [parse_nil, parseFormat_nil]; rfl
  | close r => rw [parse_close, parseFormat_close]
  | openErr r e he => rw [parse_open, parseFormat_open, parsePart_eq, he]; rfl
  | openOk r p rest hc ih =>
    rw [parse_open, parseFormat_open, parsePart_eq, hc]
    obtain ⟨_, _, a, b, c, d, rfl⟩ := closed1_ok hc
    simp only [toSpecRes]
    cases hp : toSpecPart a b c d with
    | none =>
      cases parseFormat rest with
      | error e => simp
      | ok ps => simp [toSpecPieces, hp]
    | some sp =>
      simp only [Option.map_some, ih]
      cases parseFormat rest with
      | error e => simp
      | ok ps => simp [toSpecPieces, hp]
  | text c r h1 h2 ih =>
    rw [parseFormat_text _ _ h1 h2]
    have e : c :: r = (c :: r.takeWhile notBrace) ++ r.dropWhile notBrace := by simp
    have hl' : ∀ x ∈ c :: r.takeWhile notBrace, x ≠ '{' ∧ x ≠ '}' := by
      intro x hx
      rcases List.mem_cons.1 hx with rfl | hx
      · exact ⟨h1, h2⟩
      · simpa [notBrace] using mem_takeWhile hx
    rw [e, parse_text_append _ _ hl', ih]
    cases parseFormat (r.dropWhile notBrace) with
    | error e => simp
    | ok ps => simp [toSpecPieces]

end NameFormat
end Pybtex
