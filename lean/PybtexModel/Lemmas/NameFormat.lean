/-
Helper lemmas for C11 (`Props/C11.lean`): the model of `NameFormatParser` / `NamePart`
(`Model/NameFormat.lean`) against the reference grammar and formatting rule of
`Spec/NameFormat.lean`.

Plan.
* `closed1` / `closed2`: closed forms of the `parse_name_part` loop (before / after the letter
  run) in terms of the reference notion `verbatim`; `namePartLoop_some`, `namePartLoop_none`
  show that the loop computes them whenever the fuel exceeds the input length (so the fuel is
  never exhausted).
* from the closed forms: the parser against `Spec.wellformed` and against `Spec.parse`.
* the formatting functions against the reference rule, clause by clause.
-/
import PybtexModel.Model.NameFormat
import PybtexModel.Spec.NameFormat
import PybtexModel.Lemmas.Names

namespace Pybtex
open Spec Spec.NameFormat NFChars Names

namespace NameFormat

/-! ### character classes

The only facts about the interpreter's `\w` / `\d` tables the proofs use: the braces are not
word characters (kernel-evaluated table lookups); everything else follows from the definition
of a format character (`isFmtCh`). -/

theorem word_tables_sorted : sortedR Gen.wordRanges = true ∧ sortedR Gen.decimalRanges = true := by
  decide +kernel

theorem brace_not_wordS : inRangesS 123 Gen.wordRanges = false ∧ inRangesS 125 Gen.wordRanges = false ∧
    inRangesS 123 Gen.decimalRanges = false ∧ inRangesS 125 Gen.decimalRanges = false ∧
    inRangesS 95 Gen.decimalRanges = false := by decide +kernel

theorem isWordU_open : isWordU '{' = false := by
  show inRanges 123 Gen.wordRanges = false
  rw [inRangesS_eq word_tables_sorted.1]; exact brace_not_wordS.1

theorem isWordU_close : isWordU '}' = false := by
  show inRanges 125 Gen.wordRanges = false
  rw [inRangesS_eq word_tables_sorted.1]; exact brace_not_wordS.2.1

theorem isDecU_open : isDecU '{' = false := by
  show inRanges 123 Gen.decimalRanges = false
  rw [inRangesS_eq word_tables_sorted.2]; exact brace_not_wordS.2.2.1

theorem isDecU_close : isDecU '}' = false := by
  show inRanges 125 Gen.decimalRanges = false
  rw [inRangesS_eq word_tables_sorted.2]; exact brace_not_wordS.2.2.2.1

theorem isDecU_us : isDecU '_' = false := by
  show inRanges 95 Gen.decimalRanges = false
  rw [inRangesS_eq word_tables_sorted.2]; exact brace_not_wordS.2.2.2.2

theorem isFmtCh_us : isFmtCh '_' = false := by simp [isFmtCh]

theorem isFmtCh_open : isFmtCh '{' = false := by simp [isFmtCh, isWordU_open]

theorem isFmtCh_close : isFmtCh '}' = false := by simp [isFmtCh, isWordU_close]

theorem isFmtCh_not_verb {c : Char} (h : isFmtCh c = true) : isVerbChar c = false := by
  simp [isVerbChar, h]

theorem isFmtCh_ne_open {c : Char} (h : isFmtCh c = true) : c ≠ '{' := by
  rintro rfl; simp [isFmtCh, isWordU_open] at h

theorem isFmtCh_ne_close {c : Char} (h : isFmtCh c = true) : c ≠ '}' := by
  rintro rfl; simp [isFmtCh, isWordU_close] at h

theorem isFmtCh_ne_us {c : Char} (h : isFmtCh c = true) : c ≠ '_' := by
  rintro rfl; simp [isFmtCh] at h

theorem isDecU_verb {c : Char} (h : isDecU c = true) : isVerbChar c = true := by
  have h1 : c ≠ '{' := by rintro rfl; rw [isDecU_open] at h; cases h
  have h2 : c ≠ '}' := by rintro rfl; rw [isDecU_close] at h; cases h
  have h3 : c ≠ '_' := by rintro rfl; rw [isDecU_us] at h; cases h
  simp [isVerbChar, isFmtCh, h1, h2, h3, h]

/-- the first test of the loop after `{`: `[^{}\w]` -/
theorem nonword_verb {c : Char} (h1 : c ≠ '{') (h2 : c ≠ '}') (h3 : isWordU c = false) :
    isVerbChar c = true := by
  have h4 : c ≠ '_' := by
    rintro rfl
    have : isWordU '_' = true := by
      show inRanges 95 Gen.wordRanges = true
      rw [inRangesS_eq word_tables_sorted.1]; decide +kernel
    rw [this] at h3; cases h3
  simp [isVerbChar, isFmtCh, h1, h2, h3, h4]

theorem word_cases {c : Char} (h : isWordU c = true) (hd : isDecU c = false) (ha : isFmtCh c = false) :
    c = '_' := by
  simpa [isFmtCh, h, hd] using ha

/-! ### `verbatim`, `group`, `takeBraced` -/

theorem verbatim_nil (d : Nat) : verbatim d [] = ([], []) := by
  cases d <;> rfl

theorem verbatim_zero_open (r : Str) :
    verbatim 0 ('{' :: r) = ('{' :: (verbatim 1 r).1, (verbatim 1 r).2) := by
  simp [verbatim]

theorem verbatim_zero_verb {c : Char} (r : Str) (h : isVerbChar c = true) :
    verbatim 0 (c :: r) = (c :: (verbatim 0 r).1, (verbatim 0 r).2) := by
  have : c ≠ '{' := by rintro rfl; revert h; decide
  simp [verbatim, this, h]

theorem verbatim_zero_stop {c : Char} (r : Str) (h1 : c ≠ '{') (h : isVerbChar c = false) :
    verbatim 0 (c :: r) = ([], c :: r) := by
  simp [verbatim, h1, h]

theorem verbatim_succ (d : Nat) (c : Char) (r : Str) :
    verbatim (d + 1) (c :: r) =
      (c :: (verbatim (if c = '{' then d + 2 else if c = '}' then d else d + 1) r).1,
       (verbatim (if c = '{' then d + 2 else if c = '}' then d else d + 1) r).2) := by
  simp [verbatim]

theorem group_eq_takeBraced (d : Nat) (s : Str) : group d s = takeBraced d s := by
  induction s generalizing d with
  | nil => simp [group, takeBraced]
  | cons c r ih =>
    simp only [group, takeBraced]
    split
    · cases d with
      | zero => simp
      | succ d' => simp [ih]
    · split <;> simp [ih]

/-- a group inside verbatim text: its content, the closing brace, then more verbatim text -/
theorem verbatim_takeBraced (d : Nat) (r : Str) :
    verbatim (d + 1) r =
      match takeBraced d r with
      | none => (r, [])
      | some (g, rest) => (g ++ '}' :: (verbatim 0 rest).1, (verbatim 0 rest).2) := by
  induction r generalizing d with
  | nil => simp [verbatim, takeBraced]
  | cons c r ih =>
    rw [verbatim_succ]
    simp only [takeBraced]
    by_cases hc : c = '}'
    · subst hc
      simp only [if_true, show ('}' : Char) ≠ '{' by decide, if_false]
      cases d with
      | zero => simp
      | succ d' =>
        simp only [Nat.add_one_ne_zero, if_false, Nat.add_sub_cancel]
        rw [ih d']
        cases takeBraced d' r with
        | none => simp
        | some p => simp
    · simp only [hc, if_false]
      by_cases ho : c = '{'
      · subst ho
        simp only [if_true]
        rw [ih (d + 1)]
        cases takeBraced (d + 1) r with
        | none => simp
        | some p => simp
      · simp only [ho, if_false]
        rw [ih d]
        cases takeBraced d r with
        | none => simp
        | some p => simp

theorem takeBraced_length {d : Nat} {s g rest : Str} (h : takeBraced d s = some (g, rest)) :
    rest.length < s.length := by
  rw [← group_eq_takeBraced] at h; exact group_length h

/-- verbatim characters in front -/
theorem verbatim_append_verb (l r : Str) (h : ∀ c ∈ l, isVerbChar c = true) :
    verbatim 0 (l ++ r) = (l ++ (verbatim 0 r).1, (verbatim 0 r).2) := by
  induction l with
  | nil => simp
  | cons c l ih =>
    rw [List.cons_append, verbatim_zero_verb _ (h c (by simp)), ih (fun x hx => h x (by simp [hx]))]
    simp

/-- what `verbatim` stops at -/
theorem verbatim_stop (d : Nat) (s : Str) :
    (verbatim d s).2 = [] ∨
      ∃ c r, (verbatim d s).2 = c :: r ∧ c ≠ '{' ∧ isVerbChar c = false := by
  induction s generalizing d with
  | nil => simp [verbatim_nil]
  | cons c r ih =>
    cases d with
    | zero =>
      by_cases ho : c = '{'
      · subst ho; rw [verbatim_zero_open]; exact ih 1
      · by_cases hv : isVerbChar c = true
        · rw [verbatim_zero_verb _ hv]; exact ih 0
        · have hv' : isVerbChar c = false := by simpa using hv
          rw [verbatim_zero_stop _ ho hv']
          exact Or.inr ⟨c, r, rfl, ho, hv'⟩
    | succ d => rw [verbatim_succ]; exact ih _

theorem stop_cases {c : Char} (h1 : c ≠ '{') (h : isVerbChar c = false) :
    c = '}' ∨ c = '_' ∨ isFmtCh c = true := by
  simp only [isVerbChar, Bool.and_eq_false_iff, Bool.not_eq_false', decide_eq_false_iff_not,
    Decidable.not_not] at h
  rcases h with ((h | h) | h) | h
  · exact absurd h h1
  · exact Or.inl h
  · exact Or.inr (Or.inl h)
  · exact Or.inr (Or.inr h)

/-- closed form of the `parse_name_part` loop once the letter run `f` has been read -/
def closed2 (s pre f : Str) (delim : Option Str) (post : Str) : Except FmtErr (FmtPart × Str) :=
  match (verbatim 0 s).2 with
  | [] => .error .unbalanced
  | c :: rest =>
    if c = '}' then .ok (.part pre (some f) delim (post ++ (verbatim 0 s).1), rest)
    else if isFmtCh c then .error .illegalLetters
    else .error .tokenRequired

theorem closed2_stop {c : Char} (r pre f : Str) (delim : Option Str) (post : Str)
    (h1 : c ≠ '{') (h : isVerbChar c = false) :
    closed2 (c :: r) pre f delim post =
      if c = '}' then .ok (.part pre (some f) delim post, r)
      else if isFmtCh c then .error .illegalLetters
      else .error .tokenRequired := by
  simp [closed2, verbatim_zero_stop r h1 h]

theorem closed2_verb (l r pre f : Str) (delim : Option Str) (post : Str)
    (h : ∀ c ∈ l, isVerbChar c = true) :
    closed2 (l ++ r) pre f delim post = closed2 r pre f delim (post ++ l) := by
  simp [closed2, verbatim_append_verb l r h]

theorem closed2_group (r pre f : Str) (delim : Option Str) (post : Str) :
    closed2 ('{' :: r) pre f delim post =
      match takeBraced 0 r with
      | none => .error .unbalanced
      | some (g, rest) => closed2 rest pre f delim (post ++ ['{'] ++ g ++ ['}']) := by
  simp only [closed2, verbatim_zero_open, verbatim_takeBraced]
  cases takeBraced 0 r with
  | none => simp
  | some p => simp

theorem mem_takeWhile {α} {p : α → Bool} {l : List α} {x : α} (h : x ∈ l.takeWhile p) : p x = true := by
  induction l with
  | nil => simp at h
  | cons a l ih =>
    simp only [List.takeWhile_cons] at h
    split at h
    · rename_i ha
      rcases List.mem_cons.1 h with rfl | h'
      · exact ha
      · exact ih h'
    · simp at h

theorem dropWhile_length_lt {α} {p : α → Bool} {c : α} {r : List α} (h : p c = true) :
    ((c :: r).dropWhile p).length ≤ r.length := by
  simp only [List.dropWhile_cons, h, if_true]
  exact (List.dropWhile_sublist p).length_le

theorem namePartLoop_some (fuel : Nat) (s pre f : Str) (delim : Option Str) (post : Str)
    (h : s.length < fuel) :
    namePartLoop fuel s pre (some f) delim post = closed2 s pre f delim post := by
  induction fuel generalizing s post with
  | zero => omega
  | succ fuel ih =>
    cases s with
    | nil => simp [namePartLoop, closed2, verbatim_nil]
    | cons c r =>
      rw [namePartLoop]
      simp only [List.length_cons] at h
      split
      · rename_i ho
        subst ho
        rw [closed2_group]
        cases hb : takeBraced 0 r with
        | none => simp
        | some p =>
          obtain ⟨g, rest⟩ := p
          have := takeBraced_length hb
          simp only [Option.isSome_some, if_true]
          rw [ih _ _ (by omega)]
          simp
      · rename_i ho
        split
        · rename_i hnw
          have hv := nonword_verb ho hnw.1 (by simpa using hnw.2)
          simp only [Option.isSome_some, if_true]
          rw [ih _ _ (by omega)]
          exact (closed2_verb [c] r pre f delim post (by simpa using hv)).symm
        · rename_i hnw
          split
          · rename_i hd
            have hlen := dropWhile_length_lt (r := r) hd
            simp only [Option.isSome_some, if_true]
            rw [ih _ _ (by omega)]
            conv => rhs; rw [← List.takeWhile_append_dropWhile (p := isDecU) (l := c :: r)]
            rw [closed2_verb]
            intro x hx
            exact isDecU_verb (mem_takeWhile hx)
          · rename_i hd
            split
            · rename_i ha
              have : formatCharsOk true (List.takeWhile isFmtCh (c :: r)) = false := by
                simp [formatCharsOk]
              simp only [Option.isSome_some, this, Bool.not_false, if_true]
              rw [closed2_stop _ _ _ _ _ ho (isFmtCh_not_verb ha)]
              simp [isFmtCh_ne_close ha, ha]
            · rename_i ha
              have ha' : isFmtCh c = false := by simpa using ha
              have hd' : isDecU c = false := by simpa using hd
              split
              · rename_i hc
                subst hc
                rw [closed2_stop _ _ _ _ _ ho (by decide)]
                simp
              · rename_i hc
                have hw : isWordU c = true := by simpa [hc] using hnw
                have := word_cases hw hd' ha'
                subst this
                rw [closed2_stop _ _ _ _ _ ho (by decide)]
                simp [ha']

/-- closed form of the `parse_name_part` loop before any letter run -/
def closed1 (s pre : Str) (delim : Option Str) (post : Str) : Except FmtErr (FmtPart × Str) :=
  match (verbatim 0 s).2 with
  | [] => .error .unbalanced
  | c :: rest =>
    if c = '}' then .ok (.part (pre ++ (verbatim 0 s).1) none delim post, rest)
    else if isFmtCh c then
      if !formatCharsOk false ((c :: rest).takeWhile isFmtCh) then .error .illegalLetters
      else
        match (c :: rest).dropWhile isFmtCh with
        | [] => .error .prematureEOF
        | '{' :: x =>
          match takeBraced 0 x with
          | none => .error .unbalanced
          | some (d, y) =>
            closed2 y (pre ++ (verbatim 0 s).1) ((c :: rest).takeWhile isFmtCh) (some d) post
        | s2 => closed2 s2 (pre ++ (verbatim 0 s).1) ((c :: rest).takeWhile isFmtCh) delim post
    else .error .tokenRequired

theorem closed1_verb (l r pre : Str) (delim : Option Str) (post : Str)
    (h : ∀ c ∈ l, isVerbChar c = true) :
    closed1 (l ++ r) pre delim post = closed1 r (pre ++ l) delim post := by
  simp [closed1, verbatim_append_verb l r h]

theorem closed1_group (r pre : Str) (delim : Option Str) (post : Str) :
    closed1 ('{' :: r) pre delim post =
      match takeBraced 0 r with
      | none => .error .unbalanced
      | some (g, rest) => closed1 rest (pre ++ ['{'] ++ g ++ ['}']) delim post := by
  simp only [closed1, verbatim_zero_open, verbatim_takeBraced]
  cases takeBraced 0 r with
  | none => simp
  | some p => simp

theorem closed1_stop {c : Char} (r pre : Str) (delim : Option Str) (post : Str)
    (h1 : c ≠ '{') (h : isVerbChar c = false) :
    closed1 (c :: r) pre delim post =
      if c = '}' then .ok (.part pre none delim post, r)
      else if isFmtCh c then
        if !formatCharsOk false ((c :: r).takeWhile isFmtCh) then .error .illegalLetters
        else
          match (c :: r).dropWhile isFmtCh with
          | [] => .error .prematureEOF
          | '{' :: x =>
            match takeBraced 0 x with
            | none => .error .unbalanced
            | some (d, y) => closed2 y pre ((c :: r).takeWhile isFmtCh) (some d) post
          | s2 => closed2 s2 pre ((c :: r).takeWhile isFmtCh) delim post
      else .error .tokenRequired := by
  simp [closed1, verbatim_zero_stop r h1 h]

theorem namePartLoop_none (fuel : Nat) (s pre : Str) (delim : Option Str) (post : Str)
    (h : s.length < fuel) :
    namePartLoop fuel s pre none delim post = closed1 s pre delim post := by
  induction fuel generalizing s pre with
  | zero => omega
  | succ fuel ih =>
    cases s with
    | nil => simp [namePartLoop, closed1, verbatim_nil]
    | cons c r =>
      rw [namePartLoop]
      simp only [List.length_cons] at h
      split
      · rename_i ho
        subst ho
        rw [closed1_group]
        cases hb : takeBraced 0 r with
        | none => simp
        | some p =>
          obtain ⟨g, rest⟩ := p
          have := takeBraced_length hb
          simp only [Option.isSome_none, Bool.false_eq_true, if_false]
          rw [ih _ _ (by omega)]
          simp
      · rename_i ho
        split
        · rename_i hnw
          have hv := nonword_verb ho hnw.1 (by simpa using hnw.2)
          simp only [Option.isSome_none, Bool.false_eq_true, if_false]
          rw [ih _ _ (by omega)]
          exact (closed1_verb [c] r pre delim post (by simpa using hv)).symm
        · rename_i hnw
          split
          · rename_i hd
            have hlen := dropWhile_length_lt (r := r) hd
            simp only [Option.isSome_none, Bool.false_eq_true, if_false]
            rw [ih _ _ (by omega)]
            conv => rhs; rw [← List.takeWhile_append_dropWhile (p := isDecU) (l := c :: r)]
            rw [closed1_verb]
            intro x hx
            exact isDecU_verb (mem_takeWhile hx)
          · rename_i hd
            split
            · rename_i ha
              rw [closed1_stop _ _ _ _ ho (isFmtCh_not_verb ha)]
              simp only [isFmtCh_ne_close ha, if_false, ha, if_true, Option.isSome_none]
              have hlen := dropWhile_length_lt (r := r) ha
              split
              · rfl
              · generalize hs2 : List.dropWhile isFmtCh (c :: r) = s2 at hlen
                rcases s2 with _ | ⟨a, x⟩
                · rfl
                · by_cases ha2 : a = '{'
                  · subst ha2
                    simp only [List.length_cons] at hlen
                    cases hb : takeBraced 0 x with
                    | none => simp [hb]
                    | some p =>
                      obtain ⟨d, y⟩ := p
                      have := takeBraced_length hb
                      simp only [hb]
                      rw [namePartLoop_some _ _ _ _ _ _ (by omega)]
                  · simp only [List.length_cons] at hlen
                    split
                    · rename_i h; cases h
                    · rename_i h; cases h; exact absurd rfl ha2
                    · split
                      · rename_i h; cases h
                      · rename_i h; cases h; exact absurd rfl ha2
                      · rw [namePartLoop_some _ _ _ _ _ _ (by simp; omega)]
            · rename_i ha
              have ha' : isFmtCh c = false := by simpa using ha
              have hd' : isDecU c = false := by simpa using hd
              split
              · rename_i hc
                subst hc
                rw [closed1_stop _ _ _ _ ho (by decide)]
                simp
              · rename_i hc
                have hw : isWordU c = true := by simpa [hc] using hnw
                have := word_cases hw hd' ha'
                subst this
                rw [closed1_stop _ _ _ _ ho (by decide)]
                simp [ha']

/-! ### what the parser returns -/

/-- invariant of the parts the parser produces -/
def PartOk : FmtPart → Prop
  | .text _ => True
  | .part _ none delim post => delim = none ∧ post = []
  | .part _ (some run) _ _ => formatCharsOk false run = true

theorem closed2_ok {s pre f : Str} {delim : Option Str} {post : Str} {p : FmtPart} {rest : Str}
    (h : closed2 s pre f delim post = .ok (p, rest)) :
    p = .part pre (some f) delim (post ++ (verbatim 0 s).1) ∧ rest.length < s.length := by
  unfold closed2 at h
  have hl := verbatim_length 0 s
  split at h
  · cases h
  · rename_i c rest' hv
    rw [hv] at hl
    split at h
    · cases h; simp at hl; exact ⟨rfl, by omega⟩
    · split at h <;> cases h

theorem closed2_error {s pre f : Str} {delim : Option Str} {post : Str} {e : FmtErr}
    (h : closed2 s pre f delim post = .error e) : e ≠ .internal ∧ e ≠ .tooDeep := by
  unfold closed2 at h
  split at h
  · cases h; simp
  · split at h
    · cases h
    · split at h <;> cases h <;> simp

theorem closed1_ok {s pre : Str} {p : FmtPart} {rest : Str}
    (h : closed1 s pre none [] = .ok (p, rest)) :
    PartOk p ∧ rest.length < s.length ∧ ∃ a b c d, p = .part a b c d := by
  unfold closed1 at h
  have hl := verbatim_length 0 s
  split at h
  · cases h
  · rename_i c rest' hv
    rw [hv] at hl
    split at h
    · cases h; simp at hl; exact ⟨⟨rfl, rfl⟩, by omega, _, _, _, _, rfl⟩
    · split at h
      · rename_i ha
        split at h
        · cases h
        · rename_i hf
          have hf' : formatCharsOk false (List.takeWhile isFmtCh (c :: rest')) = true := by simpa using hf
          have hlen := dropWhile_length_lt (r := rest') ha
          generalize List.dropWhile isFmtCh (c :: rest') = s2 at h hlen
          split at h
          · cases h
          · rename_i x
            split at h
            · cases h
            · rename_i d y hb
              have := takeBraced_length hb
              obtain ⟨h1, h2⟩ := closed2_ok h
              simp at hl hlen
              exact ⟨by rw [h1]; exact hf', by omega, _, _, _, _, h1⟩
          · obtain ⟨h1, h2⟩ := closed2_ok h
            simp at hl
            exact ⟨by rw [h1]; exact hf', by omega, _, _, _, _, h1⟩
      · cases h

theorem closed1_error {s pre : Str} {delim : Option Str} {post : Str} {e : FmtErr}
    (h : closed1 s pre delim post = .error e) : e ≠ .internal ∧ e ≠ .tooDeep := by
  unfold closed1 at h
  split at h
  · cases h; simp
  · split at h
    · cases h
    · split at h
      · split at h
        · cases h; simp
        · split at h
          · cases h; simp
          · split at h
            · cases h; simp
            · exact closed2_error h
          · exact closed2_error h
      · cases h; simp

/-! ### the top level -/

theorem parseFormatAux_nil (fuel : Nat) : parseFormatAux (fuel + 1) [] = .ok [] := rfl

theorem parseFormatAux_open (fuel : Nat) (r : Str) :
    parseFormatAux (fuel + 1) ('{' :: r) =
      match closed1 r [] none [] with
      | .error e => .error e
      | .ok (p, rest) =>
        match parseFormatAux fuel rest with
        | .error e => .error e
        | .ok ps => .ok (p :: ps) := by
  rw [parseFormatAux]
  simp only [if_true]
  rw [namePartLoop_none _ _ _ _ _ (by omega)]
  cases closed1 r [] none [] with
  | error e => rfl
  | ok pr => rfl

theorem parseFormatAux_close (fuel : Nat) (r : Str) :
    parseFormatAux (fuel + 1) ('}' :: r) = .error .unbalanced := by
  rw [parseFormatAux]; simp

def notBrace (x : Char) : Bool := decide (x ≠ '{' ∧ x ≠ '}')

theorem parseFormatAux_text (fuel : Nat) (c : Char) (r : Str) (h1 : c ≠ '{') (h2 : c ≠ '}') :
    parseFormatAux (fuel + 1) (c :: r) =
      match parseFormatAux fuel (r.dropWhile notBrace) with
      | .error e => .error e
      | .ok ps => .ok (.text (c :: r.takeWhile notBrace) :: ps) := by
  rw [parseFormatAux]
  simp only [h1, h2, if_false]
  have hc : (decide (c ≠ '{' ∧ c ≠ '}')) = true := by simp [h1, h2]
  simp only [List.takeWhile_cons, List.dropWhile_cons, hc, if_true]
  rfl

/-- the fuel of `parse` is never exhausted, and more fuel changes nothing -/
theorem parseFormatAux_fuel (fuel : Nat) (s : Str) (h : s.length < fuel) :
    parseFormatAux fuel s = parseFormat s := by
  unfold parseFormat
  induction fuel using Nat.strongRecOn generalizing s with
  | _ fuel ih =>
    cases fuel with
    | zero => omega
    | succ fuel =>
      cases s with
      | nil => rfl
      | cons c r =>
        simp only [List.length_cons] at h ⊢
        by_cases ho : c = '{'
        · subst ho
          rw [parseFormatAux_open, parseFormatAux_open]
          cases hc : closed1 r [] none [] with
          | error e => rfl
          | ok pr =>
            obtain ⟨p, rest⟩ := pr
            have := (closed1_ok hc).2.1
            simp only
            rw [ih fuel (by omega) rest (by omega), ih (r.length + 1) (by omega) rest (by omega)]
        · by_cases hc : c = '}'
          · subst hc; rw [parseFormatAux_close, parseFormatAux_close]
          · rw [parseFormatAux_text _ _ _ ho hc, parseFormatAux_text _ _ _ ho hc]
            have := (List.dropWhile_sublist (l := r) notBrace).length_le
            rw [ih fuel (by omega) _ (by omega), ih (r.length + 1) (by omega) _ (by omega)]

theorem parseFormat_nil : parseFormat [] = .ok [] := rfl

theorem parseFormat_open (r : Str) :
    parseFormat ('{' :: r) =
      match closed1 r [] none [] with
      | .error e => .error e
      | .ok (p, rest) =>
        match parseFormat rest with
        | .error e => .error e
        | .ok ps => .ok (p :: ps) := by
  unfold parseFormat
  simp only [List.length_cons]
  rw [parseFormatAux_open]
  cases hc : closed1 r [] none [] with
  | error e => rfl
  | ok pr =>
    obtain ⟨p, rest⟩ := pr
    have := (closed1_ok hc).2.1
    simp only
    rw [parseFormatAux_fuel _ _ (by omega)]; rfl

theorem parseFormat_close (r : Str) : parseFormat ('}' :: r) = .error .unbalanced := by
  unfold parseFormat; simp only [List.length_cons]; rw [parseFormatAux_close]

theorem parseFormat_text (c : Char) (r : Str) (h1 : c ≠ '{') (h2 : c ≠ '}') :
    parseFormat (c :: r) =
      match parseFormat (r.dropWhile notBrace) with
      | .error e => .error e
      | .ok ps => .ok (.text (c :: r.takeWhile notBrace) :: ps) := by
  unfold parseFormat
  simp only [List.length_cons]
  rw [parseFormatAux_text _ _ _ h1 h2]
  have := (List.dropWhile_sublist (l := r) notBrace).length_le
  rw [parseFormatAux_fuel _ _ (by omega)]; rfl

/-- induction principle following the parser -/
theorem parseFormat_induct {motive : Str → Prop}
    (nil : motive [])
    (close : ∀ r, motive ('}' :: r))
    (openErr : ∀ r e, closed1 r [] none [] = .error e → motive ('{' :: r))
    (openOk : ∀ r p rest, closed1 r [] none [] = .ok (p, rest) → motive rest → motive ('{' :: r))
    (text : ∀ c r, c ≠ '{' → c ≠ '}' → motive (r.dropWhile notBrace) → motive (c :: r))
    (s : Str) : motive s := by
  induction h : s.length using Nat.strongRecOn generalizing s with
  | _ n ih =>
    cases s with
    | nil => exact nil
    | cons c r =>
      subst h
      by_cases ho : c = '{'
      · subst ho
        cases hc : closed1 r [] none [] with
        | error e => exact openErr r e hc
        | ok pr =>
          obtain ⟨p, rest⟩ := pr
          have := (closed1_ok hc).2.1
          exact openOk r p rest hc (ih rest.length (by simp; omega) rest rfl)
      · by_cases hc : c = '}'
        · subst hc; exact close r
        · have := (List.dropWhile_sublist (l := r) notBrace).length_le
          exact text c r ho hc (ih _ (by simp; omega) _ rfl)

theorem parseFormat_not_internal (s : Str) : parseFormat s ≠ .error .internal ∧ parseFormat s ≠ .error .tooDeep := by
  induction s using parseFormat_induct with
  | nil => simp [parseFormat_nil]
  | close r => simp [parseFormat_close]
  | openErr r e he => rw [parseFormat_open, he]; have := closed1_error he; simp [this]
  | openOk r p rest hc ih =>
    rw [parseFormat_open, hc]
    simp only
    cases hp : parseFormat rest with
    | error e => rw [hp] at ih; simpa using ih
    | ok ps => simp
  | text c r h1 h2 ih =>
    rw [parseFormat_text _ _ h1 h2]
    cases hp : parseFormat (r.dropWhile notBrace) with
    | error e => rw [hp] at ih; simpa using ih
    | ok ps => simp

theorem parseFormat_partOk {s : Str} {ps : List FmtPart} (h : parseFormat s = .ok ps) :
    ∀ p ∈ ps, PartOk p := by
  induction s using parseFormat_induct generalizing ps with
  | nil => cases h; simp
  | close r => rw [parseFormat_close] at h; cases h
  | openErr r e he => rw [parseFormat_open, he] at h; cases h
  | openOk r p rest hc ih =>
    rw [parseFormat_open, hc] at h
    simp only at h
    cases hp : parseFormat rest with
    | error e => rw [hp] at h; cases h
    | ok ps' =>
      rw [hp] at h; cases h
      intro q hq
      rcases List.mem_cons.1 hq with rfl | hq
      · exact (closed1_ok hc).1
      · exact ih hp q hq
  | text c r h1 h2 ih =>
    rw [parseFormat_text _ _ h1 h2] at h
    cases hp : parseFormat (r.dropWhile notBrace) with
    | error e => rw [hp] at h; cases h
    | ok ps' =>
      rw [hp] at h; cases h
      intro q hq
      rcases List.mem_cons.1 hq with rfl | hq
      · trivial
      · exact ih hp q hq

/-! ### the parser against `Spec.wellformed` -/

theorem wf_zero (seen prev : Bool) (s : Str) :
    wellformedAux 0 seen prev s = wellformedAux 0 false false s := by
  induction s generalizing seen prev with
  | nil => simp [wellformedAux]
  | cons c r ih =>
    simp only [wellformedAux]
    split
    · simp
    · split
      · simp
      · simp only [Nat.zero_ne_one, false_and, if_false]
        rw [ih seen false, ih false false]

theorem wf_prev {d : Nat} {seen : Bool} {s : Str} (h : ∀ c r, s = c :: r → isFmtCh c = false) :
    wellformedAux d seen true s = wellformedAux d seen false s := by
  cases s with
  | nil => simp [wellformedAux]
  | cons c r =>
    have := h c r rfl
    simp [wellformedAux, this]

theorem wf_verbatim (d : Nat) (seen prev : Bool) (r : Str) :
    wellformedAux (d + 1) seen (if d = 0 then false else prev) r =
      wellformedAux 1 seen false (verbatim d r).2 := by
  induction r generalizing d prev with
  | nil => simp [verbatim_nil, wellformedAux]
  | cons c r ih =>
    cases d with
    | zero =>
      simp only [if_true]
      by_cases ho : c = '{'
      · subst ho
        rw [verbatim_zero_open]
        simp only [wellformedAux, if_true]
        have := ih 1 false
        simpa using this
      · by_cases hv : isVerbChar c = true
        · rw [verbatim_zero_verb _ hv]
          have h2 : c ≠ '}' := by rintro rfl; revert hv; decide
          have h3 : c ≠ '_' := by rintro rfl; revert hv; decide
          have h4 : isFmtCh c = false := by
            cases h : isFmtCh c
            · rfl
            · rw [isFmtCh_not_verb h] at hv; cases hv
          simp only [wellformedAux, ho, h2, h3, h4, if_false, and_false, Bool.false_eq_true]
          have := ih 0 false
          simpa using this
        · have hv' : isVerbChar c = false := by simpa using hv
          rw [verbatim_zero_stop _ ho hv']
    | succ d =>
      rw [verbatim_succ]
      simp only [Nat.add_one_ne_zero, if_false]
      by_cases ho : c = '{'
      · subst ho
        simp only [wellformedAux, if_true]
        have := ih (d + 2) false
        simpa using this
      · by_cases hc : c = '}'
        · subst hc
          simp only [wellformedAux, ho, if_false, if_true]
          have := ih d false
          simp only [Bool.if_false_right] at this
          simp only [Nat.add_sub_cancel]
          rw [← this]
          cases d <;> simp
        · simp only [wellformedAux, ho, hc, if_false]
          have h1 : ¬ (d + 1 + 1 = 1) := by omega
          simp only [h1, false_and, if_false]
          have := ih (d + 1) false
          simpa using this

theorem wf_letters (l r : Str) (h : ∀ c ∈ l, isFmtCh c = true) :
    wellformedAux 1 true true (l ++ r) = wellformedAux 1 true true r := by
  induction l with
  | nil => rfl
  | cons c l ih =>
    have hc := h c (by simp)
    simp only [List.cons_append, wellformedAux, isFmtCh_ne_open hc, isFmtCh_ne_close hc, if_false,
      hc, and_self, if_true, Bool.true_or, Bool.true_and]
    exact ih (fun x hx => h x (by simp [hx]))

theorem formatCharsOk_true (run : Str) : formatCharsOk true run = false := by
  simp [formatCharsOk]

theorem formatCharsOk_eq (run : Str) : formatCharsOk false run = legalLetters run := by
  unfold formatCharsOk legalLetters
  generalize lower run = v
  match v with
  | [] => decide
  | [a] =>
    simp only [List.length_cons, List.length_nil, List.head?_cons, List.getLast?_singleton]
    by_cases h1 : a = 'f'
    · subst h1; decide
    · by_cases h2 : a = 'l'
      · subst h2; decide
      · by_cases h3 : a = 'v'
        · subst h3; decide
        · by_cases h4 : a = 'j'
          · subst h4; decide
          · simp [h1, h2, h3, h4]
  | [a, b] =>
    simp only [List.length_cons, List.length_nil, List.head?_cons]
    have : [a, b].getLast? = some b := by simp
    rw [this]
    by_cases hab : a = b
    · subst hab
      by_cases h1 : a = 'f'
      · subst h1; decide
      · by_cases h2 : a = 'l'
        · subst h2; decide
        · by_cases h3 : a = 'v'
          · subst h3; decide
          · by_cases h4 : a = 'j'
            · subst h4; decide
            · simp [h1, h2, h3, h4]
    · simp [hab]
      refine ⟨?_, ?_, ?_, ?_⟩ <;> (intro h1 h2; exact hab (h1.trans h2.symm))
  | a :: b :: c :: r =>
    simp

theorem dropWhile_head {α} {p : α → Bool} {l : List α} {a : α} {x : List α}
    (h : l.dropWhile p = a :: x) : p a = false := by
  induction l with
  | nil => simp at h
  | cons b l ih =>
    simp only [List.dropWhile_cons] at h
    split at h
    · exact ih h
    · rename_i hb; cases h; simpa using hb

def okRest : Except FmtErr (FmtPart × Str) → Bool
  | .ok (_, rest) => wellformed rest
  | .error _ => false

theorem wf_closed2 (s pre f : Str) (delim : Option Str) (post : Str) :
    wellformedAux 1 true false s = okRest (closed2 s pre f delim post) := by
  have h := wf_verbatim 0 true false s
  simp only [if_true] at h
  rw [h]
  unfold closed2
  rcases verbatim_stop 0 s with h0 | ⟨c, r, h0, h1, h2⟩
  · rw [h0]; simp [wellformedAux, okRest]
  · rw [h0]
    simp only
    rcases stop_cases h1 h2 with rfl | rfl | ha
    · simp [wellformedAux, okRest, wellformed, wf_zero true false]
    · simp [wellformedAux, okRest]; decide
    · simp [wellformedAux, okRest, isFmtCh_ne_open ha, isFmtCh_ne_close ha, ha]

theorem wf_closed1 (s pre : Str) (delim : Option Str) (post : Str) :
    wellformedAux 1 false false s = okRest (closed1 s pre delim post) := by
  have h := wf_verbatim 0 false false s
  simp only [if_true] at h
  rw [h]
  unfold closed1
  rcases verbatim_stop 0 s with h0 | ⟨c, r, h0, h1, h2⟩
  · rw [h0]; simp [wellformedAux, okRest]
  · rw [h0]
    simp only
    rcases stop_cases h1 h2 with rfl | rfl | ha
    · simp [wellformedAux, okRest, wellformed]
    · have : isFmtCh '_' = false := by decide
      simp [wellformedAux, okRest, this]
    · simp only [wellformedAux, isFmtCh_ne_open ha, isFmtCh_ne_close ha, ha, if_false, and_self,
        if_true, Bool.false_or, Bool.not_false, Bool.true_and, formatCharsOk_eq]
      cases hl : legalLetters (List.takeWhile isFmtCh (c :: r))
      · simp [okRest]
      · simp only [Bool.true_and, Bool.not_true, Bool.false_eq_true, if_false]
        have e : r = (r.takeWhile isFmtCh) ++ (c :: r).dropWhile isFmtCh := by
          simp [ha]
        have hw : wellformedAux 1 true true r =
            wellformedAux 1 true true ((c :: r).dropWhile isFmtCh) := by
          conv => lhs; rw [e]
          exact wf_letters _ _ (fun x hx => mem_takeWhile hx)
        rw [hw]
        have hhead : ∀ a x, (c :: r).dropWhile isFmtCh = a :: x → isFmtCh a = false := by
          intro a x hax
          exact dropWhile_head hax
        generalize (c :: r).dropWhile isFmtCh = s2 at hhead
        rcases s2 with _ | ⟨a, x⟩
        · simp [wellformedAux, okRest]
        · by_cases hao : a = '{'
          · subst hao
            simp only [wellformedAux, if_true]
            have hv := wf_verbatim 1 true false x
            simp only [Nat.add_one_ne_zero, if_false] at hv
            simp only [Nat.reduceAdd, Nat.one_ne_zero, ne_eq, not_false_eq_true, decide_true, Bool.true_and]
            rw [hv, verbatim_takeBraced]
            cases hb : takeBraced 0 x with
            | none => simp [wellformedAux, okRest]
            | some p =>
              obtain ⟨g, y⟩ := p
              simp only
              have h2 := wf_verbatim 0 true false y
              simp only [if_true] at h2
              rw [← h2]
              exact wf_closed2 _ _ _ _ _
          · rw [wf_prev (fun a' x' h' => by cases h'; exact hhead a x rfl)]
            split
            · rename_i h'; cases h'
            · rename_i h'; cases h'; exact absurd rfl hao
            · exact wf_closed2 _ _ _ _ _

theorem okRest_wellformed (s : Str) :
    wellformed s = match parseFormat s with | .ok _ => true | .error _ => false := by
  induction s using parseFormat_induct with
  | nil => rfl
  | close r => rw [parseFormat_close]; simp [wellformed, wellformedAux]
  | openErr r e he =>
    rw [parseFormat_open, he]
    simp only [wellformed, wellformedAux, if_true]
    have := wf_closed1 r [] none []
    simp only [he, okRest] at this
    simpa using this
  | openOk r p rest hc ih =>
    rw [parseFormat_open, hc]
    simp only [wellformed, wellformedAux, if_true]
    have := wf_closed1 r [] none []
    simp only [hc, okRest] at this
    simp only [ne_eq, not_true_eq_false, decide_false, Bool.false_and, Nat.zero_add]
    rw [this, ih]
    cases parseFormat rest <;> rfl
  | text c r h1 h2 ih =>
    rw [parseFormat_text _ _ h1 h2]
    have e : c :: r = (c :: r.takeWhile notBrace) ++ r.dropWhile notBrace := by simp
    have hw : wellformed (c :: r) = wellformed (r.dropWhile notBrace) := by
      rw [e]
      generalize hl : c :: r.takeWhile notBrace = l
      have hl' : ∀ x ∈ l, x ≠ '{' ∧ x ≠ '}' := by
        intro x hx
        rw [← hl] at hx
        rcases List.mem_cons.1 hx with rfl | hx
        · exact ⟨h1, h2⟩
        · simpa [notBrace] using mem_takeWhile hx
      clear hl e
      induction l with
      | nil => rfl
      | cons a l ihl =>
        have ha := hl' a (by simp)
        simp only [wellformed, List.cons_append, wellformedAux, ha.1, ha.2, if_false,
          Nat.zero_ne_one, false_and]
        exact ihl (fun x hx => hl' x (by simp [hx]))
    rw [hw, ih]
    cases parseFormat (r.dropWhile notBrace) <;> rfl

/-! ### the parser against the reference grammar `Spec.NameFormat.parse` -/

def toSpecPart (pre : Str) (fc : Option Str) (delim : Option Str) (post : Str) : Option Part :=
  match fc with
  | none => some ⟨pre, none, delim, post⟩
  | some run => (decodeLetters run).map fun l => ⟨pre, some l, delim, post⟩

def toSpecPieces : List FmtPart → Option (List Piece)
  | [] => some []
  | .text t :: r => (toSpecPieces r).map fun ps => t.map Piece.ch ++ ps
  | .part pre fc delim post :: r =>
    (toSpecPart pre fc delim post).bind fun p => (toSpecPieces r).map fun ps => Piece.part p :: ps

/-- the parser's result on one part, read as a reference part -/
def toSpecRes : Except FmtErr (FmtPart × Str) → Option (Part × Str)
  | .ok (.part pre fc delim post, rest) => (toSpecPart pre fc delim post).map fun p => (p, rest)
  | _ => none

theorem ofLetter_isSome (a : Char) :
    (Slot.ofLetter a).isSome = (a = 'f' || a = 'l' || a = 'v' || a = 'j') := by
  unfold Slot.ofLetter
  by_cases h1 : a = 'f'
  · simp [h1]
  · by_cases h2 : a = 'v'
    · simp [h2]
    · by_cases h3 : a = 'l'
      · simp [h3]
      · by_cases h4 : a = 'j' <;> simp [h1, h2, h3, h4]

theorem decodeLetters_isSome (run : Str) : (decodeLetters run).isSome = formatCharsOk false run := by
  unfold decodeLetters formatCharsOk
  generalize lower run = v
  match v with
  | [] => rfl
  | [a] => simp [ofLetter_isSome]
  | [a, b] =>
    have : [a, b].getLast? = some b := by simp
    simp only [List.length_cons, List.length_nil, List.head?_cons, this]
    by_cases hab : a = b
    · subst hab; simp [ofLetter_isSome]
    · simp [hab]
  | a :: b :: c :: r => simp

theorem toSpecRes_closed2 (s pre run : Str) (sep : Option Str) (l : Letters)
    (hl : decodeLetters run = some l) :
    toSpecRes (closed2 s pre run sep []) =
      match (verbatim 0 s).2 with
      | '}' :: rest => some (⟨pre, some l, sep, (verbatim 0 s).1⟩, rest)
      | _ => none := by
  unfold closed2
  rcases verbatim_stop 0 s with h0 | ⟨c, r, h0, h1, h2⟩
  · rw [h0]; rfl
  · rw [h0]
    by_cases hc : c = '}'
    · subst hc; simp [toSpecRes, toSpecPart, hl]
    · simp only [hc, if_false]
      have : toSpecRes (if isFmtCh c = true then Except.error FmtErr.illegalLetters
          else Except.error FmtErr.tokenRequired) = none := by split <;> rfl
      rw [this]
      split
      · rename_i h; cases h; exact absurd rfl hc
      · rfl

theorem parsePart_eq (s : Str) : parsePart s = toSpecRes (closed1 s [] none []) := by
  unfold parsePart closed1
  rcases hv : verbatim 0 s with ⟨pre, s1⟩
  have hstop := verbatim_stop 0 s
  rw [hv] at hstop
  simp only [List.nil_append] at hstop ⊢
  rcases hstop with h0 | ⟨c, r, h0, h1, h2⟩
  · subst h0; rfl
  · subst h0
    simp only
    rcases stop_cases h1 h2 with rfl | rfl | ha
    · simp [toSpecRes, toSpecPart]
    · have : isFmtCh '_' = false := by decide
      simp [this, toSpecRes]
    · simp only [isFmtCh_ne_close ha, if_false, ha, if_true]
      cases hd : decodeLetters (List.takeWhile isFmtCh (c :: r)) with
      | none =>
        have : formatCharsOk false (List.takeWhile isFmtCh (c :: r)) = false := by
          rw [← decodeLetters_isSome, hd]; rfl
        simp [this, toSpecRes]
      | some l =>
        have : formatCharsOk false (List.takeWhile isFmtCh (c :: r)) = true := by
          rw [← decodeLetters_isSome, hd]; rfl
        simp only [this, Bool.not_true, Bool.false_eq_true, if_false]
        have hhead : ∀ a x, (c :: r).dropWhile isFmtCh = a :: x → isFmtCh a = false :=
          fun a x hax => dropWhile_head hax
        generalize (c :: r).dropWhile isFmtCh = s2 at hhead
        rcases s2 with _ | ⟨a, x⟩
        · simp [verbatim_nil, toSpecRes]
        · by_cases hao : a = '{'
          · subst hao
            simp only [group_eq_takeBraced]
            cases hb : takeBraced 0 x with
            | none => simp [toSpecRes]
            | some p =>
              obtain ⟨g, y⟩ := p
              simp only [Option.map_some]
              rw [toSpecRes_closed2 _ _ _ _ l hd]
              rcases verbatim 0 y with ⟨post, s4⟩
              simp only
              split
              · rfl
              · rename_i hne
                split
                · exact absurd rfl (hne _)
                · rfl
          · split
            · rename_i heq
              split at heq
              · rename_i h; cases h; exact absurd rfl hao
              · cases heq
            · rename_i sep s3 heq
              split at heq
              · rename_i h; cases h; exact absurd rfl hao
              · cases heq
                generalize hR : toSpecRes _ = R
                split at hR
                · rename_i h; cases h
                · rename_i h; cases h; exact absurd rfl hao
                · rw [toSpecRes_closed2 _ _ _ _ l hd] at hR
                  subst hR
                  rcases verbatim 0 (a :: x) with ⟨post, s4⟩
                  simp only
                  split
                  · rfl
                  · rename_i hne
                    split
                    · exact absurd rfl (hne _)
                    · rfl

theorem parse_nil : parse [] = some [] := by rw [parse]

theorem parse_open (r : Str) :
    parse ('{' :: r) =
      match parsePart r with
      | none => none
      | some (p, rest) => (parse rest).map fun ps => Piece.part p :: ps := by
  rw [parse]
  simp only [if_true]
  split <;> simp_all

theorem parse_close (r : Str) : parse ('}' :: r) = none := by
  rw [parse]; simp

theorem parse_text (c : Char) (r : Str) (h1 : c ≠ '{') (h2 : c ≠ '}') :
    parse (c :: r) = (parse r).map fun ps => Piece.ch c :: ps := by
  rw [parse]; simp [h1, h2]

theorem parse_text_append (l r : Str) (h : ∀ c ∈ l, c ≠ '{' ∧ c ≠ '}') :
    parse (l ++ r) = (parse r).map fun ps => l.map Piece.ch ++ ps := by
  induction l with
  | nil => simp
  | cons c l ih =>
    have hc := h c (by simp)
    rw [List.cons_append, parse_text _ _ hc.1 hc.2, ih (fun x hx => h x (by simp [hx]))]
    cases parse r <;> simp

/-- the reference grammar accepts exactly what the parser accepts, with the same reading -/
theorem parse_eq (s : Str) :
    parse s = match parseFormat s with
      | .ok ps => toSpecPieces ps
      | .error _ => none := by
  induction s using parseFormat_induct with
  | nil => rw [parse_nil, parseFormat_nil]; rfl
  | close r => rw [parse_close, parseFormat_close]
  | openErr r e he => rw [parse_open, parseFormat_open, parsePart_eq, he]; rfl
  | openOk r p rest hc ih =>
    rw [parse_open, parseFormat_open, parsePart_eq, hc]
    obtain ⟨_, _, a, b, c, d, rfl⟩ := closed1_ok hc
    simp only [toSpecRes]
    cases hp : toSpecPart a b c d with
    | none =>
      cases parseFormat rest with
      | error e => simp
      | ok ps => simp [toSpecPieces, hp]
    | some sp =>
      simp only [Option.map_some, ih]
      cases parseFormat rest with
      | error e => simp
      | ok ps => simp [toSpecPieces, hp]
  | text c r h1 h2 ih =>
    rw [parseFormat_text _ _ h1 h2]
    have e : c :: r = (c :: r.takeWhile notBrace) ++ r.dropWhile notBrace := by simp
    have hl' : ∀ x ∈ c :: r.takeWhile notBrace, x ≠ '{' ∧ x ≠ '}' := by
      intro x hx
      rcases List.mem_cons.1 hx with rfl | hx
      · exact ⟨h1, h2⟩
      · simpa [notBrace] using mem_takeWhile hx
    rw [e, parse_text_append _ _ hl', ih]
    cases parseFormat (r.dropWhile notBrace) with
    | error e => simp
    | ok ps => simp [toSpecPieces]

/-! ### the formatting functions against the reference rule -/

theorem firstLetterAuxU_eq (toks : List Tok) :
    firstLetterAuxU toks =
      match toks.find? fun t => isSpecialTok t || isLetterTok t with
      | some t => if isSpecialTok t then ['{'] ++ t.1 ++ ['}'] else t.1
      | none => [] := by
  induction toks with
  | nil => rfl
  | cons a r ih =>
    obtain ⟨t, l⟩ := a
    simp only [firstLetterAuxU, List.find?_cons]
    by_cases hb : isBraceTok t = true
    · have h1 : isSpecialTok (t, l) = false := by
        simp only [isBraceTok, Bool.or_eq_true, decide_eq_true_eq] at hb
        rcases hb with rfl | rfl <;> rfl
      have h2 : isLetterTok (t, l) = false := by
        simp only [isBraceTok, Bool.or_eq_true, decide_eq_true_eq] at hb
        rcases hb with rfl | rfl
        · simp [isLetterTok, Names.brace_no_class.1.1]
        · simp [isLetterTok, Names.brace_no_class.2.1.1]
      simp [hb, h1, h2, ih]
    · simp only [hb, Bool.false_eq_true, if_false]
      by_cases hs : startsWithBackslash t = true ∧ t ≠ ['\\']
      · have h1 : isSpecialTok (t, l) = true := by
          simpa [isSpecialTok, startsWithBackslash] using hs
        simp [hs, h1]
      · have h1 : isSpecialTok (t, l) = false := by
          cases h : isSpecialTok (t, l)
          · rfl
          · exfalso; apply hs; simpa [isSpecialTok, startsWithBackslash] using h
        simp only [hs, if_false, h1, Bool.false_or]
        by_cases hl : t ≠ [] ∧ t.all isAlphaN = true
        · have h2 : isLetterTok (t, l) = true := by simpa [isLetterTok] using hl
          simp [hl, h2, h1]
        · have h2 : isLetterTok (t, l) = false := by
            cases h : isLetterTok (t, l)
            · rfl
            · exfalso; apply hl; simpa [isLetterTok] using h
          simp only [hl, if_false, h2]
          exact ih

theorem bibtexFirstLetterU_eq : bibtexFirstLetterU = firstLetter := by
  funext s
  simp only [bibtexFirstLetterU, firstLetter]
  congr 1
  funext toks
  exact firstLetterAuxU_eq toks

theorem bibtexAbbreviateU_eq (s : Str) (delim : Option Str) :
    bibtexAbbreviateU s delim = abbreviate delim s := by
  unfold bibtexAbbreviateU abbreviate
  rw [bibtexFirstLetterU_eq]
  cases (splitTex .hyphen s).mapM firstLetter with
  | none => rfl
  | some ls => cases delim <;> rfl

/-- the last element, the way `join` takes it -/
theorem drop_last_flatten (a : Str) (l : List Str) :
    ((a :: l).drop ((a :: l).length - 1)).flatten = (a :: l).getLast (by simp) := by
  induction l generalizing a with
  | nil => simp
  | cons b l ih =>
    have := ih b
    simp only [List.length_cons, Nat.add_sub_cancel] at this ⊢
    rw [List.getLast_cons (by simp)]
    rw [← this]
    simp

/-- tokens from the second on, when there are at least three: spaces, then a tie before the last -/
theorem interleave_tail (n : Nat) (b : Bool) (tie space : Str) (i : Nat) (a : Str) (l : List Str)
    (hi : 0 < i) (hn : n = i + (l.length + 2)) (u : Str) :
    interleave (defaultSep n b tie space) i (a :: u :: l) =
      joinWith space (a :: u :: l).dropLast ++ tie ++ (a :: u :: l).getLast (by simp) := by
  induction l generalizing i a u with
  | nil =>
    have h1 : i + 2 = n := by simp at hn; omega
    simp [interleave, defaultSep, h1, joinWith]
  | cons c l ih =>
    have h1 : ¬ (i + 2 = n) := by simp at hn; omega
    have h2 : ¬ (i = 0) := by omega
    rw [interleave, ih (i + 1) u (by omega) (by simp at hn ⊢; omega) c]
    simp only [defaultSep, h1, h2, if_false, false_and]
    rw [List.getLast_cons (by simp)]
    simp [joinWith, List.dropLast]

theorem joinNames_eq (ws : List Str) (tie space : Str) :
    joinNames ws tie space = joinDefault ws tie space := by
  unfold joinNames joinDefault
  match ws with
  | [] => rfl
  | [a] => simp [interleave, joinWith]
  | [a, b] => simp [interleave, joinWith, defaultSep]
  | a :: b :: c :: l =>
    have h1 : ¬ ((a :: b :: c :: l).length ≤ 2) := by simp
    simp only [h1, if_false, tieOrSpace, Option.map_map]
    congr 1
    funext n
    simp only [Function.comp]
    rw [interleave, interleave_tail _ _ _ _ 1 b l (by omega) (by simp; omega) c]
    have h2 : ¬ (0 + 2 = (a :: b :: c :: l).length) := by simp
    simp only [defaultSep, h2, if_false, true_and, enoughChars]
    have h3 := drop_last_flatten b (c :: l)
    simp only [List.length_cons, Nat.add_sub_cancel] at h3 ⊢
    rw [h3]
    by_cases hn : n < 3 <;> simp [hn, List.append_assoc]

/-! ### trailing ties -/

theorem rstripTilde_eq (s : Str) : rstripTilde s = s.take (s.length - trailingTies s) := by
  unfold rstripTilde trailingTies
  have h : s = (s.reverse.dropWhile (· = '~')).reverse ++ (s.reverse.takeWhile (· = '~')).reverse := by
    rw [← List.reverse_append, List.takeWhile_append_dropWhile, List.reverse_reverse]
  conv => rhs; rw [h]
  simp

theorem endsWith_one (s : Str) : endsWith s ['~'] = decide (1 ≤ trailingTies s) := by
  unfold endsWith trailingTies List.isSuffixOf
  cases s.reverse with
  | nil => rfl
  | cons a t =>
    by_cases h : a = '~'
    · subst h; simp [List.isPrefixOf]
    · simp [List.isPrefixOf, h]
      exact fun h' => h h'.symm

theorem endsWith_two (s : Str) : endsWith s ['~', '~'] = decide (2 ≤ trailingTies s) := by
  unfold endsWith trailingTies List.isSuffixOf
  cases s.reverse with
  | nil => rfl
  | cons a t =>
    by_cases h : a = '~'
    · subst h
      cases t with
      | nil => simp [List.isPrefixOf]
      | cons b t =>
        by_cases h2 : b = '~'
        · subst h2; simp [List.isPrefixOf]
        · simp [List.isPrefixOf, h2]
          exact fun h' => h2 h'.symm
    · simp [List.isPrefixOf, h]
      exact fun h' => (h h'.symm).elim

def ofOpt : Option Str → Except FmtErr Str
  | none => .error .tooDeep
  | some s => .ok s

/-- the discretionary-tie tail of `NamePart.format` -/
theorem tie_tail (front post1 : Str) :
    (if (!endsWith post1 ['~', '~'] && endsWith post1 ['~']) = true then
        match tieOrSpace (front ++ rstripTilde post1) ['~'] [' '] with
        | none => Except.error FmtErr.tooDeep
        | some d => Except.ok (front ++ rstripTilde post1 ++ d)
      else if endsWith post1 ['~', '~'] = true then Except.ok (front ++ rstripTilde post1 ++ ['~'])
      else Except.ok (front ++ rstripTilde post1)) = ofOpt (withPost front post1) := by
  rw [endsWith_one, endsWith_two, rstripTilde_eq]
  unfold withPost
  simp only []
  generalize trailingTies post1 = k
  by_cases h0 : k = 0
  · subst h0; simp [ofOpt]
  · by_cases h1 : k = 1
    · subst h1
      simp only [tieOrSpace, enoughChars]
      simp
      cases bibtexLen (front ++ List.take (post1.length - 1) post1) with
      | none => simp [ofOpt]
      | some n => by_cases hn : n < 3 <;> simp [ofOpt, hn]
    · have h2 : 2 ≤ k := by omega
      simp [h0, h1, h2, ofOpt]

theorem getPart_ofLetter {a : Char} {slot : Slot} (person : Person) (h : Slot.ofLetter a = some slot) :
    person.getPart a = some (tokens person slot) := by
  unfold Slot.ofLetter at h
  unfold Person.getPart
  by_cases h1 : a = 'f'
  · subst h1; cases h; rfl
  · by_cases h2 : a = 'v'
    · subst h2; cases h; rfl
    · by_cases h3 : a = 'l'
      · subst h3; cases h; rfl
      · by_cases h4 : a = 'j'
        · subst h4; cases h; rfl
        · simp [h1, h2, h3, h4] at h

/-- what a legal letter run decodes to -/
theorem decodeLetters_some {run : Str} {l : Letters} (h : decodeLetters run = some l) :
    ∃ a, Slot.ofLetter a = some l.slot ∧
      ((lower run = [a] ∧ l.full = false) ∨ (lower run = [a, a] ∧ l.full = true)) := by
  unfold decodeLetters at h
  split at h
  · rename_i a hv
    simp only [Option.map_eq_some_iff] at h
    obtain ⟨s, hs, rfl⟩ := h
    exact ⟨a, hs, Or.inl ⟨hv, rfl⟩⟩
  · rename_i a b hv
    split at h
    · rename_i hab
      subst hab
      simp only [Option.map_eq_some_iff] at h
      obtain ⟨s, hs, rfl⟩ := h
      exact ⟨a, hs, Or.inr ⟨hv, rfl⟩⟩
    · cases h
  · cases h

/-- `NamePart.format` for a part with letters -/
theorem formatPart_some (person : Person) (pre run : Str) (delim : Option Str) (post : Str)
    (l : Letters) (h : decodeLetters run = some l) :
    formatPart person pre (some run) delim post =
      ofOpt (Spec.NameFormat.formatPart person ⟨pre, some l, delim, post⟩) := by
  obtain ⟨a, ha, hv⟩ := decodeLetters_some h
  have hg := getPart_ofLetter person ha
  unfold Pybtex.formatPart Spec.NameFormat.formatPart
  simp only [Option.isNone_some, Bool.false_eq_true, false_and, if_false, body, shownTokens]
  rcases hv with ⟨hv, hf⟩ | ⟨hv, hf⟩
  · simp only [hv, hf, List.length_cons, List.length_nil, if_true, List.head?_cons, hg]
    have hab : (fun n => bibtexAbbreviateU n delim) = abbreviate delim :=
      funext fun n => bibtexAbbreviateU_eq n delim
    rw [hab]
    by_cases ht : tokens person l.slot = []
    · simp [ht, ofOpt]
    · simp only [ht, and_false, if_false, Bool.false_eq_true]
      cases List.mapM (abbreviate delim) (tokens person l.slot) with
      | none => rfl
      | some ns =>
        cases delim with
        | none =>
          simp only [joinNames_eq, Option.bind_some, joinShown, Bool.false_eq_true, if_false]
          cases joinDefault ns ['.', '~'] ['.', ' '] with
          | none => rfl
          | some j => exact tie_tail (pre ++ j) post
        | some d => exact tie_tail (pre ++ joinWith d ns) post
  · have h2 : ¬ (0 + 1 + 1 = 1) := by omega
    have h3 : [a, a].getLast? = some a := by simp
    simp only [hv, hf, h2, h3, List.length_cons, List.length_nil, if_true, if_false, List.head?_cons, hg,
      and_self, Bool.false_eq_true, Option.bind_some]
    by_cases ht : tokens person l.slot = []
    · simp [ht, ofOpt]
    · simp only [ht, and_false, if_false]
      cases delim with
      | none =>
        simp only [joinNames_eq, joinShown, if_true]
        cases joinDefault (tokens person l.slot) ['~'] [' '] with
        | none => rfl
        | some j => exact tie_tail (pre ++ j) post
      | some d => exact tie_tail (pre ++ joinWith d (tokens person l.slot)) post

/-- `NamePart.format` for a part without letters (as the parser produces it) -/
theorem formatPart_none (person : Person) (pre : Str) :
    formatPart person pre none none [] =
      ofOpt (Spec.NameFormat.formatPart person ⟨pre, none, none, []⟩) := by
  unfold Pybtex.formatPart Spec.NameFormat.formatPart
  simp only [Option.isNone_none, true_and, and_true]
  have hj : joinNames [] ['~'] [' '] = some [] := rfl
  by_cases hp : pre = []
  · subst hp
    simp [hj, ofOpt, withPost, trailingTies, endsWith, rstripTilde]
  · simp only [ne_eq, hp, not_false_eq_true, if_true, List.length_nil, List.head?_nil]
    simp only [Bool.not_true, Bool.false_eq_true, false_and, if_false, hj]
    exact tie_tail [] pre

theorem formatPieces_text (person : Person) (t : Str) (ps : List Piece) :
    formatPieces person (t.map Piece.ch ++ ps) = (formatPieces person ps).map fun s => t ++ s := by
  induction t with
  | nil => simp
  | cons c t ih =>
    simp only [List.map_cons, List.cons_append, formatPieces, ih]
    cases formatPieces person ps <;> simp

theorem toSpecPart_partOk {pre : Str} {fc delim : Option Str} {post : Str}
    (h : PartOk (.part pre fc delim post)) : ∃ p, toSpecPart pre fc delim post = some p := by
  cases fc with
  | none => exact ⟨_, rfl⟩
  | some run =>
    have h' : formatCharsOk false run = true := h
    rw [← decodeLetters_isSome] at h'
    obtain ⟨l, hl⟩ := Option.isSome_iff_exists.1 h'
    exact ⟨⟨pre, some l, delim, post⟩, by simp [toSpecPart, hl]⟩

theorem toSpecPieces_partOk {ps : List FmtPart} (h : ∀ p ∈ ps, PartOk p) :
    ∃ pieces, toSpecPieces ps = some pieces := by
  induction ps with
  | nil => exact ⟨_, rfl⟩
  | cons a r ih =>
    obtain ⟨ps', hps'⟩ := ih (fun p hp => h p (by simp [hp]))
    cases a with
    | text t => exact ⟨t.map Piece.ch ++ ps', by simp [toSpecPieces, hps']⟩
    | part pre fc delim post =>
      obtain ⟨p, hp⟩ := toSpecPart_partOk (h (.part pre fc delim post) (by simp))
      exact ⟨Piece.part p :: ps', by simp [toSpecPieces, hps', hp]⟩

theorem formatPart_eq (person : Person) {pre : Str} {fc delim : Option Str} {post : Str} {p : Part}
    (h : PartOk (.part pre fc delim post)) (hp : toSpecPart pre fc delim post = some p) :
    formatPart person pre fc delim post = ofOpt (Spec.NameFormat.formatPart person p) := by
  cases fc with
  | none =>
    obtain ⟨rfl, rfl⟩ : delim = none ∧ post = [] := h
    cases hp
    exact formatPart_none person pre
  | some run =>
    simp only [toSpecPart, Option.map_eq_some_iff] at hp
    obtain ⟨l, hl, rfl⟩ := hp
    exact formatPart_some person pre run delim post l hl

theorem formatParts_eq (person : Person) {ps : List FmtPart} {pieces : List Piece}
    (h : ∀ p ∈ ps, PartOk p) (hp : toSpecPieces ps = some pieces) :
    formatParts person ps = ofOpt (formatPieces person pieces) := by
  induction ps generalizing pieces with
  | nil => cases hp; rfl
  | cons a r ih =>
    have hr : ∀ p ∈ r, PartOk p := fun p hp => h p (by simp [hp])
    cases a with
    | text t =>
      simp only [toSpecPieces, Option.map_eq_some_iff] at hp
      obtain ⟨ps', hps', rfl⟩ := hp
      rw [formatParts, ih hr hps', formatPieces_text]
      cases formatPieces person ps' <;> rfl
    | part pre fc delim post =>
      simp only [toSpecPieces, Option.bind_eq_some_iff, Option.map_eq_some_iff] at hp
      obtain ⟨p, hp1, ps', hps', rfl⟩ := hp
      rw [formatParts, ih hr hps', formatPart_eq person (h _ (by simp)) hp1]
      simp only [formatPieces]
      cases Spec.NameFormat.formatPart person p with
      | none => rfl
      | some s => cases formatPieces person ps' <;> rfl

/-- the model against the reference, outcome by outcome -/
theorem formatName_spec (name fmt : Str) :
    match formatName name fmt with
    | .ok (s, _) => Spec.formatName name fmt = .ok s
    | .error .tooDeep => Spec.formatName name fmt = .tooDeep
    | .error .internal => False
    | .error _ => Spec.formatName name fmt = .malformed := by
  unfold Pybtex.formatName Spec.formatName
  rw [parse_eq]
  cases hpf : parseFormat fmt with
  | error e =>
    have := parseFormat_not_internal fmt
    rw [hpf] at this
    cases e <;> simp_all
  | ok parts =>
    have hok := parseFormat_partOk hpf
    obtain ⟨pieces, hpieces⟩ := toSpecPieces_partOk hok
    simp only [hpieces]
    cases hm : mkPerson name [] [] [] [] [] with
    | error e =>
      have := (mkPerson_error hm).1
      subst this
      simp
    | ok pr =>
      obtain ⟨person, rep⟩ := pr
      simp only [formatParts_eq person hok hpieces]
      cases formatPieces person pieces <;> simp [ofOpt]

/-! ### brace-level-0 text -/

/-- put text in front of a result -/
def prepend (t : Str) : Except FmtErr (Str × Bool) → Except FmtErr (Str × Bool)
  | .ok (s, b) => .ok (t ++ s, b)
  | .error e => .error e

theorem prepend_nil (r : Except FmtErr (Str × Bool)) : prepend [] r = r := by
  cases r with
  | error e => rfl
  | ok p => rfl

theorem prepend_append (a b : Str) (r : Except FmtErr (Str × Bool)) :
    prepend (a ++ b) r = prepend a (prepend b r) := by
  cases r with
  | error e => rfl
  | ok p => simp [prepend]

/-- `format_name` after the format string has been parsed -/
def finishName (name : Str) : Except FmtErr (List FmtPart) → Except FmtErr (Str × Bool)
  | .error e => .error e
  | .ok parts =>
    match mkPerson name [] [] [] [] [] with
    | .error .tooDeep => .error .tooDeep
    | .error _ => .error .internal
    | .ok (person, rep) =>
      match formatParts person parts with
      | .error e => .error e
      | .ok s => .ok (s, rep)

theorem formatName_eq_finish (name fmt : Str) :
    formatName name fmt = finishName name (parseFormat fmt) := by
  unfold formatName finishName
  cases parseFormat fmt <;> rfl

def consOut (c : Char) : Except FmtErr Str → Except FmtErr Str
  | .error e => .error e
  | .ok t => .ok (c :: t)

theorem finishName_cons (name : Str) (c : Char) (ps ps' : List FmtPart)
    (h : ∀ person, formatParts person ps' = consOut c (formatParts person ps)) :
    finishName name (.ok ps') = prepend [c] (finishName name (.ok ps)) := by
  unfold finishName
  simp only
  cases mkPerson name [] [] [] [] [] with
  | error e => cases e <;> rfl
  | ok pr =>
    obtain ⟨person, rep⟩ := pr
    simp only [h person]
    cases formatParts person ps <;> rfl

theorem formatParts_text (person : Person) (t : Str) (ps : List FmtPart) :
    formatParts person (.text t :: ps) =
      match formatParts person ps with
      | .error e => .error e
      | .ok u => .ok (t ++ u) := by
  rw [formatParts]
  cases formatParts person ps <;> rfl

/-- parsing after one more level-0 character in front: the same error, or parts that format
to the same text with the character in front -/
theorem parseFormat_text_cons (c : Char) (s : Str) (h1 : c ≠ '{') (h2 : c ≠ '}') :
    (∀ e, parseFormat s = .error e → parseFormat (c :: s) = .error e) ∧
    (∀ ps, parseFormat s = .ok ps → ∃ ps', parseFormat (c :: s) = .ok ps' ∧
      ∀ person, formatParts person ps' = consOut c (formatParts person ps)) := by
  have htext : ∀ ps person, formatParts person (.text [c] :: ps) = consOut c (formatParts person ps) := by
    intro ps person
    rw [formatParts_text]
    cases formatParts person ps <;> rfl
  rw [parseFormat_text _ _ h1 h2]
  cases s with
  | nil =>
    simp only [List.dropWhile_nil, List.takeWhile_nil, parseFormat_nil]
    exact ⟨(fun e h => nomatch h), fun ps h => by cases h; exact ⟨_, rfl, htext _⟩⟩
  | cons c' r =>
    by_cases hb : notBrace c' = true
    · have hb' : c' ≠ '{' ∧ c' ≠ '}' := by simpa [notBrace] using hb
      simp only [List.dropWhile_cons, List.takeWhile_cons, hb, if_true]
      rw [parseFormat_text _ _ hb'.1 hb'.2]
      cases parseFormat (List.dropWhile notBrace r) with
      | error e => exact ⟨fun e h => (by cases h; rfl), fun ps h => nomatch h⟩
      | ok ps0 =>
        refine ⟨(fun e h => nomatch h), fun ps h => ?_⟩
        cases h
        refine ⟨_, rfl, fun person => ?_⟩
        rw [formatParts_text, formatParts_text]
        cases formatParts person ps0 <;> rfl
    · have hb' : notBrace c' = false := by simpa using hb
      simp only [List.dropWhile_cons, List.takeWhile_cons, hb', Bool.false_eq_true, if_false]
      cases parseFormat (c' :: r) with
      | error e => exact ⟨fun e h => (by cases h; rfl), fun ps h => nomatch h⟩
      | ok ps0 =>
        refine ⟨(fun e h => nomatch h), fun ps h => ?_⟩
        cases h
        exact ⟨_, rfl, htext _⟩

theorem formatName_text_cons (name : Str) (c : Char) (s : Str) (h1 : c ≠ '{') (h2 : c ≠ '}') :
    formatName name (c :: s) = prepend [c] (formatName name s) := by
  rw [formatName_eq_finish, formatName_eq_finish]
  obtain ⟨he, hok⟩ := parseFormat_text_cons c s h1 h2
  cases hp : parseFormat s with
  | error e => rw [he e hp]; rfl
  | ok ps =>
    obtain ⟨ps', hps', hf⟩ := hok ps hp
    rw [hps']
    exact finishName_cons name c ps ps' hf

theorem formatName_text_append (name t rest : Str) (ht : ∀ c ∈ t, c ≠ '{' ∧ c ≠ '}') :
    formatName name (t ++ rest) = prepend t (formatName name rest) := by
  induction t with
  | nil => rw [prepend_nil]; rfl
  | cons c t ih =>
    have hc := ht c (by simp)
    rw [List.cons_append, formatName_text_cons _ _ _ hc.1 hc.2, ih (fun x hx => ht x (by simp [hx]))]
    exact (prepend_append [c] t _).symm

/-! ### clause-wise consequences -/

theorem trailingTies_of_getLast {s : Str} (h : s.getLast? ≠ some '~') : trailingTies s = 0 := by
  unfold trailingTies
  rw [← List.head?_reverse] at h
  cases hr : s.reverse with
  | nil => rfl
  | cons a t =>
    rw [hr] at h
    have : a ≠ '~' := by simpa using h
    simp [this]

theorem trailingTies_append_tie (s : Str) : trailingTies (s ++ ['~']) = trailingTies s + 1 := by
  simp [trailingTies]

theorem withPost_plain {front post : Str} (h : trailingTies post = 0) :
    withPost front post = some (front ++ post) := by
  simp [withPost, h]

theorem withPost_one {front core : Str} (h : trailingTies core = 0) :
    withPost front (core ++ ['~']) =
      (bibtexLen (front ++ core)).map fun n => front ++ core ++ (if n < 3 then ['~'] else [' ']) := by
  have hk : trailingTies (core ++ ['~']) = 1 := by rw [trailingTies_append_tie, h]
  simp [withPost, hk]

theorem withPost_two {front core : Str} (h : trailingTies core = 0) :
    withPost front (core ++ ['~', '~']) = some (front ++ core ++ ['~']) := by
  have hk : trailingTies (core ++ ['~', '~']) = 2 := by
    have : core ++ ['~', '~'] = (core ++ ['~']) ++ ['~'] := by simp
    rw [this, trailingTies_append_tie, trailingTies_append_tie, h]
  have : core.length + 2 - 2 = core.length := by omega
  simp [withPost, hk, this]

/-- `NamePart.format` for a part with letters whose name part is not empty:
pre-text, body, post-text with its tie directive -/
theorem formatPart_body (person : Person) (pre run : Str) (delim : Option Str) (post : Str)
    (l : Letters) (h : decodeLetters run = some l) (hne : tokens person l.slot ≠ []) :
    formatPart person pre (some run) delim post =
      ofOpt ((body l delim (tokens person l.slot)).bind fun b => withPost (pre ++ b) post) := by
  rw [formatPart_some person pre run delim post l h]
  simp [Spec.NameFormat.formatPart, hne]

theorem formatPart_empty (person : Person) (pre run : Str) (delim : Option Str) (post : Str)
    (l : Letters) (h : decodeLetters run = some l) (he : tokens person l.slot = []) :
    formatPart person pre (some run) delim post = .ok [] := by
  rw [formatPart_some person pre run delim post l h]
  simp [Spec.NameFormat.formatPart, he, ofOpt]

theorem withPost_length {front post out : Str} (h : withPost front post = some out) :
    front.length ≤ out.length ∧ (post ≠ [] → out ≠ []) := by
  unfold withPost at h
  simp only at h
  have hk : trailingTies post ≤ post.length := by
    unfold trailingTies
    have := (List.takeWhile_sublist (l := post.reverse) (· = '~')).length_le
    simpa using this
  split at h
  · rename_i h0
    cases h
    refine ⟨by simp, fun hp => ?_⟩
    have : 0 < post.length := List.length_pos_iff.2 hp
    intro hnil
    have := congrArg List.length hnil
    simp at this
    omega
  · split at h
    · simp only [Option.map_eq_some_iff] at h
      obtain ⟨n, _, rfl⟩ := h
      refine ⟨by simp, fun _ => ?_⟩
      split <;> simp
    · cases h
      exact ⟨by simp, fun _ => by simp⟩

theorem joinWith_length {sep : Str} {ws : List Str} {t : Str} (h : t ∈ ws) :
    t.length ≤ (joinWith sep ws).length := by
  induction ws with
  | nil => simp at h
  | cons a r ih =>
    cases r with
    | nil =>
      have : t = a := by simpa using h
      subst this; simp [joinWith]
    | cons b r' =>
      simp only [joinWith, List.length_append]
      rcases List.mem_cons.1 h with rfl | h'
      · omega
      · have := ih h'; omega

theorem interleave_length {sepAt : Nat → Str} {i : Nat} {ws : List Str} {t : Str} (h : t ∈ ws) :
    t.length ≤ (interleave sepAt i ws).length := by
  induction ws generalizing i with
  | nil => simp at h
  | cons a r ih =>
    cases r with
    | nil =>
      have : t = a := by simpa using h
      subst this; simp [interleave]
    | cons b r' =>
      simp only [interleave, List.length_append]
      rcases List.mem_cons.1 h with rfl | h'
      · omega
      · have := ih (i := i + 1) h'; omega

theorem joinDefault_length {ws : List Str} {tie space out t : Str}
    (h : joinDefault ws tie space = some out) (ht : t ∈ ws) : t.length ≤ out.length := by
  unfold joinDefault at h
  split at h
  · simp at ht
  · split at h
    · cases h; exact interleave_length ht
    · simp only [Option.map_eq_some_iff] at h
      obtain ⟨n, _, rfl⟩ := h
      exact interleave_length ht

/-- a name part shown in full with a non-empty token has a non-empty body -/
theorem body_full_ne_nil {l : Letters} {sep : Option Str} {toks : List Str} {b : Str}
    (hf : l.full = true) (h : body l sep toks = some b) (ht : ∃ t ∈ toks, t ≠ []) : b ≠ [] := by
  obtain ⟨t, htm, htne⟩ := ht
  have hpos : 0 < t.length := List.length_pos_iff.2 htne
  simp only [body, shownTokens, hf, if_true, Option.bind_some, joinShown] at h
  have hlen : t.length ≤ b.length := by
    cases sep with
    | none => exact joinDefault_length h htm
    | some s => cases h; exact joinWith_length htm
  intro hb; subst hb; simp only [List.length_nil] at hlen; omega

theorem joinDefault_one (a tie space : Str) : joinDefault [a] tie space = some a := by
  simp [joinDefault, interleave]

theorem joinDefault_two (a z tie space : Str) : joinDefault [a, z] tie space = some (a ++ tie ++ z) := by
  simp [joinDefault, interleave, defaultSep]

theorem joinDefault_many (a m : Str) (mid : List Str) (z tie space : Str) :
    joinDefault (a :: m :: mid ++ [z]) tie space =
      (bibtexLen a).map fun n =>
        a ++ (if n < 3 then tie else space) ++ joinWith space (m :: mid) ++ tie ++ z := by
  rw [← joinNames_eq]
  unfold joinNames
  have h1 : ¬ ((a :: m :: mid ++ [z]).length ≤ 2) := by simp
  have h2 : (m :: mid ++ [z]).dropLast = m :: mid := by
    have : m :: mid ++ [z] = (m :: mid) ++ [z] := rfl
    rw [this, List.dropLast_concat]
  have h3 : ((m :: mid ++ [z]).drop ((m :: mid ++ [z]).length - 1)).flatten = z := by
    have : m :: mid ++ [z] = (m :: mid) ++ [z] := rfl
    rw [this]
    simp
  rw [if_neg h1]
  simp only [tieOrSpace, Option.map_map, List.cons_append]
  simp only [List.cons_append] at h2 h3
  rw [h2, h3]
  cases bibtexLen a with
  | none => rfl
  | some n => by_cases hn : n < 3 <;> simp [enoughChars, hn]

/-! ### the tokens of a person made from a name string are never empty -/

theorem splitTex_space_nil : splitTex .space [] = [] := by decide

theorem parseName_tokens_ne_nil {s : Str} {p : Person} {b : Bool} (h : parseName s = .ok (p, b)) :
    ∀ t, (t ∈ p.first ∨ t ∈ p.middle ∨ t ∈ p.prelast ∨ t ∈ p.last ∨ t ∈ p.lineage) → t ≠ [] := by
  have hr : (p, b) = Names.splitWith Names.isVonB s :=
    Names.parseName_ok h (fun t _ b hb => by simp [Names.isVonB, hb])
  have h2 := Names.splitWith_tokens Names.isVonB s
  rw [← hr] at h2
  simp only at h2
  intro t ht
  split at h2
  · rw [h2] at ht; simp at ht
  · obtain ⟨h3, h4⟩ := h2
    have hm : t ∈ splitTex .space s := by
      rw [← h3]
      rw [h4] at ht
      simp only [List.mem_append]
      rcases ht with ht | ht | ht | ht | ht
      · exact Or.inl (Or.inl (Or.inl ht))
      · exact Or.inl (Or.inl (Or.inr ht))
      · exact Or.inl (Or.inr ht)
      · exact Or.inr ht
      · simp at ht
    exact Names.splitTex_space_ne_nil hm
  · obtain ⟨h3, h4, h5⟩ := h2
    rw [h4] at ht
    rcases ht with ht | ht | ht | ht | ht
    · exact Names.splitTex_space_ne_nil (s := _) (by rw [← h5]; simp [ht])
    · exact Names.splitTex_space_ne_nil (s := _) (by rw [← h5]; simp [ht])
    · exact Names.splitTex_space_ne_nil (s := _) (by rw [← h3]; simp [ht])
    · exact Names.splitTex_space_ne_nil (s := _) (by rw [← h3]; simp [ht])
    · simp at ht
  · obtain ⟨h3, h4, h5⟩ := h2
    rcases ht with ht | ht | ht | ht | ht
    · exact Names.splitTex_space_ne_nil (s := _) (by rw [← h5]; simp [ht])
    · exact Names.splitTex_space_ne_nil (s := _) (by rw [← h5]; simp [ht])
    · exact Names.splitTex_space_ne_nil (s := _) (by rw [← h3]; simp [ht])
    · exact Names.splitTex_space_ne_nil (s := _) (by rw [← h3]; simp [ht])
    · exact Names.splitTex_space_ne_nil (s := _) (by rw [← h4]; exact ht)

theorem mkPerson_tokens_ne_nil {name : Str} {p : Person} {rep : Bool}
    (h : mkPerson name [] [] [] [] [] = .ok (p, rep)) (slot : Slot) :
    ∀ t ∈ tokens p slot, t ≠ [] := by
  unfold mkPerson at h
  simp only [splitTex_space_nil, List.append_nil] at h
  split at h
  · cases h
  · rename_i p0 r hb
    cases h
    split at hb
    · have := parseName_tokens_ne_nil hb
      intro t ht
      apply this t
      cases slot <;> simp only [tokens, List.mem_append] at ht
      · rcases ht with ht | ht
        · exact Or.inl ht
        · exact Or.inr (Or.inl ht)
      · exact Or.inr (Or.inr (Or.inl ht))
      · exact Or.inr (Or.inr (Or.inr (Or.inl ht)))
      · exact Or.inr (Or.inr (Or.inr (Or.inr ht)))
    · cases hb
      intro t ht
      cases slot <;> simp [tokens] at ht

/-! ### concrete data for the `_nonvacuous` witnesses of `Props/C11.lean` -/

def exName : Str := "Charles Louis Xavier Joseph de la Vall{\\'e}e Poussin".toList

def exPerson : Person :=
  { first := ["Charles".toList], middle := ["Louis".toList, "Xavier".toList, "Joseph".toList],
    prelast := ["de".toList, "la".toList], last := ["Vall{\\'e}e".toList, "Poussin".toList] }

theorem exPerson_eq : mkPerson exName [] [] [] [] [] = .ok (exPerson, false) := by decide +kernel

theorem formatName_spec_ok {name fmt s : Str} {rep : Bool} (h : formatName name fmt = .ok (s, rep)) :
    Spec.formatName name fmt = .ok s := by
  have := formatName_spec name fmt
  rw [h] at this
  exact this

theorem formatName_spec_illegal {name fmt : Str} (h : formatName name fmt = .error .illegalLetters) :
    Spec.formatName name fmt = .malformed := by
  have := formatName_spec name fmt
  rw [h] at this
  exact this

/-! ### the generative reading of the grammar -/

theorem group_okText (d : Nat) (g r : Str) (h : okText false d g = true) :
    group d (g ++ r) = (group 0 r).map fun p => (g ++ p.1, p.2) := by
  induction g generalizing d with
  | nil =>
    have : d = 0 := by simpa [okText] using h
    subst this
    cases hg : group 0 r <;> simp [hg]
  | cons c g ih =>
    simp only [okText] at h
    simp only [List.cons_append, group]
    by_cases ho : c = '{'
    · subst ho
      simp only [if_true] at h
      simp only [show ('{' : Char) ≠ '}' by decide, if_false, if_true, ih _ h]
      cases group 0 r <;> simp
    · simp only [ho, if_false] at h ⊢
      by_cases hc : c = '}'
      · subst hc
        simp only [if_true, Bool.and_eq_true, decide_eq_true_eq] at h ⊢
        cases d with
        | zero => exact absurd rfl h.1
        | succ d' =>
          simp only [Nat.add_sub_cancel] at h
          simp only [ih _ h.2]
          cases group 0 r <;> simp
      · simp only [hc, if_false] at h ⊢
        have h' : okText false d g = true := by simpa using h
        rw [ih _ h']
        cases group 0 r <;> simp

theorem verbatim_okText (d : Nat) (v r : Str) (h : okText true d v = true) :
    verbatim d (v ++ r) = (v ++ (verbatim 0 r).1, (verbatim 0 r).2) := by
  induction v generalizing d with
  | nil =>
    have : d = 0 := by simpa [okText] using h
    subst this; simp
  | cons c v ih =>
    simp only [okText] at h
    rw [List.cons_append]
    cases d with
    | zero =>
      by_cases ho : c = '{'
      · subst ho
        simp only [if_true] at h
        rw [verbatim_zero_open, ih _ h]
        simp
      · simp only [ho, if_false] at h
        by_cases hc : c = '}'
        · subst hc; simp at h
        · simp only [hc, if_false, Bool.and_eq_true] at h
          have hv : isVerbChar c = true := by simpa using h.1
          have h' : okText true 0 v = true := by simpa using h.2
          rw [verbatim_zero_verb _ hv, ih _ h']
          simp
    | succ d' =>
      rw [verbatim_succ]
      by_cases ho : c = '{'
      · subst ho
        simp only [if_true] at h ⊢
        rw [ih _ h]; simp
      · simp only [ho, if_false] at h ⊢
        by_cases hc : c = '}'
        · subst hc
          simp only [if_true, Nat.add_sub_cancel, Bool.and_eq_true] at h ⊢
          rw [ih _ h.2]; simp
        · simp only [hc, if_false] at h ⊢
          have h' : okText true (d' + 1) v = true := by simpa using h
          rw [ih _ h']; simp

theorem decodeLetters_text (l : Letters) : decodeLetters l.text = some l := by
  obtain ⟨slot, full⟩ := l
  cases slot <;> cases full <;> decide

theorem letters_text_alpha (l : Letters) : ∀ c ∈ l.text, isFmtCh c = true := by
  obtain ⟨slot, full⟩ := l
  cases slot <;> cases full <;> decide

theorem letters_text_ne_nil (l : Letters) : l.text ≠ [] := by
  obtain ⟨slot, full⟩ := l
  cases slot <;> cases full <;> decide

theorem takeWhile_append_stop {α} (p : α → Bool) (l t : List α) (hl : ∀ x ∈ l, p x = true)
    (ht : ∀ a r, t = a :: r → p a = false) :
    (l ++ t).takeWhile p = l ∧ (l ++ t).dropWhile p = t := by
  induction l with
  | nil =>
    cases t with
    | nil => simp
    | cons a r => simp [ht a r rfl]
  | cons x l ih =>
    have hx := hl x (by simp)
    have := ih (fun y hy => hl y (by simp [hy]))
    simp [hx, this]

/-- the first character of well-formed post-text is a verbatim character or `{` -/
theorem okText_head {c : Char} {r : Str} (h : okText true 0 (c :: r) = true) :
    c = '{' ∨ isVerbChar c = true := by
  simp only [okText] at h
  by_cases ho : c = '{'
  · exact Or.inl ho
  · simp only [ho, if_false] at h
    by_cases hc : c = '}'
    · subst hc; simp at h
    · simp only [hc, if_false, Bool.and_eq_true] at h
      exact Or.inr (by simpa using h.1)

theorem verbChar_not_alpha {c : Char} (h : isVerbChar c = true) : isFmtCh c = false := by
  cases ha : isFmtCh c
  · rfl
  · rw [isFmtCh_not_verb ha] at h; cases h

theorem verbatim_close (rest : Str) : verbatim 0 ('}' :: rest) = ([], '}' :: rest) :=
  verbatim_zero_stop rest (by decide) (by decide)

/-- reading back a rendered part without letters -/
theorem parsePart_render_none (pre rest : Str) (hpre : okText true 0 pre = true) :
    parsePart (pre ++ '}' :: rest) = some (⟨pre, none, none, []⟩, rest) := by
  unfold parsePart
  rw [verbatim_okText 0 pre _ hpre, verbatim_close]
  simp

/-- reading back a rendered part with letters -/
theorem parsePart_render_some (pre : Str) (l : Letters) (sep : Option Str) (post rest : Str)
    (hpre : okText true 0 pre = true) (hpost : okText true 0 post = true)
    (hsep : match sep with | some s => okText false 0 s = true | none => post.head? ≠ some '{') :
    parsePart (pre ++ (l.text ++ ((match sep with | some s => ['{'] ++ s ++ ['}'] | none => [])
        ++ (post ++ '}' :: rest)))) = some (⟨pre, some l, sep, post⟩, rest) := by
  -- the text after the letters
  generalize htail : (match sep with | some s => ['{'] ++ s ++ ['}'] | none => [])
      ++ (post ++ '}' :: rest) = tail
  have htail_head : ∀ a r, tail = a :: r → isFmtCh a = false := by
    intro a r h
    rw [← htail] at h
    cases sep with
    | some s => simp at h; rw [← h.1]; exact isFmtCh_open
    | none =>
      cases post with
      | nil => simp at h; rw [← h.1]; exact isFmtCh_close
      | cons c post' =>
        simp at h
        rw [← h.1]
        rcases okText_head hpost with rfl | hv
        · exact isFmtCh_open
        · exact verbChar_not_alpha hv
  obtain ⟨c, lt, hlt⟩ := List.exists_cons_of_ne_nil (letters_text_ne_nil l)
  have hc : isFmtCh c = true := letters_text_alpha l c (by rw [hlt]; simp)
  obtain ⟨htw, hdw⟩ := takeWhile_append_stop isFmtCh l.text tail (letters_text_alpha l) htail_head
  unfold parsePart
  rw [verbatim_okText 0 pre _ hpre]
  have hstop : verbatim 0 (l.text ++ tail) = ([], l.text ++ tail) := by
    rw [hlt, List.cons_append]
    exact verbatim_zero_stop _ (isFmtCh_ne_open hc) (isFmtCh_not_verb hc)
  rw [hstop]
  simp only [List.append_nil]
  rw [hlt, List.cons_append] at htw hdw ⊢
  simp only [isFmtCh_ne_close hc, if_false, hc, if_true, htw, hdw]
  rw [← hlt, decodeLetters_text]
  simp only
  have hpostv : verbatim 0 (post ++ '}' :: rest) = (post, '}' :: rest) := by
    rw [verbatim_okText 0 post _ hpost, verbatim_close]; simp
  cases sep with
  | some s =>
    simp only at hsep
    have htl : tail = '{' :: (s ++ '}' :: (post ++ '}' :: rest)) := by rw [← htail]; simp
    rw [htl]
    have hg : group 0 (s ++ '}' :: (post ++ '}' :: rest)) = some (s, post ++ '}' :: rest) := by
      rw [group_okText 0 s _ hsep]; simp [group]
    simp only [hg, Option.map_some, hpostv]
  | none =>
    simp only at hsep
    have htl : tail = post ++ '}' :: rest := by rw [← htail]; simp
    rw [htl]
    have hno : ∀ x, post ++ '}' :: rest ≠ '{' :: x := by
      intro x h
      cases post with
      | nil => simp at h
      | cons a post' => simp at h; exact hsep (by simp [h.1])
    split
    · rename_i heq
      split at heq
      · rename_i x h; exact absurd h (hno x)
      · cases heq
    · rename_i sep' s3 heq
      split at heq
      · rename_i x h; exact absurd h (hno x)
      · cases heq
        simp only [hpostv]

theorem parsePart_render (p : Part) (rest : Str) (h : p.wf = true) :
    parsePart ((p.render.drop 1) ++ rest) = some (p, rest) := by
  obtain ⟨pre, letters, sep, post⟩ := p
  simp only [Part.wf, Bool.and_eq_true, Bool.or_eq_true, decide_eq_true_eq] at h
  obtain ⟨⟨⟨hpre, hpost⟩, hsep⟩, hl⟩ := h
  cases letters with
  | none =>
    have : sep = none ∧ post = [] := by simpa using hl
    obtain ⟨rfl, rfl⟩ := this
    have := parsePart_render_none pre rest hpre
    simpa [Part.render] using this
  | some l =>
    cases sep with
    | some s =>
      have := parsePart_render_some pre l (some s) post rest hpre hpost (by simpa using hsep)
      simpa [Part.render] using this
    | none =>
      have := parsePart_render_some pre l none post rest hpre hpost (by simpa using hsep)
      simpa [Part.render] using this

/-- every format string of the grammar is read back as its shape -/
theorem parse_render (ps : List Piece) (h : ∀ p ∈ ps, p.wf = true) : parse (render ps) = some ps := by
  induction ps with
  | nil => exact parse_nil
  | cons a r ih =>
    have ihr := ih (fun p hp => h p (by simp [hp]))
    cases a with
    | ch c =>
      have hc : c ≠ '{' ∧ c ≠ '}' := by simpa [Piece.wf] using h (.ch c) (by simp)
      rw [render, parse_text _ _ hc.1 hc.2, ihr]; rfl
    | part p =>
      have hp : p.wf = true := h (.part p) (by simp)
      have hr : render (.part p :: r) = '{' :: ((p.render.drop 1) ++ render r) := by
        simp [render, Part.render]
      rw [hr, parse_open, parsePart_render p _ hp]
      simp [ihr]

/-- `format_name` on a format string of the grammar: the rule applied to the shape it was
rendered from -/
theorem formatName_render (name : Str) (ps : List Piece) (h : ∀ p ∈ ps, p.wf = true) :
    formatName name (render ps) =
      match mkPerson name [] [] [] [] [] with
      | .error _ => .error .tooDeep
      | .ok (person, rep) =>
        match formatPieces person ps with
        | some s => .ok (s, rep)
        | none => .error .tooDeep := by
  have hp := parse_eq (render ps)
  rw [parse_render ps h] at hp
  rw [formatName_eq_finish]
  cases hpf : parseFormat (render ps) with
  | error e => rw [hpf] at hp; cases hp
  | ok parts =>
    rw [hpf] at hp
    simp only at hp
    have hok := parseFormat_partOk hpf
    unfold finishName
    simp only
    cases hm : mkPerson name [] [] [] [] [] with
    | error e => have := (mkPerson_error hm).1; subst this; rfl
    | ok pr =>
      obtain ⟨person, rep⟩ := pr
      simp only [formatParts_eq person hok hp.symm]
      cases formatPieces person ps <;> rfl

end NameFormat
end Pybtex
