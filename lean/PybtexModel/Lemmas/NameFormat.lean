/-
Helper lemmas for C11 (`Props/C11.lean`): the model of `NameFormatParser` / `NamePart`
(`Model/NameFormat.lean`) against the reference grammar and formatting rule of
`Spec/NameFormat.lean`.

Plan.
* `closed1` / `closed2`: closed forms of the `parse_name_part` loop (before / after the letter
  run) in terms of the reference notion `verbatim`; `namePartLoop_some`, `namePartLoop_none`
  show that the loop computes them whenever the fuel exceeds the input length (so the fuel is
  never exhausted).
* from the closed forms: the parser against `Spec.wellformed` and against `Spec.parse`.
* the formatting functions against the reference rule, clause by clause.
-/
import PybtexModel.Model.NameFormat
import PybtexModel.Spec.NameFormat
import PybtexModel.Lemmas.Names

namespace Pybtex
open Spec Spec.NameFormat

namespace NameFormat

/-! ### character classes -/

theorem isAlpha_not_verb {c : Char} (h : isAlpha c = true) : isVerbChar c = false := by
  simp [isVerbChar, h]

theorem isAlpha_ne_open {c : Char} (h : isAlpha c = true) : c ≠ '{' := by
  rintro rfl; revert h; decide

theorem isAlpha_ne_close {c : Char} (h : isAlpha c = true) : c ≠ '}' := by
  rintro rfl; revert h; decide

theorem isAlpha_ne_us {c : Char} (h : isAlpha c = true) : c ≠ '_' := by
  rintro rfl; revert h; decide

theorem isDigit_verb {c : Char} (h : isDigit c = true) : isVerbChar c = true := by
  simp only [isDigit, Bool.and_eq_true, decide_eq_true_eq] at h
  have h1 : c ≠ '{' := by rintro rfl; revert h; decide
  have h2 : c ≠ '}' := by rintro rfl; revert h; decide
  have h3 : c ≠ '_' := by rintro rfl; revert h; decide
  have h4 : isAlpha c = false := by
    simp only [isAlpha, Bool.or_eq_false_iff, Bool.and_eq_false_iff, decide_eq_false_iff_not]
    omega
  simp [isVerbChar, h1, h2, h3, h4]

/-- the first test of the loop after `{`: `[^{}\w]` -/
theorem nonword_verb {c : Char} (h1 : c ≠ '{') (h2 : c ≠ '}') (h3 : isWordChar c = false) :
    isVerbChar c = true := by
  simp only [isWordChar, isAlnum, Bool.or_eq_false_iff, decide_eq_false_iff_not] at h3
  simp [isVerbChar, h1, h2, h3.1.1, h3.2]

theorem word_cases {c : Char} (h : isWordChar c = true) (hd : isDigit c = false) (ha : isAlpha c = false) :
    c = '_' := by
  simpa [isWordChar, isAlnum, hd, ha] using h

/-! ### `verbatim`, `group`, `takeBraced` -/

theorem verbatim_nil (d : Nat) : verbatim d [] = ([], []) := by
  cases d <;> rfl

theorem verbatim_zero_open (r : Str) :
    verbatim 0 ('{' :: r) = ('{' :: (verbatim 1 r).1, (verbatim 1 r).2) := by
  simp [verbatim]

theorem verbatim_zero_verb {c : Char} (r : Str) (h : isVerbChar c = true) :
    verbatim 0 (c :: r) = (c :: (verbatim 0 r).1, (verbatim 0 r).2) := by
  have : c ≠ '{' := by rintro rfl; revert h; decide
  simp [verbatim, this, h]

theorem verbatim_zero_stop {c : Char} (r : Str) (h1 : c ≠ '{') (h : isVerbChar c = false) :
    verbatim 0 (c :: r) = ([], c :: r) := by
  simp [verbatim, h1, h]

theorem verbatim_succ (d : Nat) (c : Char) (r : Str) :
    verbatim (d + 1) (c :: r) =
      (c :: (verbatim (if c = '{' then d + 2 else if c = '}' then d else d + 1) r).1,
       (verbatim (if c = '{' then d + 2 else if c = '}' then d else d + 1) r).2) := by
  simp [verbatim]

theorem group_eq_takeBraced (d : Nat) (s : Str) : group d s = takeBraced d s := by
  induction s generalizing d with
  | nil => simp [group, takeBraced]
  | cons c r ih =>
    simp only [group, takeBraced]
    split
    · cases d with
      | zero => simp
      | succ d' => simp [ih]
    · split <;> simp [ih]

/-- a group inside verbatim text: its content, the closing brace, then more verbatim text -/
theorem verbatim_takeBraced (d : Nat) (r : Str) :
    verbatim (d + 1) r =
      match takeBraced d r with
      | none => (r, [])
      | some (g, rest) => (g ++ '}' :: (verbatim 0 rest).1, (verbatim 0 rest).2) := by
  induction r generalizing d with
  | nil => simp [verbatim, takeBraced]
  | cons c r ih =>
    rw [verbatim_succ]
    simp only [takeBraced]
    by_cases hc : c = '}'
    · subst hc
      simp only [if_true, show ('}' : Char) ≠ '{' by decide, if_false]
      cases d with
      | zero => simp
      | succ d' =>
        simp only [Nat.add_one_ne_zero, if_false, Nat.add_sub_cancel]
        rw [ih d']
        cases takeBraced d' r with
        | none => simp
        | some p => simp
    · simp only [hc, if_false]
      by_cases ho : c = '{'
      · subst ho
        simp only [if_true]
        rw [ih (d + 1)]
        cases takeBraced (d + 1) r with
        | none => simp
        | some p => simp
      · simp only [ho, if_false]
        rw [ih d]
        cases takeBraced d r with
        | none => simp
        | some p => simp

theorem takeBraced_length {d : Nat} {s g rest : Str} (h : takeBraced d s = some (g, rest)) :
    rest.length < s.length := by
  rw [← group_eq_takeBraced] at h; exact group_length h

/-- verbatim characters in front -/
theorem verbatim_append_verb (l r : Str) (h : ∀ c ∈ l, isVerbChar c = true) :
    verbatim 0 (l ++ r) = (l ++ (verbatim 0 r).1, (verbatim 0 r).2) := by
  induction l with
  | nil => simp
  | cons c l ih =>
    rw [List.cons_append, verbatim_zero_verb _ (h c (by simp)), ih (fun x hx => h x (by simp [hx]))]
    simp

/-- what `verbatim` stops at -/
theorem verbatim_stop (d : Nat) (s : Str) :
    (verbatim d s).2 = [] ∨
      ∃ c r, (verbatim d s).2 = c :: r ∧ c ≠ '{' ∧ isVerbChar c = false := by
  induction s generalizing d with
  | nil => simp [verbatim_nil]
  | cons c r ih =>
    cases d with
    | zero =>
      by_cases ho : c = '{'
      · subst ho; rw [verbatim_zero_open]; exact ih 1
      · by_cases hv : isVerbChar c = true
        · rw [verbatim_zero_verb _ hv]; exact ih 0
        · have hv' : isVerbChar c = false := by simpa using hv
          rw [verbatim_zero_stop _ ho hv']
          exact Or.inr ⟨c, r, rfl, ho, hv'⟩
    | succ d => rw [verbatim_succ]; exact ih _

theorem stop_cases {c : Char} (h1 : c ≠ '{') (h : isVerbChar c = false) :
    c = '}' ∨ c = '_' ∨ isAlpha c = true := by
  simp only [isVerbChar, Bool.and_eq_false_iff, Bool.not_eq_false', decide_eq_false_iff_not,
    Decidable.not_not] at h
  rcases h with ((h | h) | h) | h
  · exact absurd h h1
  · exact Or.inl h
  · exact Or.inr (Or.inl h)
  · exact Or.inr (Or.inr h)

/-- closed form of the `parse_name_part` loop once the letter run `f` has been read -/
def closed2 (s pre f : Str) (delim : Option Str) (post : Str) : Except FmtErr (FmtPart × Str) :=
  match (verbatim 0 s).2 with
  | [] => .error .unbalanced
  | c :: rest =>
    if c = '}' then .ok (.part pre (some f) delim (post ++ (verbatim 0 s).1), rest)
    else if isAlpha c then .error .illegalLetters
    else .error .tokenRequired

theorem closed2_stop {c : Char} (r pre f : Str) (delim : Option Str) (post : Str)
    (h1 : c ≠ '{') (h : isVerbChar c = false) :
    closed2 (c :: r) pre f delim post =
      if c = '}' then .ok (.part pre (some f) delim post, r)
      else if isAlpha c then .error .illegalLetters
      else .error .tokenRequired := by
  simp [closed2, verbatim_zero_stop r h1 h]

theorem closed2_verb (l r pre f : Str) (delim : Option Str) (post : Str)
    (h : ∀ c ∈ l, isVerbChar c = true) :
    closed2 (l ++ r) pre f delim post = closed2 r pre f delim (post ++ l) := by
  simp [closed2, verbatim_append_verb l r h]

theorem closed2_group (r pre f : Str) (delim : Option Str) (post : Str) :
    closed2 ('{' :: r) pre f delim post =
      match takeBraced 0 r with
      | none => .error .unbalanced
      | some (g, rest) => closed2 rest pre f delim (post ++ ['{'] ++ g ++ ['}']) := by
  simp only [closed2, verbatim_zero_open, verbatim_takeBraced]
  cases takeBraced 0 r with
  | none => simp
  | some p => simp

theorem mem_takeWhile {α} {p : α → Bool} {l : List α} {x : α} (h : x ∈ l.takeWhile p) : p x = true := by
  induction l with
  | nil => simp at h
  | cons a l ih =>
    simp only [List.takeWhile_cons] at h
    split at h
    · rename_i ha
      rcases List.mem_cons.1 h with rfl | h'
      · exact ha
      · exact ih h'
    · simp at h

theorem dropWhile_length_lt {α} {p : α → Bool} {c : α} {r : List α} (h : p c = true) :
    ((c :: r).dropWhile p).length ≤ r.length := by
  simp only [List.dropWhile_cons, h, if_true]
  exact (List.dropWhile_sublist p).length_le

theorem namePartLoop_some (fuel : Nat) (s pre f : Str) (delim : Option Str) (post : Str)
    (h : s.length < fuel) :
    namePartLoop fuel s pre (some f) delim post = closed2 s pre f delim post := by
  induction fuel generalizing s post with
  | zero => omega
  | succ fuel ih =>
    cases s with
    | nil => simp [namePartLoop, closed2, verbatim_nil]
    | cons c r =>
      rw [namePartLoop]
      simp only [List.length_cons] at h
      split
      · rename_i ho
        subst ho
        rw [closed2_group]
        cases hb : takeBraced 0 r with
        | none => simp
        | some p =>
          obtain ⟨g, rest⟩ := p
          have := takeBraced_length hb
          simp only [Option.isSome_some, if_true]
          rw [ih _ _ (by omega)]
          simp
      · rename_i ho
        split
        · rename_i hnw
          have hv := nonword_verb ho hnw.1 (by simpa using hnw.2)
          simp only [Option.isSome_some, if_true]
          rw [ih _ _ (by omega)]
          exact (closed2_verb [c] r pre f delim post (by simpa using hv)).symm
        · rename_i hnw
          split
          · rename_i hd
            have hlen := dropWhile_length_lt (r := r) hd
            simp only [Option.isSome_some, if_true]
            rw [ih _ _ (by omega)]
            conv => rhs; rw [← List.takeWhile_append_dropWhile (p := isDigit) (l := c :: r)]
            rw [closed2_verb]
            intro x hx
            exact isDigit_verb (mem_takeWhile hx)
          · rename_i hd
            split
            · rename_i ha
              have : formatCharsOk true (List.takeWhile isAlpha (c :: r)) = false := by
                simp [formatCharsOk]
              simp only [Option.isSome_some, this, Bool.not_false, if_true]
              rw [closed2_stop _ _ _ _ _ ho (isAlpha_not_verb ha)]
              simp [isAlpha_ne_close ha, ha]
            · rename_i ha
              have ha' : isAlpha c = false := by simpa using ha
              have hd' : isDigit c = false := by simpa using hd
              split
              · rename_i hc
                subst hc
                rw [closed2_stop _ _ _ _ _ ho (by decide)]
                simp
              · rename_i hc
                have hw : isWordChar c = true := by simpa [hc] using hnw
                have := word_cases hw hd' ha'
                subst this
                rw [closed2_stop _ _ _ _ _ ho (by decide)]
                simp [ha']

/-- closed form of the `parse_name_part` loop before any letter run -/
def closed1 (s pre : Str) (delim : Option Str) (post : Str) : Except FmtErr (FmtPart × Str) :=
  match (verbatim 0 s).2 with
  | [] => .error .unbalanced
  | c :: rest =>
    if c = '}' then .ok (.part (pre ++ (verbatim 0 s).1) none delim post, rest)
    else if isAlpha c then
      if !formatCharsOk false ((c :: rest).takeWhile isAlpha) then .error .illegalLetters
      else
        match (c :: rest).dropWhile isAlpha with
        | [] => .error .prematureEOF
        | '{' :: x =>
          match takeBraced 0 x with
          | none => .error .unbalanced
          | some (d, y) =>
            closed2 y (pre ++ (verbatim 0 s).1) ((c :: rest).takeWhile isAlpha) (some d) post
        | s2 => closed2 s2 (pre ++ (verbatim 0 s).1) ((c :: rest).takeWhile isAlpha) delim post
    else .error .tokenRequired

theorem closed1_verb (l r pre : Str) (delim : Option Str) (post : Str)
    (h : ∀ c ∈ l, isVerbChar c = true) :
    closed1 (l ++ r) pre delim post = closed1 r (pre ++ l) delim post := by
  simp [closed1, verbatim_append_verb l r h]

theorem closed1_group (r pre : Str) (delim : Option Str) (post : Str) :
    closed1 ('{' :: r) pre delim post =
      match takeBraced 0 r with
      | none => .error .unbalanced
      | some (g, rest) => closed1 rest (pre ++ ['{'] ++ g ++ ['}']) delim post := by
  simp only [closed1, verbatim_zero_open, verbatim_takeBraced]
  cases takeBraced 0 r with
  | none => simp
  | some p => simp

theorem closed1_stop {c : Char} (r pre : Str) (delim : Option Str) (post : Str)
    (h1 : c ≠ '{') (h : isVerbChar c = false) :
    closed1 (c :: r) pre delim post =
      if c = '}' then .ok (.part pre none delim post, r)
      else if isAlpha c then
        if !formatCharsOk false ((c :: r).takeWhile isAlpha) then .error .illegalLetters
        else
          match (c :: r).dropWhile isAlpha with
          | [] => .error .prematureEOF
          | '{' :: x =>
            match takeBraced 0 x with
            | none => .error .unbalanced
            | some (d, y) => closed2 y pre ((c :: r).takeWhile isAlpha) (some d) post
          | s2 => closed2 s2 pre ((c :: r).takeWhile isAlpha) delim post
      else .error .tokenRequired := by
  simp [closed1, verbatim_zero_stop r h1 h]

theorem namePartLoop_none (fuel : Nat) (s pre : Str) (delim : Option Str) (post : Str)
    (h : s.length < fuel) :
    namePartLoop fuel s pre none delim post = closed1 s pre delim post := by
  induction fuel generalizing s pre with
  | zero => omega
  | succ fuel ih =>
    cases s with
    | nil => simp [namePartLoop, closed1, verbatim_nil]
    | cons c r =>
      rw [namePartLoop]
      simp only [List.length_cons] at h
      split
      · rename_i ho
        subst ho
        rw [closed1_group]
        cases hb : takeBraced 0 r with
        | none => simp
        | some p =>
          obtain ⟨g, rest⟩ := p
          have := takeBraced_length hb
          simp only [Option.isSome_none, Bool.false_eq_true, if_false]
          rw [ih _ _ (by omega)]
          simp
      · rename_i ho
        split
        · rename_i hnw
          have hv := nonword_verb ho hnw.1 (by simpa using hnw.2)
          simp only [Option.isSome_none, Bool.false_eq_true, if_false]
          rw [ih _ _ (by omega)]
          exact (closed1_verb [c] r pre delim post (by simpa using hv)).symm
        · rename_i hnw
          split
          · rename_i hd
            have hlen := dropWhile_length_lt (r := r) hd
            simp only [Option.isSome_none, Bool.false_eq_true, if_false]
            rw [ih _ _ (by omega)]
            conv => rhs; rw [← List.takeWhile_append_dropWhile (p := isDigit) (l := c :: r)]
            rw [closed1_verb]
            intro x hx
            exact isDigit_verb (mem_takeWhile hx)
          · rename_i hd
            split
            · rename_i ha
              rw [closed1_stop _ _ _ _ ho (isAlpha_not_verb ha)]
              simp only [isAlpha_ne_close ha, if_false, ha, if_true, Option.isSome_none]
              have hlen := dropWhile_length_lt (r := r) ha
              split
              · rfl
              · generalize hs2 : List.dropWhile isAlpha (c :: r) = s2 at hlen
                rcases s2 with _ | ⟨a, x⟩
                · rfl
                · by_cases ha2 : a = '{'
                  · subst ha2
                    simp only [List.length_cons] at hlen
                    cases hb : takeBraced 0 x with
                    | none => simp [hb]
                    | some p =>
                      obtain ⟨d, y⟩ := p
                      have := takeBraced_length hb
                      simp only [hb]
                      rw [namePartLoop_some _ _ _ _ _ _ (by omega)]
                  · simp only [List.length_cons] at hlen
                    split
                    · rename_i h; cases h
                    · rename_i h; cases h; exact absurd rfl ha2
                    · split
                      · rename_i h; cases h
                      · rename_i h; cases h; exact absurd rfl ha2
                      · rw [namePartLoop_some _ _ _ _ _ _ (by simp; omega)]
            · rename_i ha
              have ha' : isAlpha c = false := by simpa using ha
              have hd' : isDigit c = false := by simpa using hd
              split
              · rename_i hc
                subst hc
                rw [closed1_stop _ _ _ _ ho (by decide)]
                simp
              · rename_i hc
                have hw : isWordChar c = true := by simpa [hc] using hnw
                have := word_cases hw hd' ha'
                subst this
                rw [closed1_stop _ _ _ _ ho (by decide)]
                simp [ha']

/-! ### what the parser returns -/

/-- invariant of the parts the parser produces -/
def PartOk : FmtPart → Prop
  | .text _ => True
  | .part _ none delim post => delim = none ∧ post = []
  | .part _ (some run) _ _ => formatCharsOk false run = true

theorem closed2_ok {s pre f : Str} {delim : Option Str} {post : Str} {p : FmtPart} {rest : Str}
    (h : closed2 s pre f delim post = .ok (p, rest)) :
    p = .part pre (some f) delim (post ++ (verbatim 0 s).1) ∧ rest.length < s.length := by
  unfold closed2 at h
  have hl := verbatim_length 0 s
  split at h
  · cases h
  · rename_i c rest' hv
    rw [hv] at hl
    split at h
    · cases h; simp at hl; exact ⟨rfl, by omega⟩
    · split at h <;> cases h

theorem closed2_error {s pre f : Str} {delim : Option Str} {post : Str} {e : FmtErr}
    (h : closed2 s pre f delim post = .error e) : e ≠ .internal ∧ e ≠ .tooDeep := by
  unfold closed2 at h
  split at h
  · cases h; simp
  · split at h
    · cases h
    · split at h <;> cases h <;> simp

theorem closed1_ok {s pre : Str} {p : FmtPart} {rest : Str}
    (h : closed1 s pre none [] = .ok (p, rest)) :
    PartOk p ∧ rest.length < s.length ∧ ∃ a b c d, p = .part a b c d := by
  unfold closed1 at h
  have hl := verbatim_length 0 s
  split at h
  · cases h
  · rename_i c rest' hv
    rw [hv] at hl
    split at h
    · cases h; simp at hl; exact ⟨⟨rfl, rfl⟩, by omega, _, _, _, _, rfl⟩
    · split at h
      · rename_i ha
        split at h
        · cases h
        · rename_i hf
          have hf' : formatCharsOk false (List.takeWhile isAlpha (c :: rest')) = true := by simpa using hf
          have hlen := dropWhile_length_lt (r := rest') ha
          generalize List.dropWhile isAlpha (c :: rest') = s2 at h hlen
          split at h
          · cases h
          · rename_i x
            split at h
            · cases h
            · rename_i d y hb
              have := takeBraced_length hb
              obtain ⟨h1, h2⟩ := closed2_ok h
              simp at hl hlen
              exact ⟨by rw [h1]; exact hf', by omega, _, _, _, _, h1⟩
          · obtain ⟨h1, h2⟩ := closed2_ok h
            simp at hl
            exact ⟨by rw [h1]; exact hf', by omega, _, _, _, _, h1⟩
      · cases h

theorem closed1_error {s pre : Str} {delim : Option Str} {post : Str} {e : FmtErr}
    (h : closed1 s pre delim post = .error e) : e ≠ .internal ∧ e ≠ .tooDeep := by
  unfold closed1 at h
  split at h
  · cases h; simp
  · split at h
    · cases h
    · split at h
      · split at h
        · cases h; simp
        · split at h
          · cases h; simp
          · split at h
            · cases h; simp
            · exact closed2_error h
          · exact closed2_error h
      · cases h; simp

/-! ### the top level -/

theorem parseFormatAux_nil (fuel : Nat) : parseFormatAux (fuel + 1) [] = .ok [] := rfl

theorem parseFormatAux_open (fuel : Nat) (r : Str) :
    parseFormatAux (fuel + 1) ('{' :: r) =
      match closed1 r [] none [] with
      | .error e => .error e
      | .ok (p, rest) =>
        match parseFormatAux fuel rest with
        | .error e => .error e
        | .ok ps => .ok (p :: ps) := by
  rw [parseFormatAux]
  simp only [if_true]
  rw [namePartLoop_none _ _ _ _ _ (by omega)]
  cases closed1 r [] none [] with
  | error e => rfl
  | ok pr => rfl

theorem parseFormatAux_close (fuel : Nat) (r : Str) :
    parseFormatAux (fuel + 1) ('}' :: r) = .error .unbalanced := by
  rw [parseFormatAux]; simp

def notBrace (x : Char) : Bool := decide (x ≠ '{' ∧ x ≠ '}')

theorem parseFormatAux_text (fuel : Nat) (c : Char) (r : Str) (h1 : c ≠ '{') (h2 : c ≠ '}') :
    parseFormatAux (fuel + 1) (c :: r) =
      match parseFormatAux fuel (r.dropWhile notBrace) with
      | .error e => .error e
      | .ok ps => .ok (.text (c :: r.takeWhile notBrace) :: ps) := by
  rw [parseFormatAux]
  simp only [h1, h2, if_false]
  have hc : (decide (c ≠ '{' ∧ c ≠ '}')) = true := by simp [h1, h2]
  simp only [List.takeWhile_cons, List.dropWhile_cons, hc, if_true]
  rfl

/-- the fuel of `parse` is never exhausted, and more fuel changes nothing -/
theorem parseFormatAux_fuel (fuel : Nat) (s : Str) (h : s.length < fuel) :
    parseFormatAux fuel s = parseFormat s := by
  unfold parseFormat
  induction fuel using Nat.strongRecOn generalizing s with
  | _ fuel ih =>
    cases fuel with
    | zero => omega
    | succ fuel =>
      cases s with
      | nil => rfl
      | cons c r =>
        simp only [List.length_cons] at h ⊢
        by_cases ho : c = '{'
        · subst ho
          rw [parseFormatAux_open, parseFormatAux_open]
          cases hc : closed1 r [] none [] with
          | error e => rfl
          | ok pr =>
            obtain ⟨p, rest⟩ := pr
            have := (closed1_ok hc).2.1
            simp only
            rw [ih fuel (by omega) rest (by omega), ih (r.length + 1) (by omega) rest (by omega)]
        · by_cases hc : c = '}'
          · subst hc; rw [parseFormatAux_close, parseFormatAux_close]
          · rw [parseFormatAux_text _ _ _ ho hc, parseFormatAux_text _ _ _ ho hc]
            have := (List.dropWhile_sublist (l := r) notBrace).length_le
            rw [ih fuel (by omega) _ (by omega), ih (r.length + 1) (by omega) _ (by omega)]

theorem parseFormat_nil : parseFormat [] = .ok [] := rfl

theorem parseFormat_open (r : Str) :
    parseFormat ('{' :: r) =
      match closed1 r [] none [] with
      | .error e => .error e
      | .ok (p, rest) =>
        match parseFormat rest with
        | .error e => .error e
        | .ok ps => .ok (p :: ps) := by
  unfold parseFormat
  simp only [List.length_cons]
  rw [parseFormatAux_open]
  cases hc : closed1 r [] none [] with
  | error e => rfl
  | ok pr =>
    obtain ⟨p, rest⟩ := pr
    have := (closed1_ok hc).2.1
    simp only
    rw [parseFormatAux_fuel _ _ (by omega)]; rfl

theorem parseFormat_close (r : Str) : parseFormat ('}' :: r) = .error .unbalanced := by
  unfold parseFormat; simp only [List.length_cons]; rw [parseFormatAux_close]

theorem parseFormat_text (c : Char) (r : Str) (h1 : c ≠ '{') (h2 : c ≠ '}') :
    parseFormat (c :: r) =
      match parseFormat (r.dropWhile notBrace) with
      | .error e => .error e
      | .ok ps => .ok (.text (c :: r.takeWhile notBrace) :: ps) := by
  unfold parseFormat
  simp only [List.length_cons]
  rw [parseFormatAux_text _ _ _ h1 h2]
  have := (List.dropWhile_sublist (l := r) notBrace).length_le
  rw [parseFormatAux_fuel _ _ (by omega)]; rfl

/-- induction principle following the parser -/
theorem parseFormat_induct {motive : Str → Prop}
    (nil : motive [])
    (close : ∀ r, motive ('}' :: r))
    (openErr : ∀ r e, closed1 r [] none [] = .error e → motive ('{' :: r))
    (openOk : ∀ r p rest, closed1 r [] none [] = .ok (p, rest) → motive rest → motive ('{' :: r))
    (text : ∀ c r, c ≠ '{' → c ≠ '}' → motive (r.dropWhile notBrace) → motive (c :: r))
    (s : Str) : motive s := by
  induction h : s.length using Nat.strongRecOn generalizing s with
  | _ n ih =>
    cases s with
    | nil => exact nil
    | cons c r =>
      subst h
      by_cases ho : c = '{'
      · subst ho
        cases hc : closed1 r [] none [] with
        | error e => exact openErr r e hc
        | ok pr =>
          obtain ⟨p, rest⟩ := pr
          have := (closed1_ok hc).2.1
          exact openOk r p rest hc (ih rest.length (by simp; omega) rest rfl)
      · by_cases hc : c = '}'
        · subst hc; exact close r
        · have := (List.dropWhile_sublist (l := r) notBrace).length_le
          exact text c r ho hc (ih _ (by simp; omega) _ rfl)

theorem parseFormat_not_internal (s : Str) : parseFormat s ≠ .error .internal ∧ parseFormat s ≠ .error .tooDeep := by
  induction s using parseFormat_induct with
  | nil => simp [parseFormat_nil]
  | close r => simp [parseFormat_close]
  | openErr r e he => rw [parseFormat_open, he]; have := closed1_error he; simp [this]
  | openOk r p rest hc ih =>
    rw [parseFormat_open, hc]
    simp only
    cases hp : parseFormat rest with
    | error e => rw [hp] at ih; simpa using ih
    | ok ps => simp
  | text c r h1 h2 ih =>
    rw [parseFormat_text _ _ h1 h2]
    cases hp : parseFormat (r.dropWhile notBrace) with
    | error e => rw [hp] at ih; simpa using ih
    | ok ps => simp

theorem parseFormat_partOk {s : Str} {ps : List FmtPart} (h : parseFormat s = .ok ps) :
    ∀ p ∈ ps, PartOk p := by
  induction s using parseFormat_induct generalizing ps with
  | nil => cases h; simp
  | close r => rw [parseFormat_close] at h; cases h
  | openErr r e he => rw [parseFormat_open, he] at h; cases h
  | openOk r p rest hc ih =>
    rw [parseFormat_open, hc] at h
    simp only at h
    cases hp : parseFormat rest with
    | error e => rw [hp] at h; cases h
    | ok ps' =>
      rw [hp] at h; cases h
      intro q hq
      rcases List.mem_cons.1 hq with rfl | hq
      · exact (closed1_ok hc).1
      · exact ih hp q hq
  | text c r h1 h2 ih =>
    rw [parseFormat_text _ _ h1 h2] at h
    cases hp : parseFormat (r.dropWhile notBrace) with
    | error e => rw [hp] at h; cases h
    | ok ps' =>
      rw [hp] at h; cases h
      intro q hq
      rcases List.mem_cons.1 hq with rfl | hq
      · trivial
      · exact ih hp q hq

end NameFormat
end Pybtex
