/-
C05 helper lemmas: which SPELLING of a key the resolved list carries.
-/
import PybtexModel.Lemmas.Filtered

namespace Pybtex
open Pybtex.Spec

/-- order-preserving de-duplication keeps, of every class of keys equal up to case, the FIRST
spelling of the input -/
theorem dedupFrom_first {seen l : List Str} {k : Str} (h : k ∈ dedupFrom seen l) :
    l.find? (fun x => keq x k) = some k := by
  induction l generalizing seen with
  | nil => simp [dedupFrom] at h
  | cons a l ih =>
    simp only [dedupFrom] at h
    split at h
    · rename_i ha
      have hk := (mem_dedupFrom h).2
      have hak : keq a k = false := by
        rw [Bool.eq_false_iff]
        intro hak
        rw [any_keq_congr ((keq_iff a k).1 hak)] at ha
        rw [ha] at hk; cases hk
      rw [List.find?_cons, hak]
      exact ih h
    · rcases List.mem_cons.1 h with h | h
      · subst h; simp [keq_refl]
      · have hk := (mem_dedupFrom h).2
        rw [List.any_cons, Bool.or_eq_false_iff] at hk
        have hak : keq a k = false := by rw [keq_comm]; exact hk.1
        rw [List.find?_cons, hak]
        exact ih h

/-- in a list without duplicates up to case, two members equal up to case are equal -/
theorem eq_of_nodup_lower {l : List Str} (h : (l.map lower).Nodup) {a b : Str} (ha : a ∈ l) (hb : b ∈ l)
    (hab : keq a b = true) : a = b := by
  have hp := nodup_pairwise_keq h
  induction l with
  | nil => cases ha
  | cons x l ih =>
    rw [List.pairwise_cons] at hp
    simp only [List.map_cons, List.nodup_cons] at h
    rcases List.mem_cons.1 ha with ha' | ha'
    · rcases List.mem_cons.1 hb with hb' | hb'
      · rw [ha', hb']
      · have := hp.1 b hb'
        rw [← ha', hab] at this; cases this
    · rcases List.mem_cons.1 hb with hb' | hb'
      · have := hp.1 a ha'
        rw [← hb', keq_comm, hab] at this; cases this
      · exact ih h.2 ha' hb' hp.2

/-- the entries the Python engine looks up are stored entries: their `key` is a stored key -/
theorem lookupAll_keys {db : BibData} (hdb : DbWF db) : ∀ (l : List Str) (es : List Entry),
    db.lookupAll l = some es → ∀ e ∈ es, e.key ∈ CIDict.iter db.entries := by
  intro l
  induction l with
  | nil => intro es h e he; simp [BibData.lookupAll] at h; subst h; cases he
  | cons c l ih =>
    intro es h e he
    simp only [BibData.lookupAll] at h
    cases hg : db.entries.getItem c with
    | none => rw [hg] at h; cases h
    | some e0 =>
      rw [hg] at h
      cases hl : db.lookupAll l with
      | none => rw [hl] at h; cases h
      | some es0 =>
        rw [hl] at h
        simp only [Option.map_some, Option.some.injEq] at h
        subst h
        rcases List.mem_cons.1 he with rfl | he
        · have hf := getItem_entries hdb c
          rw [hg] at hf
          have hm := List.mem_of_find?_eq_some hf.symm
          rw [iter_entries hdb]
          exact List.mem_map.2 ⟨_, hm, rfl⟩
        · exact ih es0 hl e he

end Pybtex
