/-
Helper definitions and lemmas for the extension theorems of C09 (`Props/C09x.lean`): code-point ranges that contain the ASCII
block; well-formedness of an HTML string in every element context (`HtmlReadsAs`, stated with the strict reader `Html.run` of
`Spec/Backends.lean`) and the wrapping lemma behind the function-level theorem `C09_html_methods`.
-/
import PybtexModel.Lemmas.BackendsInert
import PybtexModel.Model.BackendsX

namespace Pybtex
open Pybtex.RT Pybtex.Backends Pybtex.Spec

namespace Backends.Latex

/-- a list of ranges that contains the ASCII block in one piece -/
def rangesAscii (rs : List (Nat × Nat)) : Bool := rs.any fun r => r.1 == 0 && decide (127 ≤ r.2)

theorem inRanges_of_rangesAscii {rs : List (Nat × Nat)} (h : rangesAscii rs = true) (c : Char) (hc : c.toNat < 128) :
    inRanges rs c = true := by
  simp only [rangesAscii, List.any_eq_true, Bool.and_eq_true, beq_iff_eq, decide_eq_true_eq] at h
  obtain ⟨r, hr, h0, h1⟩ := h
  simp only [inRanges, List.any_eq_true, Bool.and_eq_true, decide_eq_true_eq]
  exact ⟨r, hr, by omega, by omega⟩

end Backends.Latex

namespace Spec

/-- `x`, read by the strict HTML reader of the specification inside ANY open elements `stk`, is accepted, leaves exactly these
elements open, and yields the characters `p`, each with the elements that `x` itself opens around it -/
def HtmlReadsAs (x : Str) (p : List (Char × List Str)) : Prop :=
  ∀ (stk : List Str) (o : List (Char × List Str)),
    Html.run ⟨.text, stk, o⟩ x = some ⟨.text, stk, o ++ p.map fun y => (y.1, stk ++ y.2)⟩

theorem htmlReadsAs_wrap (name x opn cls : Str) (p : List (Char × List Str))
    (hopen : ∀ stk o, Html.run ⟨.text, stk, o⟩ opn = some ⟨.text, stk ++ [name], o⟩)
    (hclose : ∀ stk o, Html.run ⟨.text, stk ++ [name], o⟩ cls = some ⟨.text, stk, o⟩)
    (h : HtmlReadsAs x p) : HtmlReadsAs (opn ++ x ++ cls) (p.map fun y => (y.1, name :: y.2)) := by
  intro stk o
  rw [Html.run_append, Html.run_append, hopen]
  simp only [Option.bind_some]
  rw [h (stk ++ [name]) o]
  simp only [Option.bind_some]
  rw [hclose]
  simp [List.map_map, Function.comp_def]

end Spec
end Pybtex
