/-
Lemmas for `Props/C01x.lean` (C01, round 2): `parse_string` collects the consumed text verbatim,
`takeWhile` / `dropWhile` are the unique maximal-run decomposition, the reader with
`keyless_entries=False` is the reader of `Model/BibParse.lean`.
-/
import PybtexModel.Model.BibOpts
import PybtexModel.Spec.BibTokens
import PybtexModel.Lemmas.BibNest
import PybtexModel.Lemmas.BibBridge

namespace Pybtex.Bib

/-- what `parse_string` collects behind `acc` is exactly the text it consumes, and that text ends
with the delimiter that closes the string -/
theorem strLoop_verbatim (fuel : Nat) (quoted : Bool) (d : Nat) (acc : Str) (s : St) {str : Str} {s' : St}
    (h : strLoop fuel quoted d acc s = .ok str s') :
    ∃ x, str = acc ++ x ∧ s.rest = x ++ s'.rest ∧ x.getLast? = some (closerOf quoted) := by
  induction fuel generalizing d acc s with
  | zero => simp [strLoop] at h
  | succ fuel ih =>
    unfold strLoop at h
    simp only at h
    split at h
    · cases h
    · rename_i chunk rest hsk
      obtain ⟨e, c, hlast, hpc⟩ := skipToChar_spec hsk
      have happ : ∀ x : Str, x.getLast? = some (closerOf quoted) → (chunk ++ x).getLast? = some (closerOf quoted) := by
        intro x hx
        cases x with
        | nil => simp at hx
        | cons y ys => simpa [List.getLast?_append] using hx
      rw [hlast] at h
      split at h
      · split at h
        · cases h
        · obtain ⟨x, hx1, hx2, hx3⟩ := ih _ _ _ h
          exact ⟨chunk ++ x, by rw [hx1]; simp, by rw [e]; simp only at hx2; rw [hx2]; simp, happ x hx3⟩
      · rename_i hc
        split at h
        · split at h
          · cases h
          · rename_i hq
            injection h with h1 h2
            subst h1; subst h2
            refine ⟨chunk, rfl, e, ?_⟩
            rw [hlast, hc]
            simp [closerOf, hq]
        · obtain ⟨x, hx1, hx2, hx3⟩ := ih _ _ _ h
          exact ⟨chunk ++ x, by rw [hx1]; simp, by rw [e]; simp only at hx2; rw [hx2]; simp, happ x hx3⟩
      · rename_i hc1 hc2
        injection h with h1 h2
        subst h1; subst h2
        refine ⟨chunk, rfl, e, ?_⟩
        rw [hlast]
        simp only [Bool.or_eq_true, decide_eq_true_eq, Bool.and_eq_true] at hpc
        rcases hpc with (hpc | hpc) | hpc
        · exact absurd (by rw [hpc]) hc2
        · exact absurd (by rw [hpc]) hc1
        · simp [closerOf, hpc.1.1, hpc.2]

/-- `parse_value_part` in front of an opening brace / quote -/
theorem parseValuePart_open (s : St) (quoted : Bool) (t : Str)
    (ht : (eatWs s).rest = (if quoted then '"' else '{') :: t) :
    parseValuePart s =
      match strLoop (t.length + 1) quoted 0 [] { eatWs s with rest := t } with
      | .fail e s => .fail e s
      | .ok str s => .ok str.dropLast s := by
  cases quoted <;>
    simp [parseValuePart, required, getToken, ht, firstMatch, Pat.matchAt] <;> rfl

theorem takeWhile_dropWhile_unique (f : Char → Bool) (v r : Str) (hv : ∀ c ∈ v, f c = true)
    (hr : ∀ c t, r = c :: t → f c = false) :
    (v ++ r).takeWhile f = v ∧ (v ++ r).dropWhile f = r := by
  induction v with
  | nil =>
    cases r with
    | nil => simp
    | cons c t => simp [hr c t rfl]
  | cons c v ih =>
    have hc := hv c (by simp)
    obtain ⟨h1, h2⟩ := ih (fun x hx => hv x (List.mem_cons_of_mem _ hx))
    simp [hc, h1, h2]

theorem takeWhile_all (f : Char → Bool) (s : Str) : ∀ c ∈ s.takeWhile f, f c = true := by
  induction s with
  | nil => simp
  | cons c r ih =>
    simp only [List.takeWhile]
    split
    · intro x hx
      rcases List.mem_cons.1 hx with rfl | hx
      · assumption
      · exact ih x hx
    · simp

theorem dropWhile_stops (f : Char → Bool) (s : Str) : ∀ c t, s.dropWhile f = c :: t → f c = false := by
  induction s with
  | nil => simp
  | cons d r ih =>
    simp only [List.dropWhile]
    split
    · exact ih
    · rename_i hd
      intro c t h
      injection h with h1 _
      subst h1
      simpa using hd

theorem matchAt_run (f : Char → Bool) (s v r : Str) :
    ((if s.takeWhile f = [] then none else some (s.takeWhile f, s.dropWhile f)) = some (v, r)) ↔
      (s = v ++ r ∧ MaxRun f v r) := by
  constructor
  · intro h
    split at h
    · cases h
    · rename_i hne
      injection h with h
      injection h with h1 h2
      subst h1; subst h2
      exact ⟨(List.takeWhile_append_dropWhile).symm, hne, takeWhile_all f s, dropWhile_stops f s⟩
  · rintro ⟨rfl, hne, hv, hr⟩
    obtain ⟨h1, h2⟩ := takeWhile_dropWhile_unique f v r hv hr
    rw [h1, h2, if_neg hne]

theorem parseCommandK_false (s : St) : parseCommandK false s = parseCommand s := by
  have hb : ∀ paren s, parseEntryBodyK false paren s = parseEntryBody paren s := fun _ _ => rfl
  unfold parseCommandK parseCommand
  simp only [hb]
  rfl

theorem parseLoopK_false (fuel : Nat) : ∀ s, parseLoopK false fuel s = parseLoop fuel s := by
  induction fuel with
  | zero => intro s; rfl
  | succ n ih =>
    intro s
    unfold parseLoopK parseLoop
    simp only [parseCommandK_false, ih]
    rfl

theorem bibNatToStr_inj {m n : Nat} (h : natToStr m = natToStr n) : m = n := by
  have := congrArg (fun l => Nat.ofDigitChars 10 l 0) h
  simpa [natToStr] using this

end Pybtex.Bib
