/-
Entry points: the text `parse_stream` hands to the parser, compared with `parse_string`'s.
-/
import PybtexModel.Model.BstParse

namespace Pybtex.Bst

/-- a stream line is its `splitlines` line plus its terminator -/
def TermRel (sl l : Str) : Prop := sl = l ∨ sl = l ++ ['\n'] ∨ sl = l ++ ['\r', '\n']

theorem TermRel.cons {sl l : Str} (c : Char) (h : TermRel sl l) : TermRel (c :: sl) (c :: l) := by
  rcases h with h | h | h <;> simp [TermRel, h]

theorem streamLines_cons_ne (c : Char) (r : Str) (h : c ≠ '\n') :
    streamLines (c :: r) = match streamLines r with
      | [] => [[c]]
      | l :: ls => (c :: l) :: ls := by
  simp only [streamLines, h, if_false]
  rfl

theorem streamLines_nl (r : Str) : streamLines ('\n' :: r) = ['\n'] :: streamLines r := by
  simp [streamLines]

/-- line-by-line `TermRel` -/
inductive LinesRel : List Str → List Str → Prop
  | nil : LinesRel [] []
  | cons {a b : Str} {as bs : List Str} : TermRel a b → LinesRel as bs → LinesRel (a :: as) (b :: bs)

theorem lines_rel : ∀ s : Str, plainBreaks s = true →
    LinesRel (streamLines s) (splitLines s) := by
  intro s
  induction s using splitLines.induct with
  | case1 => intro _; simp only [streamLines, splitLines]; exact LinesRel.nil
  | case2 r ih =>
    intro h
    have hr : plainBreaks r = true := by simpa [plainBreaks] using h
    rw [streamLines_cons_ne '\r' _ (by decide), streamLines_nl]
    simp only [splitLines]
    exact LinesRel.cons (by simp [TermRel]) (ih hr)
  | case3 c r hcr hsep ih =>
    intro h
    rw [plainBreaks.eq_3 c r hcr] at h
    simp only [Bool.and_eq_true, Bool.or_eq_true, decide_eq_true_eq, Bool.not_eq_true'] at h
    have hc : c = '\n' := by
      rcases h.1 with h1 | h1
      · exact h1
      · rw [hsep] at h1; cases h1
    subst hc
    rw [streamLines_nl, splitLines.eq_3 _ r hcr, if_pos hsep]
    exact LinesRel.cons (by simp [TermRel]) (ih h.2)
  | case4 c r hcr hsep hnil ih =>
    intro h
    rw [plainBreaks.eq_3 c r hcr] at h
    simp only [Bool.and_eq_true] at h
    have hc : c ≠ '\n' := by intro e; subst e; simp [isLineSep, lineSepCodes] at hsep
    have := ih h.2
    rw [hnil] at this
    rw [streamLines_cons_ne c r hc, splitLines.eq_3 c r hcr, if_neg hsep, hnil]
    generalize streamLines r = sl at this
    cases this
    exact LinesRel.cons (by simp [TermRel]) LinesRel.nil
  | case5 c r hcr hsep l ls hls ih =>
    intro h
    rw [plainBreaks.eq_3 c r hcr] at h
    simp only [Bool.and_eq_true] at h
    have hc : c ≠ '\n' := by intro e; subst e; simp [isLineSep, lineSepCodes] at hsep
    have := ih h.2
    rw [hls] at this
    rw [streamLines_cons_ne c r hc, splitLines.eq_3 c r hcr, if_neg hsep, hls]
    generalize streamLines r = sl at this
    cases this with
    | cons h1 h2 => exact LinesRel.cons (h1.cons c) h2

theorem dropWhile_append_all (p : Char → Bool) (a b : Str) (h : ∀ c ∈ a, p c = true) :
    (a ++ b).dropWhile p = b.dropWhile p := by
  induction a with
  | nil => rfl
  | cons c a ih =>
    simp only [List.cons_append, List.dropWhile, h c (by simp)]
    exact ih (fun d hd => h d (by simp [hd]))

theorem rstrip_append_white (l t : Str) (ht : ∀ c ∈ t, isWs c = true) : rstrip (l ++ t) = rstrip l := by
  unfold rstrip
  rw [List.reverse_append, dropWhile_append_all isWs _ _ (by simpa using ht)]

theorem TermRel.rstrip {sl l : Str} (h : TermRel sl l) : rstrip sl = rstrip l := by
  rcases h with h | h | h
  · rw [h]
  · rw [h]; exact rstrip_append_white l _ (by simp [isWs, wsCodes])
  · rw [h]; exact rstrip_append_white l _ (by simp [isWs, wsCodes])

theorem map_rstrip_lines (s : Str) (h : plainBreaks s = true) :
    (streamLines s).map rstrip = (splitLines s).map rstrip := by
  have := lines_rel s h
  generalize streamLines s = a at this
  generalize splitLines s = b at this
  induction this with
  | nil => rfl
  | cons h1 _ ih => simp [h1.rstrip, ih]

/-- on text whose only line breaks are `\n` and `\r\n`, `parse_stream` hands the parser the text
of `parse_string` with every line additionally `rstrip`ped before its comment is removed -/
theorem streamText_plain (s : Str) (h : plainBreaks s = true) :
    streamText (streamLines s)
      = joinWith ['\n'] ((splitLines s).map fun l => stripComment (rstrip l)) := by
  unfold streamText
  have := congrArg (List.map stripComment) (map_rstrip_lines s h)
  simp only [List.map_map] at this
  exact congrArg (joinWith ['\n']) this

theorem streamText_eq_stringText (s : Str) (h : plainBreaks s = true) (ht : noTrailingWs s = true) :
    streamText (streamLines s) = stringText s := by
  rw [streamText_plain s h]
  unfold stringText
  congr 1
  apply List.map_congr_left
  intro l hl
  simp only [noTrailingWs, List.all_eq_true, beq_iff_eq] at ht
  rw [ht l hl]

/-- universal-newlines translation leaves no `\r` and does not change the `splitlines` lines -/
theorem splitLines_universal (s : Str) (h : plainBreaks s = true) :
    splitLines (universalNewlines s) = splitLines s ∧ plainBreaks (universalNewlines s) = true := by
  induction s using splitLines.induct with
  | case1 => simp [universalNewlines, splitLines, plainBreaks]
  | case2 r ih =>
    have hr : plainBreaks r = true := by simpa [plainBreaks] using h
    obtain ⟨i1, i2⟩ := ih hr
    have e : universalNewlines ('\r' :: '\n' :: r) = '\n' :: universalNewlines r := by
      simp [universalNewlines]
    have hn : ∀ r', ('\n' : Char) = '\r' → universalNewlines r = '\n' :: r' → False := by
      intro r' e; exact absurd e (by decide)
    rw [e, splitLines.eq_3 '\n' _ hn, plainBreaks.eq_3 '\n' _ hn]
    simp [isLineSep, lineSepCodes, splitLines, i1, i2]
  | case3 c r hcr hsep ih =>
    rw [plainBreaks.eq_3 c r hcr] at h
    simp only [Bool.and_eq_true, Bool.or_eq_true, decide_eq_true_eq, Bool.not_eq_true'] at h
    have hc : c = '\n' := by
      rcases h.1 with h1 | h1
      · exact h1
      · rw [hsep] at h1; cases h1
    subst hc
    obtain ⟨i1, i2⟩ := ih h.2
    have e : universalNewlines ('\n' :: r) = '\n' :: universalNewlines r := by
      rw [universalNewlines.eq_3 '\n' r hcr]; simp
    have hn : ∀ r', ('\n' : Char) = '\r' → universalNewlines r = '\n' :: r' → False := by
      intro r' e; exact absurd e (by decide)
    rw [e, splitLines.eq_3 '\n' _ hn, splitLines.eq_3 '\n' r hcr, plainBreaks.eq_3 '\n' _ hn]
    simp [isLineSep, lineSepCodes, i1, i2]
  | case4 c r hcr hsep hnil ih =>
    rw [plainBreaks.eq_3 c r hcr] at h
    simp only [Bool.and_eq_true] at h
    obtain ⟨i1, i2⟩ := ih h.2
    have hc : c ≠ '\r' := by intro e; subst e; simp [isLineSep, lineSepCodes] at hsep
    have e : universalNewlines (c :: r) = c :: universalNewlines r := by
      rw [universalNewlines.eq_3 c r hcr]; simp [hc]
    have hn : ∀ r', c = '\r' → universalNewlines r = '\n' :: r' → False := by
      intro r' e; exact absurd e hc
    have hsep' : isLineSep c = false := by simpa using hsep
    rw [e, splitLines.eq_3 c _ hn, splitLines.eq_3 c r hcr, plainBreaks.eq_3 c _ hn]
    simp [hsep', i1, i2]
  | case5 c r hcr hsep l ls hls ih =>
    rw [plainBreaks.eq_3 c r hcr] at h
    simp only [Bool.and_eq_true] at h
    obtain ⟨i1, i2⟩ := ih h.2
    have hc : c ≠ '\r' := by intro e; subst e; simp [isLineSep, lineSepCodes] at hsep
    have e : universalNewlines (c :: r) = c :: universalNewlines r := by
      rw [universalNewlines.eq_3 c r hcr]; simp [hc]
    have hn : ∀ r', c = '\r' → universalNewlines r = '\n' :: r' → False := by
      intro r' e; exact absurd e hc
    have hsep' : isLineSep c = false := by simpa using hsep
    rw [e, splitLines.eq_3 c _ hn, splitLines.eq_3 c r hcr, plainBreaks.eq_3 c _ hn]
    simp [hsep', i1, i2]

end Pybtex.Bst
