/-
C02 helper lemmas, part 3: completeness of `split_tex_string` — the pieces contain no separator
at brace level 0 — and hence: every token of a person read from a balanced name is a clean token
(`tokCore`).
-/
import PybtexModel.Lemmas.BibWriteNames

namespace Pybtex.C02
open Pybtex Pybtex.Spec Pybtex.BibWrite Pybtex.BibSpec Pybtex.Names

/-! ### completeness: the pieces of a split contain no separator at brace level 0 -/

theorem noComma0_open (d : Nat) (r : Str) : noComma0 d ('{' :: r) = noComma0 (d + 1) r := by
  rw [noComma0]; simp
theorem noComma0_close (d : Nat) (r : Str) : noComma0 d ('}' :: r) = noComma0 (d - 1) r := by
  rw [noComma0]; simp
theorem noComma0_char (d : Nat) {c : Char} (r : Str) (h1 : c ≠ '{') (h2 : c ≠ '}') :
    noComma0 d (c :: r) = ((d != 0 || c != ',') && noComma0 d r) := by
  rw [noComma0]; simp [h1, h2]

theorem flat_comma_pieces (s : Str) (d : Nat) (prev : Option Char) (cur : Str)
    (hK : ∀ y, noComma0 0 (cur ++ y) = noComma0 d y) :
    ∀ t ∈ flat .comma d prev cur s, noComma0 0 t = true := by
  fun_induction flat .comma d prev cur s with
  | case1 d prev cur =>
    intro t ht
    simp only [List.mem_singleton] at ht
    subst ht
    have := hK []
    simpa [noComma0] using this
  | case2 d prev cur r ih =>
    apply ih
    intro y
    rw [List.append_assoc, hK]; simp [noComma0_open]
  | case3 d prev cur r hne ih =>
    apply ih
    intro y
    rw [List.append_assoc, hK]; simp [noComma0_close]
  | case4 d prev cur c r h1 h2 hd ih =>
    apply ih
    intro y
    rw [List.append_assoc, hK]
    simp only [List.singleton_append]
    rw [noComma0_char d _ h1 h2]
    simp [hd]
  | case5 d prev cur c r h1 h2 hd hm ih =>
    have hd0 : d = 0 := by omega
    subst hd0
    apply ih
    intro y
    rw [List.append_assoc, hK]
    simp only [List.singleton_append]
    rw [noComma0_char 0 _ h1 h2]
    have hc : c ≠ ',' := by
      intro hc; subst hc; simp [sepMatch] at hm
    simp [hc]
  | case6 d prev cur c r h1 h2 hd hm ih =>
    have hd0 : d = 0 := by omega
    subst hd0
    intro t ht
    rcases List.mem_cons.1 ht with rfl | ht
    · have := hK []
      simpa [noComma0] using this
    · exact ih (by intro y; rfl) t ht

theorem spaceRun_drop_noComma (prev : Option Char) (s : Str) (h : noComma0 0 s = true) :
    noComma0 0 (s.drop (spaceRun prev s)) = true := by
  fun_induction spaceRun prev s with
  | case1 prev => simpa using h
  | case2 prev r' ih =>
    rw [noComma0_char 0 _ (by decide) (by decide), noComma0_char 0 _ (by decide) (by decide)] at h
    simp only [Bool.and_eq_true] at h
    have : 2 + spaceRun (some ' ') r' = (spaceRun (some ' ') r' + 1) + 1 := by omega
    rw [this, List.drop_succ_cons, List.drop_succ_cons]
    exact ih h.2.2
  | case3 prev r hr => simpa using h
  | case4 prev c r hc hw ih =>
    have h1 : c ≠ '{' := by intro h; subst h; simp [isWs, wsCodes] at hw
    have h2 : c ≠ '}' := by intro h; subst h; simp [isWs, wsCodes] at hw
    rw [noComma0_char 0 _ h1 h2] at h
    simp only [Bool.and_eq_true] at h
    have : 1 + spaceRun (some c) r = spaceRun (some c) r + 1 := by omega
    rw [this, List.drop_succ_cons]
    exact ih h.2
  | case5 prev c r hc hw ht ih =>
    obtain ⟨rfl, _⟩ := ht
    rw [noComma0_char 0 _ (by decide) (by decide)] at h
    simp only [Bool.and_eq_true] at h
    have : 1 + spaceRun (some '~') r = spaceRun (some '~') r + 1 := by omega
    rw [this, List.drop_succ_cons]
    exact ih h.2
  | case6 prev c r hc hw ht => simpa using h

theorem spaceRun_last (prev : Option Char) (s : Str) (hn : spaceRun prev s ≠ 0) :
    s[spaceRun prev s - 1]? ≠ some '\\' := by
  fun_induction spaceRun prev s with
  | case1 prev => exact absurd rfl hn
  | case2 prev r' ih =>
    by_cases hm : spaceRun (some ' ') r' = 0
    · rw [hm]; simp
    · have : 2 + spaceRun (some ' ') r' - 1 = (spaceRun (some ' ') r' - 1) + 1 + 1 := by omega
      rw [this, List.getElem?_cons_succ, List.getElem?_cons_succ]
      exact ih hm
  | case3 prev r hr => exact absurd rfl hn
  | case4 prev c r hc hw ih =>
    by_cases hm : spaceRun (some c) r = 0
    · rw [hm]; simpa using hc
    · have : 1 + spaceRun (some c) r - 1 = (spaceRun (some c) r - 1) + 1 := by omega
      rw [this, List.getElem?_cons_succ]
      exact ih hm
  | case5 prev c r hc hw ht ih =>
    by_cases hm : spaceRun (some c) r = 0
    · rw [hm]; simpa using hc
    · have : 1 + spaceRun (some c) r - 1 = (spaceRun (some c) r - 1) + 1 := by omega
      rw [this, List.getElem?_cons_succ]
      exact ih hm
  | case6 prev c r hc hw ht => exact absurd rfl hn

theorem flat_space_pieces (s : Str) (d : Nat) (prev : Option Char) (cur : Str) (pb : Bool)
    (hK : ∀ y, lvl0Ok 0 false (cur ++ y) = lvl0Ok d pb y)
    (hp : prev = some '\\' → pb = true) (hc : noComma0 d s = true) :
    ∀ t ∈ flat .space d prev cur s, lvl0Ok 0 false t = true := by
  fun_induction flat .space d prev cur s generalizing pb with
  | case1 d prev cur =>
    intro t ht
    simp only [List.mem_singleton] at ht
    subst ht
    have := hK []
    simpa [lvl0Ok] using this
  | case2 d prev cur r ih =>
    rw [noComma0_open] at hc
    apply ih false _ (by simp) hc
    intro y
    rw [List.append_assoc, hK]; simp [lvl0Ok_open]
  | case3 d prev cur r hne ih =>
    rw [noComma0_close] at hc
    apply ih false _ (by simp) hc
    intro y
    rw [List.append_assoc, hK]; simp [lvl0Ok_close]
  | case4 d prev cur c r h1 h2 hd ih =>
    rw [noComma0_char d _ h1 h2] at hc
    simp only [Bool.and_eq_true] at hc
    apply ih false _ (by simp) hc.2
    intro y
    rw [List.append_assoc, hK]
    simp only [List.singleton_append]
    rw [lvl0Ok_deep pb _ hd h1 h2]
  | case5 d prev cur c r h1 h2 hd hm ih =>
    have hd0 : d = 0 := by omega
    subst hd0
    rw [noComma0_char 0 _ h1 h2] at hc
    simp only [Bool.and_eq_true, Bool.or_eq_true, bne_iff_ne, ne_eq, not_true_eq_false, false_or] at hc
    simp only [sepMatch] at hm
    -- the character is not a separator: not white space, and a tie only after a backslash
    have hws : isWs c = false := by
      cases hw : isWs c with
      | false => rfl
      | true =>
        have hbs : c ≠ '\\' := by intro h; subst h; simp [isWs, wsCodes] at hw
        rw [spaceRun_nbs prev r hbs] at hm
        simp [hw] at hm
    have htie : c = '~' → pb = true := by
      rintro rfl
      rw [spaceRun_nbs prev r (by decide)] at hm
      simp only [hws, Bool.false_eq_true, if_false, true_and] at hm
      by_cases hpv : prev = some '\\'
      · exact hp hpv
      · rw [if_pos hpv] at hm; omega
    apply ih (c == '\\') _ (by intro h; simpa using h) hc.2
    intro y
    rw [List.append_assoc, hK]
    simp only [List.singleton_append]
    rw [lvl0Ok_zero pb _ h1 h2]
    have h3 : (c != '~' || pb) = true := by
      by_cases hct : c = '~'
      · simp [htie hct]
      · simp [hct]
    simp [hws, hc.1, h3]
  | case6 d prev cur c r h1 h2 hd hm ih =>
    have hd0 : d = 0 := by omega
    subst hd0
    intro t ht
    rcases List.mem_cons.1 ht with rfl | ht
    · have := hK []
      simpa [lvl0Ok] using this
    · simp only [sepMatch] at hm ht ih
      refine ih false (by intro y; rfl) ?_ (spaceRun_drop_noComma prev (c :: r) hc) t ht
      intro hl
      exact absurd hl (spaceRun_last prev (c :: r) hm)


/-! ### nesting depth of pieces -/

theorem litScan_of : ∀ (s : Str) (d e : Nat), depthAfter d s = some e → maxDepth d s ≤ 100 →
    litScan false d s = some e := by
  intro s
  induction s with
  | nil => intro d e h _; simpa [litScan, depthAfter] using h
  | cons c r ih =>
    intro d e h hm
    simp only [depthAfter] at h
    simp only [maxDepth] at hm
    simp only [litScan]
    by_cases h1 : c = '{'
    · simp only [h1, if_true] at h hm ⊢
      have := le_maxDepth r (d + 1)
      rw [if_neg (by omega)]
      exact ih _ _ h (by omega)
    · by_cases h2 : c = '}'
      · simp only [h2, show ¬ ('}' = '{') by decide, if_false, if_true] at h hm ⊢
        split at h
        · cases h
        · rename_i hd; rw [if_neg hd]; exact ih _ _ h (by omega)
      · simp only [if_neg h1, if_neg h2] at h hm ⊢
        simp only [Bool.false_eq_true, false_and, and_false, if_false]
        exact ih _ _ h (by omega)

theorem maxDepth_append : ∀ (a b : Str) (d : Nat),
    maxDepth d (a ++ b) = max (maxDepth d a) (maxDepth (depthSat d a) b) := by
  intro a
  induction a with
  | nil =>
    intro b d
    simp only [List.nil_append, maxDepth, depthSat]
    have := le_maxDepth b d
    omega
  | cons c r ih =>
    intro b d
    simp only [List.cons_append, maxDepth, depthSat]
    by_cases h1 : c = '{'
    · simp only [h1, if_true, ih]; omega
    · by_cases h2 : c = '}'
      · simp only [h2, show ¬ ('}' = '{') by decide, if_false, if_true, ih]; omega
      · simp only [if_neg h1, if_neg h2, ih]; omega

theorem maxDepth_plain {s : Str} (hs : ∀ c ∈ s, c ≠ '{' ∧ c ≠ '}') (d : Nat) : maxDepth d s = d := by
  induction s with
  | nil => rfl
  | cons c r ih =>
    have hc := hs c (by simp)
    simp only [maxDepth, if_neg hc.1, if_neg hc.2, ih (fun x hx => hs x (by simp [hx]))]
    omega

theorem depthSat_plain {s : Str} (hs : ∀ c ∈ s, c ≠ '{' ∧ c ≠ '}') (d : Nat) : depthSat d s = d := by
  induction s with
  | nil => rfl
  | cons c r ih =>
    have hc := hs c (by simp)
    simp only [depthSat, if_neg hc.1, if_neg hc.2, ih (fun x hx => hs x (by simp [hx]))]

theorem splitsTo_maxDepth {isSep : Str → Bool}
    (hsep : ∀ m, isSep m = true → ∀ c ∈ m, c ≠ '{' ∧ c ≠ '}') {s : Str} {L : List Str}
    (h : SplitsTo isSep s L) (hb : ∀ q ∈ L, balanced q = true) :
    ∀ q ∈ L, maxDepth 0 q ≤ maxDepth 0 s := by
  induction h with
  | one p => intro q hq; simp at hq; subst hq; exact Nat.le_refl _
  | cons p m rest ps hm hr ih =>
    intro q hq
    have hbp : depthSat 0 p = 0 := by
      have := hb p (by simp)
      simp only [balanced, decide_eq_true_eq] at this
      exact depthSat_of_depthAfter p 0 0 this
    have hpl := hsep m hm
    rw [List.append_assoc, maxDepth_append, hbp, maxDepth_append, depthSat_plain hpl, maxDepth_plain hpl]
    rcases List.mem_cons.1 hq with rfl | hq
    · omega
    · have := ih (fun x hx => hb x (by simp [hx])) q hq
      omega

theorem spaceUnits_plain (m : Str) (h : spaceUnits m = true) : ∀ c ∈ m, c ≠ '{' ∧ c ≠ '}' := by
  fun_induction spaceUnits m with
  | case1 => intro c hc; simp at hc
  | case2 r' ih =>
    intro c hc
    simp only [List.mem_cons] at hc
    rcases hc with rfl | rfl | hc
    · decide
    · decide
    · exact ih h c hc
  | case3 r hr => cases h
  | case4 c r hc ih =>
    simp only [Bool.and_eq_true, Bool.or_eq_true, decide_eq_true_eq] at h
    intro x hx
    rcases List.mem_cons.1 hx with rfl | hx
    · rcases h.1 with hw | rfl
      · constructor <;> (intro hh; subst hh; simp [isWs, wsCodes] at hw)
      · decide
    · exact ih h.2 x hx

theorem sepPred_space_plain (m : Str) (h : sepPred .space m = true) : ∀ c ∈ m, c ≠ '{' ∧ c ≠ '}' := by
  simp only [sepPred, isSpaceSep, Bool.and_eq_true] at h
  exact spaceUnits_plain m h.2

theorem sepPred_comma_plain (m : Str) (h : sepPred .comma m = true) : ∀ c ∈ m, c ≠ '{' ∧ c ≠ '}' := by
  simp only [sepPred, beq_iff_eq] at h
  subst h
  intro c hc; simp at hc; subst hc; decide

/-! ### sources of tokens -/

/-- a text whose blank-separated pieces are name tokens: balanced within the nesting limit and
without comma at brace level 0 -/
def GoodSrc (s : Str) : Prop := litScan false 0 s = some 0 ∧ noComma0 0 s = true

/-- the raw pieces of a split of balanced text: balanced, not deeper than the text -/
theorem raw_pieces {sep : Sep} (hsep : ∀ m, sepPred sep m = true → ∀ c ∈ m, c ≠ '{' ∧ c ≠ '}')
    {s : Str} (hs : litScan false 0 s = some 0) (hne : s ≠ []) :
    ∀ q ∈ splitTexRaw sep s, litScan false 0 q = some 0 := by
  have hbal := litScan_depthAfter s 0 0 hs
  obtain ⟨p, ps, h1, h2, h3⟩ := splitLoop_main sep (s.length + 1) s none (by omega) hbal (Or.inl hne)
  intro q hq
  rw [splitTexRaw, h1] at hq
  simp only [preOf_none, List.nil_append] at hq
  have hb : balanced q = true := h3 q hq
  have hd := splitsTo_maxDepth hsep h2 h3 q hq
  have hm := litScan_maxDepth s 0 0 hs (by omega)
  simp only [balanced, decide_eq_true_eq] at hb
  exact litScan_of q 0 0 hb (by omega)

/-! ### `strip` removes white space only -/

theorem mem_takeWhile_prop {α} (p : α → Bool) : ∀ (l : List α) (x : α), x ∈ l.takeWhile p → p x = true := by
  intro l
  induction l with
  | nil => intro x hx; simp at hx
  | cons a r ih =>
    intro x hx
    simp only [List.takeWhile_cons] at hx
    split at hx
    · rename_i ha
      rcases List.mem_cons.1 hx with rfl | hx
      · exact ha
      · exact ih x hx
    · simp at hx

theorem strip_decomp (s : Str) : ∃ a b, (∀ c ∈ a, isWs c = true) ∧ (∀ c ∈ b, isWs c = true) ∧
    s = a ++ strip s ++ b := by
  refine ⟨s.takeWhile isWs, ((lstrip s).reverse.takeWhile isWs).reverse, ?_, ?_, ?_⟩
  · intro c hc; exact mem_takeWhile_prop isWs _ c hc
  · intro c hc
    rw [List.mem_reverse] at hc
    exact mem_takeWhile_prop isWs _ c hc
  · unfold strip rstrip
    have h1 : s = s.takeWhile isWs ++ lstrip s := by
      unfold lstrip; exact List.takeWhile_append_dropWhile.symm
    have h2 : lstrip s = ((lstrip s).reverse.dropWhile isWs).reverse ++ ((lstrip s).reverse.takeWhile isWs).reverse := by
      rw [← List.reverse_append, List.takeWhile_append_dropWhile, List.reverse_reverse]
    rw [List.append_assoc, ← h2]
    exact h1

theorem ws_plain {w : Str} (hw : ∀ c ∈ w, isWs c = true) : ∀ c ∈ w, c ≠ '{' ∧ c ≠ '}' := by
  intro c hc
  have := hw c hc
  constructor <;> (intro hh; subst hh; simp [isWs, wsCodes] at this)

theorem litScan_ws_prefix {w : Str} (hw : ∀ c ∈ w, isWs c = true) (x : Str) (d : Nat) :
    litScan false d (w ++ x) = litScan false d x := by
  induction w with
  | nil => rfl
  | cons c r ih =>
    have hc := ws_plain hw c (by simp)
    simp only [List.cons_append, litScan, if_neg hc.1, if_neg hc.2, Bool.false_eq_true, false_and, and_false, if_false]
    exact ih (fun y hy => hw y (by simp [hy]))

theorem litScan_ws_suffix {w : Str} (hw : ∀ c ∈ w, isWs c = true) : ∀ (x : Str) (d e : Nat),
    litScan false d (x ++ w) = some e → litScan false d x = some e := by
  intro x
  induction x with
  | nil =>
    intro d e h
    have := litScan_ws_prefix hw [] d
    simp only [List.append_nil] at this
    simp only [List.nil_append] at h
    rw [this] at h
    exact h
  | cons c r ih =>
    intro d e h
    simp only [List.cons_append, litScan] at h ⊢
    by_cases h1 : c = '{'
    · simp only [h1, if_true] at h ⊢
      split at h
      · cases h
      · rename_i hlt; rw [if_neg hlt]; exact ih _ _ h
    · by_cases h2 : c = '}'
      · simp only [h2, show ¬ ('}' = '{') by decide, if_false, if_true] at h ⊢
        split at h
        · cases h
        · rename_i hd; rw [if_neg hd]; exact ih _ _ h
      · simp only [if_neg h1, if_neg h2, Bool.false_eq_true, false_and, and_false, if_false] at h ⊢
        exact ih _ _ h

theorem noComma0_ws_prefix {w : Str} (hw : ∀ c ∈ w, isWs c = true) (x : Str) (d : Nat) :
    noComma0 d (w ++ x) = true → noComma0 d x = true := by
  intro h
  rw [noComma0_append, depthSat_plain (ws_plain hw)] at h
  simp only [Bool.and_eq_true] at h
  exact h.2

theorem goodSrc_strip {s : Str} (h : GoodSrc s) : GoodSrc (strip s) := by
  obtain ⟨a, b, ha, hb, hs⟩ := strip_decomp s
  obtain ⟨h1, h2⟩ := h
  rw [hs, List.append_assoc] at h1 h2
  rw [litScan_ws_prefix ha] at h1
  have h2' := noComma0_ws_prefix ha _ 0 h2
  rw [noComma0_append] at h2'
  simp only [Bool.and_eq_true] at h2'
  exact ⟨litScan_ws_suffix hb _ 0 0 h1, h2'.1⟩

/-! ### tokens of a good source -/

theorem tokCore_of_src {s : Str} (h : GoodSrc s) : ∀ t ∈ splitTex .space s, tokCore t = true := by
  intro t ht
  have hne : t ≠ [] := splitTex_space_ne_nil ht
  by_cases hs : s = []
  · subst hs; rw [splitTex_space_nil] at ht; simp at ht
  · have hbal := litScan_depthAfter s 0 0 h.1
    have hraw : splitTexRaw .space s = flat .space 0 none [] s := splitTexRaw_flat .space s hbal hs
    have ht' : t ∈ ((splitTexRaw .space s).map strip).filter (· ≠ []) := by
      have : splitTex .space s = ((splitTexRaw .space s).map strip).filter (· ≠ []) := by
        simp [splitTex, splitTexRaw]
      rw [← this]; exact ht
    obtain ⟨q, hq, rfl⟩ := List.mem_map.1 (List.mem_filter.1 ht').1
    have hlit : litScan false 0 q = some 0 := raw_pieces sepPred_space_plain h.1 hs q hq
    have hlvl : lvl0Ok 0 false q = true := by
      rw [hraw] at hq
      exact flat_space_pieces s 0 none [] false (by intro y; rfl) (by simp) h.2 q hq
    have hsat : depthSat 0 q = 0 := depthSat_of_depthAfter q 0 0 (litScan_depthAfter q 0 0 hlit)
    have hstrip : strip q = q := by
      apply strip_eq_self
      · intro c hc
        cases q with
        | nil => simp at hc
        | cons a r => simp only [List.head?_cons, Option.some.injEq] at hc; subst hc; exact lvl0Ok_head hlvl
      · exact lvl0Ok_last q 0 false hlvl hsat
    rw [hstrip] at hne ⊢
    simp [tokCore, hne, hlvl, hlit]

theorem goodSrc_comma_parts {name : Str} (h : litScan false 0 name = some 0) :
    ∀ s ∈ splitTex .comma name, GoodSrc s := by
  intro s hs
  by_cases hn : name = []
  · subst hn
    have : splitTex .comma [] = [] := by decide
    rw [this] at hs; simp at hs
  · have hbal := litScan_depthAfter name 0 0 h
    have hraw : splitTexRaw .comma name = flat .comma 0 none [] name := splitTexRaw_flat .comma name hbal hn
    have hs' : s ∈ (splitTexRaw .comma name).map strip := by
      have : splitTex .comma name = (splitTexRaw .comma name).map strip := by
        simp [splitTex, splitTexRaw]
      rw [← this]; exact hs
    obtain ⟨q, hq, rfl⟩ := List.mem_map.1 hs'
    apply goodSrc_strip
    refine ⟨raw_pieces sepPred_comma_plain h hn q hq, ?_⟩
    rw [hraw] at hq
    exact flat_comma_pieces name 0 none [] (by intro y; rfl) q hq

theorem goodSrc_join : ∀ (xs : List Str), (∀ x ∈ xs, GoodSrc x) → GoodSrc (joinWith [' '] xs) := by
  intro xs
  induction xs with
  | nil => intro _; exact ⟨rfl, rfl⟩
  | cons x xs ih =>
    intro h
    have hx := h x (by simp)
    cases xs with
    | nil => simpa [joinWith] using hx
    | cons x2 xs2 =>
      have ih' := ih (fun y hy => h y (by simp [hy]))
      simp only [joinWith]
      have hb := litScan_depthAfter x 0 0 hx.1
      have hsat := depthSat_of_depthAfter x 0 0 hb
      constructor
      · -- balanced within the limit: depth of a concatenation of balanced texts
        have hb2 := litScan_depthAfter _ 0 0 ih'.1
        have hm1 := litScan_maxDepth x 0 0 hx.1 (by omega)
        have hm2 := litScan_maxDepth _ 0 0 ih'.1 (by omega)
        apply litScan_of
        · simp [depthAfter_append, hb, depthAfter, hb2]
        · rw [List.append_assoc, maxDepth_append, hsat, maxDepth_append]
          simp only [show depthSat 0 [' '] = 0 by decide, show maxDepth 0 [' '] = 0 by decide]
          omega
      · rw [List.append_assoc, noComma0_append, hsat, hx.2, noComma0_append]
        simp only [show depthSat 0 [' '] = 0 by decide, show noComma0 0 [' '] = true by decide, Bool.true_and]
        exact ih'.2


/-! ### the name-list separator ` and ` -/

theorem isAndAt_sentinel (a rest : Str) (ha : a ≠ []) (hr : rest = [] ∨ ∃ r, rest = ' ' :: r)
    (h : isAndAt (a ++ [' ']) = false) : isAndAt (a ++ rest) = false := by
  rcases a with _ | ⟨c1, _ | ⟨c2, _ | ⟨c3, _ | ⟨c4, _ | ⟨c5, r⟩⟩⟩⟩⟩
  · exact absurd rfl ha
  · rcases hr with rfl | ⟨r', rfl⟩
    · exact isAndAt_short _ (by simp)
    · rcases r' with _ | ⟨x1, _ | ⟨x2, _ | ⟨x3, r4⟩⟩⟩
      · exact isAndAt_short _ (by simp)
      · exact isAndAt_short _ (by simp)
      · exact isAndAt_short _ (by simp)
      · simp only [List.cons_append, List.nil_append]; rw [isAndAt_five]; simp
  · rcases hr with rfl | ⟨r', rfl⟩
    · exact isAndAt_short _ (by simp)
    · rcases r' with _ | ⟨x1, _ | ⟨x2, r4⟩⟩
      · exact isAndAt_short _ (by simp)
      · exact isAndAt_short _ (by simp)
      · simp only [List.cons_append, List.nil_append]; rw [isAndAt_five]; simp
  · rcases hr with rfl | ⟨r', rfl⟩
    · exact isAndAt_short _ (by simp)
    · rcases r' with _ | ⟨x1, r4⟩
      · exact isAndAt_short _ (by simp)
      · simp only [List.cons_append, List.nil_append]; rw [isAndAt_five]; simp
  · rcases hr with rfl | ⟨r', rfl⟩
    · exact isAndAt_short _ (by simp)
    · simp only [List.cons_append, List.nil_append] at h ⊢
      rw [isAndAt_five] at h ⊢
      exact h
  · simp only [List.cons_append] at h ⊢
    rw [isAndAt_five] at h ⊢
    exact h

theorem andScan_noSep (rest : Str) (hr : rest = [] ∨ ∃ r, rest = ' ' :: r) :
    ∀ (x : Str) (d : Nat) (prev : Option Char), andScan d (x ++ [' ']) = true → NoSep .and rest d prev x := by
  intro x
  induction x with
  | nil => intro _ _ _; trivial
  | cons c r ih =>
    intro d prev h
    simp only [List.cons_append] at h
    by_cases h1 : c = '{'
    · subst h1; simp only [andScan, if_true] at h; simp only [NoSep, if_true]; exact ih _ _ h
    · by_cases h2 : c = '}'
      · subst h2
        simp only [andScan, show ¬ ('}' = '{') by decide, if_false, if_true] at h
        simp only [NoSep, show ¬ ('}' = '{') by decide, if_false, if_true]; exact ih _ _ h
      · simp only [andScan, if_neg h1, if_neg h2, Bool.and_eq_true, Bool.or_eq_true, bne_iff_ne, ne_eq,
          Bool.not_eq_true'] at h
        by_cases hd : d = 0
        · subst hd
          simp only [NoSep, if_neg h1, if_neg h2, ne_eq, not_true_eq_false, if_false]
          refine ⟨?_, ih _ _ h.2⟩
          rcases h.1 with h0 | h0
          · exact absurd rfl h0
          · have := isAndAt_sentinel (c :: r) rest (by simp) hr (by simpa using h0)
            simp only [List.cons_append] at this
            simp [sepMatch, this]
        · simp only [NoSep, if_neg h1, if_neg h2, ne_eq, hd, not_false_eq_true, if_true]
          exact ih _ _ h.2

theorem sepMatch_and (pv : Option Char) (s : Str) : sepMatch .and pv s = if isAndAt s = true then 5 else 0 := rfl

/-- one element of a name list as written -/
def NameOk (x : Str) : Prop := andFree x = true ∧ depthAfter 0 x = some 0

theorem flat_and_names : ∀ (xs : List Str) (prev : Option Char), xs ≠ [] → (∀ x ∈ xs, NameOk x) →
    flat .and 0 prev [] (joinWith " and ".toList xs) = xs := by
  intro xs
  induction xs with
  | nil => intro _ h; exact absurd rfl h
  | cons x xs ih =>
    intro prev _ hx
    have h0 := hx x (by simp)
    have hsat : depthSat 0 x = 0 := depthSat_of_depthAfter x 0 0 h0.2
    cases xs with
    | nil =>
      simp only [joinWith]
      have := flat_noSep .and [] x 0 prev [] (andScan_noSep [] (Or.inl rfl) x 0 prev h0.1)
      simp only [List.append_nil, List.nil_append] at this
      rw [this, flat_nil]
    | cons x2 xs2 =>
      simp only [joinWith]
      have hrest : " and ".toList ++ joinWith " and ".toList (x2 :: xs2) =
          ' ' :: 'a' :: 'n' :: 'd' :: ' ' :: joinWith " and ".toList (x2 :: xs2) := rfl
      rw [List.append_assoc, hrest,
        flat_noSep .and _ x 0 prev [] (andScan_noSep _ (Or.inr ⟨_, rfl⟩) x 0 prev h0.1), hsat]
      simp only [List.nil_append]
      generalize hJ : joinWith " and ".toList (x2 :: xs2) = J
      have hm : ∀ pv, sepMatch .and pv (' ' :: 'a' :: 'n' :: 'd' :: ' ' :: J) = 5 := by
        intro pv
        have h6 : isAndAt (' ' :: 'a' :: 'n' :: 'd' :: ' ' :: J) = true := by
          rw [isAndAt_five]; rfl
        rw [sepMatch_and, if_pos h6]
      rw [flat_sep .and _ x _ (by decide) (by decide) (by rw [hm]; decide), hm]
      have hdrop : List.drop 5 (' ' :: 'a' :: 'n' :: 'd' :: ' ' :: J) = J := rfl
      rw [hdrop, ← hJ, ih _ (by simp) (fun y hy => hx y (by simp [hy]))]

theorem splitNameList_join (xs : List Str) (hne : xs ≠ []) (hx : ∀ x ∈ xs, NameOk x ∧ strip x = x)
    (hs : joinWith " and ".toList xs ≠ []) :
    splitNameList (joinWith " and ".toList xs) = xs := by
  have hbal : depthAfter 0 (joinWith " and ".toList xs) = some 0 :=
    depthAfter_join (by simp) xs (fun x h => (hx x h).1.2)
  have hraw : splitTexRaw .and (joinWith " and ".toList xs) = xs := by
    rw [splitTexRaw_flat .and _ hbal hs, flat_and_names xs none hne (fun x h => (hx x h).1)]
  have hmap : xs.map strip = xs := by
    rw [List.map_congr_left (g := id) (fun t ht => (hx t ht).2)]; simp
  show (if Sep.and = Sep.space then ((splitTexRaw .and (joinWith " and ".toList xs)).map strip).filter (· ≠ [])
      else (splitTexRaw .and (joinWith " and ".toList xs)).map strip) = xs
  rw [hraw, if_neg (by decide), hmap]


end Pybtex.C02
