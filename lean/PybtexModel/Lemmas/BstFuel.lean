/-
The fuel-indexed loops of `Model/BstParse.lean` never run out of fuel: every turn of
`parse_group` / `parse` consumes at least one character.
-/
import PybtexModel.Model.BstParse
import PybtexModel.Lemmas.Scanner

namespace Pybtex.Bst
open Pybtex.Scanner

/-- pybtex's command table (as regenerated from /repo) is the reference table -/
theorem commands_table : Gen.bstCommands = commandTable := by decide

/-- the running interpreter's `int()` digit limit (regenerated) is the reference limit -/
theorem int_limit : Gen.intMaxStrDigits = intDigitLimit := by decide

theorem mkLiteralE_err {k : TokKind} {v : Str} {l : Nat} {e : Err} (h : mkLiteralE k v l = .error e) :
    e = .syntaxError "integer literal too long".toList l := by
  unfold mkLiteralE at h
  split at h
  · cases h; rfl
  · cases h

theorem mkLiteralE_ok {k : TokKind} {v : Str} {l : Nat} {t : Tok} (h : mkLiteralE k v l = .ok t) :
    t = mkLiteral k v := by
  unfold mkLiteralE at h
  split at h
  · cases h
  · cases h; rfl

theorem cmdArityM_eq (name : Str) : cmdArityM name = cmdArity name := by
  simp [cmdArityM, cmdArity, commands_table]

/-- a pattern only matches a non-empty prefix of the text, and returns the rest -/
def PatSound (p : Pattern) : Prop := ∀ s v r, p.run s = some (v, r) → v ≠ [] ∧ s = v ++ r

theorem namePat_sound : PatSound namePat := by
  intro s v r h; exact matchRun1_some h

theorem litPat_sound (c : Char) : PatSound (litPat [c]) := by
  intro s v r h
  simp only [litPat, Option.map_eq_some_iff] at h
  obtain ⟨r', h1, h2⟩ := h
  cases h2
  exact ⟨by simp, matchLit_some h1⟩

theorem stringPat_sound : PatSound stringPat := by
  intro s v r h
  simp only [stringPat] at h
  unfold matchString at h
  split at h
  · rename_i r0
    have hc := takeRun_fst_append_snd (fun c => c != '"') r0
    split at h
    · rename_i body r' heq
      cases h
      rw [heq] at hc
      refine ⟨by simp, ?_⟩
      simp at hc ⊢; exact hc.symm
    · cases h
  · cases h

theorem integerPat_sound : PatSound integerPat := by
  intro s v r h
  simp only [integerPat] at h
  unfold matchInteger at h
  split at h
  · split at h
    · rename_i d r' heq
      cases h
      obtain ⟨_, h2⟩ := matchRun1_some heq
      exact ⟨by simp, by simp [h2]⟩
    · cases h
  · split at h
    · rename_i d r' heq
      cases h
      obtain ⟨_, h2⟩ := matchRun1_some heq
      exact ⟨by simp, by simp [h2]⟩
    · cases h
  · cases h

theorem firstMatch_sound {κ : Type} (pats : List (κ × Pattern)) (hp : ∀ kp ∈ pats, PatSound kp.2)
    (s : Str) (k : κ) (v r : Str) (h : firstMatch pats s = some (k, v, r)) : v ≠ [] ∧ s = v ++ r := by
  induction pats with
  | nil => simp [firstMatch] at h
  | cons kp ps ih =>
    obtain ⟨k0, p⟩ := kp
    simp only [firstMatch] at h
    split at h
    · rename_i v' r' heq
      cases h
      exact hp _ List.mem_cons_self s _ _ heq
    · exact ih (fun kp hkp => hp kp (by simp [hkp])) h

theorem groupPats_sound : ∀ kp ∈ groupPats, PatSound kp.2 := by
  intro kp hkp
  simp only [groupPats, List.mem_cons, List.not_mem_nil, or_false] at hkp
  rcases hkp with rfl | rfl | rfl | rfl | rfl
  · exact namePat_sound
  · exact stringPat_sound
  · exact integerPat_sound
  · exact litPat_sound _
  · exact litPat_sound _

/-- `required` in one piece -/
theorem required_eq {κ : Type} (pats : List (κ × Pattern)) (d : Option Str) (a : Bool) (st : St) :
    required pats d a st =
      match (eatWs st).rest with
      | [] => if a then .error .eof else .error (.prematureEOF (eatWs st).line)
      | _ :: _ =>
        match firstMatch pats (eatWs st).rest with
        | some (k, v, r) => .ok ((k, v), ⟨r, (eatWs st).line⟩)
        | none => .error (.tokenRequired (match d with | some d => d | none => describe pats)
                    (eatWs st).line) := by
  simp only [required, getToken]
  generalize eatWs st = st1
  obtain ⟨rest, line⟩ := st1
  cases rest with
  | nil => cases a <;> rfl
  | cons c r =>
    simp only []
    cases h2 : firstMatch pats (c :: r) with
    | none => rfl
    | some x => obtain ⟨k, v, r'⟩ := x; rfl

theorem required_ok_shorter {κ : Type} (pats : List (κ × Pattern)) (hp : ∀ kp ∈ pats, PatSound kp.2)
    (d : Option Str) (a : Bool) (st st' : St) (t : κ × Str)
    (h : required pats d a st = .ok (t, st')) : st'.rest.length < st.rest.length := by
  rw [required_eq] at h
  have hle := eatWs_rest_length_le st
  split at h
  · split at h <;> cases h
  · rename_i c r hrest
    split at h
    · rename_i k v r' hfm
      cases h
      obtain ⟨hv, hs⟩ := firstMatch_sound pats hp _ k v r' hfm
      have : (eatWs st).rest.length = v.length + r'.length := by rw [hs]; simp
      have hv' : 0 < v.length := List.length_pos_iff.mpr hv
      simp only; omega
    · cases h

theorem required_err_ne_fuel {κ : Type} (pats : List (κ × Pattern)) (d : Option Str) (a : Bool)
    (st : St) (e : Err) (h : required pats d a st = .error e) : e ≠ .outOfFuel := by
  rw [required_eq] at h
  split at h
  · split at h <;> cases h <;> simp
  · split at h
    · cases h
    · cases h; simp

/-- `parse_group` with fuel beyond the length of the remaining text never reports `outOfFuel`,
and consumes at least one character when it succeeds -/
theorem parseGroupF_fuel : ∀ (n : Nat) (st : St), st.rest.length < n →
    match parseGroupF n st with
    | .error e => e ≠ .outOfFuel
    | .ok (_, st') => st'.rest.length < st.rest.length := by
  intro n
  induction n with
  | zero => intro st h; omega
  | succ n ih =>
    intro st hlen
    unfold parseGroupF
    cases hreq : required groupPats none false st with
    | error e => exact required_err_ne_fuel _ _ _ _ _ hreq
    | ok x =>
      obtain ⟨⟨k, v⟩, st1⟩ := x
      have h1 := required_ok_shorter _ groupPats_sound _ _ _ _ _ hreq
      have ih1 := ih st1 (by omega)
      have lit : ∀ r : Except Err (List Tok × St), (match mkLiteralE k v st1.line with
            | .error e => (.error e : Except Err (List Tok × St))
            | .ok t =>
              match parseGroupF n st1 with
              | .error e => (.error e : Except Err (List Tok × St))
              | .ok (ts, st2) => .ok (t :: ts, st2)) = r →
          match r with
          | .error e => e ≠ .outOfFuel
          | .ok (_, st') => st'.rest.length < st.rest.length := by
        intro r hr; subst hr
        cases hm : mkLiteralE k v st1.line with
        | error e => rw [mkLiteralE_err hm]; simp
        | ok t =>
          simp only []
          cases hg : parseGroupF n st1 with
          | error e => rw [hg] at ih1; exact ih1
          | ok y => obtain ⟨ts, st2⟩ := y; rw [hg] at ih1; simp only at ih1 ⊢; omega
      cases k with
      | lbrace =>
        simp only []
        cases hb : parseGroupF n st1 with
        | error e => rw [hb] at ih1; exact ih1
        | ok y =>
          obtain ⟨body, st2⟩ := y
          rw [hb] at ih1; simp only at ih1 ⊢
          have ih2 := ih st2 (by omega)
          cases ht : parseGroupF n st2 with
          | error e => rw [ht] at ih2; exact ih2
          | ok z => obtain ⟨ts, st3⟩ := z; rw [ht] at ih2; simp only at ih2 ⊢; omega
      | rbrace => simp only []; exact h1
      | name => exact lit _ rfl
      | string => exact lit _ rfl
      | integer => exact lit _ rfl

theorem parseGroup_fuel (st : St) :
    match parseGroup st with
    | .error e => e ≠ .outOfFuel
    | .ok (_, st') => st'.rest.length < st.rest.length :=
  parseGroupF_fuel _ st (by omega)

theorem parseGroups_fuel : ∀ (k : Nat) (st : St),
    match parseGroups k st with
    | .error e => e ≠ .outOfFuel
    | .ok (_, st') => st'.rest.length ≤ st.rest.length := by
  intro k
  induction k with
  | zero => intro st; simp [parseGroups]
  | succ k ih =>
    intro st
    unfold parseGroups
    cases hreq : required [(TokKind.lbrace, lbracePat)] none false st with
    | error e => exact required_err_ne_fuel _ _ _ _ _ hreq
    | ok x =>
      obtain ⟨t, st1⟩ := x
      have h1 := required_ok_shorter [(TokKind.lbrace, lbracePat)]
        (by intro kp hkp; simp at hkp; subst hkp; exact litPat_sound _) _ _ _ _ _ hreq
      have h2 := parseGroup_fuel st1
      simp only []
      cases hg : parseGroup st1 with
      | error e => rw [hg] at h2; exact h2
      | ok y =>
        obtain ⟨g, st2⟩ := y
        rw [hg] at h2; simp only at h2 ⊢
        have h3 := ih st2
        cases hgs : parseGroups k st2 with
        | error e => rw [hgs] at h3; exact h3
        | ok z => obtain ⟨gs, st3⟩ := z; rw [hgs] at h3; simp only at h3 ⊢; omega

theorem parseCommand_fuel (st : St) :
    match parseCommand st with
    | .error e => e ≠ .outOfFuel
    | .ok (_, st') => st'.rest.length < st.rest.length := by
  unfold parseCommand
  cases hreq : required [(TokKind.name, namePat)] (some "BST command".toList) true st with
  | error e => exact required_err_ne_fuel _ _ _ _ _ hreq
  | ok x =>
    obtain ⟨⟨k, name⟩, st1⟩ := x
    have h1 := required_ok_shorter [(TokKind.name, namePat)]
      (by intro kp hkp; simp at hkp; subst hkp; exact namePat_sound) _ _ _ _ _ hreq
    simp only []
    cases har : cmdArityM name with
    | none => simp
    | some arity =>
      have h2 := parseGroups_fuel arity st1
      simp only []
      cases hgs : parseGroups arity st1 with
      | error e => rw [hgs] at h2; exact h2
      | ok z => obtain ⟨gs, st2⟩ := z; rw [hgs] at h2; simp only at h2 ⊢; omega

theorem parseF_fuel : ∀ (n : Nat) (st : St), st.rest.length < n →
    ∀ e, parseF n st = .error e → e ≠ .outOfFuel ∧ e ≠ .eof := by
  intro n
  induction n with
  | zero => intro st h; omega
  | succ n ih =>
    intro st hlen e he
    unfold parseF at he
    have hc := parseCommand_fuel st
    cases hpc : parseCommand st with
    | error e' =>
      rw [hpc] at hc he
      cases e' with
      | eof => simp at he
      | outOfFuel => simp at hc
      | prematureEOF l => simp at he; subst he; simp
      | tokenRequired d l => simp at he; subst he; simp
      | syntaxError m l => simp at he; subst he; simp
    | ok x =>
      obtain ⟨c, st1⟩ := x
      rw [hpc] at hc he; simp only at hc he
      cases hp : parseF n st1 with
      | error e' =>
        rw [hp] at he; simp at he; subst he
        exact ih st1 (by omega) _ hp
      | ok p => rw [hp] at he; simp at he

/-- `parseText` never returns the model-only outcomes -/
theorem parseText_fuel (text : Str) (e : Err) (h : parseText text = .error e) :
    e ≠ .outOfFuel ∧ e ≠ .eof :=
  parseF_fuel _ (St.init text) (by simp [St.init]) e h

end Pybtex.Bst
