/-
C04 helper lemmas: the tokeniser stated from the property text (`Spec.nameTokens`, one pass that
only counts braces) is `splitTex .space` (the model of `split_tex_string`) on every brace-balanced
string.  Route: `splitTexRaw_flat` (C02: the loop is a flat scan on balanced text), then the flat
scan against `nameTokensAux` (`flat_filter_eq_aux`, all strings), then "no raw piece of a balanced
string starts or ends with white space" (`flat_edges`), so `strip` is the identity on the pieces.
-/
import PybtexModel.Lemmas.BibWriteSplit

namespace Pybtex.C04T
open Pybtex Pybtex.Spec Pybtex.C02

/-! ### one-step lemmas for the reference tokeniser -/

theorem nameSepAt_nil (p : Option Char) : nameSepAt p [] = 0 := rfl

theorem nameSepAt_bs_sp (p : Option Char) (r : Str) : nameSepAt p ('\\' :: ' ' :: r) = 2 := rfl

theorem nameSepAt_bs_nil (p : Option Char) : nameSepAt p ['\\'] = 0 := by
  unfold nameSepAt; simp [isWs, wsCodes]

theorem nameSepAt_bs_other (p : Option Char) {c2 : Char} (r : Str) (h : c2 ≠ ' ') :
    nameSepAt p ('\\' :: c2 :: r) = 0 := by
  unfold nameSepAt
  split
  · rename_i heq; simp only [List.cons.injEq] at heq; exact absurd heq.2.1 h
  · rename_i heq; simp only [List.cons.injEq] at heq
    obtain ⟨rfl, -⟩ := heq
    simp [isWs, wsCodes]
  · rename_i heq; simp at heq

theorem nameSepAt_nbs (p : Option Char) {c : Char} (r : Str) (hc : c ≠ '\\') :
    nameSepAt p (c :: r) = if isWs c || (c == '~' && p != some '\\') then 1 else 0 := by
  unfold nameSepAt
  split
  · rename_i heq; simp only [List.cons.injEq] at heq; exact absurd heq.1 hc
  · rename_i heq; simp only [List.cons.injEq] at heq
    obtain ⟨rfl, -⟩ := heq
    rfl
  · rename_i heq; simp at heq

theorem aux_nil (d k : Nat) (p : Option Char) (cur : Str) :
    nameTokensAux d k p cur [] = if cur = [] then [] else [cur] := by
  rw [nameTokensAux]

theorem aux_skip (d k : Nat) (p : Option Char) (cur : Str) (c : Char) (r : Str) :
    nameTokensAux d (k + 1) p cur (c :: r) = nameTokensAux d k (some c) cur r := by
  rw [nameTokensAux]

theorem aux_open (d : Nat) (p : Option Char) (cur r : Str) :
    nameTokensAux d 0 p cur ('{' :: r) = nameTokensAux (d + 1) 0 (some '{') (cur ++ ['{']) r := by
  rw [nameTokensAux]; simp

theorem aux_close (d : Nat) (p : Option Char) (cur r : Str) :
    nameTokensAux d 0 p cur ('}' :: r) = nameTokensAux (d - 1) 0 (some '}') (cur ++ ['}']) r := by
  rw [nameTokensAux]; simp

theorem aux_deep {d : Nat} (p : Option Char) (cur : Str) {c : Char} (r : Str)
    (hd : d ≠ 0) (h1 : c ≠ '{') (h2 : c ≠ '}') :
    nameTokensAux d 0 p cur (c :: r) = nameTokensAux d 0 (some c) (cur ++ [c]) r := by
  rw [nameTokensAux]; simp [h1, h2, hd]

theorem aux_char (p : Option Char) (cur : Str) {c : Char} (r : Str)
    (h1 : c ≠ '{') (h2 : c ≠ '}') (h : nameSepAt p (c :: r) = 0) :
    nameTokensAux 0 0 p cur (c :: r) = nameTokensAux 0 0 (some c) (cur ++ [c]) r := by
  rw [nameTokensAux]; simp [h1, h2, h]

theorem aux_sep (p : Option Char) (cur : Str) {c : Char} (r : Str)
    (h1 : c ≠ '{') (h2 : c ≠ '}') (h : nameSepAt p (c :: r) ≠ 0) :
    nameTokensAux 0 0 p cur (c :: r) =
      (if cur = [] then [] else [cur]) ++
        nameTokensAux 0 (nameSepAt p (c :: r) - 1) (some c) [] r := by
  rw [nameTokensAux]
  have : nameSepAt p (c :: r) > 0 := Nat.pos_of_ne_zero h
  simp [h1, h2, this]

/-! ### separator at the head: the regular expression against `nameSepAt` -/

theorem ws_facts {c : Char} (h : isWs c = true) : c ≠ '\\' ∧ c ≠ '{' ∧ c ≠ '}' ∧ c ≠ '~' := by
  refine ⟨?_, ?_, ?_, ?_⟩ <;> (rintro rfl; revert h; decide)

theorem spaceRun_zero_iff (prev prev' : Option Char) (x : Str)
    (hp : prev = some '\\' ↔ prev' = some '\\') :
    spaceRun prev x = 0 ↔ nameSepAt prev' x = 0 := by
  cases x with
  | nil => simp [spaceRun, nameSepAt_nil]
  | cons c r =>
    by_cases hc : c = '\\'
    · subst hc
      cases r with
      | nil => simp [spaceRun_bs_nil, nameSepAt_bs_nil]
      | cons c2 r2 =>
        by_cases h2 : c2 = ' '
        · subst h2; rw [spaceRun_bs_sp, nameSepAt_bs_sp]; omega
        · rw [spaceRun_bs_other _ _ h2, nameSepAt_bs_other _ _ h2]
    · rw [spaceRun_nbs _ _ hc, nameSepAt_nbs _ _ hc]
      by_cases hw : isWs c = true
      · simp [hw]
      · by_cases ht : c = '~'
        · subst ht
          by_cases hq : prev = some '\\'
          · have hq' := hp.1 hq
            simp [hq, hq']
          · have hq' : prev' ≠ some '\\' := fun h => hq (hp.2 h)
            simp [hw, hq, hq']
        · simp [hw, ht]

/-- passing the whole greedy run of `spaceRun` one separator at a time emits nothing -/
theorem aux_run (x : Str) : ∀ (prev prev' : Option Char),
    (prev = some '\\' ↔ prev' = some '\\') →
    nameTokensAux 0 0 prev' [] x =
      nameTokensAux 0 0 (if spaceRun prev x = 0 then prev' else x[spaceRun prev x - 1]?) []
        (x.drop (spaceRun prev x)) := by
  induction hn : x.length using Nat.strongRecOn generalizing x with
  | _ n ih =>
    intro prev prev' hp
    by_cases h0 : spaceRun prev x = 0
    · simp [h0]
    · have hs0 : nameSepAt prev' x ≠ 0 := fun h => h0 ((spaceRun_zero_iff prev prev' x hp).2 h)
      cases x with
      | nil => simp [spaceRun] at h0
      | cons c r =>
        by_cases hc : c = '\\'
        · subst hc
          cases r with
          | nil => simp [spaceRun_bs_nil] at h0
          | cons c2 r2 =>
            by_cases h2 : c2 = ' '
            · subst h2
              rw [aux_sep _ _ _ (by decide) (by decide) hs0, nameSepAt_bs_sp]
              simp only [if_true, List.nil_append, Nat.add_one_sub_one]
              rw [aux_skip]
              rw [spaceRun_bs_sp]
              have := ih r2.length (by simp at hn; omega) r2 rfl (some ' ') (some ' ') Iff.rfl
              rw [this]
              by_cases hm : spaceRun (some ' ') r2 = 0
              · simp [hm]
              · obtain ⟨m, hm'⟩ := Nat.exists_eq_succ_of_ne_zero hm
                simp [hm', show 2 + (m + 1) = (m + 1) + 2 by omega]
            · rw [spaceRun_bs_other _ _ h2] at h0; exact absurd rfl h0
        · have hsep : nameSepAt prev' (c :: r) = 1 := by
            rw [nameSepAt_nbs _ _ hc] at hs0 ⊢
            split
            · rfl
            · rename_i h; simp [h] at hs0
          have hrun : spaceRun prev (c :: r) = 1 + spaceRun (some c) r := by
            rw [spaceRun_nbs _ _ hc] at h0 ⊢
            by_cases hw : isWs c = true
            · simp [hw]
            · by_cases ht : c = '~' ∧ prev ≠ some '\\'
              · simp [ht]
              · simp [hw, ht] at h0
          have hb : c ≠ '{' ∧ c ≠ '}' := by
            rw [spaceRun_nbs _ _ hc] at h0
            by_cases hw : isWs c = true
            · exact ⟨(ws_facts hw).2.1, (ws_facts hw).2.2.1⟩
            · by_cases ht : c = '~'
              · subst ht; exact ⟨by decide, by decide⟩
              · simp [hw, ht] at h0
          rw [aux_sep _ _ _ hb.1 hb.2 hs0, hsep]
          simp only [if_true, List.nil_append, Nat.sub_self]
          rw [hrun]
          have := ih r.length (by simp at hn; omega) r rfl (some c) (some c) Iff.rfl
          rw [this]
          by_cases hm : spaceRun (some c) r = 0
          · simp [hm]
          · obtain ⟨m, hm'⟩ := Nat.exists_eq_succ_of_ne_zero hm
            simp [hm', show 1 + (m + 1) = (m + 1) + 1 by omega]

/-- at a separator the collected token is emitted, whatever it is -/
theorem aux_emit (prev' : Option Char) (cur : Str) {c : Char} (r : Str)
    (h1 : c ≠ '{') (h2 : c ≠ '}') (h : nameSepAt prev' (c :: r) ≠ 0) :
    nameTokensAux 0 0 prev' cur (c :: r) =
      (if cur = [] then [] else [cur]) ++ nameTokensAux 0 0 prev' [] (c :: r) := by
  rw [aux_sep _ cur _ h1 h2 h, aux_sep _ [] _ h1 h2 h]
  simp

theorem filter_cons_ne (cur : Str) (L : List Str) :
    (cur :: L).filter (· ≠ []) = (if cur = [] then [] else [cur]) ++ L.filter (· ≠ []) := by
  by_cases h : cur = []
  · simp [h]
  · simp [h]

/-! ### the flat scan against the reference tokeniser (all strings) -/

theorem flat_filter_eq_aux (s : Str) : ∀ (d : Nat) (prev prev' : Option Char) (cur : Str),
    (d = 0 → (prev = some '\\' ↔ prev' = some '\\')) →
    (flat .space d prev cur s).filter (· ≠ []) = nameTokensAux d 0 prev' cur s := by
  induction hn : s.length using Nat.strongRecOn generalizing s with
  | _ n ih =>
    intro d prev prev' cur hp
    cases s with
    | nil =>
      rw [flat_nil, aux_nil]
      by_cases h : cur = [] <;> simp [h]
    | cons c r =>
      have ihr := ih r.length (by simp at hn; omega) r rfl
      by_cases h1 : c = '{'
      · subst h1
        rw [flat_open, aux_open]
        exact ihr _ _ _ _ (by omega)
      · by_cases h2 : c = '}'
        · subst h2
          rw [flat_close, aux_close]
          exact ihr _ _ _ _ (by intro _; simp)
        · by_cases hd : d = 0
          · subst hd
            have hp' := hp rfl
            by_cases hs : sepMatch .space prev (c :: r) = 0
            · rw [flat_char _ _ _ _ h1 h2 hs]
              have hs' : nameSepAt prev' (c :: r) = 0 :=
                (spaceRun_zero_iff prev prev' _ hp').1 hs
              rw [aux_char _ _ _ h1 h2 hs']
              exact ihr _ _ _ _ (by intro _; exact Iff.rfl)
            · rw [flat_sep _ _ _ _ h1 h2 hs, filter_cons_ne]
              have hs0 : spaceRun prev (c :: r) ≠ 0 := hs
              have hs' : nameSepAt prev' (c :: r) ≠ 0 :=
                fun h => hs0 ((spaceRun_zero_iff prev prev' _ hp').2 h)
              rw [aux_emit _ _ _ h1 h2 hs', aux_run (c :: r) prev prev' hp']
              simp only [hs0, if_false]
              have hlen : ((c :: r).drop (spaceRun prev (c :: r))).length < n := by
                simp only [List.length_drop]
                simp at hn; subst hn
                simp only [List.length_cons]
                omega
              have := ih _ hlen ((c :: r).drop (spaceRun prev (c :: r))) rfl 0
                ((c :: r)[spaceRun prev (c :: r) - 1]?) ((c :: r)[spaceRun prev (c :: r) - 1]?) []
                (fun _ => Iff.rfl)
              show _ ++ List.filter _ (flat .space 0 ((c :: r)[spaceRun prev (c :: r) - 1]?) []
                ((c :: r).drop (spaceRun prev (c :: r)))) = _
              rw [this]
          · rw [flat_deep _ _ _ _ hd h1 h2, aux_deep _ _ _ hd h1 h2]
            exact ihr _ _ _ _ (by intro h; exact absurd h hd)

/-! ### no raw piece of a balanced string starts or ends with white space -/

/-- neither the first nor the last character is white space -/
def Edges (p : Str) : Prop :=
  (∀ c, p.head? = some c → isWs c = false) ∧ (∀ c, p.getLast? = some c → isWs c = false)

theorem strip_of_edges {t : Str} (h : Edges t) : strip t = t := by
  obtain ⟨h1, h2⟩ := h
  cases t with
  | nil => rfl
  | cons c r =>
    have hc : isWs c = false := h1 c rfl
    have hl : lstrip (c :: r) = c :: r := by simp [lstrip, List.dropWhile, hc]
    unfold strip
    rw [hl]
    unfold rstrip
    have hne : (c :: r).reverse ≠ [] := by simp
    obtain ⟨x, xs, hx⟩ : ∃ x xs, (c :: r).reverse = x :: xs := by
      cases hr : (c :: r).reverse with
      | nil => exact absurd hr hne
      | cons x xs => exact ⟨x, xs, rfl⟩
    have hxl : (c :: r).getLast? = some x := by
      rw [← List.reverse_reverse (c :: r), hx]; simp
    have hxw : isWs x = false := h2 x hxl
    rw [hx]
    simp only [List.dropWhile, hxw]
    rw [← hx, List.reverse_reverse]

theorem spaceRun_ws (prev : Option Char) {c : Char} (r : Str) (h : isWs c = true) :
    spaceRun prev (c :: r) ≠ 0 := by
  rw [spaceRun_nbs _ _ (ws_facts h).1]
  simp [h]

/-- the characters of a separator run are no braces -/
theorem depthAfter_drop_run (x : Str) : ∀ (prev : Option Char) (d : Nat),
    depthAfter d (x.drop (spaceRun prev x)) = depthAfter d x := by
  induction hn : x.length using Nat.strongRecOn generalizing x with
  | _ n ih =>
    intro prev d
    cases x with
    | nil => simp
    | cons c r =>
      by_cases hc : c = '\\'
      · subst hc
        cases r with
        | nil => simp [spaceRun_bs_nil]
        | cons c2 r2 =>
          by_cases h2 : c2 = ' '
          · subst h2
            rw [spaceRun_bs_sp]
            have := ih r2.length (by simp at hn; omega) r2 rfl (some ' ') d
            rw [show 2 + spaceRun (some ' ') r2 = spaceRun (some ' ') r2 + 2 by omega]
            simp only [List.drop_succ_cons]
            rw [this]
            simp [depthAfter]
          · simp [spaceRun_bs_other _ _ h2]
      · rw [spaceRun_nbs _ _ hc]
        have := ih r.length (by simp at hn; omega) r rfl (some c) d
        by_cases hw : isWs c = true
        · simp only [hw, if_true]
          rw [show 1 + spaceRun (some c) r = spaceRun (some c) r + 1 by omega]
          simp only [List.drop_succ_cons]
          rw [this]
          have := ws_facts hw
          simp [depthAfter, this.2.1, this.2.2.1]
        · by_cases ht : c = '~' ∧ prev ≠ some '\\'
          · obtain ⟨rfl, hq⟩ := ht
            have h3 : (if isWs '~' = true then 1 + spaceRun (some '~') r
                else if '~' = '~' ∧ prev ≠ some '\\' then 1 + spaceRun (some '~') r else 0)
                = spaceRun (some '~') r + 1 := by
              simp [hq]; omega
            rw [h3]
            simp only [List.drop_succ_cons]
            rw [this]
            simp [depthAfter]
          · simp [hw, ht]

theorem edges_snoc {cur : Str} {c : Char}
    (hh : ∀ a, cur.head? = some a → isWs a = false) (hc : isWs c = false) :
    Edges (cur ++ [c]) := by
  constructor
  · intro a ha
    cases cur with
    | nil => simp at ha; subst ha; exact hc
    | cons a' t => simp at ha; subst ha; exact hh _ rfl
  · intro a ha
    simp at ha; subst ha; exact hc

theorem head_snoc_ne {cur : Str} (c : Char) (hne : cur ≠ [])
    (hh : ∀ a, cur.head? = some a → isWs a = false) :
    ∀ a, (cur ++ [c]).head? = some a → isWs a = false := by
  intro a ha
  cases cur with
  | nil => exact absurd rfl hne
  | cons a' t => simp at ha; subst ha; exact hh _ rfl

theorem flat_edges (s : Str) : ∀ (d : Nat) (prev : Option Char) (cur : Str),
    depthAfter d s = some 0 →
    (cur = [] → d = 0) →
    (∀ a, cur.head? = some a → isWs a = false) →
    (d = 0 → ∀ a, cur.getLast? = some a → isWs a = false) →
    ∀ p ∈ flat .space d prev cur s, Edges p := by
  induction hn : s.length using Nat.strongRecOn generalizing s with
  | _ n ih =>
    intro d prev cur hb he hh hl p hp
    cases s with
    | nil =>
      rw [flat_nil] at hp
      simp only [List.mem_singleton] at hp
      subst hp
      simp only [depthAfter, Option.some.injEq] at hb
      exact ⟨hh, hl hb⟩
    | cons c r =>
      have ihr := ih r.length (by simp at hn; omega) r rfl
      by_cases h1 : c = '{'
      · subst h1
        rw [flat_open] at hp
        have hE : Edges (cur ++ ['{']) := edges_snoc hh (by decide)
        refine ihr (d + 1) none _ ?_ (by simp) hE.1 (by omega) p hp
        simpa [depthAfter] using hb
      · by_cases h2 : c = '}'
        · subst h2
          rw [flat_close] at hp
          have hE : Edges (cur ++ ['}']) := edges_snoc hh (by decide)
          have hd : d ≠ 0 := by
            intro h; subst h; simp [depthAfter] at hb
          refine ihr (d - 1) none _ ?_ (by simp) hE.1 (fun _ => hE.2) p hp
          simpa [depthAfter, hd] using hb
        · have hb' : depthAfter d r = some 0 := by simpa [depthAfter, h1, h2] using hb
          by_cases hd : d = 0
          · subst hd
            by_cases hs : sepMatch .space prev (c :: r) = 0
            · rw [flat_char _ _ _ _ h1 h2 hs] at hp
              have hw : isWs c = false := by
                cases hw : isWs c with
                | false => rfl
                | true => exact absurd hs (spaceRun_ws prev r hw)
              have hE : Edges (cur ++ [c]) := edges_snoc hh hw
              exact ihr 0 (some c) _ hb' (by simp) hE.1 (fun _ => hE.2) p hp
            · rw [flat_sep _ _ _ _ h1 h2 hs] at hp
              rcases List.mem_cons.1 hp with rfl | hp
              · exact ⟨hh, hl rfl⟩
              · have hlen : ((c :: r).drop (sepMatch .space prev (c :: r))).length < n := by
                  simp only [List.length_drop]
                  simp at hn; subst hn
                  simp only [List.length_cons]
                  omega
                refine ih _ hlen _ rfl 0 _ [] ?_ (fun _ => rfl) (by simp) (by simp) p hp
                show depthAfter 0 ((c :: r).drop (spaceRun prev (c :: r))) = some 0
                rw [depthAfter_drop_run]; exact hb
          · rw [flat_deep _ _ _ _ hd h1 h2] at hp
            have hne : cur ≠ [] := fun h => hd (he h)
            exact ihr d none _ hb' (by simp) (head_snoc_ne c hne hh)
              (fun h => absurd h hd) p hp

/-! ### the theorem -/

/-- On every brace-balanced string the model of `split_tex_string` (default separator, stripped,
empty pieces dropped) is the one-pass tokeniser of the property text. -/
theorem splitTex_space_eq_nameTokens (s : Str) (hb : balanced s = true) :
    splitTex .space s = Spec.nameTokens s := by
  by_cases hne : s = []
  · subst hne; decide
  · have hb' : depthAfter 0 s = some 0 := by simpa [balanced] using hb
    have h1 : splitTex .space s = ((splitTexRaw .space s).map strip).filter (· ≠ []) := rfl
    rw [h1, splitTexRaw_flat .space s hb' hne]
    have hmap : (flat .space 0 none [] s).map strip = flat .space 0 none [] s := by
      conv => rhs; rw [← List.map_id (flat .space 0 none [] s)]
      apply List.map_congr_left
      intro p hp
      exact strip_of_edges (flat_edges s 0 none [] hb' (fun _ => rfl) (by simp) (by simp) p hp)
    rw [hmap]
    exact flat_filter_eq_aux s 0 none none [] (fun _ => Iff.rfl)

/-! ### the comma analogue -/

theorem flat_comma_eq_aux (s : Str) : ∀ (d : Nat) (prev : Option Char) (cur : Str),
    (flat .comma d prev cur s).map strip = nameCommaPartsAux d cur s := by
  induction s with
  | nil => intro d prev cur; rw [flat_nil, nameCommaPartsAux]; rfl
  | cons c r ih =>
    intro d prev cur
    by_cases h1 : c = '{'
    · subst h1; rw [flat_open, nameCommaPartsAux]; simp only [if_true]; exact ih _ _ _
    · by_cases h2 : c = '}'
      · subst h2; rw [flat_close, nameCommaPartsAux]
        simp only [show ('}' : Char) ≠ '{' by decide, if_false, if_true]; exact ih _ _ _
      · by_cases hd : d = 0
        · subst hd
          by_cases hc : c = ','
          · subst hc
            have hs : sepMatch .comma prev (',' :: r) = 1 := by simp [sepMatch]
            rw [flat_sep _ _ _ _ h1 h2 (by rw [hs]; decide), hs, nameCommaPartsAux]
            simp only [h1, if_false, if_true, and_self, List.map_cons, List.drop_succ_cons, List.drop_zero]
            rw [ih, if_neg h2]
          · have hs : sepMatch .comma prev (c :: r) = 0 := by simp [sepMatch, hc]
            rw [flat_char _ _ _ _ h1 h2 hs, nameCommaPartsAux]
            simp only [h1, h2, hc, if_false, and_false]
            exact ih _ _ _
        · rw [flat_deep _ _ _ _ hd h1 h2, nameCommaPartsAux]
          simp only [h1, h2, hd, if_false, false_and]
          exact ih _ _ _

/-- On every non-empty brace-balanced string the model of `split_tex_string` with separator `,`
is the one-pass comma split of the property text. -/
theorem splitTex_comma_eq_nameCommaParts (s : Str) (hb : balanced s = true) :
    splitTex .comma s = Spec.nameCommaParts s := by
  by_cases hne : s = []
  · subst hne; decide
  · have hb' : depthAfter 0 s = some 0 := by simpa [balanced] using hb
    have h1 : splitTex .comma s = (splitTexRaw .comma s).map strip := rfl
    rw [h1, splitTexRaw_flat .comma s hb' hne, flat_comma_eq_aux]
    simp [nameCommaParts, hne]

end Pybtex.C04T
