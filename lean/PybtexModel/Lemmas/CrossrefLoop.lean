/-
Helper lemmas for C14: the loop form of the lookup (`Model/CrossrefLoop.lean`, the code as it is
written now) equals the recursive form (`Model/Crossref.lean`) the property theorems talk about;
a visited set can only cut a lookup short.
-/
import PybtexModel.Lemmas.Crossref
import PybtexModel.Model.CrossrefLoop

namespace Pybtex
open Spec

/-- one step of the code, written out -/
theorem findCrossrefEntry_eq (bibData : Option BibData) (visited : List Str) (e : Entry) :
    findCrossrefEntry bibData visited e =
      match bibData with
      | none => none
      | some db =>
        match e.fields.getItem xrefName with
        | none => none
        | some x =>
          if visited.contains (lower x) then none
          else (db.entries.getItem x).map fun p => (p, lower x :: visited) := by
  unfold findCrossrefEntry
  cases bibData with
  | none => rfl
  | some db =>
    dsimp only
    cases hx : e.fields.getItem xrefName with
    | none => simp [CIDict.contains, dhas, CIDict.getItem] at hx ⊢
    | some x =>
      have : e.fields.contains xrefName = true := by
        simp only [CIDict.contains, dhas]; simp only [CIDict.getItem] at hx; simp [hx]
      simp only [this, Bool.not_true, Bool.false_eq_true, if_false]
      split
      · rfl
      · cases db.entries.getItem x <;> rfl

/-- one turn of the loop, written out -/
theorem findFieldLoop_eq (bibData : Option BibData) (visited : List Str) (e : Entry) (name : Str) :
    findFieldLoop bibData visited e name =
      match e.own name with
      | some v => some v
      | none =>
        match findCrossrefEntry bibData visited e with
        | none => none
        | some (p, visited') => findFieldLoop bibData visited' p name := by
  rw [findFieldLoop.eq_def]
  unfold Entry.own
  cases e.fields.getItem name with
  | some v => rfl
  | none =>
    dsimp only
    cases findPersonField e name with
    | some v => rfl
    | none =>
      dsimp only
      split <;> simp_all

theorem findFieldLoop_eq_findField (bibData : Option BibData) (visited : List Str) (e : Entry) (name : Str) :
    findFieldLoop bibData visited e name = findField bibData visited e name := by
  fun_induction findField bibData visited e name
  all_goals (rw [findFieldLoop_eq, findCrossrefEntry_eq]; simp_all [Entry.own])

/-- A visited set can only cut the lookup short: whatever a lookup that starts with the larger set
`V'` finds, the lookup that starts with any subset `V` of it finds too. -/
theorem findField_visited_cut (bibData : Option BibData) (V' : List Str) (e : Entry) (name : Str) :
    ∀ V : List Str, (∀ k, V.contains k = true → V'.contains k = true) →
      ∀ v, findField bibData V' e name = some v → findField bibData V e name = some v := by
  fun_induction findField bibData V' e name with
  | case1 V' e v0 h => intro V _ v hv; rw [findField_eq]; simp_all [Entry.own]
  | case2 V' e h1 v0 h2 => intro V _ v hv; rw [findField_eq]; simp_all [Entry.own]
  | case3 => intro V _ v hv; simp at hv
  | case4 => intro V _ v hv; simp at hv
  | case5 => intro V _ v hv; simp at hv
  | case6 => intro V _ v hv; simp at hv
  | case7 V' e h1 h2 db hbd x hx hv' p hp ih =>
    subst hbd
    intro V hsub v hv
    have hVx : V.contains (lower x) = false := by
      cases h : V.contains (lower x) with
      | false => rfl
      | true => exact absurd (hsub _ h) hv'
    rw [findField_eq]
    simp only [Entry.own, h1, h2, hx, hVx, hp]
    apply ih (lower x :: V) _ v hv
    intro k hk
    simp only [List.contains_cons, Bool.or_eq_true] at hk ⊢
    rcases hk with hk | hk
    · exact Or.inl hk
    · exact Or.inr (hsub k hk)
