/-
`split_tex_string` on EVERY string (balanced or not), after the repair of `_find_closing_brace`
(proposed_fixes/C12-1): the pieces are a split of the text at separator matches that lie at
brace level 0 (`SplitsTop`, level = saturating depth), and no brace-level-0 separator match is
left inside a piece (`topFree`, then `HasTopSep` of `Spec/TeXString.lean`).  Also: what
`strip` removes.
-/
import PybtexModel.Lemmas.TeXString

namespace Pybtex.TeXU
open Spec

/-! ### the separator matcher: what it depends on -/

theorem spaceRun_bs_space (prev : Option Char) (r' : Str) :
    spaceRun prev ('\\' :: ' ' :: r') = 2 + spaceRun (some ' ') r' := by
  rw [spaceRun.eq_2]; simp

theorem spaceRun_bs_other (prev : Option Char) (r : Str) (hr : ∀ r', r = ' ' :: r' → False) :
    spaceRun prev ('\\' :: r) = 0 := by
  rw [spaceRun.eq_3 _ _ _ hr]; simp

theorem spaceRun_ne_bs (prev : Option Char) {c : Char} (r : Str) (hc : ¬ c = '\\') :
    spaceRun prev (c :: r) =
      if isWs c = true then 1 + spaceRun (some c) r
      else if c = '~' ∧ prev ≠ some '\\' then 1 + spaceRun (some c) r else 0 := by
  rw [spaceRun.eq_def]; simp only [if_neg hc]

/-- the matcher looks at the previous character only to see whether it is a backslash -/
theorem spaceRun_prev (p1 p2 : Option Char) (h : p1 = some '\\' ↔ p2 = some '\\') (s : Str) :
    spaceRun p1 s = spaceRun p2 s := by
  cases s with
  | nil => simp [spaceRun]
  | cons c r =>
    by_cases hc : c = '\\'
    · subst hc
      rcases r with _ | ⟨c2, r2⟩
      · rw [spaceRun_bs_other _ _ (by simp), spaceRun_bs_other _ _ (by simp)]
      · by_cases h2 : c2 = ' '
        · subst h2; rw [spaceRun_bs_space, spaceRun_bs_space]
        · rw [spaceRun_bs_other _ _ (by simpa using h2), spaceRun_bs_other _ _ (by simpa using h2)]
    · rw [spaceRun_ne_bs _ _ hc, spaceRun_ne_bs _ _ hc]
      have : (p1 ≠ some '\\') ↔ (p2 ≠ some '\\') := not_congr h
      simp only [this]

theorem sepMatch_prev (sep : Sep) (p1 p2 : Option Char) (h : p1 = some '\\' ↔ p2 = some '\\') (s : Str) :
    sepMatch sep p1 s = sepMatch sep p2 s := by
  cases sep <;> simp only [sepMatch]
  exact spaceRun_prev p1 p2 h s

/-- looking further ahead can only add matches -/
theorem spaceRun_zero_of_append (prev : Option Char) (x y : Str) (h : spaceRun prev (x ++ y) = 0) :
    spaceRun prev x = 0 := by
  cases x with
  | nil => simp [spaceRun]
  | cons c r =>
    simp only [List.cons_append] at h
    by_cases hc : c = '\\'
    · subst hc
      rcases r with _ | ⟨c2, r2⟩
      · exact spaceRun_bs_other _ _ (by simp)
      · by_cases h2 : c2 = ' '
        · subst h2
          simp only [List.cons_append] at h
          rw [spaceRun_bs_space] at h; omega
        · exact spaceRun_bs_other _ _ (by simpa using h2)
    · rw [spaceRun_ne_bs _ _ hc] at h ⊢
      split
      · rename_i hw; rw [if_pos hw] at h; omega
      · rename_i hw
        rw [if_neg hw] at h
        split
        · rename_i ht; rw [if_pos ht] at h; omega
        · rfl

theorem isAndAt_of_prefix (x y : Str) (h : isAndAt x = true) : isAndAt (x ++ y) = true := by
  unfold isAndAt at h
  split at h
  · rename_i a n d r
    simp only [List.cons_append, isAndAt]
    exact h
  · cases h

theorem sepMatch_zero_of_append (sep : Sep) (prev : Option Char) (x y : Str)
    (h : sepMatch sep prev (x ++ y) = 0) : sepMatch sep prev x = 0 := by
  cases sep with
  | space => exact spaceRun_zero_of_append prev x y h
  | comma =>
    simp only [sepMatch] at h ⊢
    cases x with
    | nil => simp
    | cons c r => simpa using h
  | hyphen =>
    simp only [sepMatch] at h ⊢
    cases x with
    | nil => simp
    | cons c r => simpa using h
  | and =>
    simp only [sepMatch] at h ⊢
    split
    · rename_i hx
      rw [if_pos (isAndAt_of_prefix x y hx)] at h
      cases h
    · rfl

/-- an opening brace ends every look-ahead: nothing after it matters -/
theorem spaceRun_brace (prev : Option Char) (x z : Str) :
    spaceRun prev (x ++ '{' :: z) = spaceRun prev x := by
  match x with
  | [] =>
    rw [List.nil_append, spaceRun_ne_bs _ _ (by decide), spaceRun.eq_1]
    have h1 : isWs '{' = false := by decide
    simp [h1]
  | c :: r =>
    simp only [List.cons_append]
    by_cases hc : c = '\\'
    · subst hc
      rcases r with _ | ⟨c2, r2⟩
      · rw [List.nil_append, spaceRun_bs_other _ _ (by simp), spaceRun_bs_other _ _ (by simp)]
      · by_cases h2 : c2 = ' '
        · subst h2
          simp only [List.cons_append]
          rw [spaceRun_bs_space, spaceRun_bs_space, spaceRun_brace (some ' ') r2 z]
        · simp only [List.cons_append]
          rw [spaceRun_bs_other _ _ (by simpa using h2), spaceRun_bs_other _ _ (by simpa using h2)]
    · rw [spaceRun_ne_bs _ _ hc, spaceRun_ne_bs _ _ hc, spaceRun_brace (some c) r z]
termination_by x.length

theorem isAndAt_iff (s : Str) : isAndAt s = true ↔
    ∃ a n d tail, s = ' ' :: a :: n :: d :: ' ' :: tail ∧
      ((a = 'a' ∨ a = 'A') ∧ (n = 'n' ∨ n = 'N') ∧ (d = 'd' ∨ d = 'D')) := by
  unfold isAndAt
  split
  · rename_i a n d tail
    simp only [Bool.and_eq_true, Bool.or_eq_true, decide_eq_true_eq]
    constructor
    · intro h; exact ⟨a, n, d, tail, rfl, h.1.1, h.1.2, h.2⟩
    · rintro ⟨a', n', d', tail', heq, h1, h2, h3⟩
      simp only [List.cons.injEq, true_and] at heq
      obtain ⟨rfl, rfl, rfl, _⟩ := heq
      exact ⟨⟨h1, h2⟩, h3⟩
  · rename_i hno
    constructor
    · intro h; cases h
    · rintro ⟨a', n', d', tail', heq, _⟩
      exact absurd heq (hno _ _ _ _)

theorem isAndAt_brace (x z : Str) (hx : ∀ c ∈ x, c ≠ '{') : isAndAt (x ++ '{' :: z) = isAndAt x := by
  rw [Bool.eq_iff_iff, isAndAt_iff, isAndAt_iff]
  constructor
  · rintro ⟨a, n, d, tail, heq, h1, h2, h3⟩
    match x, hx with
    | [], _ => simp at heq
    | [x1], _ =>
      simp only [List.cons_append, List.nil_append, List.cons.injEq] at heq
      obtain ⟨_, rfl, _⟩ := heq
      rcases h1 with h1 | h1 <;> cases h1
    | [x1, x2], _ =>
      simp only [List.cons_append, List.nil_append, List.cons.injEq] at heq
      obtain ⟨_, _, rfl, _⟩ := heq
      rcases h2 with h2 | h2 <;> cases h2
    | [x1, x2, x3], _ =>
      simp only [List.cons_append, List.nil_append, List.cons.injEq] at heq
      obtain ⟨_, _, _, rfl, _⟩ := heq
      rcases h3 with h3 | h3 <;> cases h3
    | [x1, x2, x3, x4], _ =>
      simp only [List.cons_append, List.nil_append, List.cons.injEq] at heq
      obtain ⟨_, _, _, _, h5, _⟩ := heq
      cases h5
    | x1 :: x2 :: x3 :: x4 :: x5 :: r, _ =>
      simp only [List.cons_append, List.cons.injEq] at heq
      obtain ⟨rfl, rfl, rfl, rfl, rfl, _⟩ := heq
      exact ⟨_, _, _, r, rfl, h1, h2, h3⟩
  · rintro ⟨a, n, d, tail, rfl, h⟩
    exact ⟨a, n, d, tail ++ '{' :: z, by simp, h⟩

theorem sepMatch_brace (sep : Sep) (prev : Option Char) (x z : Str) (hx : ∀ c ∈ x, c ≠ '{') :
    sepMatch sep prev (x ++ '{' :: z) = sepMatch sep prev x := by
  cases sep with
  | space => exact spaceRun_brace prev x z
  | comma =>
    simp only [sepMatch]
    cases x with
    | nil => simp
    | cons c r => simp
  | hyphen =>
    simp only [sepMatch]
    cases x with
    | nil => simp
    | cons c r => simp
  | and => simp only [sepMatch, isAndAt_brace x z hx]

/-- a brace never starts a separator -/
theorem sepMatch_of_brace (sep : Sep) (prev : Option Char) (c : Char) (r : Str) (hc : c = '{' ∨ c = '}') :
    sepMatch sep prev (c :: r) = 0 := by
  have h1 : isWs '{' = false := by decide
  have h2 : isWs '}' = false := by decide
  cases sep with
  | space =>
    simp only [sepMatch]
    rcases hc with rfl | rfl
    · rw [spaceRun_ne_bs _ _ (by decide)]; simp [h1]
    · rw [spaceRun_ne_bs _ _ (by decide)]; simp [h2]
  | comma => rcases hc with rfl | rfl <;> simp [sepMatch]
  | hyphen => rcases hc with rfl | rfl <;> simp [sepMatch]
  | and =>
    simp only [sepMatch]
    rw [if_neg]
    rw [isAndAt_iff]
    rintro ⟨a, n, d, tail, heq, _⟩
    simp only [List.cons.injEq] at heq
    rcases hc with rfl | rfl <;> exact absurd heq.1 (by decide)

/-- the last character of a separator match is not a backslash -/
theorem spaceRun_last (prev : Option Char) (s : Str) (h : spaceRun prev s ≠ 0) :
    s[spaceRun prev s - 1]? ≠ some '\\' := by
  fun_induction spaceRun prev s with
  | case1 => exact absurd rfl h
  | case2 prev r' ih =>
    by_cases h0 : spaceRun (some ' ') r' = 0
    · simp [h0]
    · have := ih h0
      have e : 2 + spaceRun (some ' ') r' - 1 = (spaceRun (some ' ') r' - 1) + 2 := by omega
      rw [e]
      simpa using this
  | case3 => exact absurd rfl h
  | case4 prev c r hc hw ih =>
    by_cases h0 : spaceRun (some c) r = 0
    · simp [h0]; exact fun hh => hc hh
    · have := ih h0
      have e : 1 + spaceRun (some c) r - 1 = (spaceRun (some c) r - 1) + 1 := by omega
      rw [e]
      simpa using this
  | case5 prev c r hc hw ht ih =>
    by_cases h0 : spaceRun (some c) r = 0
    · simp [h0]; exact fun hh => hc hh
    · have := ih h0
      have e : 1 + spaceRun (some c) r - 1 = (spaceRun (some c) r - 1) + 1 := by omega
      rw [e]
      simpa using this
  | case6 => exact absurd rfl h

theorem sepMatch_last (sep : Sep) (prev : Option Char) (s : Str) (h : sepMatch sep prev s ≠ 0) :
    s[sepMatch sep prev s - 1]? ≠ some '\\' := by
  cases sep with
  | space => exact spaceRun_last prev s h
  | comma =>
    simp only [sepMatch] at h ⊢
    split at h
    · rename_i hh
      rw [if_pos hh]
      cases s with
      | nil => simp at hh
      | cons c r => simp at hh; simp [hh]
    · exact absurd rfl h
  | hyphen =>
    simp only [sepMatch] at h ⊢
    split at h
    · rename_i hh
      rw [if_pos hh]
      cases s with
      | nil => simp at hh
      | cons c r => simp at hh; simp [hh]
    · exact absurd rfl h
  | and =>
    simp only [sepMatch] at h ⊢
    split at h
    · rename_i hh
      rw [if_pos hh]
      unfold isAndAt at hh
      split at hh
      · simp
      · cases hh
    · exact absurd rfl h

/-! ### "no separator match starts at a brace-level-0 position" -/

/-- saturating depth after one character -/
def depthStep (d : Nat) (c : Char) : Nat := if c = '{' then d + 1 else if c = '}' then d - 1 else d

/-- no separator match starts at a brace-level-0 position of `x`; `d` = depth at the start of `x`
(saturating), `prev` = the character before `x`, `la` = the text after `x` (the matcher looks ahead) -/
def topFreeLA (sep : Sep) : Nat → Option Char → Str → Str → Bool
  | _, _, [], _ => true
  | d, prev, c :: r, la =>
    (decide (d ≠ 0) || decide (sepMatch sep prev (c :: r ++ la) = 0)) && topFreeLA sep (depthStep d c) (some c) r la

def topFree (sep : Sep) (x : Str) : Bool := topFreeLA sep 0 none x []

/-- the character before the text that follows `x` -/
def lastOr (prev : Option Char) (x : Str) : Option Char :=
  match x.getLast? with
  | some c => some c
  | none => prev

theorem lastOr_nil (prev : Option Char) : lastOr prev [] = prev := rfl
theorem lastOr_cons (prev : Option Char) (c : Char) (r : Str) : lastOr prev (c :: r) = lastOr (some c) r := by
  cases r with
  | nil => rfl
  | cons c2 r2 =>
    simp only [lastOr, List.getLast?_cons_cons]
    cases h : (c2 :: r2).getLast? with
    | none => simp at h
    | some x => rfl

theorem lastOr_append_singleton (prev : Option Char) (x : Str) (c : Char) : lastOr prev (x ++ [c]) = some c := by
  simp [lastOr]

theorem depthSat_cons (d : Nat) (c : Char) (r : Str) : depthSat d (c :: r) = depthSat (depthStep d c) r := by
  simp only [depthSat, depthStep]
  split
  · rfl
  · split <;> rfl

theorem topFreeLA_append (sep : Sep) (x y la : Str) : ∀ (d : Nat) (prev : Option Char),
    topFreeLA sep d prev (x ++ y) la =
      (topFreeLA sep d prev x (y ++ la) && topFreeLA sep (depthSat d x) (lastOr prev x) y la) := by
  induction x with
  | nil => intro d prev; simp [topFreeLA, depthSat, lastOr_nil]
  | cons c r ih =>
    intro d prev
    simp only [List.cons_append, topFreeLA, ih, depthSat_cons, lastOr_cons, List.append_assoc, Bool.and_assoc]

theorem topFreeLA_prev (sep : Sep) (p1 p2 : Option Char) (h : p1 = some '\\' ↔ p2 = some '\\') (d : Nat) (x la : Str) :
    topFreeLA sep d p1 x la = topFreeLA sep d p2 x la := by
  cases x with
  | nil => rfl
  | cons c r => simp only [topFreeLA, sepMatch_prev sep p1 p2 h]

/-- with less look-ahead there are fewer matches -/
theorem topFreeLA_mono (sep : Sep) (x la : Str) : ∀ (d : Nat) (prev : Option Char),
    topFreeLA sep d prev x la = true → topFreeLA sep d prev x [] = true := by
  induction x with
  | nil => intro d prev _; rfl
  | cons c r ih =>
    intro d prev h
    simp only [topFreeLA, Bool.and_eq_true, Bool.or_eq_true, decide_eq_true_eq, List.append_nil] at h ⊢
    refine ⟨?_, ih _ _ h.2⟩
    rcases h.1 with h1 | h1
    · exact Or.inl h1
    · exact Or.inr (sepMatch_zero_of_append sep prev (c :: r) la (by simpa using h1))

/-- the look-ahead stops at an opening brace -/
theorem topFreeLA_brace (sep : Sep) (x z : Str) : ∀ (d : Nat) (prev : Option Char), (∀ c ∈ x, c ≠ '{') →
    topFreeLA sep d prev x ('{' :: z) = topFreeLA sep d prev x [] := by
  induction x with
  | nil => intro d prev _; rfl
  | cons c r ih =>
    intro d prev hx
    simp only [topFreeLA, List.append_nil]
    rw [ih _ _ (fun y hy => hx y (List.mem_cons_of_mem _ hy))]
    rw [sepMatch_brace sep prev (c :: r) z hx]

/-- every position of `g` lies inside braces: the depth before each character is at least 1 -/
def staysIn : Nat → Str → Bool
  | _, [] => true
  | d, c :: r => decide (1 ≤ d) && staysIn (depthStep d c) r

theorem topFreeLA_of_staysIn (sep : Sep) (g la : Str) : ∀ (d : Nat) (prev : Option Char), staysIn d g = true →
    topFreeLA sep d prev g la = true := by
  induction g with
  | nil => intro d prev _; rfl
  | cons c r ih =>
    intro d prev h
    simp only [staysIn, Bool.and_eq_true, decide_eq_true_eq] at h
    simp only [topFreeLA, Bool.and_eq_true, Bool.or_eq_true, decide_eq_true_eq]
    exact ⟨Or.inl (by omega), ih _ _ h.2⟩

theorem depthSat_noOpen (x : Str) (hx : ∀ c ∈ x, c ≠ '{') : depthSat 0 x = 0 := by
  induction x with
  | nil => rfl
  | cons c r ih =>
    have hc := hx c (by simp)
    have := ih (fun y hy => hx y (List.mem_cons_of_mem _ hy))
    simp only [depthSat, if_neg hc]
    split <;> simpa using this

/-! ### the pieces of `re.split` contain no match -/

theorem topFree_of_LA (sep : Sep) (prev0 : Option Char) (hp : prev0 ≠ some '\\') (x la : Str)
    (h : topFreeLA sep 0 prev0 x la = true) : topFree sep x = true := by
  have := topFreeLA_mono sep x la 0 prev0 h
  rw [topFree, topFreeLA_prev sep none prev0 (by constructor <;> intro hh <;> [cases hh; exact absurd hh hp])]
  exact this

theorem reSplitAux_free (sep : Sep) : ∀ (fuel : Nat) (prev prev0 : Option Char) (cur s : Str), s.length < fuel →
    (∀ c ∈ cur ++ s, c ≠ '{') → prev0 ≠ some '\\' → prev = lastOr prev0 cur →
    topFreeLA sep 0 prev0 cur s = true →
    ∀ q ∈ reSplitAux sep fuel prev cur s, topFree sep q = true := by
  intro fuel
  induction fuel with
  | zero => intro _ _ _ s h; omega
  | succ fuel ih =>
    intro prev prev0 cur s hlen hno hp hprev hfree q hq
    cases s with
    | nil =>
      simp only [reSplitAux, List.mem_singleton] at hq
      subst hq
      exact topFree_of_LA sep prev0 hp _ _ hfree
    | cons c r =>
      simp only [reSplitAux] at hq
      split at hq
      · rename_i hn
        refine ih (some c) prev0 (cur ++ [c]) r (by simpa using hlen) (by simpa using hno) hp
          (lastOr_append_singleton _ _ _).symm ?_ q hq
        rw [topFreeLA_append]
        have hcur : depthSat 0 cur = 0 := depthSat_noOpen cur (fun x hx => hno x (by simp [hx]))
        simp only [List.singleton_append, hfree, Bool.true_and, hcur, ← hprev]
        simp only [topFreeLA, Bool.and_true, Bool.or_eq_true, decide_eq_true_eq]
        exact Or.inr (by simpa using hn)
      · rename_i hn
        rcases List.mem_cons.1 hq with rfl | hq
        · exact topFree_of_LA sep prev0 hp _ _ hfree
        · have hle := sepMatch_le sep prev (c :: r)
          refine ih _ ((c :: r)[sepMatch sep prev (c :: r) - 1]?) [] _ ?_ ?_ (sepMatch_last sep prev (c :: r) hn)
            (lastOr_nil _).symm rfl q hq
          · simp only [List.length_drop, List.length_cons] at hlen hle ⊢; omega
          · intro x hx
            simp only [List.nil_append] at hx
            exact hno x (List.mem_append_right _ (List.mem_of_mem_drop hx))

theorem reSplit_free (sep : Sep) (head : Str) (hno : ∀ c ∈ head, c ≠ '{') :
    ∀ q ∈ reSplit sep head, topFree sep q = true :=
  reSplitAux_free sep (head.length + 1) none none [] head (by omega) (by simpa using hno) (by simp) rfl rfl

/-! ### `_find_closing_brace` on every string (after the repair) -/

/-- the text `g` consumed by `_find_closing_brace` lies inside the group (`staysIn`); either
nothing is left, or `g` ends with the brace that closes the group -/
theorem fcbAux_sat (s : Str) : ∀ (level : Nat) (acc pending : Str), 1 ≤ level →
    ∃ g, (fcbAux level acc pending s).1 = acc ++ pending ++ g ∧ s = g ++ (fcbAux level acc pending s).2 ∧
      staysIn level g = true ∧
      ((fcbAux level acc pending s).2 = [] ∨ (depthSat level g = 0 ∧ ∃ g0, g = g0 ++ ['}'])) := by
  induction s with
  | nil => intro level acc pending _; exact ⟨[], by simp [fcbAux], by simp [fcbAux], rfl, Or.inl (by simp [fcbAux])⟩
  | cons c r ih =>
    intro level acc pending hl
    simp only [fcbAux]
    by_cases hc : c = '{'
    · simp only [if_pos hc]
      obtain ⟨g, h1, h2, h3, h4⟩ := ih (level + 1) (acc ++ pending ++ [c]) [] (by omega)
      refine ⟨c :: g, by rw [h1]; simp, congrArg (List.cons c) h2, ?_, ?_⟩
      · simp only [staysIn, depthStep, if_pos hc, h3, Bool.and_true, decide_eq_true_eq]; exact hl
      · rcases h4 with h4 | ⟨h4, g0, rfl⟩
        · exact Or.inl h4
        · exact Or.inr ⟨by rw [depthSat_cons]; simpa [depthStep, hc] using h4, c :: g0, rfl⟩
    · simp only [if_neg hc]
      by_cases hc' : c = '}'
      · simp only [if_pos hc']
        by_cases hl1 : level ≤ 1
        · simp only [if_pos hl1]
          have : level = 1 := by omega
          subst this
          refine ⟨[c], by simp, by simp, by simp [staysIn], Or.inr ⟨?_, [], by simp [hc']⟩⟩
          simp [depthSat, hc']
        · simp only [if_neg hl1]
          obtain ⟨g, h1, h2, h3, h4⟩ := ih (level - 1) (acc ++ pending ++ [c]) [] (by omega)
          refine ⟨c :: g, by rw [h1]; simp, congrArg (List.cons c) h2, ?_, ?_⟩
          · simp only [staysIn, depthStep, if_neg hc, if_pos hc', h3, Bool.and_true, decide_eq_true_eq]; exact hl
          · rcases h4 with h4 | ⟨h4, g0, rfl⟩
            · exact Or.inl h4
            · exact Or.inr ⟨by rw [depthSat_cons]; simpa [depthStep, hc, hc'] using h4, c :: g0, rfl⟩
      · simp only [if_neg hc']
        obtain ⟨g, h1, h2, h3, h4⟩ := ih level acc (pending ++ [c]) hl
        refine ⟨c :: g, by rw [h1]; simp, congrArg (List.cons c) h2, ?_, ?_⟩
        · simp only [staysIn, depthStep, if_neg hc, if_neg hc', h3, Bool.and_true, decide_eq_true_eq]; exact hl
        · rcases h4 with h4 | ⟨h4, g0, rfl⟩
          · exact Or.inl h4
          · exact Or.inr ⟨by rw [depthSat_cons]; simpa [depthStep, hc, hc'] using h4, c :: g0, rfl⟩

/-! ### `SplitsTop` -/

theorem _root_.Pybtex.Spec.SplitsTop.ne_nil {isSep : Str → Bool} {s : Str} {L : List Str} (h : SplitsTop isSep s L) : L ≠ [] := by
  cases h <;> simp

theorem _root_.Pybtex.Spec.SplitsTop.toSplitsTo {isSep : Str → Bool} {s : Str} {L : List Str} (h : SplitsTop isSep s L) :
    SplitsTo isSep s L := by
  induction h with
  | one p => exact SplitsTo.one p
  | cons p m rest ps hm _ _ ih => exact SplitsTo.cons p m rest ps hm ih

theorem _root_.Pybtex.Spec.SplitsTo.toTop {isSep : Str → Bool} {s : Str} {L : List Str} (h : SplitsTo isSep s L)
    (hs : ∀ c ∈ s, c ≠ '{') : SplitsTop isSep s L := by
  induction h with
  | one p => exact SplitsTop.one p
  | cons p m rest ps hm _ ih =>
    refine SplitsTop.cons p m rest ps hm (depthSat_noOpen p (fun c hc => hs c (by simp [hc]))) (ih ?_)
    intro c hc; exact hs c (by simp [hc])

theorem _root_.Pybtex.Spec.SplitsTop.prepend {isSep : Str → Bool} {s p : Str} {ps : List Str} (x : Str)
    (h : SplitsTop isSep s (p :: ps)) (hx : depthSat 0 x = 0 ∨ ps = []) :
    SplitsTop isSep (x ++ s) ((x ++ p) :: ps) := by
  cases h with
  | one => exact SplitsTop.one _
  | cons _ m rest _ hm hd hr =>
    have hx0 : depthSat 0 x = 0 := by
      rcases hx with hx | hx
      · exact hx
      · exact absurd hx hr.ne_nil
    have := SplitsTop.cons (x ++ p) m rest ps hm (by rw [depthSat_append, hx0, hd]) hr
    simpa using this

theorem _root_.Pybtex.Spec.SplitsTop.cons_inv {isSep : Str → Bool} {x p : Str} {ps : List Str}
    (h : SplitsTop isSep x (p :: ps)) (hne : ps ≠ []) :
    ∃ m rest, x = p ++ m ++ rest ∧ isSep m = true ∧ depthSat 0 p = 0 ∧ SplitsTop isSep rest ps := by
  cases h with
  | one => exact absurd rfl hne
  | cons _ m rest _ hm hd hr => exact ⟨m, rest, rfl, hm, hd, hr⟩

theorem _root_.Pybtex.Spec.SplitsTop.singleton_inv {isSep : Str → Bool} {x a : Str} (h : SplitsTop isSep x [a]) : x = a := by
  cases h with
  | one => rfl
  | cons _ m rest ps hm _ hr => exact absurd rfl hr.ne_nil

/-- the last part of a split glued to the first part of the next one -/
theorem _root_.Pybtex.Spec.SplitsTop.merge {isSep : Str → Bool} {y b : Str} {B : List Str} (hy : SplitsTop isSep y (b :: B)) :
    ∀ {A : List Str} {x a : Str}, SplitsTop isSep x (A ++ [a]) → (depthSat 0 a = 0 ∨ B = []) →
      SplitsTop isSep (x ++ y) (A ++ (a ++ b) :: B) := by
  intro A
  induction A with
  | nil =>
    intro x a hx ha
    have := hx.singleton_inv
    subst this
    exact hy.prepend _ ha
  | cons p A ih =>
    intro x a hx ha
    obtain ⟨m, rest, rfl, hm, hd, hr⟩ := hx.cons_inv (by simp)
    have := SplitsTop.cons p m _ _ hm hd (ih hr ha)
    simpa using this

theorem sepPred_nil (sep : Sep) : sepPred sep [] = false := by
  cases sep <;> simp [sepPred, isSpaceSep, isAndSep]

theorem _root_.Pybtex.Spec.SplitsTop.of_nil' {sep : Sep} {s : Str} {L : List Str} (h : SplitsTop (sepPred sep) s L)
    (hs : s = []) : L = [[]] := by
  cases h with
  | one p => subst hs; rfl
  | cons p m rest ps hm _ _ =>
    have : m = [] := by
      have := congrArg List.length hs
      simp only [List.length_append, List.length_nil] at this
      exact List.eq_nil_of_length_eq_zero (by omega)
    subst this
    rw [sepPred_nil] at hm; cases hm

theorem _root_.Pybtex.Spec.SplitsTop.of_nil {sep : Sep} {L : List Str} (h : SplitsTop (sepPred sep) [] L) : L = [[]] :=
  h.of_nil' rfl

theorem mem_takeWhile_prop {α} {p : α → Bool} {l : List α} {a : α} (h : a ∈ l.takeWhile p) : p a = true := by
  induction l with
  | nil => simp at h
  | cons x xs ih =>
    simp only [List.takeWhile_cons] at h
    split at h
    · rename_i hx
      rcases List.mem_cons.1 h with rfl | h
      · exact hx
      · exact ih h
    · simp at h

/-! ### the main loop on every string -/

/-- what `headStep` does in terms of the split of the head, with the pieces free of matches -/
theorem headStep_spec' (sep : Sep) (head : Str) (wp : Option Str) (hno : ∀ c ∈ head, c ≠ '{') :
    ∃ (A : List Str) (a : Str), SplitsTo (sepPred sep) head (A ++ [a]) ∧
      (∀ q ∈ A ++ [a], topFree sep q = true) ∧
      ((A = [] ∧ (headStep sep head [] wp).1 = [] ∧ preOf (headStep sep head [] wp).2 = preOf wp ++ a ∧
          ((headStep sep head [] wp).2 = none → wp = none ∧ head = [])) ∨
       (∃ p A', A = p :: A' ∧ (headStep sep head [] wp).1 = (preOf wp ++ p) :: A' ∧
          (headStep sep head [] wp).2 = some a)) := by
  by_cases hh : head = []
  · subst hh
    refine ⟨[], [], SplitsTo.one [], by simp [topFree, topFreeLA], Or.inl ⟨rfl, ?_, ?_, ?_⟩⟩ <;> simp [headStep]
  · have hsp := reSplit_spec sep head
    have hfree := reSplit_free sep head hno
    unfold headStep
    rw [if_pos hh]
    cases hr : reSplit sep head with
    | nil => rw [hr] at hsp; exact absurd rfl hsp.ne_nil
    | cons p ps =>
      rw [hr] at hsp hfree
      cases ps with
      | nil =>
        exact ⟨[], p, hsp, by simpa using hfree, Or.inl ⟨rfl, rfl, rfl, by simp⟩⟩
      | cons q qs =>
        have hne : q :: qs ≠ [] := by simp
        refine ⟨p :: (q :: qs).dropLast, (q :: qs).getLast hne, ?_, ?_, Or.inr ⟨p, (q :: qs).dropLast, rfl, ?_, ?_⟩⟩
        · rw [List.cons_append, List.dropLast_concat_getLast hne]; exact hsp
        · rw [List.cons_append, List.dropLast_concat_getLast hne]; exact hfree
        · simp
        · simp only []
          exact List.getLast?_eq_some_getLast hne

theorem topFree_nil (sep : Sep) : topFree sep [] = true := rfl

/-- a piece of the head, a whole group and the first piece of what follows, glued -/
theorem topFree_glue (sep : Sep) (a g p2 : Str) (ha : ∀ c ∈ a, c ≠ '{') (hfa : topFree sep a = true)
    (hg : staysIn 1 g = true) (hp2 : topFree sep p2 = true)
    (hcl : p2 = [] ∨ (depthSat 1 g = 0 ∧ ∃ g0, g = g0 ++ ['}'])) :
    topFree sep (a ++ ('{' :: g ++ p2)) = true := by
  rw [topFree, topFreeLA_append, List.append_nil, List.cons_append, topFreeLA_brace sep a _ 0 none ha]
  rw [topFree] at hfa
  rw [hfa, Bool.true_and, depthSat_noOpen a ha]
  simp only [topFreeLA, List.append_nil]
  rw [sepMatch_of_brace sep _ '{' _ (Or.inl rfl)]
  simp only [decide_true, Bool.or_true, Bool.true_and, depthStep, if_true]
  rw [topFreeLA_append, topFreeLA_of_staysIn sep g _ 1 _ hg, Bool.true_and]
  rcases hcl with rfl | ⟨h0, g0, rfl⟩
  · rfl
  · rw [h0, lastOr_append_singleton]
    rw [topFree] at hp2
    rw [topFreeLA_prev sep (some '}') none (by constructor <;> intro hh <;> cases hh)]
    exact hp2

theorem splitLoop_gen (sep : Sep) : ∀ (fuel : Nat) (s : Str) (wp : Option Str), s.length < fuel →
    (s ≠ [] ∨ wp ≠ none) →
    ∃ p ps, splitLoop sep fuel s [] wp = (preOf wp ++ p) :: ps ∧
      SplitsTop (sepPred sep) s (p :: ps) ∧ ∀ q ∈ p :: ps, topFree sep q = true := by
  intro fuel
  induction fuel with
  | zero => intro s _ h; omega
  | succ fuel ih =>
    intro s wp hlen hne
    rw [splitLoop_succ]
    have hs : s = s.takeWhile (· ≠ '{') ++ s.dropWhile (· ≠ '{') := List.takeWhile_append_dropWhile.symm
    have hplain : ∀ c ∈ s.takeWhile (· ≠ '{'), c ≠ '{' := by
      intro c hc
      have := mem_takeWhile_prop hc
      simpa using this
    obtain ⟨A, a, hA, hAfree, hcase⟩ := headStep_spec' sep (s.takeWhile (· ≠ '{')) wp hplain
    have hAtop := hA.toTop hplain
    have ha : ∀ c ∈ a, c ≠ '{' := fun c hc => hplain c (hA.mem_of_mem a (by simp) c hc)
    generalize hhead : s.takeWhile (· ≠ '{') = head at *
    generalize hst : headStep sep head [] wp = st at *
    cases hd : s.dropWhile (· ≠ '{') with
    | nil =>
      rw [hd, List.append_nil] at hs
      simp only []
      rcases hcase with ⟨rfl, h1, h2, h3⟩ | ⟨p, A', rfl, h1, h2⟩
      · cases hst2 : st.2 with
        | none =>
          obtain ⟨hw, hh⟩ := h3 hst2
          rcases hne with hne | hne
          · exact absurd (hs.trans hh) hne
          · exact absurd hw hne
        | some w =>
          rw [hst2, preOf_some] at h2
          refine ⟨a, [], ?_, ?_, hAfree⟩
          · simp only [finish, h1, h2, List.nil_append]
          · rw [hs]; exact hAtop
      · refine ⟨p, A' ++ [a], ?_, ?_, hAfree⟩
        · simp only [finish, h1, h2, List.cons_append]
        · rw [hs]; exact hAtop
    | cons c rest =>
      rw [hd] at hs
      have hc : c = '{' := by
        have : (s.dropWhile (· ≠ '{')).head? = some c := by rw [hd]; rfl
        have := List.head?_dropWhile_not (fun x => decide (x ≠ '{')) s
        rw [hd] at this
        simpa using this
      subst hc
      obtain ⟨g, hg1, hg2, hg3, hg4⟩ := fcbAux_sat rest 1 [] [] (Nat.le_refl 1)
      simp only [List.nil_append] at hg1
      have hfc1 : (findClosingBrace rest).1 = g := hg1
      have hfc2 : rest = g ++ (findClosingBrace rest).2 := hg2
      replace hg4 : (findClosingBrace rest).2 = [] ∨ (depthSat 1 g = 0 ∧ ∃ g0, g = g0 ++ ['}']) := hg4
      clear hg1 hg2
      simp only []
      rw [hfc1]
      generalize htail : (findClosingBrace rest).2 = tail at *
      have htl : tail.length < fuel := by
        have h1 := congrArg List.length hs
        have h2 := congrArg List.length hfc2
        simp only [List.length_append, List.length_cons] at h1 h2
        omega
      obtain ⟨p2, ps2, h5, h6, h7⟩ := ih tail (some (preOf st.2 ++ ['{'] ++ g)) htl (Or.inr (by simp))
      rw [splitLoop_acc, h5]
      -- when nothing is left after the group there is exactly one (empty) further piece
      have hend : tail = [] → p2 = [] ∧ ps2 = [] := by
        intro ht
        subst ht
        have := h6.of_nil
        simp only [List.cons.injEq] at this
        exact this
      have hcl : p2 = [] ∨ (depthSat 1 g = 0 ∧ ∃ g0, g = g0 ++ ['}']) := by
        rcases hg4 with h | h
        · exact Or.inl (hend h).1
        · exact Or.inr h
      have hcl' : depthSat 0 ('{' :: g) = 0 ∨ ps2 = [] := by
        rcases hg4 with h | h
        · exact Or.inr (hend h).2
        · left; rw [depthSat_cons]; simpa [depthStep] using h.1
      have hy : SplitsTop (sepPred sep) (('{' :: g) ++ tail) ((('{' :: g) ++ p2) :: ps2) := h6.prepend _ hcl'
      have ha0 : depthSat 0 a = 0 := depthSat_noOpen a ha
      have hm := hy.merge hAtop (Or.inl ha0)
      have hs' : s = head ++ (('{' :: g) ++ tail) := by rw [hs, hfc2]; simp
      rw [← hs'] at hm
      have hglue : topFree sep (a ++ (('{' :: g) ++ p2)) = true :=
        topFree_glue sep a g p2 ha (hAfree a (by simp)) hg3 (h7 p2 (by simp)) hcl
      rcases hcase with ⟨rfl, h1, h2, h3⟩ | ⟨p, A', rfl, h1, h2⟩
      · refine ⟨a ++ (('{' :: g) ++ p2), ps2, ?_, by simpa using hm, ?_⟩
        · simp only [preOf_some, h1, h2, List.nil_append, List.append_assoc, List.cons_append]
        · intro q hq
          rcases List.mem_cons.1 hq with rfl | hq
          · exact hglue
          · exact h7 q (List.mem_cons_of_mem _ hq)
      · refine ⟨p, A' ++ (a ++ (('{' :: g) ++ p2)) :: ps2, ?_, by simpa using hm, ?_⟩
        · simp only [preOf_some, h1, h2, List.nil_append, List.append_assoc, List.cons_append]
        · intro q hq
          simp only [List.mem_cons, List.mem_append] at hq
          rcases hq with rfl | hq | rfl | hq
          · exact hAfree _ (by simp)
          · exact hAfree q (by simp [hq])
          · exact hglue
          · exact h7 q (List.mem_cons_of_mem _ hq)

/-! ### from the checker to the reference notion -/

/-- the reference matcher of each separator of the package -/
def matchAfterOf : Sep → Str → Str → Bool
  | .space => spaceMatchAfter
  | .comma => commaMatchAfter
  | .hyphen => hyphenMatchAfter
  | .and => andMatchAfter

theorem lastOr_none_ne_backslash (a : Str) (h : a.getLast? ≠ some '\\') : lastOr none a ≠ some '\\' := by
  unfold lastOr
  cases hl : a.getLast? with
  | none => simp
  | some c => rw [hl] at h; simpa using h

/-- a reference match is found by the matcher of the model -/
theorem sepMatch_of_matchAfter (sep : Sep) (a m b : Str) (h : matchAfterOf sep a m = true) :
    sepMatch sep (lastOr none a) (m ++ b) ≠ 0 := by
  cases sep with
  | space =>
    simp only [matchAfterOf, spaceMatchAfter] at h
    split at h
    · rename_i c
      simp only [sepMatch, List.singleton_append]
      simp only [Bool.or_eq_true, Bool.and_eq_true, decide_eq_true_eq] at h
      rcases h with hw | ⟨rfl, hl⟩
      · have hc : ¬ c = '\\' := by rintro rfl; revert hw; decide
        rw [spaceRun_ne_bs _ _ hc, if_pos hw]; omega
      · have hw : isWs '~' = false := by decide
        rw [spaceRun_ne_bs _ _ (by decide)]
        simp only [hw, Bool.false_eq_true, if_false]
        rw [if_pos ⟨trivial, lastOr_none_ne_backslash a hl⟩]; omega
    · cases h
  | comma =>
    simp only [matchAfterOf, commaMatchAfter, beq_iff_eq] at h
    subst h; simp [sepMatch]
  | hyphen =>
    simp only [matchAfterOf, hyphenMatchAfter, beq_iff_eq] at h
    subst h; simp [sepMatch]
  | and =>
    simp only [matchAfterOf, andMatchAfter] at h
    unfold isAndSep at h
    split at h
    · rename_i x n d
      simp only [sepMatch, List.cons_append, List.nil_append]
      rw [if_pos]
      · omega
      · rw [isAndAt_iff]
        simp only [Bool.and_eq_true, Bool.or_eq_true, decide_eq_true_eq] at h
        exact ⟨x, n, d, b, rfl, h.1.1, h.1.2, h.2⟩
    · cases h

theorem matchAfter_ne_nil (sep : Sep) (a m : Str) (h : matchAfterOf sep a m = true) : m ≠ [] := by
  rintro rfl
  cases sep <;> simp [matchAfterOf, spaceMatchAfter, commaMatchAfter, hyphenMatchAfter, andMatchAfter, isAndSep] at h

theorem not_hasTopSep_of_topFree (sep : Sep) (q : Str) (h : topFree sep q = true) :
    ¬ HasTopSep (matchAfterOf sep) q := by
  rintro ⟨a, m, b, rfl, hd, hm⟩
  rw [topFree, List.append_assoc, topFreeLA_append, Bool.and_eq_true, hd] at h
  have h2 := h.2
  have hne := sepMatch_of_matchAfter sep a m b hm
  cases hmb : m ++ b with
  | nil =>
    have : m = [] := by
      cases m with
      | nil => rfl
      | cons x y => simp at hmb
    exact matchAfter_ne_nil sep a m hm this
  | cons c r =>
    rw [hmb] at h2 hne
    simp only [topFreeLA, List.append_nil, Bool.and_eq_true, Bool.or_eq_true, decide_eq_true_eq] at h2
    rcases h2.1 with h3 | h3
    · exact h3 rfl
    · exact hne h3

/-! ### `str.strip()` -/

theorem all_takeWhile {α} (p : α → Bool) (l : List α) : (l.takeWhile p).all p = true := by
  rw [List.all_eq_true]; intro x hx; exact mem_takeWhile_prop hx

/-- `strip` removes white space at the two ends and nothing else -/
theorem strip_decomp (p : Str) : ∃ l r, p = l ++ strip p ++ r ∧ l.all isWs = true ∧ r.all isWs = true := by
  refine ⟨p.takeWhile isWs, ((p.dropWhile isWs).reverse.takeWhile isWs).reverse, ?_, all_takeWhile _ _, ?_⟩
  · have h1 : p = p.takeWhile isWs ++ p.dropWhile isWs := List.takeWhile_append_dropWhile.symm
    have h2 : (p.dropWhile isWs).reverse = (p.dropWhile isWs).reverse.takeWhile isWs ++ (p.dropWhile isWs).reverse.dropWhile isWs :=
      List.takeWhile_append_dropWhile.symm
    have h3 := congrArg List.reverse h2
    simp only [List.reverse_reverse, List.reverse_append] at h3
    simp only [strip, rstrip, lstrip, List.append_assoc]
    rw [← h3]; exact h1
  · rw [List.all_reverse]; exact all_takeWhile _ _

theorem isWs_not_brace {c : Char} (h : isWs c = true) : c ≠ '{' ∧ c ≠ '}' := by
  constructor <;> rintro rfl <;> revert h <;> decide

theorem depthAfter_ws (l : Str) (hl : l.all isWs = true) (d : Nat) : depthAfter d l = some d :=
  depthAfter_plain l (fun c hc => isWs_not_brace (List.all_eq_true.1 hl c hc)) d

/-- stripping keeps a part balanced -/
theorem balanced_strip (p : Str) (h : balanced p = true) : balanced (strip p) = true := by
  obtain ⟨l, r, hp, hl, hr⟩ := strip_decomp p
  simp only [balanced, decide_eq_true_eq] at h ⊢
  rw [hp, depthAfter_append, depthAfter_append, depthAfter_ws l hl] at h
  simp only [Option.bind_some] at h
  cases hs : depthAfter 0 (strip p) with
  | none => rw [hs] at h; simp at h
  | some e =>
    rw [hs] at h
    simp only [Option.bind_some, depthAfter_ws r hr] at h
    exact h

end Pybtex.TeXU
