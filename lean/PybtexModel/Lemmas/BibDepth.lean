/-
C10, helper file 3: the `BibTeXError('too many nested braces')` of `Person()` is unreachable
from the `.bib` reader when the initial macro values are well nested.

* `split_tex_string` keeps the brace skeleton: every piece is a segment of the input;
* a segment of a well nested string passes the nesting guard of `scan_bibtex_string`;
* processing a command whose values are well nested never raises `nameTooDeep`; the command loop.
-/
import PybtexModel.Lemmas.BibNest
import PybtexModel.Lemmas.Names
import PybtexModel.Lemmas.TeXString

namespace Pybtex.Bib
open Pybtex.Spec
theorem maxDepth_braces (d : Nat) (s : Str) : maxDepth d (braces s) = maxDepth d s := by
  induction s generalizing d with
  | nil => rfl
  | cons c r ih =>
    by_cases h1 : c = '{'
    · subst h1; rw [braces_cons_brace (by decide)]; simp only [maxDepth, if_true, ih]
    · by_cases h2 : c = '}'
      · subst h2; rw [braces_cons_brace (by decide)]
        simp only [maxDepth, if_true, ih]
      · rw [braces_cons_plain (isBrace_false h1 h2)]
        simp only [maxDepth, if_neg h1, if_neg h2, ih]
        have := le_maxDepth r d
        omega

/-- the guard of `scan_bibtex_string` (which lets an unmatched `}` pass at depth 0) is met by
every piece of a well nested string, from any lower starting depth -/
theorem maxDepth_of_profOK (d d' : Nat) (s : Str) (h : profOK d s = true) (hd : d ≤ 100) (hd' : d' ≤ d) :
    maxDepth d' s ≤ 100 := by
  induction s generalizing d d' with
  | nil => simp only [maxDepth]; omega
  | cons c r ih =>
    simp only [profOK] at h
    simp only [maxDepth]
    split at h
    · simp only [Bool.and_eq_true, decide_eq_true_eq] at h
      rw [if_pos ‹_›]
      have := ih (d + 1) (d' + 1) h.2 h.1 (by omega)
      omega
    · split at h
      · simp only [Bool.and_eq_true, decide_eq_true_eq] at h
        rw [if_neg ‹_›, if_pos ‹_›]
        have := ih (d - 1) (d' - 1) h.2 (by omega) (by omega)
        omega
      · rw [if_neg ‹_›, if_neg ‹_›]
        have := ih d d' h hd hd'
        omega

/-- `u`'s brace skeleton is a contiguous part of `s`'s -/
def Seg (u s : Str) : Prop := ∃ a b, braces s = a ++ braces u ++ b

theorem Seg.refl (s : Str) : Seg s s := ⟨[], [], by simp⟩

theorem Seg.of_eq {u s : Str} (h : braces u = braces s) : Seg u s := ⟨[], [], by simp [h]⟩

theorem Seg.trans {u v s : Str} (h1 : Seg u v) (h2 : Seg v s) : Seg u s := by
  obtain ⟨a, b, h1⟩ := h1
  obtain ⟨a', b', h2⟩ := h2
  exact ⟨a' ++ a, b ++ b', by rw [h2, h1]; simp [List.append_assoc]⟩

theorem braces_flatten (l : List Str) : braces l.flatten = (l.map braces).flatten := by
  induction l with
  | nil => rfl
  | cons x l ih => simp [braces_append, ih]

theorem Seg.of_mem_flatten {p : Str} {l : List Str} (h : p ∈ l) : Seg p l.flatten := by
  obtain ⟨l1, l2, rfl⟩ := List.append_of_mem h
  exact ⟨braces l1.flatten, braces l2.flatten, by simp [braces_append]⟩

theorem Seg.of_prefix {x s : Str} (h : braces x <+: braces s) : Seg x s := by
  obtain ⟨b, hb⟩ := h
  exact ⟨[], b, by simp [hb]⟩

/-- a piece of a well nested string passes the nesting guard -/
theorem maxDepth_of_seg {u s : Str} (h : Seg u s) (hs : profOK 0 s = true) : maxDepth 0 u ≤ 100 := by
  obtain ⟨a, b, h⟩ := h
  rw [← profOK_braces, h, List.append_assoc, profOK_append, profOK_append] at hs
  simp only [Bool.and_eq_true] at hs
  have h1 := endDepth_le 0 a hs.1 (by omega)
  have := maxDepth_of_profOK (endDepth 0 a) 0 (braces u) hs.2.1 h1 (by omega)
  rwa [maxDepth_braces] at this

theorem not_brace_of_ws {c : Char} (h : isWs c = true) : isBrace c = false := by
  by_cases h1 : c = '{'
  · subst h1; revert h; decide
  · by_cases h2 : c = '}'
    · subst h2; revert h; decide
    · exact isBrace_false h1 h2

theorem braces_dropWhile_ws (s : Str) : braces (s.dropWhile isWs) = braces s := by
  induction s with
  | nil => rfl
  | cons c r ih =>
    simp only [List.dropWhile]
    split
    · rename_i h; rw [ih, braces_cons_plain (not_brace_of_ws h)]
    · rfl

theorem braces_reverse (s : Str) : braces s.reverse = (braces s).reverse := by
  simp [braces, List.filter_reverse]

theorem braces_strip (s : Str) : braces (strip s) = braces s := by
  simp only [strip, rstrip, lstrip]
  rw [braces_reverse, braces_dropWhile_ws, braces_reverse, List.reverse_reverse, braces_dropWhile_ws]

theorem braces_collapseWs (b : Bool) (s : Str) : braces (collapseWs b s) = braces s := by
  induction s generalizing b with
  | nil => rfl
  | cons c r ih =>
    simp only [collapseWs]
    split
    · rename_i h
      split
      · rw [ih, braces_cons_plain (not_brace_of_ws h)]
      · rw [braces_cons_plain (by decide), ih, braces_cons_plain (not_brace_of_ws h)]
    · by_cases hb : isBrace c = true
      · rw [braces_cons_brace hb, braces_cons_brace hb, ih]
      · simp only [Bool.not_eq_true] at hb
        rw [braces_cons_plain hb, braces_cons_plain hb, ih]

theorem braces_normalizeWs (s : Str) : braces (normalizeWs s) = braces s := by
  simp only [normalizeWs, braces_collapseWs, braces_strip]

/-! ## §2 `split_tex_string` keeps the brace skeleton -/

theorem fcbAux_concat (level : Nat) (acc pending s : Str) :
    (fcbAux level acc pending s).1 ++ (fcbAux level acc pending s).2 = acc ++ pending ++ s := by
  induction s generalizing level acc pending with
  | nil =>
    simp only [fcbAux, List.append_nil]
  | cons c r ih =>
    simp only [fcbAux]
    split
    · rw [ih]; simp
    · split
      · split
        · simp
        · rw [ih]; simp
      · rw [ih]; simp

theorem braces_take_drop (n : Nat) (s : Str) : braces s = braces (s.take n) ++ braces (s.drop n) := by
  rw [← braces_append, List.take_append_drop]

theorem spaceRun_nobrace (prev : Option Char) (s : Str) : braces (s.take (spaceRun prev s)) = [] := by
  induction prev, s using spaceRun.induct with
  | case1 => rfl
  | case2 prev r' ih =>
    have h1 : spaceRun prev ('\\' :: ' ' :: r') = 2 + spaceRun (some ' ') r' := by
      rw [spaceRun.eq_def]; simp
    have : List.take (2 + spaceRun (some ' ') r') ('\\' :: ' ' :: r') =
        '\\' :: ' ' :: List.take (spaceRun (some ' ') r') r' := by
      rw [Nat.add_comm]; rfl
    rw [h1, this, braces_cons_plain (by decide), braces_cons_plain (by decide)]
    exact ih
  | case3 prev r hr =>
    have h1 : spaceRun prev ('\\' :: r) = 0 := by
      rw [spaceRun.eq_def]
      simp only [if_true]
    rw [h1]; rfl
  | case4 prev c r hc hws ih =>
    have h1 : spaceRun prev (c :: r) = 1 + spaceRun (some c) r := by
      rw [spaceRun.eq_def]; simp [hc, hws]
    have : List.take (1 + spaceRun (some c) r) (c :: r) = c :: List.take (spaceRun (some c) r) r := by
      rw [Nat.add_comm]; rfl
    rw [h1, this, braces_cons_plain (not_brace_of_ws hws)]
    exact ih
  | case5 prev c r hc hws ht ih =>
    have h1 : spaceRun prev (c :: r) = 1 + spaceRun (some c) r := by
      rw [spaceRun.eq_def]; simp [ht]
    have : List.take (1 + spaceRun (some c) r) (c :: r) = c :: List.take (spaceRun (some c) r) r := by
      rw [Nat.add_comm]; rfl
    have hb : isBrace c = false := by rw [ht.1]; decide
    rw [h1, this, braces_cons_plain hb]
    exact ih
  | case6 prev c r hc hws ht =>
    have h1 : spaceRun prev (c :: r) = 0 := by
      rw [spaceRun.eq_def]; simp [hc, hws, ht]
    rw [h1]; rfl

theorem sepMatch_nobrace (sep : Sep) (prev : Option Char) (s : Str) :
    braces (s.take (sepMatch sep prev s)) = [] := by
  cases sep with
  | space => exact spaceRun_nobrace prev s
  | comma =>
    simp only [sepMatch]
    split
    · rename_i h
      cases s with
      | nil => simp at h
      | cons c r =>
        simp only [List.head?_cons, Option.some.injEq] at h
        subst h; rfl
    · rfl
  | hyphen =>
    simp only [sepMatch]
    split
    · rename_i h
      cases s with
      | nil => simp at h
      | cons c r =>
        simp only [List.head?_cons, Option.some.injEq] at h
        subst h; rfl
    · rfl
  | «and» =>
    simp only [sepMatch]
    split
    · rename_i h
      unfold isAndAt at h
      split at h
      · rename_i a n d _
        simp only [Bool.and_eq_true, Bool.or_eq_true, decide_eq_true_eq] at h
        obtain ⟨⟨ha, hn⟩, hd⟩ := h
        have ha' : isBrace a = false := by rcases ha with rfl | rfl <;> decide
        have hn' : isBrace n = false := by rcases hn with rfl | rfl <;> decide
        have hd' : isBrace d = false := by rcases hd with rfl | rfl <;> decide
        simp [braces, isBrace] at ha' hn' hd' ⊢
        simp [ha', hn', hd']
      · cases h
    · rfl

theorem reSplitAux_braces (sep : Sep) (fuel : Nat) (prev : Option Char) (cur s : Str)
    (hf : s.length < fuel) :
    braces (reSplitAux sep fuel prev cur s).flatten = braces cur ++ braces s := by
  induction fuel generalizing prev cur s with
  | zero => omega
  | succ fuel ih =>
    cases s with
    | nil => simp [reSplitAux, braces]
    | cons c r =>
      simp only [reSplitAux]
      split
      · rw [ih _ _ _ (by simp at hf; omega), braces_append, List.append_assoc, ← braces_append]
        rfl
      · rename_i hn
        simp only [List.flatten_cons, braces_append]
        rw [ih _ _ _ (by simp at hf ⊢; omega)]
        have h1 := braces_take_drop (sepMatch sep prev (c :: r)) (c :: r)
        rw [sepMatch_nobrace] at h1
        simp only [List.nil_append] at h1
        rw [← h1]; rfl

theorem reSplit_braces (sep : Sep) (s : Str) : braces (reSplit sep s).flatten = braces s := by
  unfold reSplit
  rw [reSplitAux_braces _ _ _ _ _ (Nat.lt_succ_self _)]
  rfl

/-- text collected so far by the main loop of `split_tex_string` -/
def accOf (result : List Str) (wp : Option Str) : Str :=
  result.flatten ++ (match wp with | none => [] | some w => w)

theorem splitStep_acc (sep : Sep) (s : Str) (result : List Str) (wp : Option Str) :
    braces (accOf (Names.splitStep sep s result wp).1 (Names.splitStep sep s result wp).2) =
      braces (accOf result wp) ++ braces (s.takeWhile (· ≠ '{')) := by
  unfold Names.splitStep
  simp only
  split
  · have hre := reSplit_braces sep (s.takeWhile (· ≠ '{'))
    split
    · rename_i he
      rw [he] at hre
      simp only [List.flatten_nil] at hre
      rw [← hre]; simp [braces]
    · rename_i p he
      rw [he] at hre
      simp only [List.flatten_cons, List.flatten_nil, List.append_nil] at hre
      rw [← hre]
      simp only [accOf, braces_append, List.append_assoc]
      cases wp <;> rfl
    · rename_i p ps hps he
      rw [he] at hre
      have hne : ps ≠ [] := hps
      have hl : ps.dropLast.flatten ++ (match ps.getLast? with | none => [] | some w => w) = ps.flatten := by
        obtain ⟨ys, hys⟩ := List.getLast?_eq_some_iff.1 (List.getLast?_eq_some_getLast hne)
        rw [hys]
        simp
      rw [← hre]
      simp only [accOf, List.flatten_append, List.flatten_cons, List.flatten_nil, List.append_nil,
        List.append_assoc]
      rw [hl]
      simp only [braces_append, List.append_assoc]
      cases wp <;> rfl
  · rename_i h
    simp only [ne_eq, Decidable.not_not] at h
    rw [h]; simp [braces]

theorem dropWhile_head {p : Char → Bool} {s : Str} {c : Char} {r : Str}
    (h : s.dropWhile p = c :: r) : p c = false := by
  induction s with
  | nil => simp at h
  | cons d t ih =>
    simp only [List.dropWhile] at h
    split at h
    · exact ih h
    · rename_i hd
      injection h with h1 _
      subst h1; simpa using hd

theorem splitLoop_braces (sep : Sep) (fuel : Nat) (s : Str) (result : List Str) (wp : Option Str) :
    braces (splitLoop sep fuel s result wp).flatten <+: braces (accOf result wp) ++ braces s := by
  induction fuel generalizing s result wp with
  | zero =>
    unfold splitLoop
    cases wp with
    | none => simp only [accOf, List.append_nil]; exact List.prefix_append _ _
    | some w =>
      simp only [accOf, List.flatten_append, List.flatten_cons, List.flatten_nil, List.append_nil]
      exact List.prefix_append _ _
  | succ n ih =>
    rw [Names.splitLoop_succ]
    have hs : s = s.takeWhile (· ≠ '{') ++ s.dropWhile (· ≠ '{') := List.takeWhile_append_dropWhile.symm
    have hacc := splitStep_acc sep s result wp
    split
    · rename_i hd
      have hs' : braces s = braces (s.takeWhile (· ≠ '{')) := by
        conv => lhs; rw [hs, hd, List.append_nil]
      rw [hs', ← hacc]
      cases hw : (Names.splitStep sep s result wp).2 with
      | none => simp only [accOf, List.append_nil]; exact List.prefix_refl _
      | some w =>
        simp only [accOf, List.flatten_append, List.flatten_cons, List.flatten_nil, List.append_nil]
        exact List.prefix_refl _
    · rename_i c0 rest hd
      have hc0 : c0 = '{' := by
        have := dropWhile_head hd
        simpa using this
      subst hc0
      have hfc : (findClosingBrace rest).1 ++ (findClosingBrace rest).2 = rest := by
        have := fcbAux_concat 1 [] [] rest
        simpa [findClosingBrace] using this
      have hs' : braces s = braces (s.takeWhile (· ≠ '{')) ++ braces ('{' :: rest) := by
        conv => lhs; rw [hs, hd, braces_append]
      have := ih (findClosingBrace rest).2 (Names.splitStep sep s result wp).1
        (some ((match (Names.splitStep sep s result wp).2 with | none => [] | some w => w)
          ++ ['{'] ++ (findClosingBrace rest).1))
      have he : braces (accOf (Names.splitStep sep s result wp).1
          (some ((match (Names.splitStep sep s result wp).2 with | none => [] | some w => w)
            ++ ['{'] ++ (findClosingBrace rest).1))) ++ braces (findClosingBrace rest).2
          = braces (accOf result wp) ++ braces s := by
        rw [hs', ← List.append_assoc, ← hacc]
        conv => rhs; rw [← hfc]
        simp only [accOf, braces_append, List.append_assoc, List.cons_append, List.nil_append]
        have hb : braces ('{' :: (findClosingBrace rest).1) ++ braces (findClosingBrace rest).2
            = braces ('{' :: ((findClosingBrace rest).1 ++ (findClosingBrace rest).2)) := by
          rw [← braces_append]; rfl
        rw [hb]
      rw [he] at this
      exact this

/-- every piece returned by `split_tex_string` is a segment of the input (brace-wise) -/
theorem splitTex_seg {sep : Sep} {s p : Str} (h : p ∈ splitTex sep s) : Seg p s := by
  have hraw : ∀ q ∈ splitLoop sep (s.length + 1) s [] none, Seg q s := by
    intro q hq
    have h1 := Seg.of_mem_flatten hq
    have h2 := splitLoop_braces sep (s.length + 1) s [] none
    simp only [accOf, List.flatten_nil, List.append_nil] at h2
    have h3 : braces ([] : Str) = [] := rfl
    rw [h3, List.nil_append] at h2
    exact h1.trans (Seg.of_prefix h2)
  simp only [splitTex] at h
  have hm : p ∈ (splitLoop sep (s.length + 1) s [] none).map strip := by
    split at h
    · exact (List.mem_filter.1 h).1
    · exact h
  obtain ⟨q, hq, rfl⟩ := List.mem_map.1 hm
  exact (Seg.of_eq (braces_strip q)).trans (hraw q hq)

theorem caseTokens_seg {name t : Str} (h : t ∈ caseTokens name) : Seg t name := by
  cases hsp : splitTex .comma name with
  | nil => simp [caseTokens, hsp] at h
  | cons a rest =>
    cases rest with
    | nil =>
      simp only [caseTokens, hsp] at h
      exact splitTex_seg h
    | cons b rest =>
      simp only [caseTokens, hsp] at h
      have ha : a ∈ splitTex .comma name := by rw [hsp]; simp
      exact (splitTex_seg (List.dropLast_subset _ h)).trans (splitTex_seg ha)

/-- `Person(n)` does not hit the nesting guard when `n` is a piece of a well nested value -/
theorem mkPerson_ok_of_seg {n value : Str} (hn : Seg n value) (hv : profOK 0 value = true) (e : NameErr) :
    mkPerson n [] [] [] [] [] ≠ .error e := by
  intro he
  obtain ⟨_, hne, hp⟩ := mkPerson_error he
  obtain ⟨_, t, ht, hscan, _⟩ := parseName_error hne hp
  have hseg : Seg t value := ((caseTokens_seg ht).trans (Seg.of_eq (braces_strip n))).trans hn
  have hd := maxDepth_of_seg hseg hv
  have := (scanM_isSome_iff (.norm 0) t (by simp [maxLevel])).2 (by simpa [maxLevel] using hd)
  unfold scan at hscan
  rw [hscan] at this
  cases this

/-! ## processing the commands -/

theorem addEntry_rok {s : St} (key : Str) (e : Entry) (h : SOK s) : ROK (addEntry s key e) := by
  unfold addEntry
  split
  · exact h
  · split
    · exact handleError_rok h (by simp)
    · exact h

theorem addPersons_rok (role : Str) (ns : List Str) (e : Entry) (s : St) (h : SOK s)
    (hn : ∀ n ∈ ns, ∀ err, mkPerson n [] [] [] [] [] ≠ .error err) :
    ROK (addPersons role ns e s) := by
  induction ns generalizing e s with
  | nil => exact h
  | cons n ns ih =>
    unfold addPersons
    split
    · rename_i err he
      exact absurd he (hn n (by simp) err)
    · rename_i p tooMany _
      simp only
      have hg : ROK (if tooMany then handleError s ⟨.invalidName (strip n), none⟩ else .ok () s) := by
        split
        · exact handleError_rok h (by simp)
        · exact h
      cases hr : (if tooMany then handleError s ⟨.invalidName (strip n), none⟩ else Res.ok () s) with
      | fail a s' => rw [hr] at hg; exact hg
      | ok u s1 =>
        rw [hr] at hg
        exact ih _ s1 hg (fun m hm => hn m (List.mem_cons_of_mem _ hm))

theorem processFields_rok (key : Str) (fs : List (Str × List Str)) (seen : List Str) (e : Entry)
    (s : St) (h : SOK s) (hf : ∀ f ∈ fs, ∀ p ∈ f.2, VOK p) :
    ROK (processFields key fs seen e s) := by
  induction fs generalizing seen e s with
  | nil => exact h
  | cons f fs ih =>
    obtain ⟨name, parts⟩ := f
    have hf' : ∀ f ∈ fs, ∀ p ∈ f.2, VOK p := fun f hf1 => hf f (List.mem_cons_of_mem _ hf1)
    unfold processFields
    split
    · have hg := handleError_rok h (e := ⟨.duplicateField key name, none⟩) (by simp)
      cases hr : handleError s ⟨.duplicateField key name, none⟩ with
      | fail a s' => rw [hr] at hg; exact hg
      | ok u s1 => rw [hr] at hg; exact ih _ _ s1 hg hf'
    · simp only
      split
      · have hv : profOK 0 (normalizeWs parts.flatten) = true := by
          rw [← profOK_braces, braces_normalizeWs, profOK_braces]
          exact (VOK.flatten (hf (name, parts) (by simp))).1
        have hg := addPersons_rok name (splitNameList (normalizeWs parts.flatten)) e s h
          (fun n hn err => mkPerson_ok_of_seg (splitTex_seg hn) hv err)
        cases hr : addPersons name (splitNameList (normalizeWs parts.flatten)) e s with
        | fail a s' => rw [hr] at hg; exact hg
        | ok e' s1 => rw [hr] at hg; exact ih _ _ s1 hg hf'
      · exact ih _ _ s h hf'

theorem processEntry_rok (type : Str) (key : Option Str) (fields : List (Str × List Str)) (s : St)
    (h : SOK s) (hf : ∀ f ∈ fields, ∀ p ∈ f.2, VOK p) : ROK (processEntry type key fields s) := by
  unfold processEntry
  cases key with
  | some k =>
    simp only
    have hg := processFields_rok k fields []
      { key := k, type := lower type, origType := type, fields := [], persons := [] } s h hf
    cases hr : processFields k fields []
      { key := k, type := lower type, origType := type, fields := [], persons := [] } s with
    | fail a s' => rw [hr] at hg; exact hg
    | ok e s1 => rw [hr] at hg; exact addEntry_rok _ _ hg
  | none =>
    simp only
    have h0 : SOK { s with unnamed := s.unnamed + 1 } := h
    have hg := processFields_rok ("unnamed-".toList ++ natToStr s.unnamed) fields []
      { key := "unnamed-".toList ++ natToStr s.unnamed, type := lower type, origType := type, fields := [], persons := [] }
      { s with unnamed := s.unnamed + 1 } h0 hf
    cases hr : processFields ("unnamed-".toList ++ natToStr s.unnamed) fields []
      { key := "unnamed-".toList ++ natToStr s.unnamed, type := lower type, origType := type, fields := [], persons := [] }
      { s with unnamed := s.unnamed + 1 } with
    | fail a s' => rw [hr] at hg; exact hg
    | ok e s1 => rw [hr] at hg; exact addEntry_rok _ _ hg

theorem processCmd_rok (c : Cmd) (s : St) (h : SOK s) (hc : CmdOK c) : ROK (processCmd c s) := by
  unfold processCmd
  split
  · exact h
  · exact h
  · exact processEntry_rok _ _ _ s h hc

theorem parseLoop_rok (fuel : Nat) (s : St) (h : SOK s) :
    SOK (parseLoop fuel s).1 ∧ ∀ e, (parseLoop fuel s).2 = some e → e.kind ≠ .nameTooDeep := by
  induction fuel generalizing s with
  | zero => exact ⟨h, fun e he => by cases he; simp⟩
  | succ fuel ih =>
    unfold parseLoop
    split
    · exact ⟨h, fun e he => by cases he⟩
    · rename_i chunk rest hsk
      simp only
      have h1 : SOK { s with rest := rest, ln := s.ln + countNl chunk } := h
      have hg := parseCommand_rok h1
      cases hr : parseCommand { s with rest := rest, ln := s.ln + countNl chunk } with
      | ok c s2 =>
        rw [hr] at hg
        simp only
        have hg2 := processCmd_rok c s2 hg.1 hg.2
        cases hr2 : processCmd c s2 with
        | ok u s3 => rw [hr2] at hg2; exact ih s3 hg2
        | fail a s3 =>
          rw [hr2] at hg2
          cases a with
          | syn e => exact ⟨hg2.1, fun e' he' => by cases he'; exact hg2.2⟩
          | raised e => exact ⟨hg2.1, fun e' he' => by cases he'; exact hg2.2⟩
          | skip => exact ih s3 hg2.1
      | fail a s2 =>
        rw [hr] at hg
        cases a with
        | syn e =>
          simp only
          have hg2 := handleError_rok hg.1 (e := e) hg.2
          cases hr2 : handleError s2 e with
          | ok u s3 => rw [hr2] at hg2; exact ih s3 hg2
          | fail a s3 =>
            rw [hr2] at hg2
            cases a with
            | raised e' => exact ⟨hg2.1, fun e'' he' => by cases he'; exact hg2.2⟩
            | syn e' => exact ⟨hg2.1, fun e'' he' => by cases he'; exact hg.2⟩
            | skip => exact ⟨hg2.1, fun e'' he' => by cases he'; exact hg.2⟩
        | skip => exact ih s2 hg.1
        | raised e => exact ⟨hg.1, fun e' he' => by cases he'; exact hg.2⟩

/-- the reader started with a well nested macro table never meets the nesting guard of `Person()` -/
theorem parseBib_noDeep (text : Str) (strict : Bool) (wanted : Option (List Str))
    (macros0 : List (Str × Str)) (roles : List Str) (hm : ∀ p ∈ macros0, VOK p.2) :
    (∀ e ∈ (parseBib text strict wanted macros0 roles).1.errs, e.kind ≠ .nameTooDeep) ∧
    (∀ e, (parseBib text strict wanted macros0 roles).2 = some e → e.kind ≠ .nameTooDeep) := by
  rw [parseBib_eq]
  have h0 : SOK (initSt text strict wanted macros0 roles) :=
    ⟨MOK.ofPairs hm, by simp [initSt], by simp [initSt], by simp [initSt]⟩
  obtain ⟨h1, h2⟩ := parseLoop_rok (text.length + 1) _ h0
  exact ⟨h1.2.2.2, h2⟩

end Pybtex.Bib
