/-
Lemmas for the HTML part of C09: the strict reader `Spec.Html.run` accepts what `Backends.html` emits and
finds every character inside the elements of its markup.
-/
import PybtexModel.Lemmas.BackendsRender

namespace Pybtex
open RT Backends Spec

/-! ### generic list / lookup facts -/

theorem lookup_mem {α β : Type} [BEq α] [LawfulBEq α] {k : α} {v : β} {l : List (α × β)}
    (h : l.lookup k = some v) : (k, v) ∈ l := by
  induction l with
  | nil => simp [List.lookup] at h
  | cons x l ih =>
    obtain ⟨a, b⟩ := x
    simp only [List.lookup] at h
    split at h
    · rename_i heq
      have : k = a := by simpa using heq
      cases h; subst this; simp
    · exact List.mem_cons_of_mem _ (ih h)

/-! ### `plainPairs` -/
namespace Spec

theorem plainPairs_chars (sym : Str → Option Str) (s : Str) (st : List Markup) :
    plainPairs sym (s.map fun c => (Atom.ch c, st)) = some (s.map fun c => (c, st)) := by
  induction s with
  | nil => rfl
  | cons c s ih => simp [plainPairs, ih]

theorem plainPairs_append (sym : Str → Option Str) (f g : Flat) :
    plainPairs sym (f ++ g) =
      match plainPairs sym f, plainPairs sym g with
      | some p, some q => some (p ++ q)
      | _, _ => none := by
  induction f with
  | nil => simp only [List.nil_append, plainPairs]; cases plainPairs sym g <;> rfl
  | cons x f ih =>
    obtain ⟨a, st⟩ := x
    cases a with
    | ch c =>
      simp only [List.cons_append, plainPairs, ih]
      cases plainPairs sym f <;> cases plainPairs sym g <;> rfl
    | sym n =>
      simp only [List.cons_append, plainPairs, ih]
      cases sym n <;> cases plainPairs sym f <;> cases plainPairs sym g <;> simp

theorem plainPairs_push (sym : Str → Option Str) (m : List Markup) (f : Flat) :
    plainPairs sym (Flat.push m f) = (plainPairs sym f).map fun p => p.map fun y => (y.1, m ++ y.2) := by
  induction f with
  | nil => rfl
  | cons x f ih =>
    obtain ⟨a, st⟩ := x
    cases a with
    | ch c =>
      simp only [Flat.push, List.map_cons, plainPairs] at ih ⊢
      rw [ih]; cases plainPairs sym f <;> rfl
    | sym n =>
      simp only [Flat.push, List.map_cons, plainPairs] at ih ⊢
      rw [ih]; cases sym n <;> cases plainPairs sym f <;> simp

end Spec

/-! ### the reader -/
namespace Spec.Html

theorem run_append (a b : Str) : ∀ st, run st (a ++ b) = (run st a).bind fun st' => run st' b := by
  induction a with
  | nil => intro st; rfl
  | cons c a ih =>
    intro st
    simp only [List.cons_append, run]
    cases step st c with
    | none => rfl
    | some st' => exact ih st'

theorem nameChar_ne {c : Char} (h : nameChar c = true) :
    c ≠ '>' ∧ c ≠ ' ' ∧ c ≠ '/' ∧ c ≠ '<' ∧ c ≠ '&' ∧ c ≠ ';' := by
  refine ⟨?_, ?_, ?_, ?_, ?_, ?_⟩ <;> (intro hc; subst hc; revert h; decide)

theorem alnum_ne_semicolon {c : Char} (h : isAlnum c = true) : c ≠ ';' := by
  intro hc; subst hc; revert h; decide

/-- inside an entity: the name is accumulated, `;` looks it up -/
theorem run_entity_acc (stk : List Str) (o : List (Char × List Str)) (ch : Char) (name : Str) :
    ∀ acc, name.all isAlnum = true → entities.lookup (acc ++ name) = some ch →
      run ⟨.entity acc, stk, o⟩ (name ++ [';']) = some ⟨.text, stk, o ++ [(ch, stk)]⟩ := by
  induction name with
  | nil =>
    intro acc _ hl
    simp only [List.append_nil] at hl
    simp [run, step, hl]
  | cons c name ih =>
    intro acc ha hl
    simp only [List.all_cons, Bool.and_eq_true] at ha
    have hne := alnum_ne_semicolon ha.1
    simp only [List.cons_append, run, step, hne, if_false, ha.1, if_true]
    exact ih (acc ++ [c]) ha.2 (by simpa using hl)

theorem run_entity (stk : List Str) (o : List (Char × List Str)) (ch : Char) (name : Str)
    (ha : name.all isAlnum = true) (hl : entities.lookup name = some ch) :
    run ⟨.text, stk, o⟩ ('&' :: name ++ [';']) = some ⟨.text, stk, o ++ [(ch, stk)]⟩ := by
  simp only [List.cons_append, run, step]
  simp only [show ('&' : Char) ≠ '<' by decide, if_false, if_true]
  exact run_entity_acc stk o ch name [] ha (by simpa using hl)

/-- `e` is the entity `&name;` of the character `c` -/
def entityFor (c : Char) (e : Str) : Bool :=
  match e with
  | '&' :: rest =>
    rest.getLast? == some ';' && entities.lookup rest.dropLast == some c && rest.dropLast.all isAlnum
  | _ => false

theorem run_entityFor (stk : List Str) (o : List (Char × List Str)) (c : Char) (e : Str)
    (h : entityFor c e = true) : run ⟨.text, stk, o⟩ e = some ⟨.text, stk, o ++ [(c, stk)]⟩ := by
  unfold entityFor at h
  split at h
  · rename_i rest
    simp only [Bool.and_eq_true, beq_iff_eq] at h
    obtain ⟨⟨h1, h2⟩, h3⟩ := h
    have hr : rest = rest.dropLast ++ [';'] := by
      obtain ⟨ys, hys⟩ := List.getLast?_eq_some_iff.1 h1
      rw [hys]; simp
    rw [hr]
    exact run_entity stk o c rest.dropLast h3 h2
  · cases h

/-- a character that is none of `< > &` reads as itself -/
theorem run_plainChar (stk : List Str) (o : List (Char × List Str)) (c : Char)
    (h : c ≠ '<' ∧ c ≠ '&' ∧ c ≠ '>') : run ⟨.text, stk, o⟩ [c] = some ⟨.text, stk, o ++ [(c, stk)]⟩ := by
  simp [run, step, h.1, h.2.1, h.2.2]

theorem run_plain (stk : List Str) (w : Str) : ∀ (o : List (Char × List Str)),
    (∀ c ∈ w, c ≠ '<' ∧ c ≠ '&' ∧ c ≠ '>') →
    run ⟨.text, stk, o⟩ w = some ⟨.text, stk, o ++ w.map fun c => (c, stk)⟩ := by
  induction w with
  | nil => intro o _; simp [run]
  | cons c w ih =>
    intro o h
    have hc := h c (by simp)
    rw [show c :: w = [c] ++ w from rfl, run_append, run_plainChar stk o c hc]
    simp only [Option.bind_some]
    rw [ih _ fun d hd => h d (by simp [hd])]
    simp

/-- the regenerated escape table: every entry is the entity of its character, and the three characters HTML
reserves are in it -/
def escapesOK (tbl : List (Char × Str)) : Bool :=
  tbl.all (fun p => entityFor p.1 p.2) &&
    (tbl.lookup '<').isSome && (tbl.lookup '&').isSome && (tbl.lookup '>').isSome

theorem run_escapeChar (hT : escapesOK Gen.htmlEscapes = true) (stk : List Str)
    (o : List (Char × List Str)) (c : Char) :
    run ⟨.text, stk, o⟩ (escapeChar c) = some ⟨.text, stk, o ++ [(c, stk)]⟩ := by
  simp only [escapesOK, Bool.and_eq_true, List.all_eq_true] at hT
  obtain ⟨⟨⟨h1, h2⟩, h3⟩, h4⟩ := hT
  unfold escapeChar
  split
  · rename_i e he
    exact run_entityFor stk o c e (h1 (c, e) (lookup_mem he))
  · rename_i he
    apply run_plainChar
    refine ⟨?_, ?_, ?_⟩ <;> (intro hc; subst hc; simp [he] at h2 h3 h4)

theorem run_escape (hT : escapesOK Gen.htmlEscapes = true) (stk : List Str) (s : Str) :
    ∀ (o : List (Char × List Str)),
    run ⟨.text, stk, o⟩ (escape s) = some ⟨.text, stk, o ++ s.map fun c => (c, stk)⟩ := by
  induction s with
  | nil => intro o; simp [escape, run]
  | cons c s ih =>
    intro o
    have : escape (c :: s) = escapeChar c ++ escape s := by simp [escape]
    rw [this, run_append, run_escapeChar hT]
    simp only [Option.bind_some]
    rw [ih]; simp

/-! #### tags -/

theorem run_openName_acc (stk : List Str) (o : List (Char × List Str)) (rest : Str) :
    ∀ acc, rest.all nameChar = true →
      run ⟨.openName acc, stk, o⟩ rest = some ⟨.openName (acc ++ rest), stk, o⟩ := by
  induction rest with
  | nil => intro acc _; simp [run]
  | cons c rest ih =>
    intro acc h
    simp only [List.all_cons, Bool.and_eq_true] at h
    simp only [run, step, h.1, if_true]
    rw [ih (acc ++ [c]) h.2]; simp

theorem run_tagStart (stk : List Str) (o : List (Char × List Str)) (name : Str)
    (hne : name ≠ []) (h : name.all nameChar = true) :
    run ⟨.text, stk, o⟩ ('<' :: name) = some ⟨.openName name, stk, o⟩ := by
  cases name with
  | nil => exact absurd rfl hne
  | cons c rest =>
    simp only [List.all_cons, Bool.and_eq_true] at h
    have hc := nameChar_ne h.1
    simp only [run, step, if_true, hc.2.2.1, if_false, h.1]
    rw [run_openName_acc stk o rest [c] h.2]; simp

/-- `<name>` opens an element -/
theorem run_open (stk : List Str) (o : List (Char × List Str)) (name : Str)
    (hne : name ≠ []) (h : name.all nameChar = true) :
    run ⟨.text, stk, o⟩ ('<' :: name ++ ['>']) = some ⟨.text, stk ++ [name], o⟩ := by
  rw [show '<' :: name ++ ['>'] = ('<' :: name) ++ ['>'] from rfl, run_append, run_tagStart stk o name hne h]
  simp [run, step, show nameChar '>' = false by decide]

/-- the attribute part of a start tag: quotes alternate; outside quotes neither `<` nor `>` -/
def attrScan : Bool → Str → Option Bool
  | q, [] => some q
  | q, c :: r =>
    if q then (if c = '"' then attrScan false r else attrScan true r)
    else if c = '"' then attrScan true r
    else if c = '>' ∨ c = '<' then none
    else attrScan false r

theorem attrScan_append (a b : Str) : ∀ q, attrScan q (a ++ b) = (attrScan q a).bind fun q' => attrScan q' b := by
  induction a with
  | nil => intro q; rfl
  | cons c a ih =>
    intro q
    simp only [List.cons_append, attrScan]
    split
    · split <;> exact ih _
    · split
      · exact ih _
      · split
        · rfl
        · exact ih _

theorem attrScan_quoted (u : Str) (h : u.contains '"' = false) : attrScan true u = some true := by
  induction u with
  | nil => rfl
  | cons c u ih =>
    simp only [List.contains_cons, Bool.or_eq_false_iff] at h
    have hc : c ≠ '"' := by intro hc; subst hc; simp at h
    simp only [attrScan, if_true, hc, if_false]
    exact ih h.2

theorem run_attrs (name : Str) (stk : List Str) (o : List (Char × List Str)) (a : Str) :
    ∀ q q', attrScan q a = some q' → run ⟨.attrs name q, stk, o⟩ a = some ⟨.attrs name q', stk, o⟩ := by
  induction a with
  | nil => intro q q' h; simp only [attrScan, Option.some.injEq] at h; subst h; rfl
  | cons c a ih =>
    intro q q' h
    simp only [attrScan] at h
    cases q with
    | true =>
      simp only [if_true] at h
      by_cases hc : c = '"'
      · simp only [hc, if_true] at h; simp only [run, step, hc, if_true]; exact ih _ _ h
      · simp only [hc, if_false] at h; simp only [run, step, hc, if_true, if_false]; exact ih _ _ h
    | false =>
      simp only [Bool.false_eq_true, if_false] at h
      by_cases hc : c = '"'
      · simp only [hc, if_true] at h
        simp only [run, step, hc, if_true, Bool.false_eq_true, if_false]; exact ih _ _ h
      · simp only [hc, if_false] at h
        split at h
        · cases h
        · rename_i hgl
          have h1 : c ≠ '>' := fun e => hgl (Or.inl e)
          have h2 : c ≠ '<' := fun e => hgl (Or.inr e)
          simp only [run, step, hc, h1, h2, if_false, Bool.false_eq_true]; exact ih _ _ h

/-- `<name attrs>` opens an element -/
theorem run_openAttrs (stk : List Str) (o : List (Char × List Str)) (name a : Str)
    (hne : name ≠ []) (h : name.all nameChar = true) (ha : attrScan false a = some false) :
    run ⟨.text, stk, o⟩ ('<' :: name ++ ' ' :: a ++ ['>']) = some ⟨.text, stk ++ [name], o⟩ := by
  rw [show '<' :: name ++ ' ' :: a ++ ['>'] = ('<' :: name) ++ ([' '] ++ (a ++ ['>'])) by simp,
    run_append, run_tagStart stk o name hne h]
  simp only [Option.bind_some]
  rw [run_append]
  simp only [run, step, show nameChar ' ' = false by decide, show (' ' : Char) ≠ '>' by decide, if_false,
    if_true, Option.bind_some, Bool.false_eq_true]
  rw [run_append, run_attrs name stk o a false false ha]
  simp [run, step]

theorem run_closeName_acc (stk : List Str) (o : List (Char × List Str)) (rest : Str) :
    ∀ acc, rest.all nameChar = true →
      run ⟨.closeName acc, stk, o⟩ rest = some ⟨.closeName (acc ++ rest), stk, o⟩ := by
  induction rest with
  | nil => intro acc _; simp [run]
  | cons c rest ih =>
    intro acc h
    simp only [List.all_cons, Bool.and_eq_true] at h
    simp only [run, step, h.1, if_true]
    rw [ih (acc ++ [c]) h.2]; simp

/-- `</name>` closes the innermost element if it is `name` -/
theorem run_close (stk : List Str) (o : List (Char × List Str)) (name : Str)
    (h : name.all nameChar = true) :
    run ⟨.text, stk ++ [name], o⟩ ('<' :: '/' :: name ++ ['>']) = some ⟨.text, stk, o⟩ := by
  rw [show '<' :: '/' :: name ++ ['>'] = ['<', '/'] ++ (name ++ ['>']) from rfl, run_append]
  simp only [run, step, if_true, Option.bind_some]
  rw [run_append, run_closeName_acc _ o name [] h]
  simp [run, step, show nameChar '>' = false by decide]

/-! #### symbols -/

/-- the output of a symbol reads as the text the symbol stands for: an entity of that character, or the
characters themselves -/
def symOK (p : Str × Str) : Bool :=
  match symbolText p.1 with
  | none => false
  | some w =>
    (match w with
     | [ch] => entityFor ch p.2
     | _ => false) ||
    (p.2 == w && w.all fun c => c != '<' && c != '&' && c != '>')

theorem run_symbol (hT : Gen.htmlSymbols.all symOK = true) (n out : Str)
    (h : Gen.htmlSymbols.lookup n = some out) (stk : List Str) (o : List (Char × List Str)) :
    ∃ w, symbolText n = some w ∧
      run ⟨.text, stk, o⟩ out = some ⟨.text, stk, o ++ w.map fun c => (c, stk)⟩ := by
  have hm := List.all_eq_true.1 hT (n, out) (lookup_mem h)
  unfold symOK at hm
  split at hm
  · cases hm
  · rename_i w hw
    refine ⟨w, hw, ?_⟩
    simp only [Bool.or_eq_true] at hm
    rcases hm with hm | hm
    · split at hm
      · rename_i ch
        simpa using run_entityFor stk o ch out hm
      · cases hm
    · simp only [Bool.and_eq_true, beq_iff_eq, List.all_eq_true, bne_iff_ne] at hm
      obtain ⟨h1, h2⟩ := hm
      subst h1
      exact run_plain stk out o fun c hc => by
        have := h2 c hc
        exact ⟨this.1.1, this.1.2, this.2⟩

end Spec.Html

/-! ### the relation between denotation and HTML output -/
namespace Spec.Html

/-- what the reader must find for the denotation `f` when started inside the elements `stk` -/
def Reads (f : Flat) (x : Str) : Prop :=
  ∀ (stk : List Str) (o : List (Char × List Str)),
    ∃ p, plainPairs symbolText f = some p ∧
      run ⟨.text, stk, o⟩ x = some ⟨.text, stk, o ++ p.map fun y => (y.1, stk ++ y.2.map elem)⟩

theorem reads_nil_of_empty {f : Flat} (h : Reads f []) : plainPairs symbolText f = some [] := by
  obtain ⟨p, hp, hr⟩ := h [] []
  simp only [run, Option.some.injEq, St.mk.injEq, true_and, List.nil_append] at hr
  have : p = [] := by
    cases p with
    | nil => rfl
    | cons a p => simp at hr
  rw [hp, this]

/-- wrapping a rendering in an element -/
theorem reads_wrap (m : Markup) (f : Flat) (x opn cls : Str)
    (hopen : ∀ stk o, run ⟨.text, stk, o⟩ opn = some ⟨.text, stk ++ [elem m], o⟩)
    (hclose : ∀ stk o, run ⟨.text, stk ++ [elem m], o⟩ cls = some ⟨.text, stk, o⟩)
    (h : Reads f x) : Reads (Flat.push [m] f) (opn ++ x ++ cls) := by
  intro stk o
  obtain ⟨p, hp, hr⟩ := h (stk ++ [elem m]) o
  refine ⟨p.map fun y => (y.1, [m] ++ y.2), by rw [plainPairs_push, hp]; rfl, ?_⟩
  rw [run_append, run_append, hopen]
  simp only [Option.bind_some]
  rw [hr]
  simp only [Option.bind_some]
  rw [hclose]
  simp [List.map_map, Function.comp_def]

theorem reads_empty_push (m : Markup) (f : Flat) (h : Reads f []) : Reads (Flat.push [m] f) [] := by
  have h0 := reads_nil_of_empty h
  intro stk o
  exact ⟨[], by rw [plainPairs_push, h0]; rfl, by simp [run]⟩

theorem target_scan : attrScan false " target=\"_blank\"".toList = some false := by decide

/-- the attribute string of a link -/
theorem href_attrs (u : Str) (hu : u.contains '"' = false) (e : Bool) :
    attrScan false ("href=\"".toList ++ u ++ ['"'] ++ (if e then " target=\"_blank\"".toList else [])) = some false := by
  rw [attrScan_append, attrScan_append, attrScan_append]
  have h1 : attrScan false "href=\"".toList = some true := by decide
  rw [h1]
  simp only [Option.bind_some]
  rw [attrScan_quoted u hu]
  simp only [Option.bind_some]
  have h2 : attrScan true ['"'] = some false := by decide
  rw [h2]
  simp only [Option.bind_some]
  cases e
  · rfl
  · exact target_scan

/-- the tables of the HTML backend have the shape the reader lemmas need (checked on the regenerated tables
by `decide` in `Props/C09.lean`) -/
def tablesOK : Bool := escapesOK Gen.htmlEscapes && Gen.htmlSymbols.all symOK

theorem html_reads (hT : tablesOK = true) (t : RT) (out : Str) (hk : allKinds kindOK t = true)
    (h : render html t = some out) : Reads (sem [] t) out := by
  simp only [tablesOK, Bool.and_eq_true] at hT
  refine render_rel html kindOK (fun _ => true) (fun _ => true) Reads ?_ ?_ ?_ ?_ ?_ ?_ t out hk
    (allStrs_true t) (allSyms_true t) h
  · -- strings
    intro s _ stk o
    refine ⟨s.map fun c => (c, []), plainPairs_chars _ s [], ?_⟩
    show run ⟨.text, stk, o⟩ (escape s) = _
    rw [run_escape hT.1]
    simp [List.map_map, Function.comp_def]
  · -- symbols
    intro n r _ hr stk o
    obtain ⟨w, hw, hrun⟩ := run_symbol hT.2 n r hr stk o
    refine ⟨w.map fun c => (c, []), by simp [plainPairs, hw], ?_⟩
    rw [hrun]; simp [List.map_map, Function.comp_def]
  · -- sequences
    intro fs xs hall
    show Reads fs.flatten (List.flatten xs)
    induction hall with
    | nil => intro stk o; exact ⟨[], rfl, by simp [run]⟩
    | @cons f x fs xs hfx _ ih =>
      intro stk o
      obtain ⟨p, hp, hr⟩ := hfx stk o
      obtain ⟨q, hq, hr2⟩ := ih stk (o ++ p.map fun y => (y.1, stk ++ y.2.map elem))
      refine ⟨p ++ q, by simp only [List.flatten_cons]; rw [plainPairs_append, hp, hq], ?_⟩
      simp only [List.flatten_cons]
      rw [run_append, hr]
      simp only [Option.bind_some]
      rw [hr2]; simp
  · -- tags
    intro n f x hn hfx
    show Reads _ (Html.formatTag n x)
    simp only [kindOK, Bool.and_eq_true, Bool.not_eq_true', List.isEmpty_eq_false_iff] at hn
    by_cases hx : x = []
    · subst hx
      have : Html.formatTag n [] = [] := by simp [Html.formatTag]
      rw [this]
      exact reads_empty_push _ f hfx
    · have := reads_wrap (.tag n) f x ('<' :: n ++ ['>']) ('<' :: '/' :: n ++ ['>'])
        (fun stk o => run_open stk o n hn.1 hn.2) (fun stk o => run_close stk o n hn.2) hfx
      have e2 : "</".toList = ['<', '/'] := by decide
      have key : Html.formatTag n x = ('<' :: n ++ ['>']) ++ x ++ ('<' :: '/' :: n ++ ['>']) := by
        unfold Html.formatTag
        have hxe : x.isEmpty = false := by cases x with | nil => exact absurd rfl hx | cons => rfl
        simp only [hxe, Bool.false_eq_true, if_false]
        rw [e2]
        simp only [List.append_assoc, List.cons_append, List.nil_append]
      rw [key]
      exact this
  · -- links
    intro u e f x hu hfx
    show Reads _ (Html.formatHref u x e)
    simp only [kindOK, Bool.not_eq_true'] at hu
    by_cases hx : x = []
    · subst hx
      have : Html.formatHref u [] e = [] := by simp [Html.formatHref]
      rw [this]
      exact reads_empty_push _ f hfx
    · have := reads_wrap (.href u e) f x
        ('<' :: ['a'] ++ ' ' :: ("href=\"".toList ++ u ++ ['"'] ++ (if e then " target=\"_blank\"".toList else [])) ++ ['>'])
        ('<' :: '/' :: ['a'] ++ ['>'])
        (fun stk o => run_openAttrs stk o ['a'] _ (by simp) (by decide) (href_attrs u hu e))
        (fun stk o => run_close stk o ['a'] (by decide)) hfx
      have e1 : "<a href=\"".toList = '<' :: ['a'] ++ ' ' :: "href=\"".toList := by decide
      have e2 : "</a>".toList = '<' :: '/' :: ['a'] ++ ['>'] := by decide
      have key : Html.formatHref u x e =
          ('<' :: ['a'] ++ ' ' :: ("href=\"".toList ++ u ++ ['"'] ++ (if e then " target=\"_blank\"".toList else [])) ++ ['>'])
            ++ x ++ ('<' :: '/' :: ['a'] ++ ['>']) := by
        unfold Html.formatHref
        have hxe : x.isEmpty = false := by cases x with | nil => exact absurd rfl hx | cons => rfl
        simp only [hxe, Bool.false_eq_true, if_false]
        rw [e1, e2]
        generalize "href=\"".toList = A
        generalize (if e = true then " target=\"_blank\"".toList else []) = T
        simp only [List.append_assoc, List.cons_append, List.nil_append]
      rw [key]
      exact this
  · -- protected
    intro f x _ hfx
    show Reads _ (Html.formatProtected x)
    unfold Html.formatProtected
    have := reads_wrap .prot f x
      ('<' :: "span".toList ++ ' ' :: "class=\"bibtex-protected\"".toList ++ ['>'])
      ('<' :: '/' :: "span".toList ++ ['>'])
      (fun stk o => run_openAttrs stk o "span".toList _ (by decide) (by decide) (by decide))
      (fun stk o => run_close stk o "span".toList (by decide)) hfx
    have e1 : "<span class=\"bibtex-protected\">".toList
        = '<' :: "span".toList ++ ' ' :: "class=\"bibtex-protected\"".toList ++ ['>'] := by decide
    have e2 : "</span>".toList = '<' :: '/' :: "span".toList ++ ['>'] := by decide
    rw [e1, e2]
    exact this

/-- **HTML is well formed and reads back as the text.** -/
theorem html_read_eq (hT : tablesOK = true) (t : RT) (out : Str) (hk : allKinds kindOK t = true)
    (h : render html t = some out) :
    ∃ p, plainPairs symbolText (sem [] t) = some p ∧
      read out = some (p.map fun y => (y.1, y.2.map elem)) := by
  obtain ⟨p, hp, hr⟩ := html_reads hT t out hk h [] []
  refine ⟨p, hp, ?_⟩
  simp only [read, hr]
  simp

end Spec.Html
end Pybtex
