/-
Generic facts about `RT.render` over an arbitrary backend (used by all C09 theorems):

* `render_rel`    a relation between denotations and renderings that is closed under the six backend
                  operations holds between `sem [] t` and `render b t` (the "logical relation" lemma);
* `render_map`    a map between render types that commutes with the backend operations commutes with `render`;
* `render_isSome` rendering succeeds when the backend knows every symbol of the tree.
-/
import PybtexModel.Lemmas.RichText
import PybtexModel.Spec.Backends

namespace Pybtex

/-- two lists are related element by element (core Lean has no `Forall₂`) -/
inductive All₂ {α β : Type} (R : α → β → Prop) : List α → List β → Prop
  | nil : All₂ R [] []
  | cons {a : α} {b : β} {as : List α} {bs : List β} : R a b → All₂ R as bs → All₂ R (a :: as) (b :: bs)

namespace RT

theorem allKindsL_iff (p : Kind → Bool) (l : List RT) :
    allKindsL p l = true ↔ ∀ t ∈ l, allKinds p t = true := by
  induction l with
  | nil => simp [allKindsL]
  | cons x l ih => simp [allKindsL, ih]

theorem allStrsL_iff (p : Str → Bool) (l : List RT) :
    allStrsL p l = true ↔ ∀ t ∈ l, allStrs p t = true := by
  induction l with
  | nil => simp [allStrsL]
  | cons x l ih => simp [allStrsL, ih]

theorem allSymsL_iff (p : Str → Bool) (l : List RT) :
    allSymsL p l = true ↔ ∀ t ∈ l, allSyms p t = true := by
  induction l with
  | nil => simp [allSymsL]
  | cons x l ih => simp [allSymsL, ih]

theorem allKinds_true (t : RT) : allKinds (fun _ => true) t = true := by
  induction t using RT.induct with
  | hstr s => rfl
  | hsym n => rfl
  | hnode k ps ih => simp only [allKinds, Bool.true_and]; exact (allKindsL_iff _ _).2 ih

theorem allStrs_true (t : RT) : allStrs (fun _ => true) t = true := by
  induction t using RT.induct with
  | hstr s => rfl
  | hsym n => rfl
  | hnode k ps ih => simp only [allStrs]; exact (allStrsL_iff _ _).2 ih

theorem allSyms_true (t : RT) : allSyms (fun _ => true) t = true := by
  induction t using RT.induct with
  | hstr s => rfl
  | hsym n => rfl
  | hnode k ps ih => simp only [allSyms]; exact (allSymsL_iff _ _).2 ih

/-- `renderL` succeeds iff every part renders; the results are the renderings of the parts -/
theorem renderL_some {R : Type} (b : Backend R) (ps : List RT) (l : List R) (h : renderL b ps = some l) :
    All₂ (fun p r => render b p = some r) ps l := by
  induction ps generalizing l with
  | nil => simp only [renderL, Option.some.injEq] at h; subst h; exact .nil
  | cons p ps ih =>
    simp only [renderL] at h
    split at h
    · cases h
    · rename_i r hr
      split at h
      · cases h
      · rename_i rs hrs
        cases h
        exact .cons hr (ih rs hrs)

theorem all₂_map_of {R : Type} {b : Backend R} {Q : Flat → R → Prop} {ps : List RT} {l : List R}
    (h : All₂ (fun p r => render b p = some r) ps l)
    (hq : ∀ p ∈ ps, ∀ r, render b p = some r → Q (sem [] p) r) : All₂ Q (ps.map (sem [])) l := by
  induction h with
  | nil => exact .nil
  | cons hpr _ ih => exact .cons (hq _ (by simp) _ hpr) (ih fun p hp => hq p (by simp [hp]))

theorem sem_node_nil (k : Kind) (ps : List RT) :
    sem [] (.node k ps) = Flat.push k.markup ((ps.map (sem [])).flatten) := by
  simp only [sem, List.nil_append]
  rw [semL_ctx, semL_eq_flatMap, List.flatMap_def]

/-- **The logical-relation lemma.**  `pk`, `ps`, `py` restrict the classes / strings / symbols of the tree. -/
theorem render_rel {R : Type} (b : Backend R) (pk : Kind → Bool) (ps : Str → Bool) (py : Str → Bool)
    (Q : Flat → R → Prop)
    (hstr : ∀ s, ps s = true → Q (s.map fun c => (Atom.ch c, [])) (b.formatStr s))
    (hsym : ∀ n r, py n = true → b.symbols n = some r → Q [(Atom.sym n, [])] r)
    (hseq : ∀ fs xs, All₂ Q fs xs → Q fs.flatten (b.renderSequence xs))
    (htag : ∀ n f x, pk (.tag n) = true → Q f x → Q (Flat.push [.tag n] f) (b.formatTag n x))
    (hhref : ∀ u e f x, pk (.href u e) = true → Q f x → Q (Flat.push [.href u e] f) (b.formatHref u x e))
    (hprot : ∀ f x, pk .prot = true → Q f x → Q (Flat.push [.prot] f) (b.formatProtected x)) :
    ∀ t r, allKinds pk t = true → allStrs ps t = true → allSyms py t = true →
      render b t = some r → Q (sem [] t) r := by
  intro t
  induction t using RT.induct with
  | hstr s =>
    intro r _ h2 _ h
    simp only [render, Option.some.injEq] at h; subst h
    simp only [allStrs] at h2
    simpa [sem] using hstr s h2
  | hsym n =>
    intro r _ _ h3 h
    simp only [render] at h
    simp only [allSyms] at h3
    simpa [sem] using hsym n r h3 h
  | hnode k parts ih =>
    intro r h1 h2 h3 h
    simp only [allKinds, Bool.and_eq_true] at h1
    simp only [allStrs] at h2
    simp only [allSyms] at h3
    simp only [render] at h
    split at h
    · cases h
    · rename_i l hl
      have hall := renderL_some b parts l hl
      have hk := (allKindsL_iff _ _).1 h1.2
      have hs := (allStrsL_iff _ _).1 h2
      have hy := (allSymsL_iff _ _).1 h3
      have hF : All₂ Q (parts.map (sem [])) l :=
        all₂_map_of hall fun p hp r hr => ih p hp r (hk p hp) (hs p hp) (hy p hp) hr
      have hS := hseq _ _ hF
      rw [sem_node_nil]
      cases k with
      | text =>
        simp only [Option.some.injEq] at h; subst h
        simpa [Kind.markup, Flat.push] using hS
      | tag n =>
        simp only [Option.some.injEq] at h; subst h
        exact htag n _ _ h1.1 hS
      | href u e =>
        simp only [Option.some.injEq] at h; subst h
        exact hhref u e _ _ h1.1 hS
      | prot =>
        simp only [Option.some.injEq] at h; subst h
        exact hprot _ _ h1.1 hS

/-- `render_rel` without restrictions on the tree -/
theorem render_rel' {R : Type} (b : Backend R) (Q : Flat → R → Prop)
    (hstr : ∀ s, Q (s.map fun c => (Atom.ch c, [])) (b.formatStr s))
    (hsym : ∀ n r, b.symbols n = some r → Q [(Atom.sym n, [])] r)
    (hseq : ∀ fs xs, All₂ Q fs xs → Q fs.flatten (b.renderSequence xs))
    (htag : ∀ n f x, Q f x → Q (Flat.push [.tag n] f) (b.formatTag n x))
    (hhref : ∀ u e f x, Q f x → Q (Flat.push [.href u e] f) (b.formatHref u x e))
    (hprot : ∀ f x, Q f x → Q (Flat.push [.prot] f) (b.formatProtected x)) :
    ∀ t r, render b t = some r → Q (sem [] t) r := fun t r h =>
  render_rel b (fun _ => true) (fun _ => true) (fun _ => true) Q (fun s _ => hstr s)
    (fun n r _ h => hsym n r h) hseq (fun n f x _ => htag n f x) (fun u e f x _ => hhref u e f x)
    (fun f x _ => hprot f x) t r (allKinds_true t) (allStrs_true t) (allSyms_true t) h

theorem renderL_map {R S : Type} (b₁ : Backend R) (b₂ : Backend S) (h : R → S) (ps : List RT)
    (ih : ∀ p ∈ ps, (render b₁ p).map h = render b₂ p) :
    (renderL b₁ ps).map (List.map h) = renderL b₂ ps := by
  induction ps with
  | nil => rfl
  | cons p ps ih2 =>
    have h1 := ih p (by simp)
    have h2 := ih2 fun q hq => ih q (by simp [hq])
    simp only [renderL]
    cases hp : render b₁ p with
    | none => rw [hp] at h1; simp only [Option.map_none] at h1; simp [← h1]
    | some r =>
      rw [hp] at h1; simp only [Option.map_some] at h1
      rw [← h1]
      cases hps : renderL b₁ ps with
      | none => rw [hps] at h2; simp only [Option.map_none] at h2; simp [← h2]
      | some rs => rw [hps] at h2; simp only [Option.map_some] at h2; simp [← h2]

/-- a map between render types that commutes with the backend operations commutes with `render` -/
theorem render_map {R S : Type} (b₁ : Backend R) (b₂ : Backend S) (h : R → S)
    (hstr : ∀ s, h (b₁.formatStr s) = b₂.formatStr s)
    (hsym : ∀ n, (b₁.symbols n).map h = b₂.symbols n)
    (hseq : ∀ l, h (b₁.renderSequence l) = b₂.renderSequence (l.map h))
    (htag : ∀ n x, h (b₁.formatTag n x) = b₂.formatTag n (h x))
    (hhref : ∀ u e x, h (b₁.formatHref u x e) = b₂.formatHref u (h x) e)
    (hprot : ∀ x, h (b₁.formatProtected x) = b₂.formatProtected (h x)) :
    ∀ t, (render b₁ t).map h = render b₂ t := by
  intro t
  induction t using RT.induct with
  | hstr s => simp [render, hstr]
  | hsym n => simp [render, hsym]
  | hnode k ps ih =>
    have hl := renderL_map b₁ b₂ h ps ih
    simp only [render]
    cases hps : renderL b₁ ps with
    | none => rw [hps] at hl; simp only [Option.map_none] at hl; simp [← hl]
    | some l =>
      rw [hps] at hl; simp only [Option.map_some] at hl
      rw [← hl]
      cases k <;> simp [hseq, htag, hhref, hprot]

/-- rendering succeeds when the backend knows every symbol of the tree -/
theorem render_isSome {R : Type} (b : Backend R) (t : RT)
    (h : allSyms (fun n => (b.symbols n).isSome) t = true) : (render b t).isSome = true := by
  induction t using RT.induct with
  | hstr s => simp [render]
  | hsym n => simpa [allSyms, render] using h
  | hnode k ps ih =>
    simp only [allSyms] at h
    have hy := (allSymsL_iff _ _).1 h
    have hl : (renderL b ps).isSome = true := by
      clear h
      induction ps with
      | nil => simp [renderL]
      | cons p ps ih2 =>
        have h1 := ih p (by simp) (hy p (by simp))
        have h2 := ih2 (fun q hq => ih q (by simp [hq])) (fun q hq => hy q (by simp [hq]))
        simp only [renderL]
        cases hp : render b p with
        | none => simp [hp] at h1
        | some r =>
          cases hps : renderL b ps with
          | none => simp [hps] at h2
          | some rs => simp
    simp only [render]
    cases hps : renderL b ps with
    | none => simp [hps] at hl
    | some l => cases k <;> simp

end RT
end Pybtex
