/-
Lemmas about the LaTeX backend created with an arbitrary input encoding (`Backends.latexE`, `Latex.latexcodecEncodeE`)
and about the fixed symbol tables of `Spec/Backends.lean`.
-/
import PybtexModel.Lemmas.BackendsFromLatex

namespace Pybtex
open RT Backends Spec

/-! ### two association lists that agree as maps -/

theorem lookup_eq_of_agree {tbl spec : List (Str × Str)} (h : symbolsAgree tbl spec = true) (n : Str) :
    tbl.lookup n = spec.lookup n := by
  simp only [symbolsAgree, Bool.and_eq_true, List.all_eq_true, beq_iff_eq] at h
  cases h1 : tbl.lookup n with
  | some v => exact (h.1 (n, v) (lookup_mem h1)).symm
  | none =>
    cases h2 : spec.lookup n with
    | none => rfl
    | some w =>
      have := h.2 (n, w) (lookup_mem h2)
      simp only at this
      rw [h1] at this; cases this

namespace Backends.Latex
open Spec.Tex

/-! ### the encoder for an arbitrary input encoding -/

def isAscii (c : Char) : Bool := decide (c.toNat < 128)

/-- the regenerated tables of the encoder: the keys of the ASCII table are ASCII, the keys of the other table are not;
every translation is non-empty, ASCII, and brace-balanced -/
def tablesOKE : Bool :=
  (Gen.latexAscii.all fun p => isAscii p.1 && p.2.1.all isAscii) &&
    Gen.latexUnicode.all fun p => !isAscii p.1 && !p.2.1.isEmpty && p.2.1.all isAscii && balanced p.2.1

/-- the total extension of a partial encoder the theorems about `latex encode` are applied to: where the encoder fails
(no rendering exists then) the string is left alone -/
def totalOf (enc : Str → Option Str) (s : Str) : Str :=
  match enc s with
  | some o => o
  | none => s

theorem isAscii_not_brace {c : Char} (h : isAscii c = false) : c ≠ '{' ∧ c ≠ '}' := by
  constructor <;> (intro hc; subst hc; simp [isAscii] at h)

theorem latexAscii_lookup_none (hT : tablesOKE = true) {c : Char} (hc : isAscii c = false) :
    Gen.latexAscii.lookup c = none := by
  cases h : Gen.latexAscii.lookup c with
  | none => rfl
  | some e =>
    simp only [tablesOKE, Bool.and_eq_true, List.all_eq_true] at hT
    have := (hT.1 (c, e) (lookup_mem h)).1
    simp only at this
    rw [hc] at this; cases this

/-- with an encoding that can represent everything (UTF-8) the encoder is the total one -/
theorem encodeCharE_utf8 (hT : tablesOKE = true) (c : Char) : encodeCharE (fun _ => true) c = some (encodeChar c) := by
  unfold encodeCharE latexMap encodeChar
  by_cases hc : c.toNat < 128
  · simp only [hc, if_true]
    cases Gen.latexAscii.lookup c <;> rfl
  · simp only [hc, if_false]
    rw [latexAscii_lookup_none hT (by simp [isAscii, hc])]
    simp

theorem encodeGoE_utf8 (hT : tablesOKE = true) (s : Str) :
    ∀ st, encodeGoE (fun _ => true) st s = some (encodeGo st s) := by
  induction s with
  | nil => intro st; rfl
  | cons c s ih =>
    intro st
    simp only [encodeGoE, encodeCharE_utf8 hT, ih, encodeGo]

/-- what the encoder emits for one character, in every case -/
theorem encodeCharE_cases (E : Char → Bool) (c : Char) (e : Str × Bool) (h : encodeCharE E c = some e) :
    (isAscii c = true ∧ Gen.latexAscii.lookup c = some e) ∨ (E c = true ∧ e = ([c], false)) ∨
      (isAscii c = false ∧ E c = false ∧ Gen.latexUnicode.lookup c = some e) := by
  unfold encodeCharE latexMap at h
  by_cases hc : c.toNat < 128
  · simp only [hc, if_true] at h
    cases hl : Gen.latexAscii.lookup c with
    | some e' =>
      rw [hl] at h; simp only [Option.some.injEq] at h
      exact Or.inl ⟨by simp [isAscii, hc], by rw [← h]⟩
    | none =>
      rw [hl] at h
      simp only at h
      split at h
      · rename_i hE
        simp only [Option.some.injEq] at h
        exact Or.inr (Or.inl ⟨hE, h.symm⟩)
      · cases h
  · simp only [hc, if_false] at h
    split at h
    · rename_i hE
      simp only [Option.some.injEq] at h
      exact Or.inr (Or.inl ⟨hE, h.symm⟩)
    · rename_i hE
      exact Or.inr (Or.inr ⟨by simp [isAscii, hc], by simpa using hE, h⟩)

theorem encodeCharE_none (E : Char → Bool) (c : Char) :
    encodeCharE E c = none ↔ E c = false ∧ latexMap c = none := by
  unfold encodeCharE
  by_cases hc : c.toNat < 128
  · simp only [hc, if_true]
    cases hl : latexMap c with
    | some e => simp
    | none =>
      simp only
      cases E c <;> simp
  · simp only [hc, if_false]
    cases hE : E c <;> simp

theorem spaceBytes_all (P : Char → Bool) (hs : P ' ' = true) (hb : P '\\' = true) (st : Bool) (w : Str)
    (h : w.all P = true) : (spaceBytes st w).all P = true := by
  unfold spaceBytes
  split
  · split
    · simp only [List.all_cons, Bool.and_eq_true] at h ⊢
      exact ⟨hb, hs, h.2⟩
    · simp only [List.all_cons, Bool.and_eq_true]
      exact ⟨hs, h⟩
  · exact h

/-- facts about one emitted piece -/
theorem encodeCharE_facts (hT : tablesOKE = true) (hA : asciiOK Gen.latexAscii = true) (E : Char → Bool)
    (hE : ∀ c, isAscii c = true → E c = true) (c : Char) (e : Str × Bool) (h : encodeCharE E c = some e) :
    e.1.all E = true ∧ e.1 ≠ [] ∧ ∀ d, depthAfter d e.1 = depthAfter d [c] := by
  simp only [tablesOKE, Bool.and_eq_true, List.all_eq_true] at hT
  rcases encodeCharE_cases E c e h with ⟨_, hl⟩ | ⟨hEc, he⟩ | ⟨hc, _, hl⟩
  · have h1 := hT.1 (c, e) (lookup_mem hl)
    have h2 := List.all_eq_true.1 hA (c, e) (lookup_mem hl)
    simp only [Bool.and_eq_true, bne_iff_ne, Bool.not_eq_true', List.isEmpty_eq_false_iff] at h2
    refine ⟨?_, h2.1.2, ?_⟩
    · rw [List.all_eq_true]; intro x hx
      exact hE x (h1.2 x hx)
    · intro d
      rw [depthAfter_braceFree h2.2]
      simp [depthAfter, h2.1.1.1, h2.1.1.2]
  · subst he
    exact ⟨by simp [hEc], by simp, fun _ => rfl⟩
  · have h1 := hT.2 (c, e) (lookup_mem hl)
    simp only [Bool.not_eq_true', List.isEmpty_eq_false_iff] at h1
    refine ⟨?_, h1.1.1.2, ?_⟩
    · rw [List.all_eq_true]; intro x hx
      exact hE x (h1.1.2 x hx)
    · intro d
      rw [depthAfter_balanced h1.2]
      have := isAscii_not_brace hc
      simp [depthAfter, this.1, this.2]

/-- the encoder for any encoding that contains ASCII: the output is representable, nothing is erased, the brace
depth is kept -/
theorem encodeGoE_facts (hT : tablesOKE = true) (hA : asciiOK Gen.latexAscii = true) (E : Char → Bool)
    (hE : ∀ c, isAscii c = true → E c = true) (s : Str) :
    ∀ st o, encodeGoE E st s = some o →
      o.all E = true ∧ (o = [] → s = []) ∧ ∀ d, depthAfter d o = depthAfter d s := by
  induction s with
  | nil =>
    intro st o h
    simp only [encodeGoE, Option.some.injEq] at h; subst h
    exact ⟨rfl, fun _ => rfl, fun _ => rfl⟩
  | cons c s ih =>
    intro st o h
    simp only [encodeGoE] at h
    split at h
    · cases h
    · rename_i e he
      split at h
      · cases h
      · rename_i o' ho'
        simp only [Option.some.injEq] at h; subst h
        obtain ⟨f1, f2, f3⟩ := encodeCharE_facts hT hA E hE c e he
        obtain ⟨g1, _, g3⟩ := ih e.2 o' ho'
        refine ⟨?_, ?_, ?_⟩
        · rw [List.all_append, Bool.and_eq_true]
          exact ⟨spaceBytes_all E (hE ' ' (by decide)) (hE '\\' (by decide)) st e.1 f1, g1⟩
        · intro h0
          simp only [List.append_eq_nil_iff] at h0
          exact absurd h0.1 (spaceBytes_ne_nil _ _ f2)
        · intro d
          rw [depthAfter_app, depthAfter_spaceBytes, f3 d]
          rw [show c :: s = [c] ++ s from rfl, depthAfter_app]
          cases depthAfter d [c] with
          | none => rfl
          | some d' => simp only [Option.bind_some]; exact g3 d'

/-- the encoder fails exactly on a string with a character that the encoding lacks and the table does not translate -/
theorem encodeGoE_none (E : Char → Bool) (s : Str) :
    ∀ st, encodeGoE E st s = none ↔ ∃ c ∈ s, E c = false ∧ latexMap c = none := by
  induction s with
  | nil => intro st; simp [encodeGoE]
  | cons c s ih =>
    intro st
    simp only [encodeGoE]
    cases he : encodeCharE E c with
    | none =>
      have := (encodeCharE_none E c).1 he
      simp only [List.mem_cons, exists_eq_or_imp, true_iff]
      exact Or.inl this
    | some e =>
      have hn : ¬ (E c = false ∧ latexMap c = none) := by
        intro hh
        rw [(encodeCharE_none E c).2 hh] at he; cases he
      simp only [List.mem_cons, exists_eq_or_imp]
      cases hr : encodeGoE E e.2 s with
      | none =>
        simp only [true_iff]
        exact Or.inr ((ih e.2).1 hr)
      | some o =>
        simp only [reduceCtorEq, false_iff, not_or]
        refine ⟨hn, ?_⟩
        intro hh
        rw [(ih e.2).2 hh] at hr; cases hr

theorem totalOf_facts (hT : tablesOKE = true) (hA : asciiOK Gen.latexAscii = true) (E : Char → Bool)
    (hE : ∀ c, isAscii c = true → E c = true) (s : Str) :
    (totalOf (latexcodecEncodeE E) s = [] → s = []) ∧
      ∀ d, depthAfter d (totalOf (latexcodecEncodeE E) s) = depthAfter d s := by
  unfold totalOf latexcodecEncodeE
  cases h : encodeGoE E false s with
  | none => exact ⟨fun h => h, fun _ => rfl⟩
  | some o =>
    obtain ⟨_, h2, h3⟩ := encodeGoE_facts hT hA E hE s false o h
    exact ⟨h2, h3⟩

end Backends.Latex

/-! ### the backend whose render type carries the exception -/
namespace Backends

theorem seqE_ok (l : List (Except Err Str)) (x : Str) (h : seqE l = .ok x) :
    ∃ l' : List Str, l = l'.map .ok ∧ x = l'.flatten := by
  induction l generalizing x with
  | nil =>
    simp only [seqE, Except.ok.injEq] at h
    exact ⟨[], rfl, by simp [← h]⟩
  | cons a l ih =>
    cases a with
    | error e => simp [seqE] at h
    | ok y =>
      simp only [seqE] at h
      split at h
      · cases h
      · rename_i z hz
        simp only [Except.ok.injEq] at h
        obtain ⟨l', h1, h2⟩ := ih z hz
        exact ⟨y :: l', by simp [h1], by simp [← h, h2]⟩

open Latex in
/-- **a successful rendering with any encoding is the rendering of the total backend** over the encoder's total
extension -/
theorem render_latexE_ok (enc : Str → Option Str) :
    ∀ t out, render (latexE enc) t = some (.ok out) → render (latex (totalOf enc)) t = some out := by
  intro t
  induction t using RT.induct with
  | hstr s =>
    intro out h
    simp only [render, latexE, Option.some.injEq] at h
    simp only [render, latex, Latex.formatStr, totalOf]
    cases he : enc s with
    | none => rw [he] at h; cases h
    | some o => rw [he] at h; simp only [Except.ok.injEq] at h; rw [h]
  | hsym n =>
    intro out h
    simp only [render, latexE, Option.some.injEq] at h
    simp only [render, latex]
    cases hl : Gen.latexSymbols.lookup n with
    | none => rw [hl] at h; cases h
    | some o => rw [hl] at h; simp only [Except.ok.injEq] at h; rw [h]
  | hnode k ps ih =>
    intro out h
    -- the parts: all rendered without exception
    have hparts : ∀ (l : List (Except Err Str)) (l' : List Str), renderL (latexE enc) ps = some l → l = l'.map .ok →
        renderL (latex (totalOf enc)) ps = some l' := by
      clear h
      induction ps with
      | nil =>
        intro l l' h1 h2
        simp only [renderL, Option.some.injEq] at h1
        subst h1
        cases l' with
        | nil => rfl
        | cons a b => simp at h2
      | cons p ps ih2 =>
        intro l l' h1 h2
        simp only [renderL] at h1
        split at h1
        · cases h1
        · rename_i r hr
          split at h1
          · cases h1
          · rename_i rs hrs
            simp only [Option.some.injEq] at h1
            subst h1
            cases l' with
            | nil => simp at h2
            | cons a b =>
              simp only [List.map_cons, List.cons.injEq] at h2
              have e1 := ih p (by simp) a (by rw [hr, h2.1])
              have e2 := ih2 (fun q hq => ih q (by simp [hq])) rs b hrs h2.2
              simp only [renderL, e1, e2]
    simp only [render] at h
    split at h
    · cases h
    · rename_i l hl
      simp only [latexE] at h
      cases hs : seqE l with
      | error e =>
        cases k <;> simp [hs] at h
      | ok x =>
        obtain ⟨l', h1, h2⟩ := seqE_ok l x hs
        have hr := hparts l l' hl h1
        have hseq : (latex (totalOf enc)).renderSequence l' = x := by
          simp [latex, Backends.renderSequence, h2]
        simp only [render, hr, hseq]
        rw [hs] at h
        cases k with
        | text =>
          simp only [Option.some.injEq, Except.ok.injEq] at h
          rw [h]
        | tag n =>
          simp only [Option.some.injEq, Except.ok.injEq] at h
          rw [← h]; rfl
        | prot =>
          simp only [Option.some.injEq, Except.ok.injEq] at h
          rw [← h]; rfl
        | href u e =>
          simp only [Option.some.injEq] at h
          show some (Latex.formatHref (totalOf enc) u x e) = some out
          by_cases hx : x.isEmpty = true
          · simp only [hx, if_true, Except.ok.injEq] at h
            simp [Latex.formatHref, hx, h]
          · simp only [hx] at h
            cases hu : enc u with
            | none => rw [hu] at h; simp at h
            | some eu =>
              rw [hu] at h
              simp only [Bool.false_eq_true, if_false, Except.ok.injEq] at h
              rw [← h]
              simp only [Latex.formatHref, Latex.formatStr, totalOf, hu]
              rfl

/-- the rendering with any encoding never raises `KeyError` outside the render type -/
theorem render_latexE_isSome (enc : Str → Option Str) (t : RT) : (render (latexE enc) t).isSome = true :=
  render_isSome (latexE enc) t (by
    have : ∀ n, ((latexE enc).symbols n).isSome = true := fun n => rfl
    have h := allSyms_true t
    induction t using RT.induct with
    | hstr s => rfl
    | hsym n => simp [allSyms, this]
    | hnode k ps ih =>
      simp only [allSyms]
      rw [allSymsL_iff]
      intro p hp
      exact ih p hp (allSyms_true p))

theorem all_of_ascii (E : Char → Bool) (hE : ∀ c, Latex.isAscii c = true → E c = true) (w : Str)
    (hw : w.all Latex.isAscii = true) : w.all E = true := by
  rw [List.all_eq_true] at hw ⊢
  exact fun x hx => hE x (hw x hx)

theorem formatHref_all (E : Char → Bool) (hE : ∀ c, Latex.isAscii c = true → E c = true) (enc : Str → Str) (u y : Str)
    (e : Bool) (hu : u.all E = true) (hy : y.all E = true) : (Latex.formatHref enc u y e).all E = true := by
  have e1 : "\\url{".toList.all E = true := all_of_ascii E hE _ (by decide)
  have e2 : "\\href".toList.all E = true := all_of_ascii E hE _ (by decide)
  have e3 : "[pdfnewwindow]".toList.all E = true := all_of_ascii E hE _ (by decide)
  have e4 : "}{".toList.all E = true := all_of_ascii E hE _ (by decide)
  have e5 : E '}' = true := hE _ (by decide)
  have e6 : E '{' = true := hE _ (by decide)
  unfold Latex.formatHref
  by_cases h1 : y.isEmpty = true
  · simp [h1]
  · by_cases h2 : y = Latex.formatStr enc u
    · simp only [h1, Bool.false_eq_true, if_false, ← h2, if_true, List.all_append, Bool.and_eq_true, List.all_cons,
        List.all_nil, Bool.and_true]
      exact ⟨⟨e1, hu⟩, e5⟩
    · cases e
      · simp only [h1, Bool.false_eq_true, if_false, h2, List.all_append, Bool.and_eq_true, List.all_cons, List.all_nil,
          Bool.and_true]
        exact ⟨⟨⟨⟨⟨e2, e6⟩, hu⟩, e4⟩, hy⟩, e5⟩
      · simp only [h1, Bool.false_eq_true, if_false, h2, if_true, List.all_append, Bool.and_eq_true, List.all_cons,
          List.all_nil, Bool.and_true]
        exact ⟨⟨⟨⟨⟨⟨e2, e3⟩, e6⟩, hu⟩, e4⟩, hy⟩, e5⟩

theorem formatTag_all (E : Char → Bool) (hE : ∀ c, Latex.isAscii c = true → E c = true)
    (htag : Gen.latexTags.all (fun p => match p.2 with | some tag => tag.all Latex.isAscii | none => true) = true)
    (n y : Str) (hy : y.all E = true) : (Latex.formatTag n y).all E = true := by
  have e5 : E '}' = true := hE _ (by decide)
  have e6 : E '{' = true := hE _ (by decide)
  have e7 : E '\\' = true := hE _ (by decide)
  unfold Latex.formatTag
  by_cases h1 : y.isEmpty = true
  · cases hl : Gen.latexTags.lookup n with
    | none => simp [h1]
    | some o => cases o <;> simp [h1]
  · have hbare : (['{'] ++ y ++ ['}']).all E = true := by
      simp only [List.all_append, List.all_cons, List.all_nil, Bool.and_true, Bool.and_eq_true]
      exact ⟨⟨e6, hy⟩, e5⟩
    cases hl : Gen.latexTags.lookup n with
    | none => simpa [h1] using hbare
    | some o =>
      cases o with
      | none => simpa [h1] using hbare
      | some tag =>
        have ht := List.all_eq_true.1 htag (n, some tag) (lookup_mem hl)
        simp only at ht
        have ht' := all_of_ascii E hE tag ht
        simp only [h1, Bool.false_eq_true, if_false, List.all_append, List.all_cons, List.all_nil, Bool.and_true,
          Bool.and_eq_true]
        exact ⟨⟨⟨⟨e7, ht'⟩, e6⟩, hy⟩, e5⟩

/-- every character of a successful rendering is representable when the URLs are -/
theorem render_latexE_all (E : Char → Bool) (hE : ∀ c, Latex.isAscii c = true → E c = true)
    (enc : Str → Option Str) (henc : ∀ s o, enc s = some o → o.all E = true)
    (hsym : Gen.latexSymbols.all (fun p => p.2.all Latex.isAscii) = true)
    (htag : Gen.latexTags.all (fun p => match p.2 with | some tag => tag.all Latex.isAscii | none => true) = true)
    (t : RT) (r : Except Err Str)
    (hk : allKinds (fun k => match k with | .href u _ => u.all E | _ => true) t = true)
    (h : render (latexE enc) t = some r) : ∀ out, r = .ok out → out.all E = true := by
  have hb : ∀ c : Char, Latex.isAscii c = true → E c = true := hE
  have hlit : ∀ w : Str, w.all Latex.isAscii = true → w.all E = true := by
    intro w hw
    rw [List.all_eq_true] at hw ⊢
    exact fun x hx => hE x (hw x hx)
  refine render_rel (latexE enc) (fun k => match k with | .href u _ => u.all E | _ => true) (fun _ => true) (fun _ => true)
    (fun _ r => ∀ out, r = .ok out → out.all E = true) ?_ ?_ ?_ ?_ ?_ ?_ t r hk (allStrs_true t) (allSyms_true t) h
  · intro s _ out ho
    simp only [latexE] at ho
    cases he : enc s with
    | none => rw [he] at ho; cases ho
    | some o => rw [he] at ho; simp only [Except.ok.injEq] at ho; rw [← ho]; exact henc s o he
  · intro n r _ hr out ho
    simp only [latexE, Option.some.injEq] at hr
    cases hl : Gen.latexSymbols.lookup n with
    | none => rw [hl] at hr; rw [← hr] at ho; cases ho
    | some o =>
      rw [hl] at hr; rw [← hr] at ho
      simp only [Except.ok.injEq] at ho
      rw [← ho]
      exact hlit o (List.all_eq_true.1 hsym (n, o) (lookup_mem hl))
  · intro fs xs hall out ho
    have ho' : seqE xs = .ok out := ho
    obtain ⟨l', h1, h2⟩ := seqE_ok xs out ho'
    subst h2
    rw [List.all_flatten, List.all_eq_true]
    intro w hw
    clear ho ho'
    induction hall generalizing l' with
    | nil =>
      cases l' with
      | nil => cases hw
      | cons a b => simp at h1
    | cons hq _ ih =>
      cases l' with
      | nil => simp at h1
      | cons a b =>
        simp only [List.map_cons, List.cons.injEq] at h1
        rcases List.mem_cons.1 hw with hw | hw
        · rw [hw]; exact hq a h1.1
        · exact ih b h1.2 hw
  · intro n f x _ hq out ho
    simp only [latexE] at ho
    cases x with
    | error e => cases ho
    | ok y =>
      simp only [Except.ok.injEq] at ho
      rw [← ho]
      exact formatTag_all E hE htag n y (hq y rfl)
  · intro u e f x hu hq out ho
    simp only at hu
    simp only [latexE] at ho
    cases x with
    | error err => cases ho
    | ok y =>
      have hy := hq y rfl
      simp only at ho
      split at ho
      · simp only [Except.ok.injEq] at ho; rw [← ho]; rfl
      · cases heu : enc u with
        | none => rw [heu] at ho; cases ho
        | some eu =>
          rw [heu] at ho
          simp only [Except.ok.injEq] at ho
          rw [← ho]
          exact formatHref_all E hE _ u y e hu hy
  · intro f x _ hq out ho
    simp only [latexE] at ho
    cases x with
    | error e => cases ho
    | ok y =>
      simp only [Except.ok.injEq] at ho
      rw [← ho]
      simp only [Latex.formatProtected, List.all_append, List.all_cons, List.all_nil, Bool.and_true, Bool.and_eq_true]
      exact ⟨⟨hb '{' (by decide), hq y rfl⟩, hb '}' (by decide)⟩

end Backends
end Pybtex
