/-
C04 helper lemmas: the case rule on the scanner's token list (`Spec.tokCaseOf (scan tok)`) against the
scanner-free restatement of bibtex.web's rule (`Spec.caseBibtex`).
-/
import PybtexModel.Lemmas.Names

namespace Pybtex.Names
open Pybtex Pybtex.Spec

/-- inside a special character the scanner collects `specialBody` and hands it out as ONE level-1
token, followed by the closing brace -/
theorem scanM_spec_body : ∀ (s : Str) (k : Nat) (acc : Str) (toks : List Tok),
    scanM (.spec k acc) s = some toks →
    ∃ rest, toks = (acc ++ specialBody k s, 1) :: (['}'], 0) :: rest := by
  intro s
  induction s with
  | nil =>
    intro k acc toks h
    simp only [scanM, Option.some.injEq] at h
    exact ⟨[], by rw [← h]; simp [specialBody]⟩
  | cons c r ih =>
    intro k acc toks h
    simp only [scanM] at h
    by_cases hc : c = '{'
    · simp only [hc, if_true] at h
      split at h
      · cases h
      · obtain ⟨rest, hr⟩ := ih _ _ _ h
        exact ⟨rest, by rw [hr]; simp [specialBody, hc]⟩
    · simp only [hc, if_false] at h
      by_cases hc2 : c = '}'
      · simp only [hc2, if_true] at h
        by_cases hk : k ≤ 1
        · simp only [hk, if_true, Option.map_eq_some_iff] at h
          obtain ⟨t, _, ht⟩ := h
          exact ⟨t, by rw [← ht]; simp [specialBody, hc2, hk]⟩
        · simp only [hk, if_false] at h
          obtain ⟨rest, hr⟩ := ih _ _ _ h
          refine ⟨rest, ?_⟩
          rw [hr]
          have : ('}' : Char) ≠ '{' := by decide
          simp [specialBody, hc2, hk, this]
      · simp only [hc2, if_false] at h
        obtain ⟨rest, hr⟩ := ih _ _ _ h
        exact ⟨rest, by rw [hr]; simp [specialBody, hc, hc2]⟩

theorem tokCaseOf_skip {t : Str} {l : Nat} {r : List Tok}
    (h0 : ¬ (l = 0 ∧ t ≠ [] ∧ t.all isAlphaN = true)) (h1 : ¬ (l = 1 ∧ startsWithBackslash t = true)) :
    tokCaseOf ((t, l) :: r) = tokCaseOf r := by
  simp only [tokCaseOf, h0, h1, if_false]

theorem brace_not_alpha : isAlphaN '{' = false ∧ isAlphaN '}' = false :=
  ⟨(structural_no_class (by decide)).1, (structural_no_class (by decide)).1⟩

/-- **The scanner's case rule is bibtex.web's rule** as long as no backslash stands at brace level 1
of an ordinary group before the case is decided. -/
theorem tokCaseOf_scanM_norm : ∀ (s : Str) (d : Nat) (toks : List Tok),
    scanM (.norm d) s = some toks → plainGroups d s = true → tokCaseOf toks = caseBibtex d s := by
  intro s
  induction s with
  | nil =>
    intro d toks h _
    simp only [scanM, Option.some.injEq] at h
    subst h; rfl
  | cons c r ih =>
    intro d toks h hp
    simp only [scanM] at h
    by_cases hc : c = '{'
    · subst hc
      simp only [if_true] at h
      by_cases hsp : d = 0 ∧ r.head? = some '\\'
      · -- a special character
        simp only [hsp, and_self, if_true, Option.map_eq_some_iff] at h
        obtain ⟨t, ht, rfl⟩ := h
        obtain ⟨rest, hr⟩ := scanM_spec_body r 1 [] t ht
        rw [tokCaseOf_skip (by simp) (by simp [startsWithBackslash]), hr]
        have hbs : startsWithBackslash (specialBody 1 r) = true := by
          obtain ⟨_, hh⟩ := hsp
          cases r with
          | nil => simp at hh
          | cons x r' =>
            simp only [List.head?_cons, Option.some.injEq] at hh
            subst hh
            simp [specialBody, startsWithBackslash]
        simp only [List.nil_append, tokCaseOf, caseBibtex, hsp, and_self, if_true, hbs]
        simp
      · simp only [hsp, if_false] at h
        split at h
        · cases h
        · simp only [Option.map_eq_some_iff] at h
          obtain ⟨t, ht, rfl⟩ := h
          simp only [plainGroups, if_true, hsp, if_false] at hp
          rw [tokCaseOf_skip (by simp) (by simp [startsWithBackslash])]
          simp only [caseBibtex, if_true, hsp, if_false]
          exact ih _ _ ht hp
    · simp only [hc, if_false] at h
      by_cases hc2 : c = '}'
      · subst hc2
        simp only [plainGroups, hc, if_false, if_true] at hp
        simp only [caseBibtex, hc, if_false, if_true]
        by_cases hd : d > 0
        · simp only [hd, and_self, if_true, Option.map_eq_some_iff] at h
          obtain ⟨t, ht, rfl⟩ := h
          rw [tokCaseOf_skip (by simp [brace_not_alpha.2]) (by simp [startsWithBackslash])]
          exact ih _ _ ht hp
        · have hd0 : d = 0 := by omega
          subst hd0
          simp only [Nat.lt_irrefl, and_false, if_false, Option.map_eq_some_iff] at h
          obtain ⟨t, ht, rfl⟩ := h
          rw [tokCaseOf_skip (by simp [brace_not_alpha.2]) (by simp)]
          exact ih _ _ ht hp
      · have hnb : ¬ (c = '}' ∧ d > 0) := fun hh => hc2 hh.1
        simp only [hnb, if_false, Option.map_eq_some_iff] at h
        obtain ⟨t, ht, rfl⟩ := h
        simp only [plainGroups, hc, hc2, if_false] at hp
        simp only [caseBibtex, hc, hc2, if_false]
        by_cases ha : d = 0 ∧ isAlphaN c = true
        · simp only [ha, and_self, if_true]
          obtain ⟨rfl, hal⟩ := ha
          simp only [tokCaseOf, List.all_cons, List.all_nil, Bool.and_true, hal, ne_eq,
            List.cons_ne_self, not_false_eq_true, and_self, if_true, charCase]
        · simp only [ha, if_false, Bool.and_eq_true, Bool.not_eq_true', decide_eq_false_iff_not] at hp
          simp only [ha, if_false]
          rw [tokCaseOf_skip ?_ ?_]
          · exact ih _ _ ht hp.2
          · intro hh
            exact ha ⟨hh.1, by simpa using hh.2.2⟩
          · intro hh
            apply hp.1
            refine ⟨hh.1, ?_⟩
            simpa [startsWithBackslash] using hh.2

/-- on a token the scanner accepts, without a backslash at brace level 1 of an ordinary group, the
rule of `Spec.tokenCase` is the scanner-free rule -/
theorem tokenCase_eq_bibtex {tok : Str} {toks : List Tok} (hs : scan tok = some toks)
    (hp : plainGroups 0 tok = true) : tokenCase tok = tokenCaseBibtex tok := by
  unfold tokenCase tokenCaseBibtex
  rw [hs]
  simp only []
  rw [tokCaseOf_scanM_norm tok 0 toks hs hp]

end Pybtex.Names
