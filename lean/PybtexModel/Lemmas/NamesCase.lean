/-
C04 helper lemmas: the case rule on the scanner's token list (`Spec.tokCaseOf (scan tok)`) against the
scanner-free restatement of bibtex.web's rule (`Spec.caseBibtex`).
-/
import PybtexModel.Lemmas.Names

namespace Pybtex.Names
open Pybtex Pybtex.Spec

/-- inside a special character the scanner collects `specialBody` and hands it out as ONE level-1
token, followed by the closing brace -/
theorem scanM_spec_body : ∀ (s : Str) (k : Nat) (acc : Str) (toks : List Tok),
    scanM (.spec k acc) s = some toks →
    ∃ rest, toks = (acc ++ specialBody k s, 1) :: (['}'], 0) :: rest := by
  intro s
  induction s with
  | nil =>
    intro k acc toks h
    simp only [scanM, Option.some.injEq] at h
    exact ⟨[], by rw [← h]; simp [specialBody]⟩
  | cons c r ih =>
    intro k acc toks h
    simp only [scanM] at h
    by_cases hc : c = '{'
    · simp only [hc, if_true] at h
      split at h
      · cases h
      · obtain ⟨rest, hr⟩ := ih _ _ _ h
        exact ⟨rest, by rw [hr]; simp [specialBody, hc]⟩
    · simp only [hc, if_false] at h
      by_cases hc2 : c = '}'
      · simp only [hc2, if_true] at h
        by_cases hk : k ≤ 1
        · simp only [hk, if_true, Option.map_eq_some_iff] at h
          obtain ⟨t, _, ht⟩ := h
          exact ⟨t, by rw [← ht]; simp [specialBody, hc2, hk]⟩
        · simp only [hk, if_false] at h
          obtain ⟨rest, hr⟩ := ih _ _ _ h
          refine ⟨rest, ?_⟩
          rw [hr]
          have : ('}' : Char) ≠ '{' := by decide
          simp [specialBody, hc2, hk, this]
      · simp only [hc2, if_false] at h
        obtain ⟨rest, hr⟩ := ih _ _ _ h
        exact ⟨rest, by rw [hr]; simp [specialBody, hc, hc2]⟩

theorem tokCaseFrom_skip {b : Bool} {t : Str} {l : Nat} {r : List Tok}
    (h0 : ¬ (l = 0 ∧ t ≠ [] ∧ t.all isAlphaN = true))
    (h1 : ¬ (l = 1 ∧ startsWithBackslash t = true ∧ b = true)) :
    tokCaseFrom b ((t, l) :: r) = tokCaseFrom (decide (t = ['{'] ∧ l = 1)) r := by
  simp only [tokCaseFrom, h0, h1, if_false]

theorem brace_not_alpha : isAlphaN '{' = false ∧ isAlphaN '}' = false :=
  ⟨(structural_no_class (by decide)).1, (structural_no_class (by decide)).1⟩

/-- **The scanner's case rule (after the repair C04-3) is bibtex.web's rule.**  `b` = the previous
token is the brace that opened a group at level 0; in normal mode the scanner is then NOT in front
of a backslash (it would have entered a special character). -/
theorem tokCaseFrom_scanM_norm : ∀ (s : Str) (d : Nat) (toks : List Tok) (b : Bool),
    scanM (.norm d) s = some toks → (b = true → s.head? ≠ some '\\') →
    tokCaseFrom b toks = caseBibtex d s := by
  intro s
  induction s with
  | nil =>
    intro d toks b h _
    simp only [scanM, Option.some.injEq] at h
    subst h; rfl
  | cons c r ih =>
    intro d toks b h hb
    simp only [scanM] at h
    by_cases hc : c = '{'
    · subst hc
      simp only [if_true] at h
      by_cases hsp : d = 0 ∧ r.head? = some '\\'
      · -- a special character
        simp only [hsp, and_self, if_true, Option.map_eq_some_iff] at h
        obtain ⟨t, ht, rfl⟩ := h
        obtain ⟨rest, hr⟩ := scanM_spec_body r 1 [] t ht
        rw [tokCaseFrom_skip (by simp) (by simp [startsWithBackslash]), hr]
        have hbs : startsWithBackslash (specialBody 1 r) = true := by
          obtain ⟨_, hh⟩ := hsp
          cases r with
          | nil => simp at hh
          | cons x r' =>
            simp only [List.head?_cons, Option.some.injEq] at hh
            subst hh
            simp [specialBody, startsWithBackslash]
        simp only [List.nil_append, tokCaseFrom, caseBibtex, hsp, and_self, if_true, hbs, decide_true]
        simp
      · simp only [hsp, if_false] at h
        split at h
        · cases h
        · simp only [Option.map_eq_some_iff] at h
          obtain ⟨t, ht, rfl⟩ := h
          rw [tokCaseFrom_skip (by simp) (by simp [startsWithBackslash])]
          simp only [caseBibtex, if_true, hsp, if_false]
          apply ih _ _ _ ht
          intro hflag hh
          simp only [true_and, decide_eq_true_eq] at hflag
          exact hsp ⟨by omega, hh⟩
    · simp only [hc, if_false] at h
      by_cases hc2 : c = '}'
      · subst hc2
        simp only [caseBibtex, hc, if_false, if_true]
        have hflag : decide (['}'] = ['{'] ∧ (d - 1) = 1) = false := by simp
        by_cases hd : d > 0
        · simp only [hd, and_self, if_true, Option.map_eq_some_iff] at h
          obtain ⟨t, ht, rfl⟩ := h
          rw [tokCaseFrom_skip (by simp [brace_not_alpha.2]) (by simp [startsWithBackslash]), hflag]
          exact ih _ _ _ ht (by simp)
        · have hd0 : d = 0 := by omega
          subst hd0
          simp only [Nat.lt_irrefl, and_false, if_false, Option.map_eq_some_iff] at h
          obtain ⟨t, ht, rfl⟩ := h
          rw [tokCaseFrom_skip (by simp [brace_not_alpha.2]) (by simp)]
          have : decide (['}'] = ['{'] ∧ (0 : Nat) = 1) = false := by simp
          rw [this]
          exact ih _ _ _ ht (by simp)
      · have hnb : ¬ (c = '}' ∧ d > 0) := fun hh => hc2 hh.1
        simp only [hnb, if_false, Option.map_eq_some_iff] at h
        obtain ⟨t, ht, rfl⟩ := h
        simp only [caseBibtex, hc, hc2, if_false]
        by_cases ha : d = 0 ∧ isAlphaN c = true
        · simp only [ha, and_self, if_true]
          obtain ⟨rfl, hal⟩ := ha
          simp only [tokCaseFrom, List.all_cons, List.all_nil, Bool.and_true, hal, ne_eq,
            List.cons_ne_self, not_false_eq_true, and_self, if_true, charCase]
        · simp only [ha, if_false]
          have hflag : decide ([c] = ['{'] ∧ d = 1) = false := by simp [hc]
          rw [tokCaseFrom_skip ?_ ?_, hflag]
          · exact ih _ _ _ ht (by simp)
          · intro hh
            exact ha ⟨hh.1, by simpa using hh.2.2⟩
          · intro hh
            have hcb : c = '\\' := by simpa [startsWithBackslash] using hh.2.1
            exact hb hh.2.2 (by simp [hcb])

/-- on EVERY token the scanner accepts the rule of `Spec.tokenCase` is the scanner-free rule -/
theorem tokenCase_eq_bibtex {tok : Str} {toks : List Tok} (hs : scan tok = some toks) :
    tokenCase tok = tokenCaseBibtex tok := by
  unfold tokenCase tokenCaseBibtex
  rw [hs]
  simp only []
  rw [tokCaseOf, tokCaseFrom_scanM_norm tok 0 toks false hs (by simp)]

/-! ### the whole split with the scanner-free case rule -/

theorem findIdx?_congr_mem {α : Type} {p q : α → Bool} : ∀ {l : List α}, (∀ x ∈ l, p x = q x) →
    l.findIdx? p = l.findIdx? q := by
  intro l
  induction l with
  | nil => intro _; rfl
  | cons a l ih =>
    intro h
    rw [List.findIdx?_cons, List.findIdx?_cons, h a (by simp), ih (fun x hx => h x (by simp [hx]))]

theorem lastIdx_congr_mem {α : Type} {p q : α → Bool} {l : List α} (h : ∀ x ∈ l, p x = q x) :
    lastIdx p l = lastIdx q l := by
  unfold lastIdx
  rw [findIdx?_congr_mem (p := p) (q := q) (l := l.reverse) (fun x hx => h x (by simpa using hx))]

theorem vonLastBy_congr {p q : Str → Bool} {ts : List Str} (h : ∀ x ∈ ts.dropLast, p x = q x) :
    vonLastBy p ts = vonLastBy q ts := by
  unfold vonLastBy
  rw [lastIdx_congr_mem h]

theorem vonLast_eq_by (ts : List Str) : vonLast ts = vonLastBy isLow ts := rfl

theorem split_eq_splitBy (name : Str) : split name = splitBy isLow name := by
  unfold split splitBy
  simp only [vonLast_eq_by]

/-- the split depends on the case test only through the case-deciding tokens -/
theorem splitBy_congr {p q : Str → Bool} {name : Str} (h : ∀ t ∈ caseTokens name, p t = q t) :
    splitBy p name = splitBy q name := by
  unfold caseTokens at h
  unfold splitBy
  cases hc : splitTex .comma name with
  | nil => rfl
  | cons a r =>
    rw [hc] at h
    cases r with
    | nil =>
      simp only [] at h ⊢
      rw [findIdx?_congr_mem h]
      cases hi : (splitTex .space name).findIdx? q with
      | none => rfl
      | some i0 =>
        simp only []
        rw [vonLastBy_congr (fun x hx => h x (List.mem_of_mem_drop (mem_of_mem_dropLast hx)))]
    | cons b r' =>
      cases r' with
      | nil =>
        simp only [] at h ⊢
        rw [vonLastBy_congr h]
      | cons c r'' =>
        simp only [] at h ⊢
        rw [vonLastBy_congr h]

end Pybtex.Names
