/-
Reading a whole file (`wanted_entries=None`) against the specification's `readAll` / `repeatedFrom`:
the first entry with a given key (up to case) wins, every later one is reported.
-/
import PybtexModel.Lemmas.CitationsX

namespace Pybtex
open Spec

/-- left-to-right reading on the specification side: an entry whose key is already there is dropped -/
def readAcc (acc : SDb) : List SEntry → SDb
  | [] => acc
  | e :: r => if acc.any (fun q => keq q.key e.key) then readAcc acc r else readAcc (acc ++ [e]) r

theorem keq_trans {a b c : Str} (h1 : keq a b = true) (h2 : keq b c = true) : keq a c = true := by
  rw [keq_iff] at *; rw [h1, h2]

theorem readAcc_eq (file : List SEntry) : ∀ acc : SDb,
    readAcc acc file = acc ++ (readAll file).filter (fun q => !acc.any (fun a => keq a.key q.key)) := by
  induction file with
  | nil => intro acc; simp [readAcc, readAll]
  | cons e r ih =>
    intro acc
    simp only [readAcc, readAll]
    by_cases h : acc.any (fun q => keq q.key e.key) = true
    · rw [if_pos h, ih acc, List.filter_cons]
      simp only [h, Bool.not_true, Bool.false_eq_true, if_false, List.filter_filter]
      congr 1
      apply List.filter_congr
      intro q _
      cases hq : acc.any (fun a => keq a.key q.key) with
      | true => simp
      | false =>
        simp only [Bool.not_false, Bool.true_and]
        cases hk : keq q.key e.key with
        | false => rfl
        | true =>
          obtain ⟨a, ha, hae⟩ := List.any_eq_true.1 h
          have : acc.any (fun a => keq a.key q.key) = true :=
            List.any_eq_true.2 ⟨a, ha, keq_trans hae (by rw [keq_comm]; exact hk)⟩
          rw [hq] at this; cases this
    · have h' : acc.any (fun q => keq q.key e.key) = false := by simpa using h
      rw [if_neg h, ih (acc ++ [e]), List.filter_cons]
      simp only [h', Bool.not_false, if_true, List.filter_filter, List.append_assoc, List.singleton_append]
      congr 2
      apply List.filter_congr
      intro q _
      simp only [List.any_append, List.any_cons, List.any_nil, Bool.or_false, Bool.not_or]
      rw [keq_comm e.key q.key]

theorem readAcc_nil (file : List SEntry) : readAcc [] file = readAll file := by
  rw [readAcc_eq]
  simp

/-! ### the model's unfiltered reading -/

theorem omap_get_none {V : Type} (m : OMap V) (k : Str) (h : OMap.get m k = none) : lower k ∉ m.map (·.1) := by
  induction m with
  | nil => simp
  | cons e m ih =>
    obtain ⟨l, sp, w⟩ := e
    simp only [OMap.get] at h
    split at h
    · cases h
    · rename_i hl
      simp only [List.map_cons, List.mem_cons, not_or]
      exact ⟨fun e => hl e.symm, ih h⟩

theorem find_isSome_any (sdb : SDb) (k : Str) : (find sdb k).isSome = sdb.any (fun q => keq q.key k) := by
  unfold find
  rw [Bool.eq_iff_iff, List.find?_isSome, List.any_eq_true]

/-- one `add_entry` of the unfiltered reading (no wanted set, no citations) -/
theorem addEntry_whole {d : BibData} (h : DbWF d) (hw : d.wanted = none) (hc : d.citations = CISet.empty)
    (k : Str) {e : Entry} (he : EntryWF e) :
    ∃ d', d.addEntry k e = some (d', if d.toS.any (fun q => keq q.key k) then [Report.repeated k] else []) ∧
      DbWF d' ∧ d'.wanted = none ∧ d'.citations = CISet.empty ∧
      d'.toS = if d.toS.any (fun q => keq q.key k) then d.toS else d.toS ++ [rawToS (k, e)] := by
  have hwant : d.wantEntry k = true := by simp [BibData.wantEntry, hw]
  have hcont : d.entries.contains k = d.toS.any (fun q => keq q.key k) := by
    rw [contains_entries h, find_isSome_any]
  have hcanon : d.getCanonicalKey k = some k := by
    simp [BibData.getCanonicalKey, hc, CISet.contains, CISet.empty]
  unfold BibData.addEntry
  simp only [hwant, Bool.not_true, Bool.false_eq_true, if_false, hcont, hcanon]
  cases hany : d.toS.any (fun q => keq q.key k) with
  | true => exact ⟨d, by simp, h, hw, hc, by simp⟩
  | false =>
    simp only [Bool.false_eq_true, if_false]
    have hwf := h.setEntry he k d.wanted
    have hnot : lower k ∉ (CIDict.abs d.entries).map (·.1) := by
      apply omap_get_none
      rw [← CIDict.getItem_abs h.inv]
      have : (d.entries.getItem k).isSome = false := by rw [← contains_isSome, hcont, hany]
      cases hg : d.entries.getItem k with
      | none => rfl
      | some _ => rw [hg] at this; cases this
    have htos : BibData.toS { d with entries := d.entries.setItem k { e with key := k } } = d.toS ++ [rawToS (k, e)] := by
      unfold BibData.toS
      rw [CIDict.abs_setItem h.inv, OMap.set_of_not_mem _ _ _ hnot, List.map_append]
      rfl
    refine ⟨{ d with entries := d.entries.setItem k { e with key := k } }, ?_, hwf, hw, hc, htos⟩
    split
    · rfl
    · split
      · rfl
      · rename_i w hw'
        rw [show ({ d with entries := d.entries.setItem k { e with key := k } } : BibData).wanted = d.wanted from rfl, hw] at hw'
        cases hw'

/-- the repeated keys, against the database read so far -/
def repeatedAcc (acc : SDb) : List SEntry → List Str
  | [] => []
  | e :: r => if acc.any (fun q => keq q.key e.key) then e.key :: repeatedAcc acc r else repeatedAcc (acc ++ [e]) r

theorem repeatedAcc_eq (file : List SEntry) : ∀ (acc : SDb) (seen : List Str),
    (∀ k, seen.any (keq k) = acc.any (fun q => keq q.key k)) → repeatedAcc acc file = repeatedFrom seen file := by
  induction file with
  | nil => intro _ _ _; rfl
  | cons e r ih =>
    intro acc seen hs
    simp only [repeatedAcc, repeatedFrom, hs e.key]
    split
    · rw [ih acc seen hs]
    · apply ih
      intro k
      simp only [List.any_cons, List.any_append, List.any_nil, Bool.or_false, hs k]
      rw [Bool.or_comm, keq_comm]

theorem readEntries_whole (file : List (Str × Entry)) (hf : ∀ p ∈ file, EntryWF p.2) :
    ∀ {d : BibData}, DbWF d → d.wanted = none → d.citations = CISet.empty →
      ∃ d', d.readEntries file = some (d', (repeatedAcc d.toS (file.map rawToS)).map Report.repeated) ∧
        DbWF d' ∧ d'.toS = readAcc d.toS (file.map rawToS) := by
  induction file with
  | nil => intro d h _ _; exact ⟨d, rfl, h, rfl⟩
  | cons p file ih =>
    intro d h hw hc
    obtain ⟨k, e⟩ := p
    obtain ⟨d1, h1, hwf1, hw1, hc1, ht1⟩ := addEntry_whole h hw hc k (hf (k, e) (by simp))
    obtain ⟨d2, h2, hwf2, ht2⟩ := ih (fun p hp => hf p (List.mem_cons_of_mem _ hp)) hwf1 hw1 hc1
    refine ⟨d2, ?_, hwf2, ?_⟩
    · simp only [BibData.readEntries, parseEntry_eq_addEntry, h1, h2, List.map_cons, repeatedAcc, ht1]
      show _ = some (d2, List.map Report.repeated (if (d.toS.any fun q => keq q.key (rawToS (k, e)).key) = true then _ else _))
      show _ = some (d2, List.map Report.repeated (if (d.toS.any fun q => keq q.key k) = true then _ else _))
      split <;> simp [rawToS]
    · rw [ht2, ht1]
      simp only [List.map_cons, readAcc]
      show _ = if (d.toS.any fun q => keq q.key k) = true then _ else _
      split <;> rfl

/-- Reading a whole file: the database is `readAll` of the file (the first entry of a key wins, in file
order), every later entry with a key that is already there is reported, in file order. -/
theorem readFile_none_spec (file : List (Str × Entry)) (hf : ∀ p ∈ file, EntryWF p.2) :
    ∃ db, BibData.readFile none file =
        some (db, (repeatedFrom [] (file.map rawToS)).map Report.repeated) ∧
      DbWF db ∧ db.toS = readAll (file.map rawToS) := by
  obtain ⟨d', h1, h2, h3⟩ := readEntries_whole file hf (DbWF.init none) rfl rfl
  have ht : (BibData.init none).toS = [] := rfl
  rw [ht] at h1 h3
  rw [readAcc_nil] at h3
  rw [repeatedAcc_eq _ [] [] (fun _ => rfl)] at h1
  exact ⟨d', h1, h2, h3⟩

end Pybtex
