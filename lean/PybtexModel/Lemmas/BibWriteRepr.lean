/-
C02 helper lemmas, part 9: `eval(repr(db))` over the constructor calls `Entry.__repr__` /
`BibliographyData.__repr__` print (`entryRepr`, `dbRepr` of `Model/BibWrite.lean`).
-/
import PybtexModel.Lemmas.BibWriteChain

namespace Pybtex.C02
open Pybtex Pybtex.Spec Pybtex.Bib Pybtex.BibWrite Pybtex.BibSpec Pybtex.Names

theorem evalPersons_str : ∀ (ps : List Person), (∀ p ∈ ps, WFPerson p = true) →
    evalPersons (ps.map personStr) = .ok ps := by
  intro ps
  induction ps with
  | nil => intro _; rfl
  | cons p ps ih =>
    intro h
    have hg := personGood_of_wf (h p (by simp))
    have h2 : mkPerson (personStr p) [] [] [] [] [] = .ok (p, false) := by
      rw [personStr_eq_format hg]; exact mkPerson_format hg
    simp only [List.map_cons, evalPersons, h2, ih (fun q hq => h q (by simp [hq]))]

theorem evalRoles_str : ∀ (rs : List (Str × List Person)), (∀ r ∈ rs, ∀ p ∈ r.2, WFPerson p = true) →
    evalRoles (rs.map fun r => (r.1, r.2.map personStr)) = .ok rs := by
  intro rs
  induction rs with
  | nil => intro _; rfl
  | cons r rs ih =>
    intro h
    simp only [List.map_cons, evalRoles, evalPersons_str r.2 (h r (by simp)),
      ih (fun q hq => h q (by simp [hq]))]

theorem entryEval_repr {e : Entry} (h : reprOk e = true) : entryEval e.key (entryRepr e) = .ok e := by
  simp only [reprOk, Bool.and_eq_true, beq_iff_eq, decide_eq_true_eq, List.all_eq_true] at h
  obtain ⟨⟨⟨h1, h2⟩, h3⟩, h4⟩ := h
  unfold entryEval entryRepr
  simp only [evalRoles_str e.persons h4, ciOfPairs_id e.fields h2, ciOfPairs_id e.persons h3, ← h1]



theorem evalEntries_repr : ∀ (es : List Entry), (∀ e ∈ es, reprOk e = true) →
    evalEntries (es.map fun e => (e.key, entryRepr e)) = .ok (es.map fun e => (e.key, e)) := by
  intro es
  induction es with
  | nil => intro _; rfl
  | cons e es ih =>
    intro h
    simp only [List.map_cons, evalEntries, entryEval_repr (h e (by simp)), ih (fun x hx => h x (by simp [hx]))]

theorem addEntries_distinct : ∀ (es acc : List Entry) (rep : List Str),
    (es.map fun e => lowerU e.key).Pairwise (· ≠ ·) → (∀ x ∈ acc, ∀ e ∈ es, lowerU x.key ≠ lowerU e.key) →
    (es.map fun e => (e.key, e)).foldl (fun a p => addEntryPlain a p.1 p.2) (acc, rep) = (acc ++ es, rep) := by
  intro es
  induction es with
  | nil => intro acc rep _ _; simp
  | cons e es ih =>
    intro acc rep hp hacc
    simp only [List.map_cons, List.pairwise_cons] at hp
    have hany : acc.any (fun x => lowerU x.key = lowerU e.key) = false := by
      rw [List.any_eq_false]
      intro x hx
      simpa using hacc x hx e (by simp)
    simp only [List.map_cons, List.foldl_cons]
    rw [Yaml.addEntryPlain_fresh acc rep e hany, ih (acc ++ [e]) rep hp.2 ?_]
    · simp
    · intro x hx y hy
      simp only [List.mem_append, List.mem_singleton] at hx
      rcases hx with hx | rfl
      · exact hacc x hx y (by simp [hy])
      · exact hp.1 _ (List.mem_map.2 ⟨y, hy, rfl⟩)

theorem dbEval_repr {d : BibData} (h : reprOkDb d = true) : dbEval (dbRepr d) = .ok (d, []) := by
  simp only [reprOkDb, Bool.and_eq_true, decide_eq_true_eq, List.all_eq_true] at h
  unfold dbEval dbRepr addEntries
  simp only [evalEntries_repr d.entries h.2]
  rw [addEntries_distinct d.entries [] [] h.1 (by simp)]
  simp

end Pybtex.C02
