/-
C02 helper lemmas, part 8: the chain lemmas of `BibWriteChainOn.lean` on the wider BibTeX domain
`WFDbP` (percent signs in the preamble, `Lemmas/BibWritePercent.lean`).

* `parseBib_written_pctE`  `parseBib_written_pct` for ANY encoder that leaves the strings free of
                            `# % & _ ~` alone (`EncId`), not only the modelled `encodeLatex`
* `inDomainP`               the domain of one format with `WFDbP` in place of `WFDb` for BibTeX
* `ChainDom`                what the chain inductions need of a family of domains; the inductions
                            themselves, stated once for every such family
-/
import PybtexModel.Lemmas.BibWriteChainOn
import PybtexModel.Lemmas.BibWritePercent

namespace Pybtex.C02
open Pybtex Pybtex.Spec Pybtex.Bib Pybtex.BibWrite Pybtex.BibSpec Pybtex.Names Pybtex.BibRT

/-! ### the BibTeX round trip on `WFDbP`, any encoder with `EncId` -/

/-- `_encode_with_comments` with any encoder that leaves `# % & _ ~`-free strings alone keeps a text
free of `# & _ ~` unchanged (its percent signs included) -/
theorem encodeWithComments_safeC_of_encId {enc : Str → Str} (henc : EncId enc) (s : Str)
    (h : SafeC s = true) : encodeWithComments enc s = s := by
  unfold encodeWithComments
  have hm : (splitChar '%' s).map enc = splitChar '%' s := by
    conv => rhs; rw [← List.map_id (splitChar '%' s)]
    apply List.map_congr_left
    intro p hp
    refine henc p ?_
    simp only [Safe, List.all_eq_true]
    intro x hx
    obtain ⟨hxs, hxc⟩ := splitChar_mem '%' s p hp x hx
    simp only [SafeC, List.all_eq_true] at h
    have := h x hxs
    simp only [isFive]
    simp only [Bool.not_eq_true', Bool.or_eq_false_iff, decide_eq_false_iff_not] at this ⊢
    obtain ⟨⟨⟨a, b⟩, c'⟩, d⟩ := this
    exact ⟨⟨⟨⟨a, hxc⟩, b⟩, c'⟩, d⟩
  rw [hm, joinWith_splitChar]

theorem writePreamble_pctE {enc : Str → Str} (henc : EncId enc) {d : BibData} (hp : d.preambleText ≠ [])
    (h1 : litScan false 0 d.preambleText = some 0) (h3 : SafeC d.preambleText = true) :
    writePreamble enc d.preambleText = .ok (preambleOut d) := by
  unfold writePreamble preambleOut
  rw [if_neg hp, if_neg hp, encodeWithComments_safeC_of_encId henc _ h3, quote_ok h1]
  have e1 : "@preamble{".toList = '@' :: ("preamble".toList ++ ['{']) := by decide
  have e2 : "}\n\n".toList = ['}', '\n', '\n'] := by decide
  rw [e1, e2]
  simp only [renderCmd, preambleLayout, kw, applyMask_nil, renderValue, renderMore, List.headD_cons,
    opener, closer, Bool.false_eq_true, if_false, List.nil_append, List.append_nil, List.cons_append,
    List.append_assoc]

theorem parseBib_written_pctE {enc : Str → Str} (henc : EncId enc) (d : BibData) (h : WFDbP d = true)
    (strict : Bool) :
    ∃ text s', writeStream enc d = .ok text ∧ parseBib text strict none = (s', none) ∧
      s'.errs = [] ∧ s'.db.entries = d.entries ∧ s'.db.preamble = canonPreamble d := by
  simp only [WFDbP, Bool.and_eq_true, Bool.or_eq_true, decide_eq_true_eq] at h
  obtain ⟨hes, hpre⟩ := h
  by_cases hp : d.preambleText = []
  · exact parseBib_written henc d (by simp [WFDb, hes, hp]) strict
  · have hv : valueOkQ d.preambleText = true ∧ SafeC d.preambleText = true := by
      rcases hpre with h0 | h0
      · exact absurd h0 hp
      · exact h0
    obtain ⟨hq, hsc⟩ := hv
    have hq' : litScan false 0 d.preambleText = some 0 ∧ normalizeWs d.preambleText = d.preambleText := by
      simpa [valueOkQ] using hq
    obtain ⟨hv1, hv2⟩ := hq'
    refine ⟨preambleOut d ++ entriesText true d.entries, ?_⟩
    have hw : writeStream enc d = .ok (preambleOut d ++ entriesText true d.entries) := by
      unfold writeStream
      rw [writePreamble_pctE henc hp hv1 hsc, writeEntries_ok henc d.entries true [] hes]
    have hout : preambleOut d = renderCmd (.preamble [Piece.lit d.preambleText]) (preambleLayout d.preambleText) := by
      simp [preambleOut, hp]
    obtain ⟨T, hT⟩ : ∃ T, renderCmd (.preamble [Piece.lit d.preambleText]) (preambleLayout d.preambleText) = '@' :: T :=
      ⟨_, rfl⟩
    have hcmd : cmdOk initMacros [] (.preamble [Piece.lit d.preambleText]) (preambleLayout d.preambleText) = true := by
      simp only [cmdOk, preambleLayout, valueOk, moreOk, List.headD_cons, pieceOk_spell initMacros hv1,
        Bool.and_true, Bool.true_and]
      decide
    let s0 : St := { rest := T ++ entriesText true d.entries, macros := CIDict.ofPairs Gen.monthMacros, db := {},
                     strict := strict, roles := Gen.personRoles }
    have hinv0 : LoopInv s0 initMacros {} [] := loopInv_init _ strict
    obtain ⟨ln1, h1⟩ := parseCommand_preamble initMacros [] [Piece.lit d.preambleText] (preambleLayout d.preambleText)
      { s0 with ln := s0.ln + countNl ([] ++ ['@']) } (entriesText true d.entries) (by rw [hT]; rfl) hcmd hinv0.mac
    let s1 : St :=
      { s0 with rest := (preambleLayout d.preambleText).afterClose ++ entriesText true d.entries, ln := ln1,
                curKey := none, curFields := [], curFieldName := none,
                curValue := expandPieces initMacros [Piece.lit d.preambleText],
                db := { s0.db with preamble := s0.db.preamble ++ [normalizeWs (expand initMacros [Piece.lit d.preambleText])] } }
    obtain ⟨s', keys', h2, h3⟩ := parseLoop_entries d.entries true ((T ++ entriesText true d.entries).length + 1) s1
      (preambleLayout d.preambleText).afterClose { preamble := [d.preambleText] } [] rfl
      (by intro c hc; simp [preambleLayout] at hc; subst hc; decide) hes
      ⟨hinv0.mac, ⟨rfl, rfl, rfl⟩, rfl, by simp [s1, s0, expand_lit, hv2], rfl, by simp⟩
      (by simp only [List.length_append]; omega)
    refine ⟨s', hw, ?_, h3.errs, ?_, ?_⟩
    · rw [hout, hT]
      unfold parseBib
      simp only [List.cons_append, List.length_cons]
      rw [parseLoop_at _ _ [] _ (by rfl) (by simp)]
      rw [h1]
      simp only [processCmd_preamble]
      exact h2
    · rw [h3.entries]; simp
    · rw [h3.preamble]; simp [canonPreamble, hp]

/-! ### the domains with `WFDbP` for BibTeX -/

/-- the domain of one format, BibTeX on the wider domain `WFDbP` (YAML / BibTeXML as in `inDomain`) -/
def inDomainP (f : Fmt) (d : BibData) : Bool :=
  match f with
  | .bibtex => WFDbP d
  | .yaml => WFDbTree true d
  | .bibtexml => WFDbTree false d

theorem inDomainP_of_inDomain {f : Fmt} {d : BibData} (h : inDomain f d = true) : inDomainP f d = true := by
  cases f with
  | bibtex => exact wfDbP_of_wfDb h
  | yaml => exact h
  | bibtexml => exact h

theorem WFDbP_tree {d : BibData} (h : WFDbP d = true) : WFDbTree false d = true := by
  simp only [WFDbP, Bool.and_eq_true] at h
  exact WFDb_tree (d := { entries := d.entries, preamble := [] })
    (by simp [WFDb, h.1, BibData.preambleText])

theorem inDomainP_tree {f : Fmt} {d : BibData} (h : inDomainP f d = true) : ∃ y, WFDbTree y d = true := by
  cases f with
  | bibtex => exact ⟨false, WFDbP_tree h⟩
  | yaml => exact ⟨true, h⟩
  | bibtexml => exact ⟨false, h⟩

theorem inDomainP_congr {f : Fmt} {d d' : BibData} (he : d'.entries = d.entries)
    (hp : d'.preambleText = d.preambleText ∨ d'.preambleText = []) (h : inDomainP f d = true) :
    inDomainP f d' = true := by
  cases f with
  | bibtex =>
    simp only [inDomainP, WFDbP, Bool.and_eq_true, Bool.or_eq_true, decide_eq_true_eq] at h ⊢
    rw [he]
    refine ⟨h.1, ?_⟩
    rcases hp with hp | hp
    · rw [hp]; exact h.2
    · exact Or.inl hp
  | yaml => simp only [inDomainP, WFDbTree] at h ⊢; rw [he]; exact h
  | bibtexml => simp only [inDomainP, WFDbTree] at h ⊢; rw [he]; exact h

theorem inDomainP_canonFor {g f : Fmt} {d : BibData} (h : inDomainP g d = true) :
    inDomainP g (canonFor f d) = true :=
  inDomainP_congr (canonFor_entries f d) (canonFor_text f d) h

theorem inDomainP_lower {f : Fmt} {d : BibData} (h : inDomainP f d = true) :
    inDomainP f (lowerSpec d) = true := by
  cases f with
  | bibtex =>
    simp only [inDomainP, WFDbP, Bool.and_eq_true] at h ⊢
    exact ⟨entriesOkW_lower _ _ h.1, h.2⟩
  | yaml => exact entriesOkT_lower true _ _ h
  | bibtexml => exact entriesOkT_lower false _ _ h

/-- one format on the wider domain: written without error, read back with nothing reported -/
theorem readBack_onP {S : Serial} (henc : EncId S.encode) {f : Fmt} {d : BibData}
    (hl : LosslessOn S f d) (h : inDomainP f d = true) :
    ∃ text, writeFmt S f d = .ok text ∧ readFmt S f text = .ok (cleanRead (canonFor f d)) := by
  cases f with
  | bibtex =>
    obtain ⟨text, s', h1, h2, h3, h4, h5⟩ := parseBib_written_pctE henc d h false
    refine ⟨text, h1, ?_⟩
    simp only [readFmt, h2, h3, h4, h5, canonFor, canonDb, cleanRead, List.filterMap_nil, List.filter_nil,
      List.length_nil]
  | yaml => exact readBack_on henc (f := .yaml) hl h
  | bibtexml => exact readBack_on henc (f := .bibtexml) hl h

/-! ### the chain inductions, for any family of domains closed under what a chain does -/

/-- what the chain inductions use of a family of domains `D`: closed under a round trip and under
`lower()`, inside a tree domain (so that `lower()` is `lowerSpec`), and one format is written and
read back with nothing reported -/
structure ChainDom (S : Serial) (D : Fmt → BibData → Bool) : Prop where
  canon : ∀ {g f : Fmt} {d : BibData}, D g d = true → D g (canonFor f d) = true
  lower : ∀ {f : Fmt} {d : BibData}, D f d = true → D f (lowerSpec d) = true
  tree : ∀ {f : Fmt} {d : BibData}, D f d = true → ∃ y, WFDbTree y d = true
  back : ∀ {f : Fmt} {d : BibData}, LosslessOn S f d → D f d = true →
    ∃ text, writeFmt S f d = .ok text ∧ readFmt S f text = .ok (cleanRead (canonFor f d))

theorem chainDomP {S : Serial} (henc : EncId S.encode) : ChainDom S inDomainP :=
  ⟨inDomainP_canonFor, inDomainP_lower, inDomainP_tree, readBack_onP henc⟩

section
variable {S : Serial} {D : Fmt → BibData → Bool} (C : ChainDom S D)
include C

theorem ChainDom.roundTrip {f : Fmt} {d : BibData}
    (hl : LosslessOn S f d) (h : D f d = true) : roundTrip S f d = .ok (canonFor f d) := by
  obtain ⟨text, h1, h2⟩ := C.back hl h
  simp only [Pybtex.BibWrite.roundTrip, h1, h2, cleanRead]

theorem ChainDom.chainFrom_true : ∀ (fs : List Fmt) (d : BibData),
    (∀ f ∈ fs, D f d = true) → (∀ p ∈ stagesFrom true fs d, LosslessOn S p.1 p.2) →
    chainFrom S true fs d = .ok (fs.foldl (fun d f => canonFor f d) d) := by
  intro fs
  induction fs with
  | nil => intro d _ _; rfl
  | cons f fs ih =>
    intro d h hl
    have h0 : LosslessOn S f d := hl (f, d) (by simp [stagesFrom])
    simp only [chainFrom, if_true, C.roundTrip h0 (h f (by simp)), List.foldl_cons]
    exact ih _ (fun g hg => C.canon (h g (by simp [hg])))
      (fun p hp => hl p (by simp only [stagesFrom, if_true, List.mem_cons]; exact Or.inr hp))

theorem ChainDom.chain_true (fs : List Fmt) (d : BibData)
    (h : ∀ f ∈ fs, D f d = true) (hl : ∀ p ∈ stages true fs d, LosslessOn S p.1 p.2) :
    chain S true fs d = .ok (fs.foldl (fun d f => canonFor f d) d) := by
  cases fs with
  | nil => rfl
  | cons f fs =>
    have h0 : LosslessOn S f d := hl (f, d) (by simp [stages])
    simp only [chain, C.roundTrip h0 (h f (by simp)), List.foldl_cons]
    exact C.chainFrom_true fs _ (fun g hg => C.canon (h g (by simp [hg])))
      (fun p hp => hl p (by simp only [stages, List.mem_cons]; exact Or.inr hp))

theorem ChainDom.chainFrom_false : ∀ (fs : List Fmt) (d : BibData),
    (∀ f ∈ fs, D f d = true) → (∀ p ∈ stagesFrom false fs d, LosslessOn S p.1 p.2) →
    chainFrom S false fs d = .ok (fs.foldl (fun d f => canonFor f (lowerSpec d)) d) := by
  intro fs
  induction fs with
  | nil => intro d _ _; rfl
  | cons f fs ih =>
    intro d h hl
    obtain ⟨y, hy⟩ := C.tree (h f (by simp))
    have h0 : LosslessOn S f (lowerSpec d) := hl (f, lowerSpec d) (by simp [stagesFrom])
    simp only [chainFrom, Bool.false_eq_true, if_false, dbLower_spec hy,
      C.roundTrip h0 (C.lower (h f (by simp))), List.foldl_cons]
    exact ih _ (fun g hg => C.canon (C.lower (h g (by simp [hg]))))
      (fun p hp => hl p (by
        simp only [stagesFrom, Bool.false_eq_true, if_false, List.mem_cons]; exact Or.inr hp))

theorem ChainDom.chain_false (f1 f2 : Fmt) (fs : List Fmt) (d : BibData)
    (h : ∀ f ∈ f1 :: f2 :: fs, D f d = true)
    (hl : ∀ p ∈ stages false (f1 :: f2 :: fs) d, LosslessOn S p.1 p.2) :
    ∃ d', chain S false (f1 :: f2 :: fs) d = .ok d' ∧ d'.entries = (lowerSpec d).entries ∧
      d'.preamble = (chainDb (f1 :: f2 :: fs) d).preamble := by
  have h1 := h f1 (by simp)
  have hrest : ∀ g ∈ f2 :: fs, D g (canonFor f1 d) = true :=
    fun g hg => C.canon (h g (by simp only [List.mem_cons] at hg ⊢; exact Or.inr hg))
  have h0 : LosslessOn S f1 d := hl (f1, d) (by simp [stages])
  refine ⟨(f2 :: fs).foldl (fun d f => canonFor f (lowerSpec d)) (canonFor f1 d), ?_, ?_, ?_⟩
  · simp only [chain, C.roundTrip h0 h1]
    exact C.chainFrom_false (f2 :: fs) _ hrest
      (fun p hp => hl p (by simp only [stages, List.mem_cons]; exact Or.inr hp))
  · obtain ⟨y, hy⟩ := C.tree h1
    rw [fold_lower_entries (f2 :: fs) _ (by simp)]
    · simp [canonFor_entries, lowerSpec]
    · rw [canonFor_entries]; exact typeOk_of_tree _ _ hy
  · rw [fold_lower_preamble (f2 :: fs) _ (canonFor f1 d) rfl, ← fold_canonFor]
    rfl

theorem ChainDom.chainFromLog_clean (pc : Bool) :
    ∀ (fs : List Fmt) (d : BibData), (∀ f ∈ fs, D f d = true) →
    (∀ p ∈ stagesFrom pc fs d, LosslessOn S p.1 p.2) →
    ∃ d', chainFromLog S pc fs d =
      .ok (d', (stagesFrom pc fs d).map fun p => (cleanRead (canonFor p.1 p.2), [])) := by
  intro fs
  induction fs with
  | nil => intro d _ _; exact ⟨d, rfl⟩
  | cons f fs ih =>
    intro d h hl
    obtain ⟨y, hy⟩ := C.tree (h f (by simp))
    cases pc with
    | true =>
      have h0 : LosslessOn S f d := hl (f, d) (by simp [stagesFrom])
      obtain ⟨text, hw, hr⟩ := C.back h0 (h f (by simp))
      obtain ⟨d', hd'⟩ := ih (canonFor f d) (fun g hg => C.canon (h g (by simp [hg])))
        (fun p hp => hl p (by simp only [stagesFrom, if_true, List.mem_cons]; exact Or.inr hp))
      refine ⟨d', ?_⟩
      simp only [chainFromLog, if_true, hw, hr, stagesFrom, List.map_cons]
      simp only [cleanRead] at hd' ⊢
      rw [hd']
    | false =>
      have h0 : LosslessOn S f (lowerSpec d) := hl (f, lowerSpec d) (by simp [stagesFrom])
      obtain ⟨text, hw, hr⟩ := C.back h0 (C.lower (h f (by simp)))
      obtain ⟨d', hd'⟩ := ih (canonFor f (lowerSpec d))
        (fun g hg => C.canon (C.lower (h g (by simp [hg]))))
        (fun p hp => hl p (by
          simp only [stagesFrom, Bool.false_eq_true, if_false, List.mem_cons]; exact Or.inr hp))
      refine ⟨d', ?_⟩
      simp only [chainFromLog, Bool.false_eq_true, if_false, dbLower_spec hy, hw, hr, stagesFrom,
        List.map_cons]
      simp only [cleanRead] at hd' ⊢
      rw [hd']

theorem ChainDom.chainLog_clean (pc : Bool) (fs : List Fmt) (d : BibData)
    (h : ∀ f ∈ fs, D f d = true) (hl : ∀ p ∈ stages pc fs d, LosslessOn S p.1 p.2) :
    ∃ d', chainLog S pc fs d =
        .ok (d', (stages pc fs d).map fun p => (cleanRead (canonFor p.1 p.2), [])) ∧
      chain S pc fs d = .ok d' := by
  have key : ∃ d', chainLog S pc fs d =
      .ok (d', (stages pc fs d).map fun p => (cleanRead (canonFor p.1 p.2), [])) := by
    cases fs with
    | nil => exact ⟨d, rfl⟩
    | cons f fs =>
      have h0 : LosslessOn S f d := hl (f, d) (by simp [stages])
      obtain ⟨text, hw, hr⟩ := C.back h0 (h f (by simp))
      obtain ⟨d', hd'⟩ := C.chainFromLog_clean pc fs (canonFor f d)
        (fun g hg => C.canon (h g (by simp [hg])))
        (fun p hp => hl p (by simp only [stages, List.mem_cons]; exact Or.inr hp))
      refine ⟨d', ?_⟩
      simp only [chainLog, hw, hr, stages, List.map_cons]
      simp only [cleanRead] at hd' ⊢
      rw [hd']
  obtain ⟨d', hd'⟩ := key
  refine ⟨d', hd', ?_⟩
  rw [← chainLog_db, hd']
  rfl

end

end Pybtex.C02
