/-
Lemmas for C10, the bridge from SYNTAX to the operational hypotheses of the positive confinement
theorems (`C10_confined_after`, `C10_confined_after_partial`: `Props/C10.lean`).

Those theorems speak about the round of the command loop on the malformed command `bad` ALONE:
`hE` (the round reports no `PrematureEOF`) and `hat` (it leaves no `@` unread).  Here:

* Part 1 (§1, §2, §6–§8): every function of the reader leaves a SUFFIX of the unread text unread,
  keeps the mode and only appends to the list of problems (`Adv`); hence what a round leaves
  unread is a suffix of the text behind the `@` it started at (`loopStep_suffix`,
  `loopStep_inr_suffix`), and `hat` follows from "`bad` contains one `@` only" (`hat_of_no_at`);
* Part 2 (§3–§6, §8, §9): `PrematureEOF` is raised by `get_token` on white space up to the end of
  the text, and by `parse_string` when the delimiter that closes the string is missing.  Both are
  excluded by BRACE COUNTING alone: `closes n r` = "scanning `r` from depth `n`, a `}` is met at
  depth 0".  `closes 0 rest` holds at every token of the body (`CR`), `closes (d + 1) rest` /
  `closes d rest` inside a braced / quoted string at depth `d` (`strLoop_cr`) — whatever the quotes
  look like: a quoted string that runs into the closing brace of the command ends in "unbalanced
  braces", not in `PrematureEOF`.  Hence `hE` and `hat` for every `SelfContained` command: one `@`;
  the first bracket behind it is a `{`; that brace is closed (`loopStep_selfContained`,
  `hE_hat_of_selfContained`).  `SelfContained` is decidable (`selfContainedB_iff`) and contains the
  FLAT class `FlatCmd` (`FlatCmd.selfContained`).  §8b: in continue mode a round goes on unless
  `Person()` raises (`loopStep_continue`);
* Part 3 (§9): the confinement theorems with the syntactic premise
  (`confined_after_selfContained`, `…_partial`, `confined_after_flat`), the examples;
* §10: the statements for `Props/C10.lean`.
-/
import PybtexModel.Lemmas.BibLocal
import PybtexModel.Lemmas.BibLocate
import PybtexModel.Spec.BibConfine

namespace Pybtex.Bib

/-! ## §1 character classes, `skipToChar`, `Pat.matchAt` -/

theorem bridge_ws_table : ∀ n ∈ wsCodes, n ≠ 123 ∧ n ≠ 125 ∧ n ≠ 40 ∧ n ≠ 64 := by decide

theorem bridge_name_table : ∀ n ∈ Gen.nameCharCodes, n ≠ 123 ∧ n ≠ 125 ∧ n ≠ 40 := by decide

theorem bridge_start_table : ∀ n ∈ Gen.nameStartCodes, n ≠ 123 ∧ n ≠ 125 ∧ n ≠ 40 := by decide

/-- white space is none of `{ } ( @` -/
theorem ws_not_special {c : Char} (h : isWs c = true) : c ≠ '{' ∧ c ≠ '}' ∧ c ≠ '(' ∧ c ≠ '@' := by
  have hm : c.toNat ∈ wsCodes := by simpa [isWs] using h
  have := bridge_ws_table c.toNat hm
  refine ⟨?_, ?_, ?_, ?_⟩ <;> (rintro rfl; revert this; decide)

/-- a character of a NAME is none of `{ } (` -/
theorem nameChar_not_bracket {c : Char} (h : isNameStart c = true ∨ isNameChar c = true) :
    c ≠ '{' ∧ c ≠ '}' ∧ c ≠ '(' := by
  rcases h with h | h
  · have hm : c.toNat ∈ Gen.nameStartCodes := by simpa [isNameStart] using h
    have := bridge_start_table c.toNat hm
    refine ⟨?_, ?_, ?_⟩ <;> (rintro rfl; revert this; decide)
  · have hm : c.toNat ∈ Gen.nameCharCodes := by simpa [isNameChar] using h
    have := bridge_name_table c.toNat hm
    refine ⟨?_, ?_, ?_⟩ <;> (rintro rfl; revert this; decide)

theorem digit_not_bracket {c : Char} (h : isDigit c = true) : c ≠ '{' ∧ c ≠ '}' ∧ c ≠ '(' := by
  refine ⟨?_, ?_, ?_⟩ <;> (rintro rfl; revert h; decide)

/-- `skipToChar` splits at the FIRST character that satisfies `p` -/
theorem skipToChar_split {p : Char → Bool} {s chunk rest : Str}
    (h : skipToChar p s = some (chunk, rest)) :
    ∃ pre c, chunk = pre ++ [c] ∧ s = pre ++ c :: rest ∧ p c = true ∧ ∀ x ∈ pre, p x = false := by
  induction s generalizing chunk with
  | nil => simp [skipToChar] at h
  | cons d r ih =>
    simp only [skipToChar] at h
    split at h
    · rename_i hp
      injection h with h; injection h with h1 h2
      subst h1; subst h2
      exact ⟨[], d, rfl, rfl, hp, fun x hx => nomatch hx⟩
    · rename_i hp
      cases hr : skipToChar p r with
      | none => simp [hr] at h
      | some x =>
        obtain ⟨x1, x2⟩ := x
        simp only [hr, Option.map_some, Option.some.injEq, Prod.mk.injEq] at h
        obtain ⟨h1, h2⟩ := h
        subst h1; subst h2
        obtain ⟨pre, c, e1, e2, hc, hpre⟩ := ih hr
        refine ⟨d :: pre, c, by rw [e1]; rfl, by rw [e2]; rfl, hc, ?_⟩
        intro x hx
        rcases List.mem_cons.1 hx with hx | hx
        · subst hx; simpa using hp
        · exact hpre x hx

/-- the characters a pattern can match -/
def Pat.okChar : Pat → Char → Prop
  | .name, c => isNameStart c = true ∨ isNameChar c = true
  | .keyParen, c => isWs c = false ∧ c ≠ ','
  | .keyBrace, c => isWs c = false ∧ c ≠ ',' ∧ c ≠ '}'
  | .number, c => isDigit c = true
  | .lit d, c => c = d

/-- a matched token is a non-empty prefix made of characters of the pattern's class -/
theorem matchAt_split {p : Pat} {s v r : Str} (h : p.matchAt s = some (v, r)) :
    s = v ++ r ∧ v ≠ [] ∧ ∀ c ∈ v, p.okChar c := by
  cases p with
  | name =>
    cases s with
    | nil => simp [Pat.matchAt] at h
    | cons c t =>
      simp only [Pat.matchAt] at h
      split at h
      · rename_i hc
        simp only [Option.some.injEq, Prod.mk.injEq] at h
        obtain ⟨h1, h2⟩ := h; subst h1; subst h2
        refine ⟨by simp [List.takeWhile_append_dropWhile], by simp, ?_⟩
        intro d hd
        rcases List.mem_cons.1 hd with hd | hd
        · subst hd; exact Or.inl hc
        · exact Or.inr (mem_takeWhile_imp hd)
      · cases h
  | keyParen =>
    simp only [Pat.matchAt] at h
    split at h
    · cases h
    · rename_i hne
      simp only [Option.some.injEq, Prod.mk.injEq] at h
      obtain ⟨h1, h2⟩ := h; subst h1; subst h2
      refine ⟨by simp [List.takeWhile_append_dropWhile], hne, ?_⟩
      intro c hc
      have := mem_takeWhile_imp hc
      simpa [Pat.okChar] using this
  | keyBrace =>
    simp only [Pat.matchAt] at h
    split at h
    · cases h
    · rename_i hne
      simp only [Option.some.injEq, Prod.mk.injEq] at h
      obtain ⟨h1, h2⟩ := h; subst h1; subst h2
      refine ⟨by simp [List.takeWhile_append_dropWhile], hne, ?_⟩
      intro c hc
      have := mem_takeWhile_imp hc
      simpa [Pat.okChar, and_assoc] using this
  | number =>
    simp only [Pat.matchAt] at h
    split at h
    · cases h
    · rename_i hne
      simp only [Option.some.injEq, Prod.mk.injEq] at h
      obtain ⟨h1, h2⟩ := h; subst h1; subst h2
      exact ⟨by simp [List.takeWhile_append_dropWhile], hne, fun c hc => mem_takeWhile_imp hc⟩
  | lit c =>
    cases s with
    | nil => simp [Pat.matchAt] at h
    | cons d t =>
      simp only [Pat.matchAt] at h
      split at h
      · rename_i hc
        simp only [Option.some.injEq, Prod.mk.injEq] at h
        obtain ⟨h1, h2⟩ := h; subst h1; subst h2; subst hc
        refine ⟨rfl, by simp, ?_⟩
        intro e he
        simp only [List.mem_singleton] at he
        exact he
      · cases h

theorem firstMatch_split {ps : List Pat} {s v r : Str} {p : Pat}
    (h : firstMatch ps s = some (p, v, r)) :
    p ∈ ps ∧ s = v ++ r ∧ v ≠ [] ∧ ∀ c ∈ v, p.okChar c := by
  induction ps with
  | nil => simp [firstMatch] at h
  | cons q qs ih =>
    simp only [firstMatch] at h
    split at h
    · rename_i v' r' hm
      simp only [Option.some.injEq, Prod.mk.injEq] at h
      obtain ⟨h0, h1, h2⟩ := h; subst h0; subst h1; subst h2
      exact ⟨List.mem_cons_self, matchAt_split hm⟩
    · obtain ⟨h1, h2⟩ := ih h
      exact ⟨List.mem_cons_of_mem _ h1, h2⟩

/-- the three outcomes of `get_token` -/
theorem getToken_cases (pats : List Pat) (s : St) :
    ((eatWs s).rest = [] ∧
      getToken pats s = .fail (.syn ⟨.prematureEOF, some (eatWs s).ln⟩) (eatWs s)) ∨
    ((eatWs s).rest ≠ [] ∧ firstMatch pats (eatWs s).rest = none ∧
      getToken pats s = .ok none (eatWs s)) ∨
    (∃ p v r, (eatWs s).rest ≠ [] ∧ firstMatch pats (eatWs s).rest = some (p, v, r) ∧
      getToken pats s = .ok (some (p, v)) { eatWs s with rest := r }) := by
  unfold getToken
  simp only
  split
  · rename_i h
    exact Or.inl ⟨h, rfl⟩
  · rename_i h
    split
    · rename_i hm
      exact Or.inr (Or.inl ⟨h, hm, rfl⟩)
    · rename_i p v r hm
      exact Or.inr (Or.inr ⟨p, v, r, h, hm, rfl⟩)

/-! ## §2 `Adv`: what a function of the reader does to unread text, mode and list of problems -/

/-- from `s` to `s'`: the unread text of `s'` is a suffix of that of `s`, the mode is the same, and
the problems of `s'` are those of `s` followed by problems whose kind satisfies `K` -/
def Adv (K : ErrKind → Prop) (s s' : St) : Prop :=
  s'.rest <:+ s.rest ∧ s'.strict = s.strict ∧ ∃ l, s'.errs = s.errs ++ l ∧ ∀ e ∈ l, K e.kind

def notEOF (k : ErrKind) : Prop := k ≠ .prematureEOF
def anyKind (_ : ErrKind) : Prop := True

theorem Adv.suffix {K : ErrKind → Prop} {s s' : St} (h1 : s'.rest <:+ s.rest)
    (h2 : s'.strict = s.strict) (h3 : s'.errs = s.errs) : Adv K s s' :=
  ⟨h1, h2, [], by rw [h3, List.append_nil], fun _ h => nomatch h⟩

theorem Adv.of_eq {K : ErrKind → Prop} {s s' : St} (h1 : s'.rest = s.rest)
    (h2 : s'.strict = s.strict) (h3 : s'.errs = s.errs) : Adv K s s' :=
  Adv.suffix (by rw [h1]; exact List.suffix_refl _) h2 h3

theorem Adv.refl (K : ErrKind → Prop) (s : St) : Adv K s s := Adv.of_eq rfl rfl rfl

theorem Adv.trans {K : ErrKind → Prop} {a b c : St} (h1 : Adv K a b) (h2 : Adv K b c) : Adv K a c := by
  obtain ⟨r1, s1, l1, e1, k1⟩ := h1
  obtain ⟨r2, s2, l2, e2, k2⟩ := h2
  refine ⟨r2.trans r1, s2.trans s1, l1 ++ l2, by rw [e2, e1, List.append_assoc], ?_⟩
  intro e he
  rcases List.mem_append.1 he with he | he
  · exact k1 e he
  · exact k2 e he

theorem Adv.mono {K K' : ErrKind → Prop} (hK : ∀ k, K k → K' k) {a b : St} (h : Adv K a b) :
    Adv K' a b := by
  obtain ⟨r1, s1, l1, e1, k1⟩ := h
  exact ⟨r1, s1, l1, e1, fun e he => hK _ (k1 e he)⟩

theorem Adv.any {K : ErrKind → Prop} {a b : St} (h : Adv K a b) : Adv anyKind a b :=
  h.mono (fun _ _ => trivial)

/-- the state in front may be replaced by one with the same text, mode and problems -/
theorem Adv.congr {K : ErrKind → Prop} {s0 s s' : St} (h1 : s0.rest = s.rest)
    (h2 : s0.strict = s.strict) (h3 : s0.errs = s.errs) (h : Adv K s0 s') : Adv K s s' := by
  unfold Adv at h ⊢
  rw [← h1, ← h2, ← h3]; exact h

theorem Adv.bind {α β : Type} {K : ErrKind → Prop} {s : St} {r : Res α} {h : α → St → Res β}
    (hr : Adv K s r.st) (hh : ∀ a s1, r = .ok a s1 → Adv K s1 (h a s1).st) :
    Adv K s (r.bind h).st := by
  cases r with
  | ok a s1 => exact hr.trans (hh a s1 rfl)
  | fail a s1 => exact hr

theorem eatWs_adv (K : ErrKind → Prop) (s : St) : Adv K s (eatWs s) :=
  Adv.suffix (List.dropWhile_suffix _) rfl rfl

theorem getToken_adv (K : ErrKind → Prop) (pats : List Pat) (s : St) :
    Adv K s (getToken pats s).st := by
  rcases getToken_cases pats s with ⟨_, h⟩ | ⟨_, _, h⟩ | ⟨p, v, r, _, hm, h⟩
  · rw [h]; exact eatWs_adv K s
  · rw [h]; exact eatWs_adv K s
  · rw [h]
    have hs := (firstMatch_split hm).2.1
    refine (eatWs_adv K s).trans (Adv.suffix ?_ rfl rfl)
    show r <:+ (eatWs s).rest
    rw [hs]; exact List.suffix_append _ _

theorem required_adv (K : ErrKind → Prop) (pats : List Pat) (desc : String) (s : St) :
    Adv K s (required pats desc s).st := by
  have h := getToken_adv K pats s
  unfold required
  cases hr : getToken pats s with
  | fail a s' => rw [hr] at h; exact h
  | ok t s' => rw [hr] at h; cases t <;> exact h

theorem strLoop_adv (K : ErrKind → Prop) (fuel : Nat) (quoted : Bool) (d : Nat) (acc : Str) (s : St) :
    Adv K s (strLoop fuel quoted d acc s).st := by
  induction fuel generalizing d acc s with
  | zero => exact Adv.refl K s
  | succ fuel ih =>
    unfold strLoop
    simp only
    split
    · exact Adv.refl K s
    · rename_i chunk rest hsk
      have hs := (skipToChar_spec hsk).1
      have h1 : Adv K s { s with rest := rest, ln := s.ln + countNl chunk } :=
        Adv.suffix (by show rest <:+ s.rest; rw [hs]; exact List.suffix_append _ _) rfl rfl
      split
      · split
        · exact h1
        · exact h1.trans (ih _ _ _)
      · split
        · split <;> exact h1
        · exact h1.trans (ih _ _ _)
      · exact h1

theorem handleError_adv {K : ErrKind → Prop} (s : St) (e : Err) (hk : K e.kind) :
    Adv K s (handleError s e).st := by
  unfold handleError
  split
  · exact Adv.refl K s
  · refine ⟨List.suffix_refl _, rfl, [e], rfl, ?_⟩
    intro e' he'
    rw [List.mem_singleton.1 he']; exact hk

theorem substituteMacro_adv (name : Str) (s : St) : Adv notEOF s (substituteMacro name s).st := by
  unfold substituteMacro
  split
  · exact Adv.refl _ s
  · split
    · have h := handleError_adv (K := notEOF) s ⟨.undefinedMacro name, some s.ln⟩ (by simp [notEOF])
      cases hr : handleError s ⟨.undefinedMacro name, some s.ln⟩ with
      | fail a s' => rw [hr] at h; exact h
      | ok a s' => rw [hr] at h; exact h
    · exact Adv.refl _ s

/-! ## §3 brace counting -/

theorem closes_open (n : Nat) (r : Str) : closes n ('{' :: r) = closes (n + 1) r := by
  simp [closes]

theorem closes_close_zero (r : Str) : closes 0 ('}' :: r) = true := by
  simp [closes]

theorem closes_close_succ (n : Nat) (r : Str) : closes (n + 1) ('}' :: r) = closes n r := by
  simp [closes]

theorem closes_other (n : Nat) {c : Char} (r : Str) (h1 : c ≠ '{') (h2 : c ≠ '}') :
    closes n (c :: r) = closes n r := by
  simp [closes, h1, h2]

theorem closes_mono {n : Nat} {r : Str} (h : closes (n + 1) r = true) : closes n r = true := by
  induction r generalizing n with
  | nil => simp [closes] at h
  | cons c r ih =>
    by_cases h1 : c = '{'
    · subst h1
      rw [closes_open] at h ⊢
      exact ih h
    · by_cases h2 : c = '}'
      · subst h2
        rw [closes_close_succ] at h
        cases n with
        | zero => exact closes_close_zero r
        | succ m => rw [closes_close_succ]; exact ih h
      · rw [closes_other _ _ h1 h2] at h ⊢
        exact ih h

/-- characters other than `}` in front do not matter -/
theorem closes_skip {n : Nat} {v r : Str} (hv : ∀ c ∈ v, c ≠ '}') (h : closes n (v ++ r) = true) :
    closes n r = true := by
  induction v generalizing n with
  | nil => exact h
  | cons c v ih =>
    have hv' : ∀ d ∈ v, d ≠ '}' := fun d hd => hv d (List.mem_cons_of_mem _ hd)
    have h2 : c ≠ '}' := hv c List.mem_cons_self
    rw [List.cons_append] at h
    by_cases h1 : c = '{'
    · subst h1
      rw [closes_open] at h
      exact closes_mono (ih hv' h)
    · rw [closes_other _ _ h1 h2] at h
      exact ih hv' h

/-- characters other than braces in front do not count -/
theorem closes_append_plain (n : Nat) {v : Str} (r : Str) (hv : ∀ c ∈ v, c ≠ '{' ∧ c ≠ '}') :
    closes n (v ++ r) = closes n r := by
  induction v with
  | nil => rfl
  | cons c v ih =>
    have hc := hv c List.mem_cons_self
    rw [List.cons_append, closes_other _ _ hc.1 hc.2]
    exact ih (fun d hd => hv d (List.mem_cons_of_mem _ hd))

theorem closes_mem {n : Nat} {r : Str} (h : closes n r = true) : '}' ∈ r := by
  induction r generalizing n with
  | nil => simp [closes] at h
  | cons c r ih =>
    by_cases h2 : c = '}'
    · subst h2; exact List.mem_cons_self
    · by_cases h1 : c = '{'
      · subst h1
        rw [closes_open] at h
        exact List.mem_cons_of_mem _ (ih h)
      · rw [closes_other _ _ h1 h2] at h
        exact List.mem_cons_of_mem _ (ih h)

theorem closes_dropWhile_ws {n : Nat} {r : Str} (h : closes n r = true) :
    closes n (r.dropWhile isWs) = true := by
  induction r with
  | nil => exact h
  | cons c r ih =>
    simp only [List.dropWhile]
    split
    · rename_i hc
      have := ws_not_special hc
      rw [closes_other _ _ this.1 this.2.1] at h
      exact ih h
    · exact h

theorem openCloses_dropWhile_ws {r : Str} (h : openCloses r = true) :
    openCloses (r.dropWhile isWs) = true := by
  induction r with
  | nil => exact h
  | cons c r ih =>
    simp only [List.dropWhile]
    split
    · rename_i hc
      have := ws_not_special hc
      simp only [openCloses, this.1, this.2.2.1, ↓reduceIte] at h
      exact ih h
    · exact h

/-- characters other than `{` and `(` in front do not matter -/
theorem openCloses_skip {v r : Str} (hv : ∀ c ∈ v, c ≠ '{' ∧ c ≠ '(') (h : openCloses (v ++ r) = true) :
    openCloses r = true := by
  induction v with
  | nil => exact h
  | cons c v ih =>
    have hc := hv c List.mem_cons_self
    simp only [List.cons_append, openCloses, hc.1, hc.2, ↓reduceIte] at h
    exact ih (fun d hd => hv d (List.mem_cons_of_mem _ hd)) h

theorem openCloses_append_plain {v : Str} (r : Str) (hv : ∀ c ∈ v, c ≠ '{' ∧ c ≠ '(') :
    openCloses (v ++ r) = openCloses r := by
  induction v with
  | nil => rfl
  | cons c v ih =>
    have hc := hv c List.mem_cons_self
    simp only [List.cons_append, openCloses, hc.1, hc.2, ↓reduceIte]
    exact ih (fun d hd => hv d (List.mem_cons_of_mem _ hd))

/-- an invariant of the unread text that white space in front does not affect and that excludes
the empty text -/
structure WsInv (I : Str → Prop) : Prop where
  ws : ∀ r, I r → I (r.dropWhile isWs)
  ne : ∀ r, I r → r ≠ []

@[reducible] def Cl0 (r : Str) : Prop := closes 0 r = true
@[reducible] def Op (r : Str) : Prop := openCloses r = true

theorem cl0_wsInv : WsInv Cl0 :=
  ⟨fun _ h => closes_dropWhile_ws h, fun r h he => by rw [he] at h; simp [Cl0, closes] at h⟩

theorem op_wsInv : WsInv Op :=
  ⟨fun _ h => openCloses_dropWhile_ws h, fun r h he => by rw [he] at h; simp [Op, openCloses] at h⟩

/-! ## §4 tokens under an invariant of the unread text -/

/-- `get_token` under the invariant `I`: it does not run into the end of the text; the invariant
holds for the text IN FRONT of the token that was found -/
def TokO (I : Str → Prop) (pats : List Pat) : Res (Option (Pat × Str)) → Prop
  | .ok none s1 => I s1.rest
  | .ok (some pv) s1 => pv.1 ∈ pats ∧ (∀ c ∈ pv.2, pv.1.okChar c) ∧ pv.2 ≠ [] ∧ I (pv.2 ++ s1.rest)
  | .fail _ _ => False

def TokR (I : Str → Prop) (pats : List Pat) : Res (Pat × Str) → Prop
  | .ok pv s1 => pv.1 ∈ pats ∧ (∀ c ∈ pv.2, pv.1.okChar c) ∧ pv.2 ≠ [] ∧ I (pv.2 ++ s1.rest)
  | .fail (.syn e) _ => e.kind ≠ .prematureEOF
  | .fail _ _ => True

theorem getToken_tokO {I : Str → Prop} (hI : WsInv I) (pats : List Pat) (s : St) (h : I s.rest) :
    TokO I pats (getToken pats s) := by
  have h1 : I (eatWs s).rest := hI.ws _ h
  rcases getToken_cases pats s with ⟨he, _⟩ | ⟨_, _, hg⟩ | ⟨p, v, r, _, hm, hg⟩
  · exact absurd he (hI.ne _ h1)
  · rw [hg]; exact h1
  · rw [hg]
    obtain ⟨hp, hs, hv, hc⟩ := firstMatch_split hm
    refine ⟨hp, hc, hv, ?_⟩
    show I (v ++ r)
    rw [← hs]; exact h1

theorem required_tokR {I : Str → Prop} (hI : WsInv I) (pats : List Pat) (desc : String) (s : St)
    (h : I s.rest) : TokR I pats (required pats desc s) := by
  have hg := getToken_tokO hI pats s h
  unfold required
  cases hr : getToken pats s with
  | fail a s' => rw [hr] at hg; exact hg.elim
  | ok t s' =>
    rw [hr] at hg
    cases t with
    | none =>
      show (Err.mk (.tokenRequired desc) (some s'.ln)).kind ≠ .prematureEOF
      simp
    | some t => exact hg

/-- the patterns that cannot match a `}` -/
def Pat.noClose (p : Pat) : Prop := p ≠ .keyParen ∧ p ≠ .lit '}'

theorem Pat.okChar_ne_close {p : Pat} (hp : p.noClose) {c : Char} (h : p.okChar c) : c ≠ '}' := by
  cases p with
  | name => exact (nameChar_not_bracket h).2.1
  | keyParen => exact absurd rfl hp.1
  | keyBrace => exact h.2.2
  | number => exact (digit_not_bracket h).2.1
  | lit d =>
    have h' : c = d := h
    intro hc
    apply hp.2
    rw [← h', hc]

/-! ## §5 `CR`: the body of a command whose brace is closed never runs into the end of the text -/

/-- result of a function that was started in front of a text that closes the brace of the command:
if it succeeds, the unread text still does; a syntax error on its way to the handler is not
`PrematureEOF` -/
def CR {α : Type} : Res α → Prop
  | .ok _ s1 => closes 0 s1.rest = true
  | .fail (.syn e) _ => e.kind ≠ .prematureEOF
  | .fail _ _ => True

theorem CR.bind {α β : Type} {r : Res α} {h : α → St → Res β} (hr : CR r)
    (hh : ∀ a s1, r = .ok a s1 → closes 0 s1.rest = true → CR (h a s1)) : CR (r.bind h) := by
  cases r with
  | ok a s1 => exact hh a s1 rfl hr
  | fail a s1 =>
    cases a with
    | syn e => exact hr
    | skip => trivial
    | raised e => trivial

theorem TokR.cr {pats : List Pat} {r : Res (Pat × Str)} (h : TokR Cl0 pats r)
    (hp : ∀ p ∈ pats, p.noClose) : CR r := by
  cases r with
  | ok pv s1 =>
    obtain ⟨h1, h2, _, h4⟩ := h
    exact closes_skip (fun c hc => Pat.okChar_ne_close (hp _ h1) (h2 c hc)) h4
  | fail a s1 =>
    cases a with
    | syn e => exact h
    | skip => trivial
    | raised e => trivial

theorem TokO.cr {pats : List Pat} {r : Res (Option (Pat × Str))} (h : TokO Cl0 pats r)
    (hp : ∀ p ∈ pats, p.noClose) : CR r := by
  cases r with
  | ok o s1 =>
    cases o with
    | none => exact h
    | some pv =>
      obtain ⟨h1, h2, _, h4⟩ := h
      exact closes_skip (fun c hc => Pat.okChar_ne_close (hp _ h1) (h2 c hc)) h4
  | fail a s1 => exact h.elim

theorem strTail_open {fuel : Nat} {quoted : Bool} {d : Nat} {acc chunk : Str} {s : St}
    (h : chunk.getLast? = some '{') :
    strTail fuel quoted d acc chunk s =
      if d + 1 > 100 then .fail (.syn ⟨.tooManyBraces, some s.ln⟩) s
      else strLoop fuel quoted (d + 1) acc s := by
  unfold strTail; rw [h]; rfl

theorem strTail_close {fuel : Nat} {quoted : Bool} {d : Nat} {acc chunk : Str} {s : St}
    (h : chunk.getLast? = some '}') :
    strTail fuel quoted d acc chunk s =
      if d = 0 then
        if quoted then .fail (.syn ⟨.unbalancedBraces, some s.ln⟩) s else .ok acc s
      else strLoop fuel quoted (d - 1) acc s := by
  unfold strTail; rw [h]; rfl

theorem strTail_other {fuel : Nat} {quoted : Bool} {d : Nat} {acc chunk : Str} {s : St} {c : Char}
    (h : chunk.getLast? = some c) (h1 : c ≠ '{') (h2 : c ≠ '}') :
    strTail fuel quoted d acc chunk s = .ok acc s := by
  unfold strTail; rw [h]
  split
  · rename_i he; injection he with he; exact absurd he h1
  · rename_i he; injection he with he; exact absurd he h2
  · rfl

/-- `parse_string` inside a string at depth `d`: the unread text closes the `d` braces of the
string and (for a braced string) the string itself, and then the brace of the command.  The string
ends, or an error other than `PrematureEOF` is raised ("unbalanced braces" when a quoted string
meets the closing brace of the command). -/
theorem strLoop_cr (fuel : Nat) (quoted : Bool) (d : Nat) (acc : Str) (s : St)
    (h : closes (if quoted then d else d + 1) s.rest = true) : CR (strLoop fuel quoted d acc s) := by
  induction fuel generalizing d acc s with
  | zero =>
    show (Err.mk .internal none).kind ≠ .prematureEOF
    simp
  | succ fuel ih =>
    rw [strLoop_succ]
    cases hsk : skipToChar (fun c => c = '}' || c = '{' || (quoted && d = 0 && c = '"')) s.rest with
    | none =>
      have h1 := skipToChar_none hsk '}' (closes_mem h)
      simp at h1
    | some p =>
      obtain ⟨chunk, rest⟩ := p
      obtain ⟨pre, c, e1, e2, hc, hpre⟩ := skipToChar_split hsk
      have hlast : chunk.getLast? = some c := by rw [e1]; simp
      have hplain : ∀ x ∈ pre, x ≠ '{' ∧ x ≠ '}' := by
        intro x hx
        have := hpre x hx
        constructor <;> (rintro rfl; simp at this)
      rw [e2, closes_append_plain _ _ hplain] at h
      show CR (strTail fuel quoted d (acc ++ chunk) chunk { s with rest := rest, ln := s.ln + countNl chunk })
      by_cases h1 : c = '{'
      · subst h1
        rw [closes_open] at h
        rw [strTail_open hlast]
        split
        · show (Err.mk .tooManyBraces _).kind ≠ .prematureEOF
          simp
        · apply ih
          show closes (if quoted then d + 1 else d + 1 + 1) rest = true
          cases quoted <;> exact h
      · by_cases h2 : c = '}'
        · subst h2
          rw [strTail_close hlast]
          cases d with
          | zero =>
            cases quoted with
            | true =>
              show (Err.mk .unbalancedBraces _).kind ≠ .prematureEOF
              simp
            | false =>
              show closes 0 rest = true
              exact h
          | succ d' =>
            rw [if_neg (Nat.succ_ne_zero d')]
            apply ih
            show closes (if quoted then d' else d' + 1) rest = true
            cases quoted
            · exact h
            · exact h
        · rw [strTail_other hlast h1 h2]
          show closes 0 rest = true
          have hq : (quoted = true ∧ d = 0) ∧ c = '"' := by
            simpa [h1, h2] using hc
          obtain ⟨⟨hq1, hq2⟩, hq3⟩ := hq
          subst hq1; subst hq2
          rw [closes_other _ _ h1 h2] at h
          exact h

/-! ## §6 the parse functions below `parse_command`: `G` = `Adv` (always) and `CR` (when the
unread text closes the brace of the command) -/

def G {α : Type} (s : St) (r : Res α) : Prop :=
  Adv notEOF s r.st ∧ (closes 0 s.rest = true → CR r) ∧ (s.strict = false → NR r)

theorem NR.bind' {α β : Type} {r : Res α} {h : α → St → Res β} (hr : NR r)
    (hh : ∀ a s1, r = .ok a s1 → NR (h a s1)) : NR (r.bind h) := by
  cases r with
  | ok a s1 => exact hh a s1 rfl
  | fail a s1 => exact hr

/-- the mode after a successful step -/
theorem Adv.strict_ok {α : Type} {K : ErrKind → Prop} {s s1 : St} {r : Res α} {a : α}
    (h : Adv K s r.st) (hr : r = .ok a s1) (hs : s.strict = false) : s1.strict = false := by
  rw [hr] at h
  exact h.2.1.trans hs

theorem G.ok {α : Type} (a : α) (s : St) : G s (.ok a s) :=
  ⟨Adv.refl _ s, fun h => h, fun _ => trivial⟩

theorem G.ok' {α : Type} (a : α) {s s' : St} (h1 : s'.rest = s.rest) (h2 : s'.strict = s.strict)
    (h3 : s'.errs = s.errs) : G s (.ok a s') :=
  ⟨Adv.of_eq h1 h2 h3, fun h => by show closes 0 s'.rest = true; rw [h1]; exact h, fun _ => trivial⟩

theorem G.fail {α : Type} (a : Abort) (s : St) (ha : ∀ e, a = .syn e → e.kind ≠ .prematureEOF)
    (hn : ∀ e, a ≠ .raised e) : G s (.fail a s : Res α) := by
  refine ⟨Adv.refl _ s, fun _ => ?_, fun _ => ?_⟩
  · cases a with
    | syn e => exact ha e rfl
    | skip => trivial
    | raised e => trivial
  · cases a with
    | syn e => trivial
    | skip => trivial
    | raised e => exact absurd rfl (hn e)

theorem G.congr {α : Type} {s0 s : St} {r : Res α} (h1 : s0.rest = s.rest)
    (h2 : s0.strict = s.strict) (h3 : s0.errs = s.errs) (h : G s0 r) : G s r :=
  ⟨h.1.congr h1 h2 h3, fun hc => h.2.1 (by rw [h1]; exact hc), fun hs => h.2.2 (by rw [h2]; exact hs)⟩

theorem G.bind {α β : Type} {s : St} {r : Res α} {h : α → St → Res β} (hr : G s r)
    (hh : ∀ a s1, r = .ok a s1 → G s1 (h a s1)) : G s (r.bind h) :=
  ⟨Adv.bind hr.1 (fun a s1 e => (hh a s1 e).1),
   fun hc => CR.bind (hr.2.1 hc) (fun a s1 e h1 => (hh a s1 e).2.1 h1),
   fun hs => NR.bind' (hr.2.2 hs) (fun a s1 e => (hh a s1 e).2.2 (hr.1.strict_ok e hs))⟩

theorem getToken_G (pats : List Pat) (s : St) (hp : ∀ p ∈ pats, p.noClose) : G s (getToken pats s) :=
  ⟨getToken_adv _ _ _, fun h => (getToken_tokO cl0_wsInv pats s h).cr hp,
   fun _ => (getToken_sim pats s).2.2⟩

theorem required_G (pats : List Pat) (desc : String) (s : St) (hp : ∀ p ∈ pats, p.noClose) :
    G s (required pats desc s) :=
  ⟨required_adv _ _ _ _, fun h => (required_tokR cl0_wsInv pats desc s h).cr hp,
   fun _ => (required_sim pats desc s).2.2⟩

theorem noClose_lit {c : Char} (h : c ≠ '}') : ∀ p ∈ [Pat.lit c], p.noClose := by
  intro p hp
  rw [List.mem_singleton.1 hp]
  exact ⟨(fun he => by cases he), (fun he => by injection he with he; exact h he)⟩

theorem noClose_name : ∀ p ∈ [Pat.name], p.noClose := by
  intro p hp
  rw [List.mem_singleton.1 hp]
  exact ⟨(fun he => by cases he), (fun he => by cases he)⟩

theorem noClose_value : ∀ p ∈ [Pat.lit '"', .lit '{', .number, .name], p.noClose := by
  intro p hp
  simp only [List.mem_cons, List.not_mem_nil, or_false] at hp
  rcases hp with rfl | rfl | rfl | rfl <;> exact ⟨by decide, by decide⟩

theorem substituteMacro_G (name : Str) (s : St) : G s (substituteMacro name s) := by
  refine ⟨substituteMacro_adv name s, fun h => ?_, fun hs => ?_⟩
  · unfold substituteMacro
    split
    · exact h
    · split
      · unfold handleError
        cases hs : s.strict <;> simp only [↓reduceIte, Bool.false_eq_true]
        · exact h
        · trivial
      · exact h
  · unfold substituteMacro
    split
    · trivial
    · split
      · unfold handleError
        simp only [hs, ↓reduceIte, Bool.false_eq_true]
        trivial
      · trivial

theorem vpCont_adv (pv : Pat × Str) (s : St) : Adv notEOF s (vpCont pv s).st := by
  unfold vpCont
  split
  · exact Adv.bind (strLoop_adv _ _ _ _ _ _) (fun _ s1 _ => Adv.refl _ _)
  · exact Adv.refl _ _
  · exact substituteMacro_adv _ _

theorem parseValuePart_G (s : St) : G s (parseValuePart s) := by
  refine ⟨?_, fun h => ?_, fun hs => ?_⟩
  · rw [parseValuePart_bind]
    exact Adv.bind (required_adv _ _ _ s) (fun pv s1 _ => vpCont_adv pv s1)
  · rw [parseValuePart_bind]
    have ht := required_tokR cl0_wsInv [.lit '"', .lit '{', .number, .name] "field value" s h
    cases hr : required [.lit '"', .lit '{', .number, .name] "field value" s with
    | fail a s1 =>
      rw [hr] at ht
      cases a with
      | syn e => exact ht
      | skip => trivial
      | raised e => trivial
    | ok pv s1 =>
      rw [hr] at ht
      obtain ⟨p, v⟩ := pv
      obtain ⟨hp, hc, hv, hcl⟩ := ht
      have h0 : closes 0 s1.rest = true :=
        closes_skip (fun c hc' => Pat.okChar_ne_close (noClose_value _ hp) (hc c hc')) hcl
      show CR (vpCont (p, v) s1)
      cases p with
      | lit c =>
        simp only [vpCont]
        refine CR.bind (strLoop_cr _ _ _ _ _ ?_) (fun _ _ _ h1 => h1)
        simp only [List.mem_cons, List.not_mem_nil, or_false, Pat.lit.injEq, reduceCtorEq] at hp
        rcases hp with rfl | rfl
        · exact h0
        · show closes 1 s1.rest = true
          cases v with
          | nil => exact absurd rfl hv
          | cons x v' =>
            have hx : x = '{' := hc x List.mem_cons_self
            subst hx
            have hcl' : closes 0 ('{' :: (v' ++ s1.rest)) = true := hcl
            rw [closes_open] at hcl'
            refine closes_skip (fun c hc' => ?_) hcl'
            have : c = '{' := hc c (List.mem_cons_of_mem _ hc')
            rw [this]; decide
      | number => exact h0
      | name => exact (substituteMacro_G v s1).2.1 h0
      | keyParen => exact (substituteMacro_G v s1).2.1 h0
      | keyBrace => exact (substituteMacro_G v s1).2.1 h0
  · rw [parseValuePart_bind]
    refine NR.bind' (required_sim _ _ s).2.2 (fun pv s1 hr => ?_)
    have hs1 : s1.strict = false := (required_adv notEOF _ _ s).strict_ok hr hs
    unfold vpCont
    split
    · exact NR.bind' (strLoop_sim _ _ _ _ _).2.2 (fun _ _ _ => trivial)
    · trivial
    · exact (substituteMacro_G _ s1).2.2 hs1

theorem parseValueLoop_G (fuel : Nat) (parts : List Str) (s : St) :
    G s (parseValueLoop fuel parts s) := by
  induction fuel generalizing parts s with
  | zero => exact G.fail _ _ (fun e he => by cases he; simp) (fun e he => by cases he)
  | succ fuel ih =>
    rw [parseValueLoop_succ]
    refine G.bind (parseValuePart_G s) (fun part s1 _ => ?_)
    unfold vlCont
    refine G.bind (getToken_G _ s1 (noClose_lit (by decide))) (fun o s2 _ => ?_)
    cases o with
    | none => exact G.ok _ _
    | some t => exact ih _ _

theorem parseValue_G (s : St) : G s (parseValue s) := by
  rw [parseValue_bind]
  exact G.bind (parseValueLoop_G _ _ s) (fun _ s1 _ => G.ok' _ rfl rfl rfl)

theorem parseField_G (s : St) : G s (parseField s) := by
  rw [parseField_bind]
  refine G.bind (getToken_G _ s noClose_name) (fun o s1 _ => ?_)
  cases o with
  | none => exact G.ok _ _
  | some pn =>
    refine G.congr (s0 := { s1 with curFieldName := some pn.2 }) rfl rfl rfl ?_
    exact G.bind (required_G _ _ _ (noClose_lit (by decide))) (fun _ s2 _ => parseValue_G s2)

theorem efUpd_strict (s : St) : (efUpd s).strict = s.strict := by
  unfold efUpd
  split
  · split <;> rfl
  · rfl

theorem efUpd_errs (s : St) : (efUpd s).errs = s.errs := by
  unfold efUpd
  split
  · split <;> rfl
  · rfl

theorem parseEntryFields_G (fuel : Nat) (s : St) : G s (parseEntryFields fuel s) := by
  induction fuel generalizing s with
  | zero => exact G.fail _ _ (fun e he => by cases he; simp) (fun e he => by cases he)
  | succ fuel ih =>
    rw [parseEntryFields_succ]
    refine G.congr (s0 := { s with curFieldName := none, curValue := [] }) rfl rfl rfl ?_
    refine G.bind (parseField_G _) (fun _ s1 _ => ?_)
    unfold efCont
    refine G.congr (s0 := efUpd s1) (efUpd_rest s1) (efUpd_strict s1) (efUpd_errs s1) ?_
    refine G.bind (getToken_G _ _ (noClose_lit (by decide))) (fun o s2 _ => ?_)
    cases o with
    | none => exact G.ok _ _
    | some t => exact ih _

theorem wantOrSkip_G (s : St) : G s (wantOrSkip s) := by
  unfold wantOrSkip
  split
  · exact G.ok _ _
  · exact G.fail _ _ (fun e he => by cases he) (fun e he => by cases he)

theorem parseEntryBody_adv (paren : Bool) (s : St) : Adv notEOF s (parseEntryBody paren s).st := by
  rw [parseEntryBody_bind]
  refine Adv.bind (required_adv _ _ _ s) (fun pk s1 _ => ?_)
  exact Adv.bind ((parseEntryFields_G _ { s1 with curKey := some pk.2 }).1.congr rfl rfl rfl)
    (fun _ s2 _ => (wantOrSkip_G s2).1)

/-- `parse_entry_body` of a BRACED entry: the key pattern `[^\s,}]+` stops at a `}` (that of a
parenthesised entry does not, cf. `@a(k)` in `C10_confined_next_at_neg`) -/
theorem parseEntryBody_cr (s : St) (h : closes 0 s.rest = true) : CR (parseEntryBody false s) := by
  rw [parseEntryBody_bind]
  have hp : ∀ p ∈ [if false = true then Pat.keyParen else Pat.keyBrace], p.noClose := by
    intro p hp
    rw [List.mem_singleton.1 hp]
    exact ⟨by decide, by decide⟩
  refine CR.bind ((required_tokR cl0_wsInv _ _ s h).cr hp) (fun pk s1 _ h1 => ?_)
  exact CR.bind ((parseEntryFields_G _ { s1 with curKey := some pk.2 }).2.1 h1)
    (fun _ s2 _ h2 => (wantOrSkip_G s2).2.1 h2)

theorem parseEntryBody_nr (paren : Bool) (s : St) (hs : s.strict = false) :
    NR (parseEntryBody paren s) := by
  rw [parseEntryBody_bind]
  refine NR.bind' (required_sim _ _ s).2.2 (fun pk s1 hr => ?_)
  have hs1 : s1.strict = false := (required_adv notEOF _ _ s).strict_ok hr hs
  refine NR.bind' ((parseEntryFields_G _ { s1 with curKey := some pk.2 }).2.2 hs1) (fun _ s2 _ => ?_)
  unfold wantOrSkip
  split <;> trivial

theorem parseStringBody_G (s : St) : G s (parseStringBody s) := by
  rw [parseStringBody_bind]
  refine G.bind (required_G _ _ s noClose_name) (fun pn s1 _ => ?_)
  refine G.congr (s0 := { s1 with curFieldName := some pn.2 }) rfl rfl rfl ?_
  refine G.bind (required_G _ _ _ (noClose_lit (by decide))) (fun _ s2 _ => ?_)
  exact G.bind (parseValue_G s2) (fun _ s3 _ => G.ok' _ rfl rfl rfl)

theorem cmdBody_adv (kind : CmdKind) (paren : Bool) (s : St) :
    Adv notEOF s (cmdBody kind paren s).st := by
  cases kind
  · exact (parseStringBody_G s).1
  · exact (parseValue_G s).1
  · exact parseEntryBody_adv paren s

theorem cmdBody_cr (kind : CmdKind) (s : St) (h : closes 0 s.rest = true) :
    CR (cmdBody kind false s) := by
  cases kind
  · exact (parseStringBody_G s).2.1 h
  · exact (parseValue_G s).2.1 h
  · exact parseEntryBody_cr s h

theorem cmdBody_nr (kind : CmdKind) (paren : Bool) (s : St) (hs : s.strict = false) :
    NR (cmdBody kind paren s) := by
  cases kind
  · exact (parseStringBody_G s).2.2 hs
  · exact (parseValue_G s).2.2 hs
  · exact parseEntryBody_nr paren s hs

/-! ## §7 processing a command: only data problems are reported -/

theorem addEntry_adv (s : St) (key : Str) (e : Entry) : Adv notEOF s (addEntry s key e).st := by
  unfold addEntry
  split
  · exact Adv.refl _ s
  · split
    · exact handleError_adv _ _ (by simp [notEOF])
    · exact Adv.of_eq rfl rfl rfl

theorem addPersons_adv (role : Str) (ns : List Str) (e : Entry) (s : St) :
    Adv notEOF s (addPersons role ns e s).st := by
  induction ns generalizing e s with
  | nil => exact Adv.refl _ s
  | cons n ns ih =>
    unfold addPersons
    split
    · exact Adv.refl _ s
    · rename_i p tooMany _
      simp only
      have h : Adv notEOF s
          (if tooMany then handleError s ⟨.invalidName (strip n), none⟩ else Res.ok () s).st := by
        split
        · exact handleError_adv _ _ (by simp [notEOF])
        · exact Adv.refl _ s
      cases hr : (if tooMany then handleError s ⟨.invalidName (strip n), none⟩ else Res.ok () s) with
      | fail a s' => rw [hr] at h; exact h
      | ok u s1 => rw [hr] at h; exact h.trans (ih _ s1)

theorem processFields_adv (key : Str) (fs : List (Str × List Str)) (seen : List Str) (e : Entry)
    (s : St) : Adv notEOF s (processFields key fs seen e s).st := by
  induction fs generalizing seen e s with
  | nil => exact Adv.refl _ s
  | cons f fs ih =>
    obtain ⟨name, parts⟩ := f
    unfold processFields
    split
    · have h := handleError_adv (K := notEOF) s ⟨.duplicateField key name, none⟩ (by simp [notEOF])
      cases hr : handleError s ⟨.duplicateField key name, none⟩ with
      | fail a s' => rw [hr] at h; exact h
      | ok u s1 => rw [hr] at h; exact h.trans (ih _ _ s1)
    · simp only
      split
      · have h := addPersons_adv name (splitNameList (normalizeWs parts.flatten)) e s
        cases hr : addPersons name (splitNameList (normalizeWs parts.flatten)) e s with
        | fail a s' => rw [hr] at h; exact h
        | ok e' s1 => rw [hr] at h; exact h.trans (ih _ _ s1)
      · exact ih _ _ s

theorem processEntry_adv (type : Str) (key : Option Str) (fields : List (Str × List Str)) (s : St) :
    Adv notEOF s (processEntry type key fields s).st := by
  unfold processEntry
  cases key with
  | some k =>
    simp only
    have h := processFields_adv k fields []
      { key := k, type := lower type, origType := type, fields := [], persons := [] } s
    cases hr : processFields k fields []
      { key := k, type := lower type, origType := type, fields := [], persons := [] } s with
    | fail a s' => rw [hr] at h; exact h
    | ok e s1 => rw [hr] at h; exact h.trans (addEntry_adv s1 k e)
  | none =>
    simp only
    have h : Adv notEOF s (processFields ("unnamed-".toList ++ natToStr s.unnamed) fields []
      { key := "unnamed-".toList ++ natToStr s.unnamed, type := lower type, origType := type, fields := [], persons := [] }
      { s with unnamed := s.unnamed + 1 }).st :=
      (processFields_adv ("unnamed-".toList ++ natToStr s.unnamed) fields []
        { key := "unnamed-".toList ++ natToStr s.unnamed, type := lower type, origType := type, fields := [], persons := [] }
        { s with unnamed := s.unnamed + 1 }).congr rfl rfl rfl
    cases hr : processFields ("unnamed-".toList ++ natToStr s.unnamed) fields []
      { key := "unnamed-".toList ++ natToStr s.unnamed, type := lower type, origType := type, fields := [], persons := [] }
      { s with unnamed := s.unnamed + 1 } with
    | fail a s' => rw [hr] at h; exact h
    | ok e s1 => rw [hr] at h; exact h.trans (addEntry_adv s1 _ e)

theorem processCmd_adv (c : Cmd) (s : St) : Adv notEOF s (processCmd c s).st := by
  unfold processCmd
  split
  · exact Adv.refl _ s
  · exact Adv.of_eq rfl rfl rfl
  · exact processEntry_adv _ _ _ s

/-! ## §8 `parse_command` and one round of the command loop -/

/-- a syntax error on its way to a handler is not `PrematureEOF` -/
def NoEOFFail {α : Type} : Res α → Prop
  | .fail (.syn e) _ => e.kind ≠ .prematureEOF
  | _ => True

theorem afterBody_adv {s : St} {body : Res Unit} (bodyEnd : Pat) (hb : Adv notEOF s body.st) :
    Adv notEOF s (afterBody body bodyEnd).st := by
  unfold afterBody
  exact Adv.bind hb (fun _ s1 _ => Adv.bind (required_adv _ _ _ s1) (fun _ s2 _ => Adv.refl _ _))

/-- `required([body_end])` behind the body: whatever `body_end` is, it is looked for in front of a
text that closes the brace of the command — "`}` expected" at worst -/
theorem afterBody_noEOF {body : Res Unit} (bodyEnd : Pat) (hb : CR body) :
    NoEOFFail (afterBody body bodyEnd) := by
  unfold afterBody
  cases body with
  | ok u s1 =>
    have ht := required_tokR cl0_wsInv [bodyEnd] (descOf [bodyEnd]) s1 hb
    show NoEOFFail ((required [bodyEnd] (descOf [bodyEnd]) s1).bind _)
    cases hr : required [bodyEnd] (descOf [bodyEnd]) s1 with
    | fail a s2 =>
      rw [hr] at ht
      cases a with
      | syn e => exact ht
      | skip => trivial
      | raised e => trivial
    | ok t s2 => trivial
  | fail a s1 =>
    cases a with
    | syn e => exact hb
    | skip => trivial
    | raised e => trivial

/-- the handler of `parse_command`: the syntax error of the body (kind `K`) is reported -/
theorem finish_adv {K : ErrKind → Prop} {s : St} {ab : Res Unit} (mk : St → Cmd)
    (h : Adv K s ab.st) (hf : ∀ e s1, ab = .fail (.syn e) s1 → K e.kind) :
    Adv K s (finish ab mk).st := by
  cases ab with
  | ok u s1 => exact h
  | fail a s1 =>
    cases a with
    | syn e =>
      have h2 := handleError_adv s1 e (hf e s1 rfl)
      unfold finish
      simp only
      cases hr : handleError s1 e with
      | fail a s' => rw [hr] at h2; exact h.trans h2
      | ok u s' => rw [hr] at h2; exact h.trans h2
    | skip => exact h
    | raised e => exact h

theorem handleError_noSyn (s : St) (e : Err) : NoEOFFail (handleError s e) := by
  unfold handleError
  split <;> trivial

/-- no syntax error leaves `parse_command`'s handler -/
theorem finish_noEOF (ab : Res Unit) (mk : St → Cmd) : NoEOFFail (finish ab mk) := by
  cases ab with
  | ok u s1 => trivial
  | fail a s1 =>
    cases a with
    | syn e =>
      unfold finish
      simp only
      cases hs : s1.strict <;> simp only [handleError, hs, ↓reduceIte, Bool.false_eq_true] <;> trivial
    | skip => trivial
    | raised e => trivial

theorem cmdTail_any (command : Str) (open_ : Pat) (s : St) :
    Adv anyKind s (cmdTail command open_ s).st := by
  unfold cmdTail
  split
  · exact Adv.refl _ s
  · exact finish_adv _ (afterBody_adv _ (cmdBody_adv _ _ s)).any (fun _ _ _ => trivial)

/-- behind `name {`, in front of a text that closes this brace -/
theorem cmdTail_closed (command : Str) (s : St) (h : closes 0 s.rest = true) :
    Adv notEOF s (cmdTail command (.lit '{') s).st ∧ NoEOFFail (cmdTail command (.lit '{') s) := by
  unfold cmdTail
  split
  · exact ⟨Adv.refl _ s, trivial⟩
  · have hd : decide (Pat.lit '{' = Pat.lit '(') = false := by decide
    simp only [hd, Bool.false_eq_true, ↓reduceIte]
    refine ⟨finish_adv _ (afterBody_adv _ (cmdBody_adv _ _ s)) (fun e s1 he => ?_), finish_noEOF _ _⟩
    have := afterBody_noEOF (.lit '}') (cmdBody_cr (cmdKind (lower command)) s h)
    rw [he] at this
    exact this

/-- **`parse_command`, unconditionally**: it leaves a suffix of the unread text unread, keeps the
mode and appends to the list of problems -/
theorem parseCommand_any (s : St) : Adv anyKind s (parseCommand s).st := by
  rw [parseCommand_eq]
  refine Adv.bind ((required_adv anyKind _ _ (clr s)).congr rfl rfl rfl) (fun pc s1 _ => ?_)
  exact Adv.bind (required_adv _ _ _ s1) (fun po s2 _ => cmdTail_any _ _ s2)

/-- **`parse_command` in front of a text whose first bracket is a `{` that is closed**: the
problems it reports are not `PrematureEOF`, nor is the syntax error that leaves it (one of the
two `TokenRequired` of the head) -/
theorem parseCommand_closed (s : St) (h : openCloses s.rest = true) :
    Adv notEOF s (parseCommand s).st ∧ NoEOFFail (parseCommand s) := by
  rw [parseCommand_eq]
  have ht := required_tokR op_wsInv [.name] (descOf [.name]) (clr s) h
  have ha : Adv notEOF s (required [.name] (descOf [.name]) (clr s)).st :=
    (required_adv notEOF _ _ (clr s)).congr rfl rfl rfl
  cases hr : required [.name] (descOf [.name]) (clr s) with
  | fail a s1 =>
    rw [hr] at ht ha
    refine ⟨ha, ?_⟩
    cases a with
    | syn e => exact ht
    | skip => trivial
    | raised e => trivial
  | ok pc s1 =>
    rw [hr] at ht ha
    obtain ⟨p, v⟩ := pc
    obtain ⟨hp, hc, hv, hI⟩ := ht
    have hp' : p = .name := List.mem_singleton.1 hp
    subst hp'
    have hop : openCloses s1.rest = true := by
      refine openCloses_skip (fun c hc' => ?_) hI
      have := nameChar_not_bracket (hc c hc')
      exact ⟨this.1, this.2.2⟩
    have ht2 := required_tokR op_wsInv [.lit '(', .lit '{'] (descOf [.lit '(', .lit '{']) s1 hop
    have ha2 := required_adv notEOF [.lit '(', .lit '{'] (descOf [.lit '(', .lit '{']) s1
    show Adv notEOF s ((required [.lit '(', .lit '{'] (descOf [.lit '(', .lit '{']) s1).bind _).st ∧
      NoEOFFail ((required [.lit '(', .lit '{'] (descOf [.lit '(', .lit '{']) s1).bind _)
    cases hr2 : required [.lit '(', .lit '{'] (descOf [.lit '(', .lit '{']) s1 with
    | fail a s2 =>
      rw [hr2] at ht2 ha2
      refine ⟨ha.trans ha2, ?_⟩
      cases a with
      | syn e => exact ht2
      | skip => trivial
      | raised e => trivial
    | ok po s2 =>
      rw [hr2] at ht2 ha2
      obtain ⟨p2, v2⟩ := po
      obtain ⟨hp2, hc2, hv2, hI2⟩ := ht2
      cases v2 with
      | nil => exact absurd rfl hv2
      | cons x v' =>
        have hI2' : openCloses (x :: (v' ++ s2.rest)) = true := hI2
        simp only [List.mem_cons, List.not_mem_nil, or_false] at hp2
        rcases hp2 with rfl | rfl
        · have hx : x = '(' := hc2 x List.mem_cons_self
          subst hx
          simp [openCloses] at hI2'
        · have hx : x = '{' := hc2 x List.mem_cons_self
          subst hx
          have hcl : closes 0 (v' ++ s2.rest) = true := by
            simpa [openCloses] using hI2'
          have hcl2 : closes 0 s2.rest = true := by
            refine closes_skip (fun c hc' => ?_) hcl
            have : c = '{' := hc2 c (List.mem_cons_of_mem _ hc')
            rw [this]; decide
          have := cmdTail_closed v s2 hcl2
          exact ⟨ha.trans (ha2.trans this.1), this.2⟩

/-- a round behind the `@`, given what `parse_command` does -/
theorem cmdStep_adv {K : ErrKind → Prop} (hK : ∀ k, notEOF k → K k) (s : St)
    (hp : Adv K s (parseCommand s).st)
    (hf : ∀ e s1, parseCommand s = .fail (.syn e) s1 → K e.kind) :
    Adv K s (Step.st (cmdStep s)) := by
  unfold cmdStep
  cases hr : parseCommand s with
  | ok c s1 =>
    rw [hr] at hp
    simp only
    have h2 := (processCmd_adv c s1).mono hK
    cases hr2 : processCmd c s1 with
    | ok u s2 => rw [hr2] at h2; exact hp.trans h2
    | fail a s2 =>
      rw [hr2] at h2
      cases a <;> exact hp.trans h2
  | fail a s1 =>
    rw [hr] at hp
    cases a with
    | syn e =>
      simp only
      have h2 := handleError_adv s1 e (hf e s1 hr)
      cases hr2 : handleError s1 e with
      | ok u s2 => rw [hr2] at h2; exact hp.trans h2
      | fail a s2 =>
        rw [hr2] at h2
        cases a <;> exact hp.trans h2
    | skip => exact hp
    | raised e => exact hp

/-- the round from `s`, when the first `@` of the unread text is known -/
theorem loopStep_at (s : St) (pre r : Str) (hs : s.rest = pre ++ '@' :: r) (hpre : '@' ∉ pre) :
    loopStep s = cmdStep { s with rest := r, ln := s.ln + countNl (pre ++ ['@']) } := by
  rw [loopStep_eq]
  have : skipToChar (· = '@') s.rest = some (pre ++ ['@'], r) := by
    rw [hs, skipToChar_prepend _ _ _ (notAt pre hpre)]
    simp [skipToChar]
  show (match skipToChar (· = '@') s.rest with
    | none => _
    | some (chunk, rest) => _) = _
  rw [this]

theorem split_at {a : Str} (h : '@' ∈ a) : ∃ pre r, a = pre ++ '@' :: r ∧ '@' ∉ pre := by
  obtain ⟨chunk, rest, hsk⟩ := skipToChar_some_of (· = '@') a '@' h (by simp)
  obtain ⟨pre, c, _, e2, hc, hpre⟩ := skipToChar_split hsk
  have hc' : c = '@' := by simpa using hc
  subst hc'
  refine ⟨pre, rest, e2, fun hm => ?_⟩
  have := hpre '@' hm
  simp at this

/-- a round that finds no `@` stops -/
theorem loopStep_no_at (s : St) (h : '@' ∉ s.rest) : loopStep s = .inl (s, none) := by
  have := (loopStep_resync s s.rest [] h).1 (by simp)
  simpa using this

/-- **Part 1.  What a round leaves unread is a suffix of the text behind the `@` it started at**
(whatever the outcome of the round: `.inr`, or `.inl` with an error that left the reader); the
round keeps the mode and only appends to the list of problems. -/
theorem loopStep_suffix (s : St) (hat : '@' ∈ s.rest) :
    ∃ pre r, s.rest = pre ++ '@' :: r ∧ '@' ∉ pre ∧ (Step.st (loopStep s)).rest <:+ r ∧
      (Step.st (loopStep s)).strict = s.strict ∧ s.errs <+: (Step.st (loopStep s)).errs := by
  obtain ⟨pre, r, hs, hpre⟩ := split_at hat
  refine ⟨pre, r, hs, hpre, ?_⟩
  rw [loopStep_at s pre r hs hpre]
  have := cmdStep_adv (K := anyKind) (fun _ _ => trivial)
    { s with rest := r, ln := s.ln + countNl (pre ++ ['@']) } (parseCommand_any _) (fun _ _ _ => trivial)
  obtain ⟨h1, h2, l, h3, _⟩ := this
  exact ⟨h1, h2, l, h3.symm⟩

theorem loopStep_inr_suffix {s s' : St} (h : loopStep s = .inr s') :
    ∃ pre r, s.rest = pre ++ '@' :: r ∧ '@' ∉ pre ∧ s'.rest <:+ r := by
  have hat : '@' ∈ s.rest := by
    apply Classical.byContradiction
    intro hn
    rw [loopStep_no_at s hn] at h
    cases h
  obtain ⟨pre, r, h1, h2, h3, _⟩ := loopStep_suffix s hat
  rw [h] at h3
  exact ⟨pre, r, h1, h2, h3⟩

/-- **`hat` from syntax**: if `bad` contains one `@` only, the round on `bad` leaves no `@` unread -/
theorem hat_of_no_at (S S1 : St) (bad pre r : Str) (hbad : bad = pre ++ '@' :: r) (hpre : '@' ∉ pre)
    (hr : '@' ∉ r) (hround : loopStep { S with rest := bad } = .inr S1) : '@' ∉ S1.rest := by
  obtain ⟨pre', r', h1, h2, h3⟩ := loopStep_inr_suffix hround
  have h1' : pre ++ '@' :: r = pre' ++ '@' :: r' := by rw [← hbad]; exact h1
  intro hm
  have hm' : '@' ∈ r' := h3.subset hm
  -- `pre = pre'`: both are the text in front of the first `@`
  have : r = r' := by
    clear h3 hm hround h1 hbad
    induction pre generalizing pre' with
    | nil =>
      cases pre' with
      | nil => simpa using h1'
      | cons x p' =>
        simp only [List.nil_append, List.cons_append, List.cons.injEq] at h1'
        exact absurd (h1'.1 ▸ List.mem_cons_self) h2
    | cons y p ih =>
      cases pre' with
      | nil =>
        simp only [List.nil_append, List.cons_append, List.cons.injEq] at h1'
        exact absurd (h1'.1 ▸ List.mem_cons_self) hpre
      | cons x p' =>
        simp only [List.cons_append, List.cons.injEq] at h1'
        exact ih (fun hh => hpre (List.mem_cons_of_mem _ hh)) p'
          (fun hh => h2 (List.mem_cons_of_mem _ hh)) h1'.2
  rw [this] at hr
  exact hr hm'

/-! ## §8b continue mode: the round goes on, unless `Person()` raises -/

theorem afterBody_nr {body : Res Unit} (bodyEnd : Pat) (hb : NR body) :
    NR (afterBody body bodyEnd) := by
  unfold afterBody
  exact NR.bind' hb (fun _ s1 _ => NR.bind' (required_sim _ _ s1).2.2 (fun _ _ _ => trivial))

theorem finish_nr {ab : Res Unit} (mk : St → Cmd) (hb : NR ab) (hs : ab.st.strict = false) :
    NR (finish ab mk) := by
  cases ab with
  | ok u s1 => trivial
  | fail a s1 =>
    cases a with
    | syn e =>
      have hs1 : s1.strict = false := hs
      unfold finish
      simp only [handleError, hs1, Bool.false_eq_true, ↓reduceIte]
      trivial
    | skip => trivial
    | raised e => exact hb

theorem cmdTail_nr (command : Str) (open_ : Pat) (s : St) (hs : s.strict = false) :
    NR (cmdTail command open_ s) := by
  unfold cmdTail
  split
  · trivial
  · refine finish_nr _ (afterBody_nr _ (cmdBody_nr _ _ s hs)) ?_
    exact (afterBody_adv _ (cmdBody_adv _ _ s)).2.1.trans hs

/-- in continue mode `parse_command` raises nothing -/
theorem parseCommand_nr (s : St) (hs : s.strict = false) : NR (parseCommand s) := by
  rw [parseCommand_eq]
  refine NR.bind' (required_sim _ _ (clr s)).2.2 (fun pc s1 hr => ?_)
  have hs1 : s1.strict = false := (required_adv notEOF _ _ (clr s)).strict_ok hr hs
  refine NR.bind' (required_sim _ _ s1).2.2 (fun po s2 hr2 => ?_)
  exact cmdTail_nr _ _ s2 ((required_adv notEOF _ _ s1).strict_ok hr2 hs1)

theorem addEntry_nr (s : St) (key : Str) (e : Entry) (hs : s.strict = false) :
    NR (addEntry s key e) := by
  unfold addEntry
  split
  · trivial
  · split
    · simp only [handleError, hs, Bool.false_eq_true, ↓reduceIte]; trivial
    · trivial

theorem addPersons_nr (role : Str) (ns : List Str) (e : Entry) (s : St) (hs : s.strict = false) :
    NR (addPersons role ns e s) := by
  induction ns generalizing e s with
  | nil => trivial
  | cons n ns ih =>
    unfold addPersons
    split
    · exact rfl
    · rename_i p tooMany _
      cases tooMany with
      | false => exact ih _ s hs
      | true =>
        simp only [handleError, hs, Bool.false_eq_true, ↓reduceIte]
        exact ih _ _ hs

theorem processFields_nr (key : Str) (fs : List (Str × List Str)) (seen : List Str) (e : Entry)
    (s : St) (hs : s.strict = false) : NR (processFields key fs seen e s) := by
  induction fs generalizing seen e s with
  | nil => trivial
  | cons f fs ih =>
    obtain ⟨name, parts⟩ := f
    unfold processFields
    split
    · simp only [handleError, hs, Bool.false_eq_true, ↓reduceIte]
      exact ih _ _ _ hs
    · simp only
      split
      · have h := addPersons_nr name (splitNameList (normalizeWs parts.flatten)) e s hs
        have ha := addPersons_adv name (splitNameList (normalizeWs parts.flatten)) e s
        cases hr : addPersons name (splitNameList (normalizeWs parts.flatten)) e s with
        | fail a s' => rw [hr] at h; exact h
        | ok e' s1 => exact ih _ _ s1 (ha.strict_ok hr hs)
      · exact ih _ _ s hs

theorem processEntry_nr (type : Str) (key : Option Str) (fields : List (Str × List Str)) (s : St)
    (hs : s.strict = false) : NR (processEntry type key fields s) := by
  unfold processEntry
  cases key with
  | some k =>
    simp only
    have h := processFields_nr k fields []
      { key := k, type := lower type, origType := type, fields := [], persons := [] } s hs
    have ha := processFields_adv k fields []
      { key := k, type := lower type, origType := type, fields := [], persons := [] } s
    cases hr : processFields k fields []
      { key := k, type := lower type, origType := type, fields := [], persons := [] } s with
    | fail a s' => rw [hr] at h; exact h
    | ok e s1 => exact addEntry_nr s1 k e (ha.strict_ok hr hs)
  | none =>
    simp only
    have h := processFields_nr ("unnamed-".toList ++ natToStr s.unnamed) fields []
      { key := "unnamed-".toList ++ natToStr s.unnamed, type := lower type, origType := type, fields := [], persons := [] }
      { s with unnamed := s.unnamed + 1 } hs
    have ha := processFields_adv ("unnamed-".toList ++ natToStr s.unnamed) fields []
      { key := "unnamed-".toList ++ natToStr s.unnamed, type := lower type, origType := type, fields := [], persons := [] }
      { s with unnamed := s.unnamed + 1 }
    cases hr : processFields ("unnamed-".toList ++ natToStr s.unnamed) fields []
      { key := "unnamed-".toList ++ natToStr s.unnamed, type := lower type, origType := type, fields := [], persons := [] }
      { s with unnamed := s.unnamed + 1 } with
    | fail a s' => rw [hr] at h; exact h
    | ok e s1 => exact addEntry_nr s1 _ e (ha.strict_ok hr hs)

theorem processCmd_nr (c : Cmd) (s : St) (hs : s.strict = false) : NR (processCmd c s) := by
  unfold processCmd
  split
  · trivial
  · trivial
  · exact processEntry_nr _ _ _ s hs

/-- a round behind the `@` in continue mode: the loop goes on, or `Person()` raised its
`BibTeXError` (a name nested deeper than 100 braces) -/
theorem cmdStep_continue (s : St) (hs : s.strict = false) :
    ∃ s', cmdStep s = .inr s' ∨ cmdStep s = .inl (s', some ⟨.nameTooDeep, none⟩) := by
  unfold cmdStep
  have hn := parseCommand_nr s hs
  have ha := parseCommand_any s
  cases hr : parseCommand s with
  | ok c s1 =>
    have hs1 : s1.strict = false := ha.strict_ok hr hs
    have h2 := processCmd_nr c s1 hs1
    have h3 := processCmd_ns c s1
    simp only
    cases hr2 : processCmd c s1 with
    | ok u s2 => exact ⟨s2, Or.inl rfl⟩
    | fail a s2 =>
      rw [hr2] at h2 h3
      cases a with
      | syn e => exact h3.elim
      | skip => exact ⟨s2, Or.inl rfl⟩
      | raised e =>
        have he : e = ⟨.nameTooDeep, none⟩ := h2
        subst he
        exact ⟨s2, Or.inr rfl⟩
  | fail a s1 =>
    rw [hr] at hn ha
    cases a with
    | syn e =>
      have hs1 : s1.strict = false := ha.2.1.trans hs
      simp only [handleError, hs1, Bool.false_eq_true, ↓reduceIte]
      exact ⟨_, Or.inl rfl⟩
    | skip => exact ⟨s1, Or.inl rfl⟩
    | raised e =>
      have he : e = ⟨.nameTooDeep, none⟩ := hn
      subst he
      exact ⟨s1, Or.inr rfl⟩

/-- **In continue mode a round that finds an `@` goes on** (`.inr`) — unless `Person()` raises its
`BibTeXError`, which is not routed through `handle_error` -/
theorem loopStep_continue (s : St) (hs : s.strict = false) (hat : '@' ∈ s.rest) :
    ∃ s', loopStep s = .inr s' ∨ loopStep s = .inl (s', some ⟨.nameTooDeep, none⟩) := by
  obtain ⟨pre, r, h1, h2⟩ := split_at hat
  rw [loopStep_at s pre r h1 h2]
  exact cmdStep_continue _ hs

/-! ## §9 the syntactic premise -/

/-- **`bad` is a self-contained command**, syntactically: it contains exactly one `@`; behind that
`@` the first bracket is a `{` (not a `(`), and that brace is closed within `bad` — by brace
counting alone (`openCloses`, `closes`): quotes, the shape of the command name, of the key and of
the fields do not matter, nor does what follows the closing brace (as long as it has no `@`). -/
def SelfContained (bad : Str) : Prop :=
  ∃ pre r, bad = pre ++ '@' :: r ∧ '@' ∉ pre ∧ '@' ∉ r ∧ openCloses r = true

/-- **Part 2.  The round on a self-contained command** (from any state `S`, in either mode,
whatever its outcome) reports no `PrematureEOF` and leaves no `@` unread; what it leaves unread is
a suffix of the text behind the `@`. -/
theorem loopStep_selfContained (S : St) (bad : Str) (h : SelfContained bad) :
    (∃ l, (Step.st (loopStep { S with rest := bad })).errs = S.errs ++ l ∧
      ∀ e ∈ l, e.kind ≠ .prematureEOF) ∧
    '@' ∉ (Step.st (loopStep { S with rest := bad })).rest := by
  obtain ⟨pre, r, hb, hpre, hr, hop⟩ := h
  rw [loopStep_at { S with rest := bad } pre r hb hpre]
  have hc := parseCommand_closed
    { S with rest := r, ln := S.ln + countNl (pre ++ ['@']) } hop
  have := cmdStep_adv (K := notEOF) (fun _ h => h) _ hc.1
    (fun e s1 he => by have h2 := hc.2; rw [he] at h2; exact h2)
  obtain ⟨h1, _, l, h3, h4⟩ := this
  exact ⟨⟨l, h3, h4⟩, fun hm => hr (h1.subset hm)⟩

/-- **`hE` and `hat` from syntax**: the two operational hypotheses of `C10_confined_after` -/
theorem hE_hat_of_selfContained (S S1 : St) (bad : Str) (h : SelfContained bad)
    (hround : loopStep { S with rest := bad } = .inr S1) :
    (∀ e ∈ S1.errs.drop S.errs.length, e.kind ≠ .prematureEOF) ∧ '@' ∉ S1.rest := by
  have := loopStep_selfContained S bad h
  rw [hround] at this
  obtain ⟨⟨l, h1, h2⟩, h3⟩ := this
  refine ⟨?_, h3⟩
  have h1' : S1.errs = S.errs ++ l := h1
  have : S1.errs.drop S.errs.length = l := by rw [h1']; simp
  rw [this]; exact h2

/-- the same for a whole text with `bad` at its head (`hE`, `hat` of `C10_confined_after_head`) -/
theorem hE_hat_of_selfContained_head (bad : Str) (strict : Bool) (wanted : Option (List Str))
    (macros0 : List (Str × Str)) (roles : List Str) (S1 : St) (h : SelfContained bad)
    (hround : loopStep (initSt bad strict wanted macros0 roles) = .inr S1) :
    (∀ e ∈ S1.errs, e.kind ≠ .prematureEOF) ∧ '@' ∉ S1.rest := by
  have := hE_hat_of_selfContained (initSt [] strict wanted macros0 roles) S1 bad h hround
  have he : (initSt [] strict wanted macros0 roles).errs = [] := rfl
  rw [he] at this
  exact this

theorem dropWhile_not_at (pre r : Str) (h : '@' ∉ pre) :
    (pre ++ '@' :: r).dropWhile (fun c => c != '@') = '@' :: r := by
  induction pre with
  | nil => simp
  | cons x p ih =>
    have hx : x ≠ '@' := fun e => h (e ▸ List.mem_cons_self)
    have hx' : (x != '@') = true := by simpa using hx
    rw [List.cons_append, List.dropWhile_cons, if_pos hx']
    exact ih (fun hh => h (List.mem_cons_of_mem _ hh))

theorem selfContainedB_iff (bad : Str) : selfContainedB bad = true ↔ SelfContained bad := by
  constructor
  · intro h
    unfold selfContainedB at h
    split at h
    · cases h
    · rename_i c r hd
      have hc : c = '@' := by
        have := dropWhile_head_false _ _ _ _ hd
        simpa using this
      subst hc
      simp only [Bool.and_eq_true, Bool.not_eq_true', List.contains_eq_mem, decide_eq_false_iff_not] at h
      refine ⟨bad.takeWhile (fun c => c != '@'), r, ?_, ?_, h.1, h.2⟩
      · rw [← hd]; exact (List.takeWhile_append_dropWhile).symm
      · intro hm
        have := mem_takeWhile_imp hm
        simp at this
  · rintro ⟨pre, r, hb, hpre, hr, hop⟩
    unfold selfContainedB
    rw [hb, dropWhile_not_at pre r hpre]
    simp only [Bool.and_eq_true, Bool.not_eq_true', List.contains_eq_mem, decide_eq_false_iff_not]
    exact ⟨hr, hop⟩

instance (bad : Str) : Decidable (SelfContained bad) :=
  decidable_of_iff _ (selfContainedB_iff bad)

/-- **The FLAT class**: `@ name { body } tail` with white space `w1`, `w2` around the name, a name
made of NAME characters other than `@`, a body that contains none of `{ } " @` (so no string is
ever opened and the final `}` is the only closing brace) and white space behind the closing
brace. -/
def FlatCmd (bad : Str) : Prop :=
  ∃ w1 name w2 body tail,
    bad = '@' :: (w1 ++ (name ++ (w2 ++ '{' :: (body ++ '}' :: tail)))) ∧
    (∀ c ∈ w1, isWs c = true) ∧
    (∃ c n, name = c :: n ∧ isNameStart c = true ∧ ∀ d ∈ n, isNameChar d = true) ∧ '@' ∉ name ∧
    (∀ c ∈ w2, isWs c = true) ∧
    (∀ c ∈ body, c ≠ '{' ∧ c ≠ '}' ∧ c ≠ '"' ∧ c ≠ '@') ∧
    (∀ c ∈ tail, isWs c = true)

/-- a flat command is self-contained -/
theorem FlatCmd.selfContained {bad : Str} (h : FlatCmd bad) : SelfContained bad := by
  obtain ⟨w1, name, w2, body, tail, hb, hw1, ⟨c, n, hn, hc, hns⟩, hat, hw2, hbody, htail⟩ := h
  have hname : ∀ d ∈ name, d ≠ '{' ∧ d ≠ '(' := by
    intro d hd
    rw [hn] at hd
    rcases List.mem_cons.1 hd with hd | hd
    · have := nameChar_not_bracket (Or.inl (hd ▸ hc)); exact ⟨this.1, this.2.2⟩
    · have := nameChar_not_bracket (Or.inr (hns d hd)); exact ⟨this.1, this.2.2⟩
  have hws : ∀ w : Str, (∀ c ∈ w, isWs c = true) → ∀ d ∈ w, d ≠ '{' ∧ d ≠ '(' :=
    fun w hw d hd => ⟨(ws_not_special (hw d hd)).1, (ws_not_special (hw d hd)).2.2.1⟩
  refine ⟨[], _, hb, List.not_mem_nil, ?_, ?_⟩
  · simp only [List.mem_append, List.mem_cons, not_or]
    refine ⟨fun hm => (ws_not_special (hw1 _ hm)).2.2.2 rfl, hat,
      fun hm => (ws_not_special (hw2 _ hm)).2.2.2 rfl, by decide,
      fun hm => (hbody _ hm).2.2.2 rfl, by decide,
      fun hm => (ws_not_special (htail _ hm)).2.2.2 rfl⟩
  · rw [openCloses_append_plain _ (hws w1 hw1), openCloses_append_plain _ hname,
      openCloses_append_plain _ (hws w2 hw2)]
    show closes 0 (body ++ '}' :: tail) = true
    rw [closes_append_plain _ _ (fun c hc => ⟨(hbody c hc).1, (hbody c hc).2.1⟩)]
    exact closes_close_zero tail

/-- **Part 3.  Confinement after a self-contained command**, with a syntactic premise:
`C10_confined_after` with `hE`, `hat` replaced by `SelfContained bad`. -/
theorem confined_after_selfContained {N : Nat} (S S1 : St) (bad post : Str)
    (hI : Inv N { S with rest := bad ++ post })
    (hsc : SelfContained bad)
    (hround : loopStep { S with rest := bad } = .inr S1) :
    let A := parseLoop ((bad ++ post).length + 1) { S with rest := bad ++ post }
    let B := parseLoop (post.length + 1) (carry S S1 post)
    let δ := countNl (bad ++ post) - countNl post
    (∀ key, (S1.db.entries.drop S.db.entries.length).any (fun e => keyFold e.key = keyFold key) = true →
        errRep key ∉ A.1.errs.drop S1.errs.length ∧ A.2 ≠ some (errRep key)) →
    A.1.db.entries = S1.db.entries ++ B.1.db.entries.drop S.db.entries.length ∧
    A.1.db.preamble = S1.db.preamble ++ B.1.db.preamble.drop S.db.preamble.length ∧
    A.1.errs = S1.errs ++ (B.1.errs.drop S.errs.length).map (shiftErr δ) ∧
    A.2 = B.2.map (shiftErr δ) := by
  intro A B δ hK
  obtain ⟨hE, hat⟩ := hE_hat_of_selfContained S S1 bad hsc hround
  exact parseLoop_confined S S1 bad post A B hI hround hE hat rfl rfl hK

theorem carry_eq (S S1 : St) (post : Str) (hmac : S1.macros = S.macros) (hun : S1.unnamed = S.unnamed)
    (hw : S1.db.wanted = S.db.wanted) : carry S S1 post = { S with rest := post } := by
  apply St.ext' <;> try rfl
  · exact hmac
  · apply Db.ext' <;> try rfl
    exact hw
  · exact hun

/-- the same when `bad` hands nothing on (`C10_confined_after_partial` with `hE`, `hat` replaced by
`SelfContained bad`) -/
theorem confined_after_selfContained_partial {N : Nat} (S S1 : St) (bad post : Str)
    (hI : Inv N { S with rest := bad ++ post })
    (hsc : SelfContained bad)
    (hround : loopStep { S with rest := bad } = .inr S1)
    (hmac : S1.macros = S.macros) (hun : S1.unnamed = S.unnamed) (hw : S1.db.wanted = S.db.wanted) :
    let A := parseLoop ((bad ++ post).length + 1) { S with rest := bad ++ post }
    let B := parseLoop (post.length + 1) { S with rest := post }
    let δ := countNl (bad ++ post) - countNl post
    (∀ key, (S1.db.entries.drop S.db.entries.length).any (fun e => keyFold e.key = keyFold key) = true →
        errRep key ∉ A.1.errs.drop S1.errs.length ∧ A.2 ≠ some (errRep key)) →
    A.1.db.entries = S1.db.entries ++ B.1.db.entries.drop S.db.entries.length ∧
    A.1.db.preamble = S1.db.preamble ++ B.1.db.preamble.drop S.db.preamble.length ∧
    A.1.errs = S1.errs ++ (B.1.errs.drop S.errs.length).map (shiftErr δ) ∧
    A.2 = B.2.map (shiftErr δ) := by
  intro A B δ hK
  have := confined_after_selfContained S S1 bad post hI hsc hround
  simp only [carry_eq S S1 post hmac hun hw] at this
  exact this hK

/-- `confined_after_selfContained_partial` for the FLAT class -/
theorem confined_after_flat {N : Nat} (S S1 : St) (bad post : Str)
    (hI : Inv N { S with rest := bad ++ post })
    (hflat : FlatCmd bad)
    (hround : loopStep { S with rest := bad } = .inr S1)
    (hmac : S1.macros = S.macros) (hun : S1.unnamed = S.unnamed) (hw : S1.db.wanted = S.db.wanted) :
    let A := parseLoop ((bad ++ post).length + 1) { S with rest := bad ++ post }
    let B := parseLoop (post.length + 1) { S with rest := post }
    let δ := countNl (bad ++ post) - countNl post
    (∀ key, (S1.db.entries.drop S.db.entries.length).any (fun e => keyFold e.key = keyFold key) = true →
        errRep key ∉ A.1.errs.drop S1.errs.length ∧ A.2 ≠ some (errRep key)) →
    A.1.db.entries = S1.db.entries ++ B.1.db.entries.drop S.db.entries.length ∧
    A.1.db.preamble = S1.db.preamble ++ B.1.db.preamble.drop S.db.preamble.length ∧
    A.1.errs = S1.errs ++ (B.1.errs.drop S.errs.length).map (shiftErr δ) ∧
    A.2 = B.2.map (shiftErr δ) :=
  confined_after_selfContained_partial S S1 bad post hI hflat.selfContained hround hmac hun hw

/-- the predicate on the examples: it holds for `@misc{k, t = x y}` (`exBad` of `Props/C10.lean`),
for values with nested braces and quotes, and for a quoted string that runs into the closing brace
of the command; it fails for the command with an `@` inside (`C10_confined_neg`), for the lone `@`
and `@misc` (`C10_confined_lone_at_neg`, `C10_confined_next_at_neg`), for the parenthesised
`@a(k)`, and for a brace that is not closed -/
theorem selfContained_examples :
    SelfContained "@misc{k, t = x y}\n".toList ∧
    SelfContained "@misc{k, t = {a {b} \"c}, u = \"d{\"}e\" # x y} trailing junk\n".toList ∧
    SelfContained "@misc{k, t = \"abc}\n".toList ∧
    SelfContained "junk @ misc {k}".toList ∧
    ¬ SelfContained "@misc{k, t = x y @misc{z, u = 1} }".toList ∧
    ¬ SelfContained "@".toList ∧
    ¬ SelfContained "@misc".toList ∧
    ¬ SelfContained "@a(k)".toList ∧
    ¬ SelfContained "@misc{k, t = {a}".toList ∧
    ¬ SelfContained "@misc{k, t = \"a{b}\n".toList := by
  decide +kernel

/-- `@misc{k, t = x y}` + line break is flat (`w1 = w2 = ""`, name `misc`, body `k, t = x y`, tail =
the line break) -/
theorem flatCmd_example : FlatCmd "@misc{k, t = x y}\n".toList :=
  ⟨[], "misc".toList, [], "k, t = x y".toList, "\n".toList, rfl, by decide,
    ⟨'m', "isc".toList, rfl, by decide, by decide⟩, by decide, by decide, by decide, by decide⟩

/-! The property-level statements (`C10_confined_syntactic_at`, `C10_confined_syntactic`,
`C10_selfContained_round`, `C10_confined_syntactic_flat`) are in `Props/C10.lean`. -/

end Pybtex.Bib
