/-
C17 — helper lemmas about `Model/IO.lean` (splitext, the run-time registry, refinement of the
two-table plug-in lookup to the one-table reference of `Spec/Plugins.lean`).
-/
import PybtexModel.Model.IO
import PybtexModel.Spec.Plugins

namespace Pybtex.IO
open Pybtex

instance {ε α : Type} [DecidableEq ε] [DecidableEq α] : DecidableEq (Except ε α) := fun a b =>
  match a, b with
  | .ok x, .ok y => if h : x = y then isTrue (by rw [h]) else isFalse (fun e => h (by cases e; rfl))
  | .error x, .error y => if h : x = y then isTrue (by rw [h]) else isFalse (fun e => h (by cases e; rfl))
  | .ok _, .error _ => isFalse (fun e => by cases e)
  | .error _, .ok _ => isFalse (fun e => by cases e)

/-! ### the four modes the entry points use -/
@[simp] theorem mode_r : (['r'] : Str).contains 'w' = false := by decide
@[simp] theorem mode_rb : (['r', 'b'] : Str).contains 'w' = false := by decide
@[simp] theorem mode_w : (['w'] : Str).contains 'w' = true := by decide
@[simp] theorem mode_wb : (['w', 'b'] : Str).contains 'w' = true := by decide

/-! ### `splitLast` / `splitext` -/

theorem splitLast_not_mem (c : Char) (s : Str) (h : c ∉ s) : splitLast c s = none := by
  induction s with
  | nil => rfl
  | cons x r ih =>
    have hx : x ≠ c := fun e => h (by simp [e])
    have hr : c ∉ r := fun m => h (List.mem_cons_of_mem _ m)
    simp [splitLast, ih hr, hx]

theorem splitLast_append (c : Char) (a b : Str) (h : c ∉ b) : splitLast c (a ++ c :: b) = some (a, b) := by
  induction a with
  | nil => simp [splitLast, splitLast_not_mem c b h]
  | cons x r ih => simp [splitLast, ih]

/-- A suffix as the tables register it: a period followed by characters that are neither `.` nor `/`. -/
def goodSuffix : Str → Bool
  | '.' :: ext => ext.all fun c => c != '.' && c != '/'
  | _ => false

/-- The part of a file name before the suffix: no `/`, and not made of periods only. -/
def goodStem (stem : Str) : Bool := stem.all (· != '/') && stem.any (· != '.')

/-- A directory prefix: empty, or ending in `/`. -/
def goodDir (dir : Str) : Bool := dir.isEmpty || dir.getLast? == some '/'

theorem goodSuffix_iff (sfx : Str) :
    goodSuffix sfx = true ↔ ∃ ext, sfx = '.' :: ext ∧ '.' ∉ ext ∧ '/' ∉ ext := by
  constructor
  · intro h
    match sfx, h with
    | c :: ext, h =>
      have hc : c = '.' := by
        by_cases hc : c = '.'
        · exact hc
        · unfold goodSuffix at h; split at h
          · rename_i heq; cases heq; exact absurd rfl hc
          · cases h
      subst hc
      refine ⟨ext, rfl, ?_, ?_⟩
      · intro hm; simp only [goodSuffix, List.all_eq_true] at h; have := h _ hm; simp at this
      · intro hm; simp only [goodSuffix, List.all_eq_true] at h; have := h _ hm; simp at this
  · rintro ⟨ext, rfl, h1, h2⟩
    simp only [goodSuffix, List.all_eq_true]
    intro c hc
    have a : c ≠ '.' := fun e => h1 (e ▸ hc)
    have b : c ≠ '/' := fun e => h2 (e ▸ hc)
    simp [a, b]

/-- `os.path.splitext` finds a registered suffix at the end of any file name `dir/stem.sfx`. -/
theorem splitext_suffix (dir stem sfx : Str) (hd : goodDir dir = true) (hs : goodStem stem = true)
    (hx : goodSuffix sfx = true) : splitext (dir ++ stem ++ sfx) = (dir ++ stem, sfx) := by
  obtain ⟨ext, rfl, hdot, hsl⟩ := (goodSuffix_iff sfx).1 hx
  simp only [goodStem, Bool.and_eq_true, List.all_eq_true, List.any_eq_true] at hs
  obtain ⟨hs1, c0, hc0, hc0'⟩ := hs
  have hnoslash : '/' ∉ stem ++ '.' :: ext := by
    intro hm
    rcases List.mem_append.1 hm with hm | hm
    · have := hs1 _ hm; simp at this
    · rcases List.mem_cons.1 hm with hm | hm
      · cases hm
      · exact hsl hm
  have hall : stem.all (· == '.') = false := by
    apply Bool.eq_false_iff.2
    intro hall
    have := List.all_eq_true.1 hall c0 hc0
    simp at this hc0'
    exact hc0' this
  have hdotsplit : splitLast '.' (stem ++ '.' :: ext) = some (stem, ext) := splitLast_append '.' stem ext hdot
  simp only [goodDir, Bool.or_eq_true, List.isEmpty_iff, beq_iff_eq] at hd
  rcases hd with hd | hd
  · subst hd
    simp only [List.nil_append]
    unfold splitext
    rw [splitLast_not_mem '/' _ hnoslash]
    simp only [hdotsplit, hall, Bool.false_eq_true, if_false, List.nil_append]
  · obtain ⟨d, rfl⟩ : ∃ d, dir = d ++ ['/'] := by
      rcases List.eq_nil_or_concat dir with h | ⟨d, x, h⟩
      · subst h; simp at hd
      · subst h; simp at hd; subst hd; exact ⟨d, by simp⟩
    unfold splitext
    have : d ++ ['/'] ++ stem ++ '.' :: ext = d ++ '/' :: (stem ++ '.' :: ext) := by simp
    rw [this, splitLast_append '/' d _ hnoslash]
    simp only [hdotsplit, hall, Bool.false_eq_true, if_false, List.append_assoc, List.cons_append, List.nil_append]

/-! ### dictionaries -/

theorem dget_dset {V : Type} (d : List (Str × V)) (k k' : Str) (v : V) :
    dget (dset d k v) k' = if k = k' then some v else dget d k' := by
  induction d with
  | nil => simp [dset, dget]
  | cons e r ih =>
    obtain ⟨a, w⟩ := e
    simp only [dset]
    by_cases h : a = k
    · subst h
      simp only [if_true, dget]
      by_cases h2 : a = k' <;> simp [h2]
    · simp only [h, if_false, dget, ih]
      by_cases h2 : a = k'
      · subst h2
        have : ¬ k = a := fun e => h e.symm
        simp [this]
      · simp [h2]

theorem runtimeGet_runtimeSet (R : Registry) (g n : Str) (k : Cls) (g' n' : Str) :
    runtimeGet (runtimeSet R g n k) g' n' = if g' = g ∧ n' = n then some k else runtimeGet R g' n' := by
  unfold runtimeSet runtimeGet
  cases hg : dget R g with
  | none =>
    simp only [dget_dset]
    by_cases h : g = g'
    · subst h
      simp only [if_true, hg, true_and, dget]
      by_cases h2 : n = n'
      · subst h2; simp
      · have : ¬ n' = n := fun e => h2 e.symm
        simp [h2, this]
    · have : ¬ g' = g := fun e => h e.symm
      simp [h, this]
  | some d =>
    simp only [dget_dset]
    by_cases h : g = g'
    · subst h
      simp only [if_true, hg, true_and]
      by_cases h2 : n = n'
      · subst h2; simp [dget_dset]
      · have : ¬ n' = n := fun e => h2 e.symm
        simp [h2, this, dget_dset]
    · have : ¬ g' = g := fun e => h e.symm
      simp [h, this]

@[simp] theorem runtimeGet_nil (g n : Str) : runtimeGet [] g n = none := rfl

/-! ### the effective table -/

/-- What the two tables of the implementation amount to: run-time entries first, then installed ones. -/
def eff (tbl : Installed) (R : Registry) : Spec.Plugins.Table := fun g n =>
  match runtimeGet R g n with
  | some k => some k
  | none => installedLookup tbl g n

theorem eff_nil (tbl : Installed) : eff tbl [] = installedLookup tbl := by
  funext g n; simp [eff]

def optToExcept (e : PlugErr) : Option Cls → Except PlugErr Cls
  | some k => .ok k
  | none => .error e

theorem loadEntryPoint_exact (tbl : Installed) (R : Registry) (g n : Str) :
    loadEntryPoint tbl R g n false = optToExcept (.notFound g n) (Spec.Plugins.load (eff tbl R) g n) := by
  simp only [loadEntryPoint, Bool.false_eq_true, if_false, searchGroups, Spec.Plugins.load, eff]
  cases runtimeGet R g n with
  | some k => rfl
  | none => cases installedLookup tbl g n <;> rfl

theorem loadEntryPoint_aliases (tbl : Installed) (R : Registry) (g n : Str) :
    loadEntryPoint tbl R g n true = optToExcept (.notFound g n) (Spec.Plugins.findName (eff tbl R) g n) := by
  simp only [loadEntryPoint, if_true, searchGroups, Spec.Plugins.findName, eff]
  cases runtimeGet R g n with
  | some k => rfl
  | none =>
    cases installedLookup tbl g n with
    | some k => rfl
    | none =>
      cases runtimeGet R (g ++ ".aliases".toList) n with
      | some k => rfl
      | none => cases installedLookup tbl (g ++ ".aliases".toList) n <;> rfl

/-- `register_plugin` is the one-table `register` on the effective table (argument checks aside). -/
theorem registerPlugin_refines (tbl : Installed) (defaults : List (Str × Str)) (R : Registry)
    (g n : Str) (k : Cls) (force : Bool) (base : Str)
    (hb : baseGroup g n = .ok base) (hd : dhas defaults base = true) :
    ∃ R', registerPlugin tbl defaults R g n k force = .ok (R', (Spec.Plugins.register (eff tbl R) g n k force).2) ∧
      eff tbl R' = (Spec.Plugins.register (eff tbl R) g n k force).1 := by
  have hsome : (eff tbl R g n).isSome = ((runtimeGet R g n).isSome || (installedLookup tbl g n).isSome) := by
    simp only [eff]
    cases runtimeGet R g n <;> simp
  simp only [registerPlugin, hb, hd, Bool.not_true, Bool.false_eq_true, if_false, Spec.Plugins.register, hsome]
  by_cases hc : (!force && ((runtimeGet R g n).isSome || (installedLookup tbl g n).isSome)) = true
  · have hc' : (((runtimeGet R g n).isSome || (installedLookup tbl g n).isSome) && !force) = true := by
      rw [Bool.and_comm]; exact hc
    simp only [hc, hc', if_true]
    exact ⟨R, rfl, rfl⟩
  · have hc' : ¬ (((runtimeGet R g n).isSome || (installedLookup tbl g n).isSome) && !force) = true := by
      rw [Bool.and_comm]; exact hc
    simp only [hc, hc']
    refine ⟨_, rfl, ?_⟩
    funext g' n'
    simp only [eff, runtimeGet_runtimeSet]
    by_cases h : g' = g ∧ n' = n <;> simp [h]

/-- A failed argument check leaves the registry alone (there is no new registry). -/
theorem registerPlugin_error (tbl : Installed) (defaults : List (Str × Str)) (R : Registry)
    (g n : Str) (k : Cls) (force : Bool) (e : PlugErr)
    (h : registerPlugin tbl defaults R g n k force = .error e) :
    baseGroup g n = .error e ∨ ∃ base, baseGroup g n = .ok base ∧ dhas defaults base = false ∧ e = .groupNotFound base := by
  unfold registerPlugin at h
  cases hb : baseGroup g n with
  | error e' => simp only [hb] at h; left; cases h; rfl
  | ok base =>
    simp only [hb] at h
    right
    refine ⟨base, rfl, ?_⟩
    cases hd : dhas defaults base with
    | false => simp [hd] at h; exact ⟨rfl, h.symm⟩
    | true => simp only [hd, Bool.not_true, Bool.false_eq_true, if_false] at h; split at h <;> cases h

/-! ### the reference run -/

/-- `find_plugin` over the one table. -/
def specFind (defaults : List (Str × Str)) (T : Spec.Plugins.Table)
    (group : Str) (name : NameArg) (filename : Option Str) : Except PlugErr Cls :=
  match name with
  | .cls k => .ok k
  | _ =>
    match dget defaults group with
    | none => .error (.groupNotFound group)
    | some dflt =>
      match name with
      | .str (c :: n) => optToExcept (.notFound group (c :: n)) (Spec.Plugins.findName T group (c :: n))
      | _ =>
        match filename with
        | some (c :: f) =>
          optToExcept (.notFound (group ++ ".suffixes".toList) (splitext (c :: f)).2)
            (Spec.Plugins.findSuffix T group (splitext (c :: f)).2)
        | _ => optToExcept (.notFound group dflt) (Spec.Plugins.load T group dflt)

/-- One call, over the one table: the argument checks of the API, then `Spec.Plugins`. -/
def specStep (defaults : List (Str × Str)) (T : Spec.Plugins.Table) : PlugOp → Spec.Plugins.Table × PlugRes
  | .register g n k f =>
    match baseGroup g n with
    | .error e => (T, .err e)
    | .ok base =>
      if dhas defaults base then
        let r := Spec.Plugins.register T g n k f
        (r.1, .bool r.2)
      else (T, .err (.groupNotFound base))
  | .find g n f =>
    match specFind defaults T g n f with
    | .ok k => (T, .cls k)
    | .error e => (T, .err e)

def specRun (defaults : List (Str × Str)) : Spec.Plugins.Table → List PlugOp → Spec.Plugins.Table × List PlugRes
  | T, [] => (T, [])
  | T, op :: ops =>
    let r := specStep defaults T op
    let rest := specRun defaults r.1 ops
    (rest.1, r.2 :: rest.2)

theorem findPlugin_refines (tbl : Installed) (defaults : List (Str × Str)) (R : Registry)
    (g : Str) (n : NameArg) (f : Option Str) :
    findPlugin tbl defaults R g n f = specFind defaults (eff tbl R) g n f := by
  unfold findPlugin specFind
  cases n with
  | cls k => rfl
  | none =>
    simp only
    cases dget defaults g with
    | none => rfl
    | some dflt =>
      simp only
      cases f with
      | none => simp only [loadEntryPoint_exact]
      | some p =>
        cases p with
        | nil => simp only [loadEntryPoint_exact]
        | cons c p => simp only [loadEntryPoint_exact, Spec.Plugins.load, Spec.Plugins.findSuffix]
  | str s =>
    simp only
    cases dget defaults g with
    | none => rfl
    | some dflt =>
      simp only
      cases s with
      | cons c s => simp only [loadEntryPoint_aliases]
      | nil =>
        simp only
        cases f with
        | none => simp only [loadEntryPoint_exact]
        | some p =>
          cases p with
          | nil => simp only [loadEntryPoint_exact]
          | cons c p => simp only [loadEntryPoint_exact, Spec.Plugins.load, Spec.Plugins.findSuffix]

theorem plugStep_refines (tbl : Installed) (defaults : List (Str × Str)) (R : Registry) (op : PlugOp) :
    eff tbl (plugStep tbl defaults R op).1 = (specStep defaults (eff tbl R) op).1 ∧
    (plugStep tbl defaults R op).2 = (specStep defaults (eff tbl R) op).2 := by
  cases op with
  | find g n f =>
    simp only [plugStep, specStep, findPlugin_refines]
    cases specFind defaults (eff tbl R) g n f <;> exact ⟨rfl, rfl⟩
  | register g n k f =>
    simp only [plugStep, specStep]
    cases hb : baseGroup g n with
    | error e =>
      have : registerPlugin tbl defaults R g n k f = .error e := by simp [registerPlugin, hb]
      simp only [this]; exact ⟨trivial, trivial⟩
    | ok base =>
      cases hd : dhas defaults base with
      | false =>
        have : registerPlugin tbl defaults R g n k f = .error (.groupNotFound base) := by
          simp [registerPlugin, hb, hd]
        simp only [this, hd, Bool.false_eq_true, if_false]; exact ⟨trivial, trivial⟩
      | true =>
        obtain ⟨R', h1, h2⟩ := registerPlugin_refines tbl defaults R g n k f base hb hd
        simp only [h1, hd, if_true]
        exact ⟨h2, trivial⟩

theorem plugRun_refines (tbl : Installed) (defaults : List (Str × Str)) (R : Registry) (ops : List PlugOp) :
    eff tbl (plugRun tbl defaults R ops).1 = (specRun defaults (eff tbl R) ops).1 ∧
    (plugRun tbl defaults R ops).2 = (specRun defaults (eff tbl R) ops).2 := by
  induction ops generalizing R with
  | nil => exact ⟨rfl, rfl⟩
  | cons op ops ih =>
    simp only [plugRun, specRun]
    have hs := plugStep_refines tbl defaults R op
    have := ih (plugStep tbl defaults R op).1
    rw [hs.1] at this
    exact ⟨this.1, by rw [hs.2, this.2]⟩

/-! ### unforced histories never shadow an installed entry -/

/-- every registration in the history is unforced -/
def unforced : List PlugOp → Bool
  | [] => true
  | .register _ _ _ f :: r => !f && unforced r
  | .find _ _ _ :: r => unforced r

/-- no run-time entry sits on an installed key -/
def NoShadow (tbl : Installed) (R : Registry) : Prop :=
  ∀ g n, (runtimeGet R g n).isSome → installedLookup tbl g n = none

theorem noShadow_step (tbl : Installed) (defaults : List (Str × Str)) (R : Registry) (op : PlugOp)
    (h : NoShadow tbl R) (hu : unforced [op] = true) : NoShadow tbl (plugStep tbl defaults R op).1 := by
  cases op with
  | find g n f => simp only [plugStep]; split <;> exact h
  | register g n k f =>
    have hf : f = false := by simpa [unforced] using hu
    subst hf
    simp only [plugStep]
    cases hr : registerPlugin tbl defaults R g n k false with
    | error e => exact h
    | ok p =>
      obtain ⟨R', b⟩ := p
      simp only
      unfold registerPlugin at hr
      cases hb : baseGroup g n with
      | error e => simp [hb] at hr
      | ok base =>
        simp only [hb] at hr
        cases hd : dhas defaults base with
        | false => simp [hd] at hr
        | true =>
          simp only [hd, Bool.not_true, Bool.false_eq_true, if_false, Bool.not_false, Bool.true_and] at hr
          split at hr
          · cases hr; exact h
          · rename_i hc
            cases hr
            intro g' n' hs
            rw [runtimeGet_runtimeSet] at hs
            by_cases hk : g' = g ∧ n' = n
            · obtain ⟨rfl, rfl⟩ := hk
              simp only [Bool.or_eq_true, not_or, Bool.not_eq_true, Option.isSome_eq_false_iff, Option.isNone_iff_eq_none] at hc
              exact hc.2
            · simp only [hk, if_false] at hs
              exact h g' n' hs

theorem noShadow_run (tbl : Installed) (defaults : List (Str × Str)) (R : Registry) (ops : List PlugOp)
    (h : NoShadow tbl R) (hu : unforced ops = true) : NoShadow tbl (plugRun tbl defaults R ops).1 := by
  induction ops generalizing R with
  | nil => exact h
  | cons op ops ih =>
    simp only [plugRun]
    have h1 : unforced [op] = true ∧ unforced ops = true := by
      cases op <;> simp_all [unforced]
    exact ih _ (noShadow_step tbl defaults R op h h1.1) h1.2

theorem noShadow_nil (tbl : Installed) : NoShadow tbl [] := by
  intro g n h; simp at h

/-! ### Boolean views used by the table checks -/

def isOk (r : Except PlugErr Cls) (k : Cls) : Bool :=
  match r with
  | .ok k' => k' == k
  | .error _ => false

theorem isOk_iff (r : Except PlugErr Cls) (k : Cls) : isOk r k = true ↔ r = .ok k := by
  cases r with
  | ok k' => simp [isOk]
  | error e => simp [isOk]

/-! ### `find_plugin` by file name -/

theorem dhas_of_mem {V : Type} (d : List (Str × V)) (k : Str) (v : V) (h : (k, v) ∈ d) : dhas d k = true := by
  induction d with
  | nil => cases h
  | cons e r ih =>
    obtain ⟨a, w⟩ := e
    simp only [dhas, dget]
    by_cases ha : a = k
    · simp [ha]
    · simp only [ha, if_false]
      rcases List.mem_cons.1 h with h | h
      · cases h; exact absurd rfl ha
      · exact ih h

theorem goodStem_ne_nil (stem : Str) (h : goodStem stem = true) : stem ≠ [] := by
  intro e; subst e; simp [goodStem] at h

/-- Looking a class up by a file name `dir/stem.sfx` is looking the suffix up in the `.suffixes` group. -/
theorem findPlugin_by_suffix (tbl : Installed) (defaults : List (Str × Str)) (R : Registry)
    (base sfx dir stem : Str) (hd : dhas defaults base = true)
    (hdir : goodDir dir = true) (hstem : goodStem stem = true) (hsfx : goodSuffix sfx = true) :
    findPlugin tbl defaults R base .none (some (dir ++ stem ++ sfx)) =
      loadEntryPoint tbl R (base ++ ".suffixes".toList) sfx false := by
  have hne : dir ++ stem ++ sfx ≠ [] := by
    intro e
    have := goodStem_ne_nil stem hstem
    simp only [List.append_eq_nil_iff] at e
    exact this e.1.2
  have hsplit := splitext_suffix dir stem sfx hdir hstem hsfx
  unfold findPlugin
  simp only [dhas] at hd
  cases hg : dget defaults base with
  | none => simp [hg] at hd
  | some dflt =>
    simp only
    generalize hf : dir ++ stem ++ sfx = f at hne hsplit
    cases f with
    | nil => exact absurd rfl hne
    | cons c f => simp only [hsplit]

/-! ### Boolean checks over the regenerated tables (closed by `decide` in Props/C17.lean) -/

/-- One entry `(base ++ ".suffixes", sfx, k)` of a suffix table. -/
def suffixEntryOK (tbl : Installed) (defaults : List (Str × Str)) (base sfx k : Str) : Bool :=
  goodSuffix sfx &&
  isOk (loadEntryPoint tbl [] (base ++ ".suffixes".toList) sfx false) k &&
  tbl.any fun e => isOk (findPlugin tbl defaults [] base (.str e.2.1) none) k

def suffixTableOK (tbl : Installed) (defaults : List (Str × Str)) : Bool :=
  defaults.all fun d => tbl.all fun e =>
    if e.1 = d.1 ++ ".suffixes".toList then suffixEntryOK tbl defaults d.1 e.2.1 e.2.2 else true

/-- A class registered under a name of a base group is what its own `default_suffix` selects. -/
def defaultSuffixOK (tbl : Installed) (defaults : List (Str × Str)) (cs : List (Str × Option Str)) : Bool :=
  defaults.all fun d => tbl.all fun e =>
    if e.1 = d.1 then
      match dget cs e.2.2 with
      | some (some s) => goodSuffix s && isOk (loadEntryPoint tbl [] (d.1 ++ ".suffixes".toList) s false) e.2.2
      | _ => true
    else true

/-- no two entries with the same (group, name) -/
def keysNodup : Installed → Bool
  | [] => true
  | e :: r => (r.all fun e' => !(e'.1 == e.1 && e'.2.1 == e.2.1)) && keysNodup r

/-- every group of the table is a known base group, or its `.aliases` / `.suffixes` companion -/
def groupsKnown (tbl : Installed) (defaults : List (Str × Str)) : Bool :=
  tbl.all fun e => defaults.any fun d =>
    e.1 == d.1 || e.1 == d.1 ++ ".aliases".toList || e.1 == d.1 ++ ".suffixes".toList

/-- the default plug-in of every group exists -/
def defaultsExist (tbl : Installed) (defaults : List (Str × Str)) : Bool :=
  defaults.all fun d => (installedLookup tbl d.1 d.2).isSome

def readerKindsKnown (cs : List (Str × Bool × List Str)) : Bool :=
  cs.all fun c => (readerKindOf c.2.1 c.2.2).isSome
def writerKindsKnown (cs : List (Str × Bool × List Str)) : Bool :=
  cs.all fun c => (writerKindOf c.2.1 c.2.2).isSome

/-- The stream a reader class asks for (`unicode_io`), holding the document `s`. -/
def docStream (k : ReaderKind) (c : Codec) (s : Str) : Stream :=
  if k.unicodeIO then .text s else .binary (c.enc s)

/-! ### `enumerate_plugin_names` -/

theorem mem_dkeys_iff {V : Type} (d : List (Str × V)) (n : Str) : n ∈ dkeys d ↔ (dget d n).isSome = true := by
  induction d with
  | nil => simp [dkeys, dget]
  | cons e r ih =>
    obtain ⟨a, w⟩ := e
    simp only [dkeys, List.map_cons, List.mem_cons, dget] at ih ⊢
    by_cases h : a = n
    · simp [h]
    · have h' : ¬ n = a := fun e => h e.symm
      simp [h, h', ih]

theorem mem_installedNames_iff (tbl : Installed) (g n : Str) :
    n ∈ installedNames tbl g ↔ (installedLookup tbl g n).isSome = true := by
  induction tbl with
  | nil => simp [installedNames, installedLookup]
  | cons e r ih =>
    obtain ⟨g', n', k⟩ := e
    simp only [installedNames, List.filter_cons, installedLookup] at ih ⊢
    by_cases hg : g' = g
    · subst hg
      by_cases hn : n' = n
      · simp [hn]
      · have hn' : ¬ n = n' := fun e => hn e.symm
        simp [hn, hn', ih]
    · have : (g' == g) = false := by simpa using hg
      simp [this, hg, ih]

/-- the names `enumerate_plugin_names` yields are exactly the keys of the group itself in the effective table -/
theorem mem_enumerate_iff (tbl : Installed) (R : Registry) (g n : Str) :
    n ∈ enumeratePluginNames tbl R g ↔ (eff tbl R g n).isSome = true := by
  simp only [enumeratePluginNames, List.mem_append, mem_installedNames_iff, eff, runtimeGet]
  cases hg : dget R g with
  | none => simp
  | some d =>
    simp only [mem_dkeys_iff]
    cases dget d n <;> simp

theorem dget_runtimeSet_ne (R : Registry) (g n : Str) (k : Cls) (g' : Str) (h : g' ≠ g) :
    dget (runtimeSet R g n k) g' = dget R g' := by
  unfold runtimeSet
  have h' : ¬ g = g' := fun e => h e.symm
  cases dget R g <;> simp [dget_dset, h']

/-! ### `parse_files` -/

/-- `parse_files` over a concatenation is `parse_files` of the first part, then — on the database that
gave, and only if it did not fail — `parse_files` of the second part. -/
theorem parseFiles_append {Db E H : Type} (k : ReaderKind) (core : ReaderCore Db E) (c : Codec) (encName : Str)
    (env : Env H) (content : H → Bytes) (sfx : Option Str) (data : Db) (fs1 fs2 : List Path) :
    parseFiles k core c encName env content sfx data (fs1 ++ fs2) =
      match (parseFiles k core c encName env content sfx data fs1).2 with
      | .error e => ((parseFiles k core c encName env content sfx data fs1).1, .error e)
      | .ok d' =>
        ((parseFiles k core c encName env content sfx data fs1).1 ++
            (parseFiles k core c encName env content sfx d' fs2).1,
          (parseFiles k core c encName env content sfx d' fs2).2) := by
  induction fs1 generalizing data with
  | nil => simp [parseFiles]
  | cons f fs ih =>
    simp only [List.cons_append, parseFiles]
    cases h : (parseFile k core c encName env content data (.path f) sfx).2 with
    | error e => simp
    | ok d1 =>
      simp only [ih d1]
      cases (parseFiles k core c encName env content sfx d1 fs).2 with
      | error e => simp
      | ok d2 => simp [List.append_assoc]

/-! ### universal newlines -/

/-- a text without carriage return is not changed by newline translation -/
theorem univNl_of_noCR (s : Str) (h : '\r' ∉ s) : univNl s = s := by
  induction s with
  | nil => rfl
  | cons x r ih =>
    have hx : x ≠ '\r' := fun e => h (by simp [e])
    have hr : '\r' ∉ r := fun m => h (List.mem_cons_of_mem _ m)
    unfold univNl
    split
    · rename_i heq; cases heq
    · rename_i heq; cases heq; exact absurd rfl hx
    · rename_i heq; cases heq; exact absurd rfl hx
    · rename_i heq; cases heq; rw [ih hr]

/-- translated text has no carriage return left -/
theorem noCR_univNl (s : Str) : '\r' ∉ univNl s := by
  induction s using univNl.induct with
  | case1 => simp [univNl]
  | case2 r ih => simp only [univNl, List.mem_cons, not_or]; exact ⟨by decide, ih⟩
  | case3 r hne ih =>
    rw [univNl]
    · simp only [List.mem_cons, not_or]; exact ⟨by decide, ih⟩
    · intro r' h; exact hne r' h
  | case4 c r h1 h2 ih =>
    rw [univNl]
    · simp only [List.mem_cons, not_or]
      exact ⟨fun e => h2 e.symm, ih⟩
    · intro r' h _; exact h2 h
    · intro h; exact h2 h

/-! ### `bytes.rstrip()` -/

/-- `rstripBytes b` is `b` without its trailing run of ASCII white space: `b` is the result followed by
white space only, and the result does not end in white space.  (These two facts determine it.) -/
theorem rstripBytes_spec (b : Bytes) :
    (∃ ws, b = rstripBytes b ++ ws ∧ ws.all isAsciiWsByte = true) ∧
    (∀ x, (rstripBytes b).getLast? = some x → isAsciiWsByte x = false) := by
  constructor
  · refine ⟨(b.reverse.takeWhile isAsciiWsByte).reverse, ?_, ?_⟩
    · have h := List.takeWhile_append_dropWhile (p := isAsciiWsByte) (l := b.reverse)
      have h2 := congrArg List.reverse h
      simp only [List.reverse_append, List.reverse_reverse] at h2
      exact h2.symm
    · rw [List.all_reverse]
      exact List.all_takeWhile
  · intro x hx
    simp only [rstripBytes, List.getLast?_reverse] at hx
    cases hd : b.reverse.dropWhile isAsciiWsByte with
    | nil => simp [hd] at hx
    | cons y r =>
      simp only [hd, List.head?_cons, Option.some.injEq] at hx
      subst hx
      have := List.head?_dropWhile_not isAsciiWsByte b.reverse
      simpa [hd] using this

/-! ### a toy world for the non-vacuity examples -/
namespace Toy

/-- one byte per character (code points below 256), `?` otherwise -/
def enc (s : Str) : Bytes := s.map fun ch => if ch.toNat < 256 then UInt8.ofNat ch.toNat else 63
def dec (b : Bytes) : Except Str Str := .ok (b.map fun x => Char.ofNat x.toNat)
def codec : Codec := ⟨enc, dec⟩

/-- a codec that starts every encoding with a byte-order mark, as UTF-16 does: `enc "" = [255, 254]` -/
def bomCodec : Codec :=
  ⟨fun s => 255 :: 254 :: enc s, fun b => match b with | 255 :: 254 :: r => dec r | _ => .error "no BOM".toList⟩

/-- a reader core that records what it was handed; as a text core (`.bibtex` wiring) it skips a first
line that is an XML declaration, as ElementTree does for a `str`, and outer white space -/
def reader : ReaderCore (List Stream) Unit where
  parseStream := fun d st => .ok (d ++ [st])
  parseText := fun d s =>
    .ok (d ++ [.text (strip (if s.take 5 = "<?xml".toList then (s.dropWhile (· != '\n')).drop 1 else s))])

/-- a writer core whose document is the database itself; like the BibTeX writer it does not call `write`
at all when there is nothing to write -/
def writer : WriterCore Str Unit where
  writeText := fun d => .ok (if d.isEmpty then [] else [d])
  writeBytes := fun d => .ok (enc d)
  xmlBody := fun d => .ok (d ++ ['\n'])

/-- a world with one readable file `f.bib`, a `kpsewhich` that knows `g.bib` (prints `/texmf/g.bib` and a
newline), fails for `h.bib` (return code 1) and cannot be started for `k.bib`; nothing can be created
except below `/out` -/
def env : Env PathArg where
  opener := fun p mode _ =>
    if mode.contains 'w' then
      match p with
      | .str q => if q.take 5 = "/out/".toList then .ok p else .error ⟨"Permission denied".toList⟩
      | .bytes _ => .error ⟨"Permission denied".toList⟩
    else if p = .str "f.bib".toList ∨ p = .bytes (enc "/texmf/g.bib".toList) then .ok p
    else .error ⟨"No such file or directory".toList⟩
  isFile := fun p => p = "f.bib".toList
  runKpsewhich := fun p =>
    if p = "g.bib".toList then .ok (0, enc "/texmf/g.bib\n".toList)
    else if p = "k.bib".toList then .error ⟨"No such file or directory".toList⟩
    else .ok (1, [])
  environ := [("TEXMFOUTPUT".toList, "/out".toList)]

/-- the same world with a fall-back directory in which nothing can be created either -/
def envRO : Env PathArg := { env with environ := [("TEXMFOUTPUT".toList, "/ro".toList)] }

end Toy

end Pybtex.IO
