/-
More helper lemmas for C11 (`Props/C11.lean`):
* a rendered part in front of ANY format string (compositionality);
* hyphen-aware abbreviation on a token written as hyphen-joined pieces
  (on the flat scan of `split_tex_string`, `Lemmas/BibWriteSplit.lean`);
* the `format.name$` built-in on a name list written with ` and `
  (`splitNameList_join`, `Lemmas/BibWritePieces.lean`).
-/
import PybtexModel.Lemmas.NameFormat
import PybtexModel.Lemmas.BibWritePieces
import PybtexModel.Lemmas.UniCase

namespace Pybtex
open Spec Spec.NameFormat NFChars Names

namespace NameFormat

/-! ### a part in front of any format string -/

/-- parsing a rendered part followed by anything: the part, then the rest -/
theorem parseFormat_render_append (p : Part) (hp : p.wf = true) (rest : Str) :
    ∃ pre fc delim post, PartOk (.part pre fc delim post) ∧ toSpecPart pre fc delim post = some p ∧
      parseFormat (p.render ++ rest) =
        match parseFormat rest with
        | .error e => .error e
        | .ok ps => .ok (.part pre fc delim post :: ps) := by
  have hr : p.render ++ rest = '{' :: ((p.render.drop 1) ++ rest) := by
    simp [Part.render]
  have hpp := parsePart_render p rest hp
  rw [parsePart_eq] at hpp
  rw [hr, parseFormat_open]
  cases hc : closed1 (p.render.drop 1 ++ rest) [] none [] with
  | error e => rw [hc] at hpp; cases hpp
  | ok pr =>
    obtain ⟨fp, rest'⟩ := pr
    obtain ⟨hok, _, a, b, c, d, rfl⟩ := closed1_ok hc
    rw [hc] at hpp
    simp only [toSpecRes, Option.map_eq_some_iff] at hpp
    obtain ⟨p', hp', he⟩ := hpp
    cases he
    exact ⟨a, b, c, d, hok, hp', rfl⟩

theorem formatParts_error_tooDeep {person : Person} {ps : List FmtPart} {e : FmtErr}
    (hok : ∀ p ∈ ps, PartOk p) (h : formatParts person ps = .error e) : e = .tooDeep := by
  obtain ⟨pieces, hpieces⟩ := toSpecPieces_partOk hok
  rw [formatParts_eq person hok hpieces] at h
  cases hf : formatPieces person pieces with
  | none => rw [hf] at h; cases h; rfl
  | some s => rw [hf] at h; cases h

/-- compositionality: a well-formed part in front of any format string -/
theorem formatName_render_append (name : Str) (p : Part) (hp : p.wf = true) (rest : Str) :
    formatName name (p.render ++ rest) =
      match formatName name rest with
      | .error e => .error e
      | .ok (s, rep) =>
        match mkPerson name [] [] [] [] [] with
        | .error _ => .error .tooDeep
        | .ok (person, _) =>
          match Spec.NameFormat.formatPart person p with
          | some t => .ok (t ++ s, rep)
          | none => .error .tooDeep := by
  obtain ⟨pre, fc, delim, post, hok, hsp, hparse⟩ := parseFormat_render_append p hp rest
  rw [formatName_eq_finish, formatName_eq_finish, hparse]
  cases hpr : parseFormat rest with
  | error e => rfl
  | ok ps =>
    have hoks := parseFormat_partOk hpr
    unfold finishName
    simp only
    cases hm : mkPerson name [] [] [] [] [] with
    | error e => have := (mkPerson_error hm).1; subst this; rfl
    | ok pr =>
      obtain ⟨person, rep⟩ := pr
      simp only
      rw [formatParts, formatPart_eq person hok hsp]
      cases hfp : Spec.NameFormat.formatPart person p with
      | none =>
        simp only [ofOpt]
        cases hfr : formatParts person ps with
        | error e => have := formatParts_error_tooDeep hoks hfr; subst this; rfl
        | ok s => rfl
      | some t =>
        simp only [ofOpt]
        cases hfr : formatParts person ps with
        | error e => rfl
        | ok s => rfl

/-! ### hyphen-aware abbreviation on hyphen-joined plain pieces -/

/-- a piece of a token: no hyphen and no brace -/
def PlainPiece (x : Str) : Prop := ∀ c ∈ x, c ≠ '-' ∧ c ≠ '{' ∧ c ≠ '}'

theorem sepMatch_hyphen (prev : Option Char) (s : Str) :
    sepMatch .hyphen prev s = if s.head? = some '-' then 1 else 0 := rfl

/-- the flat scan copies a plain piece -/
theorem flat_plain (x : Str) (hx : PlainPiece x) : ∀ (prev : Option Char) (cur rest : Str),
    ∃ prev', C02.flat .hyphen 0 prev cur (x ++ rest) = C02.flat .hyphen 0 prev' (cur ++ x) rest := by
  induction x with
  | nil => intro prev cur rest; exact ⟨prev, by simp⟩
  | cons c x ih =>
    intro prev cur rest
    have hc := hx c (by simp)
    obtain ⟨prev', h⟩ := ih (fun y hy => hx y (by simp [hy])) (some c) (cur ++ [c]) rest
    refine ⟨prev', ?_⟩
    rw [List.cons_append, C02.flat_char .hyphen prev cur _ hc.2.1 hc.2.2
      (by rw [sepMatch_hyphen]; simp [hc.1]), h]
    simp

theorem flat_hyphen_pieces : ∀ (ps : List Str) (p : Str) (prev : Option Char) (cur : Str),
    (∀ q ∈ p :: ps, PlainPiece q) →
    C02.flat .hyphen 0 prev cur (joinWith ['-'] (p :: ps)) = (cur ++ p) :: ps := by
  intro ps
  induction ps with
  | nil =>
    intro p prev cur h
    obtain ⟨prev', hf⟩ := flat_plain p (h p (by simp)) prev cur []
    simp only [joinWith]
    rw [← List.append_nil p, hf, C02.flat_nil]
    simp
  | cons q ps ih =>
    intro p prev cur h
    obtain ⟨prev', hf⟩ := flat_plain p (h p (by simp)) prev cur ('-' :: joinWith ['-'] (q :: ps))
    have hj : joinWith ['-'] (p :: q :: ps) = p ++ '-' :: joinWith ['-'] (q :: ps) := by
      simp [joinWith]
    have hm : sepMatch .hyphen prev' ('-' :: joinWith ['-'] (q :: ps)) = 1 := by
      rw [sepMatch_hyphen]; simp
    rw [hj, hf, C02.flat_sep .hyphen prev' _ _ (by decide) (by decide) (by rw [hm]; decide), hm]
    have := ih q (('-' :: joinWith ['-'] (q :: ps))[1 - 1]?) [] (fun y hy => h y (by simp at hy ⊢; exact Or.inr hy))
    simp only [List.drop_succ_cons, List.drop_zero]
    rw [this]
    simp

theorem depthAfter_plain {x : Str} (hx : PlainPiece x) : depthAfter 0 x = some 0 := by
  induction x with
  | nil => rfl
  | cons c x ih =>
    have hc := hx c (by simp)
    simp only [depthAfter, hc.2.1, hc.2.2, if_false]
    exact ih (fun y hy => hx y (by simp [hy]))

theorem splitTex_hyphen_raw (s : Str) : splitTex .hyphen s = (splitTexRaw .hyphen s).map strip := by
  unfold splitTex splitTexRaw
  simp

/-- `split_tex_string(token, sep='-')` on hyphen-joined plain pieces: the pieces, stripped -/
theorem splitTex_hyphen_pieces (p : Str) (ps : List Str) (h : ∀ q ∈ p :: ps, PlainPiece q)
    (hne : joinWith ['-'] (p :: ps) ≠ []) :
    splitTex .hyphen (joinWith ['-'] (p :: ps)) = (p :: ps).map strip := by
  have hbal : depthAfter 0 (joinWith ['-'] (p :: ps)) = some 0 :=
    C02.depthAfter_join (by simp) (p :: ps) (fun t ht => depthAfter_plain (h t ht))
  rw [splitTex_hyphen_raw, C02.splitTexRaw_flat .hyphen _ hbal hne, flat_hyphen_pieces ps p none [] h]
  simp

theorem find?_alpha_ws_prefix (a l : Str) (ha : ∀ c ∈ a, isWs c = true) :
    (a ++ l).find? isAlphaN = l.find? isAlphaN := by
  induction a with
  | nil => rfl
  | cons c a ih =>
    have hc : isAlphaN c = false := (Names.ws_no_class (ha c (by simp))).1
    simp only [List.cons_append, List.find?_cons, hc]
    exact ih (fun y hy => ha y (by simp [hy]))

theorem find?_alpha_ws (b : Str) (hb : ∀ c ∈ b, isWs c = true) : b.find? isAlphaN = none := by
  have := find?_alpha_ws_prefix b [] hb
  simpa using this

theorem find?_alpha_strip (x : Str) : (strip x).find? isAlphaN = x.find? isAlphaN := by
  obtain ⟨a, b, ha, hb, hx⟩ := C02.strip_decomp x
  conv => rhs; rw [hx]
  rw [List.append_assoc, find?_alpha_ws_prefix _ _ ha, List.find?_append, find?_alpha_ws b hb]
  simp

theorem mem_strip {x : Str} {c : Char} (h : c ∈ strip x) : c ∈ x := by
  obtain ⟨a, b, _, _, hx⟩ := C02.strip_decomp x
  rw [hx]; simp [h]

/-- first letter of plain text: its first alphabetic character -/
theorem firstLetter_plain {x : Str} (hx : ∀ c ∈ x, c ≠ '{' ∧ c ≠ '}') :
    firstLetter x = some (initial x) := by
  unfold firstLetter scan
  rw [scanM_plain x 0 hx]
  simp only [Option.map_some, initial]
  congr 1
  induction x with
  | nil => rfl
  | cons c x ih =>
    have ihx := ih (fun y hy => hx y (by simp [hy]))
    have hs : isSpecialTok ([c], 0) = false := by
      simp [isSpecialTok]
    have hl : isLetterTok ([c], 0) = isAlphaN c := by
      simp [isLetterTok]
    simp only [List.map_cons, List.find?_cons, hs, hl, Bool.false_or]
    cases hc : isAlphaN c
    · exact ihx
    · simp [hs]

theorem mapM_some_map {α β} (f : α → Option β) (g : α → β) (l : List α)
    (h : ∀ x ∈ l, f x = some (g x)) : l.mapM f = some (l.map g) := by
  induction l with
  | nil => rfl
  | cons a l ih =>
    rw [List.mapM_cons, h a (by simp), ih (fun x hx => h x (by simp [hx]))]
    rfl

/-- hyphen-aware abbreviation of a token written as hyphen-joined plain pieces -/
theorem abbreviate_pieces (sep : Option Str) (pieces : List Str) (h : ∀ q ∈ pieces, PlainPiece q) :
    abbreviate sep (joinWith ['-'] pieces) =
      some (joinWith (match sep with | some s => s | none => ['.', '-'])
        ((pieces.map initial).filter (· ≠ []))) := by
  have hfl : ∀ q ∈ pieces, firstLetter (strip q) = some (initial q) := by
    intro q hq
    rw [firstLetter_plain (fun c hc => (h q hq c (mem_strip hc)).2)]
    simp only [initial, find?_alpha_strip]
  cases pieces with
  | nil =>
    have : splitTex .hyphen [] = [] := by decide
    simp [abbreviate, joinWith, this]
  | cons p ps =>
    by_cases hne : joinWith ['-'] (p :: ps) = []
    · -- only the single empty piece joins to the empty token
      have hps : ps = [] := by
        cases ps with
        | nil => rfl
        | cons q ps' => simp [joinWith] at hne
      subst hps
      have hp : p = [] := by simpa [joinWith] using hne
      subst hp
      have : splitTex .hyphen [] = [] := by decide
      simp [abbreviate, joinWith, this, initial]
    · unfold abbreviate
      rw [splitTex_hyphen_pieces p ps h hne, List.mapM_map]
      rw [mapM_some_map (firstLetter ∘ strip) initial (p :: ps) (fun q hq => hfl q hq)]
      rfl

/-! ### the `format.name$` built-in on a name list written with ` and ` -/

/-- the n-th name (counted from 0 here) of a list joined with ` and ` -/
theorem formatNth_join (xs : List Str) (hx : ∀ x ∈ xs, C02.NameOk x ∧ strip x = x)
    (hs : joinWith " and ".toList xs ≠ []) (k : Nat) (x : Str) (hk : xs[k]? = some x) (fmt : Str) :
    formatNth (joinWith " and ".toList xs) (k + 1) fmt =
      match formatName x fmt with
      | .error e => .error e
      | .ok (s, rep) => .ok (.formatted s rep) := by
  have hne : xs ≠ [] := by rintro rfl; simp at hk
  have hsplit := C02.splitNameList_join xs hne hx hs
  have hlt : k < xs.length := by
    rcases Nat.lt_or_ge k xs.length with h | h
    · exact h
    · rw [List.getElem?_eq_none h] at hk; cases hk
  unfold formatNth
  simp only [hsplit]
  have hin : (1 : Int) ≤ (k : Int) + 1 ∧ (k : Int) + 1 ≤ (xs.length : Int) := by omega
  rw [if_neg (by simpa using hin)]
  have hidx : ((k : Int) + 1 - 1).toNat = k := by omega
  rw [hidx, hk]
  rfl

theorem formatNth_out_of_range (names : Str) (n : Int) (fmt : Str)
    (h : n < 1 ∨ ((splitNameList names).length : Int) < n) :
    formatNth names n fmt = .ok .noSuchName := by
  unfold formatNth
  simp only
  rw [if_pos (by omega)]

theorem formatNth_not_internal (names : Str) (n : Int) (fmt : Str) :
    formatNth names n fmt ≠ .error .internal := by
  unfold formatNth
  simp only
  split
  · intro h; cases h
  · rename_i hin
    have hin' : 1 ≤ n ∧ n ≤ ((splitNameList names).length : Int) := by
      simpa using hin
    have hlt : (n - 1).toNat < (splitNameList names).length := by omega
    rw [List.getElem?_eq_getElem hlt]
    simp only
    intro h
    have hs := formatName_spec ((splitNameList names)[(n - 1).toNat]) fmt
    cases hf : formatName ((splitNameList names)[(n - 1).toNat]) fmt with
    | error e =>
      rw [hf] at h hs
      simp only at h
      cases h
      exact hs
    | ok pr => rw [hf] at h; cases h

/-! ### `str.lower()` on a letter run: the ASCII lower-casing of the model accepts the same runs -/

/-- code points of `f l v j` -/
def flvjCodes : List Nat := [102, 108, 118, 106]

/-- table-level fact (kernel evaluation over every code point of every run of the regenerated
`str.lower` table): a code point outside ASCII is never mapped to one of `f l v j` -/
def imagesNotFlvj (tbl : List (Nat × Nat × List Run)) : Bool :=
  tbl.all fun g => g.2.2.all fun r => (runPoints r).all fun n =>
    match caseLookupG n tbl with
    | none => true
    | some m => Nat.blt n 128 || !flvjCodes.contains m

theorem lowerRuns_imagesNotFlvj : imagesNotFlvj Gen.lowerRuns = true := by decide +kernel

def isFlvj (c : Char) : Bool := c = 'f' || c = 'l' || c = 'v' || c = 'j'

theorem isFlvj_toNat {c : Char} (h : isFlvj c = true) : c.toNat ∈ flvjCodes := by
  simp only [isFlvj, Bool.or_eq_true, decide_eq_true_eq] at h
  rcases h with ((rfl | rfl) | rfl) | rfl <;> decide

/-- a character whose `str.lower()` image is one of `f l v j` is an ASCII character -/
theorem lowerUC_flvj_ascii {c : Char} (h : isFlvj (lowerUC c) = true) : c.toNat < 128 := by
  unfold lowerUC at h
  cases hl : caseLookupG c.toNat Gen.lowerRuns with
  | none =>
    rw [hl] at h
    have := isFlvj_toNat h
    simp only [flvjCodes, List.mem_cons, List.not_mem_nil, or_false] at this
    omega
  | some m =>
    rw [hl] at h
    obtain ⟨g, hg, r, hr, hn⟩ := caseLookupG_mem hl
    have := lowerRuns_imagesNotFlvj
    simp only [imagesNotFlvj, List.all_eq_true] at this
    have h3 := this g hg r hr c.toNat hn
    rw [hl] at h3
    obtain ⟨_, h2⟩ := caseLookupG_image hl
    have hm : (Char.ofNat m).toNat = m := by
      simp [Char.ofNat, h2, Char.toNat, Char.ofNatAux]
    have hmem := isFlvj_toNat h
    rw [hm] at hmem
    simp only [Bool.or_eq_true, Nat.blt_eq, Bool.not_eq_true', List.contains_eq_mem,
      decide_eq_false_iff_not] at h3
    rcases h3 with h3 | h3
    · exact h3
    · exact absurd hmem h3

theorem lowerC_flvj_ascii {c : Char} (h : isFlvj (lowerC c) = true) : c.toNat < 128 := by
  rcases Nat.lt_or_ge c.toNat 128 with hlt | hge
  · exact hlt
  · rw [lowerC_of_ge128 c (by omega)] at h
    have := isFlvj_toNat h
    simp only [flvjCodes, List.mem_cons, List.not_mem_nil, or_false] at this
    omega

/-- the legal runs, on a text already lower-cased -/
def legalLower (v : Str) : Bool :=
  [['f'], ['f', 'f'], ['l'], ['l', 'l'], ['v'], ['v', 'v'], ['j'], ['j', 'j']].contains v

theorem legalLower_flvj {v : Str} (h : legalLower v = true) : ∀ c ∈ v, isFlvj c = true := by
  simp only [legalLower, List.contains_eq_mem, List.mem_cons, List.not_mem_nil, or_false,
    decide_eq_true_eq] at h
  rcases h with rfl | rfl | rfl | rfl | rfl | rfl | rfl | rfl <;> simp [isFlvj]

theorem lowerU_eq_lower_of_all {run : Str} (h : ∀ c ∈ run, c.toNat < 128) : lowerU run = lower run := by
  induction run with
  | nil => rfl
  | cons c r ih =>
    rw [lowerU_cons, lower_cons, lowerUC_ascii c (h c (by simp)), ih (fun x hx => h x (by simp [hx]))]

/-- `check_format_chars` with `str.lower()` (`lowerU`) and with the ASCII lower-casing of the
model accept exactly the same letter runs -/
theorem legalLower_lowerU (run : Str) : legalLower (lowerU run) = legalLower (lower run) := by
  cases hU : legalLower (lowerU run) with
  | true =>
    have hall : ∀ c ∈ run, c.toNat < 128 := by
      intro c hc
      apply lowerUC_flvj_ascii
      exact legalLower_flvj hU (lowerUC c) (by simp only [lowerU]; exact List.mem_map_of_mem hc)
    rw [← lowerU_eq_lower_of_all hall, hU]
  | false =>
    cases hA : legalLower (lower run) with
    | false => rfl
    | true =>
      have hall : ∀ c ∈ run, c.toNat < 128 := by
        intro c hc
        apply lowerC_flvj_ascii
        exact legalLower_flvj hA (lowerC c) (by simp only [lower]; exact List.mem_map_of_mem hc)
      rw [lowerU_eq_lower_of_all hall, hA] at hU
      cases hU

end NameFormat
end Pybtex
