/-
C20 helper lemmas about reports (audit-d, C20 findings 2 and 3).

Part 1: "a key cited in two different spellings" (the wording of the property) versus
"a spelling different from the MOST RECENT one" (what `auxfile.py` checks and `Spec.mismatches`
says).  A key is cited in two different spellings somewhere in the document iff at least one
case-mismatch report is made for it.

Part 2: every event of a document is a real line of a real file (`events_mem`), and every report is
located at the event that causes it (`reportsAfter_mem`) — at any nesting depth, before or after
nested files.
-/
import PybtexModel.Lemmas.AuxFile

namespace Pybtex.Aux
open Spec

theorem lastSpelling_some {before : List Str} {key m : Str} (h : lastSpelling before key = some m) :
    m ∈ before ∧ lowerPy m = lowerPy key := by
  unfold lastSpelling at h
  refine ⟨by simpa using List.mem_of_find?_eq_some h, ?_⟩
  simpa using List.find?_some h

theorem lastSpelling_none {before : List Str} {key : Str} (h : lastSpelling before key = none) :
    ∀ k ∈ before, lowerPy k ≠ lowerPy key := by
  unfold lastSpelling at h
  intro k hk
  have := List.find?_eq_none.1 h k (by simpa using hk)
  simpa using this

/-- every mismatch pair consists of two DIFFERENT spellings of ONE key, both cited -/
theorem mem_mismatches (ks : List Str) : ∀ (before : List Str) (ab : Str × Str), ab ∈ mismatches before ks →
    ab.1 ∈ ks ∧ ab.2 ∈ before ++ ks ∧ lowerPy ab.2 = lowerPy ab.1 ∧ ab.1 ≠ ab.2 := by
  induction ks with
  | nil => intro before ab h; simp [mismatches] at h
  | cons k ks ih =>
    intro before ab h
    simp only [mismatches, List.mem_append] at h
    rcases h with h | h
    · cases hl : lastSpelling before k with
      | none => simp [hl] at h
      | some m =>
        simp only [hl] at h
        by_cases hne : k ≠ m
        · rw [if_pos hne] at h
          simp only [List.mem_singleton] at h
          subst h
          obtain ⟨h1, h2⟩ := lastSpelling_some hl
          exact ⟨by simp, by simp [h1], h2, hne⟩
        · rw [if_neg hne] at h; cases h
    · obtain ⟨h1, h2, h3, h4⟩ := ih (before ++ [k]) ab h
      refine ⟨by simp [h1], ?_, h3, h4⟩
      simp only [List.append_assoc, List.singleton_append] at h2
      exact h2

/-- two different spellings of the key with lower-case form `f` among `before ++ ks`: a mismatch for
that key is found while `ks` is read, unless both spellings are already in `before` -/
theorem mismatches_of_clash (f : Str) (ks : List Str) : ∀ before : List Str,
    (∃ k k', k ∈ before ++ ks ∧ k' ∈ before ++ ks ∧ lowerPy k = f ∧ lowerPy k' = f ∧ k ≠ k') →
    (∃ ab ∈ mismatches before ks, lowerPy ab.1 = f) ∨
    (∃ k k', k ∈ before ∧ k' ∈ before ∧ lowerPy k = f ∧ lowerPy k' = f ∧ k ≠ k') := by
  induction ks with
  | nil => intro before h; right; simpa using h
  | cons c ks ih =>
    intro before h
    have h' : ∃ k k', k ∈ (before ++ [c]) ++ ks ∧ k' ∈ (before ++ [c]) ++ ks ∧
        lowerPy k = f ∧ lowerPy k' = f ∧ k ≠ k' := by
      simpa only [List.append_assoc, List.singleton_append] using h
    rcases ih (before ++ [c]) h' with ⟨ab, hab, hf⟩ | ⟨k, k', hk, hk', hkf, hk'f, hne⟩
    · left
      exact ⟨ab, by simp only [mismatches, List.mem_append]; exact Or.inr hab, hf⟩
    · -- a clash inside `before ++ [c]`
      have key : ∀ x, x ∈ before → lowerPy x = f → lowerPy c = f → x ≠ c →
          (∃ ab ∈ mismatches before (c :: ks), lowerPy ab.1 = f) ∨
          (∃ k k', k ∈ before ∧ k' ∈ before ∧ lowerPy k = f ∧ lowerPy k' = f ∧ k ≠ k') := by
        intro x hx hxf hcf hxc
        cases hl : lastSpelling before c with
        | none => exact absurd (hxf.trans hcf.symm) (lastSpelling_none hl x hx)
        | some m =>
          obtain ⟨hm, hmf⟩ := lastSpelling_some hl
          by_cases hcm : c ≠ m
          · left
            refine ⟨(c, m), ?_, hcf⟩
            simp only [mismatches, hl, List.mem_append]
            left; simp [hcm]
          · have hcm' : c = m := by simpa using hcm
            right
            exact ⟨x, c, hx, hcm' ▸ hm, hxf, hcf, hxc⟩
      simp only [List.mem_append, List.mem_singleton] at hk hk'
      rcases hk with hk | hk <;> rcases hk' with hk' | hk'
      · right; exact ⟨k, k', hk, hk', hkf, hk'f, hne⟩
      · subst hk'; exact key k hk hkf hk'f hne
      · subst hk; exact key k' hk' hk'f hkf (Ne.symm hne)
      · subst hk; subst hk'; exact absurd rfl hne

/-- the case-mismatch reports of a document are, pair for pair, the mismatches of its flat list of
cited keys -/
theorem caseMismatch_reportsAfter (a b : Str) (evs : List Event) : ∀ before : List Event,
    (∃ r ∈ reportsAfter before evs, r.kind = .caseMismatch a b) ↔
      (a, b) ∈ mismatches (citations before) (citations evs) := by
  induction evs with
  | nil => intro before; simp [reportsAfter, citations, mismatches]
  | cons e evs ih =>
    intro before
    have hsn := citations_snoc before e
    have ih' := ih (before ++ [e])
    simp only [reportsAfter, List.mem_append]
    cases hi : e.item with
    | citation keys =>
      simp only [hi] at hsn
      have hc : citations (e :: evs) = keys ++ citations evs := by simp [citations, hi]
      rw [hc, mismatches_append, List.mem_append, ← hsn, ← ih']
      constructor
      · rintro ⟨r, hr | hr, hk⟩
        · left
          simp only [reportsOf, hi, List.mem_map] at hr
          obtain ⟨kk, hkk, rfl⟩ := hr
          simp only [located, Kind.caseMismatch.injEq] at hk
          obtain ⟨rfl, rfl⟩ := hk
          exact hkk
        · right; exact ⟨r, hr, hk⟩
      · rintro (h | ⟨r, hr, hk⟩)
        · refine ⟨located (.caseMismatch a b) e, Or.inl ?_, rfl⟩
          simp only [reportsOf, hi, List.mem_map]
          exact ⟨(a, b), h, rfl⟩
        · exact ⟨r, Or.inr hr, hk⟩
    | bibstyle s =>
      simp only [hi, List.append_nil] at hsn
      have hc : citations (e :: evs) = citations evs := by simp [citations, hi]
      rw [hc, ← hsn, ← ih']
      constructor
      · rintro ⟨r, hr | hr, hk⟩
        · simp only [reportsOf, hi] at hr
          split at hr
          · simp only [List.mem_singleton] at hr; subst hr; simp [located] at hk
          · cases hr
        · exact ⟨r, hr, hk⟩
      · rintro ⟨r, hr, hk⟩; exact ⟨r, Or.inr hr, hk⟩
    | bibdata s =>
      simp only [hi, List.append_nil] at hsn
      have hc : citations (e :: evs) = citations evs := by simp [citations, hi]
      rw [hc, ← hsn, ← ih']
      constructor
      · rintro ⟨r, hr | hr, hk⟩
        · simp only [reportsOf, hi] at hr
          split at hr
          · simp only [List.mem_singleton] at hr; subst hr; simp [located] at hk
          · cases hr
        · exact ⟨r, hr, hk⟩
      · rintro ⟨r, hr, hk⟩; exact ⟨r, Or.inr hr, hk⟩
    | input q =>
      simp only [hi, List.append_nil] at hsn
      have hc : citations (e :: evs) = citations evs := by simp [citations, hi]
      rw [hc, ← hsn, ← ih']
      constructor
      · rintro ⟨r, hr | hr, hk⟩
        · simp [reportsOf, hi] at hr
        · exact ⟨r, hr, hk⟩
      · rintro ⟨r, hr, hk⟩; exact ⟨r, Or.inr hr, hk⟩
    | other =>
      simp only [hi, List.append_nil] at hsn
      have hc : citations (e :: evs) = citations evs := by simp [citations, hi]
      rw [hc, ← hsn, ← ih']
      constructor
      · rintro ⟨r, hr | hr, hk⟩
        · simp [reportsOf, hi] at hr
        · exact ⟨r, hr, hk⟩
      · rintro ⟨r, hr, hk⟩; exact ⟨r, Or.inr hr, hk⟩

/-! ### Part 2: where reports are located -/

theorem lineEvents_mem (sub : Path → List Event) (q : Path) (e : Event) : ∀ (ls : List Str) (n : Nat),
    e ∈ lineEvents sub q ls n →
    (∃ q', e ∈ sub q') ∨
    (e.file = q ∧ ∃ i l, ls[i]? = some l ∧ e.lineno = n + i ∧ e.text = strip l ∧ e.item = classify l) := by
  intro ls
  induction ls with
  | nil => intro n h; simp [lineEvents] at h
  | cons l ls ih =>
    intro n h
    simp only [lineEvents, List.mem_cons, List.mem_append] at h
    rcases h with h | h | h
    · subst h
      exact Or.inr ⟨rfl, 0, l, rfl, rfl, rfl, rfl⟩
    · left
      cases hc : classify l with
      | input q' => simp only [hc] at h; exact ⟨q', h⟩
      | citation _ => simp [hc] at h
      | bibstyle _ => simp [hc] at h
      | bibdata _ => simp [hc] at h
      | other => simp [hc] at h
    · rcases ih (n + 1) h with h | ⟨hf, i, l', hl, hn, ht, hi⟩
      · exact Or.inl h
      · exact Or.inr ⟨hf, i + 1, l', by simpa using hl, by omega, ht, hi⟩

/-- every event of the unfolding is a real line: line number `e.lineno` (counted from 1) of the file
`e.file` of the file system, with the text and the classification of that line -/
theorem events_mem (fs : FS) : ∀ (d : Nat) (p : Path) (e : Event), e ∈ events fs d p →
    ∃ lines l, fs e.file = some lines ∧ 1 ≤ e.lineno ∧ lines[e.lineno - 1]? = some l ∧
      e.text = strip l ∧ e.item = classify l := by
  intro d
  induction d with
  | zero => intro p e h; simp [events] at h
  | succ d ih =>
    intro p e h
    simp only [events] at h
    cases hfs : fs p with
    | none => simp [hfs] at h
    | some lines =>
      simp only [hfs] at h
      rcases lineEvents_mem (events fs d) p e lines 1 h with ⟨q', hq'⟩ | ⟨hf, i, l, hl, hn, ht, hi⟩
      · exact ih q' e hq'
      · refine ⟨lines, l, by rw [hf]; exact hfs, by omega, ?_, ht, hi⟩
        have : e.lineno - 1 = i := by omega
        rw [this]; exact hl

/-- what a report says about the event that caused it -/
def Caused (r : Report) (e : Event) : Prop :=
  r.file = e.file ∧ r.lineno = some e.lineno ∧ r.line = some e.text ∧
  (match r.kind with
   | .caseMismatch a _ => ∃ keys, e.item = .citation keys ∧ a ∈ keys
   | .anotherBibstyle => ∃ s, e.item = .bibstyle s
   | .anotherBibdata => ∃ ns, e.item = .bibdata ns
   | _ => False)

theorem reportsOf_caused (before : List Event) (e : Event) (r : Report) (h : r ∈ reportsOf before e) :
    Caused r e := by
  simp only [reportsOf] at h
  cases hi : e.item with
  | citation keys =>
    simp only [hi, List.mem_map] at h
    obtain ⟨kk, hkk, rfl⟩ := h
    exact ⟨rfl, rfl, rfl, keys, hi, (mem_mismatches keys _ kk hkk).1⟩
  | bibstyle s =>
    simp only [hi] at h
    split at h
    · simp only [List.mem_singleton] at h; subst h; exact ⟨rfl, rfl, rfl, s, hi⟩
    · cases h
  | bibdata ns =>
    simp only [hi] at h
    split at h
    · simp only [List.mem_singleton] at h; subst h; exact ⟨rfl, rfl, rfl, ns, hi⟩
    · cases h
  | input q => simp [hi] at h
  | other => simp [hi] at h

theorem reportsAfter_mem (r : Report) (evs : List Event) : ∀ before : List Event,
    r ∈ reportsAfter before evs → ∃ e ∈ evs, Caused r e := by
  induction evs with
  | nil => intro before h; simp [reportsAfter] at h
  | cons e evs ih =>
    intro before h
    simp only [reportsAfter, List.mem_append] at h
    rcases h with h | h
    · exact ⟨e, by simp, reportsOf_caused before e r h⟩
    · obtain ⟨e', he', hc⟩ := ih (before ++ [e]) h
      exact ⟨e', by simp [he'], hc⟩

end Pybtex.Aux
