/-
C19 extension — helper lemmas for `Props/C19x.lean`: equations of `iterCalls`, `split('\n')` of a
`'\n'`-join, the fold of `emit` over a trace of output calls, characters of the yielded lines.
-/
import PybtexModel.Model.WrapCalls
import PybtexModel.Spec.WrapPhys
import PybtexModel.Spec.BstSem
import PybtexModel.Lemmas.Wrap

namespace Pybtex.Wrap
open Pybtex Pybtex.Interp Pybtex.BstSem

/-! ### `iterCalls` -/

theorem iterCalls_short {w : Int} {ind s : Str} (h : ¬ (s.length : Int) > w) :
    iterCalls w ind s = [] := by
  rw [iterCalls]
  simp only [h, if_false]

theorem iterCalls_none {w : Int} {ind s : Str} (hl : (s.length : Int) > w)
    (hb : findBreak w ind s = none) : iterCalls w ind s = [(s, none)] := by
  rw [iterCalls]
  simp only [hl, if_true]
  split
  · rfl
  · rename_i p hp; rw [hb] at hp; cases hp

theorem iterCalls_some {w : Int} {ind s : Str} {p : Nat} (hl : (s.length : Int) > w)
    (hb : findBreak w ind s = some p) :
    iterCalls w ind s = (s, some p) :: iterCalls w ind (ind ++ s.drop (p + 1)) := by
  rw [iterCalls]
  simp only [hl, if_true]
  split
  · rename_i hp; rw [hb] at hp; cases hp
  · rename_i p' hp
    rw [hb] at hp
    injection hp with hp
    subst hp
    have := (findBreak_bounds hb).1
    have hp0 : p ≠ 0 := by omega
    simp only [hp0, if_false]

theorem iterLines_eq_linesOfCalls (w : Int) (ind s : Str) :
    iterLines w ind s = linesOfCalls ind s (iterCalls w ind s) := by
  generalize hn : s.length = n
  induction n using Nat.strongRecOn generalizing s with
  | ind n ih =>
    by_cases hl : (s.length : Int) > w
    · cases hb : findBreak w ind s with
      | none => rw [iterLines_none hl hb, iterCalls_none hl hb]; rfl
      | some p =>
        rw [iterLines_some hl hb, iterCalls_some hl hb]
        simp only [linesOfCalls]
        rw [← ih _ ?_ _ rfl]
        have := findBreak_bounds hb
        simp only [List.length_append, List.length_drop]
        omega
    · rw [iterLines_short hl, iterCalls_short hl]; rfl

theorem iterCalls_spec (w : Int) (ind s : Str) :
    ∀ c ∈ iterCalls w ind s, (c.1.length : Int) > w ∧ c.2 = findBreak w ind c.1 := by
  generalize hn : s.length = n
  induction n using Nat.strongRecOn generalizing s with
  | ind n ih =>
    by_cases hl : (s.length : Int) > w
    · cases hb : findBreak w ind s with
      | none =>
        rw [iterCalls_none hl hb]
        intro c hc
        simp only [List.mem_singleton] at hc
        subst hc
        exact ⟨hl, hb.symm⟩
      | some p =>
        rw [iterCalls_some hl hb]
        intro c hc
        simp only [List.mem_cons] at hc
        rcases hc with hc | hc
        · subst hc; exact ⟨hl, hb.symm⟩
        · refine ih _ ?_ _ rfl c hc
          have := findBreak_bounds hb
          simp only [List.length_append, List.length_drop]
          omega
    · rw [iterCalls_short hl]; intro c hc; cases hc

/-! ### `split('\n')` -/

theorem splitNl_no_nl : ∀ {s : Str}, '\n' ∉ s → splitNl s = [s]
  | [], _ => rfl
  | c :: cs, h => by
    have hc : c ≠ '\n' := fun e => h (by simp [e])
    have hcs : '\n' ∉ cs := fun e => h (List.mem_cons_of_mem _ e)
    simp only [splitNl, hc, if_false, splitNl_no_nl hcs]

theorem splitNl_append_nl : ∀ {a : Str} (b : Str), '\n' ∉ a → splitNl (a ++ '\n' :: b) = a :: splitNl b
  | [], b, _ => by simp [splitNl]
  | c :: cs, b, h => by
    have hc : c ≠ '\n' := fun e => h (by simp [e])
    have hcs : '\n' ∉ cs := fun e => h (List.mem_cons_of_mem _ e)
    simp only [List.cons_append, splitNl, hc, if_false, splitNl_append_nl b hcs]

/-- the physical lines of a `'\n'`-join followed by a line feed: the joined lines (one empty line when
there is none), then the physical lines of what follows -/
theorem splitNl_joinWith_nl : ∀ (ls : List Str) (rest : Str), (∀ l ∈ ls, '\n' ∉ l) →
    splitNl (joinWith ['\n'] ls ++ '\n' :: rest) = (match ls with | [] => [[]] | ls => ls) ++ splitNl rest
  | [], rest, _ => by simp [joinWith, splitNl]
  | [x], rest, h => by
    simp only [joinWith]
    rw [splitNl_append_nl rest (h x (by simp))]
    rfl
  | x :: y :: r, rest, h => by
    have hx := h x (by simp)
    have ih := splitNl_joinWith_nl (y :: r) rest (fun l hl => h l (List.mem_cons_of_mem _ hl))
    simp only [joinWith, List.append_assoc, List.cons_append, List.nil_append]
    rw [splitNl_append_nl _ hx, ih]
    rfl

/-! ### characters of the yielded lines -/

theorem iterLines_mem_char (w : Int) (ind s : Str) (c : Char) (hind : c ∉ ind) :
    c ∉ s → ∀ l ∈ iterLines w ind s, c ∉ l := by
  refine iterLines_induct (w := w) (ind := ind) (fun s L => c ∉ s → ∀ l ∈ L, c ∉ l) ?_ ?_ ?_ s
  · intro s _ hs l hl
    split at hl
    · simp at hl
    · simp only [List.mem_singleton] at hl; subst hl; exact hs
  · intro s _ _ hs l hl
    simp only [List.mem_singleton] at hl; subst hl; exact hs
  · intro s p _ _ ih hs l hl
    simp only [List.mem_cons] at hl
    rcases hl with hl | hl
    · subst hl; exact fun hm => hs (List.mem_of_mem_take hm)
    · refine ih ?_ l hl
      intro hm
      rcases List.mem_append.1 hm with hm | hm
      · exact hind hm
      · exact hs (List.mem_of_mem_drop hm)

theorem emitted_no_nl {T : Str} (h : '\n' ∉ T) :
    ∀ e ∈ (iterLines 79 [' ', ' '] T).map rstrip, '\n' ∉ e := by
  intro e he hm
  obtain ⟨l, hl, rfl⟩ := List.mem_map.1 he
  exact iterLines_mem_char 79 [' ', ' '] T '\n' (by decide) h l hl ((rstrip_prefix l).subset hm)

theorem splitNl_wrapDefault {T : Str} (rest : Str) (h : '\n' ∉ T) :
    splitNl (wrapDefault T ++ '\n' :: rest) = groupPhysLines T ++ splitNl rest := by
  have := splitNl_joinWith_nl ((iterLines 79 [' ', ' '] T).map rstrip) rest (emitted_no_nl h)
  exact this

theorem splitNl_engineOutput : ∀ (ls : List (List Str)), (∀ p ∈ ls, '\n' ∉ p.flatten) →
    splitNl (engineOutput ls) = (ls.map fun p => groupPhysLines p.flatten).flatten ++ [[]]
  | [], _ => by simp [engineOutput_eq, splitNl]
  | p :: ps, h => by
    rw [engineOutput_cons, splitNl_wrapDefault _ (h p (by simp)),
      splitNl_engineOutput ps (fun q hq => h q (List.mem_cons_of_mem _ hq))]
    simp

/-! ### the fold of `emit` (`Interpreter.output` / `Interpreter.newline` call after call) -/

theorem foldl_emit (evs : List OutEv) : ∀ (ls buf : List Str),
    evs.foldl emit (ls, buf) =
      (ls ++ ((traceGroups buf evs).map fun g => [wrapDefault g.flatten, ['\n']]).flatten,
       tracePending buf evs) := by
  induction evs with
  | nil => intro ls buf; simp [traceGroups, tracePending]
  | cons e evs ih =>
    intro ls buf
    cases e with
    | write x => simp only [List.foldl_cons, emit, ih, traceGroups, tracePending]
    | newline =>
      simp only [List.foldl_cons, emit, ih, traceGroups, tracePending, List.map_cons, List.flatten_cons,
        List.append_assoc]

end Pybtex.Wrap
