/-
C02 helper lemmas, part 8: a concrete lossless `Serial` — a witness for the serialiser hypotheses
of `C02_yaml_logic`, `C02_xml_logic`, `C02_chain`, `C02_lower` (`load (dump t) = some t` for EVERY
tree, `encode` the identity).  The texts are a simple prefix code (length-prefixed strings, counted
lists, the nesting depth in front as the decoder's fuel); they are not YAML / XML — the point is only
that the hypotheses are satisfiable, i.e. the theorems are not vacuous.
-/
import PybtexModel.Model.BibWrite

namespace Pybtex.C02.Ser
open Pybtex Pybtex.Bib Pybtex.BibWrite

/-! ### numbers and strings -/

def encNat (n : Nat) : Str := List.replicate n 'a' ++ ['.']

def decNat : Str → Option (Nat × Str)
  | [] => none
  | c :: r =>
    if c = 'a' then
      match decNat r with
      | some (n, r') => some (n + 1, r')
      | none => none
    else if c = '.' then some (0, r) else none

theorem decNat_enc (n : Nat) (rest : Str) : decNat (encNat n ++ rest) = some (n, rest) := by
  induction n with
  | zero => simp [encNat, decNat]
  | succ n ih =>
    have : encNat (n + 1) ++ rest = 'a' :: (encNat n ++ rest) := by
      simp [encNat, List.replicate_succ]
    rw [this, decNat, if_pos rfl, ih]

def encS (s : Str) : Str := encNat s.length ++ s

def decS (s : Str) : Option (Str × Str) :=
  match decNat s with
  | some (n, r) => if n ≤ r.length then some (r.take n, r.drop n) else none
  | none => none

theorem decS_enc (s rest : Str) : decS (encS s ++ rest) = some (s, rest) := by
  unfold decS encS
  rw [List.append_assoc, decNat_enc]
  simp

def encO : Option Str → Str
  | none => ['n']
  | some s => 'j' :: encS s

def decO : Str → Option (Option Str × Str)
  | [] => none
  | c :: r =>
    if c = 'n' then some (none, r)
    else if c = 'j' then
      match decS r with
      | some (s, r') => some (some s, r')
      | none => none
    else none

theorem decO_enc (o : Option Str) (rest : Str) : decO (encO o ++ rest) = some (o, rest) := by
  cases o with
  | none => simp [encO, decO]
  | some s =>
    have : encO (some s) ++ rest = 'j' :: (encS s ++ rest) := by simp [encO]
    rw [this, decO, if_neg (by decide), if_pos rfl, decS_enc]

/-! ### counted lists -/

def decList {α : Type} (dec : Str → Option (α × Str)) : Nat → Str → Option (List α × Str)
  | 0, r => some ([], r)
  | n + 1, r =>
    match dec r with
    | none => none
    | some (x, r') =>
      match decList dec n r' with
      | none => none
      | some (l, r'') => some (x :: l, r'')

theorem decList_enc {α : Type} (enc : α → Str) (dec : Str → Option (α × Str)) :
    ∀ (l : List α) (rest : Str), (∀ x ∈ l, ∀ r, dec (enc x ++ r) = some (x, r)) →
    decList dec l.length ((l.map enc).flatten ++ rest) = some (l, rest) := by
  intro l
  induction l with
  | nil => intro rest _; simp [decList]
  | cons x l ih =>
    intro rest h
    simp only [List.length_cons, List.map_cons, List.flatten_cons, List.append_assoc, decList,
      h x (by simp), ih rest (fun y hy => h y (by simp [hy]))]

/-! ### YAML value trees -/

mutual
def encY : YNode → Str
  | .str s => 's' :: encS s
  | .other t => 'o' :: encS t
  | .seq items => 'l' :: encNat items.length ++ encYs items
  | .map items => 'm' :: encNat items.length ++ encYm items
def encYs : List YNode → Str
  | [] => []
  | x :: r => encY x ++ encYs r
def encYm : List (Str × YNode) → Str
  | [] => []
  | (k, v) :: r => (encS k ++ encY v) ++ encYm r
end

mutual
def depthY : YNode → Nat
  | .str _ => 1
  | .other _ => 1
  | .seq items => depthYs items + 1
  | .map items => depthYm items + 1
def depthYs : List YNode → Nat
  | [] => 0
  | x :: r => max (depthY x) (depthYs r)
def depthYm : List (Str × YNode) → Nat
  | [] => 0
  | (_, v) :: r => max (depthY v) (depthYm r)
end

def decY : Nat → Str → Option (YNode × Str)
  | 0, _ => none
  | _ + 1, [] => none
  | fuel + 1, c :: r =>
    if c = 's' then
      match decS r with
      | some (s, r') => some (.str s, r')
      | none => none
    else if c = 'o' then
      match decS r with
      | some (s, r') => some (.other s, r')
      | none => none
    else if c = 'l' then
      match decNat r with
      | some (n, r') =>
        match decList (decY fuel) n r' with
        | some (l, r'') => some (.seq l, r'')
        | none => none
      | none => none
    else if c = 'm' then
      match decNat r with
      | some (n, r') =>
        match decList (fun x =>
            match decS x with
            | some (k, x1) =>
              match decY fuel x1 with
              | some (v, x2) => some ((k, v), x2)
              | none => none
            | none => none) n r' with
        | some (l, r'') => some (.map l, r'')
        | none => none
      | none => none
    else none

theorem encYs_eq (l : List YNode) : encYs l = (l.map encY).flatten := by
  induction l with
  | nil => simp [encYs]
  | cons x l ih => simp [encYs, ih]

theorem encYm_eq (l : List (Str × YNode)) : encYm l = (l.map fun p => encS p.1 ++ encY p.2).flatten := by
  induction l with
  | nil => simp [encYm]
  | cons x l ih => obtain ⟨k, v⟩ := x; simp [encYm, ih]

theorem depthYs_mem {l : List YNode} {x : YNode} (h : x ∈ l) : depthY x ≤ depthYs l := by
  induction l with
  | nil => cases h
  | cons y l ih =>
    simp only [depthYs]
    rcases List.mem_cons.1 h with rfl | h
    · exact Nat.le_max_left _ _
    · exact Nat.le_trans (ih h) (Nat.le_max_right _ _)

theorem depthYm_mem {l : List (Str × YNode)} {x : Str × YNode} (h : x ∈ l) : depthY x.2 ≤ depthYm l := by
  induction l with
  | nil => cases h
  | cons y l ih =>
    obtain ⟨k, v⟩ := y
    simp only [depthYm]
    rcases List.mem_cons.1 h with rfl | h
    · exact Nat.le_max_left _ _
    · exact Nat.le_trans (ih h) (Nat.le_max_right _ _)

theorem decY_enc : ∀ (fuel : Nat) (t : YNode) (rest : Str), depthY t ≤ fuel →
    decY fuel (encY t ++ rest) = some (t, rest) := by
  intro fuel
  induction fuel with
  | zero =>
    intro t rest h
    cases t <;> simp [depthY] at h
  | succ fuel ih =>
    intro t rest h
    cases t with
    | str s =>
      have : encY (.str s) ++ rest = 's' :: (encS s ++ rest) := by simp [encY]
      rw [this, decY, if_pos rfl, decS_enc]
    | other s =>
      have : encY (.other s) ++ rest = 'o' :: (encS s ++ rest) := by simp [encY]
      rw [this, decY, if_neg (by decide), if_pos rfl, decS_enc]
    | seq items =>
      have : encY (.seq items) ++ rest = 'l' :: (encNat items.length ++ ((items.map encY).flatten ++ rest)) := by
        simp [encY, encYs_eq]
      rw [this, decY, if_neg (by decide), if_neg (by decide), if_pos rfl, decNat_enc]
      simp only [depthY] at h
      have hl := decList_enc encY (decY fuel) items rest
        (fun x hx r => ih x r (Nat.le_trans (depthYs_mem hx) (by omega)))
      simp only [hl]
    | map items =>
      have : encY (.map items) ++ rest =
          'm' :: (encNat items.length ++ ((items.map fun p => encS p.1 ++ encY p.2).flatten ++ rest)) := by
        simp [encY, encYm_eq]
      rw [this, decY, if_neg (by decide), if_neg (by decide), if_neg (by decide), if_pos rfl, decNat_enc]
      simp only [depthY] at h
      have hl := decList_enc (fun p : Str × YNode => encS p.1 ++ encY p.2)
        (fun x =>
            match decS x with
            | some (k, x1) =>
              match decY fuel x1 with
              | some (v, x2) => some ((k, v), x2)
              | none => none
            | none => none) items rest
        (fun x hx r => by
          obtain ⟨k, v⟩ := x
          simp only [List.append_assoc, decS_enc]
          rw [ih v r (Nat.le_trans (depthYm_mem hx) (by omega))])
      simp only [hl]

def dumpY (t : YNode) : Str := encNat (depthY t) ++ encY t

def loadY (s : Str) : Option YNode :=
  match decNat s with
  | some (n, r) =>
    match decY n r with
    | some (t, []) => some t
    | _ => none
  | none => none

theorem loadY_dumpY (t : YNode) : loadY (dumpY t) = some t := by
  unfold loadY dumpY
  rw [decNat_enc]
  have := decY_enc (depthY t) t [] (Nat.le_refl _)
  rw [List.append_nil] at this
  simp only [this]

/-! ### BibTeXML element trees -/

mutual
def encX : XNode → Str
  | .elem tag id text children =>
    'e' :: (encS tag ++ (encO id ++ (encO text ++ (encNat children.length ++ encXs children))))
def encXs : List XNode → Str
  | [] => []
  | x :: r => encX x ++ encXs r
end

mutual
def depthX : XNode → Nat
  | .elem _ _ _ children => depthXs children + 1
def depthXs : List XNode → Nat
  | [] => 0
  | x :: r => max (depthX x) (depthXs r)
end

def decX : Nat → Str → Option (XNode × Str)
  | 0, _ => none
  | _ + 1, [] => none
  | fuel + 1, c :: r =>
    if c = 'e' then
      match decS r with
      | some (tag, r1) =>
        match decO r1 with
        | some (id, r2) =>
          match decO r2 with
          | some (text, r3) =>
            match decNat r3 with
            | some (n, r4) =>
              match decList (decX fuel) n r4 with
              | some (l, r5) => some (.elem tag id text l, r5)
              | none => none
            | none => none
          | none => none
        | none => none
      | none => none
    else none

theorem encXs_eq (l : List XNode) : encXs l = (l.map encX).flatten := by
  induction l with
  | nil => simp [encXs]
  | cons x l ih => simp [encXs, ih]

theorem depthXs_mem {l : List XNode} {x : XNode} (h : x ∈ l) : depthX x ≤ depthXs l := by
  induction l with
  | nil => cases h
  | cons y l ih =>
    simp only [depthXs]
    rcases List.mem_cons.1 h with rfl | h
    · exact Nat.le_max_left _ _
    · exact Nat.le_trans (ih h) (Nat.le_max_right _ _)

theorem decX_enc : ∀ (fuel : Nat) (t : XNode) (rest : Str), depthX t ≤ fuel →
    decX fuel (encX t ++ rest) = some (t, rest) := by
  intro fuel
  induction fuel with
  | zero =>
    intro t rest h
    cases t; simp [depthX] at h
  | succ fuel ih =>
    intro t rest h
    obtain ⟨tag, id, text, children⟩ := t
    have : encX (.elem tag id text children) ++ rest =
        'e' :: (encS tag ++ (encO id ++ (encO text ++ (encNat children.length ++
          ((children.map encX).flatten ++ rest))))) := by
      simp [encX, encXs_eq]
    rw [this, decX, if_pos rfl, decS_enc]
    simp only [decO_enc, decNat_enc]
    simp only [depthX] at h
    have hl := decList_enc encX (decX fuel) children rest
      (fun x hx r => ih x r (Nat.le_trans (depthXs_mem hx) (by omega)))
    simp only [hl]

def dumpX (t : XNode) : Str := encNat (depthX t) ++ encX t

def loadX (s : Str) : Option XNode :=
  match decNat s with
  | some (n, r) =>
    match decX n r with
    | some (t, []) => some t
    | _ => none
  | none => none

theorem loadX_dumpX (t : XNode) : loadX (dumpX t) = some t := by
  unfold loadX dumpX
  rw [decNat_enc]
  have := decX_enc (depthX t) t [] (Nat.le_refl _)
  rw [List.append_nil] at this
  simp only [this]

/-- a lossless `Serial`: the identity encoder and the two prefix-code printers -/
def witness : Serial := ⟨id, dumpY, loadY, dumpX, loadX⟩

end Pybtex.C02.Ser
