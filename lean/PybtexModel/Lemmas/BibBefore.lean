/-
Two consequences of the document-level round trip (`BibRoundTrip.parseLoop_docD`, which allows
arbitrary text behind the rendered document) and of the analysis of the command loop in
`BibTotal` (`parseLoop_prefix`: the loop only ever appends; `parseBib_sim`: strict mode is
continue mode cut at the first report):

* strict mode on a rendered document that may repeat field names and keys (`parseBib_strictD`);
* textual confinement BEFORE (`parseBib_before`, `parseBib_before_strict`): whatever text `x`
  follows a rendered document — well-formed or not —, the entries, the preamble and the reports of
  the document come first in the result of reading `render d L ++ x`.
-/
import PybtexModel.Lemmas.BibRoundTrip
import PybtexModel.Lemmas.BibTotal

namespace Pybtex.BibRT
open Pybtex Pybtex.Bib Pybtex.BibSpec

/-! ## strict mode from continue mode -/

/-- (iii) Strict mode on the rendering of a `WFD` document: with nothing to report the run ends like
the continue-mode run (nothing raised, database = `denoteD`); otherwise the first report is
raised. -/
theorem parseBib_strictD (d : ADoc) (L : Layout) (h : WFD d L) :
    (reports (written d L) = [] →
      (parseBib (render d L) true none).2 = none ∧ (parseBib (render d L) true none).1.errs = [] ∧
      (parseBib (render d L) true none).1.db =
        { entries := (denoteD (written d L)).entries, preamble := (denoteD (written d L)).preamble }) ∧
    (∀ e tl, reports (written d L) = e :: tl → (parseBib (render d L) true none).2 = some e) := by
  constructor
  · intro hr
    obtain ⟨s', m', keys', h1, hinv⟩ := parseBib_faithfulD d L true h (fun _ => hr)
    rw [h1]
    exact ⟨rfl, by rw [hinv.errs, hr], hinv.db_eq⟩
  · intro e tl hr
    obtain ⟨s', m', keys', h1, hinv⟩ := parseBib_faithfulD d L false h (fun hs => by cases hs)
    have hsim := parseBib_sim (render d L) none Gen.monthMacros Gen.personRoles
    have herrs : (parseBib (render d L) false none).1.errs = e :: tl := by rw [h1]; rw [hinv.errs, hr]
    rcases hsim.2 with ⟨h2, _⟩ | ⟨e', tl', s'', h2, h3⟩
    · rw [herrs] at h2; cases h2
    · rw [herrs] at h2
      have : e = e' := by
        have h2' : e :: tl = e' :: tl' := h2
        exact (List.cons.inj h2').1
      rw [h3, this]

/-! ## textual confinement before -/

/-- the state of the command loop in front of the trailing text -/
theorem parseLoop_before (d : ADoc) (L : Layout) (strict : Bool) (h : WFD d L) (x : Str)
    (hstrict : strict = true → reports (written d L) = []) :
    ∃ s' m' keys', Le s' (parseBib (render d L ++ x) strict none).1 ∧
      LoopInvD s' m' (denoteD (written d L)) keys' (reports (written d L)) := by
  rw [parseBib_eq]
  obtain ⟨s', m', keys', pre', k, hk, _, _, _, _, hinv⟩ :=
    parseLoop_docD d L (initSt (render d L ++ x) strict none Gen.monthMacros Gen.personRoles) [] x initMacros {} [] []
      rfl (by simp) h ⟨macRef_init, ⟨rfl, rfl, rfl⟩, rfl, rfl, rfl, by simp⟩ hstrict
  refine ⟨s', m', keys', ?_, by simpa [reports, denoteD] using hinv⟩
  have h0 := hk 0
  have hle := parseLoop_prefix k ((render d L ++ x).length + 1)
    (initSt (render d L ++ x) strict none Gen.monthMacros Gen.personRoles) (initSt_inv ..) (Nat.lt_succ_self _)
  rw [Nat.add_zero] at h0
  rw [h0] at hle
  exact hle

/-- **Confinement before** (continue mode).  For a `WFD` document under a layout and EVERY text `x`
behind its rendering (complete commands, garbage, an unfinished entry …): the entries and the
preamble the document denotes and the reports it gives come first in what the reader returns for
`render d L ++ x`. -/
theorem parseBib_before (d : ADoc) (L : Layout) (h : WFD d L) (x : Str) :
    (denoteD (written d L)).entries <+: (parseBib (render d L ++ x) false none).1.db.entries ∧
    (denoteD (written d L)).preamble <+: (parseBib (render d L ++ x) false none).1.db.preamble ∧
    reports (written d L) <+: (parseBib (render d L ++ x) false none).1.errs := by
  obtain ⟨s', m', keys', hle, hinv⟩ := parseLoop_before d L false h x (fun hs => by cases hs)
  rw [← hinv.entries, ← hinv.preamble, ← hinv.errs]
  exact ⟨hle.2.2.2.2.1, hle.2.2.2.2.2, hle.2.2.2.1⟩

/-- **Confinement before** (strict mode), for a document that gives nothing to report: whatever
follows — also when the reader raises on it — the entries and the preamble of the document come
first in the database of the state the reader stops in. -/
theorem parseBib_before_strict (d : ADoc) (L : Layout) (h : WFD d L) (hr : reports (written d L) = []) (x : Str) :
    (denoteD (written d L)).entries <+: (parseBib (render d L ++ x) true none).1.db.entries ∧
    (denoteD (written d L)).preamble <+: (parseBib (render d L ++ x) true none).1.db.preamble := by
  obtain ⟨s', m', keys', hle, hinv⟩ := parseLoop_before d L true h x (fun _ => hr)
  rw [← hinv.entries, ← hinv.preamble]
  exact ⟨hle.2.2.2.2.1, hle.2.2.2.2.2⟩

/-! instances: a document with a repeated field name, followed by a malformed continuation (a field
without a value, then an entry cut off behind its opening brace) -/

def beforeDoc : ADoc := [
  .preamble [.lit "p".toList],
  .entry "a".toList "k".toList [("t".toList, [.lit "1".toList]), ("T".toList, [.lit "2".toList])]]

def beforeLayout : Layout := [{}, { fields := [{}, {}], afterClose := "\n".toList }]

/-- the hypotheses of `parseBib_before` hold (`WFD`, not `WF`), and what its conclusion says here: the
entry `k` (first `t` only), the preamble and the duplicate-field report come first; the
continuation adds two entries and two syntax errors behind them -/
theorem parseBib_before_example :
    let x : Str := "@b{j, u = }\n@c{".toList
    WFD beforeDoc beforeLayout ∧ ¬ WF beforeDoc beforeLayout ∧
    render beforeDoc beforeLayout ++ x = "@preamble{{p}}@a{k,t={1},T={2}}\n@b{j, u = }\n@c{".toList ∧
    (denoteD (written beforeDoc beforeLayout)).entries.map (fun e => (e.key, e.fields)) =
      [("k".toList, [("t".toList, "1".toList)])] ∧
    (denoteD (written beforeDoc beforeLayout)).preamble = ["p".toList] ∧
    reports (written beforeDoc beforeLayout) = [⟨.duplicateField "k".toList "T".toList, none⟩] ∧
    (parseBib (render beforeDoc beforeLayout ++ x) false none).1.db.entries.map (fun e => (e.key, e.fields)) =
      [("k".toList, [("t".toList, "1".toList)]), ("j".toList, []), ("unnamed-1".toList, [])] ∧
    (parseBib (render beforeDoc beforeLayout ++ x) false none).1.db.preamble = ["p".toList] ∧
    (parseBib (render beforeDoc beforeLayout ++ x) false none).1.errs =
      [⟨.duplicateField "k".toList "T".toList, none⟩, ⟨.tokenRequired "field value", some 2⟩,
       ⟨.prematureEOF, some 3⟩] := by
  decide +kernel

/-- strict mode, same continuation behind a document that gives nothing to report: the reader
raises on the continuation (line 2) and the entry `k` is in the database it stops with -/
theorem parseBib_before_strict_example :
    let d : ADoc := [.entry "a".toList "k".toList [("t".toList, [.lit "1".toList])]]
    let L : Layout := [{ fields := [{}], afterClose := "\n".toList }]
    let x : Str := "@b{j, u = }\n@c{".toList
    WFD d L ∧ reports (written d L) = [] ∧
    (parseBib (render d L ++ x) true none).2 = some ⟨.tokenRequired "field value", some 2⟩ ∧
    (parseBib (render d L ++ x) true none).1.db.entries.map (fun e => (e.key, e.fields)) =
      [("k".toList, [("t".toList, "1".toList)])] := by
  decide +kernel

end Pybtex.BibRT
