/-
C02 helper lemmas, part 1: `split_tex_string` on brace-balanced text is a flat left-to-right
scan (`flat`): characters inside braces are copied, at brace level 0 the separator is matched with
the look-behind restricted to the current brace-free run.  On top of it:
* a chunk without separator match at level 0 is copied (`flat_noSep`), hence
  `splitTex sep (p₁ ++ sep ++ p₂ ++ …) = [p₁, p₂, …]` for separator-free pieces;
* every piece produced is separator-free at level 0 (completeness).
-/
import PybtexModel.Lemmas.TeXString
import PybtexModel.Lemmas.Names

namespace Pybtex.C02
open Pybtex Pybtex.Spec

/-! ### the flat scan -/

/-- `d` = brace depth, `prev` = previous character of the current brace-free level-0 run,
`cur` = the piece being accumulated -/
def flat (sep : Sep) : Nat → Option Char → Str → Str → List Str
  | _, _, cur, [] => [cur]
  | d, prev, cur, c :: r =>
    if c = '{' then flat sep (d + 1) none (cur ++ [c]) r
    else if c = '}' then flat sep (d - 1) none (cur ++ [c]) r
    else if d ≠ 0 then flat sep d none (cur ++ [c]) r
    else if sepMatch sep prev (c :: r) = 0 then flat sep 0 (some c) (cur ++ [c]) r
    else cur :: flat sep 0 ((c :: r)[sepMatch sep prev (c :: r) - 1]?) []
            ((c :: r).drop (sepMatch sep prev (c :: r)))
termination_by _ _ _ s => s.length
decreasing_by
  all_goals simp_wf
  all_goals omega

theorem flat_nil (sep : Sep) (d : Nat) (prev : Option Char) (cur : Str) :
    flat sep d prev cur [] = [cur] := by
  rw [flat]

theorem flat_open (sep : Sep) (d : Nat) (prev : Option Char) (cur r : Str) :
    flat sep d prev cur ('{' :: r) = flat sep (d + 1) none (cur ++ ['{']) r := by
  rw [flat]; simp

theorem flat_close (sep : Sep) (d : Nat) (prev : Option Char) (cur r : Str) :
    flat sep d prev cur ('}' :: r) = flat sep (d - 1) none (cur ++ ['}']) r := by
  rw [flat]; simp

theorem flat_deep (sep : Sep) {d : Nat} (prev : Option Char) (cur : Str) {c : Char} (r : Str)
    (hd : d ≠ 0) (h1 : c ≠ '{') (h2 : c ≠ '}') :
    flat sep d prev cur (c :: r) = flat sep d none (cur ++ [c]) r := by
  rw [flat]; simp [h1, h2, hd]

theorem flat_char (sep : Sep) (prev : Option Char) (cur : Str) {c : Char} (r : Str)
    (h1 : c ≠ '{') (h2 : c ≠ '}') (h : sepMatch sep prev (c :: r) = 0) :
    flat sep 0 prev cur (c :: r) = flat sep 0 (some c) (cur ++ [c]) r := by
  rw [flat]; simp [h1, h2, h]

theorem flat_sep (sep : Sep) (prev : Option Char) (cur : Str) {c : Char} (r : Str)
    (h1 : c ≠ '{') (h2 : c ≠ '}') (h : sepMatch sep prev (c :: r) ≠ 0) :
    flat sep 0 prev cur (c :: r) =
      cur :: flat sep 0 ((c :: r)[sepMatch sep prev (c :: r) - 1]?) []
        ((c :: r).drop (sepMatch sep prev (c :: r))) := by
  rw [flat]; simp [h1, h2, h]

/-- below level 0 and in front of a brace the look-behind is not used -/
theorem flat_prev_deep (sep : Sep) {d : Nat} (hd : d ≠ 0) (prev : Option Char) (cur s : Str) :
    flat sep d prev cur s = flat sep d none cur s := by
  cases s with
  | nil => rw [flat_nil, flat_nil]
  | cons c r =>
    by_cases h1 : c = '{'
    · subst h1; rw [flat_open, flat_open]
    · by_cases h2 : c = '}'
      · subst h2; rw [flat_close, flat_close]
      · rw [flat_deep sep prev cur r hd h1 h2, flat_deep sep none cur r hd h1 h2]

theorem flat_prev_brace (sep : Sep) (d : Nat) (prev : Option Char) (cur X : Str)
    (hX : X = [] ∨ ∃ X', X = '{' :: X') :
    flat sep d prev cur X = flat sep d none cur X := by
  rcases hX with rfl | ⟨X', rfl⟩
  · rw [flat_nil, flat_nil]
  · rw [flat_open, flat_open]

/-! ### the separator match does not look past an opening brace -/

theorem spaceRun_bs_sp (prev : Option Char) (r : Str) :
    spaceRun prev ('\\' :: ' ' :: r) = 2 + spaceRun (some ' ') r := by
  rw [spaceRun]; rfl

theorem spaceRun_bs_nil (prev : Option Char) : spaceRun prev ['\\'] = 0 := by
  unfold spaceRun; rfl

theorem spaceRun_bs_other (prev : Option Char) {c2 : Char} (r : Str) (h : c2 ≠ ' ') :
    spaceRun prev ('\\' :: c2 :: r) = 0 := by
  unfold spaceRun
  simp only [if_true]
  split
  · rename_i heq; simp only [List.cons.injEq] at heq; exact absurd heq.1 h
  · rfl

theorem spaceRun_nbs (prev : Option Char) {c : Char} (r : Str) (hc : c ≠ '\\') :
    spaceRun prev (c :: r) =
      if isWs c then 1 + spaceRun (some c) r
      else if c = '~' ∧ prev ≠ some '\\' then 1 + spaceRun (some c) r
      else 0 := by
  conv => lhs; unfold spaceRun
  simp only [hc, if_false]

theorem spaceRun_brace (prev : Option Char) (X : Str) (hX : X = [] ∨ ∃ X', X = '{' :: X') :
    spaceRun prev X = 0 := by
  rcases hX with rfl | ⟨X', rfl⟩
  · rfl
  · rw [spaceRun_nbs _ _ (by decide)]; simp [isWs, wsCodes]

theorem spaceRun_append_brace (X : Str) (hX : X = [] ∨ ∃ X', X = '{' :: X') (prev : Option Char) (a : Str) :
    spaceRun prev (a ++ X) = spaceRun prev a := by
  induction a generalizing prev with
  | nil => simpa [spaceRun] using spaceRun_brace prev X hX
  | cons c r ih =>
    simp only [List.cons_append]
    by_cases hc : c = '\\'
    · subst hc
      cases r with
      | nil =>
        rw [spaceRun_bs_nil]
        rcases hX with rfl | ⟨X', rfl⟩
        · exact spaceRun_bs_nil prev
        · exact spaceRun_bs_other prev _ (by decide)
      | cons c2 r2 =>
        simp only [List.cons_append]
        by_cases h2 : c2 = ' '
        · subst h2
          rw [spaceRun_bs_sp, spaceRun_bs_sp]
          have := ih (some '\\')
          simp only [List.cons_append] at this
          rw [spaceRun_nbs _ _ (by decide), spaceRun_nbs _ _ (by decide)] at this
          simp only [show isWs ' ' = true by decide, if_true] at this
          omega
        · rw [spaceRun_bs_other _ _ h2, spaceRun_bs_other _ _ h2]
    · rw [spaceRun_nbs _ _ hc, spaceRun_nbs _ _ hc]
      simp only [ih]

theorem isAndAt_five (c1 c2 c3 c4 c5 : Char) (r : Str) :
    isAndAt (c1 :: c2 :: c3 :: c4 :: c5 :: r) =
      (decide (c1 = ' ') && ((c2 = 'a' || c2 = 'A') && (c3 = 'n' || c3 = 'N') && (c4 = 'd' || c4 = 'D')) &&
        decide (c5 = ' ')) := by
  unfold isAndAt
  split
  · rename_i a n d tail heq
    simp only [List.cons.injEq] at heq
    obtain ⟨rfl, rfl, rfl, rfl, rfl, rfl⟩ := heq
    simp
  · rename_i hne
    by_cases h1 : c1 = ' '
    · by_cases h5 : c5 = ' '
      · subst h1 h5; exact absurd rfl (hne _ _ _ _)
      · simp [h5]
    · simp [h1]

theorem isAndAt_short (s : Str) (h : s.length < 5) : isAndAt s = false := by
  unfold isAndAt
  split
  · simp only [List.length_cons] at h; omega
  · rfl

theorem isAndAt_append_brace (X : Str) (hX : X = [] ∨ ∃ X', X = '{' :: X') (a : Str) :
    isAndAt (a ++ X) = isAndAt a := by
  rcases hX with rfl | ⟨X', rfl⟩
  · simp
  · rcases a with _ | ⟨c1, _ | ⟨c2, _ | ⟨c3, _ | ⟨c4, _ | ⟨c5, r⟩⟩⟩⟩⟩
    · rw [isAndAt_short [] (by simp)]
      cases X' with
      | nil => exact isAndAt_short _ (by simp)
      | cons x1 X' =>
        rcases X' with _ | ⟨x2, _ | ⟨x3, _ | ⟨x4, r⟩⟩⟩
        · exact isAndAt_short _ (by simp)
        · exact isAndAt_short _ (by simp)
        · exact isAndAt_short _ (by simp)
        · simp only [List.nil_append]; rw [isAndAt_five]; simp
    · rw [isAndAt_short [c1] (by simp)]
      rcases X' with _ | ⟨x2, _ | ⟨x3, _ | ⟨x4, r⟩⟩⟩
      · exact isAndAt_short _ (by simp)
      · exact isAndAt_short _ (by simp)
      · exact isAndAt_short _ (by simp)
      · simp only [List.cons_append, List.nil_append]; rw [isAndAt_five]; simp
    · rw [isAndAt_short [c1, c2] (by simp)]
      rcases X' with _ | ⟨x2, _ | ⟨x3, r⟩⟩
      · exact isAndAt_short _ (by simp)
      · exact isAndAt_short _ (by simp)
      · simp only [List.cons_append, List.nil_append]; rw [isAndAt_five]; simp
    · rw [isAndAt_short [c1, c2, c3] (by simp)]
      rcases X' with _ | ⟨x2, r⟩
      · exact isAndAt_short _ (by simp)
      · simp only [List.cons_append, List.nil_append]; rw [isAndAt_five]; simp
    · rw [isAndAt_short [c1, c2, c3, c4] (by simp)]
      simp only [List.cons_append, List.nil_append]; rw [isAndAt_five]; simp
    · simp only [List.cons_append]; rw [isAndAt_five, isAndAt_five]

theorem sepMatch_append_brace (sep : Sep) (X : Str) (hX : X = [] ∨ ∃ X', X = '{' :: X')
    (prev : Option Char) (a : Str) : sepMatch sep prev (a ++ X) = sepMatch sep prev a := by
  cases sep with
  | space => exact spaceRun_append_brace X hX prev a
  | comma =>
    simp only [sepMatch]
    cases a with
    | nil => rcases hX with rfl | ⟨X', rfl⟩ <;> simp
    | cons c r => simp
  | hyphen =>
    simp only [sepMatch]
    cases a with
    | nil => rcases hX with rfl | ⟨X', rfl⟩ <;> simp
    | cons c r => simp
  | and => simp only [sepMatch, isAndAt_append_brace X hX a]

/-! ### `re.split` on a brace-free run is the flat scan of it -/

/-- continue with the last piece -/
def glueLast : List Str → (Str → List Str) → List Str
  | [], k => k []
  | [a], k => k a
  | p :: q :: ps, k => p :: glueLast (q :: ps) k

theorem glueLast_cons {p : Str} {ps : List Str} (h : ps ≠ []) (k : Str → List Str) :
    glueLast (p :: ps) k = p :: glueLast ps k := by
  cases ps with
  | nil => exact absurd rfl h
  | cons q qs => rfl

theorem glueLast_concat (A : List Str) (a : Str) (k : Str → List Str) :
    glueLast (A ++ [a]) k = A ++ k a := by
  induction A with
  | nil => rfl
  | cons p A ih => rw [List.cons_append, glueLast_cons (by simp), ih]; rfl

theorem reSplitAux_cur (sep : Sep) : ∀ (fuel : Nat) (prev : Option Char) (cur s : Str),
    reSplitAux sep fuel prev cur s =
      match reSplitAux sep fuel prev [] s with
      | [] => [cur]
      | p :: ps => (cur ++ p) :: ps := by
  intro fuel
  induction fuel with
  | zero => intro prev cur s; simp [reSplitAux]
  | succ fuel ih =>
    intro prev cur s
    cases s with
    | nil => simp [reSplitAux]
    | cons c r =>
      simp only [reSplitAux]
      split
      · rw [ih (some c) (cur ++ [c]) r, ih (some c) ([] ++ [c]) r]
        cases reSplitAux sep fuel (some c) [] r <;> simp
      · simp

theorem flat_head (sep : Sep) (X : Str) (hX : X = [] ∨ ∃ X', X = '{' :: X') :
    ∀ (fuel : Nat) (prev : Option Char) (cur head : Str), head.length < fuel →
      (∀ c ∈ head, c ≠ '{' ∧ c ≠ '}') →
      flat sep 0 prev cur (head ++ X) =
        glueLast (reSplitAux sep fuel prev cur head) (fun a => flat sep 0 none a X) := by
  intro fuel
  induction fuel with
  | zero => intro _ _ head h; omega
  | succ fuel ih =>
    intro prev cur head hlen hplain
    cases head with
    | nil =>
      simp only [reSplitAux, List.nil_append, glueLast]
      exact flat_prev_brace sep 0 prev cur X hX
    | cons c r =>
      have hc := hplain c (by simp)
      have hr : ∀ x ∈ r, x ≠ '{' ∧ x ≠ '}' := fun x hx => hplain x (by simp [hx])
      simp only [reSplitAux, List.cons_append]
      have hm : sepMatch sep prev (c :: (r ++ X)) = sepMatch sep prev (c :: r) := by
        have := sepMatch_append_brace sep X hX prev (c :: r)
        simpa using this
      split
      · rename_i h0
        rw [flat_char sep prev cur (r ++ X) hc.1 hc.2 (by rw [hm]; exact h0)]
        exact ih (some c) (cur ++ [c]) r (by simpa using hlen) hr
      · rename_i hn
        have hle := sepMatch_le sep prev (c :: r)
        rw [flat_sep sep prev cur (r ++ X) hc.1 hc.2 (by rw [hm]; exact hn), hm]
        rw [glueLast_cons (Names.reSplitAux_ne_nil sep fuel _ _ _)]
        congr 1
        have hd : (c :: (r ++ X)).drop (sepMatch sep prev (c :: r)) = (c :: r).drop (sepMatch sep prev (c :: r)) ++ X := by
          rw [← List.cons_append, List.drop_append_of_le_length hle]
        have hg : (c :: (r ++ X))[sepMatch sep prev (c :: r) - 1]? = (c :: r)[sepMatch sep prev (c :: r) - 1]? := by
          rw [← List.cons_append, List.getElem?_append_left (by simp only [List.length_cons] at hle ⊢; omega)]
        rw [hd, hg]
        apply ih
        · simp only [List.length_drop, List.length_cons] at hlen hle ⊢; omega
        · intro x hx; exact hplain x (List.mem_of_mem_drop hx)

/-! ### a balanced group is copied -/

theorem flat_inside (sep : Sep) (Y : Str) : ∀ (body : Str) (j e : Nat) (prev : Option Char) (cur : Str),
    depthAfter j body = some e → 
    flat sep (j + 1) prev cur (body ++ Y) = flat sep (e + 1) none (cur ++ body) Y := by
  intro body
  induction body with
  | nil =>
    intro j e prev cur h
    simp only [depthAfter, Option.some.injEq] at h
    subst h
    simp only [List.nil_append, List.append_nil]
    exact flat_prev_deep sep (by omega) prev cur Y
  | cons c r ih =>
    intro j e prev cur h
    simp only [List.cons_append]
    by_cases h1 : c = '{'
    · subst h1
      simp only [depthAfter, if_true] at h
      rw [flat_open, ih (j + 1) e none _ h]
      simp
    · by_cases h2 : c = '}'
      · subst h2
        simp only [depthAfter] at h
        cases j with
        | zero => simp at h
        | succ j =>
          simp only [show ¬ ('}' = '{') by decide, if_false, if_true, Nat.succ_ne_zero, Nat.add_sub_cancel] at h
          rw [flat_close, Nat.add_sub_cancel, ih j e none _ h]
          simp
      · simp only [depthAfter, if_neg h1, if_neg h2] at h
        rw [flat_deep sep prev cur _ (by omega) h1 h2, ih j e none _ h]
        simp

theorem flat_group (sep : Sep) (prev : Option Char) (cur body tail : Str) (h : depthAfter 0 body = some 0) :
    flat sep 0 prev cur ('{' :: (body ++ '}' :: tail)) = flat sep 0 none (cur ++ '{' :: body ++ ['}']) tail := by
  rw [flat_open, flat_inside sep ('}' :: tail) body 0 0 none _ h, flat_close]
  simp


/-! ### the main loop is the flat scan -/

theorem headStep_pieces (sep : Sep) (head : Str) (wp : Option Str) :
    reSplitAux sep (head.length + 1) none (preOf wp) head =
      (headStep sep head [] wp).1 ++ [preOf (headStep sep head [] wp).2] := by
  unfold headStep
  by_cases hh : head = []
  · subst hh; simp [reSplitAux]
  · rw [if_pos hh, reSplitAux_cur]
    simp only [reSplit]
    cases hP : reSplitAux sep (head.length + 1) none [] head with
    | nil => exact absurd hP (Names.reSplitAux_ne_nil sep _ _ _ _)
    | cons p ps =>
      cases ps with
      | nil => simp
      | cons q qs =>
        simp only [List.nil_append, List.cons_append]
        have hne : q :: qs ≠ [] := by simp
        rw [List.getLast?_eq_some_getLast hne, preOf_some, List.dropLast_concat_getLast hne]

theorem headStep_snd_ne_none (sep : Sep) (head : Str) (wp : Option Str) (h : head ≠ [] ∨ wp ≠ none) :
    (headStep sep head [] wp).2 ≠ none := by
  unfold headStep
  by_cases hh : head = []
  · subst hh
    rcases h with h | h
    · exact absurd rfl h
    · simpa using h
  · rw [if_pos hh]
    cases hP : reSplit sep head with
    | nil => exact absurd hP (by unfold reSplit; exact Names.reSplitAux_ne_nil sep _ _ _ _)
    | cons p ps =>
      cases ps with
      | nil => simp
      | cons q qs => simp [List.getLast?_eq_some_getLast]

theorem splitLoop_flat (sep : Sep) : ∀ (fuel : Nat) (s : Str) (wp : Option Str), s.length < fuel →
    depthAfter 0 s = some 0 → (s ≠ [] ∨ wp ≠ none) →
    splitLoop sep fuel s [] wp = flat sep 0 none (preOf wp) s := by
  intro fuel
  induction fuel with
  | zero => intro s _ h; omega
  | succ fuel ih =>
    intro s wp hlen hbal hne
    rw [splitLoop_succ]
    have hs : s = s.takeWhile (· ≠ '{') ++ s.dropWhile (· ≠ '{') := List.takeWhile_append_dropWhile.symm
    obtain ⟨hplain, hafter⟩ := balanced_head s 0 hbal
    have hP := headStep_pieces sep (s.takeWhile (· ≠ '{')) wp
    generalize hhead : s.takeWhile (· ≠ '{') = head at *
    cases hd : s.dropWhile (· ≠ '{') with
    | nil =>
      rw [hd, List.append_nil] at hs
      simp only []
      have h2 := headStep_snd_ne_none sep head wp (by
        rcases hne with h | h
        · left; rw [← hs]; exact h
        · right; exact h)
      have hF := flat_head sep [] (Or.inl rfl) (head.length + 1) none (preOf wp) head (by omega) hplain
      rw [List.append_nil] at hF
      rw [hs, hF, hP, glueLast_concat, flat_nil]
      cases h3 : (headStep sep head [] wp).2 with
      | none => exact absurd h3 h2
      | some w => simp [finish]
    | cons c rest =>
      rw [hd] at hafter hs
      have hc : c = '{' := by
        have := List.head?_dropWhile_not (fun x => decide (x ≠ '{')) s
        rw [hd] at this
        simpa using this
      subst hc
      have hrest : depthAfter 1 rest = some 0 := by simpa [depthAfter] using hafter
      obtain ⟨body, tail, rfl, hb1, hb2⟩ := matching_brace rest 0 hrest
      simp only []
      rw [findClosingBrace_matching body tail hb1]
      have htl : tail.length < fuel := by
        have := congrArg List.length hs
        simp only [List.length_append, List.length_cons] at this
        omega
      rw [splitLoop_acc, ih tail _ htl hb2 (Or.inr (by simp))]
      have hF := flat_head sep ('{' :: (body ++ '}' :: tail)) (Or.inr ⟨_, rfl⟩) (head.length + 1) none (preOf wp) head
        (by omega) hplain
      rw [hs, hF, hP, glueLast_concat, flat_group sep none _ body tail hb1]
      simp

/-- `split_tex_string` (unstripped) on non-empty balanced text -/
theorem splitTexRaw_flat (sep : Sep) (s : Str) (hb : depthAfter 0 s = some 0) (hne : s ≠ []) :
    splitTexRaw sep s = flat sep 0 none [] s := by
  unfold splitTexRaw
  exact splitLoop_flat sep (s.length + 1) s none (by omega) hb (Or.inl hne)


/-! ### chunks without a separator match are copied -/

/-- no separator match at brace level 0 inside `x` when `x` is followed by `rest` -/
def NoSep (sep : Sep) (rest : Str) : Nat → Option Char → Str → Prop
  | _, _, [] => True
  | d, prev, c :: r =>
    if c = '{' then NoSep sep rest (d + 1) none r
    else if c = '}' then NoSep sep rest (d - 1) none r
    else if d ≠ 0 then NoSep sep rest d none r
    else sepMatch sep prev (c :: (r ++ rest)) = 0 ∧ NoSep sep rest 0 (some c) r

/-- the look-behind after `x` -/
def prevAfter : Nat → Option Char → Str → Option Char
  | _, prev, [] => prev
  | d, _, c :: r =>
    if c = '{' then prevAfter (d + 1) none r
    else if c = '}' then prevAfter (d - 1) none r
    else if d ≠ 0 then prevAfter d none r
    else prevAfter 0 (some c) r

theorem flat_noSep (sep : Sep) (rest : Str) : ∀ (x : Str) (d : Nat) (prev : Option Char) (cur : Str),
    NoSep sep rest d prev x →
    flat sep d prev cur (x ++ rest) = flat sep (depthSat d x) (prevAfter d prev x) (cur ++ x) rest := by
  intro x
  induction x with
  | nil => intro d prev cur _; simp [depthSat, prevAfter]
  | cons c r ih =>
    intro d prev cur h
    simp only [List.cons_append]
    by_cases h1 : c = '{'
    · subst h1
      simp only [NoSep, if_true] at h
      rw [flat_open, ih _ _ _ h]
      simp [depthSat, prevAfter]
    · by_cases h2 : c = '}'
      · subst h2
        simp only [NoSep, show ¬ ('}' = '{') by decide, if_false, if_true] at h
        rw [flat_close, ih _ _ _ h]
        simp [depthSat, prevAfter]
      · by_cases hd : d = 0
        · subst hd
          simp only [NoSep, if_neg h1, if_neg h2, ne_eq, not_true_eq_false, if_false] at h
          rw [flat_char sep prev cur _ h1 h2 h.1, ih _ _ _ h.2]
          simp [depthSat, prevAfter, h1, h2]
        · simp only [NoSep, if_neg h1, if_neg h2, ne_eq, hd, not_false_eq_true, if_true] at h
          rw [flat_deep sep prev cur _ hd h1 h2, ih _ _ _ h]
          simp [depthSat, prevAfter, h1, h2, hd]


end Pybtex.C02
