/-
`St.report` (the state change of `handle_error` in continue mode) appends to `errs` and to the ghost
`errAt`, and touches nothing else.
-/
import PybtexModel.Model.BibParse

namespace Pybtex.Bib

/-! `St.report` changes `errs` (and the ghost `errAt`) only -/
@[simp] theorem St.report_errs (s : St) (e : Err) : (s.report e).errs = s.errs ++ [e] := rfl
@[simp] theorem St.report_errAt (s : St) (e : Err) : (s.report e).errAt = s.errAt ++ [s.rest] := rfl
@[simp] theorem St.report_rest (s : St) (e : Err) : (s.report e).rest = s.rest := rfl
@[simp] theorem St.report_ln (s : St) (e : Err) : (s.report e).ln = s.ln := rfl
@[simp] theorem St.report_db (s : St) (e : Err) : (s.report e).db = s.db := rfl
@[simp] theorem St.report_macros (s : St) (e : Err) : (s.report e).macros = s.macros := rfl
@[simp] theorem St.report_strict (s : St) (e : Err) : (s.report e).strict = s.strict := rfl
@[simp] theorem St.report_roles (s : St) (e : Err) : (s.report e).roles = s.roles := rfl
@[simp] theorem St.report_unnamed (s : St) (e : Err) : (s.report e).unnamed = s.unnamed := rfl
@[simp] theorem St.report_curKey (s : St) (e : Err) : (s.report e).curKey = s.curKey := rfl
@[simp] theorem St.report_curFields (s : St) (e : Err) : (s.report e).curFields = s.curFields := rfl
@[simp] theorem St.report_curFieldName (s : St) (e : Err) : (s.report e).curFieldName = s.curFieldName := rfl
@[simp] theorem St.report_curValue (s : St) (e : Err) : (s.report e).curValue = s.curValue := rfl

end Pybtex.Bib
