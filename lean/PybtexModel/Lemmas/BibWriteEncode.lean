/-
Lemmas about the concrete LaTeX encoder of the BibTeX writer (`encodeLatex`, `Model/BibWrite.lean`:
what `codecs.encode(text, 'ulatex+utf-8')` does) and about `_encode_with_comments` (C02, round 2).
-/
import PybtexModel.Model.BibWrite
import PybtexModel.Spec.BibWrite

namespace Pybtex.C02
open Pybtex Pybtex.BibWrite

theorem encodeLatexAux_safe (s : Str) (h : Safe s = true) : encodeLatexAux false s = s := by
  induction s with
  | nil => rfl
  | cons c r ih =>
    simp only [Safe, List.all_cons, Bool.and_eq_true] at h
    obtain ⟨hc, hr⟩ := h
    have ihr := ih hr
    simp only [isFive, Bool.not_eq_true', Bool.or_eq_false_iff, decide_eq_false_iff_not] at hc
    obtain ⟨⟨⟨⟨h1, h2⟩, h3⟩, h4⟩, h5⟩ := hc
    simp [encodeLatexAux, h1, h2, h3, h4, h5, ihr]

/-- the encoder never shortens, whatever its state -/
theorem encodeLatexAux_length (b : Bool) (s : Str) : s.length ≤ (encodeLatexAux b s).length := by
  induction s generalizing b with
  | nil => simp [encodeLatexAux]
  | cons c r ih =>
    have h0 := ih false
    have h1 := ih true
    simp only [encodeLatexAux]
    split <;> split <;> (repeat' split) <;> simp [List.length_append] <;> omega

/-- … and lengthens as soon as one of the five characters occurs -/
theorem encodeLatexAux_longer (b : Bool) (s : Str) (h : Safe s = false) :
    s.length < (encodeLatexAux b s).length := by
  induction s generalizing b with
  | nil => simp [Safe] at h
  | cons c r ih =>
    have l0 := encodeLatexAux_length false r
    have l1 := encodeLatexAux_length true r
    by_cases hc : isFive c = true
    · simp only [isFive, Bool.or_eq_true, decide_eq_true_eq] at hc
      simp only [encodeLatexAux]
      rcases hc with (((hc | hc) | hc) | hc) | hc <;> subst hc <;> simp [List.length_append] <;>
        (repeat' split) <;> simp <;> omega
    · have hr : Safe r = false := by
        simp only [Safe, List.all_cons] at h ⊢
        simpa [hc] using h
      have i0 := ih false hr
      have i1 := ih true hr
      simp only [isFive, Bool.or_eq_true, decide_eq_true_eq, not_or] at hc
      obtain ⟨⟨⟨⟨h1, h2⟩, h3⟩, h4⟩, h5⟩ := hc
      simp only [encodeLatexAux, h1, h2, h3, h4, h5, if_false]
      (repeat' split) <;> simp [List.length_append] <;> omega

theorem encodeLatex_eq_iff (s : Str) : encodeLatex s = s ↔ Safe s = true := by
  constructor
  · intro h
    cases hs : Safe s with
    | true => rfl
    | false =>
      have := encodeLatexAux_longer false s hs
      unfold encodeLatex at h
      rw [h] at this
      omega
  · exact encodeLatexAux_safe s

/-! `_encode_with_comments`: `'%'.join(encode(part) for part in text.split('%'))` -/

theorem splitChar_ne_nil (c : Char) (s : Str) : splitChar c s ≠ [] := by
  cases s with
  | nil => simp [splitChar]
  | cons x r =>
    simp only [splitChar]
    split
    · simp
    · split <;> simp

theorem joinWith_splitChar (c : Char) (s : Str) : joinWith [c] (splitChar c s) = s := by
  induction s with
  | nil => simp [splitChar, joinWith]
  | cons x r ih =>
    simp only [splitChar]
    by_cases hx : x = c
    · subst hx
      simp only [if_true]
      cases hsp : splitChar x r with
      | nil => exact absurd hsp (splitChar_ne_nil _ _)
      | cons w ws => rw [hsp] at ih; simp [joinWith] at ih ⊢; exact ih
    · simp only [hx, if_false]
      cases hsp : splitChar c r with
      | nil => exact absurd hsp (splitChar_ne_nil _ _)
      | cons w ws =>
        rw [hsp] at ih
        cases ws with
        | nil => simp [joinWith] at ih ⊢; exact ih
        | cons w2 ws2 => simp [joinWith] at ih ⊢; exact ih

end Pybtex.C02

namespace Pybtex.C02
open Pybtex Pybtex.BibWrite

/-- every piece of `text.split(c)` consists of characters of the text other than `c` -/
theorem splitChar_mem (c : Char) (s : Str) : ∀ p ∈ splitChar c s, ∀ x ∈ p, x ∈ s ∧ x ≠ c := by
  induction s with
  | nil => intro p hp x hx; simp [splitChar] at hp; subst hp; cases hx
  | cons y r ih =>
    intro p hp x hx
    simp only [splitChar] at hp
    by_cases hy : y = c
    · simp only [hy, if_true, List.mem_cons] at hp
      rcases hp with hp | hp
      · subst hp; cases hx
      · have := ih p hp x hx
        exact ⟨List.mem_cons_of_mem _ this.1, this.2⟩
    · simp only [hy, if_false] at hp
      cases hsp : splitChar c r with
      | nil => exact absurd hsp (splitChar_ne_nil _ _)
      | cons w ws =>
        rw [hsp] at hp ih
        simp only [List.mem_cons] at hp
        rcases hp with hp | hp
        · subst hp
          simp only [List.mem_cons] at hx
          rcases hx with hx | hx
          · subst hx; exact ⟨List.mem_cons_self, hy⟩
          · have := ih w List.mem_cons_self x hx
            exact ⟨List.mem_cons_of_mem _ this.1, this.2⟩
        · have := ih p (List.mem_cons_of_mem _ hp) x hx
          exact ⟨List.mem_cons_of_mem _ this.1, this.2⟩

/-- free of `# & _ ~` (a `%` is allowed): the domain on which `_encode_with_comments` is the identity -/
def SafeC (s : Str) : Bool := s.all fun c => !(c = '#' || c = '&' || c = '_' || c = '~')

theorem encodeWithComments_safeC (s : Str) (h : SafeC s = true) :
    encodeWithComments encodeLatex s = s := by
  unfold encodeWithComments
  have hm : (splitChar '%' s).map encodeLatex = splitChar '%' s := by
    conv => rhs; rw [← List.map_id (splitChar '%' s)]
    apply List.map_congr_left
    intro p hp
    refine encodeLatexAux_safe p ?_
    simp only [Safe, List.all_eq_true]
    intro x hx
    obtain ⟨hxs, hxc⟩ := splitChar_mem '%' s p hp x hx
    simp only [SafeC, List.all_eq_true] at h
    have := h x hxs
    simp only [isFive]
    simp only [Bool.not_eq_true', Bool.or_eq_false_iff, decide_eq_false_iff_not] at this ⊢
    obtain ⟨⟨⟨a, b⟩, c'⟩, d⟩ := this
    exact ⟨⟨⟨⟨a, hxc⟩, b⟩, c'⟩, d⟩
  rw [hm, joinWith_splitChar]

end Pybtex.C02
