/-
The text `parse_string` hands to the parser (`stringText`: split into lines, strip each line's
comment, join with `\n`) as ONE left-to-right pass over the source (`preSM`), for every source.
-/
import PybtexModel.Lemmas.BstProgram

namespace Pybtex.Bst
open Pybtex.Scanner

/-- the `\n` that replaces a line break — unless the text ends there (`splitlines` yields no
empty last line) -/
def nlIf (r : Str) : Str := if r = [] then [] else ['\n']

/-- one pass: `b` = inside a string literal, `k` = inside a comment -/
def preSM : Bool → Bool → Str → Str
  | _, _, [] => []
  | _, _, '\r' :: '\n' :: r => nlIf r ++ preSM false false r
  | b, k, c :: r =>
    if isLineSep c then nlIf r ++ preSM false false r
    else if k then preSM b true r
    else if c = '%' ∧ b = false then preSM b true r
    else c :: preSM (if c = '"' then !b else b) false r

theorem preSM_crlf (b k : Bool) (r : Str) :
    preSM b k ('\r' :: '\n' :: r) = nlIf r ++ preSM false false r := by
  simp [preSM]

theorem preSM_cons (b k : Bool) (c : Char) (r : Str) (h : ¬ (c = '\r' ∧ ∃ r', r = '\n' :: r')) :
    preSM b k (c :: r) =
      if isLineSep c then nlIf r ++ preSM false false r
      else if k then preSM b true r
      else if c = '%' ∧ b = false then preSM b true r
      else c :: preSM (if c = '"' then !b else b) false r := by
  exact preSM.eq_3 b k c r (by intro r' h1 h2; exact h ⟨h1, r', h2⟩)

theorem preSM_nonsep (b k : Bool) (c : Char) (r : Str) (h : isLineSep c = false) :
    preSM b k (c :: r) =
      if k then preSM b true r
      else if c = '%' ∧ b = false then preSM b true r
      else c :: preSM (if c = '"' then !b else b) false r := by
  rw [preSM_cons b k c r (by intro ⟨hc, _⟩; subst hc; simp [isLineSep, lineSepCodes] at h)]
  simp [h]

theorem splitLines_eq_nil {s : Str} : splitLines s = [] ↔ s = [] := by
  constructor
  · intro h
    induction s using splitLines.induct with
    | case1 => rfl
    | case2 r ih => simp [splitLines] at h
    | case3 c r hcr hsep ih => rw [splitLines.eq_3 c r hcr, if_pos hsep] at h; cases h
    | case4 c r hcr hsep hnil ih => rw [splitLines.eq_3 c r hcr, if_neg hsep, hnil] at h; cases h
    | case5 c r hcr hsep l ls hls ih => rw [splitLines.eq_3 c r hcr, if_neg hsep, hls] at h; cases h
  · intro h; subst h; rfl

theorem splitLines_crlf (r : Str) : splitLines ('\r' :: '\n' :: r) = [] :: splitLines r := by
  simp [splitLines]

theorem splitLines_cons (c : Char) (r : Str) (h : ¬ (c = '\r' ∧ ∃ r', r = '\n' :: r')) :
    splitLines (c :: r) =
      if isLineSep c then [] :: splitLines r
      else match splitLines r with
        | [] => [[c]]
        | l :: ls => (c :: l) :: ls := by
  exact splitLines.eq_3 c r (by intro r' h1 h2; exact h ⟨h1, r', h2⟩)

def nlS : Str := ['\n']

theorem joinWith_cons_cons (c : Char) (x : Str) (rest : List Str) :
    joinWith nlS ((c :: x) :: rest) = c :: joinWith nlS (x :: rest) := by
  cases rest <;> simp [joinWith]

theorem joinWith_nil_cons (rest : List Str) :
    joinWith nlS ([] :: rest) = (if rest = [] then [] else ['\n']) ++ joinWith nlS rest := by
  cases rest with
  | nil => simp [joinWith]
  | cons y r => simp [joinWith, nlS]

/-- first line processed from state `(b, k)`, the others from the initial state -/
def preL (b k : Bool) (s : Str) : Str :=
  match splitLines s with
  | [] => []
  | l :: ls => joinWith nlS ((if k then [] else stripGo b l) :: ls.map stripComment)

theorem preL_nil (b k : Bool) : preL b k [] = [] := by simp [preL, splitLines]

theorem preL_after_break (r : Str) :
    joinWith nlS ([] :: (splitLines r).map stripComment) = nlIf r ++ preL false false r := by
  rw [joinWith_nil_cons]
  unfold nlIf preL
  cases h : splitLines r with
  | nil => simp [splitLines_eq_nil.1 h, joinWith]
  | cons l ls =>
    have : r ≠ [] := by intro hr; rw [hr] at h; simp [splitLines] at h
    simp [this, stripComment]

theorem stripGo_nil (b : Bool) : stripGo b [] = [] := rfl

theorem preL_eq_preSM : ∀ (s : Str) (b k : Bool), preL b k s = preSM b k s := by
  intro s
  induction s using splitLines.induct with
  | case1 => intro b k; simp [preL_nil, preSM]
  | case2 r ih =>
    intro b k
    rw [preSM_crlf, ← ih false false]
    unfold preL
    rw [splitLines_crlf]
    simp only [stripGo_nil, ite_self, List.map]
    exact preL_after_break r
  | case3 c r hcr hsep ih =>
    intro b k
    have hn : ¬ (c = '\r' ∧ ∃ r', r = '\n' :: r') := by
      intro ⟨h1, r', h2⟩; exact hcr r' h1 h2
    rw [preSM_cons b k c r hn, if_pos hsep, ← ih false false]
    unfold preL
    rw [splitLines_cons c r hn, if_pos hsep]
    simp only [stripGo_nil, ite_self]
    exact preL_after_break r
  | case4 c r hcr hsep hnil ih =>
    intro b k
    have hn : ¬ (c = '\r' ∧ ∃ r', r = '\n' :: r') := by
      intro ⟨h1, r', h2⟩; exact hcr r' h1 h2
    have hsep' : isLineSep c = false := by simpa using hsep
    have hr : r = [] := splitLines_eq_nil.1 hnil
    subst hr
    rw [preSM_nonsep b k c [] hsep']
    unfold preL
    rw [splitLines_cons c [] hn, if_neg hsep, hnil]
    simp only [List.map, joinWith]
    cases k with
    | true => simp [preSM]
    | false =>
      by_cases hc : c = '%' ∧ b = false
      · simp [hc, stripGo, preSM]
      · by_cases hq : c = '"'
        · subst hq; simp [stripGo, preSM]
        · simp [hc, hq, stripGo, preSM]
  | case5 c r hcr hsep l ls hls ih =>
    intro b k
    have hn : ¬ (c = '\r' ∧ ∃ r', r = '\n' :: r') := by
      intro ⟨h1, r', h2⟩; exact hcr r' h1 h2
    have hsep' : isLineSep c = false := by simpa using hsep
    rw [preSM_nonsep b k c r hsep']
    have ihk := ih b true
    have unf : ∀ b' k', preL b' k' r
        = joinWith nlS ((if k' then [] else stripGo b' l) :: ls.map stripComment) := by
      intro b' k'; unfold preL; rw [hls]
    unfold preL
    rw [splitLines_cons c r hn, if_neg hsep, hls]
    simp only []
    cases k with
    | true =>
      simp only [if_true]
      rw [← ih b true, unf]; simp
    | false =>
      simp only [Bool.false_eq_true, if_false]
      by_cases hc : c = '%' ∧ b = false
      · rw [if_pos hc, ← ih b true, unf]
        obtain ⟨h1, h2⟩ := hc
        simp [stripGo, h1, h2]
      · rw [if_neg hc]
        by_cases hq : c = '"'
        · subst hq
          simp only [if_true]
          rw [← ih (!b) false, unf]
          simp [stripGo, joinWith_cons_cons]
        · rw [← ih _ false, unf]
          simp only [stripGo, hc, hq, if_false, Bool.false_eq_true]
          rw [joinWith_cons_cons]

/-- `parse_string`'s preprocessing is the one-pass machine -/
theorem stringText_eq_preSM (s : Str) : stringText s = preSM false false s := by
  rw [← preL_eq_preSM]
  unfold stringText preL
  cases h : splitLines s with
  | nil => simp [joinWith]
  | cons l ls => simp [stripComment, nlS]

end Pybtex.Bst
