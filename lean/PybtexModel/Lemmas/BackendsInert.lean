/-
The LaTeX backend at string level: text without the five characters latexcodec leaves alone is read back by LaTeX as
the text (`Spec.Tex.readText`) -- nothing of it acts as markup.
-/
import PybtexModel.Lemmas.BackendsEncoding

namespace Pybtex
open RT Backends Spec Spec.Tex

namespace Spec.Tex

/-! ### one-step unfoldings of the reader -/

theorem readText_nil : readText [] = some [] := by unfold readText; rfl

theorem readText_plain (c : Char) (r : Str) (h1 : c ≠ '\\') (h2 : c ∉ special) :
    readText (c :: r) = (readText r).map (c :: ·) := by
  conv => lhs; unfold readText
  simp [h1, h2]

theorem readText_sym (x : Char) (r : Str) (h1 : isLetter x = false) (h2 : x ∈ escapedSymbols ∨ x = ' ') :
    readText ('\\' :: x :: r) = (readText r).map (x :: ·) := by
  conv => lhs; unfold readText
  simp [h1, h2]

theorem readText_word (x : Char) (r : Str) (ch : Char) (h1 : isLetter x = true)
    (h2 : textWords.lookup ((x :: r).takeWhile isLetter) = some ch) :
    readText ('\\' :: x :: r) = (readText (((x :: r).dropWhile isLetter).dropWhile (· == ' '))).map (ch :: ·) := by
  conv => lhs; unfold readText
  simp only [if_true, h1, h2]

/-- what an entry of the regenerated ASCII table must look like for the reader: a control symbol for an escapable
character, or a control word of `textWords` (which puts the encoder in space-eating mode) -/
def entryReadable (p : Char × Str × Bool) : Bool :=
  match p.2.1 with
  | '\\' :: name =>
    if p.2.2 then !name.isEmpty && name.all isLetter && textWords.lookup name == some p.1
    else name == [p.1] && escapedSymbols.contains p.1
  | _ => false

/-- the table makes every special character harmless except the five of `passThrough` -/
def asciiReadable (tbl : List (Char × Str × Bool)) : Bool :=
  tbl.all entryReadable && special.all fun c => passThrough.contains c || (tbl.lookup c).isSome

theorem escaped_not_letter : ∀ c ∈ escapedSymbols, isLetter c = false := by decide

theorem takeWhile_append_of {p : Char → Bool} (a b : Str) (ha : a.all p = true)
    (hb : ∀ c r, b = c :: r → p c = false) : (a ++ b).takeWhile p = a ∧ (a ++ b).dropWhile p = b := by
  induction a with
  | nil =>
    cases b with
    | nil => exact ⟨rfl, rfl⟩
    | cons c r => simp [List.takeWhile, List.dropWhile, hb c r rfl]
  | cons x a ih =>
    simp only [List.all_cons, Bool.and_eq_true] at ha
    have := ih ha.2
    simp [List.takeWhile, List.dropWhile, ha.1, this.1, this.2]

/-! ### the optional argument of `\\bibitem` -/

/-- brace-free text inside braces is copied, whatever brackets it contains -/
theorem optArgScan_inner (w r : Str) (hw : braceFree w = true) (d : Nat) :
    optArgScan (d + 1) (w ++ r) = (optArgScan (d + 1) r).map fun p => (w ++ p.1, p.2) := by
  induction w with
  | nil => simp only [List.nil_append]; cases optArgScan (d + 1) r <;> rfl
  | cons c w ih =>
    simp only [braceFree, List.all_cons, Bool.and_eq_true, bne_iff_ne] at hw
    obtain ⟨⟨h1, h2⟩, h3⟩ := hw
    simp only [List.cons_append, optArgScan, h1, h2, if_false, Nat.add_one_ne_zero, and_false]
    rw [ih (by simpa [braceFree] using h3)]
    cases optArgScan (d + 1) r <;> rfl

/-- brace-free text without a closing bracket is copied outside braces, too -/
theorem optArgScan_outer (w r : Str) (hw : braceFree w = true) (hb : w.contains ']' = false) :
    optArgScan 0 (w ++ r) = (optArgScan 0 r).map fun p => (w ++ p.1, p.2) := by
  induction w with
  | nil => simp only [List.nil_append]; cases optArgScan 0 r <;> rfl
  | cons c w ih =>
    simp only [braceFree, List.all_cons, Bool.and_eq_true, bne_iff_ne] at hw
    obtain ⟨⟨h1, h2⟩, h3⟩ := hw
    have hc : c ≠ ']' ∧ w.contains ']' = false := by
      simp only [List.contains_cons, Bool.or_eq_false_iff, beq_eq_false_iff_ne] at hb
      exact ⟨fun h => hb.1 h.symm, hb.2⟩
    simp only [List.cons_append, optArgScan, h1, h2, hc.1, if_false, false_and]
    rw [ih (by simpa [braceFree] using h3) hc.2]
    cases optArgScan 0 r <;> rfl

theorem stripGroup_braceFree (w : Str) (hw : braceFree w = true) : stripGroup w = w := by
  cases w with
  | nil => rfl
  | cons c w =>
    simp only [braceFree, List.all_cons, Bool.and_eq_true, bne_iff_ne] at hw
    unfold stripGroup
    split
    · rename_i r heq
      simp only [List.cons.injEq] at heq
      exact absurd heq.1 hw.1.1
    · rfl

theorem stripGroup_group (w : Str) (hw : braceFree w = true) : stripGroup ('{' :: w ++ ['}']) = w := by
  have h := splitAtClose_prefix w ['}'] hw 0
  simp only [splitAtClose, show ('}' : Char) ≠ '{' by decide, if_false, if_true, Option.map_some, List.append_nil] at h
  simp only [stripGroup, List.cons_append, h]

end Spec.Tex

namespace Backends.Latex

/-- **the label is what TeX reads as the optional argument of `\\bibitem`**, for a label without braces: one that contains
`]` is put in braces (proposed fix C09-3), and TeX removes them again -/
theorem optArg_bibitemLabel (label rest : Str) (hw : braceFree label = true) :
    optArg (bibitemLabel label ++ ']' :: rest) = some (label, rest) := by
  unfold optArg bibitemLabel
  by_cases hb : label.contains ']' = true
  · simp only [hb, if_true]
    have e : ['{'] ++ label ++ ['}'] ++ ']' :: rest = '{' :: (label ++ ('}' :: ']' :: rest)) := by simp
    rw [e]
    simp only [optArgScan, show ('{' : Char) ≠ ']' by decide, false_and, if_false, if_true]
    rw [optArgScan_inner label _ hw 0]
    simp only [optArgScan, show ('}' : Char) ≠ ']' by decide, show ('}' : Char) ≠ '{' by decide, false_and, if_false,
      if_true, and_self, Option.map_some, Nat.zero_add]
    have := stripGroup_group label hw
    simp only [List.cons_append] at this
    simp [this]
  · have hb' : label.contains ']' = false := by simpa using hb
    simp only [hb', Bool.false_eq_true, if_false]
    rw [optArgScan_outer label _ hw hb']
    simp only [optArgScan, and_self, if_true, Option.map_some, List.append_nil]
    rw [stripGroup_braceFree label hw]

/-- in space-eating mode the encoder never starts with a letter: it starts with the separating blank or a control space -/
theorem encodeGo_true_head (s : Str) : ∀ c r, encodeGo true s = c :: r → c = ' ' ∨ c = '\\' := by
  intro c r h
  cases s with
  | nil => simp [encodeGo] at h
  | cons x s =>
    simp only [encodeGo, spaceBytes, if_true] at h
    split at h
    · simp only [List.cons_append, List.cons.injEq] at h; exact Or.inr h.1.symm
    · simp only [List.cons_append, List.cons.injEq] at h; exact Or.inl h.1.symm

/-- **the reader undoes the encoder** on text without the five pass-through characters, in both states of the encoder
(`st` = just behind a control word: the blanks the reader skips there are the one the encoder inserted) -/
theorem readText_encodeGo (hT : asciiReadable Gen.latexAscii = true) (s : Str)
    (hs : ∀ c ∈ s, c ∉ passThrough) :
    readText (encodeGo false s) = some s ∧ readText ((encodeGo true s).dropWhile (· == ' ')) = some s := by
  simp only [asciiReadable, Bool.and_eq_true, List.all_eq_true] at hT
  induction s with
  | nil => exact ⟨by simp [encodeGo, readText_nil], by simp [encodeGo, readText_nil]⟩
  | cons c s ih =>
    have ihs := ih fun x hx => hs x (List.mem_cons_of_mem _ hx)
    have hc := hs c (by simp)
    -- reading what is emitted for `c` (not in space-eating mode), whatever follows in the state it leaves
    have key : readText ((encodeChar c).1 ++ encodeGo (encodeChar c).2 s) = some (c :: s) ∧
        (((encodeChar c).1 = [' '] ∧ c = ' ') ∨ ∃ x e', (encodeChar c).1 = x :: e' ∧ x ≠ ' ') := by
      unfold encodeChar
      cases hl : Gen.latexAscii.lookup c with
      | none =>
        -- passed through: `c` is not special
        have hnsp : c ∉ special := by
          intro hsp
          have := hT.2 c hsp
          simp only [Bool.or_eq_true, List.contains_eq_mem, decide_eq_true_eq, hl, Option.isSome_none,
            Bool.false_eq_true, or_false] at this
          exact hc this
        have hne : c ≠ '\\' := fun h => hnsp (by rw [h]; decide)
        refine ⟨?_, ?_⟩
        · simp only [List.cons_append, List.nil_append]
          rw [readText_plain c _ hne hnsp, ihs.1]; rfl
        · by_cases hb : c = ' '
          · exact Or.inl ⟨by rw [hb], hb⟩
          · exact Or.inr ⟨c, [], rfl, hb⟩
      | some e =>
        have hr := hT.1 (c, e) (lookup_mem hl)
        obtain ⟨out, eats⟩ := e
        simp only [entryReadable] at hr
        split at hr
        · rename_i _ name
          refine ⟨?_, Or.inr ⟨'\\', name, rfl, by decide⟩⟩
          cases eats with
          | false =>
            simp only [Bool.false_eq_true, if_false, Bool.and_eq_true, beq_iff_eq, List.contains_eq_mem,
              decide_eq_true_eq] at hr
            rw [hr.1]
            simp only [List.cons_append, List.nil_append]
            rw [readText_sym c _ (escaped_not_letter c hr.2) (Or.inl hr.2), ihs.1]; rfl
          | true =>
            simp only [if_true, Bool.and_eq_true, Bool.not_eq_true', List.isEmpty_eq_false_iff, beq_iff_eq] at hr
            obtain ⟨⟨hne, hall⟩, hw⟩ := hr
            cases name with
            | nil => exact absurd rfl hne
            | cons x name' =>
              have hx : isLetter x = true := by
                simp only [List.all_cons, Bool.and_eq_true] at hall; exact hall.1
              simp only [List.cons_append]
              have hsplit := takeWhile_append_of (p := isLetter) (x :: name') (encodeGo true s) hall (by
                intro y r hy
                rcases encodeGo_true_head s y r hy with h | h <;> (rw [h]; decide))
              simp only [List.cons_append] at hsplit
              rw [readText_word x _ c hx (by rw [hsplit.1]; exact hw), hsplit.2, ihs.2]; rfl
        · cases hr
    refine ⟨?_, ?_⟩
    · simp only [encodeGo, spaceBytes, Bool.false_eq_true, if_false]
      exact key.1
    · have h1 : ((' ' : Char) == ' ') = true := by decide
      have h2 : ('\\' == ' ') = false := by decide
      have hk := key.1
      simp only [encodeGo, spaceBytes, if_true]
      rcases key.2 with ⟨h, hcb⟩ | ⟨x, e', h, hx⟩
      · -- a blank of the text behind a control word: the control space
        rw [h] at hk ⊢
        simp only [List.cons_append, List.nil_append, List.dropWhile, h2] at hk ⊢
        rw [readText_sym ' ' _ (by decide) (Or.inr rfl)]
        rw [readText_plain ' ' _ (by decide) (by decide)] at hk
        rw [hcb] at hk ⊢
        exact hk
      · -- anything else: the encoder puts a blank in front, the reader skips exactly that one
        rw [h] at hk ⊢
        have h3 : (x == ' ') = false := by simpa using hx
        split
        · rename_i b hb
          simp only [List.cons.injEq] at hb
          exact absurd hb.1 hx
        · simp only [List.cons_append, List.dropWhile, h1, h3] at hk ⊢
          exact hk

end Backends.Latex
end Pybtex
