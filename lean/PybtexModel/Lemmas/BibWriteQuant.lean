/-
C02 helper lemmas, part 7: the domain of the stated quantifier (`WFDbQ`) against the claimed
domains (`WFDb`, `WFDbTree`): a database of the quantifier's domain that shows none of the four
recorded restrictions (a role other than author / editor, an empty role, YAML: a field called
`type`, BibTeX: one of `# % & _ ~`) lies in the claimed domain of the format.
-/
import PybtexModel.Lemmas.BibWriteChain

namespace Pybtex.C02
open Pybtex Pybtex.Spec Pybtex.Bib Pybtex.BibWrite Pybtex.BibSpec

/-! ### YAML / BibTeXML -/

theorem rolesOkQ_tree : ∀ (rs : List (Str × List Person)) (seen : List Str),
    rolesOkQ false seen rs = true → (∀ r ∈ rs, isPersonField r.1 = true ∧ r.2 ≠ []) →
    rolesOkT seen rs = true := by
  intro rs
  induction rs with
  | nil => intro _ _ _; rfl
  | cons r rs ih =>
    intro seen h hr
    simp only [rolesOkQ, Bool.and_eq_true, List.all_eq_true] at h
    obtain ⟨⟨⟨⟨⟨_, _⟩, _⟩, h4⟩, h5⟩, h6⟩ := h
    obtain ⟨p1, p2⟩ := hr r (by simp)
    simp only [rolesOkT, Bool.and_eq_true, List.all_eq_true, p1, h4, true_and,
      ih _ h6 (fun q hq => hr q (by simp [hq])), and_true]
    refine ⟨by simpa using p2, fun p hp => ?_⟩
    have := h5 p hp
    simp only [personOkQ, Bool.and_eq_true] at this
    exact this.1

theorem fieldsOkQ_tree (y : Bool) : ∀ (fs : List (Str × Str)) (seen seen' : List Str),
    fieldsOkQ false seen fs = true → (∀ x ∈ seen', x ∈ seen) →
    (y = true → ∀ f ∈ fs, isTypeKey f.1 = false) → fieldsOkT y seen' fs = true := by
  intro fs
  induction fs with
  | nil => intro _ _ _ _ _; rfl
  | cons f fs ih =>
    intro seen seen' h hs ht
    simp only [fieldsOkQ, Bool.and_eq_true, Bool.not_eq_true'] at h
    obtain ⟨⟨⟨⟨_, h2⟩, h3⟩, h4⟩, h5⟩ := h
    have h4' : lowerU f.1 ∉ seen := by simpa using h4
    have hfresh : seen'.contains (lowerU f.1) = false := by
      simpa using fun hc => h4' (hs _ hc)
    have hty : (y && lower f.1 == "type".toList) = false := by
      cases y with
      | false => rfl
      | true => simpa [isTypeKey] using ht rfl f (by simp)
    simp only [fieldsOkT, Bool.and_eq_true, Bool.not_eq_true', h2, h3, hfresh, hty, true_and]
    refine ih _ _ h5 ?_ (fun hy g hg => ht hy g (by simp [hg]))
    intro x hx
    rcases List.mem_cons.1 hx with rfl | hx
    · exact List.mem_cons_self
    · exact List.mem_cons_of_mem _ (hs x hx)

theorem entriesOkQ_tree (y : Bool) : ∀ (es : List Entry) (keys : List Str),
    entriesOkQ false keys es = true →
    (∀ e ∈ es, (∀ r ∈ e.persons, isPersonField r.1 = true ∧ r.2 ≠ []) ∧
               (y = true → ∀ f ∈ e.fields, isTypeKey f.1 = false)) →
    entriesOkT y keys es = true := by
  intro es
  induction es with
  | nil => intro _ _ _; rfl
  | cons e es ih =>
    intro keys h hf
    simp only [entriesOkQ, Bool.and_eq_true] at h
    obtain ⟨h1, h2⟩ := h
    simp only [entryOkQ, Bool.and_eq_true] at h1
    obtain ⟨⟨⟨⟨⟨⟨a1, a2⟩, a3⟩, _⟩, a5⟩, a6⟩, a7⟩ := h1
    obtain ⟨f1, f2⟩ := hf e (by simp)
    simp only [entriesOkT, Bool.and_eq_true, ih _ h2 (fun x hx => hf x (by simp [hx])), and_true]
    simp only [entryOkT, Bool.and_eq_true, a1, a2, a3, a5, rolesOkQ_tree _ _ a6 f1,
      fieldsOkQ_tree y _ _ [] a7 (by simp) f2, and_true]

/-! ### BibTeX -/

theorem valueOkW_of_Q {v : Str} (h : valueOkQ v = true) (hs : Safe v = true) : valueOkW v = true := by
  simp only [valueOkQ, Bool.and_eq_true] at h
  simp only [valueOkW, Bool.and_eq_true, h.1, h.2, hs, and_self]

theorem typeKey_not_role : ∀ w ∈ Gen.personRoles.map lower, w ≠ "type".toList := by decide +kernel

theorem rolesOkQ_W : ∀ (rs : List (Str × List Person)) (seen : List Str),
    rolesOkQ true seen rs = true →
    (∀ r ∈ rs, isPersonField r.1 = true ∧ r.2 ≠ [] ∧ Safe (formatNames r.2) = true) →
    rolesOkW seen rs = true := by
  intro rs
  induction rs with
  | nil => intro _ _ _; rfl
  | cons r rs ih =>
    intro seen h hr
    simp only [rolesOkQ, Bool.and_eq_true, List.all_eq_true, Bool.not_eq_true', Bool.true_and,
      Bool.not_true, Bool.false_or, Bool.or_eq_true, decide_eq_true_eq] at h
    obtain ⟨⟨⟨⟨⟨⟨n1, n2⟩, _⟩, _⟩, h4⟩, h5⟩, h6⟩ := h
    obtain ⟨p1, p2, p3⟩ := hr r (by simp)
    have hl : lowerU r.1 = lower r.1 := lowerU_ascii (isAsciiStr_of_isName n1)
    rw [hl] at h4 h6
    have hv : valueOkW (formatNames r.2) = true := by
      rcases n2 with n2 | n2
      · exact absurd n2 p2
      · exact valueOkW_of_Q n2 p3
    simp only [rolesOkW, Bool.and_eq_true, List.all_eq_true, n1, p1, h4, hv, true_and,
      ih _ h6 (fun q hq => hr q (by simp [hq])), and_true]
    refine ⟨by simpa using p2, fun p hp => ?_⟩
    have := h5 p hp
    simpa only [personOkQ, personOkW, Bool.not_true, Bool.false_or] using this

theorem fieldsOkQ_W : ∀ (fs : List (Str × Str)) (seen seen' : List Str),
    fieldsOkQ true seen fs = true → (∀ x ∈ seen', x ∈ seen) → (∀ f ∈ fs, Safe f.2 = true) →
    fieldsOkW seen' fs = true := by
  intro fs
  induction fs with
  | nil => intro _ _ _ _ _; rfl
  | cons f fs ih =>
    intro seen seen' h hs hsafe
    simp only [fieldsOkQ, Bool.and_eq_true, Bool.not_eq_true', Bool.not_true, Bool.false_or] at h
    obtain ⟨⟨⟨⟨⟨n1, n2⟩, h2⟩, _⟩, h4⟩, h5⟩ := h
    have hl : lowerU f.1 = lower f.1 := lowerU_ascii (isAsciiStr_of_isName n1)
    rw [hl] at h4 h5
    have h4' : lower f.1 ∉ seen := by simpa using h4
    have hfresh : seen'.contains (lower f.1) = false := by
      simpa using fun hc => h4' (hs _ hc)
    simp only [fieldsOkW, Bool.and_eq_true, Bool.not_eq_true', n1, h2, hfresh,
      valueOkW_of_Q n2 (hsafe f (by simp)), true_and]
    refine ih _ _ h5 ?_ (fun g hg => hsafe g (by simp [hg]))
    intro x hx
    rcases List.mem_cons.1 hx with rfl | hx
    · exact List.mem_cons_self
    · exact List.mem_cons_of_mem _ (hs x hx)

theorem entriesOkQ_W : ∀ (es : List Entry) (keys : List Str),
    entriesOkQ true keys es = true →
    (∀ e ∈ es, (∀ r ∈ e.persons, isPersonField r.1 = true ∧ r.2 ≠ [] ∧ Safe (formatNames r.2) = true) ∧
               (∀ f ∈ e.fields, Safe f.2 = true)) →
    entriesOkW keys es = true := by
  intro es
  induction es with
  | nil => intro _ _ _; rfl
  | cons e es ih =>
    intro keys h hf
    simp only [entriesOkQ, Bool.and_eq_true] at h
    obtain ⟨h1, h2⟩ := h
    simp only [entryOkQ, Bool.and_eq_true, Bool.not_true, Bool.false_or, beq_iff_eq] at h1
    obtain ⟨⟨⟨⟨⟨⟨a1, _⟩, _⟩, ⟨⟨⟨b1, b2⟩, b3⟩, b4⟩⟩, a5⟩, a6⟩, a7⟩ := h1
    obtain ⟨f1, f2⟩ := hf e (by simp)
    have hlk : lowerU e.key = lower e.key := lowerU_ascii b4
    have hlt : lowerU e.origType = lower e.origType := lowerU_ascii (isAsciiStr_of_isName b1)
    rw [hlk] at a5 h2
    simp only [entriesOkW, Bool.and_eq_true, ih _ h2 (fun x hx => hf x (by simp [hx])), and_true]
    have b2' : ¬ lower e.origType ∈ reserved := by simpa using b2
    have a5' : ¬ lower e.key ∈ keys := by simpa using a5
    simp [entryOkW, b1, b2', b3, b4, a5', rolesOkQ_W _ _ a6 f1, fieldsOkQ_W _ _ [] a7 (by simp) f2, a1, hlt]

/-! ### the claimed domain = the quantifier's domain minus the four restrictions -/

/-- none of the recorded restrictions that concern the format `f` applies to `d` -/
def noFinding (f : Fmt) (d : BibData) : Bool :=
  !hasOtherRole d && !hasEmptyRole d &&
  (match f with
   | .yaml => !hasTypeField d
   | .bibtex => !hasFive d
   | .bibtexml => true)

theorem roles_of_noFinding {d : BibData} (h1 : hasOtherRole d = false) (h2 : hasEmptyRole d = false) :
    ∀ e ∈ d.entries, ∀ r ∈ e.persons, isPersonField r.1 = true ∧ r.2 ≠ [] := by
  intro e he r hr
  refine ⟨?_, ?_⟩
  · cases hp : isPersonField r.1 with
    | true => rfl
    | false =>
      exfalso
      have : hasOtherRole d = true := by
        simp only [hasOtherRole, List.any_eq_true]
        exact ⟨e, he, r, hr, by simp [hp]⟩
      rw [h1] at this; cases this
  · intro hp
    have : hasEmptyRole d = true := by
      simp only [hasEmptyRole, List.any_eq_true]
      exact ⟨e, he, r, hr, by simp [hp]⟩
    rw [h2] at this; cases this

theorem inDomain_of_Q {f : Fmt} {d : BibData} (hq : WFDbQ f d = true) (hn : noFinding f d = true) :
    inDomain f d = true := by
  simp only [noFinding, Bool.and_eq_true, Bool.not_eq_true'] at hn
  obtain ⟨⟨n1, n2⟩, n3⟩ := hn
  have hroles := roles_of_noFinding n1 n2
  cases f with
  | yaml =>
    simp only [Bool.not_eq_true'] at n3
    refine entriesOkQ_tree true _ _ hq (fun e he => ⟨hroles e he, fun _ f hf => ?_⟩)
    cases hp : isTypeKey f.1 with
    | false => rfl
    | true =>
      exfalso
      have : hasTypeField d = true := by
        simp only [hasTypeField, List.any_eq_true]
        exact ⟨e, he, f, hf, hp⟩
      rw [n3] at this; cases this
  | bibtexml =>
    exact entriesOkQ_tree false _ _ hq (fun e he => ⟨hroles e he, fun hy => by cases hy⟩)
  | bibtex =>
    simp only [Bool.not_eq_true'] at n3
    have five : ∀ {b : Bool}, (hasFive d = true → False) → (b = false → hasFive d = true) → b = true := by
      intro b h1 h2; cases b with
      | true => rfl
      | false => exact (h1 (h2 rfl)).elim
    have hno : hasFive d = true → False := fun h => by rw [n3] at h; cases h
    simp only [WFDbQ, Bool.and_eq_true, Bool.or_eq_true, decide_eq_true_eq] at hq
    simp only [inDomain, WFDb, Bool.and_eq_true, Bool.or_eq_true, decide_eq_true_eq]
    refine ⟨entriesOkQ_W _ _ hq.1 (fun e he => ⟨fun r hr => ?_, fun f hf => ?_⟩), ?_⟩
    · refine ⟨(hroles e he r hr).1, (hroles e he r hr).2, five hno (fun hb => ?_)⟩
      simp only [hasFive, Bool.or_eq_true, List.any_eq_true]
      exact Or.inl ⟨e, he, Or.inr ⟨r, hr, by simp [hb]⟩⟩
    · refine five hno (fun hb => ?_)
      simp only [hasFive, Bool.or_eq_true, List.any_eq_true]
      exact Or.inl ⟨e, he, Or.inl ⟨f, hf, by simp [hb]⟩⟩
    · rcases hq.2 with h | h
      · exact Or.inl h
      · refine Or.inr (valueOkW_of_Q h (five hno (fun hb => ?_)))
        simp only [hasFive, Bool.or_eq_true]
        exact Or.inr (by simp [hb])

/-! ### the converse: the claimed domain lies in the quantifier's domain and shows none of the four -/

theorem isTypeKey_of_personField {n : Str} (h : isPersonField n = true) : isTypeKey n = false := by
  simp only [isPersonField, isPersonFieldOf, List.contains_eq_mem, decide_eq_true_eq] at h
  cases ht : isTypeKey n with
  | false => rfl
  | true =>
    simp only [isTypeKey, beq_iff_eq] at ht
    exact absurd ht (typeKey_not_role _ h)

theorem rolesOkT_facts : ∀ (rs : List (Str × List Person)) (seen : List Str), rolesOkT seen rs = true →
    ∀ r ∈ rs, isPersonField r.1 = true ∧ r.2 ≠ [] := by
  intro rs
  induction rs with
  | nil => intro _ _ r hr; cases hr
  | cons x rs ih =>
    intro seen h r hr
    simp only [rolesOkT, Bool.and_eq_true, decide_eq_true_eq] at h
    rcases List.mem_cons.1 hr with rfl | hr
    · exact ⟨h.1.1.1.1, h.1.1.2⟩
    · exact ih _ h.2 r hr

theorem rolesOkT_Q : ∀ (rs : List (Str × List Person)) (seen : List Str), rolesOkT seen rs = true →
    rolesOkQ false seen rs = true := by
  intro rs
  induction rs with
  | nil => intro _ _; rfl
  | cons r rs ih =>
    intro seen h
    simp only [rolesOkT, Bool.and_eq_true, List.all_eq_true, decide_eq_true_eq] at h
    obtain ⟨⟨⟨⟨h1, h2⟩, _⟩, h4⟩, h5⟩ := h
    simp only [rolesOkQ, Bool.not_false, Bool.true_or, Bool.true_and, Bool.and_eq_true, List.all_eq_true,
      lowerDomain_ascii (isAsciiStr_of_personField h1), isTypeKey_of_personField h1, h2, ih _ h5,
      Bool.not_false, and_true, true_and]
    intro p hp
    simp [personOkQ, h4 p hp]

theorem fieldsOkT_Q (y : Bool) : ∀ (fs : List (Str × Str)) (seenT seenQ : List Str),
    fieldsOkT y seenT fs = true → (∀ x ∈ seenQ, x ∈ seenT ∨ isPersonField x = true) →
    fieldsOkQ false seenQ fs = true := by
  intro fs
  induction fs with
  | nil => intro _ _ _ _; rfl
  | cons f fs ih =>
    intro seenT seenQ h hs
    simp only [fieldsOkT, Bool.and_eq_true, Bool.not_eq_true'] at h
    obtain ⟨⟨⟨⟨h1, _⟩, h3⟩, h4⟩, h5⟩ := h
    have h4' : lowerU f.1 ∉ seenT := by simpa using h4
    have hfresh : seenQ.contains (lowerU f.1) = false := by
      have : lowerU f.1 ∉ seenQ := by
        intro hc
        rcases hs _ hc with hc | hc
        · exact h4' hc
        · rw [isPersonField_lowerU, h1] at hc; cases hc
      simpa using this
    simp only [fieldsOkQ, Bool.not_false, Bool.true_or, Bool.true_and, Bool.and_eq_true, Bool.not_eq_true', h1,
      h3, hfresh, true_and]
    refine ih _ _ h5 ?_
    intro x hx
    rcases List.mem_cons.1 hx with rfl | hx
    · exact Or.inl List.mem_cons_self
    · rcases hs x hx with hx | hx
      · exact Or.inl (List.mem_cons_of_mem _ hx)
      · exact Or.inr hx

theorem fieldsOkT_noType : ∀ (fs : List (Str × Str)) (seen : List Str), fieldsOkT true seen fs = true →
    ∀ f ∈ fs, isTypeKey f.1 = false := by
  intro fs
  induction fs with
  | nil => intro _ _ f hf; cases hf
  | cons x fs ih =>
    intro seen h f hf
    simp only [fieldsOkT, Bool.and_eq_true, Bool.not_eq_true', Bool.true_and] at h
    rcases List.mem_cons.1 hf with rfl | hf
    · exact h.1.1.1.2
    · exact ih _ h.2 f hf

theorem entryOkT_Q {y : Bool} {keys : List Str} {e : Entry} (h : entryOkT y keys e = true) :
    entryOkQ false keys e = true := by
  simp only [entryOkT, Bool.and_eq_true] at h
  obtain ⟨⟨⟨⟨⟨a1, a2⟩, a3⟩, a4⟩, a5⟩, a6⟩ := h
  have hr := rolesOkT_facts _ _ a5
  simp only [entryOkQ, Bool.not_false, Bool.true_or, Bool.and_eq_true, a1, a2, a3, a4, rolesOkT_Q _ _ a5,
    true_and, and_true]
  refine fieldsOkT_Q y _ [] _ a6 ?_
  intro x hx
  obtain ⟨r, hr', rfl⟩ := List.mem_map.1 hx
  right
  rw [isPersonField_lowerU]; exact (hr r hr').1

theorem entriesOkT_Q {y : Bool} : ∀ (es : List Entry) (keys : List Str), entriesOkT y keys es = true →
    entriesOkQ false keys es = true ∧
    ∀ e ∈ es, (∀ r ∈ e.persons, isPersonField r.1 = true ∧ r.2 ≠ []) ∧
              (y = true → ∀ f ∈ e.fields, isTypeKey f.1 = false) := by
  intro es
  induction es with
  | nil => intro _ _; exact ⟨rfl, fun e he => by cases he⟩
  | cons e es ih =>
    intro keys h
    simp only [entriesOkT, Bool.and_eq_true] at h
    obtain ⟨i1, i2⟩ := ih _ h.2
    refine ⟨by simp only [entriesOkQ, Bool.and_eq_true, entryOkT_Q h.1, i1, and_self], ?_⟩
    intro x hx
    rcases List.mem_cons.1 hx with rfl | hx
    · have he := h.1
      simp only [entryOkT, Bool.and_eq_true] at he
      refine ⟨rolesOkT_facts _ _ he.1.2, fun hy => ?_⟩
      subst hy
      exact fieldsOkT_noType _ _ he.2
    · exact i2 x hx

theorem valueOkW_parts {v : Str} (h : valueOkW v = true) : valueOkQ v = true ∧ Safe v = true := by
  simp only [valueOkW, Bool.and_eq_true] at h
  exact ⟨by simp only [valueOkQ, Bool.and_eq_true, h.1.1, h.1.2, and_self], h.2⟩

theorem rolesOkW_Q : ∀ (rs : List (Str × List Person)) (seen : List Str), rolesOkW seen rs = true →
    rolesOkQ true seen rs = true ∧
    ∀ r ∈ rs, isPersonField r.1 = true ∧ r.2 ≠ [] ∧ Safe (formatNames r.2) = true := by
  intro rs
  induction rs with
  | nil => intro _ _; exact ⟨rfl, fun r hr => by cases hr⟩
  | cons r rs ih =>
    intro seen h
    simp only [rolesOkW, Bool.and_eq_true, List.all_eq_true, decide_eq_true_eq] at h
    obtain ⟨⟨⟨⟨⟨⟨a1, a2⟩, a3⟩, a4⟩, a5⟩, a6⟩, a7⟩ := h
    have hl : lowerU r.1 = lower r.1 := lowerU_ascii (isAsciiStr_of_isName a1)
    obtain ⟨i1, i2⟩ := ih _ a7
    obtain ⟨v1, v2⟩ := valueOkW_parts a6
    refine ⟨?_, ?_⟩
    · simp only [rolesOkQ, hl, Bool.not_true, Bool.false_or, Bool.and_eq_true, List.all_eq_true, a1, v1,
        Bool.or_true, lowerDomain_ascii (isAsciiStr_of_isName a1), isTypeKey_of_personField a2, a3, i1,
        Bool.not_false, and_true, true_and]
      intro p hp
      simpa only [personOkQ, personOkW, Bool.not_true, Bool.false_or] using a5 p hp
    · intro x hx
      rcases List.mem_cons.1 hx with rfl | hx
      · exact ⟨a2, a4, v2⟩
      · exact i2 x hx

theorem fieldsOkW_Q : ∀ (fs : List (Str × Str)) (seenW seenQ : List Str),
    fieldsOkW seenW fs = true → (∀ x ∈ seenQ, x ∈ seenW ∨ isPersonField x = true) →
    fieldsOkQ true seenQ fs = true ∧ ∀ f ∈ fs, Safe f.2 = true := by
  intro fs
  induction fs with
  | nil => intro _ _ _ _; exact ⟨rfl, fun f hf => by cases hf⟩
  | cons f fs ih =>
    intro seenW seenQ h hs
    simp only [fieldsOkW, Bool.and_eq_true, Bool.not_eq_true'] at h
    obtain ⟨⟨⟨⟨a1, a2⟩, a3⟩, a4⟩, a5⟩ := h
    have ha := isAsciiStr_of_isName a1
    have hl : lowerU f.1 = lower f.1 := lowerU_ascii ha
    have a3' : lower f.1 ∉ seenW := by simpa using a3
    obtain ⟨v1, v2⟩ := valueOkW_parts a4
    have hfresh : seenQ.contains (lower f.1) = false := by
      have : lower f.1 ∉ seenQ := by
        intro hc
        rcases hs _ hc with hc | hc
        · exact a3' hc
        · rw [← hl, isPersonField_lowerU, a2] at hc; cases hc
      simpa using this
    obtain ⟨i1, i2⟩ := ih (lower f.1 :: seenW) (lower f.1 :: seenQ) a5 (by
      intro x hx
      rcases List.mem_cons.1 hx with rfl | hx
      · exact Or.inl List.mem_cons_self
      · rcases hs x hx with hx | hx
        · exact Or.inl (List.mem_cons_of_mem _ hx)
        · exact Or.inr hx)
    refine ⟨?_, ?_⟩
    · simp only [fieldsOkQ, hl, Bool.not_true, Bool.false_or, Bool.and_eq_true, Bool.not_eq_true', a1, v1, a2,
        lowerDomain_ascii ha, hfresh, i1, and_self]
    · intro x hx
      rcases List.mem_cons.1 hx with rfl | hx
      · exact v2
      · exact i2 x hx

theorem entriesOkW_Q : ∀ (es : List Entry) (keys : List Str), entriesOkW keys es = true →
    entriesOkQ true keys es = true ∧
    ∀ e ∈ es, (∀ r ∈ e.persons, isPersonField r.1 = true ∧ r.2 ≠ [] ∧ Safe (formatNames r.2) = true) ∧
              (∀ f ∈ e.fields, Safe f.2 = true) := by
  intro es
  induction es with
  | nil => intro _ _; exact ⟨rfl, fun e he => by cases he⟩
  | cons e es ih =>
    intro keys h
    simp only [entriesOkW, Bool.and_eq_true] at h
    obtain ⟨h1, h2⟩ := h
    simp only [entryOkW, Bool.and_eq_true, beq_iff_eq] at h1
    obtain ⟨⟨⟨⟨⟨⟨⟨a1, a2⟩, a3⟩, a4⟩, ak⟩, a5⟩, a6⟩, a7⟩ := h1
    have hat := isAsciiStr_of_isName a1
    have hlk : lowerU e.key = lower e.key := lowerU_ascii ak
    have hlt : lowerU e.origType = lower e.origType := lowerU_ascii hat
    obtain ⟨r1, r2⟩ := rolesOkW_Q _ _ a6
    obtain ⟨f1, f2⟩ := fieldsOkW_Q e.fields [] (e.persons.map fun r => lowerU r.1) a7 (by
      intro x hx
      obtain ⟨r, hr', rfl⟩ := List.mem_map.1 hx
      right
      rw [isPersonField_lowerU]; exact (r2 r hr').1)
    obtain ⟨i1, i2⟩ := ih _ h2
    refine ⟨?_, ?_⟩
    · simp only [entriesOkQ, hlk, i1, Bool.and_eq_true, and_true]
      simp only [entryOkQ, hlk, hlt, a3, a1, a2, a4, ak, a5, r1, f1, lowerDomain_ascii hat, lowerDomain_ascii ak,
        Bool.not_true, Bool.false_or, Bool.and_eq_true, beq_self_eq_true, and_self]
    · intro x hx
      rcases List.mem_cons.1 hx with rfl | hx
      · exact ⟨r2, f2⟩
      · exact i2 x hx

theorem any_false_of_forall {α : Type} {l : List α} {p : α → Bool} (h : ∀ x ∈ l, p x = false) :
    l.any p = false := by
  rw [List.any_eq_false]
  intro x hx; rw [h x hx]; simp

/-- the claimed domain of a format lies in the quantifier's domain, and none of the four recorded
restrictions applies to its databases -/
theorem Q_of_inDomain {f : Fmt} {d : BibData} (h : inDomain f d = true) :
    WFDbQ f d = true ∧ noFinding f d = true := by
  have roles : (∀ e ∈ d.entries, ∀ r ∈ e.persons, isPersonField r.1 = true ∧ r.2 ≠ []) →
      hasOtherRole d = false ∧ hasEmptyRole d = false := by
    intro hr
    refine ⟨any_false_of_forall fun e he => any_false_of_forall fun r hr' => ?_,
      any_false_of_forall fun e he => any_false_of_forall fun r hr' => ?_⟩
    · simp [(hr e he r hr').1]
    · simp [(hr e he r hr').2]
  cases f with
  | yaml =>
    obtain ⟨q, facts⟩ := entriesOkT_Q (y := true) _ _ h
    obtain ⟨o1, o2⟩ := roles (fun e he => (facts e he).1)
    refine ⟨q, ?_⟩
    have o3 : hasTypeField d = false :=
      any_false_of_forall fun e he => any_false_of_forall fun f hf => (facts e he).2 rfl f hf
    simp [noFinding, o1, o2, o3]
  | bibtexml =>
    obtain ⟨q, facts⟩ := entriesOkT_Q (y := false) _ _ h
    obtain ⟨o1, o2⟩ := roles (fun e he => (facts e he).1)
    exact ⟨q, by simp [noFinding, o1, o2]⟩
  | bibtex =>
    simp only [inDomain, WFDb, Bool.and_eq_true, Bool.or_eq_true, decide_eq_true_eq] at h
    obtain ⟨q, facts⟩ := entriesOkW_Q _ _ h.1
    obtain ⟨o1, o2⟩ := roles (fun e he r hr => ⟨((facts e he).1 r hr).1, ((facts e he).1 r hr).2.1⟩)
    have hpre : (d.preambleText = [] ∨ valueOkQ d.preambleText = true) ∧ Safe d.preambleText = true := by
      rcases h.2 with hp | hp
      · exact ⟨Or.inl hp, by rw [hp]; rfl⟩
      · exact ⟨Or.inr (valueOkW_parts hp).1, (valueOkW_parts hp).2⟩
    refine ⟨by simp only [WFDbQ, q, Bool.and_eq_true, Bool.or_eq_true, decide_eq_true_eq, true_and]; exact hpre.1, ?_⟩
    have o3 : hasFive d = false := by
      simp only [hasFive, Bool.or_eq_false_iff, hpre.2, Bool.not_true, and_true]
      refine any_false_of_forall fun e he => ?_
      simp only [Bool.or_eq_false_iff]
      exact ⟨any_false_of_forall fun f hf => by simp [(facts e he).2 f hf],
        any_false_of_forall fun r hr => by simp [((facts e he).1 r hr).2.2]⟩
    simp [noFinding, o1, o2, o3]

/-- **the claimed domain is exactly the quantifier's domain minus the four recorded restrictions** -/
theorem inDomain_iff_Q (f : Fmt) (d : BibData) :
    inDomain f d = true ↔ (WFDbQ f d = true ∧ noFinding f d = true) :=
  ⟨Q_of_inDomain, fun h => inDomain_of_Q h.1 h.2⟩

end Pybtex.C02
