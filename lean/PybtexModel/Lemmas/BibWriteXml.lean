/-
C02 helper lemmas: the BibTeXML round trip over the abstract element tree
(`ofTreeXml (toTreeXml d)` on the domain `WFDbTree false`).
-/
import PybtexModel.Lemmas.BibWriteNames
import PybtexModel.Lemmas.BibProcess
import PybtexModel.Lemmas.BibWriteCase

namespace Pybtex.C02
open Pybtex Pybtex.Bib Pybtex.BibWrite Pybtex.BibSpec

/-! ### ordered dictionaries -/

theorem odGet_none {V : Type} : ∀ (l : List (Str × V)) (k : Str), (∀ x ∈ l, x.1 ≠ k) →
    odGet l k = none := by
  intro l
  induction l with
  | nil => intro k _; rfl
  | cons x r ih =>
    intro k h
    obtain ⟨k', v'⟩ := x
    have h1 : k' ≠ k := h (k', v') (by simp)
    simp only [odGet, if_neg h1]
    exact ih k (fun y hy => h y (by simp [hy]))

theorem odGet_filter : ∀ (l : List (Str × Str)), l.Pairwise (fun x y => x.1 ≠ y.1) → ∀ (k : Str),
    (odGet (l.filter (·.2 ≠ [])) k).getD [] = (odGet l k).getD [] := by
  intro l
  induction l with
  | nil => intro _ _; rfl
  | cons x r ih =>
    intro hp k
    obtain ⟨k', v'⟩ := x
    rw [List.pairwise_cons] at hp
    obtain ⟨hx, hr⟩ := hp
    by_cases hv : v' = []
    · subst hv
      have hf : List.filter (·.2 ≠ []) ((k', ([] : Str)) :: r) = List.filter (·.2 ≠ []) r := by
        simp
      rw [hf, ih hr k]
      simp only [odGet]
      by_cases hk : k' = k
      · subst hk
        rw [if_pos rfl, odGet_none r k' (fun y hy h => hx y hy h.symm)]
        rfl
      · rw [if_neg hk]
    · have hf : List.filter (·.2 ≠ []) ((k', v') :: r) = (k', v') :: List.filter (·.2 ≠ []) r := by
        simp [hv]
      rw [hf]
      simp only [odGet]
      by_cases hk : k' = k
      · rw [if_pos hk, if_pos hk]
      · rw [if_neg hk, if_neg hk]; exact ih hr k

theorem kwOfNodesX_map : ∀ (l : List (Str × Str)), l.Pairwise (fun x y => x.1 ≠ y.1) →
    (∀ x ∈ l, x.2 ≠ []) → kwOfNodesX (l.map fun x => elementX x.1 x.2) = .ok l := by
  intro l
  induction l with
  | nil => intro _ _; rfl
  | cons x r ih =>
    intro hp hne
    obtain ⟨k, v⟩ := x
    rw [List.pairwise_cons] at hp
    have hv : v ≠ [] := hne (k, v) (by simp)
    have hany : r.any (·.1 = k) = false := by
      rw [List.any_eq_false]
      intro y hy
      have := hp.1 y hy
      simpa using fun h => this h.symm
    have hel : elementX k v = .elem k none (some v) [] := by
      unfold elementX; rw [if_neg hv]
    rw [List.map_cons, hel, kwOfNodesX, ih hp.2 (fun y hy => hne y (by simp [hy]))]
    simp only [hany, Bool.false_eq_true, if_false]

/-! ### the keyword arguments of one person -/

/-- the five name parts before the empty ones are dropped -/
def rawParts (p : Person) : List (Str × Str) :=
  [("first".toList, partText p.first), ("middle".toList, partText p.middle),
    ("prelast".toList, partText p.prelast), ("last".toList, partText p.last),
    ("lineage".toList, partText p.lineage)]

theorem personParts_eq (p : Person) : personParts p = (rawParts p).filter (·.2 ≠ []) := rfl

theorem rawParts_pairwise (p : Person) : (rawParts p).Pairwise (fun x y => x.1 ≠ y.1) := by
  have h : ((rawParts p).map (·.1)).Pairwise (· ≠ ·) := by
    show List.Pairwise (· ≠ ·)
      ["first".toList, "middle".toList, "prelast".toList, "last".toList, "lineage".toList]
    decide
  exact List.pairwise_map.1 h

theorem rawParts_keys (p : Person) :
    ∀ x ∈ rawParts p, personKeys.contains x.1 = true ∧ x.1 ≠ "person".toList := by
  intro x hx
  have hm : x.1 ∈ (rawParts p).map (·.1) := List.mem_map_of_mem hx
  have hall : ∀ k ∈ ["first".toList, "middle".toList, "prelast".toList, "last".toList, "lineage".toList],
      personKeys.contains k = true ∧ k ≠ "person".toList := by decide
  exact hall x.1 hm

theorem personParts_mem {p : Person} {x : Str × Str} (hx : x ∈ personParts p) :
    x ∈ rawParts p ∧ x.2 ≠ [] := by
  rw [personParts_eq] at hx
  have := List.mem_filter.1 hx
  exact ⟨this.1, by simpa using this.2⟩

theorem kwArg_parts (p : Person) (k : String) :
    kwArg (personParts p) k = (odGet (rawParts p) k.toList).getD [] := by
  unfold kwArg
  rw [personParts_eq]
  exact odGet_filter _ (rawParts_pairwise p) _

theorem kwArg_string (p : Person) : kwArg (personParts p) "string" = [] := by
  rw [kwArg_parts]
  rw [odGet_none]
  · rfl
  · intro x hx
    have hm : x.1 ∈ (rawParts p).map (·.1) := List.mem_map_of_mem hx
    have hall : ∀ k ∈ ["first".toList, "middle".toList, "prelast".toList, "last".toList, "lineage".toList],
        k ≠ "string".toList := by decide
    exact hall x.1 hm

theorem odGet_cons_eq {V : Type} (k : Str) (v : V) (r : List (Str × V)) :
    odGet ((k, v) :: r) k = some v := by
  rw [odGet, if_pos rfl]

theorem odGet_cons_ne {V : Type} {k' k : Str} (h : k' ≠ k) (v : V) (r : List (Str × V)) :
    odGet ((k', v) :: r) k = odGet r k := by
  rw [odGet, if_neg h]

theorem kwArg_first (p : Person) : kwArg (personParts p) "first" = partText p.first := by
  rw [kwArg_parts]; unfold rawParts; rw [odGet_cons_eq]; rfl

theorem kwArg_middle (p : Person) : kwArg (personParts p) "middle" = partText p.middle := by
  rw [kwArg_parts]; unfold rawParts
  rw [odGet_cons_ne (by decide), odGet_cons_eq]; rfl

theorem kwArg_prelast (p : Person) : kwArg (personParts p) "prelast" = partText p.prelast := by
  rw [kwArg_parts]; unfold rawParts
  rw [odGet_cons_ne (by decide), odGet_cons_ne (by decide), odGet_cons_eq]; rfl

theorem kwArg_last (p : Person) : kwArg (personParts p) "last" = partText p.last := by
  rw [kwArg_parts]; unfold rawParts
  rw [odGet_cons_ne (by decide), odGet_cons_ne (by decide), odGet_cons_ne (by decide),
    odGet_cons_eq]; rfl

theorem kwArg_lineage (p : Person) : kwArg (personParts p) "lineage" = partText p.lineage := by
  rw [kwArg_parts]; unfold rawParts
  rw [odGet_cons_ne (by decide), odGet_cons_ne (by decide), odGet_cons_ne (by decide),
    odGet_cons_ne (by decide), odGet_cons_eq]; rfl

theorem personOfKw_parts {p : Person} (hp : WFPerson p = true) :
    personOfKw (personParts p) = .ok (p, false) := by
  have hany : (personParts p).any (fun x => !personKeys.contains x.1) = false := by
    rw [List.any_eq_false]
    intro x hx
    have := (rawParts_keys p x (personParts_mem hx).1).1
    rw [this]; decide
  unfold personOfKw
  rw [hany, kwArg_string, kwArg_first, kwArg_middle, kwArg_prelast, kwArg_last, kwArg_lineage,
    mkPerson_parts (personGood_of_wf hp).toks]
  rfl

/-! ### reading one person element, one role element -/

theorem elementX_tag (n v : Str) : (elementX n v).tag = n := rfl

theorem elementX_text (n v : Str) : (elementX n v).text.getD [] = v := by
  by_cases h : v = []
  · subst h; rfl
  · simp [elementX, XNode.text, h]

theorem strip_blanks : ∀ (k : Nat), strip (List.replicate k ' ') = [] := by
  intro k
  induction k with
  | zero => rfl
  | succ k ih => rw [List.replicate_succ, strip_cons_ws _ (by decide)]; exact ih

/-- the indentation text is white space only: `text.strip()` is empty -/
theorem strip_xmlIndent (n : Nat) : ∃ t, xmlIndent n = some t ∧ strip t = [] :=
  ⟨_, rfl, by rw [strip_cons_ws _ (by decide)]; exact strip_blanks _⟩

theorem processPersonX_node (role : Str) {p : Person} (hp : WFPerson p = true) (e : Entry)
    (bad : List Str) :
    processPersonX role (personNodeX p) e bad
      = .ok ({ e with persons := addPerson e.persons role p }, bad) := by
  have hany : ((personParts p).map fun x => elementX x.1 x.2).any
      (fun c => c.tag = "person".toList) = false := by
    rw [List.any_eq_false]
    intro c hc
    rw [List.mem_map] at hc
    obtain ⟨x, hx, rfl⟩ := hc
    have := (rawParts_keys p x (personParts_mem hx).1).2
    intro h
    exact this (of_decide_eq_true h)
  have hkw : kwOfNodesX ((personParts p).map fun x => elementX x.1 x.2) = .ok (personParts p) := by
    apply kwOfNodesX_map
    · rw [personParts_eq]; exact (rawParts_pairwise p).filter _
    · intro x hx; exact (personParts_mem hx).2
  obtain ⟨t, ht, hs⟩ := strip_xmlIndent (if (personParts p).isEmpty then 4 else 5)
  unfold personNodeX
  rw [ht, processPersonX.eq_def]
  simp only [hany, Bool.false_eq_true, if_false, hs, ne_eq, not_true_eq_false, hkw,
    personOfKw_parts hp]

theorem processPersonsX_nodes (role : Str) : ∀ (ps : List Person) (e : Entry) (bad : List Str),
    (∀ p ∈ ps, WFPerson p = true) →
    processPersonsX role (ps.map personNodeX) e bad
      = .ok ({ e with persons := ps.foldl (fun acc p => addPerson acc role p) e.persons }, bad) := by
  intro ps
  induction ps with
  | nil => intro e bad _; rfl
  | cons p ps ih =>
    intro e bad h
    have htag : (personNodeX p).tag = "person".toList := rfl
    simp only [List.map_cons, processPersonsX, htag, if_true,
      processPersonX_node role (h p (by simp)) e bad]
    rw [ih _ bad (fun q hq => h q (by simp [hq]))]
    rfl

theorem foldl_addPerson_last (ps0 : List (Str × List Person)) (role : Str)
    (hfresh : ∀ r ∈ ps0, lower r.1 ≠ lower role) : ∀ (ps acc : List Person),
    ps.foldl (fun a p => addPerson a role p) (ps0 ++ [(role, acc)]) = ps0 ++ [(role, acc ++ ps)] := by
  intro ps
  induction ps with
  | nil => intro acc; simp
  | cons p ps ih =>
    intro acc
    simp only [List.foldl_cons, BibRT.addPerson_last ps0 role acc p hfresh, ih]
    simp

theorem foldl_addPerson_fresh (ps0 : List (Str × List Person)) (role : Str)
    (hfresh : ∀ r ∈ ps0, lower r.1 ≠ lower role) (ps : List Person) (hne : ps ≠ []) :
    ps.foldl (fun a p => addPerson a role p) ps0 = ps0 ++ [(role, ps)] := by
  cases ps with
  | nil => exact absurd rfl hne
  | cons p ps =>
    simp only [List.foldl_cons, BibRT.addPerson_fresh ps0 role p hfresh,
      foldl_addPerson_last ps0 role hfresh]
    simp

theorem processPersonX_role (r : Str × List Person) (e : Entry) (bad : List Str)
    (hne : r.2 ≠ []) (hwf : ∀ p ∈ r.2, WFPerson p = true)
    (hfresh : ∀ q ∈ e.persons, lower q.1 ≠ lower r.1) :
    processPersonX r.1 (.elem r.1 none (xmlIndent 4) (r.2.map personNodeX)) e bad
      = .ok ({ e with persons := e.persons ++ [r] }, bad) := by
  obtain ⟨role, ps⟩ := r
  simp only at hne hwf hfresh ⊢
  have hany : (ps.map personNodeX).any (fun c => c.tag = "person".toList) = true := by
    cases ps with
    | nil => exact absurd rfl hne
    | cons p ps =>
      have htag : (personNodeX p).tag = "person".toList := rfl
      simp [htag]
  rw [processPersonX.eq_def]
  simp only [hany, if_true]
  rw [processPersonsX_nodes role ps e bad hwf, foldl_addPerson_fresh e.persons role hfresh ps hne]

/-! ### the field loop -/

theorem ciSet_fresh {V : Type} : ∀ (l : List (Str × V)) (k : Str) (v : V),
    (∀ g ∈ l, lowerU g.1 ≠ lowerU k) → ciSet l k v = l ++ [(k, v)] := by
  intro l
  induction l with
  | nil => intro k v _; rfl
  | cons x r ih =>
    intro k v h
    obtain ⟨k', v'⟩ := x
    have h1 : lowerU k' ≠ lowerU k := h (k', v') (by simp)
    simp only [ciSet, if_neg h1, List.cons_append, ih k v (fun g hg => h g (by simp [hg]))]

theorem processFieldsX_fields (rest : List XNode) : ∀ (fs : List (Str × Str)) (seen : List Str)
    (e : Entry) (bad : List Str),
    fieldsOkT false seen fs = true → (∀ g ∈ e.fields, lowerU g.1 ∈ seen) →
    processFieldsX (fs.map (fun f => elementX f.1 f.2) ++ rest) e bad
      = processFieldsX rest { e with fields := e.fields ++ fs } bad := by
  intro fs
  induction fs with
  | nil =>
    intro seen e bad _ _
    simp only [List.map_nil, List.nil_append, List.append_nil]
  | cons f fs ih =>
    intro seen e bad hok hseen
    simp only [fieldsOkT, Bool.and_eq_true, Bool.not_eq_true'] at hok
    obtain ⟨⟨⟨⟨hpf, _⟩, _⟩, hns⟩, hrest⟩ := hok
    have hns' : lowerU f.1 ∉ seen := by simpa using hns
    have hfresh : ∀ g ∈ e.fields, lowerU g.1 ≠ lowerU f.1 := by
      intro g hg heq
      exact hns' (heq ▸ hseen g hg)
    simp only [List.map_cons, List.cons_append, processFieldsX, elementX_tag, hpf,
      Bool.false_eq_true, if_false, elementX_text, ciSet_fresh e.fields f.1 f.2 hfresh]
    rw [ih (lowerU f.1 :: seen) _ bad hrest]
    · simp only [List.append_assoc, List.singleton_append]
    · intro g hg
      simp only [List.mem_append, List.mem_singleton] at hg
      rcases hg with hg | rfl
      · exact List.mem_cons_of_mem _ (hseen g hg)
      · exact List.mem_cons_self

theorem processFieldsX_roles : ∀ (rs : List (Str × List Person)) (seen : List Str)
    (e : Entry) (bad : List Str),
    rolesOkT seen rs = true → (∀ q ∈ e.persons, lowerU q.1 ∈ seen) →
    processFieldsX (rs.map roleNodesX).flatten e bad
      = .ok ({ e with persons := e.persons ++ rs }, bad) := by
  intro rs
  induction rs with
  | nil =>
    intro seen e bad _ _
    simp only [List.map_nil, List.flatten_nil, processFieldsX, List.append_nil]
  | cons r rs ih =>
    intro seen e bad hok hseen
    simp only [rolesOkT, Bool.and_eq_true, Bool.not_eq_true', decide_eq_true_eq,
      List.all_eq_true] at hok
    obtain ⟨⟨⟨⟨hpf, hns⟩, hne⟩, hwf⟩, hrest⟩ := hok
    have hns' : lowerU r.1 ∉ seen := by simpa using hns
    have hfresh : ∀ q ∈ e.persons, lower q.1 ≠ lower r.1 := by
      intro q hq heq
      exact hns' (lowerU_of_lower heq ▸ hseen q hq)
    have hnode : roleNodesX r = [.elem r.1 none (xmlIndent 4) (r.2.map personNodeX)] := by
      unfold roleNodesX; rw [if_neg hne]
    have htag : (XNode.elem r.1 none (xmlIndent 4) (r.2.map personNodeX)).tag = r.1 := rfl
    simp only [List.map_cons, List.flatten_cons, hnode, List.cons_append, List.nil_append,
      processFieldsX, htag, hpf, if_true, processPersonX_role r e bad hne hwf hfresh]
    rw [ih (lowerU r.1 :: seen) _ bad hrest]
    · simp only [List.append_assoc, List.singleton_append]
    · intro q hq
      simp only [List.mem_append, List.mem_singleton] at hq
      rcases hq with hq | rfl
      · exact List.mem_cons_of_mem _ (hseen q hq)
      · exact List.mem_cons_self

/-! ### entries -/

theorem processEntryX_node {keys : List Str} {e : Entry} (h : entryOkT false keys e = true) :
    processEntryX (entryNodeX e) = .ok ((e.key, e), []) := by
  simp only [entryOkT, Bool.and_eq_true, beq_iff_eq] at h
  obtain ⟨⟨⟨⟨⟨hty, _⟩, _⟩, _⟩, hroles⟩, hfields⟩ := h
  unfold entryNodeX processEntryX
  simp only [XNode.id, XNode.children, XNode.tag]
  rw [processFieldsX_fields _ e.fields [] _ [] hfields (by intro g hg; cases hg)]
  rw [processFieldsX_roles e.persons [] _ [] hroles (by intro g hg; cases hg)]
  simp only [List.nil_append, ← hty]

theorem processEntriesX_nodes : ∀ (es : List Entry) (keys : List Str),
    entriesOkT false keys es = true →
    processEntriesX (es.map entryNodeX) = .ok (es.map (fun e => (e.key, e)), []) := by
  intro es
  induction es with
  | nil => intro _ _; rfl
  | cons e es ih =>
    intro keys h
    simp only [entriesOkT, Bool.and_eq_true] at h
    have htag : (entryNodeX e).tag = "entry".toList := rfl
    simp only [List.map_cons, processEntriesX, htag, if_true, processEntryX_node h.1,
      ih _ h.2, List.append_nil]

theorem addEntries_fold : ∀ (es : List Entry) (keys : List Str) (acc : List Entry) (rep : List Str),
    entriesOkT false keys es = true → (∀ x ∈ acc, lowerU x.key ∈ keys) →
    (es.map fun e => (e.key, e)).foldl (fun a p => addEntryPlain a p.1 p.2) (acc, rep)
      = (acc ++ es, rep) := by
  intro es
  induction es with
  | nil => intro _ acc rep _ _; simp
  | cons e es ih =>
    intro keys acc rep h hseen
    simp only [entriesOkT, entryOkT, Bool.and_eq_true, Bool.not_eq_true'] at h
    obtain ⟨⟨⟨⟨_, hns⟩, _⟩, _⟩, hrest⟩ := h
    have hns' : lowerU e.key ∉ keys := by simpa using hns
    have hany : acc.any (fun x => lowerU x.key = lowerU e.key) = false := by
      rw [List.any_eq_false]
      intro x hx
      have : lowerU x.key ≠ lowerU e.key := fun heq => hns' (heq ▸ hseen x hx)
      simpa using this
    have hstep : addEntryPlain (acc, rep) e.key e = (acc ++ [e], rep) := by
      unfold addEntryPlain
      simp only [hany, Bool.false_eq_true, if_false]
    simp only [List.map_cons, List.foldl_cons, hstep]
    rw [ih (lowerU e.key :: keys) (acc ++ [e]) rep hrest]
    · simp only [List.append_assoc, List.singleton_append]
    · intro x hx
      simp only [List.mem_append, List.mem_singleton] at hx
      rcases hx with hx | rfl
      · exact List.mem_cons_of_mem _ (hseen x hx)
      · exact List.mem_cons_self

/-! ### the round trip -/

theorem xml_roundtrip (d : BibData) (h : WFDbTree false d = true) :
    ofTreeXml (toTreeXml d) =
      .ok { db := { entries := d.entries, preamble := [] }, badNames := [], repeated := [], others := 0 } := by
  unfold WFDbTree at h
  unfold ofTreeXml toTreeXml
  simp only [XNode.children, processEntriesX_nodes d.entries [] h]
  have := addEntries_fold d.entries [] [] [] h (by intro x hx; cases hx)
  unfold addEntries
  rw [this]
  rfl

end Pybtex.C02
