/-
Helper lemmas for C14: the field lookup of the (repaired) code, which stops when a
cross-reference target repeats, equals the reference lookup, which simply walks
`db.length + 1` steps along the chain.
-/
import PybtexModel.Lemmas.Citations

namespace Pybtex
open Spec

/-- what the entry defines itself, as the code computes it (`self.fields[name]`, else `_find_person_field`) -/
def Entry.own (e : Entry) (name : Str) : Option Str :=
  match e.fields.getItem name with
  | some v => some v
  | none => findPersonField e name

theorem Entry.own_toS {e : Entry} (h : EntryWF e) (name : Str) : e.own name = e.toS.own name := by
  unfold Entry.own SEntry.own findPersonField
  rw [Entry.field_toS h, Entry.role_toS h]
  rfl

theorem findField_eq (bibData : Option BibData) (visited : List Str) (e : Entry) (name : Str) :
    findField bibData visited e name =
      match e.own name with
      | some v => some v
      | none =>
        match bibData with
        | none => none
        | some db =>
          match e.fields.getItem Pybtex.xrefName with
          | none => none
          | some x =>
            if visited.contains (lower x) then none
            else
              match db.entries.getItem x with
              | none => none
              | some p => findField bibData (lower x :: visited) p name := by
  rw [findField.eq_def]
  unfold Entry.own
  cases e.fields.getItem name with
  | some v => rfl
  | none =>
    dsimp only
    cases findPersonField e name with
    | some v => rfl
    | none =>
      dsimp only
      cases bibData with
      | none => rfl
      | some db =>
        dsimp only
        cases e.fields.getItem Pybtex.xrefName with
        | none => rfl
        | some x =>
          dsimp only
          split
          · rfl
          · split <;> simp_all

theorem findSome_walk_succ (sdb : SDb) (n : Nat) (e : SEntry) (name : Str) :
    (walk sdb (n + 1) e).findSome? (·.own name) =
      match e.own name with
      | some v => some v
      | none =>
        match parent sdb e with
        | some p => (walk sdb n p).findSome? (·.own name)
        | none => none := by
  simp only [walk, List.findSome?_cons]
  cases e.own name with
  | some v => rfl
  | none =>
    dsimp only
    cases parent sdb e <;> rfl

theorem parent_toS {db : BibData} (hdb : DbWF db) {e : Entry} (he : EntryWF e) :
    parent db.toS e.toS = (e.fields.getItem Pybtex.xrefName).bind fun x => (db.entries.getItem x).map Entry.toS := by
  unfold parent
  rw [← Entry.crossref_toS he]
  cases e.fields.getItem Pybtex.xrefName with
  | none => rfl
  | some x => simp only [Option.bind_some]; exact (getItem_entries hdb x).symm

/-- every key in `S` names a database entry that does not define `name` and whose parent, if it
has one, is again named by a key in `S` -/
def ClosedNone (db : BibData) (name : Str) (S : List Str) : Prop :=
  ∀ k ∈ S, ∃ x q, k = lower x ∧ db.entries.getItem x = some q ∧ q.own name = none ∧
    ∀ y, q.fields.getItem Pybtex.xrefName = some y → (db.entries.getItem y).isSome = true → lower y ∈ S

/-- inside such a set the walk never finds the field, however long -/
theorem walk_closed_none {db : BibData} (hdb : DbWF db) {name : Str} {S : List Str} (hS : ClosedNone db name S) :
    ∀ (n : Nat) (x : Str) (q : Entry), lower x ∈ S → db.entries.getItem x = some q →
      (walk db.toS n q.toS).findSome? (·.own name) = none := by
  intro n
  induction n with
  | zero => intro x q _ _; rfl
  | succ n ih =>
    intro x q hx hq
    obtain ⟨x', q', hxx, hq', hown, hnext⟩ := hS _ hx
    rw [getItem_lower_congr _ hxx, hq'] at hq
    cases hq
    obtain ⟨hwq, -⟩ := getItem_entries_wf hdb hq'
    rw [findSome_walk_succ, ← Entry.own_toS hwq, hown, parent_toS hdb hwq]
    dsimp only
    cases hy : q.fields.getItem Pybtex.xrefName with
    | none => rfl
    | some y =>
      simp only [Option.bind_some]
      cases hp : db.entries.getItem y with
      | none => rfl
      | some p =>
        simp only [Option.map_some]
        exact ih y p (hnext y hy (by simp [hp])) hp

/-- invariant of the lookup: every key followed so far names either the current entry or an
entry already known not to define the field whose parent's key has been followed too -/
def PathInv (db : BibData) (name : Str) (V : List Str) (e : Entry) : Prop :=
  ∀ k ∈ V, ∃ x q, k = lower x ∧ db.entries.getItem x = some q ∧
    (q = e ∨ (q.own name = none ∧
      ∀ y, q.fields.getItem Pybtex.xrefName = some y → (db.entries.getItem y).isSome = true → lower y ∈ V))

theorem unvisited_nil (dict : List (Str × Entry)) : unvisited dict [] = dict.length := by
  induction dict with
  | nil => rfl
  | cons a r ih => simp [unvisited, ih]; omega

theorem findField_walk {db : BibData} (hdb : DbWF db) (name : Str) :
    ∀ (n : Nat) (V : List Str) (e : Entry), EntryWF e → PathInv db name V e →
      unvisited db.entries.dict V + 1 ≤ n →
      findField (some db) V e name = (walk db.toS n e.toS).findSome? (·.own name) := by
  intro n
  induction n with
  | zero => intro V e _ _ h; omega
  | succ n ih =>
    intro V e he hV hn
    rw [findField_eq, findSome_walk_succ, ← Entry.own_toS he, parent_toS hdb he]
    cases hown : e.own name with
    | some v => rfl
    | none =>
      dsimp only
      cases hx : e.fields.getItem Pybtex.xrefName with
      | none => rfl
      | some x =>
        simp only [Option.bind_some]
        by_cases hv : V.contains (lower x) = true
        · -- the target was followed before: the chain is a cycle none of whose entries defines the field
          rw [if_pos hv]
          have hclosed : ClosedNone db name V := by
            intro k hk
            obtain ⟨x', q, hkx, hq, hor⟩ := hV k hk
            refine ⟨x', q, hkx, hq, ?_⟩
            rcases hor with rfl | hor
            · refine ⟨hown, ?_⟩
              intro y hy _
              rw [hx] at hy
              cases hy
              simpa using hv
            · exact hor
          cases hp : db.entries.getItem x with
          | none => rfl
          | some p =>
            simp only [Option.map_some]
            exact (walk_closed_none hdb hclosed n x p (by simpa using hv) hp).symm
        · rw [if_neg hv]
          cases hp : db.entries.getItem x with
          | none => rfl
          | some p =>
            simp only [Option.map_some]
            obtain ⟨hwp, -⟩ := getItem_entries_wf hdb hp
            have hlt := unvisited_lt db.entries.dict V (lower x) p hp (by simpa using hv)
            apply ih (lower x :: V) p hwp ?_ (by omega)
            intro k hk
            rcases List.mem_cons.1 hk with rfl | hk
            · exact ⟨x, p, rfl, hp, Or.inl rfl⟩
            · obtain ⟨x', q, hkx, hq, hor⟩ := hV k hk
              refine ⟨x', q, hkx, hq, Or.inr ?_⟩
              rcases hor with rfl | ⟨h1, h2⟩
              · refine ⟨hown, ?_⟩
                intro y hy _
                rw [hx] at hy
                cases hy
                exact List.mem_cons_self
              · exact ⟨h1, fun y hy hs => List.mem_cons_of_mem _ (h2 y hy hs)⟩

theorem toS_length {db : BibData} (hdb : DbWF db) : db.toS.length = db.entries.dict.length := by
  simp [BibData.toS, CIDict.abs, zipT_length hdb.inv.1]

/-- the lookup of the code = the reference walk, for every bound from `db.length + 1` on -/
theorem findField_spec {db : BibData} (hdb : DbWF db) {e : Entry} (he : EntryWF e) (name : Str) (n : Nat)
    (hn : db.toS.length + 1 ≤ n) :
    e.findField name (some db) = (walk db.toS n e.toS).findSome? (·.own name) := by
  apply findField_walk hdb name n [] e he
  · intro k hk; cases hk
  · rw [unvisited_nil, ← toS_length hdb]; exact hn

theorem findField_noDb (V : List Str) (e : Entry) (name : Str) : findField none V e name = e.own name := by
  rw [findField_eq]
  cases e.own name <;> rfl

/-- the instrumented lookup is the lookup -/
theorem findFieldHops_fst (bibData : Option BibData) (visited : List Str) (e : Entry) (name : Str) :
    (findFieldHops bibData visited e name).1 = findField bibData visited e name := by
  fun_induction findFieldHops bibData visited e name <;> rw [findField_eq] <;> simp_all [Entry.own]

/-- the number of cross-references followed is at most the number of database entries not followed before -/
theorem findFieldHops_le (db : BibData) (visited : List Str) (e : Entry) (name : Str) :
    (findFieldHops (some db) visited e name).2 ≤ unvisited db.entries.dict visited := by
  generalize hb : some db = bibData
  fun_induction findFieldHops bibData visited e name <;> try (simp; done)
  rename_i db' hb' x hx hv p hg ih
  subst hb
  cases hb'
  have h1 := unvisited_lt db.entries.dict _ (lower x) p hg (by simpa using hv)
  have h2 := ih
  simp only at h2 ⊢
  omega

end Pybtex
