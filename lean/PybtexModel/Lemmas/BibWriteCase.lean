/-
C02 helper lemmas, part 0: `str.lower()` (`lowerU`) against the ASCII lower-casing `lower` of the
`.bib` reader model — table facts checked by kernel evaluation over every code point of the
regenerated lower-case table, and what follows for identifiers:

* no character is lower-cased to U+0130 or U+03A3 (`lowerDomain` is closed under `lowerU`);
* the only non-ASCII character with an ASCII lower-case form is U+212A KELVIN SIGN (→ `k`), hence
  `s.lower() in ['author', 'editor']` and `s.lower() == 'type'` hold exactly when they hold for the
  ASCII lower-casing (neither word contains a `k`);
* on ASCII strings both lower-casings coincide; NAMEs of the `.bib` grammar and person-field names
  are ASCII.
-/
import PybtexModel.Lemmas.UniCase
import PybtexModel.Spec.BibWrite

namespace Pybtex.C02
open Pybtex Pybtex.Bib Pybtex.BibWrite Pybtex.BibSpec

/-- table fact: no image is U+0130 or U+03A3, and an ASCII image comes from an ASCII character or
from U+212A -/
def imagesAway (tbl : List (Nat × Nat × List Run)) : Bool :=
  tbl.all fun g => g.2.2.all fun r => (runPoints r).all fun n =>
    match caseLookupG n tbl with
    | none => true
    | some m => m != 0x130 && m != 0x3A3 && (decide (128 ≤ m) || decide (n < 128) || n == 8490)

theorem lowerRuns_imagesAway : imagesAway Gen.lowerRuns = true := by decide +kernel

theorem caseLookupG_away {n m : Nat} (h : caseLookupG n Gen.lowerRuns = some m) :
    m ≠ 0x130 ∧ m ≠ 0x3A3 ∧ (m < 128 → n < 128 ∨ n = 8490) := by
  obtain ⟨g, hg, r, hr, hn⟩ := caseLookupG_mem h
  have := lowerRuns_imagesAway
  simp only [imagesAway, List.all_eq_true] at this
  have h3 := this g hg r hr n hn
  rw [h] at h3
  simp only [Bool.and_eq_true, bne_iff_ne, ne_eq, Bool.or_eq_true, decide_eq_true_eq, beq_iff_eq] at h3
  refine ⟨h3.1.1, h3.1.2, fun hm => ?_⟩
  rcases h3.2 with (h4 | h4) | h4
  · omega
  · exact Or.inl h4
  · exact Or.inr h4

theorem toNat_ofNat_valid {m : Nat} (h : m.isValidChar) : (Char.ofNat m).toNat = m := by
  simp [Char.ofNat, h, Char.toNat, Char.ofNatAux]

/-- what `lowerUC` can and cannot produce -/
theorem lowerUC_facts (c : Char) :
    ((lowerUC c).toNat = 0x130 → c.toNat = 0x130) ∧ (lowerUC c).toNat ≠ 0x3A3 ∧
    ((lowerUC c).toNat < 128 → c.toNat < 128 ∨ c.toNat = 8490) := by
  unfold lowerUC
  cases h : caseLookupG c.toNat Gen.lowerRuns with
  | none =>
    refine ⟨fun h1 => h1, ?_, fun h1 => Or.inl h1⟩
    intro h1
    simp only at h1
    have : caseLookupG 0x3A3 Gen.lowerRuns = some 0x3C3 := by decide +kernel
    rw [h1] at h; rw [h] at this; cases this
  | some m =>
    obtain ⟨_, h2⟩ := caseLookupG_image h
    obtain ⟨a1, a2, a3⟩ := caseLookupG_away h
    simp only [toNat_ofNat_valid h2]
    exact ⟨fun h1 => absurd h1 a1, a2, a3⟩

theorem lowerDomain_lowerU {s : Str} (h : lowerDomain s = true) : lowerDomain (lowerU s) = true := by
  simp only [lowerDomain, lowerU, List.all_map, List.all_eq_true, Function.comp_apply, decide_eq_true_eq] at h ⊢
  intro c hc
  obtain ⟨f1, f2, _⟩ := lowerUC_facts c
  exact ⟨fun h1 => (h c hc).1 (f1 h1), f2⟩

/-! ### ASCII strings -/

theorem lowerU_ascii {s : Str} (h : isAsciiStr s = true) : lowerU s = lower s := by
  induction s with
  | nil => rfl
  | cons c r ih =>
    simp only [isAsciiStr, List.all_cons, Bool.and_eq_true, decide_eq_true_eq] at h
    simp only [lowerU_cons, lower_cons, lowerUC_ascii c h.1]
    rw [ih (by simpa [isAsciiStr] using h.2)]

theorem lowerDomain_ascii {s : Str} (h : isAsciiStr s = true) : lowerDomain s = true := by
  simp only [isAsciiStr, lowerDomain, List.all_eq_true, decide_eq_true_eq] at h ⊢
  intro c hc
  have := h c hc
  omega

theorem nameCodes_ascii : (Gen.nameStartCodes.all fun n => decide (n < 128)) = true ∧
    (Gen.nameCharCodes.all fun n => decide (n < 128)) = true := by decide +kernel

theorem isAsciiStr_of_isName {s : Str} (h : isName s = true) : isAsciiStr s = true := by
  cases s with
  | nil => rfl
  | cons c r =>
    simp only [isName, Bool.and_eq_true, List.all_eq_true] at h
    have h1 := nameCodes_ascii.1
    have h2 := nameCodes_ascii.2
    simp only [List.all_eq_true, decide_eq_true_eq] at h1 h2
    simp only [isAsciiStr, List.all_cons, Bool.and_eq_true, decide_eq_true_eq, List.all_eq_true]
    refine ⟨h1 _ ?_, fun x hx => h2 _ ?_⟩
    · have := h.1; simp only [isNameStart, List.contains_eq_mem, decide_eq_true_eq] at this; exact this
    · have := h.2 x hx; simp only [isNameChar, List.contains_eq_mem, decide_eq_true_eq] at this; exact this

/-- a string whose ASCII lower-casing is ASCII is ASCII -/
theorem isAsciiStr_of_lower : ∀ {s w : Str}, lower s = w → isAsciiStr w = true → isAsciiStr s = true := by
  intro s
  induction s with
  | nil => intro w _ _; rfl
  | cons c r ih =>
    intro w hw ha
    cases w with
    | nil => simp [lower] at hw
    | cons x w =>
      simp only [lower_cons, List.cons.injEq] at hw
      simp only [isAsciiStr, List.all_cons, Bool.and_eq_true, decide_eq_true_eq] at ha ⊢
      refine ⟨?_, ih hw.2 (by simpa [isAsciiStr] using ha.2)⟩
      by_cases hc : c.toNat < 128
      · exact hc
      · exfalso
        rw [lowerC_of_ge128 c hc] at hw
        rw [hw.1] at hc
        exact hc ha.1

theorem personRoles_ascii : ((Gen.personRoles.map lower).all isAsciiStr) = true ∧
    ((Gen.personRoles.map lower).all fun w => w.all fun c => c != 'k') = true := by decide +kernel

theorem isAsciiStr_of_personField {n : Str} (h : isPersonField n = true) : isAsciiStr n = true := by
  simp only [isPersonField, isPersonFieldOf, List.contains_eq_mem, decide_eq_true_eq] at h
  have := personRoles_ascii.1
  simp only [List.all_eq_true] at this
  exact isAsciiStr_of_lower rfl (this _ h)

/-! ### `s.lower() == w` for an ASCII word `w` without `k` -/

/-- a word the ASCII and the Unicode lower-casing agree about: ASCII, lower case, no `k` -/
def plainWord (w : Str) : Bool := w.all fun c => decide (c.toNat < 128) && c != 'k' && lowerC c == c

theorem lowerU_eq_word : ∀ {s w : Str}, plainWord w = true → (lowerU s = w ↔ lower s = w) := by
  intro s
  induction s with
  | nil => intro w _; simp [lower]
  | cons c r ih =>
    intro w hw
    cases w with
    | nil => simp [lower]
    | cons x w =>
      simp only [plainWord, List.all_cons, Bool.and_eq_true, decide_eq_true_eq, bne_iff_ne, ne_eq,
        beq_iff_eq] at hw
      obtain ⟨⟨⟨hx1, hx2⟩, hx3⟩, hw'⟩ := hw
      have ih' := ih (w := w) (by simpa [plainWord] using hw')
      simp only [lowerU_cons, lower_cons, List.cons.injEq, ih']
      constructor
      · rintro ⟨h1, h2⟩
        refine ⟨?_, h2⟩
        obtain ⟨_, _, f3⟩ := lowerUC_facts c
        rcases f3 (by rw [h1]; exact hx1) with hc | hc
        · rw [← lowerUC_ascii c hc]; exact h1
        · exfalso
          have hk : c = Char.ofNat 8490 := by
            rw [← Char.ofNat_toNat c, hc]
          have : lowerUC (Char.ofNat 8490) = 'k' := by decide +kernel
          rw [hk, this] at h1
          exact hx2 h1.symm
      · rintro ⟨h1, h2⟩
        refine ⟨?_, h2⟩
        rw [← lowerUC_lowerC, h1]
        rw [lowerUC_ascii x hx1]; exact hx3

theorem personRoles_plain : ((Gen.personRoles.map lower).all plainWord) = true := by decide +kernel

/-- `lower(lowerU s)`: `lowerU` never yields an ASCII capital -/
theorem lower_lowerU (s : Str) : lower (lowerU s) = lowerU s := by
  induction s with
  | nil => rfl
  | cons c r ih =>
    simp only [lowerU_cons, lower_cons, ih, List.cons.injEq, and_true]
    by_cases h : (lowerUC c).toNat < 128
    · rw [← lowerUC_ascii _ h, lowerUC_idem]
    · exact lowerC_of_ge128 _ h

/-- `name.lower() in Person.valid_roles` is the same test with either lower-casing -/
theorem isPersonField_lowerU (n : Str) : isPersonField (lowerU n) = isPersonField n := by
  have key : ∀ w ∈ Gen.personRoles.map lower, (lowerU n = w ↔ lower n = w) := by
    intro w hw
    have := personRoles_plain
    simp only [List.all_eq_true] at this
    exact lowerU_eq_word (this w hw)
  simp only [isPersonField, isPersonFieldOf, lower_lowerU]
  rw [Bool.eq_iff_iff]
  simp only [List.contains_eq_mem, decide_eq_true_eq]
  constructor
  · intro h; exact (key _ h).1 rfl ▸ h
  · intro h; exact (key _ h).2 rfl ▸ h

/-- `key.lower() == 'type'` is the same test with either lower-casing -/
theorem isType_lowerU (k : Str) : (lower (lowerU k) == "type".toList) = (lower k == "type".toList) := by
  rw [lower_lowerU, Bool.eq_iff_iff]
  simp only [beq_iff_eq]
  exact lowerU_eq_word (by decide)

theorem lowerU_eq_type (k : Str) : lowerU k = "type".toList ↔ lower k = "type".toList :=
  lowerU_eq_word (by decide)

end Pybtex.C02
