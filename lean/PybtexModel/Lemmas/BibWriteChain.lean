/-
C02 helper lemmas, part 6: one round trip per format, `lower()` in closed form, chains.
-/
import PybtexModel.Lemmas.BibWriteDb
import PybtexModel.Lemmas.BibWriteYaml
import PybtexModel.Lemmas.BibWriteXml
import PybtexModel.Lemmas.BibWriteCase

namespace Pybtex.C02
open Pybtex Pybtex.Spec Pybtex.Bib Pybtex.BibWrite Pybtex.BibSpec Pybtex.Names Pybtex.BibRT

/-! ### one write/read round trip per format -/

theorem roundTrip_bibtex (S : Serial) (henc : EncId S.encode) {d : BibData} (h : WFDb d = true) :
    roundTrip S .bibtex d = .ok (canonDb d) ∧
    ∃ text, writeFmt S .bibtex d = .ok text ∧
      readFmt S .bibtex text = .ok { db := canonDb d, badNames := [], repeated := [], others := 0 } := by
  obtain ⟨text, s', h1, h2, h3, h4, h5⟩ := parseBib_written henc d h false
  have hread : readFmt S .bibtex text = .ok { db := canonDb d, badNames := [], repeated := [], others := 0 } := by
    simp only [readFmt, h2, h3, h4, h5, canonDb, List.filterMap_nil, List.filter_nil, List.length_nil]
  refine ⟨?_, text, h1, hread⟩
  simp only [roundTrip, writeFmt, h1, hread]

theorem roundTrip_yaml (S : Serial) (hS : ∀ t, S.loadY (S.dumpY t) = some t) {d : BibData}
    (h : WFDbTree true d = true) : roundTrip S .yaml d = .ok (canonDb d) := by
  simp only [roundTrip, writeFmt, readFmt, hS, Yaml.yaml_roundtrip d h]


theorem roundTrip_xml (S : Serial) (hS : ∀ t, S.loadX (S.dumpX t) = some t) {d : BibData}
    (h : WFDbTree false d = true) : roundTrip S .bibtexml d = .ok { entries := d.entries, preamble := [] } := by
  simp only [roundTrip, writeFmt, readFmt, hS, xml_roundtrip d h]

/-! ### `lower()` in closed form -/

theorem lower_lower (s : Str) : lower (lower s) = lower s := by
  induction s with
  | nil => rfl
  | cons c r ih =>
    simp only [lower_cons, ih]
    congr 1
    exact Char.toLower_toLower_eq_toLower c

theorem ciOfPairs_acc {V : Type} : ∀ (ps acc : List (Str × V)),
    (∀ p ∈ ps, ∀ y ∈ acc, lowerU y.1 ≠ lowerU p.1) → (ps.map fun p => lowerU p.1).Pairwise (· ≠ ·) →
    ps.foldl (fun d p => ciSet d p.1 p.2) acc = acc ++ ps := by
  intro ps
  induction ps with
  | nil => intro acc _ _; simp
  | cons p ps ih =>
    intro acc h1 h2
    simp only [List.foldl_cons]
    rw [Yaml.ciSet_fresh acc p.1 p.2 (h1 p (by simp))]
    simp only [List.map_cons, List.pairwise_cons] at h2
    rw [ih (acc ++ [(p.1, p.2)]) ?_ h2.2]
    · simp
    · intro q hq y hy
      simp only [List.mem_append, List.mem_singleton] at hy
      rcases hy with hy | rfl
      · exact h1 q (by simp [hq]) y hy
      · exact h2.1 _ (List.mem_map.2 ⟨q, hq, rfl⟩)

theorem ciOfPairs_id {V : Type} (ps : List (Str × V)) (h : (ps.map fun p => lowerU p.1).Pairwise (· ≠ ·)) :
    ciOfPairs ps = ps := by
  unfold ciOfPairs
  rw [ciOfPairs_acc ps [] (by simp) h]
  simp

theorem fieldsOkT_ci (y : Bool) : ∀ (fs : List (Str × Str)) (seen : List Str), fieldsOkT y seen fs = true →
    (∀ f ∈ fs, lowerU f.1 ∉ seen) ∧ (fs.map fun f => lowerU f.1).Pairwise (· ≠ ·) := by
  intro fs
  induction fs with
  | nil => intro _ _; exact ⟨by simp, by simp⟩
  | cons f fs ih =>
    intro seen h
    simp only [fieldsOkT, Bool.and_eq_true, Bool.not_eq_true'] at h
    obtain ⟨⟨_, h3⟩, h4⟩ := h
    obtain ⟨i1, i2⟩ := ih _ h4
    have h3' : lowerU f.1 ∉ seen := by simpa using h3
    refine ⟨?_, ?_⟩
    · intro g hg
      rcases List.mem_cons.1 hg with rfl | hg
      · exact h3'
      · exact fun hc => i1 g hg (List.mem_cons_of_mem _ hc)
    · simp only [List.map_cons, List.pairwise_cons]
      refine ⟨?_, i2⟩
      intro n hn heq
      obtain ⟨g, hg, rfl⟩ := List.mem_map.1 hn
      exact i1 g hg (by rw [heq]; exact List.mem_cons_self)

theorem rolesOkT_ci : ∀ (rs : List (Str × List Person)) (seen : List Str), rolesOkT seen rs = true →
    (∀ r ∈ rs, lowerU r.1 ∉ seen) ∧ (rs.map fun r => lowerU r.1).Pairwise (· ≠ ·) := by
  intro rs
  induction rs with
  | nil => intro _ _; exact ⟨by simp, by simp⟩
  | cons r rs ih =>
    intro seen h
    simp only [rolesOkT, Bool.and_eq_true, Bool.not_eq_true', List.all_eq_true, decide_eq_true_eq] at h
    obtain ⟨⟨⟨⟨_, h2⟩, _⟩, _⟩, h5⟩ := h
    obtain ⟨i1, i2⟩ := ih _ h5
    have h2' : lowerU r.1 ∉ seen := by simpa using h2
    refine ⟨?_, ?_⟩
    · intro g hg
      rcases List.mem_cons.1 hg with rfl | hg
      · exact h2'
      · exact fun hc => i1 g hg (List.mem_cons_of_mem _ hc)
    · simp only [List.map_cons, List.pairwise_cons]
      refine ⟨?_, i2⟩
      intro n hn heq
      obtain ⟨g, hg, rfl⟩ := List.mem_map.1 hn
      exact i1 g hg (by rw [heq]; exact List.mem_cons_self)

theorem entryLower_spec {yaml : Bool} {keys : List Str} {e : Entry} (h : entryOkT yaml keys e = true) :
    ({ entryLower e with key := lowerU e.key } : Entry) = lowerEntrySpec e := by
  simp only [entryOkT, Bool.and_eq_true] at h
  obtain ⟨⟨_, h3⟩, h4⟩ := h
  have f := (fieldsOkT_ci yaml e.fields [] h4).2
  have r := (rolesOkT_ci e.persons [] h3).2
  unfold entryLower lowerEntrySpec
  rw [ciOfPairs_id, ciOfPairs_id]
  · simpa [lowerU_idem, Function.comp_def] using r
  · simpa [lowerU_idem, Function.comp_def] using f

theorem dbLower_fold {yaml : Bool} : ∀ (es : List Entry) (keys : List Str) (acc : List Entry) (rep : List Str),
    entriesOkT yaml keys es = true → (∀ x ∈ acc, lowerU x.key ∈ keys) →
    (es.map fun e => (lowerU e.key, entryLower e)).foldl (fun a p => addEntryPlain a p.1 p.2) (acc, rep) =
      (acc ++ es.map lowerEntrySpec, rep) := by
  intro es
  induction es with
  | nil => intro _ acc rep _ _; simp
  | cons e es ih =>
    intro keys acc rep h hacc
    simp only [entriesOkT, Bool.and_eq_true] at h
    obtain ⟨h1, h2⟩ := h
    have hfresh : lowerU e.key ∉ keys := by
      have := h1
      simp only [entryOkT, Bool.and_eq_true, Bool.not_eq_true'] at this
      simpa using this.1.1.2
    have hany : acc.any (fun x => lowerU x.key = lowerU (lowerU e.key)) = false := by
      rw [List.any_eq_false]
      intro x hx heq
      simp only [decide_eq_true_eq, lowerU_idem] at heq
      have := hacc x hx
      rw [heq] at this
      exact hfresh this
    simp only [List.map_cons, List.foldl_cons]
    have hstep : addEntryPlain (acc, rep) (lowerU e.key) (entryLower e) = (acc ++ [lowerEntrySpec e], rep) := by
      simp only [addEntryPlain, hany, Bool.false_eq_true, if_false, entryLower_spec h1]
    rw [hstep, ih (lowerU e.key :: keys) (acc ++ [lowerEntrySpec e]) rep h2
      (by intro x hx; simp only [List.mem_append, List.mem_singleton] at hx
          rcases hx with hx | rfl
          · exact List.mem_cons_of_mem _ (hacc x hx)
          · simp [lowerEntrySpec])]
    simp

theorem dbLower_spec {yaml : Bool} {d : BibData} (h : WFDbTree yaml d = true) :
    dbLower d = (lowerSpec d, []) := by
  unfold dbLower addEntries
  rw [dbLower_fold d.entries [] [] [] h (by simp)]
  simp [lowerSpec]


/-! ### the domains are closed under what a round trip and `lower()` do -/

theorem rolesOkW_tree : ∀ (rs : List (Str × List Person)) (seen : List Str), rolesOkW seen rs = true →
    rolesOkT seen rs = true := by
  intro rs
  induction rs with
  | nil => intro _ _; rfl
  | cons r rs ih2 =>
    intro seen hh
    simp only [rolesOkW, Bool.and_eq_true, List.all_eq_true] at hh
    obtain ⟨⟨⟨⟨⟨⟨a1, a2⟩, a3⟩, a4⟩, a5⟩, _⟩, a7⟩ := hh
    have hl : lowerU r.1 = lower r.1 := lowerU_ascii (isAsciiStr_of_isName a1)
    simp only [rolesOkT, hl, Bool.and_eq_true, List.all_eq_true, a2, a3, a4, ih2 _ a7, and_true, true_and]
    intro p hp
    have := a5 p hp
    simp only [personOkW, Bool.and_eq_true] at this
    exact this.1

theorem fieldsOkW_tree : ∀ (fs : List (Str × Str)) (seen : List Str), fieldsOkW seen fs = true →
    fieldsOkT false seen fs = true := by
  intro fs
  induction fs with
  | nil => intro _ _; rfl
  | cons f fs ih2 =>
    intro seen hh
    simp only [fieldsOkW, Bool.and_eq_true] at hh
    obtain ⟨⟨⟨⟨a1, a2⟩, a3⟩, _⟩, a5⟩ := hh
    have ha := isAsciiStr_of_isName a1
    have hl : lowerU f.1 = lower f.1 := lowerU_ascii ha
    simp only [fieldsOkT, hl, Bool.and_eq_true, a2, a3, ih2 _ a5, lowerDomain_ascii ha, Bool.false_and,
      Bool.not_false, and_true]

theorem WFDb_tree {d : BibData} (h : WFDb d = true) : WFDbTree false d = true := by
  simp only [WFDb, Bool.and_eq_true] at h
  unfold WFDbTree
  have key : ∀ (es : List Entry) (keys : List Str), entriesOkW keys es = true → entriesOkT false keys es = true := by
    intro es
    induction es with
    | nil => intro _ _; rfl
    | cons e es ih =>
      intro keys hk
      simp only [entriesOkW, Bool.and_eq_true] at hk
      have he := hk.1
      simp only [entryOkW, Bool.and_eq_true, beq_iff_eq] at he
      obtain ⟨⟨⟨⟨⟨⟨⟨h1, _⟩, h3⟩, _⟩, hk5⟩, h5⟩, h6⟩, h7⟩ := he
      have hat := isAsciiStr_of_isName h1
      have hlk : lowerU e.key = lower e.key := lowerU_ascii hk5
      have hlt : lowerU e.origType = lower e.origType := lowerU_ascii hat
      simp only [entriesOkT, Bool.and_eq_true, hlk, ih _ hk.2, and_true]
      simp only [entryOkT, Bool.and_eq_true, hlk, hlt, h3, h5, rolesOkW_tree _ _ h6, fieldsOkW_tree _ _ h7,
        lowerDomain_ascii hat, lowerDomain_ascii hk5, beq_self_eq_true, and_true]
  exact key _ _ h.1

theorem inDomain_tree {f : Fmt} {d : BibData} (h : inDomain f d = true) : ∃ y, WFDbTree y d = true := by
  cases f with
  | bibtex => exact ⟨false, WFDb_tree h⟩
  | yaml => exact ⟨true, h⟩
  | bibtexml => exact ⟨false, h⟩

theorem canonPreamble_text (d : BibData) : (canonPreamble d).flatten = d.preambleText := by
  unfold canonPreamble
  split
  · rename_i h; simp [h]
  · simp

/-- the domain of a format only looks at the entries and at the text of the preamble -/
theorem inDomain_congr {f : Fmt} {d d' : BibData} (he : d'.entries = d.entries)
    (hp : d'.preambleText = d.preambleText ∨ d'.preambleText = []) (h : inDomain f d = true) :
    inDomain f d' = true := by
  cases f with
  | bibtex =>
    simp only [inDomain, WFDb, Bool.and_eq_true, Bool.or_eq_true, decide_eq_true_eq] at h ⊢
    rw [he]
    refine ⟨h.1, ?_⟩
    rcases hp with hp | hp
    · rw [hp]; exact h.2
    · exact Or.inl hp
  | yaml => simp only [inDomain, WFDbTree] at h ⊢; rw [he]; exact h
  | bibtexml => simp only [inDomain, WFDbTree] at h ⊢; rw [he]; exact h

theorem canonFor_entries (f : Fmt) (d : BibData) : (canonFor f d).entries = d.entries := by
  cases f <;> rfl

theorem canonFor_text (f : Fmt) (d : BibData) :
    (canonFor f d).preambleText = d.preambleText ∨ (canonFor f d).preambleText = [] := by
  cases f
  · left; exact canonPreamble_text d
  · left; exact canonPreamble_text d
  · right; rfl

theorem inDomain_canonFor {g f : Fmt} {d : BibData} (h : inDomain g d = true) : inDomain g (canonFor f d) = true :=
  inDomain_congr (canonFor_entries f d) (canonFor_text f d) h

/-- the serialisers are lossless and the encoder leaves safe strings alone -/
structure SerialOk (S : Serial) : Prop where
  enc : EncId S.encode
  yaml : ∀ t, S.loadY (S.dumpY t) = some t
  xml : ∀ t, S.loadX (S.dumpX t) = some t

theorem roundTrip_ok {S : Serial} (hS : SerialOk S) {f : Fmt} {d : BibData} (h : inDomain f d = true) :
    roundTrip S f d = .ok (canonFor f d) := by
  cases f with
  | bibtex => exact (roundTrip_bibtex S hS.enc h).1
  | yaml => exact roundTrip_yaml S hS.yaml h
  | bibtexml => exact roundTrip_xml S hS.xml h

/-! ### chains with `preserve_case = True` -/

theorem chainFrom_true {S : Serial} (hS : SerialOk S) : ∀ (fs : List Fmt) (d : BibData),
    (∀ f ∈ fs, inDomain f d = true) →
    chainFrom S true fs d = .ok (fs.foldl (fun d f => canonFor f d) d) := by
  intro fs
  induction fs with
  | nil => intro d _; rfl
  | cons f fs ih =>
    intro d h
    simp only [chainFrom, if_true, roundTrip_ok hS (h f (by simp)), List.foldl_cons]
    exact ih _ (fun g hg => inDomain_canonFor (h g (by simp [hg])))

theorem chain_true {S : Serial} (hS : SerialOk S) (fs : List Fmt) (d : BibData)
    (h : ∀ f ∈ fs, inDomain f d = true) :
    chain S true fs d = .ok (fs.foldl (fun d f => canonFor f d) d) := by
  cases fs with
  | nil => rfl
  | cons f fs =>
    simp only [chain, roundTrip_ok hS (h f (by simp)), List.foldl_cons]
    exact chainFrom_true hS fs _ (fun g hg => inDomain_canonFor (h g (by simp [hg])))

theorem canonPreamble_canonDb (d : BibData) : canonPreamble (canonDb d) = canonPreamble d := by
  by_cases h : d.preamble.flatten = []
  · simp [canonPreamble, canonDb, BibData.preambleText, h]
  · simp [canonPreamble, canonDb, BibData.preambleText, h]

theorem canonPreamble_canonFor (f : Fmt) (d : BibData) :
    canonPreamble (canonFor f d) = if f = .bibtexml then [] else canonPreamble d := by
  cases f
  · simpa [canonFor] using canonPreamble_canonDb d
  · simpa [canonFor] using canonPreamble_canonDb d
  · simp [canonFor, canonPreamble, BibData.preambleText]

theorem fold_canonFor : ∀ (fs : List Fmt) (d : BibData),
    fs.foldl (fun d f => canonFor f d) d = chainDb fs d := by
  intro fs
  induction fs with
  | nil => intro d; simp [chainDb]
  | cons f fs ih =>
    intro d
    rw [List.foldl_cons, ih]
    unfold chainDb
    simp only [canonFor_entries, reduceCtorEq, if_false, List.contains_cons]
    congr 1
    by_cases hfs : fs = []
    · subst hfs
      cases f <;> simp [canonFor, canonDb]
    · simp only [hfs, if_false, canonPreamble_canonFor]
      cases f <;> simp



/-! ### lower-cased identifiers stay valid -/

theorem lower_eq_applyMask : ∀ (s : Str), lower s = applyMask s (List.replicate s.length CaseCh.low) := by
  intro s
  induction s with
  | nil => rfl
  | cons c r ih => simp only [lower_cons, List.length_cons, List.replicate_succ, applyMask, applyCase, ih]

theorem isName_lower (s : Str) : isName (lower s) = isName s := by
  rw [lower_eq_applyMask, isName_applyMask]

theorem isPersonField_lower_self (n : Str) : isPersonField (lower n) = isPersonField n :=
  isPersonField_lower (lower_lower n)

theorem keyChar_lowerC (c : Char) :
    (!isWs (lowerC c) && decide (lowerC c ≠ ',') && (false || decide (lowerC c ≠ '}'))) =
    (!isWs c && decide (c ≠ ',') && (false || decide (c ≠ '}'))) := by
  have h1 : isWs (lowerC c) = isWs c :=
    (Pybtex.isWs_of_lowerC_eq (a := c) (b := lowerC c) (by
      show c.toLower = c.toLower.toLower
      exact (Char.toLower_toLower_eq_toLower c).symm)).symm
  have h2 : lowerC c = ',' ↔ c = ',' := Pybtex.lowerC_eq_iff (by decide)
  have h3 : lowerC c = '}' ↔ c = '}' := Pybtex.lowerC_eq_iff (by decide)
  simp only [h1, ne_eq, h2, h3]

theorem keyOk_lower (k : Str) : keyOk false (lower k) = keyOk false k := by
  unfold keyOk
  have h1 : (lower k ≠ []) = (k ≠ []) := by
    cases k <;> simp [lower]
  have h2 : (lower k).all (fun c => !isWs c && decide (c ≠ ',') && (false || decide (c ≠ '}'))) =
      k.all (fun c => !isWs c && decide (c ≠ ',') && (false || decide (c ≠ '}'))) := by
    unfold lower
    rw [List.all_map]
    congr 1
    funext c
    exact keyChar_lowerC c
  simp only [h1, h2]

theorem lowerC_ascii_table : (List.range 128).all (fun n => decide ((lowerC (Char.ofNat n)).toNat < 128)) = true := by
  decide +kernel

theorem isAsciiStr_lower {s : Str} (h : isAsciiStr s = true) : isAsciiStr (lower s) = true := by
  simp only [isAsciiStr, lower, List.all_map, List.all_eq_true, Function.comp_apply, decide_eq_true_eq] at h ⊢
  intro c hc
  have := lowerC_ascii_table
  simp only [List.all_eq_true, List.mem_range, decide_eq_true_eq] at this
  have h1 := this c.toNat (h c hc)
  rwa [Char.ofNat_toNat] at h1

theorem rolesOkT_lower : ∀ (rs : List (Str × List Person)) (seen : List Str),
    rolesOkT seen (rs.map fun r => (lowerU r.1, r.2)) = rolesOkT seen rs := by
  intro rs
  induction rs with
  | nil => intro _; rfl
  | cons r rs ih => intro seen; simp only [List.map_cons, rolesOkT, isPersonField_lowerU, lowerU_idem, ih]

theorem fieldsOkT_lower (y : Bool) : ∀ (fs : List (Str × Str)) (seen : List Str),
    fieldsOkT y seen fs = true → fieldsOkT y seen (fs.map fun f => (lowerU f.1, f.2)) = true := by
  intro fs
  induction fs with
  | nil => intro _ _; rfl
  | cons f fs ih =>
    intro seen h
    simp only [fieldsOkT, Bool.and_eq_true] at h
    obtain ⟨⟨⟨⟨a1, a2⟩, a3⟩, a4⟩, a5⟩ := h
    simp only [List.map_cons, fieldsOkT, isPersonField_lowerU, isType_lowerU, lowerU_idem, Bool.and_eq_true]
    exact ⟨⟨⟨⟨a1, a2⟩, lowerDomain_lowerU a3⟩, a4⟩, ih _ a5⟩

theorem rolesOkW_names : ∀ (rs : List (Str × List Person)) (seen : List Str), rolesOkW seen rs = true →
    (rs.map fun r => (lowerU r.1, r.2)) = (rs.map fun r => (lower r.1, r.2)) := by
  intro rs
  induction rs with
  | nil => intro _ _; rfl
  | cons r rs ih =>
    intro seen h
    simp only [rolesOkW, Bool.and_eq_true] at h
    simp only [List.map_cons, ih _ h.2, lowerU_ascii (isAsciiStr_of_isName h.1.1.1.1.1.1)]

theorem fieldsOkW_names : ∀ (fs : List (Str × Str)) (seen : List Str), fieldsOkW seen fs = true →
    (fs.map fun f => (lowerU f.1, f.2)) = (fs.map fun f => (lower f.1, f.2)) := by
  intro fs
  induction fs with
  | nil => intro _ _; rfl
  | cons f fs ih =>
    intro seen h
    simp only [fieldsOkW, Bool.and_eq_true] at h
    simp only [List.map_cons, ih _ h.2, lowerU_ascii (isAsciiStr_of_isName h.1.1.1.1)]

theorem rolesOkW_lower : ∀ (rs : List (Str × List Person)) (seen : List Str),
    rolesOkW seen (rs.map fun r => (lower r.1, r.2)) = rolesOkW seen rs := by
  intro rs
  induction rs with
  | nil => intro _; rfl
  | cons r rs ih =>
    intro seen
    simp only [List.map_cons, rolesOkW, isPersonField_lower_self, isName_lower, lower_lower, ih]

theorem fieldsOkW_lower : ∀ (fs : List (Str × Str)) (seen : List Str),
    fieldsOkW seen (fs.map fun f => (lower f.1, f.2)) = fieldsOkW seen fs := by
  intro fs
  induction fs with
  | nil => intro _; rfl
  | cons f fs ih =>
    intro seen
    simp only [List.map_cons, fieldsOkW, isPersonField_lower_self, isName_lower, lower_lower, ih]

theorem entriesOkT_lower (y : Bool) : ∀ (es : List Entry) (keys : List Str), entriesOkT y keys es = true →
    entriesOkT y keys (es.map lowerEntrySpec) = true := by
  intro es
  induction es with
  | nil => intro _ _; rfl
  | cons e es ih =>
    intro keys h
    simp only [entriesOkT, Bool.and_eq_true] at h
    obtain ⟨h1, h2⟩ := h
    simp only [entryOkT, Bool.and_eq_true, beq_iff_eq] at h1
    obtain ⟨⟨⟨⟨⟨a1, a2⟩, a3⟩, a4⟩, a5⟩, a6⟩ := h1
    simp only [List.map_cons, entriesOkT, Bool.and_eq_true]
    refine ⟨?_, ?_⟩
    · simp only [entryOkT, lowerEntrySpec, lowerU_idem, rolesOkT_lower, fieldsOkT_lower y _ _ a6, Bool.and_eq_true,
        beq_self_eq_true, true_and, and_true]
      refine ⟨⟨⟨?_, lowerDomain_lowerU a3⟩, a4⟩, a5⟩
      rw [a1]; exact lowerDomain_lowerU a2
    · have : lowerU (lowerEntrySpec e).key = lowerU e.key := by simp [lowerEntrySpec, lowerU_idem]
      rw [this]; exact ih _ h2

theorem entriesOkW_lower : ∀ (es : List Entry) (keys : List Str), entriesOkW keys es = true →
    entriesOkW keys (es.map lowerEntrySpec) = true := by
  intro es
  induction es with
  | nil => intro _ _; rfl
  | cons e es ih =>
    intro keys h
    simp only [entriesOkW, Bool.and_eq_true] at h
    obtain ⟨h1, h2⟩ := h
    simp only [entryOkW, Bool.and_eq_true, beq_iff_eq] at h1
    obtain ⟨⟨⟨⟨⟨⟨⟨a1, a2⟩, a3⟩, a4⟩, ak⟩, a5⟩, a6⟩, a7⟩ := h1
    have hlk : lowerU e.key = lower e.key := lowerU_ascii ak
    have hty : isName e.type = true := by rw [a3, isName_lower]; exact a1
    have hlt : lowerU e.type = lower e.type := lowerU_ascii (isAsciiStr_of_isName hty)
    simp only [List.map_cons, entriesOkW, Bool.and_eq_true]
    refine ⟨?_, ?_⟩
    · simp only [entryOkW, lowerEntrySpec, hlk, hlt, rolesOkW_names _ _ a6, fieldsOkW_names _ _ a7, lower_lower,
        rolesOkW_lower, fieldsOkW_lower, keyOk_lower, isAsciiStr_lower ak,
        Bool.and_eq_true, beq_self_eq_true, and_true, a4, a5, a6, a7]
      -- the entry type: `origType := e.type = lower e.origType`
      rw [a3, isName_lower, lower_lower]
      exact ⟨a1, a2⟩
    · have : lower (lowerEntrySpec e).key = lower e.key := by simp [lowerEntrySpec, hlk, lower_lower]
      rw [this]; exact ih _ h2

theorem inDomain_lower {f : Fmt} {d : BibData} (h : inDomain f d = true) : inDomain f (lowerSpec d) = true := by
  cases f with
  | bibtex =>
    simp only [inDomain, WFDb, Bool.and_eq_true] at h ⊢
    exact ⟨entriesOkW_lower _ _ h.1, h.2⟩
  | yaml => exact entriesOkT_lower true _ _ h
  | bibtexml => exact entriesOkT_lower false _ _ h



/-! ### chains with `preserve_case = False` -/

theorem lowerEntrySpec_idem {e : Entry} (h : e.type = lowerU e.origType) :
    lowerEntrySpec (lowerEntrySpec e) = lowerEntrySpec e := by
  have ht : lowerU e.type = e.type := by rw [h, lowerU_idem]
  simp only [lowerEntrySpec, lowerU_idem, ht, List.map_map, Function.comp_def]

theorem typeOk_of_tree {y : Bool} : ∀ (es : List Entry) (keys : List Str), entriesOkT y keys es = true →
    ∀ e ∈ es, e.type = lowerU e.origType := by
  intro es
  induction es with
  | nil => intro _ _ e he; simp at he
  | cons x es ih =>
    intro keys h e he
    simp only [entriesOkT, Bool.and_eq_true] at h
    rcases List.mem_cons.1 he with rfl | he
    · have := h.1
      simp only [entryOkT, Bool.and_eq_true, beq_iff_eq] at this
      exact this.1.1.1.1.1
    · exact ih _ h.2 e he

theorem chainFrom_false {S : Serial} (hS : SerialOk S) : ∀ (fs : List Fmt) (d : BibData),
    (∀ f ∈ fs, inDomain f d = true) →
    chainFrom S false fs d = .ok (fs.foldl (fun d f => canonFor f (lowerSpec d)) d) := by
  intro fs
  induction fs with
  | nil => intro d _; rfl
  | cons f fs ih =>
    intro d h
    obtain ⟨y, hy⟩ := inDomain_tree (h f (by simp))
    simp only [chainFrom, Bool.false_eq_true, if_false, dbLower_spec hy,
      roundTrip_ok hS (inDomain_lower (h f (by simp))), List.foldl_cons]
    exact ih _ (fun g hg => inDomain_canonFor (inDomain_lower (h g (by simp [hg]))))

theorem fold_lower_entries : ∀ (fs : List Fmt) (d : BibData), fs ≠ [] →
    (∀ e ∈ d.entries, e.type = lowerU e.origType) →
    (fs.foldl (fun d f => canonFor f (lowerSpec d)) d).entries = d.entries.map lowerEntrySpec := by
  intro fs
  induction fs with
  | nil => intro _ h; exact absurd rfl h
  | cons f fs ih =>
    intro d _ ht
    rw [List.foldl_cons]
    by_cases hfs : fs = []
    · subst hfs; simp [canonFor_entries, lowerSpec]
    · rw [ih _ hfs]
      · simp only [canonFor_entries, lowerSpec, List.map_map]
        apply List.map_congr_left
        intro e he
        exact lowerEntrySpec_idem (ht e he)
      · intro e he
        simp only [canonFor_entries, lowerSpec, List.mem_map] at he
        obtain ⟨x, _, rfl⟩ := he
        simp [lowerEntrySpec, lowerU_idem]

theorem fold_lower_preamble : ∀ (fs : List Fmt) (d1 d2 : BibData), d1.preamble = d2.preamble →
    (fs.foldl (fun d f => canonFor f (lowerSpec d)) d1).preamble =
      (fs.foldl (fun d f => canonFor f d) d2).preamble := by
  intro fs
  induction fs with
  | nil => intro d1 d2 h; exact h
  | cons f fs ih =>
    intro d1 d2 h
    rw [List.foldl_cons, List.foldl_cons]
    apply ih
    cases f <;> simp [canonFor, canonDb, canonPreamble, BibData.preambleText, lowerSpec, h]

theorem chain_false {S : Serial} (hS : SerialOk S) (f1 f2 : Fmt) (fs : List Fmt) (d : BibData)
    (h : ∀ f ∈ f1 :: f2 :: fs, inDomain f d = true) :
    ∃ d', chain S false (f1 :: f2 :: fs) d = .ok d' ∧ d'.entries = (lowerSpec d).entries ∧
      d'.preamble = (chainDb (f1 :: f2 :: fs) d).preamble := by
  have h1 := h f1 (by simp)
  have hrest : ∀ g ∈ f2 :: fs, inDomain g (canonFor f1 d) = true :=
    fun g hg => inDomain_canonFor (h g (by simp only [List.mem_cons] at hg ⊢; exact Or.inr hg))
  refine ⟨(f2 :: fs).foldl (fun d f => canonFor f (lowerSpec d)) (canonFor f1 d), ?_, ?_, ?_⟩
  · simp only [chain, roundTrip_ok hS h1]
    exact chainFrom_false hS (f2 :: fs) _ hrest
  · obtain ⟨y, hy⟩ := inDomain_tree h1
    rw [fold_lower_entries (f2 :: fs) _ (by simp)]
    · simp [canonFor_entries, lowerSpec]
    · rw [canonFor_entries]; exact typeOk_of_tree _ _ hy
  · rw [fold_lower_preamble (f2 :: fs) _ (canonFor f1 d) rfl, ← fold_canonFor]
    rfl


end Pybtex.C02
