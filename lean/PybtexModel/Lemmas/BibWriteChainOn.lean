/-
C02 helper lemmas, part 7: the round-trip and chain lemmas of `BibWriteChain.lean` with the
serialiser hypothesis asked PER TREE (`LosslessOn`: only for the trees pybtex hands the YAML / XML
library along the chain, `stages`), and the chain with everything reported on the way (`chainLog`).
-/
import PybtexModel.Lemmas.BibWriteChain

namespace Pybtex.C02
open Pybtex Pybtex.Spec Pybtex.Bib Pybtex.BibWrite Pybtex.BibSpec Pybtex.Names Pybtex.BibRT

/-- a serialiser that is lossless on every tree is lossless on each one -/
theorem losslessOn_of_all {S : Serial} (hY : ∀ t, S.loadY (S.dumpY t) = some t)
    (hX : ∀ t, S.loadX (S.dumpX t) = some t) (f : Fmt) (d : BibData) : LosslessOn S f d := by
  cases f
  · trivial
  · exact hY _
  · exact hX _

/-- one format: written without error, read back with nothing reported -/
theorem readBack_on {S : Serial} (henc : EncId S.encode) {f : Fmt} {d : BibData}
    (hl : LosslessOn S f d) (h : inDomain f d = true) :
    ∃ text, writeFmt S f d = .ok text ∧ readFmt S f text = .ok (cleanRead (canonFor f d)) := by
  cases f with
  | bibtex => exact (roundTrip_bibtex S henc h).2
  | yaml =>
    refine ⟨_, rfl, ?_⟩
    have hl' : S.loadY (S.dumpY (toDictYaml d)) = some (toDictYaml d) := hl
    simp only [readFmt, hl', Yaml.yaml_roundtrip d h, cleanRead, canonFor]
  | bibtexml =>
    refine ⟨_, rfl, ?_⟩
    have hl' : S.loadX (S.dumpX (toTreeXml d)) = some (toTreeXml d) := hl
    simp only [readFmt, hl', xml_roundtrip d h, cleanRead, canonFor]

theorem roundTrip_on {S : Serial} (henc : EncId S.encode) {f : Fmt} {d : BibData}
    (hl : LosslessOn S f d) (h : inDomain f d = true) : roundTrip S f d = .ok (canonFor f d) := by
  obtain ⟨text, h1, h2⟩ := readBack_on henc hl h
  simp only [roundTrip, h1, h2, cleanRead]

/-! ### chains, per-tree hypothesis -/

theorem chainFrom_true_on {S : Serial} (henc : EncId S.encode) : ∀ (fs : List Fmt) (d : BibData),
    (∀ f ∈ fs, inDomain f d = true) → (∀ p ∈ stagesFrom true fs d, LosslessOn S p.1 p.2) →
    chainFrom S true fs d = .ok (fs.foldl (fun d f => canonFor f d) d) := by
  intro fs
  induction fs with
  | nil => intro d _ _; rfl
  | cons f fs ih =>
    intro d h hl
    have h0 : LosslessOn S f d := hl (f, d) (by simp [stagesFrom])
    simp only [chainFrom, if_true, roundTrip_on henc h0 (h f (by simp)), List.foldl_cons]
    exact ih _ (fun g hg => inDomain_canonFor (h g (by simp [hg])))
      (fun p hp => hl p (by simp only [stagesFrom, if_true, List.mem_cons]; exact Or.inr hp))

theorem chain_true_on {S : Serial} (henc : EncId S.encode) (fs : List Fmt) (d : BibData)
    (h : ∀ f ∈ fs, inDomain f d = true) (hl : ∀ p ∈ stages true fs d, LosslessOn S p.1 p.2) :
    chain S true fs d = .ok (fs.foldl (fun d f => canonFor f d) d) := by
  cases fs with
  | nil => rfl
  | cons f fs =>
    have h0 : LosslessOn S f d := hl (f, d) (by simp [stages])
    simp only [chain, roundTrip_on henc h0 (h f (by simp)), List.foldl_cons]
    exact chainFrom_true_on henc fs _ (fun g hg => inDomain_canonFor (h g (by simp [hg])))
      (fun p hp => hl p (by simp only [stages, List.mem_cons]; exact Or.inr hp))

theorem chainFrom_false_on {S : Serial} (henc : EncId S.encode) : ∀ (fs : List Fmt) (d : BibData),
    (∀ f ∈ fs, inDomain f d = true) → (∀ p ∈ stagesFrom false fs d, LosslessOn S p.1 p.2) →
    chainFrom S false fs d = .ok (fs.foldl (fun d f => canonFor f (lowerSpec d)) d) := by
  intro fs
  induction fs with
  | nil => intro d _ _; rfl
  | cons f fs ih =>
    intro d h hl
    obtain ⟨y, hy⟩ := inDomain_tree (h f (by simp))
    have h0 : LosslessOn S f (lowerSpec d) := hl (f, lowerSpec d) (by simp [stagesFrom])
    simp only [chainFrom, Bool.false_eq_true, if_false, dbLower_spec hy,
      roundTrip_on henc h0 (inDomain_lower (h f (by simp))), List.foldl_cons]
    exact ih _ (fun g hg => inDomain_canonFor (inDomain_lower (h g (by simp [hg]))))
      (fun p hp => hl p (by
        simp only [stagesFrom, Bool.false_eq_true, if_false, List.mem_cons]; exact Or.inr hp))

theorem chain_false_on {S : Serial} (henc : EncId S.encode) (f1 f2 : Fmt) (fs : List Fmt) (d : BibData)
    (h : ∀ f ∈ f1 :: f2 :: fs, inDomain f d = true)
    (hl : ∀ p ∈ stages false (f1 :: f2 :: fs) d, LosslessOn S p.1 p.2) :
    ∃ d', chain S false (f1 :: f2 :: fs) d = .ok d' ∧ d'.entries = (lowerSpec d).entries ∧
      d'.preamble = (chainDb (f1 :: f2 :: fs) d).preamble := by
  have h1 := h f1 (by simp)
  have hrest : ∀ g ∈ f2 :: fs, inDomain g (canonFor f1 d) = true :=
    fun g hg => inDomain_canonFor (h g (by simp only [List.mem_cons] at hg ⊢; exact Or.inr hg))
  have h0 : LosslessOn S f1 d := hl (f1, d) (by simp [stages])
  refine ⟨(f2 :: fs).foldl (fun d f => canonFor f (lowerSpec d)) (canonFor f1 d), ?_, ?_, ?_⟩
  · simp only [chain, roundTrip_on henc h0 h1]
    exact chainFrom_false_on henc (f2 :: fs) _ hrest
      (fun p hp => hl p (by simp only [stages, List.mem_cons]; exact Or.inr hp))
  · obtain ⟨y, hy⟩ := inDomain_tree h1
    rw [fold_lower_entries (f2 :: fs) _ (by simp)]
    · simp [canonFor_entries, lowerSpec]
    · rw [canonFor_entries]; exact typeOk_of_tree _ _ hy
  · rw [fold_lower_preamble (f2 :: fs) _ (canonFor f1 d) rfl, ← fold_canonFor]
    rfl

/-! ### the chain with everything reported on the way -/

/-- `chainFromLog` is `chainFrom` plus a log (no hypotheses) -/
theorem chainFromLog_db (S : Serial) (pc : Bool) : ∀ (fs : List Fmt) (d : BibData),
    (chainFromLog S pc fs d).map (·.1) = chainFrom S pc fs d := by
  intro fs
  induction fs with
  | nil => intro d; rfl
  | cons f fs ih =>
    intro d
    simp only [chainFromLog, chainFrom, roundTrip]
    cases hw : writeFmt S f (if pc = true then d else (dbLower d).1) with
    | error e => rfl
    | ok text =>
      simp only []
      cases hr : readFmt S f text with
      | error e => rfl
      | ok r =>
        simp only []
        rw [← ih r.db]
        cases chainFromLog S pc fs r.db with
        | error e => rfl
        | ok x => rfl

/-- `chainLog` is `chain` plus a log (no hypotheses) -/
theorem chainLog_db (S : Serial) (pc : Bool) (fs : List Fmt) (d : BibData) :
    (chainLog S pc fs d).map (·.1) = chain S pc fs d := by
  cases fs with
  | nil => rfl
  | cons f fs =>
    simp only [chainLog, chain, roundTrip]
    cases hw : writeFmt S f d with
    | error e => rfl
    | ok text =>
      simp only []
      cases hr : readFmt S f text with
      | error e => rfl
      | ok r =>
        simp only []
        rw [← chainFromLog_db S pc fs r.db]
        cases chainFromLog S pc fs r.db with
        | error e => rfl
        | ok x => rfl

/-- every stage of the conversions is written without error and read back with nothing reported,
and `lower()` reports nothing -/
theorem chainFromLog_clean {S : Serial} (henc : EncId S.encode) (pc : Bool) :
    ∀ (fs : List Fmt) (d : BibData), (∀ f ∈ fs, inDomain f d = true) →
    (∀ p ∈ stagesFrom pc fs d, LosslessOn S p.1 p.2) →
    ∃ d', chainFromLog S pc fs d =
      .ok (d', (stagesFrom pc fs d).map fun p => (cleanRead (canonFor p.1 p.2), [])) := by
  intro fs
  induction fs with
  | nil => intro d _ _; exact ⟨d, rfl⟩
  | cons f fs ih =>
    intro d h hl
    obtain ⟨y, hy⟩ := inDomain_tree (h f (by simp))
    cases pc with
    | true =>
      have h0 : LosslessOn S f d := hl (f, d) (by simp [stagesFrom])
      obtain ⟨text, hw, hr⟩ := readBack_on henc h0 (h f (by simp))
      obtain ⟨d', hd'⟩ := ih (canonFor f d) (fun g hg => inDomain_canonFor (h g (by simp [hg])))
        (fun p hp => hl p (by simp only [stagesFrom, if_true, List.mem_cons]; exact Or.inr hp))
      refine ⟨d', ?_⟩
      simp only [chainFromLog, if_true, hw, hr, stagesFrom, List.map_cons]
      simp only [cleanRead] at hd' ⊢
      rw [hd']
    | false =>
      have h0 : LosslessOn S f (lowerSpec d) := hl (f, lowerSpec d) (by simp [stagesFrom])
      obtain ⟨text, hw, hr⟩ := readBack_on henc h0 (inDomain_lower (h f (by simp)))
      obtain ⟨d', hd'⟩ := ih (canonFor f (lowerSpec d))
        (fun g hg => inDomain_canonFor (inDomain_lower (h g (by simp [hg]))))
        (fun p hp => hl p (by
          simp only [stagesFrom, Bool.false_eq_true, if_false, List.mem_cons]; exact Or.inr hp))
      refine ⟨d', ?_⟩
      simp only [chainFromLog, Bool.false_eq_true, if_false, dbLower_spec hy, hw, hr, stagesFrom,
        List.map_cons]
      simp only [cleanRead] at hd' ⊢
      rw [hd']

theorem chainLog_clean {S : Serial} (henc : EncId S.encode) (pc : Bool) (fs : List Fmt) (d : BibData)
    (h : ∀ f ∈ fs, inDomain f d = true) (hl : ∀ p ∈ stages pc fs d, LosslessOn S p.1 p.2) :
    ∃ d', chainLog S pc fs d =
        .ok (d', (stages pc fs d).map fun p => (cleanRead (canonFor p.1 p.2), [])) ∧
      chain S pc fs d = .ok d' := by
  have key : ∃ d', chainLog S pc fs d =
      .ok (d', (stages pc fs d).map fun p => (cleanRead (canonFor p.1 p.2), [])) := by
    cases fs with
    | nil => exact ⟨d, rfl⟩
    | cons f fs =>
      have h0 : LosslessOn S f d := hl (f, d) (by simp [stages])
      obtain ⟨text, hw, hr⟩ := readBack_on henc h0 (h f (by simp))
      obtain ⟨d', hd'⟩ := chainFromLog_clean henc pc fs (canonFor f d)
        (fun g hg => inDomain_canonFor (h g (by simp [hg])))
        (fun p hp => hl p (by simp only [stages, List.mem_cons]; exact Or.inr hp))
      refine ⟨d', ?_⟩
      simp only [chainLog, hw, hr, stages, List.map_cons]
      simp only [cleanRead] at hd' ⊢
      rw [hd']
  obtain ⟨d', hd'⟩ := key
  refine ⟨d', hd', ?_⟩
  rw [← chainLog_db, hd']
  rfl

end Pybtex.C02
