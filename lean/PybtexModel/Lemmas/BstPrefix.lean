/-
Prefix versions of the round-trip lemmas (well-formed tokens / groups followed by anything) and
fuel monotonicity, used for the located-error theorems.
-/
import PybtexModel.Lemmas.BstRoundtrip

namespace Pybtex.Bst
open Pybtex.Scanner

abbrev GRes := Except Err (List Tok × St)

/-- more fuel does not change a result other than `outOfFuel` -/
theorem parseGroupF_mono : ∀ (n : Nat) (st : St) (r : GRes), parseGroupF n st = r →
    r ≠ .error .outOfFuel → parseGroupF (n + 1) st = r := by
  intro n
  induction n with
  | zero => intro st r h hr; simp [parseGroupF] at h; exact absurd h.symm hr
  | succ n ih =>
    intro st r h hr
    rw [parseGroupF] at h
    rw [parseGroupF]
    cases hreq : required groupPats none false st with
    | error e => rw [hreq] at h; exact h
    | ok x =>
      obtain ⟨⟨k, v⟩, st1⟩ := x
      rw [hreq] at h
      have lit : ∀ (k' : TokKind),
          (match mkLiteralE k' v st1.line with
            | .error e => (.error e : GRes)
            | .ok t =>
              match parseGroupF n st1 with
              | .error e => (.error e : GRes)
              | .ok (ts, st2) => .ok (t :: ts, st2)) = r →
          (match mkLiteralE k' v st1.line with
            | .error e => (.error e : GRes)
            | .ok t =>
              match parseGroupF (n + 1) st1 with
              | .error e => (.error e : GRes)
              | .ok (ts, st2) => .ok (t :: ts, st2)) = r := by
        intro k' hm
        cases hml : mkLiteralE k' v st1.line with
        | error e => rw [hml] at hm; exact hm
        | ok t =>
          rw [hml] at hm
          simp only [] at hm ⊢
          cases hg : parseGroupF n st1 with
          | error e =>
            rw [hg] at hm
            have hne : (.error e : GRes) ≠ .error .outOfFuel := by intro he; apply hr; rw [← (show (.error e : GRes) = r from hm), he]
            rw [ih st1 _ hg hne]; exact hm
          | ok y => rw [ih st1 _ hg (by simp)]; rw [hg] at hm; exact hm
      cases k with
      | lbrace =>
        simp only [] at h ⊢
        cases hb : parseGroupF n st1 with
        | error e =>
          rw [hb] at h
          have hne : (.error e : GRes) ≠ .error .outOfFuel := by intro he; apply hr; rw [← (show (.error e : GRes) = r from h), he]
          rw [ih st1 _ hb hne]; exact h
        | ok y =>
          obtain ⟨body, st2⟩ := y
          rw [ih st1 _ hb (by simp)]
          rw [hb] at h
          simp only [] at h ⊢
          cases ht : parseGroupF n st2 with
          | error e =>
            rw [ht] at h
            have hne : (.error e : GRes) ≠ .error .outOfFuel := by intro he; apply hr; rw [← (show (.error e : GRes) = r from h), he]
            rw [ih st2 _ ht hne]; exact h
          | ok z => rw [ih st2 _ ht (by simp)]; rw [ht] at h; exact h
      | rbrace => exact h
      | name => exact lit .name h
      | string => exact lit .string h
      | integer => exact lit .integer h

theorem parseGroupF_mono_le (n m : Nat) (st : St) (r : GRes) (h : parseGroupF n st = r)
    (hr : r ≠ .error .outOfFuel) (hm : n ≤ m) : parseGroupF m st = r := by
  induction m with
  | zero => have : n = 0 := by omega
            subst this; exact h
  | succ m ih =>
    by_cases hnm : n ≤ m
    · exact parseGroupF_mono m st r (ih hnm) hr
    · have : n = m + 1 := by omega
      subst this; exact h

/-- whatever some amount of fuel gives (other than `outOfFuel`) is what `parse_group` gives -/
theorem parseGroup_of_fuel (st : St) (n : Nat) (X : GRes) (h : parseGroupF n st = X)
    (hX : X ≠ .error .outOfFuel) : parseGroup st = X := by
  unfold parseGroup
  have had := parseGroupF_fuel (st.rest.length + 1) st (by omega)
  by_cases hn : n ≤ st.rest.length + 1
  · exact parseGroupF_mono_le n _ st X h hX hn
  · have hne : parseGroupF (st.rest.length + 1) st ≠ .error .outOfFuel := by
      intro he; rw [he] at had; exact had rfl
    have := parseGroupF_mono_le (st.rest.length + 1) n st _ rfl hne (by omega)
    rw [← this, h]

abbrev PRes := Except Err Program

theorem parseF_mono : ∀ (n : Nat) (st : St) (r : PRes), parseF n st = r →
    r ≠ .error .outOfFuel → parseF (n + 1) st = r := by
  intro n
  induction n with
  | zero => intro st r h hr; simp [parseF] at h; exact absurd h.symm hr
  | succ n ih =>
    intro st r h hr
    rw [parseF] at h
    rw [parseF]
    cases hc : parseCommand st with
    | error e => rw [hc] at h; cases e <;> exact h
    | ok x =>
      obtain ⟨c, st1⟩ := x
      rw [hc] at h
      simp only [] at h ⊢
      cases hp : parseF n st1 with
      | error e =>
        rw [hp] at h
        have hne : (.error e : PRes) ≠ .error .outOfFuel := by intro he; apply hr; rw [← (show (.error e : PRes) = r from h), he]
        rw [ih st1 _ hp hne]; exact h
      | ok p => rw [ih st1 _ hp (by simp)]; rw [hp] at h; exact h

theorem parseF_mono_le (n m : Nat) (st : St) (r : PRes) (h : parseF n st = r)
    (hr : r ≠ .error .outOfFuel) (hm : n ≤ m) : parseF m st = r := by
  induction m with
  | zero => have : n = 0 := by omega
            subst this; exact h
  | succ m ih =>
    by_cases hnm : n ≤ m
    · exact parseF_mono m st r (ih hnm) hr
    · have : n = m + 1 := by omega
      subst this; exact h

theorem parseText_of_fuel (text : Str) (n : Nat) (X : PRes) (h : parseF n (St.init text) = X)
    (hX : X ≠ .error .outOfFuel) : parseText text = X := by
  unfold parseText
  by_cases hn : n ≤ text.length + 1
  · exact parseF_mono_le n _ _ X h hX hn
  · have hne : parseF (text.length + 1) (St.init text) ≠ .error .outOfFuel := by
      intro he
      exact (parseF_fuel (text.length + 1) (St.init text) (by simp [St.init]) _ he).1 rfl
    have := parseF_mono_le (text.length + 1) n _ _ rfl hne (by omega)
    rw [← this, h]

/-- put the tokens already read in front of a result -/
def prepend (ts : List Tok) : GRes → GRes
  | .error e => .error e
  | .ok (ts2, st) => .ok (ts ++ ts2, st)

theorem prepend_ne_fuel (ts : List Tok) (X : GRes) (h : X ≠ .error .outOfFuel) :
    prepend ts X ≠ .error .outOfFuel := by
  cases X with
  | error e => simpa [prepend] using h
  | ok x => simp [prepend]

theorem prepend_nil (X : GRes) : prepend [] X = X := by
  cases X with
  | error e => rfl
  | ok x => rfl

theorem prepend_cons (t : Tok) (ts : List Tok) (X : GRes) :
    (match prepend ts X with
      | .error e => (.error e : GRes)
      | .ok (ts2, st2) => .ok (t :: ts2, st2)) = prepend (t :: ts) X := by
  cases X with
  | error e => rfl
  | ok x => rfl

/-- **group, with a continuation**: well-formed tokens are read one by one; whatever the loop
does with what follows is what it does after them -/
theorem group_prefixT (T : Str) (hT : TailOK T) : ∀ ts, ∀ (prev : Option Lex) (more : List Lex) (W : List Str) (ln : Nat),
    wfToks ts = true → (∀ x ∈ more, LexOK x) → GoodW prev (lexemesList ts ++ more) W →
    ∃ ln' prev', GoodW prev' more (W.drop (lexemesList ts).length) ∧
      ln' + nl (renderWT T more (W.drop (lexemesList ts).length))
        = ln + nl (renderWT T (lexemesList ts ++ more) W) ∧
      ∀ (n : Nat) (X : GRes),
        parseGroupF n ⟨renderWT T more (W.drop (lexemesList ts).length), ln'⟩ = X →
        X ≠ .error .outOfFuel →
        ∃ m, parseGroupF m ⟨renderWT T (lexemesList ts ++ more) W, ln⟩ = prepend ts X := by
  apply toks_induction
  · intro prev more W ln _ _ hg
    refine ⟨ln, prev, by simpa [lexemesList] using hg, by simp [lexemesList], ?_⟩
    intro n X h _
    exact ⟨n, by simpa [lexemesList, prepend_nil] using h⟩
  · intro t ts hs ih prev more W ln hwf hmore hg
    simp only [wfToks, Bool.and_eq_true] at hwf
    obtain ⟨hok, hmk, hkind, hshort⟩ := simpleLex_ok t hs hwf.1
    simp only [lexemesList, lexemes_simple t hs, List.singleton_append, List.cons_append,
      List.nil_append, List.length_cons] at hg ⊢
    obtain ⟨hw, _, hg'⟩ := hg
    have hfol := follows_of_goodT T hT (simpleLex t) _ _ hg'
    have hreq := required_lex (simpleLex t) hok (W.headD []) _ hw ln hfol none false
    obtain ⟨ln', prev', hgood, hcons, hcont⟩ :=
      ih (some (simpleLex t)) more W.tail (ln + (W.headD []).count '\n') hwf.2 hmore hg'
    rw [tail_drop] at hgood hcons hcont
    refine ⟨ln', prev', hgood, ?_, ?_⟩
    · rw [hcons]
      simp only [renderWT, nl_append, lex_text_no_nl _ hok]
      simp only [nl]; omega
    · intro n X h hX
      obtain ⟨m, hm⟩ := hcont n X h hX
      refine ⟨m + 1, ?_⟩
      simp only [renderWT]
      rw [parseGroupF_step_lit m _ _ _ _ hreq hkind hshort, hm, hmk]
      exact prepend_cons t ts X
  · intro body ts ihb iht prev more W ln hwf hmore hg
    simp only [wfToks, wfTok, Bool.and_eq_true] at hwf
    have hlex : lexemesList (.fn body :: ts) ++ more
        = .lb :: (lexemesList body ++ .rb :: (lexemesList ts ++ more)) := by
      simp [lexemesList, Tok.lexemes]
    have hlen : (lexemesList (.fn body :: ts)).length
        = (lexemesList body).length + (lexemesList ts).length + 2 := by
      simp [lexemesList, Tok.lexemes]; omega
    rw [hlex] at hg ⊢
    obtain ⟨hw, _, hg'⟩ := hg
    have hreq := required_lex .lb trivial (W.headD [])
      (renderWT T (lexemesList body ++ .rb :: (lexemesList ts ++ more)) W.tail) hw ln trivial none false
    have hmore' : ∀ x ∈ lexemesList ts ++ more, LexOK x := by
      intro x hx
      simp only [List.mem_append] at hx
      rcases hx with hx | hx
      · exact lexemesList_ok ts hwf.2 x hx
      · exact hmore x hx
    -- the nested group is complete: `group_rt` with any sufficient fuel
    have hbody := fun fuel hf => group_rtT T hT body (some .lb) (lexemesList ts ++ more) W.tail
      (ln + (W.headD []).count '\n') fuel hwf.1 hmore' hg' hf
    obtain ⟨W1, ln1, _, hgood1, hcons1, hdrop1⟩ := hbody ((lexemesList body).length + 1) (Nat.le_refl _)
    obtain ⟨ln2, prev2, hgood2, hcons2, hcont⟩ := iht (some .rb) more W1 ln1 hwf.2 hmore hgood1
    have hd : W1.drop (lexemesList ts).length = W.drop (lexemesList (.fn body :: ts)).length := by
      rw [hdrop1, tail_drop, List.drop_drop, hlen]; congr 1; omega
    rw [hd] at hgood2 hcons2 hcont
    refine ⟨ln2, prev2, hgood2, ?_, ?_⟩
    · rw [hcons2, hcons1]
      simp only [renderWT, nl_append, Lex.text]
      simp only [nl]; simp; omega
    · intro n X h hX
      obtain ⟨m, hm⟩ := hcont n X h hX
      let M := max m ((lexemesList body).length + 1)
      obtain ⟨W1', ln1', hp1', _, hcons1', hdrop1'⟩ := hbody M (by omega)
      have hW : W1' = W1 := by rw [hdrop1', hdrop1]
      subst hW
      have hl : ln1' = ln1 := by omega
      subst hl
      have hm' := parseGroupF_mono_le m M _ _ hm (prepend_ne_fuel ts X hX) (by omega)
      refine ⟨M + 1, ?_⟩
      simp only [renderWT]
      rw [parseGroupF_step_lb M _ _ _ hreq, hp1']
      simp only [hm']
      exact prepend_cons (.fn body) ts X

theorem group_prefix : ∀ ts, ∀ (prev : Option Lex) (more : List Lex) (W : List Str) (ln : Nat),
    wfToks ts = true → (∀ x ∈ more, LexOK x) → GoodW prev (lexemesList ts ++ more) W →
    ∃ ln' prev', GoodW prev' more (W.drop (lexemesList ts).length) ∧
      ln' + nl (renderW more (W.drop (lexemesList ts).length))
        = ln + nl (renderW (lexemesList ts ++ more) W) ∧
      ∀ (n : Nat) (X : GRes),
        parseGroupF n ⟨renderW more (W.drop (lexemesList ts).length), ln'⟩ = X →
        X ≠ .error .outOfFuel →
        ∃ m, parseGroupF m ⟨renderW (lexemesList ts ++ more) W, ln⟩ = prepend ts X := by
  simpa only [renderWT_nil] using group_prefixT [] TailOK.nil

/-- put the groups already read in front of a result -/
def prependG (gs : List (List Tok)) : Except Err (List (List Tok) × St) → Except Err (List (List Tok) × St)
  | .error e => .error e
  | .ok (gs2, st) => .ok (gs ++ gs2, st)

/-- **argument groups, with a continuation** -/
theorem groups_prefixT (T : Str) (hT : TailOK T) : ∀ (gs : List (List Tok)) (j : Nat) (prev : Option Lex) (more : List Lex)
    (W : List Str) (ln : Nat), gs.all wfToks = true → (∀ x ∈ more, LexOK x) →
    GoodW prev (groupsLexemes gs ++ more) W →
    ∃ ln', parseGroups (gs.length + j) ⟨renderWT T (groupsLexemes gs ++ more) W, ln⟩
        = prependG gs (parseGroups j ⟨renderWT T more (W.drop (groupsLexemes gs).length), ln'⟩) ∧
      GoodW (if gs = [] then prev else some .rb) more (W.drop (groupsLexemes gs).length) ∧
      ln' + nl (renderWT T more (W.drop (groupsLexemes gs).length))
        = ln + nl (renderWT T (groupsLexemes gs ++ more) W) := by
  intro gs
  induction gs with
  | nil =>
    intro j prev more W ln _ _ hg
    refine ⟨ln, ?_, by simpa [groupsLexemes] using hg, by simp [groupsLexemes]⟩
    simp only [groupsLexemes, List.nil_append, List.length_nil, Nat.zero_add, List.drop_zero]
    cases parseGroups j ⟨renderWT T more W, ln⟩ <;> rfl
  | cons g gs ih =>
    intro j prev more W ln hwf hmore hg
    simp only [List.all_cons, Bool.and_eq_true] at hwf
    have hlex : groupsLexemes (g :: gs) ++ more
        = .lb :: (lexemesList g ++ .rb :: (groupsLexemes gs ++ more)) := by
      simp [groupsLexemes, groupLexemes]
    rw [hlex] at hg ⊢
    obtain ⟨hw, _, hg'⟩ := hg
    have hmore' : ∀ x ∈ groupsLexemes gs ++ more, LexOK x := by
      intro x hx
      simp only [List.mem_append] at hx
      rcases hx with hx | hx
      · exact groupsLexemes_ok gs hwf.2 x hx
      · exact hmore x hx
    have hreq := required_text [(TokKind.lbrace, lbracePat)] .lbrace ['{']
      (renderWT T (lexemesList g ++ .rb :: (groupsLexemes gs ++ more)) W.tail) (W.headD [])
      (by simp) (by simp [headSat, isWs, wsCodes]) hw
      (by simp [firstMatch, lbracePat, litPat, matchLit]) none false ln
    have hallok : ∀ x ∈ lexemesList g ++ .rb :: (groupsLexemes gs ++ more), LexOK x := by
      intro x hx
      simp only [List.mem_append, List.mem_cons] at hx
      rcases hx with hx | rfl | hx
      · exact lexemesList_ok g hwf.1 x hx
      · trivial
      · exact hmore' x (by simpa using hx)
    have hfuel : (lexemesList g).length + 1 ≤
        (renderWT T (lexemesList g ++ .rb :: (groupsLexemes gs ++ more)) W.tail).length + 1 := by
      have := renderWT_length T _ hallok W.tail
      simp only [List.length_append, List.length_cons] at this
      omega
    obtain ⟨W1, ln1, hp1, hgood1, hcons1, hdrop1⟩ :=
      group_rtT T hT g (some .lb) (groupsLexemes gs ++ more) W.tail (ln + (W.headD []).count '\n') _
        hwf.1 hmore' hg' hfuel
    obtain ⟨ln2, hp2, hgood2, hcons2⟩ := ih j (some .rb) more W1 ln1 hwf.2 hmore hgood1
    have hd : W1.drop (groupsLexemes gs).length = W.drop (groupsLexemes (g :: gs)).length := by
      rw [hdrop1, tail_drop, List.drop_drop]
      congr 1
      simp [groupsLexemes, groupLexemes]; omega
    rw [hd] at hp2 hgood2 hcons2
    refine ⟨ln2, ?_, ?_, ?_⟩
    · have hl : (g :: gs).length + j = (gs.length + j) + 1 := by simp; omega
      rw [hl]
      simp only [parseGroups, renderWT]
      simp only [Lex.text, List.singleton_append] at hreq ⊢
      rw [hreq]
      simp only [parseGroup, hp1, hp2]
      cases parseGroups j ⟨renderWT T more (W.drop (groupsLexemes (g :: gs)).length), ln2⟩ <;> rfl
    · simp only [reduceCtorEq, if_false]
      by_cases hgs : gs = []
      · simpa [hgs] using hgood2
      · simpa [hgs] using hgood2
    · rw [hcons2, hcons1]
      simp only [renderWT, nl_append, Lex.text]
      simp only [nl]; simp; omega

theorem groups_prefix : ∀ (gs : List (List Tok)) (j : Nat) (prev : Option Lex) (more : List Lex)
    (W : List Str) (ln : Nat), gs.all wfToks = true → (∀ x ∈ more, LexOK x) →
    GoodW prev (groupsLexemes gs ++ more) W →
    ∃ ln', parseGroups (gs.length + j) ⟨renderW (groupsLexemes gs ++ more) W, ln⟩
        = prependG gs (parseGroups j ⟨renderW more (W.drop (groupsLexemes gs).length), ln'⟩) ∧
      GoodW (if gs = [] then prev else some .rb) more (W.drop (groupsLexemes gs).length) ∧
      ln' + nl (renderW more (W.drop (groupsLexemes gs).length))
        = ln + nl (renderW (groupsLexemes gs ++ more) W) := by
  simpa only [renderWT_nil] using groups_prefixT [] TailOK.nil

end Pybtex.Bst
