/-
Located syntax errors, from the source text: a well-formed program followed by an offending
lexeme, printed with any lay-out.
-/
import PybtexModel.Lemmas.BstLocated

namespace Pybtex.Bst
open Pybtex.Scanner

/-- the text handed to the parser for a printed lexeme sequence, with its line bookkeeping -/
theorem clean_of_source (ls : List Lex) (gaps : List Gap) (tr : Option CommentText)
    (hwf : ∀ l ∈ ls, wfLex l = true) :
    ∃ W, GoodW none ls W ∧
      stringText (render none ls gaps ++ trailerText tr) = renderW ls W ∧
      (∀ i, i < ls.length → nl (cleanBefore ls W i) = breaks (textBefore none ls gaps i)) := by
  obtain ⟨W, hgood, hpre, hlines, _⟩ :=
    pre_render_tail ls none gaps (trailerText tr) (trailer_tstart tr) hwf
  refine ⟨W, hgood, ?_, hlines⟩
  simp [stringText_eq_preSM, hpre, trailer_pre]

theorem parseF_one_error (st : St) (e : Err) (h : parseCommand st = .error e) (he : e ≠ .eof) :
    parseF 1 st = .error e := by
  cases e <;> simp_all [parseF]

/-- **not a command where a command is expected** (unknown name, stray brace, integer, string) -/
theorem located_bad_command (p : Program) (bad : Lex) (more : List Lex) (gaps : List Gap)
    (tr : Option CommentText) (hp : WFProg p) (hbad : wfLex bad = true)
    (hmore : ∀ x ∈ more, wfLex x = true) (hnc : NotCommand bad) :
    parseString (render none (Program.lexemes p ++ bad :: more) gaps ++ trailerText tr)
      = .error (.tokenRequired "BST command".toList
          (lexLine (Program.lexemes p ++ bad :: more) gaps (Program.lexemes p).length)) := by
  have hall : ∀ l ∈ Program.lexemes p ++ bad :: more, wfLex l = true := by
    intro l hl
    simp only [List.mem_append, List.mem_cons] at hl
    rcases hl with hl | rfl | hl
    · exact program_wfLex p hp l hl
    · exact hbad
    · exact hmore l hl
  obtain ⟨W, hgood, hclean, hlines⟩ := clean_of_source _ gaps tr hall
  unfold parseString
  rw [hclean]
  have hmoreok : ∀ x ∈ bad :: more, LexOK x := by
    intro x hx
    simp only [List.mem_cons] at hx
    rcases hx with rfl | hx
    · exact wfLex_ok _ hbad
    · exact wfLex_ok x (hmore x hx)
  obtain ⟨ln', prev', hpf, hgood', hcons⟩ :=
    program_prefix_rt p none (bad :: more) W 1 1 hp hmoreok hgood
  obtain ⟨hw, _, hgm⟩ := hgood'
  have hfol := follows_of_good bad more _ hgm
  have hpc := parseCommand_bad bad (wfLex_ok _ hbad) hnc ((W.drop (Program.lexemes p).length).headD [])
    (renderW more (W.drop (Program.lexemes p).length).tail) hw ln' hfol
  have hline := line_at (Program.lexemes p) bad more W gaps ln' hcons
    (hlines _ (by simp))
  apply parseText_of_fuel _ (1 + p.length) _ _ (by simp)
  unfold St.init
  rw [hpf, parseF_one_error _ _ (show parseCommand ⟨renderW (bad :: more) _, ln'⟩ = _ from hpc) (by simp), hline]

/-- **something else where the `{` of an argument group is expected** -/
theorem located_brace_expected (p : Program) (name : Str) (gs : List (List Tok)) (j : Nat)
    (bad : Lex) (more : List Lex) (gaps : List Gap) (tr : Option CommentText) (hp : WFProg p)
    (hname : wfName name = true) (har : cmdArity name = some (gs.length + (j + 1)))
    (hgs : gs.all wfToks = true) (hbad : wfLex bad = true) (hb : bad ≠ .lb)
    (hmore : ∀ x ∈ more, wfLex x = true) :
    parseString (render none
        (Program.lexemes p ++ .word name :: (groupsLexemes gs ++ bad :: more)) gaps ++ trailerText tr)
      = .error (.tokenRequired "'{'".toList
          (lexLine (Program.lexemes p ++ .word name :: (groupsLexemes gs ++ bad :: more)) gaps
            ((Program.lexemes p).length + 1 + (groupsLexemes gs).length))) := by
  obtain ⟨n1, n2, _⟩ := wfName_ok hname
  have hwname : wfLex (.word name) = true := by
    cases hn : name with
    | nil => exact absurd hn n1
    | cons ch r =>
      rw [hn] at hname
      simp only [wfName, Bool.and_eq_true] at hname
      simp only [wfLex, List.all_cons, hname.1.2, hname.2, Bool.and_self]
  have hgsl : ∀ l ∈ groupsLexemes gs, wfLex l = true := by
    clear har
    induction gs with
    | nil => intro l hl; simp [groupsLexemes] at hl
    | cons g gs ihg =>
      simp only [List.all_cons, Bool.and_eq_true] at hgs
      intro l hl
      simp only [groupsLexemes, groupLexemes, List.cons_append, List.mem_cons,
        List.mem_append, List.not_mem_nil, or_false] at hl
      rcases hl with rfl | (hl | rfl) | hl
      · rfl
      · exact groupLexemes_wfLex g hgs.1 l hl
      · rfl
      · exact ihg hgs.2 l hl
  have hall : ∀ l ∈ Program.lexemes p ++ .word name :: (groupsLexemes gs ++ bad :: more),
      wfLex l = true := by
    intro l hl
    simp only [List.mem_append, List.mem_cons] at hl
    rcases hl with hl | rfl | hl | rfl | hl
    · exact program_wfLex p hp l hl
    · exact hwname
    · exact hgsl l hl
    · exact hbad
    · exact hmore l hl
  obtain ⟨W, hgood, hclean, hlines⟩ := clean_of_source _ gaps tr hall
  unfold parseString
  rw [hclean]
  have hmoreok : ∀ x ∈ bad :: more, LexOK x := by
    intro x hx
    simp only [List.mem_cons] at hx
    rcases hx with rfl | hx
    · exact wfLex_ok _ hbad
    · exact wfLex_ok x (hmore x hx)
  have hmore1ok : ∀ x ∈ Lex.word name :: (groupsLexemes gs ++ bad :: more), LexOK x := by
    intro x hx
    exact wfLex_ok x (hall x (by simp only [List.mem_append]; exact Or.inr hx))
  obtain ⟨ln1, prev1, hpf, hgood1, hcons1⟩ :=
    program_prefix_rt p none (.word name :: (groupsLexemes gs ++ bad :: more)) W 1 1 hp hmore1ok hgood
  obtain ⟨ln2, hpc, hgood2, hcons2⟩ :=
    command_partial name gs (j + 1) prev1 (bad :: more) (W.drop (Program.lexemes p).length) ln1
      hname har hgs hmoreok hgood1
  rw [List.drop_drop] at hpc hgood2 hcons2
  obtain ⟨hw, _, _⟩ := hgood2
  have hpg := parseGroups_bad j bad (wfLex_ok _ hbad) hb
    ((W.drop ((Program.lexemes p).length + ((groupsLexemes gs).length + 1))).headD [])
    (renderW more (W.drop ((Program.lexemes p).length + ((groupsLexemes gs).length + 1))).tail) hw ln2
  have hidx : (Program.lexemes p).length + ((groupsLexemes gs).length + 1)
      = (Program.lexemes p ++ .word name :: groupsLexemes gs).length := by
    simp only [List.length_append, List.length_cons]
  have hidx2 : (Program.lexemes p).length + 1 + (groupsLexemes gs).length
      = (Program.lexemes p ++ .word name :: groupsLexemes gs).length := by
    simp only [List.length_append, List.length_cons]; omega
  have hls : Program.lexemes p ++ .word name :: (groupsLexemes gs ++ bad :: more)
      = (Program.lexemes p ++ .word name :: groupsLexemes gs) ++ bad :: more := by simp
  have hline : ln2 + nl ((W.drop ((Program.lexemes p).length + ((groupsLexemes gs).length + 1))).headD [])
      = lexLine (Program.lexemes p ++ .word name :: (groupsLexemes gs ++ bad :: more)) gaps
          ((Program.lexemes p).length + 1 + (groupsLexemes gs).length) := by
    rw [hidx2, hidx, hls]
    apply line_at
    · rw [← hidx, ← hls, hcons2, hcons1]
    · rw [← hls]; apply hlines; rw [hls]; simp
  have hpc' : parseCommand ⟨renderW (.word name :: (groupsLexemes gs ++ bad :: more))
      (W.drop (Program.lexemes p).length), ln1⟩
      = .error (.tokenRequired "'{'".toList
          (ln2 + nl ((W.drop ((Program.lexemes p).length + ((groupsLexemes gs).length + 1))).headD []))) := by
    rw [hpc]
    simp only [renderW] at hpg ⊢
    rw [hpg]; rfl
  apply parseText_of_fuel _ (1 + p.length) _ _ (by simp)
  unfold St.init
  rw [hpf, parseF_one_error _ _ hpc' (by simp), hline]

theorem groupsLexemes_wfLex (gs : List (List Tok)) (hgs : gs.all wfToks = true) :
    ∀ l ∈ groupsLexemes gs, wfLex l = true := by
  induction gs with
  | nil => intro l hl; simp [groupsLexemes] at hl
  | cons g gs ihg =>
    simp only [List.all_cons, Bool.and_eq_true] at hgs
    intro l hl
    simp only [groupsLexemes, groupLexemes, List.cons_append, List.mem_cons,
      List.mem_append, List.not_mem_nil, or_false] at hl
    rcases hl with rfl | (hl | rfl) | hl
    · rfl
    · exact groupLexemes_wfLex g hgs.1 l hl
    · rfl
    · exact ihg hgs.2 l hl

theorem wfName_wfLex {name : Str} (hname : wfName name = true) : wfLex (.word name) = true := by
  cases name with
  | nil => simp [wfName] at hname
  | cons ch r =>
    simp only [wfName, Bool.and_eq_true] at hname
    simp only [wfLex, List.all_cons, hname.1.2, hname.2, Bool.and_self]

/-- **the text ends where further argument groups are due** -/
theorem located_missing_groups (p : Program) (name : Str) (gs : List (List Tok)) (j : Nat)
    (gaps : List Gap) (tr : Option CommentText) (hp : WFProg p)
    (hname : wfName name = true) (har : cmdArity name = some (gs.length + (j + 1)))
    (hgs : gs.all wfToks = true) :
    parseString (render none (Program.lexemes p ++ .word name :: groupsLexemes gs) gaps
        ++ trailerText tr)
      = .error (.prematureEOF (eofLine (render none
          (Program.lexemes p ++ .word name :: groupsLexemes gs) gaps ++ trailerText tr))) := by
  have hls : Program.lexemes p ++ .word name :: groupsLexemes gs
      = Program.lexemes p ++ .word name :: (groupsLexemes gs ++ []) := by simp
  have hall : ∀ l ∈ Program.lexemes p ++ .word name :: (groupsLexemes gs ++ []), wfLex l = true := by
    intro l hl
    simp only [List.append_nil, List.mem_append, List.mem_cons] at hl
    rcases hl with hl | rfl | hl
    · exact program_wfLex p hp l hl
    · exact wfName_wfLex hname
    · exact groupsLexemes_wfLex gs hgs l hl
  rw [← last_line]
  rw [hls]
  obtain ⟨W, hgood, hclean, _⟩ := clean_of_source _ gaps tr hall
  unfold parseString
  rw [hclean]
  have hmore1ok : ∀ x ∈ Lex.word name :: (groupsLexemes gs ++ []), LexOK x := by
    intro x hx
    exact wfLex_ok x (hall x (by simp only [List.mem_append]; exact Or.inr hx))
  obtain ⟨ln1, prev1, hpf, hgood1, hcons1⟩ :=
    program_prefix_rt p none (.word name :: (groupsLexemes gs ++ [])) W 1 1 hp hmore1ok hgood
  obtain ⟨ln2, hpc, hgood2, hcons2⟩ :=
    command_partial name gs (j + 1) prev1 [] (W.drop (Program.lexemes p).length) ln1
      hname har hgs (by intro x hx; cases hx) hgood1
  have hw : White (renderW [] ((W.drop (Program.lexemes p).length).drop ((groupsLexemes gs).length + 1))) :=
    hgood2
  have hpg := parseGroups_eof j _ hw ln2
  have hpc' : parseCommand ⟨renderW (.word name :: (groupsLexemes gs ++ []))
      (W.drop (Program.lexemes p).length), ln1⟩
      = .error (.prematureEOF (1 + nl (renderW
          (Program.lexemes p ++ .word name :: (groupsLexemes gs ++ [])) W))) := by
    rw [hpc, hpg, ← hcons1, ← hcons2]; rfl
  apply parseText_of_fuel _ (1 + p.length) _ _ (by simp)
  unfold St.init
  rw [hpf, parseF_one_error _ _ hpc' (by simp)]

/-- **an argument group is never closed** -/
theorem located_open_group (p : Program) (name : Str) (gs : List (List Tok)) (j : Nat)
    (ts : List Tok) (gaps : List Gap) (tr : Option CommentText) (hp : WFProg p)
    (hname : wfName name = true) (har : cmdArity name = some (gs.length + (j + 1)))
    (hgs : gs.all wfToks = true) (hts : wfToks ts = true) :
    parseString (render none
        (Program.lexemes p ++ .word name :: (groupsLexemes gs ++ .lb :: lexemesList ts)) gaps
        ++ trailerText tr)
      = .error (.prematureEOF (eofLine (render none
          (Program.lexemes p ++ .word name :: (groupsLexemes gs ++ .lb :: lexemesList ts)) gaps
          ++ trailerText tr))) := by
  have htsl := groupLexemes_wfLex ts hts
  have hall : ∀ l ∈ Program.lexemes p ++ .word name :: (groupsLexemes gs ++ .lb :: lexemesList ts),
      wfLex l = true := by
    intro l hl
    simp only [List.mem_append, List.mem_cons] at hl
    rcases hl with hl | rfl | hl | rfl | hl
    · exact program_wfLex p hp l hl
    · exact wfName_wfLex hname
    · exact groupsLexemes_wfLex gs hgs l hl
    · rfl
    · exact htsl l hl
  rw [← last_line]
  obtain ⟨W, hgood, hclean, _⟩ := clean_of_source _ gaps tr hall
  unfold parseString
  rw [hclean]
  have hmoreok : ∀ x ∈ Lex.lb :: lexemesList ts, LexOK x := by
    intro x hx
    simp only [List.mem_cons] at hx
    rcases hx with rfl | hx
    · trivial
    · exact wfLex_ok x (htsl x hx)
  have hmore1ok : ∀ x ∈ Lex.word name :: (groupsLexemes gs ++ .lb :: lexemesList ts), LexOK x := by
    intro x hx
    exact wfLex_ok x (hall x (by simp only [List.mem_append]; exact Or.inr hx))
  obtain ⟨ln1, prev1, hpf, hgood1, hcons1⟩ :=
    program_prefix_rt p none (.word name :: (groupsLexemes gs ++ .lb :: lexemesList ts)) W 1 1 hp
      hmore1ok hgood
  obtain ⟨ln2, hpc, hgood2, hcons2⟩ :=
    command_partial name gs (j + 1) prev1 (.lb :: lexemesList ts) (W.drop (Program.lexemes p).length)
      ln1 hname har hgs hmoreok hgood1
  generalize hW3 : (W.drop (Program.lexemes p).length).drop ((groupsLexemes gs).length + 1) = W3
    at hpc hgood2 hcons2
  obtain ⟨hw3, _, hg3⟩ := hgood2
  have hreq := required_text [(TokKind.lbrace, lbracePat)] .lbrace ['{']
    (renderW (lexemesList ts) W3.tail) (W3.headD [])
    (by simp) (by simp [headSat, isWs, wsCodes]) hw3
    (by simp [firstMatch, lbracePat, litPat, matchLit]) none false ln2
  have hg3' : GoodW (some .lb) (lexemesList ts ++ []) W3.tail := by simpa using hg3
  obtain ⟨ln4, prev4, hgood4, hcons4, hcont⟩ :=
    group_prefix ts (some .lb) [] W3.tail (ln2 + (W3.headD []).count '\n') hts
      (by intro x hx; cases hx) hg3'
  have hw4 : White (renderW [] (W3.tail.drop (lexemesList ts).length)) := hgood4
  obtain ⟨m, hm⟩ := hcont 1 _ (parseGroupF_eof 0 _ hw4 ln4) (by simp)
  have hpgr : parseGroup ⟨renderW (lexemesList ts) W3.tail, ln2 + (W3.headD []).count '\n'⟩
      = .error (.prematureEOF (ln4 + nl (renderW [] (W3.tail.drop (lexemesList ts).length)))) := by
    apply parseGroup_of_fuel _ m _ _ (by simp)
    simpa [prepend] using hm
  have hline : ln4 + nl (renderW [] (W3.tail.drop (lexemesList ts).length))
      = 1 + nl (renderW
          (Program.lexemes p ++ .word name :: (groupsLexemes gs ++ .lb :: lexemesList ts)) W) := by
    rw [hcons4, ← hcons1, ← hcons2]
    simp only [renderW, List.append_nil, nl_append, Lex.text]
    simp only [nl]; simp; omega
  have hpg : parseGroups (j + 1) ⟨renderW (.lb :: lexemesList ts) W3, ln2⟩
      = .error (.prematureEOF (1 + nl (renderW
          (Program.lexemes p ++ .word name :: (groupsLexemes gs ++ .lb :: lexemesList ts)) W))) := by
    simp only [parseGroups, renderW, Lex.text]
    rw [hreq]
    simp only [hpgr, hline]
  have hpc' : parseCommand ⟨renderW (.word name :: (groupsLexemes gs ++ .lb :: lexemesList ts))
      (W.drop (Program.lexemes p).length), ln1⟩
      = .error (.prematureEOF (1 + nl (renderW
          (Program.lexemes p ++ .word name :: (groupsLexemes gs ++ .lb :: lexemesList ts)) W))) := by
    rw [hpc, hpg]; rfl
  apply parseText_of_fuel _ (1 + p.length) _ _ (by simp)
  unfold St.init
  rw [hpf, parseF_one_error _ _ hpc' (by simp)]

end Pybtex.Bst
