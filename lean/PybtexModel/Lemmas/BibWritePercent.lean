/-
Percent signs in the preamble (C02, round 2): `_write_preamble` sends the preamble through
`_encode_with_comments`, which keeps `%`.  The BibTeX round trip of `Lemmas/BibWriteDb.lean`
(`parseBib_written`) is repeated here for the modelled encoder `encodeLatex` on the wider domain
`WFDbP`: the preamble only has to be free of `# & _ ~`.
-/
import PybtexModel.Lemmas.BibWriteDb
import PybtexModel.Lemmas.BibWriteEncode

namespace Pybtex.C02
open Pybtex Pybtex.Spec Pybtex.Bib Pybtex.BibWrite Pybtex.BibSpec Pybtex.Names Pybtex.BibRT

/-- `WFDb` with the preamble condition relaxed: balanced (nesting ≤ 100), white-space-normalised,
free of `# & _ ~` — percent signs allowed -/
def WFDbP (d : BibData) : Bool :=
  entriesOkW [] d.entries && (d.preambleText = [] || (valueOkQ d.preambleText && SafeC d.preambleText))

theorem encId_latex : EncId encodeLatex := fun s hs => encodeLatexAux_safe s hs

theorem writePreamble_pct {d : BibData} (hp : d.preambleText ≠ [])
    (h1 : litScan false 0 d.preambleText = some 0) (h3 : SafeC d.preambleText = true) :
    writePreamble encodeLatex d.preambleText = .ok (preambleOut d) := by
  unfold writePreamble preambleOut
  rw [if_neg hp, if_neg hp, encodeWithComments_safeC _ h3, quote_ok h1]
  have e1 : "@preamble{".toList = '@' :: ("preamble".toList ++ ['{']) := by decide
  have e2 : "}\n\n".toList = ['}', '\n', '\n'] := by decide
  rw [e1, e2]
  simp only [renderCmd, preambleLayout, kw, applyMask_nil, renderValue, renderMore, List.headD_cons,
    opener, closer, Bool.false_eq_true, if_false, List.nil_append, List.append_nil, List.cons_append,
    List.append_assoc]

theorem parseBib_written_pct (d : BibData) (h : WFDbP d = true) (strict : Bool) :
    ∃ text s', writeStream encodeLatex d = .ok text ∧ parseBib text strict none = (s', none) ∧
      s'.errs = [] ∧ s'.db.entries = d.entries ∧ s'.db.preamble = canonPreamble d := by
  simp only [WFDbP, Bool.and_eq_true, Bool.or_eq_true, decide_eq_true_eq] at h
  obtain ⟨hes, hpre⟩ := h
  by_cases hp : d.preambleText = []
  · exact parseBib_written encId_latex d (by simp [WFDb, hes, hp]) strict
  · have hv : valueOkQ d.preambleText = true ∧ SafeC d.preambleText = true := by
      rcases hpre with h0 | h0
      · exact absurd h0 hp
      · exact h0
    obtain ⟨hq, hsc⟩ := hv
    have hq' : litScan false 0 d.preambleText = some 0 ∧ normalizeWs d.preambleText = d.preambleText := by
      simpa [valueOkQ] using hq
    obtain ⟨hv1, hv2⟩ := hq'
    refine ⟨preambleOut d ++ entriesText true d.entries, ?_⟩
    have hw : writeStream encodeLatex d = .ok (preambleOut d ++ entriesText true d.entries) := by
      unfold writeStream
      rw [writePreamble_pct hp hv1 hsc, writeEntries_ok encId_latex d.entries true [] hes]
    have hout : preambleOut d = renderCmd (.preamble [Piece.lit d.preambleText]) (preambleLayout d.preambleText) := by
      simp [preambleOut, hp]
    obtain ⟨T, hT⟩ : ∃ T, renderCmd (.preamble [Piece.lit d.preambleText]) (preambleLayout d.preambleText) = '@' :: T :=
      ⟨_, rfl⟩
    have hcmd : cmdOk initMacros [] (.preamble [Piece.lit d.preambleText]) (preambleLayout d.preambleText) = true := by
      simp only [cmdOk, preambleLayout, valueOk, moreOk, List.headD_cons, pieceOk_spell initMacros hv1,
        Bool.and_true, Bool.true_and]
      decide
    let s0 : St := { rest := T ++ entriesText true d.entries, macros := CIDict.ofPairs Gen.monthMacros, db := {},
                     strict := strict, roles := Gen.personRoles }
    have hinv0 : LoopInv s0 initMacros {} [] := loopInv_init _ strict
    obtain ⟨ln1, h1⟩ := parseCommand_preamble initMacros [] [Piece.lit d.preambleText] (preambleLayout d.preambleText)
      { s0 with ln := s0.ln + countNl ([] ++ ['@']) } (entriesText true d.entries) (by rw [hT]; rfl) hcmd hinv0.mac
    let s1 : St :=
      { s0 with rest := (preambleLayout d.preambleText).afterClose ++ entriesText true d.entries, ln := ln1,
                curKey := none, curFields := [], curFieldName := none,
                curValue := expandPieces initMacros [Piece.lit d.preambleText],
                db := { s0.db with preamble := s0.db.preamble ++ [normalizeWs (expand initMacros [Piece.lit d.preambleText])] } }
    obtain ⟨s', keys', h2, h3⟩ := parseLoop_entries d.entries true ((T ++ entriesText true d.entries).length + 1) s1
      (preambleLayout d.preambleText).afterClose { preamble := [d.preambleText] } [] rfl
      (by intro c hc; simp [preambleLayout] at hc; subst hc; decide) hes
      ⟨hinv0.mac, ⟨rfl, rfl, rfl⟩, rfl, by simp [s1, s0, expand_lit, hv2], rfl, by simp⟩
      (by simp only [List.length_append]; omega)
    refine ⟨s', hw, ?_, h3.errs, ?_, ?_⟩
    · rw [hout, hT]
      unfold parseBib
      simp only [List.cons_append, List.length_cons]
      rw [parseLoop_at _ _ [] _ (by rfl) (by simp)]
      rw [h1]
      simp only [processCmd_preamble]
      exact h2
    · rw [h3.entries]; simp
    · rw [h3.preamble]; simp [canonPreamble, hp]

end Pybtex.C02

namespace Pybtex.C02
open Pybtex Pybtex.Spec Pybtex.Bib Pybtex.BibWrite Pybtex.BibSpec

theorem safeC_of_safe {s : Str} (h : Safe s = true) : SafeC s = true := by
  simp only [Safe, SafeC, List.all_eq_true] at h ⊢
  intro c hc
  have := h c hc
  simp only [isFive, Bool.not_eq_true', Bool.or_eq_false_iff, decide_eq_false_iff_not] at this ⊢
  obtain ⟨⟨⟨⟨a, _⟩, b⟩, c'⟩, d⟩ := this
  exact ⟨⟨⟨a, b⟩, c'⟩, d⟩

/-- the relaxed domain contains the claimed one -/
theorem wfDbP_of_wfDb {d : BibData} (h : WFDb d = true) : WFDbP d = true := by
  simp only [WFDb, WFDbP, Bool.and_eq_true, Bool.or_eq_true, decide_eq_true_eq] at h ⊢
  refine ⟨h.1, ?_⟩
  rcases h.2 with h0 | h0
  · exact Or.inl h0
  · obtain ⟨a, b, c⟩ := valueOkW_iff.1 h0
    exact Or.inr ⟨by simp [valueOkQ, a, b], safeC_of_safe c⟩

end Pybtex.C02
