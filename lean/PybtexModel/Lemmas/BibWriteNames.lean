/-
C02 helper lemmas, part 2: name tokens, `split_tex_string(' '.join(tokens)) = tokens`, the comma
and ` and ` separators, and the person round trips.
-/
import PybtexModel.Lemmas.BibWriteSplit
import PybtexModel.Spec.BibWrite

namespace Pybtex.C02
open Pybtex Pybtex.Spec Pybtex.BibWrite Pybtex.BibSpec Pybtex.Names

/-! ### name tokens are separator-free for the blank / tie separator -/

theorem lvl0Ok_noSep_space (rest : Str) : ∀ (x : Str) (d : Nat) (pb : Bool) (prev : Option Char),
    lvl0Ok d pb x = true → (pb = true → prev = some '\\') →
    (x.getLast? = some '\\' → rest.head? ≠ some ' ') →
    NoSep .space rest d prev x := by
  intro x
  induction x with
  | nil => intro d pb prev _ _ _; trivial
  | cons c r ih =>
    intro d pb prev h hpb hlast
    have hlast' : r.getLast? = some '\\' → rest.head? ≠ some ' ' := by
      intro hr
      apply hlast
      cases r with
      | nil => simp at hr
      | cons c2 r2 => rw [List.getLast?_cons_cons]; exact hr
    by_cases h1 : c = '{'
    · subst h1
      simp only [lvl0Ok, if_true] at h
      simp only [NoSep, if_true]
      exact ih _ _ _ h (by simp) hlast'
    · by_cases h2 : c = '}'
      · subst h2
        simp only [lvl0Ok, show ¬ ('}' = '{') by decide, if_false, if_true] at h
        simp only [NoSep, show ¬ ('}' = '{') by decide, if_false, if_true]
        exact ih _ _ _ h (by simp) hlast'
      · by_cases hd : d = 0
        · subst hd
          simp only [lvl0Ok, if_neg h1, if_neg h2, if_true, Bool.and_eq_true, Bool.not_eq_true',
            bne_iff_ne, ne_eq, Bool.or_eq_true] at h
          obtain ⟨⟨⟨hws, hcomma⟩, htie⟩, hrest⟩ := h
          simp only [NoSep, if_neg h1, if_neg h2, ne_eq, not_true_eq_false, if_false]
          refine ⟨?_, ih _ _ _ hrest (by intro hb; simp at hb; rw [hb]) hlast'⟩
          simp only [sepMatch]
          by_cases hbs : c = '\\'
          · subst hbs
            cases r with
            | nil =>
              have := hlast (by simp)
              cases rest with
              | nil => exact spaceRun_bs_nil prev
              | cons c2 r2 =>
                simp only [List.nil_append]
                exact spaceRun_bs_other prev r2 (by simpa using this)
            | cons c2 r2 =>
              simp only [List.cons_append]
              apply spaceRun_bs_other
              -- the next character is a brace or a level-0 character of the token: not a blank
              intro hc2
              subst hc2
              simp [lvl0Ok, isWs, wsCodes] at hrest
          · rw [spaceRun_nbs prev _ hbs]
            simp only [hws, Bool.false_eq_true, if_false]
            rw [if_neg]
            rintro ⟨rfl, hp⟩
            rcases htie with htie | htie
            · exact htie rfl
            · exact hp (hpb htie)
        · simp only [lvl0Ok, if_neg h1, if_neg h2, if_neg hd] at h
          simp only [NoSep, if_neg h1, if_neg h2, ne_eq, hd, not_false_eq_true, if_true]
          exact ih _ _ _ h (by simp) hlast'

/-! ### `litScan` (balanced, nesting ≤ 100) against `depthAfter` / `maxDepth` -/

theorem litScan_depthAfter : ∀ (s : Str) (d e : Nat), litScan false d s = some e → depthAfter d s = some e := by
  intro s
  induction s with
  | nil => intro d e h; simpa [litScan, depthAfter] using h
  | cons c r ih =>
    intro d e h
    simp only [litScan] at h
    simp only [depthAfter]
    by_cases h1 : c = '{'
    · simp only [h1, if_true] at h ⊢
      split at h
      · cases h
      · exact ih _ _ h
    · by_cases h2 : c = '}'
      · simp only [h2, show ¬ ('}' = '{') by decide, if_false, if_true] at h ⊢
        split at h
        · cases h
        · rename_i hd; rw [if_neg hd]; exact ih _ _ h
      · simp only [if_neg h1, if_neg h2] at h ⊢
        simp only [Bool.false_eq_true, false_and, and_false, if_false] at h
        exact ih _ _ h

theorem litScan_maxDepth : ∀ (s : Str) (d e : Nat), litScan false d s = some e → d ≤ 100 →
    maxDepth d s ≤ 100 := by
  intro s
  induction s with
  | nil => intro d e _ hd; simpa [maxDepth] using hd
  | cons c r ih =>
    intro d e h hd
    simp only [litScan] at h
    simp only [maxDepth]
    by_cases h1 : c = '{'
    · simp only [h1, if_true] at h ⊢
      split at h
      · cases h
      · rename_i hlt
        have := ih _ _ h (by omega)
        omega
    · by_cases h2 : c = '}'
      · simp only [h2, show ¬ ('}' = '{') by decide, if_false, if_true] at h ⊢
        split at h
        · cases h
        · have := ih _ _ h (by omega)
          omega
      · simp only [if_neg h1, if_neg h2] at h ⊢
        simp only [Bool.false_eq_true, false_and, and_false, if_false] at h
        have := ih _ _ h hd
        omega

theorem litScan_scan {s : Str} (h : litScan false 0 s = some 0) : (scan s).isSome = true := by
  have := (scanM_isSome_iff (.norm 0) s (by simp [maxLevel])).2
  apply this
  simpa [maxLevel] using litScan_maxDepth s 0 0 h (by omega)


theorem lvl0Ok_open (d : Nat) (pb : Bool) (r : Str) : lvl0Ok d pb ('{' :: r) = lvl0Ok (d + 1) false r := by
  rw [lvl0Ok]; simp
theorem lvl0Ok_close (d : Nat) (pb : Bool) (r : Str) : lvl0Ok d pb ('}' :: r) = lvl0Ok (d - 1) false r := by
  rw [lvl0Ok]; simp
theorem lvl0Ok_deep {d : Nat} (pb : Bool) {c : Char} (r : Str) (hd : d ≠ 0) (h1 : c ≠ '{') (h2 : c ≠ '}') :
    lvl0Ok d pb (c :: r) = lvl0Ok d false r := by
  rw [lvl0Ok]; simp [h1, h2, hd]
theorem lvl0Ok_zero (pb : Bool) {c : Char} (r : Str) (h1 : c ≠ '{') (h2 : c ≠ '}') :
    lvl0Ok 0 pb (c :: r) = (!isWs c && c != ',' && (c != '~' || pb) && lvl0Ok 0 (c == '\\') r) := by
  rw [lvl0Ok]; simp [h1, h2]

/-! ### tokens -/

/-- a token that can be written and read back: non-empty, balanced, clean at level 0, not ending in
a backslash -/
def TokGood (t : Str) : Prop := tokCore t = true ∧ noBsEnd t = true

theorem TokGood.ne_nil {t : Str} (h : TokGood t) : t ≠ [] := by
  have := h.1
  simp only [tokCore, Bool.and_eq_true, decide_eq_true_eq] at this
  exact this.1.1

theorem TokGood.lvl {t : Str} (h : TokGood t) : lvl0Ok 0 false t = true := by
  have := h.1
  simp only [tokCore, Bool.and_eq_true] at this
  exact this.1.2

theorem TokGood.lit {t : Str} (h : TokGood t) : litScan false 0 t = some 0 := by
  have := h.1
  simp only [tokCore, Bool.and_eq_true, beq_iff_eq] at this
  exact this.2

theorem TokGood.bal {t : Str} (h : TokGood t) : depthAfter 0 t = some 0 := litScan_depthAfter t 0 0 h.lit

theorem TokGood.sat {t : Str} (h : TokGood t) : depthSat 0 t = 0 := depthSat_of_depthAfter t 0 0 h.bal

theorem TokGood.noBs {t : Str} (h : TokGood t) : t.getLast? ≠ some '\\' := by
  have := h.2
  simpa [noBsEnd] using this

theorem TokGood.noSep {t : Str} (h : TokGood t) (rest : Str) (prev : Option Char) :
    NoSep .space rest 0 prev t :=
  lvl0Ok_noSep_space rest t 0 false prev h.lvl (by simp) (fun hl => absurd hl h.noBs)

theorem lvl0Ok_head {c : Char} {r : Str} {pb : Bool} (h : lvl0Ok 0 pb (c :: r) = true) : isWs c = false := by
  by_cases h1 : c = '{'
  · subst h1; decide
  · by_cases h2 : c = '}'
    · subst h2; decide
    · simp only [lvl0Ok, if_neg h1, if_neg h2, if_true, Bool.and_eq_true, Bool.not_eq_true'] at h
      exact h.1.1.1

theorem lvl0Ok_last : ∀ (x : Str) (d : Nat) (pb : Bool), lvl0Ok d pb x = true → depthSat d x = 0 →
    ∀ c, x.getLast? = some c → isWs c = false := by
  intro x
  induction x with
  | nil => intro d pb _ _ c hc; simp at hc
  | cons a r ih =>
    intro d pb h hs c hc
    cases r with
    | nil =>
      simp only [List.getLast?_singleton, Option.some.injEq] at hc
      subst hc
      by_cases h1 : a = '{'
      · subst h1; decide
      · by_cases h2 : a = '}'
        · subst h2; decide
        · simp only [depthSat, if_neg h1, if_neg h2] at hs
          subst hs
          exact lvl0Ok_head h
    | cons b r2 =>
      rw [List.getLast?_cons_cons] at hc
      by_cases h1 : a = '{'
      · subst h1
        rw [lvl0Ok_open] at h
        rw [depthSat] at hs; simp only [if_true] at hs
        exact ih _ _ h hs c hc
      · by_cases h2 : a = '}'
        · subst h2
          rw [lvl0Ok_close] at h
          rw [depthSat] at hs; simp only [show ¬ ('}' = '{') by decide, if_false, if_true] at hs
          exact ih _ _ h hs c hc
        · rw [depthSat] at hs; simp only [if_neg h1, if_neg h2] at hs
          by_cases hd : d = 0
          · subst hd
            rw [lvl0Ok_zero pb _ h1 h2] at h
            simp only [Bool.and_eq_true] at h
            exact ih _ _ h.2 hs c hc
          · rw [lvl0Ok_deep pb _ hd h1 h2] at h
            exact ih _ _ h hs c hc

theorem strip_eq_self {t : Str} (h1 : ∀ c, t.head? = some c → isWs c = false)
    (h2 : ∀ c, t.getLast? = some c → isWs c = false) : strip t = t := by
  cases t with
  | nil => rfl
  | cons c r =>
    have hc : isWs c = false := h1 c rfl
    have hl : lstrip (c :: r) = c :: r := by simp [lstrip, List.dropWhile, hc]
    unfold strip
    rw [hl]
    unfold rstrip
    have hne : (c :: r).reverse ≠ [] := by simp
    obtain ⟨x, xs, hx⟩ : ∃ x xs, (c :: r).reverse = x :: xs := by
      cases hr : (c :: r).reverse with
      | nil => exact absurd hr hne
      | cons x xs => exact ⟨x, xs, rfl⟩
    have hxl : (c :: r).getLast? = some x := by
      rw [← List.reverse_reverse (c :: r), hx]; simp
    have hxw : isWs x = false := h2 x hxl
    rw [hx]
    simp only [List.dropWhile, hxw]
    rw [← hx, List.reverse_reverse]

theorem TokGood.strip {t : Str} (h : TokGood t) : Pybtex.strip t = t := by
  apply strip_eq_self
  · intro c hc
    cases t with
    | nil => simp at hc
    | cons a r => simp only [List.head?_cons, Option.some.injEq] at hc; subst hc; exact lvl0Ok_head h.lvl
  · exact lvl0Ok_last t 0 false h.lvl h.sat

/-- no blank / tie separator starts at the beginning of a token -/
theorem TokGood.spaceRun_start {t : Str} (h : TokGood t) (more : Str) :
    spaceRun (some ' ') (t ++ more) = 0 := by
  cases t with
  | nil => exact absurd rfl h.ne_nil
  | cons c r =>
    by_cases h1 : c = '{'
    · subst h1; exact spaceRun_brace _ _ (Or.inr ⟨_, rfl⟩)
    · by_cases h2 : c = '}'
      · subst h2
        simp only [List.cons_append]
        rw [spaceRun_nbs _ _ (by decide)]; simp [isWs, wsCodes]
      · have := h.noSep more (some ' ')
        simp only [NoSep, if_neg h1, if_neg h2, ne_eq, not_true_eq_false, if_false] at this
        exact this.1

/-! ### `split_tex_string(' '.join(tokens)) = tokens` -/

theorem flat_space_toks : ∀ (ts : List Str) (prev : Option Char), ts ≠ [] → (∀ t ∈ ts, TokGood t) →
    flat .space 0 prev [] (joinWith [' '] ts) = ts := by
  intro ts
  induction ts with
  | nil => intro _ h; exact absurd rfl h
  | cons t ts ih =>
    intro prev _ hg
    have ht := hg t (by simp)
    cases ts with
    | nil =>
      simp only [joinWith]
      have := flat_noSep .space [] t 0 prev [] (ht.noSep [] prev)
      simp only [List.append_nil, List.nil_append] at this
      rw [this, flat_nil]
    | cons t2 ts2 =>
      simp only [joinWith]
      rw [List.append_assoc, flat_noSep .space _ t 0 prev [] (ht.noSep _ prev), ht.sat]
      simp only [List.nil_append, List.singleton_append]
      have ht2 := hg t2 (by simp)
      have hJ : ∃ more, joinWith [' '] (t2 :: ts2) = t2 ++ more := by
        cases ts2 with
        | nil => exact ⟨[], by simp [joinWith]⟩
        | cons t3 ts3 => exact ⟨[' '] ++ joinWith [' '] (t3 :: ts3), by simp [joinWith]⟩
      obtain ⟨more, hmore⟩ := hJ
      have hm : sepMatch .space (prevAfter 0 prev t) (' ' :: joinWith [' '] (t2 :: ts2)) = 1 := by
        simp only [sepMatch]
        rw [spaceRun_nbs _ _ (by decide)]
        simp only [show isWs ' ' = true by decide, if_true]
        rw [hmore, ht2.spaceRun_start]
      rw [flat_sep .space _ t _ (by decide) (by decide) (by rw [hm]; decide), hm]
      simp only [Nat.sub_self, List.getElem?_cons_zero, List.drop_succ_cons, List.drop_zero]
      rw [ih (some ' ') (by simp) (fun x hx => hg x (by simp [hx]))]

theorem depthAfter_join {sep : Str} (hsep : ∀ c ∈ sep, c ≠ '{' ∧ c ≠ '}') :
    ∀ (ts : List Str), (∀ t ∈ ts, depthAfter 0 t = some 0) → depthAfter 0 (joinWith sep ts) = some 0 := by
  intro ts
  induction ts with
  | nil => intro _; rfl
  | cons t ts ih =>
    intro h
    cases ts with
    | nil => simpa [joinWith] using h t (by simp)
    | cons t2 ts2 =>
      simp only [joinWith, depthAfter_append, h t (by simp), Option.bind_some, depthAfter_plain sep hsep 0]
      exact ih (fun x hx => h x (by simp [hx]))

theorem joinWith_ne_nil {sep : Str} {t : Str} {ts : List Str} (ht : t ≠ []) : joinWith sep (t :: ts) ≠ [] := by
  cases ts with
  | nil => simpa [joinWith] using ht
  | cons t2 ts2 => simp [joinWith, ht]

theorem splitTex_space_join (ts : List Str) (hg : ∀ t ∈ ts, TokGood t) :
    splitTex .space (joinWith [' '] ts) = ts := by
  by_cases hne : ts = []
  · subst hne; decide
  · have hbal : depthAfter 0 (joinWith [' '] ts) = some 0 :=
      depthAfter_join (by simp) ts (fun t ht => (hg t ht).bal)
    have hs : joinWith [' '] ts ≠ [] := by
      cases ts with
      | nil => exact absurd rfl hne
      | cons t ts => exact joinWith_ne_nil (hg t (by simp)).ne_nil
    have hraw : splitTexRaw .space (joinWith [' '] ts) = ts := by
      rw [splitTexRaw_flat .space _ hbal hs, flat_space_toks ts none hne hg]
    have hmap : ts.map strip = ts := by
      rw [List.map_congr_left (g := id) (fun t ht => (hg t ht).strip)]; simp
    have hfil : ts.filter (fun x => decide (x ≠ [])) = ts := by
      rw [List.filter_eq_self]
      intro t ht; simpa using (hg t ht).ne_nil
    show (if Sep.space = Sep.space then ((splitTexRaw .space (joinWith [' '] ts)).map strip).filter (· ≠ [])
      else (splitTexRaw .space (joinWith [' '] ts)).map strip) = ts
    rw [hraw, hmap, if_pos rfl, hfil]

/-! ### the comma separator -/

/-- no comma at brace level 0 -/
def noComma0 : Nat → Str → Bool
  | _, [] => true
  | d, c :: r =>
    if c = '{' then noComma0 (d + 1) r
    else if c = '}' then noComma0 (d - 1) r
    else (d != 0 || c != ',') && noComma0 d r

theorem noComma0_append : ∀ (x y : Str) (d : Nat),
    noComma0 d (x ++ y) = (noComma0 d x && noComma0 (depthSat d x) y) := by
  intro x
  induction x with
  | nil => intro y d; simp [noComma0, depthSat]
  | cons c r ih =>
    intro y d
    simp only [List.cons_append, noComma0, depthSat]
    by_cases h1 : c = '{'
    · simp only [h1, if_true, ih]
    · by_cases h2 : c = '}'
      · simp only [h2, show ¬ ('}' = '{') by decide, if_false, if_true, ih]
      · simp only [if_neg h1, if_neg h2, ih, Bool.and_assoc]

theorem lvl0Ok_noComma0 : ∀ (x : Str) (d : Nat) (pb : Bool), lvl0Ok d pb x = true → noComma0 d x = true := by
  intro x
  induction x with
  | nil => intro _ _ _; rfl
  | cons c r ih =>
    intro d pb h
    by_cases h1 : c = '{'
    · subst h1; rw [lvl0Ok_open] at h; simp only [noComma0, if_true]; exact ih _ _ h
    · by_cases h2 : c = '}'
      · subst h2; rw [lvl0Ok_close] at h
        simp only [noComma0, show ¬ ('}' = '{') by decide, if_false, if_true]; exact ih _ _ h
      · simp only [noComma0, if_neg h1, if_neg h2, Bool.and_eq_true, Bool.or_eq_true, bne_iff_ne, ne_eq]
        by_cases hd : d = 0
        · subst hd
          rw [lvl0Ok_zero pb _ h1 h2] at h
          simp only [Bool.and_eq_true, bne_iff_ne, ne_eq] at h
          exact ⟨Or.inr h.1.1.2, ih _ _ h.2⟩
        · rw [lvl0Ok_deep pb _ hd h1 h2] at h
          exact ⟨Or.inl hd, ih _ _ h⟩

theorem noComma0_join_space : ∀ (ts : List Str), (∀ t ∈ ts, TokGood t) → noComma0 0 (joinWith [' '] ts) = true := by
  intro ts
  induction ts with
  | nil => intro _; rfl
  | cons t ts ih =>
    intro h
    have ht := h t (by simp)
    cases ts with
    | nil => simpa [joinWith] using lvl0Ok_noComma0 t 0 false ht.lvl
    | cons t2 ts2 =>
      simp only [joinWith, List.append_assoc, noComma0_append, ht.sat, lvl0Ok_noComma0 t 0 false ht.lvl, Bool.true_and]
      rw [show depthSat 0 [' '] = 0 by decide, show noComma0 0 [' '] = true by decide, Bool.true_and]
      exact ih (fun x hx => h x (by simp [hx]))

theorem noComma0_noSep (rest : Str) : ∀ (x : Str) (d : Nat) (prev : Option Char),
    noComma0 d x = true → NoSep .comma rest d prev x := by
  intro x
  induction x with
  | nil => intro _ _ _; trivial
  | cons c r ih =>
    intro d prev h
    by_cases h1 : c = '{'
    · subst h1; simp only [noComma0, if_true] at h; simp only [NoSep, if_true]; exact ih _ _ h
    · by_cases h2 : c = '}'
      · subst h2
        simp only [noComma0, show ¬ ('}' = '{') by decide, if_false, if_true] at h
        simp only [NoSep, show ¬ ('}' = '{') by decide, if_false, if_true]; exact ih _ _ h
      · simp only [noComma0, if_neg h1, if_neg h2, Bool.and_eq_true, Bool.or_eq_true, bne_iff_ne, ne_eq] at h
        by_cases hd : d = 0
        · subst hd
          simp only [NoSep, if_neg h1, if_neg h2, ne_eq, not_true_eq_false, if_false]
          refine ⟨?_, ih _ _ h.2⟩
          rcases h.1 with h0 | h0
          · exact absurd rfl h0
          · simp [sepMatch, h0]
        · simp only [NoSep, if_neg h1, if_neg h2, ne_eq, hd, not_false_eq_true, if_true]
          exact ih _ _ h.2

/-- a chunk: balanced and without comma at level 0 -/
def Chunk (x : Str) : Prop := noComma0 0 x = true ∧ depthAfter 0 x = some 0

theorem flat_comma_chunks : ∀ (xs : List Str) (prev : Option Char), xs ≠ [] → (∀ x ∈ xs, Chunk x) →
    flat .comma 0 prev [] (joinWith [','] xs) = xs := by
  intro xs
  induction xs with
  | nil => intro _ h; exact absurd rfl h
  | cons x xs ih =>
    intro prev _ hx
    have h0 := hx x (by simp)
    have hsat : depthSat 0 x = 0 := depthSat_of_depthAfter x 0 0 h0.2
    cases xs with
    | nil =>
      simp only [joinWith]
      have := flat_noSep .comma [] x 0 prev [] (noComma0_noSep [] x 0 prev h0.1)
      simp only [List.append_nil, List.nil_append] at this
      rw [this, flat_nil]
    | cons x2 xs2 =>
      simp only [joinWith]
      rw [List.append_assoc, flat_noSep .comma _ x 0 prev [] (noComma0_noSep _ x 0 prev h0.1), hsat]
      simp only [List.nil_append, List.singleton_append]
      have hm : ∀ pv, sepMatch .comma pv (',' :: joinWith [','] (x2 :: xs2)) = 1 := by
        intro pv; simp [sepMatch]
      rw [flat_sep .comma _ x _ (by decide) (by decide) (by rw [hm]; decide), hm]
      simp only [Nat.sub_self, List.getElem?_cons_zero, List.drop_succ_cons, List.drop_zero]
      rw [ih (some ',') (by simp) (fun y hy => hx y (by simp [hy]))]

theorem splitTex_comma_chunks (xs : List Str) (hne : xs ≠ []) (hx : ∀ x ∈ xs, Chunk x)
    (hs : joinWith [','] xs ≠ []) :
    splitTex .comma (joinWith [','] xs) = xs.map strip := by
  have hbal : depthAfter 0 (joinWith [','] xs) = some 0 :=
    depthAfter_join (by simp) xs (fun x h => (hx x h).2)
  have hraw : splitTexRaw .comma (joinWith [','] xs) = xs := by
    rw [splitTexRaw_flat .comma _ hbal hs, flat_comma_chunks xs none hne hx]
  show (if Sep.comma = Sep.space then ((splitTexRaw .comma (joinWith [','] xs)).map strip).filter (· ≠ [])
      else (splitTexRaw .comma (joinWith [','] xs)).map strip) = xs.map strip
  rw [hraw, if_neg (by decide)]


/-! ### joining non-empty tokens -/

theorem joinWith_eq_nil_iff {sep : Str} {ts : List Str} (h : ∀ t ∈ ts, t ≠ []) :
    joinWith sep ts = [] ↔ ts = [] := by
  constructor
  · intro hj
    cases ts with
    | nil => rfl
    | cons t ts => exact absurd hj (joinWith_ne_nil (h t (by simp)))
  · rintro rfl; rfl

theorem joinWith_append {sep : Str} : ∀ (a b : List Str), a ≠ [] → b ≠ [] →
    joinWith sep (a ++ b) = joinWith sep a ++ sep ++ joinWith sep b := by
  intro a
  induction a with
  | nil => intro b h; exact absurd rfl h
  | cons x a ih =>
    intro b _ hb
    cases a with
    | nil =>
      cases b with
      | nil => exact absurd rfl hb
      | cons y b => simp [joinWith]
    | cons x2 a2 =>
      have := ih b (by simp) hb
      simp only [List.cons_append, joinWith] at this ⊢
      rw [this]; simp

/-! ### persons -/

/-- `WFPerson` unpacked -/
structure PersonGood (p : Person) : Prop where
  toks : ∀ t ∈ personTokens p, TokGood t
  last_ne : p.last ≠ []
  last_novon : ∀ t ∈ p.last.dropLast, isLow t = false
  prelast_von : p.prelast = [] ∨ ∃ t, p.prelast.getLast? = some t ∧ isLow t = true
  first_le : p.first.length ≤ 1
  first_mid : p.first = [] → p.middle = []

theorem personGood_of_wf {p : Person} (h : WFPerson p = true) : PersonGood p := by
  simp only [WFPerson, WFPersonCore, Bool.and_eq_true, List.all_eq_true, decide_eq_true_eq,
    Bool.or_eq_true, Bool.not_eq_true'] at h
  obtain ⟨⟨⟨⟨⟨⟨h1, h2⟩, h3⟩, h4⟩, h5⟩, h6⟩, h7⟩ := h
  refine ⟨fun t ht => ⟨h1 t ht, h7 t ht⟩, h2, h3, ?_, h5, ?_⟩
  · rcases h4 with h4 | h4
    · exact Or.inl h4
    · right
      cases hl : p.prelast.getLast? with
      | none => rw [hl] at h4; simp at h4
      | some t => rw [hl] at h4; exact ⟨t, rfl, by simpa using h4⟩
  · intro hf
    rcases h6 with h6 | h6
    · exact absurd hf h6
    · exact h6

theorem PersonGood.mem {p : Person} (hg : PersonGood p) :
    (∀ t ∈ p.first, TokGood t) ∧ (∀ t ∈ p.middle, TokGood t) ∧ (∀ t ∈ p.prelast, TokGood t) ∧
    (∀ t ∈ p.last, TokGood t) ∧ (∀ t ∈ p.lineage, TokGood t) := by
  refine ⟨?_, ?_, ?_, ?_, ?_⟩ <;> intro t ht <;> apply hg.toks <;> simp [personTokens, ht]

theorem vonLast_split (pre last : List Str) (hl : last ≠ [])
    (h1 : ∀ t ∈ last.dropLast, isLow t = false)
    (h2 : pre = [] ∨ ∃ t, pre.getLast? = some t ∧ isLow t = true) :
    Spec.vonLast (pre ++ last) = (pre, last) := by
  rw [vonLast_eq, vonLastWith_eq]
  have hD : (pre ++ last).dropLast = pre ++ last.dropLast := List.dropLast_append_of_ne_nil hl
  have hX := dropLast_append_drop_sub_one (pre ++ last)
  rw [hD] at hX ⊢
  have hnone : (last.dropLast.reverse).findIdx isLow = last.dropLast.length := by
    rw [← List.length_reverse]
    apply List.findIdx_eq_length_of_false
    intro t ht
    simpa using h1 t (by simpa using ht)
  have hidx : ((pre ++ last.dropLast).reverse).findIdx isLow = last.dropLast.length := by
    rw [List.reverse_append, List.findIdx_append, hnone]
    simp only [List.length_reverse, Nat.lt_irrefl, if_false]
    rcases h2 with rfl | ⟨t, ht, hv⟩
    · simp
    · have : pre.reverse.head? = some t := by rw [List.head?_reverse]; exact ht
      cases hr : pre.reverse with
      | nil => rw [hr] at this; simp at this
      | cons a r =>
        rw [hr] at this
        simp only [List.head?_cons, Option.some.injEq] at this
        subst this
        simp [List.findIdx_cons, hv]
  rw [hidx]
  have hpos : (pre ++ last.dropLast).length - last.dropLast.length = pre.length := by simp
  rw [hpos, List.take_left', List.drop_left']
  · congr 1
    have : pre ++ (last.dropLast ++ (pre ++ last).drop ((pre ++ last).length - 1)) = pre ++ last := by
      rw [← List.append_assoc]; exact hX
    exact List.append_cancel_left this
  · rfl
  · rfl


/-! ### the text of a name -/

def vlText (p : Person) : Str := joinWith [' '] (p.prelast ++ p.last)
def jrText (p : Person) : Str := joinWith [' '] p.lineage
def fmText (p : Person) : Str := joinWith [' '] (p.first ++ p.middle)

/-- the comma-separated chunks of the written name -/
def chunksOf (p : Person) : List Str :=
  [vlText p] ++ (if p.lineage ≠ [] then [' ' :: jrText p] else []) ++
  (if p.first ≠ [] then [' ' :: fmText p] else if keepsEmptyFirst p then [[]] else [])

theorem joinNonEmpty_pair {a b : List Str} (ha : ∀ t ∈ a, t ≠ []) (hb : ∀ t ∈ b, t ≠ []) :
    joinNonEmpty [partText a, partText b] = joinWith [' '] (a ++ b) := by
  unfold joinNonEmpty partText
  by_cases h1 : a = []
  · subst h1
    by_cases h2 : b = []
    · subst h2; rfl
    · have : joinWith [' '] b ≠ [] := fun h => h2 ((joinWith_eq_nil_iff hb).1 h)
      simp [List.filter, joinWith, this]
  · have h1' : joinWith [' '] a ≠ [] := fun h => h1 ((joinWith_eq_nil_iff ha).1 h)
    by_cases h2 : b = []
    · subst h2
      simp [List.filter, joinWith, h1']
    · have h2' : joinWith [' '] b ≠ [] := fun h => h2 ((joinWith_eq_nil_iff hb).1 h)
      rw [joinWith_append a b h1 h2]
      simp [List.filter, joinWith, h1', h2']

theorem formatName_chunks {p : Person} (hg : PersonGood p) :
    formatName p = joinWith [','] (chunksOf p) := by
  obtain ⟨m1, m2, m3, m4, m5⟩ := hg.mem
  have n1 : ∀ t ∈ p.first, t ≠ [] := fun t h => (m1 t h).ne_nil
  have n2 : ∀ t ∈ p.middle, t ≠ [] := fun t h => (m2 t h).ne_nil
  have n3 : ∀ t ∈ p.prelast, t ≠ [] := fun t h => (m3 t h).ne_nil
  have n4 : ∀ t ∈ p.last, t ≠ [] := fun t h => (m4 t h).ne_nil
  have n5 : ∀ t ∈ p.lineage, t ≠ [] := fun t h => (m5 t h).ne_nil
  have hlast : partText p.last ≠ [] := fun h => hg.last_ne ((joinWith_eq_nil_iff n4).1 h)
  have hlin : partText p.lineage = [] ↔ p.lineage = [] := joinWith_eq_nil_iff n5
  have hfirst : partText p.first = [] ↔ p.first = [] := joinWith_eq_nil_iff n1
  have hmid : partText p.middle = [] ↔ p.middle = [] := joinWith_eq_nil_iff n2
  unfold formatName chunksOf
  simp only [hlast, ne_eq, not_false_eq_true, if_true, joinNonEmpty_pair n3 n4, joinNonEmpty_pair n1 n2]
  by_cases hf : p.first = []
  · have hm := hg.first_mid hf
    have c1 : ¬ (¬ partText p.first = [] ∨ ¬ partText p.middle = []) := by
      rw [hfirst, hmid]; simp [hf, hm]
    rw [if_neg c1]
    by_cases hl : p.lineage = []
    · have c2 : partText p.lineage = [] := hlin.2 hl
      simp only [not_true_eq_false, if_false, hl, hf]
      by_cases hk : keepsEmptyFirst p = true
      · simp [hk, joinWith, vlText, partText]
      · simp [hk, joinWith, vlText, partText]
    · have c2 : ¬ partText p.lineage = [] := fun h => hl (hlin.1 h)
      have hk : keepsEmptyFirst p = true := by simp [keepsEmptyFirst, hf, hm, hl]
      simp only [c2, not_false_eq_true, if_true, hl, hf, not_true_eq_false, if_false, hk]
      simp [joinWith, vlText, jrText, partText]
  · have c1 : (¬ partText p.first = [] ∨ ¬ partText p.middle = []) := Or.inl (fun h => hf (hfirst.1 h))
    have hk : keepsEmptyFirst p = false := by simp [keepsEmptyFirst, hf]
    rw [if_pos c1]
    simp only [hk, Bool.false_eq_true, if_false, hf, not_false_eq_true, if_true]
    by_cases hl : p.lineage = []
    · have c2 : partText p.lineage = [] := hlin.2 hl
      simp only [not_true_eq_false, if_false, hl]
      simp [joinWith, vlText, fmText, partText]
    · have c2 : ¬ partText p.lineage = [] := fun h => hl (hlin.1 h)
      simp only [c2, not_false_eq_true, if_true, hl]
      simp [joinWith, vlText, jrText, fmText, partText]


theorem getLast?_append_ne {α} (a b : List α) (h : b ≠ []) : (a ++ b).getLast? = b.getLast? := by
  rw [List.getLast?_append]
  cases hb : b.getLast? with
  | none => simp [List.getLast?_eq_none_iff] at hb; exact absurd hb h
  | some x => simp

theorem head?_joinWith {sep t : Str} {ts : List Str} (ht : t ≠ []) :
    (joinWith sep (t :: ts)).head? = t.head? := by
  cases t with
  | nil => exact absurd rfl ht
  | cons c r => cases ts <;> simp [joinWith]

theorem getLast?_joinWith {sep : Str} : ∀ (ts : List Str) (t : Str), (∀ x ∈ t :: ts, x ≠ []) →
    (joinWith sep (t :: ts)).getLast? = ((t :: ts).getLast (by simp)).getLast? := by
  intro ts
  induction ts with
  | nil => intro t _; simp [joinWith]
  | cons t2 ts ih =>
    intro t h
    have h2 : ∀ x ∈ t2 :: ts, x ≠ [] := fun x hx => h x (by simp [hx])
    have hne : joinWith sep (t2 :: ts) ≠ [] := joinWith_ne_nil (h2 t2 (by simp))
    simp only [joinWith]
    rw [getLast?_append_ne _ _ hne, ih t2 h2]
    simp

theorem strip_join {ts : List Str} (hne : ts ≠ []) (hg : ∀ t ∈ ts, TokGood t) :
    strip (joinWith [' '] ts) = joinWith [' '] ts := by
  cases ts with
  | nil => exact absurd rfl hne
  | cons t ts =>
    apply strip_eq_self
    · intro c hc
      rw [head?_joinWith (hg t (by simp)).ne_nil] at hc
      have ht := hg t (by simp)
      cases t with
      | nil => simp at hc
      | cons a r =>
        simp only [List.head?_cons, Option.some.injEq] at hc; subst hc; exact lvl0Ok_head ht.lvl
    · intro c hc
      rw [getLast?_joinWith ts t (fun x hx => (hg x hx).ne_nil)] at hc
      have hl := hg ((t :: ts).getLast (by simp)) (List.getLast_mem _)
      exact lvl0Ok_last _ 0 false hl.lvl hl.sat c hc

theorem strip_cons_ws {c : Char} (X : Str) (hw : isWs c = true) : strip (c :: X) = strip X := by
  simp [strip, lstrip, List.dropWhile, hw]

theorem chunk_join {ts : List Str} (hg : ∀ t ∈ ts, TokGood t) : Chunk (joinWith [' '] ts) :=
  ⟨noComma0_join_space ts hg, depthAfter_join (by simp) ts (fun t ht => (hg t ht).bal)⟩

theorem chunk_space_join {ts : List Str} (hg : ∀ t ∈ ts, TokGood t) : Chunk (' ' :: joinWith [' '] ts) := by
  obtain ⟨h1, h2⟩ := chunk_join hg
  exact ⟨by simpa [noComma0] using h1, by simpa [depthAfter] using h2⟩

/-- the comma parts `_parse_string` sees -/
def partsOf (p : Person) : List Str :=
  [vlText p] ++ (if p.lineage ≠ [] then [jrText p] else []) ++
  (if p.first ≠ [] then [fmText p] else if keepsEmptyFirst p then [[]] else [])

theorem PersonGood.vl {p : Person} (hg : PersonGood p) : ∀ t ∈ p.prelast ++ p.last, TokGood t := by
  intro t ht; apply hg.toks; simp only [List.mem_append] at ht; rcases ht with h | h <;> simp [personTokens, h]

theorem PersonGood.fm {p : Person} (hg : PersonGood p) : ∀ t ∈ p.first ++ p.middle, TokGood t := by
  intro t ht; apply hg.toks; simp only [List.mem_append] at ht; rcases ht with h | h <;> simp [personTokens, h]

theorem PersonGood.vl_ne {p : Person} (hg : PersonGood p) : vlText p ≠ [] := by
  intro h
  have := (joinWith_eq_nil_iff (fun t ht => (hg.vl t ht).ne_nil)).1 h
  simp at this
  exact hg.last_ne this.2

theorem splitTex_comma_format {p : Person} (hg : PersonGood p) :
    splitTex .comma (formatName p) = partsOf p := by
  have hch : ∀ x ∈ chunksOf p, Chunk x := by
    intro x hx
    simp only [chunksOf, List.mem_append, List.mem_singleton] at hx
    rcases hx with (rfl | hx) | hx
    · exact chunk_join hg.vl
    · split at hx
      · simp only [List.mem_singleton] at hx; subst hx; exact chunk_space_join hg.mem.2.2.2.2
      · simp at hx
    · split at hx
      · simp only [List.mem_singleton] at hx; subst hx; exact chunk_space_join hg.fm
      · split at hx
        · simp only [List.mem_singleton] at hx; subst hx; exact ⟨rfl, rfl⟩
        · simp at hx
  have hne : chunksOf p ≠ [] := by simp [chunksOf]
  have hs : joinWith [','] (chunksOf p) ≠ [] := by
    unfold chunksOf
    simp only [List.cons_append]
    exact joinWith_ne_nil hg.vl_ne
  rw [formatName_chunks hg, splitTex_comma_chunks _ hne hch hs]
  unfold chunksOf partsOf
  have s1 : strip (vlText p) = vlText p := strip_join (by
    intro h; simp at h; exact hg.last_ne h.2) hg.vl
  simp only [List.map_append, List.map_cons, List.map_nil, s1]
  congr 1
  · congr 1
    split
    · rename_i hl
      simp only [List.map_cons, List.map_nil, strip_cons_ws _ (show isWs ' ' = true by decide)]
      rw [show strip (jrText p) = jrText p from strip_join hl hg.mem.2.2.2.2]
    · rfl
  · split
    · rename_i hf
      simp only [List.map_cons, List.map_nil, strip_cons_ws _ (show isWs ' ' = true by decide)]
      rw [show strip (fmText p) = fmText p from strip_join (by simp [hf]) hg.fm]
    · split
      · rfl
      · rfl


/-! ### reading the written name back -/

theorem parseName_spec {name : Str} (hne : name ≠ [])
    (hk : ∀ t ∈ Spec.caseTokens name, Spec.caseKnown t = true) :
    parseName name = .ok (Spec.split name) := by
  cases h : parseName name with
  | error e =>
    obtain ⟨_, t, ht, _, hc⟩ := parseName_error hne h
    rw [hk t ht] at hc; cases hc
  | ok r =>
    rw [split_eq, parseName_ok h (fun t ht b hb => isVonName_ok hb (hk t ht))]

theorem TokGood.caseKnown {t : Str} (h : TokGood t) : Spec.caseKnown t = true :=
  caseKnown_of_scan (litScan_scan h.lit)

theorem person_eq {p : Person} {a b c d e : List Str} (h1 : a = p.first) (h2 : b = p.middle)
    (h3 : c = p.prelast) (h4 : d = p.last) (h5 : e = p.lineage) :
    ({ first := a, middle := b, prelast := c, last := d, lineage := e } : Person) = p := by
  cases p; simp_all

theorem PersonGood.take_first {p : Person} (hg : PersonGood p) :
    (p.first ++ p.middle).take 1 = p.first ∧ (p.first ++ p.middle).drop 1 = p.middle := by
  have h1 := hg.first_le
  have h2 := hg.first_mid
  cases hf : p.first with
  | nil => rw [h2 hf]; simp
  | cons a r =>
    rw [hf] at h1
    cases r with
    | nil => simp
    | cons b r2 => simp at h1

theorem PersonGood.vonLast {p : Person} (hg : PersonGood p) :
    Spec.vonLast (p.prelast ++ p.last) = (p.prelast, p.last) :=
  vonLast_split p.prelast p.last hg.last_ne hg.last_novon hg.prelast_von

theorem format_ne_nil {p : Person} (hg : PersonGood p) : formatName p ≠ [] := by
  rw [formatName_chunks hg]
  unfold chunksOf
  simp only [List.cons_append]
  exact joinWith_ne_nil hg.vl_ne

theorem splitTex_space_nil : splitTex .space [] = [] := by decide

theorem partsOf_cases {p : Person} (hg : PersonGood p) :
    (p.lineage = [] ∧ p.first = [] ∧ partsOf p = [vlText p] ∧ formatName p = vlText p ∧ keepsEmptyFirst p = false) ∨
    (p.lineage = [] ∧ p.first = [] ∧ partsOf p = [vlText p, []]) ∨
    (p.lineage = [] ∧ p.first ≠ [] ∧ partsOf p = [vlText p, fmText p]) ∨
    (p.lineage ≠ [] ∧ p.first = [] ∧ partsOf p = [vlText p, jrText p, []]) ∨
    (p.lineage ≠ [] ∧ p.first ≠ [] ∧ partsOf p = [vlText p, jrText p, fmText p]) := by
  by_cases hl : p.lineage = []
  · by_cases hf : p.first = []
    · by_cases hkp : keepsEmptyFirst p = true
      · right; left; exact ⟨hl, hf, by simp [partsOf, hl, hf, hkp]⟩
      · left
        refine ⟨hl, hf, by simp [partsOf, hl, hf, hkp], ?_, by simpa using hkp⟩
        rw [formatName_chunks hg]; simp [chunksOf, hl, hf, hkp, joinWith]
    · right; right; left; exact ⟨hl, hf, by simp [partsOf, hl, hf]⟩
  · by_cases hf : p.first = []
    · have hkp : keepsEmptyFirst p = true := by simp [keepsEmptyFirst, hf, hg.first_mid hf, hl]
      right; right; right; left; exact ⟨hl, hf, by simp [partsOf, hl, hf, hkp]⟩
    · right; right; right; right; exact ⟨hl, hf, by simp [partsOf, hl, hf]⟩

theorem parseName_format {p : Person} (hg : PersonGood p) :
    parseName (formatName p) = .ok (p, false) := by
  have hc := splitTex_comma_format hg
  have hvl : splitTex .space (vlText p) = p.prelast ++ p.last := splitTex_space_join _ hg.vl
  have hjr : splitTex .space (jrText p) = p.lineage := splitTex_space_join _ hg.mem.2.2.2.2
  have hfm : splitTex .space (fmText p) = p.first ++ p.middle := splitTex_space_join _ hg.fm
  have hvon := hg.vonLast
  obtain ⟨ht1, ht2⟩ := hg.take_first
  have hk : ∀ t ∈ Spec.caseTokens (formatName p), Spec.caseKnown t = true := by
    intro t ht
    unfold Spec.caseTokens at ht
    rw [hc] at ht
    have hmem : t ∈ p.prelast ++ p.last := by
      rcases partsOf_cases hg with ⟨_, _, hp, hfn, _⟩ | ⟨_, _, hp⟩ | ⟨_, _, hp⟩ | ⟨_, _, hp⟩ | ⟨_, _, hp⟩ <;>
        rw [hp] at ht <;> simp only [] at ht
      · rw [hfn, hvl] at ht; exact ht
      all_goals (rw [hvl] at ht; exact Names.mem_of_mem_dropLast ht)
    exact (hg.vl t hmem).caseKnown
  rw [parseName_spec (format_ne_nil hg) hk]
  congr 1
  unfold Spec.split
  rw [hc]
  rcases partsOf_cases hg with ⟨hl, hf, hp, hfn, hkp⟩ | ⟨hl, hf, hp⟩ | ⟨hl, hf, hp⟩ | ⟨hl, hf, hp⟩ | ⟨hl, hf, hp⟩ <;>
    rw [hp] <;> simp only [List.length_cons, List.length_nil, joinWith]
  · -- one part: "von Last" read in the "First von Last" form
    rw [hfn, hvl]
    have hm := hg.first_mid hf
    have hlen : (p.prelast ++ p.last).length ≤ 1 ∨ startsLower (p.prelast ++ p.last) = true := by
      simp only [keepsEmptyFirst, hf, hm, hl, ne_eq, not_true_eq_false, or_self, if_false,
        Bool.and_eq_false_iff, decide_eq_false_iff_not, Bool.not_eq_false', gt_iff_lt, Nat.not_lt] at hkp
      exact hkp
    rcases hlen with hlen | hlow
    · -- a single token
      have hpl : p.prelast = [] ∧ ∃ t, p.last = [t] := by
        have hne := hg.last_ne
        simp only [List.length_append] at hlen
        cases hlast : p.last with
        | nil => exact absurd hlast hne
        | cons t r =>
          rw [hlast] at hlen
          simp only [List.length_cons] at hlen
          have hr : r = [] := List.eq_nil_of_length_eq_zero (by omega)
          have hp0 : p.prelast = [] := List.eq_nil_of_length_eq_zero (by omega)
          exact ⟨hp0, t, by rw [hr]⟩
      obtain ⟨hp0, t, hlt⟩ := hpl
      rw [hp0, hlt]
      simp only [List.nil_append, List.findIdx?_cons, List.findIdx?_nil]
      by_cases hv : isLow t = true
      · simp only [hv, if_true]
        refine Prod.ext (person_eq ?_ ?_ ?_ ?_ hl.symm) (by simp)
        · simp [hf]
        · simp [hm]
        · simp [vonLast_eq, vonLastWith_short, hp0]
        · simp [vonLast_eq, vonLastWith_short, hlt]
      · simp only [hv, Bool.false_eq_true, if_false, Option.map_none]
        refine Prod.ext (person_eq ?_ ?_ hp0.symm ?_ hl.symm) (by simp)
        · simp [hf]
        · simp [hm]
        · simp [hlt]
    · -- the first token starts with a lower-case letter: it is a von token
      obtain ⟨c, r, rest, hT, hc⟩ : ∃ c r rest, p.prelast ++ p.last = (c :: r) :: rest ∧ isLowerN c = true := by
        unfold startsLower at hlow
        split at hlow
        · rename_i c r rest heq; exact ⟨c, r, rest, heq, hlow⟩
        · cases hlow
      have ht0 : TokGood (c :: r) := hg.vl _ (by rw [hT]; simp)
      have hu : isUpperN c = false := by
        cases hu : isUpperN c with
        | false => rfl
        | true => rw [upper_lower_disjoint hu] at hc; cases hc
      have hv : isLow (c :: r) = true := isLow_lower_first hu hc (litScan_scan ht0.lit)
      have hidx : List.findIdx? isLow (p.prelast ++ p.last) = some 0 := by
        rw [hT]; simp [List.findIdx?_cons, hv]
      rw [hidx]
      simp only [List.take_zero, List.drop_zero, hvon]
      exact Prod.ext (person_eq (by simp [hf]) (by simp [hm]) rfl rfl hl.symm) (by simp)
  · rw [hvl, hvon, splitTex_space_nil]
    exact Prod.ext (person_eq (by simp [hf]) (by simp [hg.first_mid hf]) rfl rfl hl.symm) (by simp)
  · rw [hvl, hvon, hfm, ht1, ht2]
    exact Prod.ext (person_eq rfl rfl rfl rfl hl.symm) (by simp)
  · rw [hvl, hvon, hjr, splitTex_space_nil]
    exact Prod.ext (person_eq (by simp [hf]) (by simp [hg.first_mid hf]) rfl rfl rfl) (by simp)
  · rw [hvl, hvon, hfm, hjr, ht1, ht2]
    exact Prod.ext (person_eq rfl rfl rfl rfl rfl) (by simp)


/-! ### `Person(text)`, `str(person)`, the five part texts -/

/-- what follows the von-Last text in the written name -/
def tailText (p : Person) : Str :=
  (if p.lineage ≠ [] then ", ".toList ++ jrText p else []) ++
  (if p.first ≠ [] then ", ".toList ++ fmText p else if keepsEmptyFirst p then [','] else [])

theorem formatName_forms {p : Person} (hg : PersonGood p) : formatName p = vlText p ++ tailText p := by
  rw [formatName_chunks hg]
  unfold chunksOf tailText
  by_cases hl : p.lineage = [] <;> by_cases hf : p.first = [] <;> by_cases hkp : keepsEmptyFirst p = true <;>
    simp [hl, hf, hkp, joinWith]

theorem join_head_nws {ts : List Str} (hg : ∀ t ∈ ts, TokGood t) :
    ∀ c, (joinWith [' '] ts).head? = some c → isWs c = false := by
  intro c hc
  cases ts with
  | nil => simp [joinWith] at hc
  | cons t ts =>
    rw [head?_joinWith (hg t (by simp)).ne_nil] at hc
    have ht := hg t (by simp)
    cases t with
    | nil => simp at hc
    | cons a r =>
      simp only [List.head?_cons, Option.some.injEq] at hc; subst hc; exact lvl0Ok_head ht.lvl

theorem join_last_nws {ts : List Str} (hg : ∀ t ∈ ts, TokGood t) :
    ∀ c, (joinWith [' '] ts).getLast? = some c → isWs c = false := by
  intro c hc
  cases ts with
  | nil => simp [joinWith] at hc
  | cons t ts =>
    rw [getLast?_joinWith ts t (fun x hx => (hg x hx).ne_nil)] at hc
    have hl := hg ((t :: ts).getLast (by simp)) (List.getLast_mem _)
    exact lvl0Ok_last _ 0 false hl.lvl hl.sat c hc

theorem tail_last_nws {p : Person} (hg : PersonGood p) (hne : tailText p ≠ []) :
    ∀ c, (tailText p).getLast? = some c → isWs c = false := by
  intro c hc
  unfold tailText at hc hne
  by_cases hf : p.first = []
  · by_cases hkp : keepsEmptyFirst p = true
    · simp only [hf, hkp, ne_eq, not_true_eq_false, if_false, if_true] at hc
      rw [getLast?_append_ne _ _ (by simp)] at hc
      simp only [List.getLast?_singleton, Option.some.injEq] at hc
      subst hc; decide
    · simp only [hf, hkp, ne_eq, not_true_eq_false, if_false, Bool.false_eq_true, List.append_nil] at hc hne
      -- no first name, nothing kept: then there is no Jr part either
      have hl : p.lineage = [] := by
        by_contra hl
        apply hkp
        simp [keepsEmptyFirst, hf, hg.first_mid hf, hl]
      simp [hl] at hne
  · have hfm : fmText p ≠ [] := by
      intro h
      have := (joinWith_eq_nil_iff (fun t ht => (hg.fm t ht).ne_nil)).1 h
      simp at this; exact hf this.1
    simp only [hf, ne_eq, not_false_eq_true, if_true] at hc
    rw [getLast?_append_ne _ _ (by simp), getLast?_append_ne _ _ hfm] at hc
    exact join_last_nws hg.fm c hc

theorem strip_format {p : Person} (hg : PersonGood p) : strip (formatName p) = formatName p := by
  rw [formatName_forms hg]
  apply strip_eq_self
  · intro c hc
    have hv := hg.vl_ne
    cases hvl : vlText p with
    | nil => exact absurd hvl hv
    | cons a r =>
      rw [hvl] at hc
      simp only [List.cons_append, List.head?_cons, Option.some.injEq] at hc
      subst hc
      exact join_head_nws hg.vl a (by unfold vlText at hvl; rw [hvl]; rfl)
  · intro c hc
    by_cases hne : tailText p = []
    · rw [hne, List.append_nil] at hc
      exact join_last_nws hg.vl c hc
    · rw [getLast?_append_ne _ _ hne] at hc
      exact tail_last_nws hg hne c hc

theorem mkPerson_format {p : Person} (hg : PersonGood p) :
    mkPerson (formatName p) [] [] [] [] [] = .ok (p, false) := by
  unfold mkPerson
  simp only [strip_format hg, format_ne_nil hg, ne_eq, not_false_eq_true, if_true, parseName_format hg,
    splitTex_space_nil, List.append_nil]

theorem personStr_eq_format {p : Person} (hg : PersonGood p) : personStr p = formatName p := by
  obtain ⟨_, _, _, _, m5⟩ := hg.mem
  have hv := hg.vl_ne
  have hjr : jrText p = [] ↔ p.lineage = [] := joinWith_eq_nil_iff (fun t h => (m5 t h).ne_nil)
  have hfm : fmText p = [] ↔ p.first = [] := by
    constructor
    · intro h
      have := (joinWith_eq_nil_iff (fun t ht => (hg.fm t ht).ne_nil)).1 h
      simp at this; exact this.1
    · intro h; unfold fmText; rw [h, hg.first_mid h]; rfl
  rw [formatName_forms hg]
  unfold personStr Person.toStr tailText
  change (if keepsEmptyFirst p = true then
      joinWith [',', ' '] ([vlText p, jrText p, fmText p].filter (· ≠ [])) ++ [',']
    else joinWith [',', ' '] ([vlText p, jrText p, fmText p].filter (· ≠ []))) = _
  by_cases hl : p.lineage = []
  · have c1 : jrText p = [] := hjr.2 hl
    by_cases hf : p.first = []
    · have c2 : fmText p = [] := hfm.2 hf
      by_cases hkp : keepsEmptyFirst p = true <;> simp [hl, hf, hkp, c1, c2, hv, List.filter, joinWith]
    · have c2 : fmText p ≠ [] := fun h => hf (hfm.1 h)
      have hkp : keepsEmptyFirst p = false := by simp [keepsEmptyFirst, hf]
      simp [hl, hf, hkp, c1, c2, hv, List.filter, joinWith]
  · have c1 : jrText p ≠ [] := fun h => hl (hjr.1 h)
    by_cases hf : p.first = []
    · have c2 : fmText p = [] := hfm.2 hf
      have hkp : keepsEmptyFirst p = true := by simp [keepsEmptyFirst, hf, hg.first_mid hf, hl]
      simp [hl, hf, hkp, c1, c2, hv, List.filter, joinWith]
    · have c2 : fmText p ≠ [] := fun h => hf (hfm.1 h)
      have hkp : keepsEmptyFirst p = false := by simp [keepsEmptyFirst, hf]
      simp [hl, hf, hkp, c1, c2, hv, List.filter, joinWith]

theorem mkPerson_parts {p : Person} (hg : ∀ t ∈ personTokens p, TokGood t) :
    mkPerson [] (partText p.first) (partText p.middle) (partText p.prelast) (partText p.last)
      (partText p.lineage) = .ok (p, false) := by
  have h1 : splitTex .space (partText p.first) = p.first :=
    splitTex_space_join _ (fun t ht => hg t (by simp [personTokens, ht]))
  have h2 : splitTex .space (partText p.middle) = p.middle :=
    splitTex_space_join _ (fun t ht => hg t (by simp [personTokens, ht]))
  have h3 : splitTex .space (partText p.prelast) = p.prelast :=
    splitTex_space_join _ (fun t ht => hg t (by simp [personTokens, ht]))
  have h4 : splitTex .space (partText p.last) = p.last :=
    splitTex_space_join _ (fun t ht => hg t (by simp [personTokens, ht]))
  have h5 : splitTex .space (partText p.lineage) = p.lineage :=
    splitTex_space_join _ (fun t ht => hg t (by simp [personTokens, ht]))
  have hs : strip ([] : Str) = [] := by decide
  unfold mkPerson
  simp only [hs, ne_eq, not_true_eq_false, if_false, List.nil_append, h1, h2, h3, h4, h5]


end Pybtex.C02
