/-
Lemmas about `Model/TeXCaseFull.lean` (`change_case` with `str.lower` / `str.upper` as string
operations, no domain restriction):

* at `charWordOps o` the word-level model is the character-level model `changeCaseG o`;
* on `caseDomain` the interpreter instance `pyWordOps` agrees with `uniOps` (so everything proved
  about `changeCaseG uniOps` is about what the driver answers with there);
* for EVERY string the result is at least as long as the input.
-/
import PybtexModel.Lemmas.TeXStringU
import PybtexModel.Lemmas.UniCase
import PybtexModel.Model.TeXCaseFull

namespace Pybtex.TeXU

/-! ### wiring: character operations as word operations -/

theorem convertStrW_char (o : CharOps) (m : CaseMode) (st : CaseState) (w : Str) :
    convertStrW (charWordOps o) m st w = convertStrG o m st w := by
  cases m <;> rfl

theorem convertSpecialW_char (o : CharOps) (m : CaseMode) (st : CaseState) (t : Str) :
    convertSpecialW (charWordOps o) m st t = convertSpecialG o m st t := by
  simp only [convertSpecialW, convertSpecialG, convertStrW_char]

theorem changeCaseAuxW_char (o : CharOps) (m : CaseMode) (toks : List Tok) : ∀ st,
    changeCaseAuxW (charWordOps o) m st toks = changeCaseAuxG o m st toks := by
  induction toks with
  | nil => intro st; simp [changeCaseAuxW, changeCaseAuxG]
  | cons t r ih =>
    intro st
    obtain ⟨t, l⟩ := t
    cases l with
    | zero => simp only [changeCaseAuxW, changeCaseAuxG, convertStrW_char, ih]
    | succ l => simp only [changeCaseAuxW, changeCaseAuxG, convertSpecialW_char, ih]

theorem changeCaseW_char (o : CharOps) (s : Str) (m : CaseMode) :
    changeCaseW (charWordOps o) s m = changeCaseG o s m := by
  simp only [changeCaseW, changeCaseG]
  cases scan s with
  | none => rfl
  | some toks => simp [changeCaseAuxW_char]

/-! ### congruence: two pairs of word operations that agree on the words over a set of characters -/

theorem splitSpace_all (P : Char → Bool) (t : Str) (h : t.all P = true) :
    ∀ w ∈ splitSpace t, w.all P = true := by
  induction t with
  | nil => intro w hw; simp [splitSpace] at hw; subst hw; rfl
  | cons c r ih =>
    simp only [List.all_cons, Bool.and_eq_true] at h
    intro w hw
    simp only [splitSpace] at hw
    split at hw
    · rcases List.mem_cons.1 hw with rfl | hw
      · rfl
      · exact ih h.2 w hw
    · cases hs : splitSpace r with
      | nil =>
        rw [hs] at hw
        simp only [List.mem_singleton] at hw
        subst hw; simp [h.1]
      | cons w0 ws =>
        rw [hs] at hw ih
        rcases List.mem_cons.1 hw with rfl | hw
        · simp only [List.all_cons, Bool.and_eq_true]
          exact ⟨h.1, ih h.2 w0 (List.mem_cons_self ..)⟩
        · exact ih h.2 w (List.mem_cons_of_mem _ hw)

theorem convertStrW_congr (o1 o2 : WordOps) (P : Char → Bool)
    (hl : ∀ w, w.all P = true → o1.lowerW w = o2.lowerW w)
    (hu : ∀ w, w.all P = true → o1.upperW w = o2.upperW w)
    (m : CaseMode) (st : CaseState) (w : Str) (hw : w.all P = true) :
    convertStrW o1 m st w = convertStrW o2 m st w := by
  cases m <;> simp only [convertStrW, hl w hw, hu w hw]

theorem map_congr_mem {α β} (f g : α → β) (l : List α) (h : ∀ x ∈ l, f x = g x) : l.map f = l.map g :=
  List.map_congr_left h

theorem convertSpecialW_congr (o1 o2 : WordOps) (P : Char → Bool)
    (hl : ∀ w, w.all P = true → o1.lowerW w = o2.lowerW w)
    (hu : ∀ w, w.all P = true → o1.upperW w = o2.upperW w)
    (m : CaseMode) (st : CaseState) (t : Str) (ht : t.all P = true) :
    convertSpecialW o1 m st t = convertSpecialW o2 m st t := by
  simp only [convertSpecialW]
  congr 1
  apply List.map_congr_left
  intro w hw
  split
  · rfl
  · exact convertStrW_congr o1 o2 P hl hu m st w (splitSpace_all P t ht w hw)

theorem changeCaseAuxW_congr (o1 o2 : WordOps) (P : Char → Bool)
    (hl : ∀ w, w.all P = true → o1.lowerW w = o2.lowerW w)
    (hu : ∀ w, w.all P = true → o1.upperW w = o2.upperW w)
    (m : CaseMode) (toks : List Tok) (ht : ∀ t ∈ toks, t.1.all P = true) : ∀ st,
    changeCaseAuxW o1 m st toks = changeCaseAuxW o2 m st toks := by
  induction toks with
  | nil => intro st; simp [changeCaseAuxW]
  | cons t r ih =>
    intro st
    have h1 := ht t (List.mem_cons_self ..)
    have ih' := ih (fun x hx => ht x (List.mem_cons_of_mem _ hx))
    obtain ⟨t, l⟩ := t
    cases l with
    | zero =>
      simp only [changeCaseAuxW, convertStrW_congr o1 o2 P hl hu m st t h1, ih']
    | succ l =>
      simp only [changeCaseAuxW, convertSpecialW_congr o1 o2 P hl hu m st t h1, ih']

/-- the characters of the tokens are characters of the string (or the `}` the scanner appends) -/
theorem scan_toks_all (P : Char → Bool) (hP : P '}' = true) (s : Str) (toks : List Tok)
    (h : scan s = some toks) (hs : s.all P = true) : ∀ t ∈ toks, t.1.all P = true := by
  have h1 := scanM_text _ _ _ h
  simp only [tokText, ScanMode.acc, List.nil_append] at h1
  intro t ht
  rw [List.all_eq_true]
  intro c hc
  have hm : c ∈ (toks.map Prod.fst).flatten :=
    List.mem_flatten.2 ⟨t.1, List.mem_map.2 ⟨t, ht, rfl⟩, hc⟩
  rw [h1] at hm
  rcases List.mem_append.1 hm with hm | hm
  · exact List.all_eq_true.1 hs c hm
  · cases hb : Spec.endsInSpecial (ScanMode.norm 0).sp (ScanMode.norm 0).depth s with
    | true => rw [hb] at hm; simp only [closeIf, List.mem_singleton] at hm; subst hm; exact hP
    | false => rw [hb] at hm; simp [closeIf] at hm

/-! ### the interpreter's string methods on `caseDomain` -/

theorem lookupMulti_none {n : Nat} {tbl : List (Nat × List Nat)} (h : n ∉ tbl.map Prod.fst) :
    lookupMulti n tbl = none := by
  induction tbl with
  | nil => rfl
  | cons p tbl ih =>
    obtain ⟨k, l⟩ := p
    simp only [List.map_cons, List.mem_cons, not_or] at h
    simp only [lookupMulti]
    have : Nat.beq k n = false := by
      cases hb : Nat.beq k n with
      | true => exact absurd (Nat.eq_of_beq_eq_true hb).symm h.1
      | false => rfl
    simp only [this, Bool.false_eq_true, if_false]
    exact ih h.2

/-- the keys of the two expansion tables are the code points `caseDomainC` excludes -/
theorem multi_keys : Gen.upperMultiMapC12.map Prod.fst = Gen.upperMultiC12 ∧
    Gen.lowerMultiMap.map Prod.fst = Gen.lowerMulti := by decide

theorem caseDomainC_spec {c : Char} (h : caseDomainC c = true) :
    upperFullC12 c = [upperUC c] ∧ lowerFullC c = [lowerUC c] ∧ isCapitalSigma c = false := by
  simp only [caseDomainC, Bool.and_eq_true, Bool.not_eq_true', bne_iff_ne, ne_eq] at h
  obtain ⟨⟨hu, hl⟩, hsg⟩ := h
  have hu' : c.toNat ∉ Gen.upperMultiMapC12.map Prod.fst := by
    rw [multi_keys.1]; intro hm; rw [List.contains_iff_mem.2 hm] at hu; cases hu
  have hl' : c.toNat ∉ Gen.lowerMultiMap.map Prod.fst := by
    rw [multi_keys.2]; intro hm; rw [List.contains_iff_mem.2 hm] at hl; cases hl
  refine ⟨?_, ?_, ?_⟩
  · simp only [upperFullC12, lookupMulti_none hu']
  · simp only [lowerFullC, lookupMulti_none hl']
  · simp only [isCapitalSigma]
    cases hb : Nat.beq c.toNat 0x3A3 with
    | true => exact absurd (Nat.eq_of_beq_eq_true hb) hsg
    | false => rfl

theorem upperPy_domain (w : Str) (h : w.all caseDomainC = true) : upperPy w = w.map upperUC := by
  induction w with
  | nil => rfl
  | cons c r ih =>
    simp only [List.all_cons, Bool.and_eq_true] at h
    have := (caseDomainC_spec h.1).1
    simp only [upperPy, List.flatMap_cons, List.map_cons, this] at ih ⊢
    rw [ih h.2]; rfl

theorem lowerPyAux_domain (w b : Str) (h : w.all caseDomainC = true) : lowerPyAux b w = w.map lowerUC := by
  induction w generalizing b with
  | nil => rfl
  | cons c r ih =>
    simp only [List.all_cons, Bool.and_eq_true] at h
    obtain ⟨_, h2, h3⟩ := caseDomainC_spec h.1
    simp only [lowerPyAux, h3, Bool.false_eq_true, if_false, h2, List.map_cons, ih _ h.2]
    rfl

theorem lowerPy_domain (w : Str) (h : w.all caseDomainC = true) : lowerPy w = w.map lowerUC :=
  lowerPyAux_domain w [] h

/-- on `caseDomain` the model with the interpreter's string methods IS the character-by-character model -/
theorem changeCaseW_domain (s : Str) (m : CaseMode) (h : caseDomain s = true) :
    changeCaseW pyWordOps s m = changeCaseG uniOps s m := by
  rw [← changeCaseW_char]
  simp only [changeCaseW]
  cases hs : scan s with
  | none => rfl
  | some toks =>
    simp only [Option.map_some]
    congr 1
    exact changeCaseAuxW_congr pyWordOps (charWordOps uniOps) caseDomainC
      (fun w hw => lowerPy_domain w hw) (fun w hw => upperPy_domain w hw) m toks
      (scan_toks_all caseDomainC (by decide) s toks hs h) .start

/-! ### no string gets shorter -/

theorem multi_images_nonempty :
    (Gen.upperMultiMapC12.all fun p => !p.2.isEmpty) = true ∧ (Gen.lowerMultiMap.all fun p => !p.2.isEmpty) = true := by
  decide

theorem upperFullC12_length (c : Char) : 1 ≤ (upperFullC12 c).length := by
  unfold upperFullC12
  cases hm : lookupMulti c.toNat Gen.upperMultiMapC12 with
  | none => simp
  | some l =>
    obtain ⟨k, hk⟩ := lookupMulti_mem hm
    have := List.all_eq_true.1 multi_images_nonempty.1 (k, l) hk
    cases l with
    | nil => simp at this
    | cons a r => simp

theorem lowerFullC_length (c : Char) : 1 ≤ (lowerFullC c).length := by
  unfold lowerFullC
  cases hm : lookupMulti c.toNat Gen.lowerMultiMap with
  | none => simp
  | some l =>
    obtain ⟨k, hk⟩ := lookupMulti_mem hm
    have := List.all_eq_true.1 multi_images_nonempty.2 (k, l) hk
    cases l with
    | nil => simp at this
    | cons a r => simp

theorem upperPy_length (w : Str) : w.length ≤ (upperPy w).length := by
  induction w with
  | nil => simp [upperPy]
  | cons c r ih =>
    have := upperFullC12_length c
    simp only [upperPy, List.flatMap_cons, List.length_append, List.length_cons] at ih ⊢
    omega

theorem lowerPyAux_length (w b : Str) : w.length ≤ (lowerPyAux b w).length := by
  induction w generalizing b with
  | nil => simp [lowerPyAux]
  | cons c r ih =>
    have h1 := lowerFullC_length c
    have h2 := ih (c :: b)
    simp only [lowerPyAux, List.length_append, List.length_cons]
    split
    · simp only [List.length_cons, List.length_nil]; omega
    · omega

/-- word operations that never shorten a word -/
def WordOps.Grows (o : WordOps) : Prop := (∀ w, w.length ≤ (o.lowerW w).length) ∧ (∀ w, w.length ≤ (o.upperW w).length)

theorem pyWordOps_grows : pyWordOps.Grows := ⟨fun w => lowerPyAux_length w [], upperPy_length⟩

theorem convertStrW_length (o : WordOps) (ho : o.Grows) (m : CaseMode) (st : CaseState) (w : Str) :
    w.length ≤ (convertStrW o m st w).length := by
  cases m
  · exact ho.1 w
  · exact ho.2 w
  · simp only [convertStrW]; split
    · exact Nat.le_refl _
    · exact ho.1 w

theorem joinWith_map_length (sep : Str) (f : Str → Str) (hf : ∀ w, w.length ≤ (f w).length) (ws : List Str) :
    (joinWith sep ws).length ≤ (joinWith sep (ws.map f)).length := by
  induction ws with
  | nil => simp [joinWith]
  | cons x r ih =>
    cases r with
    | nil => simpa [joinWith] using hf x
    | cons y r' =>
      have := hf x
      simp only [List.map_cons, joinWith, List.length_append] at ih ⊢
      omega

theorem convertSpecialW_length (o : WordOps) (ho : o.Grows) (m : CaseMode) (st : CaseState) (t : Str) :
    t.length ≤ (convertSpecialW o m st t).length := by
  have h := joinWith_map_length [' '] (fun w => if startsWithBackslash w then w else convertStrW o m st w)
    (fun w => by
      show w.length ≤ (if startsWithBackslash w then w else convertStrW o m st w).length
      split
      · exact Nat.le_refl _
      · exact convertStrW_length o ho m st w) (splitSpace t)
  rw [joinWith_splitSpace] at h
  exact h

theorem changeCaseAuxW_length (o : WordOps) (ho : o.Grows) (m : CaseMode) (toks : List Tok) : ∀ st,
    (tokText toks).length ≤ (changeCaseAuxW o m st toks).length := by
  induction toks with
  | nil => intro st; simp [changeCaseAuxW]
  | cons t r ih =>
    intro st
    obtain ⟨t, l⟩ := t
    cases l with
    | zero =>
      have h1 := convertStrW_length o ho m st t
      have h2 := ih (if t = [':'] then .afterColon
                          else if (t ≠ [] ∧ t.all isWs) ∧ st = .afterColon then .start
                          else .normal)
      simp only [changeCaseAuxW, tokText_cons, List.length_append] at h2 ⊢
      omega
    | succ l =>
      have h1 := convertSpecialW_length o ho m st t
      have h2 := ih st
      simp only [changeCaseAuxW, tokText_cons, List.length_append]
      split <;> omega

/-- EVERY string: the result of `change_case` is at least as long as the string -/
theorem changeCaseW_length_ge (o : WordOps) (ho : o.Grows) (s r : Str) (m : CaseMode)
    (h : changeCaseW o s m = some r) : s.length ≤ r.length := by
  simp only [changeCaseW] at h
  obtain ⟨toks, ht, rfl⟩ := Option.map_eq_some_iff.1 h
  have h1 := scanM_text _ _ _ ht
  simp only [ScanMode.acc, List.nil_append] at h1
  have h2 := changeCaseAuxW_length o ho m toks .start
  rw [h1, List.length_append] at h2
  omega

/-! ### brace-free strings: `change_case` against the interpreter's own string methods -/

theorem changeCaseAuxW_plain_u (o : WordOps) (s : Str) : ∀ st,
    changeCaseAuxW o .u st (s.map fun c => ([c], 0)) = s.flatMap fun c => o.upperW [c] := by
  induction s with
  | nil => intro st; simp [changeCaseAuxW]
  | cons c r ih => intro st; simp only [List.map_cons, changeCaseAuxW, convertStrW, ih, List.flatMap_cons]

theorem changeCaseAuxW_plain_l (o : WordOps) (s : Str) : ∀ st,
    changeCaseAuxW o .l st (s.map fun c => ([c], 0)) = s.flatMap fun c => o.lowerW [c] := by
  induction s with
  | nil => intro st; simp [changeCaseAuxW]
  | cons c r ih => intro st; simp only [List.map_cons, changeCaseAuxW, convertStrW, ih, List.flatMap_cons]

theorem upperPy_singleton (c : Char) : upperPy [c] = upperFullC12 c := by
  simp [upperPy]

theorem lowerPy_singleton {c : Char} (h : isCapitalSigma c = false) : lowerPy [c] = lowerFullC c := by
  simp [lowerPy, lowerPyAux, h]

theorem lowerPyAux_sigmaFree (s b : Str) (h : ∀ c ∈ s, isCapitalSigma c = false) :
    lowerPyAux b s = s.flatMap lowerFullC := by
  induction s generalizing b with
  | nil => rfl
  | cons c r ih =>
    have hc := h c (List.mem_cons_self ..)
    simp only [lowerPyAux, hc, Bool.false_eq_true, if_false, List.flatMap_cons,
      ih _ (fun x hx => h x (List.mem_cons_of_mem _ hx))]

theorem changeCaseW_plain_u (s : Str) (hs : ∀ c ∈ s, c ≠ '{' ∧ c ≠ '}') :
    changeCaseW pyWordOps s .u = some (upperPy s) := by
  simp only [changeCaseW, scan, scanM_plain s 0 hs, Option.map_some, changeCaseAuxW_plain_u]
  simp only [pyWordOps, upperPy_singleton]
  rfl

theorem changeCaseW_plain_l (s : Str) (hs : ∀ c ∈ s, c ≠ '{' ∧ c ≠ '}') :
    changeCaseW pyWordOps s .l = some (s.flatMap fun c => lowerPy [c]) := by
  simp only [changeCaseW, scan, scanM_plain s 0 hs, Option.map_some, changeCaseAuxW_plain_l]
  rfl

theorem flatMap_lowerPy_sigmaFree (s : Str) (h : ∀ c ∈ s, isCapitalSigma c = false) :
    (s.flatMap fun c => lowerPy [c]) = lowerPy s := by
  rw [lowerPy, lowerPyAux_sigmaFree s [] h]
  induction s with
  | nil => rfl
  | cons c r ih =>
    simp only [List.flatMap_cons, lowerPy_singleton (h c (List.mem_cons_self ..)),
      ih (fun x hx => h x (List.mem_cons_of_mem _ hx))]

/-! ### `upper()` is idempotent on every string (the counterpart of `lowerPy_idem`) -/

/-- code points that `upper()` leaves alone -/
def stableUpN (n : Nat) : Bool :=
  (lookupMulti n Gen.upperMultiMapC12).isNone && (caseLookupG n Gen.upperRunsC12).isNone

theorem stableUpN_spec {c : Char} (h : stableUpN c.toNat = true) : upperFullC12 c = [c] := by
  simp only [stableUpN, Bool.and_eq_true, Option.isNone_iff_eq_none] at h
  simp [upperFullC12, h.1, upperUC, h.2]

theorem upperRuns_imagesStable :
    tableAll Gen.upperRunsC12 (fun _ m => m.isValidChar && stableUpN m) = true := by decide +kernel

theorem upperMulti_imagesStable :
    (Gen.upperMultiMapC12.all fun p => p.2.all fun m => m.isValidChar && stableUpN m) = true := by decide +kernel

theorem upperFullC12_stable (c : Char) : ∀ x ∈ upperFullC12 c, stableUpN x.toNat = true := by
  intro x hx
  unfold upperFullC12 at hx
  cases hm : lookupMulti c.toNat Gen.upperMultiMapC12 with
  | some l =>
    rw [hm] at hx
    obtain ⟨m, hml, rfl⟩ := List.mem_map.1 hx
    obtain ⟨k, hk⟩ := lookupMulti_mem hm
    have := upperMulti_imagesStable
    simp only [List.all_eq_true, Bool.and_eq_true, decide_eq_true_eq] at this
    obtain ⟨hv, hs⟩ := this (k, l) hk m hml
    rw [toNat_ofNat_valid hv]; exact hs
  | none =>
    rw [hm] at hx
    simp only [List.mem_singleton] at hx
    subst hx
    unfold upperUC
    cases ht : caseLookupG c.toNat Gen.upperRunsC12 with
    | some m =>
      have h3 := tableAll_spec upperRuns_imagesStable ht
      simp only [Bool.and_eq_true, decide_eq_true_eq] at h3
      simp only
      rw [toNat_ofNat_valid h3.1]; exact h3.2
    | none =>
      simp [stableUpN, hm, ht]

theorem upperPy_stable (s : Str) (h : ∀ c ∈ s, stableUpN c.toNat = true) : upperPy s = s := by
  induction s with
  | nil => rfl
  | cons c r ih =>
    have h1 := stableUpN_spec (h c (List.mem_cons_self ..))
    have h2 := ih (fun x hx => h x (List.mem_cons_of_mem _ hx))
    simp only [upperPy, List.flatMap_cons, h1] at h2 ⊢
    rw [h2]; rfl

/-- `s.upper().upper() == s.upper()` for every string -/
theorem upperPy_idem (s : Str) : upperPy (upperPy s) = upperPy s := by
  apply upperPy_stable
  intro x hx
  obtain ⟨c, _, hxc⟩ := List.mem_flatMap.1 hx
  exact upperFullC12_stable c x hxc

/-! ### upper-casing never produces a brace -/

theorem upperMulti_noBrace :
    (Gen.upperMultiMapC12.all fun p => p.2.all fun m => m.isValidChar && m != 123 && m != 125) = true := by decide

theorem upperPy_plain (s : Str) (hs : ∀ c ∈ s, c ≠ '{' ∧ c ≠ '}') : ∀ x ∈ upperPy s, x ≠ '{' ∧ x ≠ '}' := by
  intro x hx
  obtain ⟨c, hc, hxc⟩ := List.mem_flatMap.1 hx
  unfold upperFullC12 at hxc
  cases hm : lookupMulti c.toNat Gen.upperMultiMapC12 with
  | some l =>
    rw [hm] at hxc
    obtain ⟨m, hml, rfl⟩ := List.mem_map.1 hxc
    obtain ⟨k, hk⟩ := lookupMulti_mem hm
    have := upperMulti_noBrace
    simp only [List.all_eq_true, Bool.and_eq_true, decide_eq_true_eq, bne_iff_ne, ne_eq] at this
    obtain ⟨⟨hv, h1⟩, h2⟩ := this (k, l) hk m hml
    constructor
    · intro h; apply h1; rw [← toNat_ofNat_valid hv, h]; rfl
    · intro h; apply h2; rw [← toNat_ofNat_valid hv, h]; rfl
  | none =>
    rw [hm] at hxc
    simp only [List.mem_singleton] at hxc
    subst hxc
    have h := hs c hc
    exact ⟨fun e => h.1 ((upperUC_struct struct_chars.1).1 e),
           fun e => h.2 ((upperUC_struct struct_chars.2.1).1 e)⟩

/-- brace-free strings, no other hypothesis (length-changing letters included): upper-casing is idempotent -/
theorem changeCaseW_plain_u_idem (s r : Str) (hs : ∀ c ∈ s, c ≠ '{' ∧ c ≠ '}')
    (h : changeCaseW pyWordOps s .u = some r) : changeCaseW pyWordOps r .u = some r := by
  rw [changeCaseW_plain_u s hs] at h
  cases h
  rw [changeCaseW_plain_u _ (upperPy_plain s hs), upperPy_idem]

/-! ### the braces clause for every string: token by token -/

/-- next state of the title-case automaton after a brace-level-0 token -/
def caseNextW (st : CaseState) (t : Str) : CaseState :=
  if t = [':'] then .afterColon
  else if (t ≠ [] ∧ t.all isWs) ∧ st = .afterColon then .start
  else .normal

/-- the tokens of the result, one per token of the input -/
def caseToksW (o : WordOps) (m : CaseMode) : CaseState → List Tok → List Tok
  | _, [] => []
  | st, (t, 0) :: r => (convertStrW o m st t, 0) :: caseToksW o m (caseNextW st t) r
  | st, (t, l + 1) :: r =>
    ((if l + 1 = 1 ∧ startsWithBackslash t then convertSpecialW o m st t else t), l + 1) :: caseToksW o m st r

theorem changeCaseAuxW_eq (o : WordOps) (m : CaseMode) (toks : List Tok) : ∀ st,
    changeCaseAuxW o m st toks = ((caseToksW o m st toks).map Prod.fst).flatten := by
  induction toks with
  | nil => intro st; simp [changeCaseAuxW, caseToksW]
  | cons t r ih =>
    intro st
    obtain ⟨t, l⟩ := t
    cases l with
    | zero => simp only [changeCaseAuxW, caseToksW, caseNextW, ih, List.map_cons, List.flatten_cons]
    | succ l => simp only [changeCaseAuxW, caseToksW, ih, List.map_cons, List.flatten_cons]

/-- what `change_case` may do to one word of a special character -/
def WordRelW (o : WordOps) (w w' : Str) : Prop :=
  (startsWithBackslash w = true → w' = w) ∧ (w' = w ∨ w' = o.lowerW w ∨ w' = o.upperW w)

theorem convertStrW_cases (o : WordOps) (m : CaseMode) (st : CaseState) (w : Str) :
    convertStrW o m st w = w ∨ convertStrW o m st w = o.lowerW w ∨ convertStrW o m st w = o.upperW w := by
  cases m
  · exact Or.inr (Or.inl rfl)
  · exact Or.inr (Or.inr rfl)
  · simp only [convertStrW]; split
    · exact Or.inl rfl
    · exact Or.inr (Or.inl rfl)

theorem forall₂_map_selfW {α β} (f : α → β) (R : α → β → Prop) (h : ∀ a, R a (f a)) :
    ∀ l : List α, List.Forall₂ R l (l.map f)
  | [] => List.Forall₂.nil
  | a :: l => List.Forall₂.cons (h a) (forall₂_map_selfW f R h l)

/-- relation between a token and its image -/
def CaseTokRelW (o : WordOps) (t t' : Tok) : Prop :=
  t'.2 = t.2 ∧
  (1 ≤ t.2 → ¬ (t.2 = 1 ∧ startsWithBackslash t.1 = true) → t'.1 = t.1) ∧
  (t.2 = 1 → startsWithBackslash t.1 = true →
    ∃ ws', t'.1 = joinWith [' '] ws' ∧ List.Forall₂ (WordRelW o) (splitSpace t.1) ws')

theorem caseToksW_rel (o : WordOps) (m : CaseMode) (toks : List Tok) : ∀ st,
    List.Forall₂ (CaseTokRelW o) toks (caseToksW o m st toks) := by
  induction toks with
  | nil => intro st; exact List.Forall₂.nil
  | cons t r ih =>
    intro st
    obtain ⟨t, l⟩ := t
    cases l with
    | zero =>
      simp only [caseToksW]
      refine List.Forall₂.cons ⟨rfl, ?_, ?_⟩ (ih _)
      · intro h; simp at h
      · intro h; simp at h
    | succ l =>
      simp only [caseToksW]
      refine List.Forall₂.cons ⟨rfl, ?_, ?_⟩ (ih _)
      · intro _ hn
        show (if l + 1 = 1 ∧ startsWithBackslash t = true then convertSpecialW o m st t else t) = t
        rw [if_neg hn]
      · intro h1 h2
        have h1' : l + 1 = 1 := h1
        show ∃ ws', (if l + 1 = 1 ∧ startsWithBackslash t = true then convertSpecialW o m st t else t) = joinWith [' '] ws' ∧ _
        rw [if_pos ⟨h1', h2⟩]
        refine ⟨(splitSpace t).map fun w => if startsWithBackslash w then w else convertStrW o m st w, rfl, ?_⟩
        apply forall₂_map_selfW
        intro w
        constructor
        · intro hw; simp [hw]
        · by_cases hw : startsWithBackslash w = true
          · simp [hw]
          · simp only [hw, Bool.false_eq_true, if_false]
            exact convertStrW_cases o m st w

end Pybtex.TeXU
